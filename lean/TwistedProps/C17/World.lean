import TwistedProps.C17.Recv
/-! C17 helper lemmas: loseConnection, the scheduler steps, the invariant of every reachable world. -/
namespace TwistedProps.C17
open Twisted.Transport.Tls

theorem aggFlush_agg (s : Side) : s.aggFlush.agg = [] := by
  unfold Side.aggFlush
  split
  · assumption
  · rfl

/-- setting the ghost `closed` once nothing is waiting in the aggregator, in a state that already refuses writes -/
theorem GoodV.close1 {v : V} (h : GoodV v) (ha : v.agg = []) (hd : v.disc = true ∨ v.lost = true) :
    GoodV { v with closed := true } := by
  obtain ⟨⟨p1, p2⟩, r⟩ := h
  refine ⟨⟨p1, ?_⟩, ⟨r.rm, ?_, fun _ => rfl, r.ag, r.g2p, r.g2e, r.late, r.cn⟩⟩
  · intro hl; have := p2 hl; simp only [aggPart, ha] at this; simpa [aggPart] using this
  · intro _ hl
    rcases hd with hd | hd
    · exact hd
    · have hl' : v.lost = false := hl
      simp [hl'] at hd

theorem GoodV.close2 {v : V} (h : GoodV v) (ha : v.agg = []) (ab : Bool) :
    GoodV { v with closed := true, disc := true, aborted := v.aborted || ab } := by
  obtain ⟨⟨p1, p2⟩, r⟩ := h
  refine ⟨⟨p1, ?_⟩, ⟨r.rm, fun _ _ => rfl, fun _ => rfl, r.ag, r.g2p, ?_, r.late, r.cn⟩⟩
  · intro hl; have := p2 hl; simp only [aggPart, ha] at this; simpa [aggPart] using this
  · intro hab
    have : v.aborted = false := by
      have hab' : (v.aborted || ab) = false := hab
      cases hva : v.aborted <;> simp [hva] at hab' ⊢
    exact r.g2e this

theorem view_abort (s : Side) :
    view s.abortConnection = { view s with disc := true, aborted := true } := by
  unfold Side.abortConnection
  rw [view_tLose, view_shutdownTLS]; rfl

theorem tlsLose_good (s : Side) (h : Good s) (ha : s.agg = []) :
    Good (Side.tlsLoseConnection { s with closed := true }) ∧
    Keep s (Side.tlsLoseConnection { s with closed := true }) := by
  unfold Side.tlsLoseConnection
  split
  · rename_i hc
    refine ⟨?_, ⟨rfl, rfl⟩⟩
    apply GoodV.close1 h ha
    have hc' : (s.disc || !s.connected) = true := hc
    cases hd : s.disc
    · right
      have : s.connected = false := by simpa [hd] using hc'
      exact h.rest.cn this
    · left; exact hd
  · simp only []
    have key : ∀ (x : Side) (ab : Bool),
        view x = { view s with closed := true, disc := true, aborted := (view s).aborted || ab } →
        Good x ∧ Keep s x := by
      intro x ab hx
      have e1 : x.lostN = (view x).lostN := rfl
      have e2 : x.tGone = (view x).tGone := rfl
      unfold Good Keep
      rw [e1, e2, hx]
      exact ⟨GoodV.close2 h ha _, rfl, rfl⟩
    have hy := view_abort { s with closed := true }
    split
    · -- abort path
      split
      · apply key _ true
        rw [view_shutdownTLS]
        show ({ view (Side.abortConnection { s with closed := true }) with disc := true } : V) = _
        rw [hy]; simp [view]
      · apply key _ true
        show ({ view (Side.abortConnection { s with closed := true }) with disc := true } : V) = _
        rw [hy]; simp [view]
    · split
      · apply key _ false
        rw [view_shutdownTLS]
        simp [view]
      · apply key _ false
        simp [view]

theorem appLose_good (s : Side) (h : Good s) : Good s.appLose ∧ Keep s s.appLose := by
  unfold Side.appLose
  simp only []
  split
  · obtain ⟨g1, k1⟩ := aggFlush_good s h
    obtain ⟨g2, k2⟩ := tlsLose_good _ g1 (aggFlush_agg s)
    exact ⟨g2, k1.trans k2⟩
  · rename_i hb
    have hb' : s.buffering = false := by simpa using hb
    exact tlsLose_good s h (h.rest.ag hb')

/-! ## the two endpoints -/

def G3 (s : Side) : Prop := s.lostN = (if s.tGone then 1 else 0)

structure Inv (w : World) : Prop where
  gc : Good w.c
  gs : Good w.s
  c3 : G3 w.c
  s3 : G3 w.s

theorem Inv.get {w : World} (h : Inv w) (who : Who) : Good (w.get who) ∧ G3 (w.get who) := by
  cases who
  · exact ⟨h.gc, h.c3⟩
  · exact ⟨h.gs, h.s3⟩

theorem Inv.set {w : World} (h : Inv w) (who : Who) (x : Side) (g : Good x) (g3 : G3 x) : Inv (w.set who x) := by
  cases who
  · exact ⟨g, h.gs, g3, h.s3⟩
  · exact ⟨h.gc, g, h.c3, g3⟩

theorem G3.keep {s s' : Side} (h : G3 s) (k : Keep s s') : G3 s' := by
  unfold G3 at *; rw [k.1, k.2]; exact h

theorem step_inv (w : World) (op : Op) (h : Inv w) : Inv (w.step op) := by
  cases op with
  | W who st n =>
    obtain ⟨g, g3⟩ := h.get who
    obtain ⟨g', k⟩ := appWrite_good _ (pat st n) g
    exact h.set who _ g' (g3.keep k)
  | L who =>
    obtain ⟨g, g3⟩ := h.get who
    obtain ⟨g', k⟩ := appLose_good _ g
    exact h.set who _ g' (g3.keep k)
  | T who =>
    obtain ⟨g, g3⟩ := h.get who
    obtain ⟨g', k⟩ := tick_good _ g
    exact h.set who _ g' (g3.keep k)
  | D who n =>
    unfold World.step
    simp only []
    split
    · exact h
    · rename_i hc
      obtain ⟨g, g3⟩ := h.get who
      obtain ⟨gp, gp3⟩ := h.get who.other
      have hg : (w.get who).tGone = false := by
        cases hh : (w.get who).tGone
        · rfl
        · simp [hh] at hc
      have h0 : (w.get who).lostN = 0 := by unfold G3 at g3; simpa [hg] using g3
      obtain ⟨g', k⟩ := dataReceived_good _ (List.take n (w.get who.other).out) g h0
      have hp : Inv (w.set who.other { w.get who.other with out := (w.get who.other).out.drop n }) :=
        h.set who.other _ gp gp3
      have : (w.set who.other { w.get who.other with out := (w.get who.other).out.drop n }).set who
          ((w.get who).dataReceived (List.take n (w.get who.other).out)) = _ := rfl
      exact hp.set who _ g' (g3.keep k)
  | F who =>
    unfold World.step
    simp only []
    split
    · rename_i hc
      obtain ⟨g, g3⟩ := h.get who
      have hg : (w.get who).tGone = false := by
        cases hh : (w.get who).tGone
        · rfl
        · simp [hh] at hc
      have h0 : (w.get who).lostN = 0 := by unfold G3 at g3; simpa [hg] using g3
      have g1 : Good { w.get who with tGone := true } := by
        obtain ⟨⟨p1, p2⟩, r⟩ := g
        exact ⟨⟨p1, p2⟩, ⟨r.rm, r.k1, r.k2, r.ag, r.g2p, r.g2e, r.late, r.cn⟩⟩
      obtain ⟨g', l1, l2⟩ := connectionLost_good { w.get who with tGone := true } g1 h0
      refine h.set who _ g' ?_
      unfold G3; rw [l1, l2]; rfl
    · exact h
  | E who =>
    unfold World.step
    simp only []
    split
    · rename_i hc
      obtain ⟨g, g3⟩ := h.get who
      have hg : (w.get who).tGone = false := by
        cases hh : (w.get who).tGone
        · rfl
        · simp [hh] at hc
      have h0 : (w.get who).lostN = 0 := by unfold G3 at g3; simpa [hg] using g3
      have g1 : Good { w.get who with tDisc := true, tGone := true } := by
        obtain ⟨⟨p1, p2⟩, r⟩ := g
        exact ⟨⟨p1, p2⟩, ⟨r.rm, r.k1, r.k2, r.ag, r.g2p, r.g2e, r.late, r.cn⟩⟩
      obtain ⟨g', l1, l2⟩ := connectionLost_good { w.get who with tDisc := true, tGone := true } g1 h0
      refine h.set who _ g' ?_
      unfold G3; rw [l1, l2]; rfl
    · exact h

theorem run_inv (ops : List Op) (w : World) (h : Inv w) : Inv (w.run ops) := by
  induction ops generalizing w with
  | nil => exact h
  | cons op ops ih => exact ih _ (step_inv w op h)

theorem drain_inv (n : Nat) (w : World) (h : Inv w) : Inv (w.drain n) := by
  induction n generalizing w with
  | zero => exact h
  | succ n ih => exact ih _ (run_inv _ w h)

theorem start_good (isClient : Bool) (k recMax : Nat) (buffering : Bool) (hook : Option (Nat × Nat))
    (hr : 0 < recMax) : Good (Side.start isClient k recMax buffering hook) ∧ G3 (Side.start isClient k recMax buffering hook) := by
  have g0 : Good { e := { isClient := isClient, k := k, recMax := recMax }, buffering := buffering, hook := hook } := by
    refine ⟨⟨by simp [view], by simp [view, aggPart]⟩, ⟨hr, by simp [view], by simp [view], by simp [view], by simp [view],
      by simp [view], rfl, by simp [view]⟩⟩
  obtain ⟨g, k⟩ := checkHandshake_good _ g0
  exact ⟨g, G3.keep (by simp [G3]) k⟩

theorem init_inv (k : Nat) (cc cs : Cfg) (hc : 0 < cc.recMax) (hs : 0 < cs.recMax) : Inv (World.init k cc cs) := by
  obtain ⟨a, b⟩ := start_good true k cc.recMax cc.buffering cc.hook hc
  obtain ⟨c, d⟩ := start_good false k cs.recMax cs.buffering cs.hook hs
  exact ⟨a, c, b, d⟩

end TwistedProps.C17
