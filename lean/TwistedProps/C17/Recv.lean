import TwistedProps.C17.Write
/-! C17 helper lemmas: handshake, receive path, connectionLost preserve the local invariant. -/
namespace TwistedProps.C17
open Twisted.Transport.Tls

theorem good_of_view_eq {s s' : Side} (hv : view s' = view s) (h : Good s) : Good s' ∧ Keep s s' := by
  unfold Good Keep
  have e1 : s'.lostN = (view s').lostN := rfl
  have e2 : s'.tGone = (view s').tGone := rfl
  rw [e1, e2, hv]
  exact ⟨h, rfl, rfl⟩

theorem tlsShutdownFinished_good (s : Side) (h : Good s) :
    Good s.tlsShutdownFinished ∧ Keep s s.tlsShutdownFinished := by
  unfold Good Keep
  have e1 : s.tlsShutdownFinished.lostN = (view s.tlsShutdownFinished).lostN := rfl
  have e2 : s.tlsShutdownFinished.tGone = (view s.tlsShutdownFinished).tGone := rfl
  rw [e1, e2, view_tlsShutdownFinished]
  exact ⟨h.setLost, rfl, rfl⟩

theorem checkHandshake_good (s : Side) (h : Good s) : Good s.checkHandshake ∧ Keep s s.checkHandshake := by
  unfold Side.checkHandshake
  split
  · exact ⟨h, Keep.rfl' s⟩
  · have hg := doHandshake_ghost s.e
    generalize s.e.doHandshake = r at hg
    obtain ⟨e', r⟩ := r
    obtain ⟨h1, h2, h3, h4⟩ := hg
    simp only at h1 h2 h3 h4
    cases r
    · -- ok
      simp only
      have hv1 : view { s with e := e', hsDone := true, hsN := s.hsN + 1 } = view s := by
        simp [view, h1, h2, h3, h4]
      obtain ⟨g1, k1⟩ := good_of_view_eq hv1 h
      split
      · rename_i st n _
        have := appWrite_good _ (pat st n) g1
        exact ⟨this.1, k1.trans this.2⟩
      · exact ⟨g1, k1⟩
    · simp only
      apply good_of_view_eq _ h
      rw [view_flushSend]; simp [view, h1, h2, h3, h4]
    · simp only
      have hv1 : view { s with e := e' } = view s := by simp [view, h1, h2, h3, h4]
      obtain ⟨g1, k1⟩ := good_of_view_eq hv1 h
      have := tlsShutdownFinished_good _ g1
      exact ⟨this.1, k1.trans this.2⟩
    · simp only
      have hv1 : view { s with e := e' } = view s := by simp [view, h1, h2, h3, h4]
      obtain ⟨g1, k1⟩ := good_of_view_eq hv1 h
      have := tlsShutdownFinished_good _ g1
      exact ⟨this.1, k1.trans this.2⟩

theorem GoodV.recv_keep {v : V} (h : GoodV v) (t b pl' : Bytes) (h2 : v.plain ++ t = b ++ pl')
    (hb : v.aborted = true ∨ b = []) : GoodV { v with plain := pl', recvPlain := v.recvPlain ++ t } := by
  obtain ⟨⟨p1, p2⟩, r⟩ := h
  refine ⟨⟨p1, p2⟩, ⟨r.rm, r.k1, r.k2, r.ag, r.g2p.trans (List.prefix_append _ _), ?_, r.late, r.cn⟩⟩
  intro ha
  have hb' : b = [] := by
    rcases hb with hb | hb
    · have ha' : v.aborted = false := ha
      simp [ha'] at hb
    · exact hb
  subst hb'
  have := r.g2e ha
  show v.rcvd ++ pl' = v.recvPlain ++ t
  simp at h2
  rw [← h2, ← this]; simp

theorem GoodV.recv_data {v : V} (h : GoodV v) (t b pl' : Bytes) (h2 : v.plain ++ t = b ++ pl')
    (ha : v.aborted = false) :
    GoodV { v with rcvd := v.rcvd ++ b, plain := pl', recvPlain := v.recvPlain ++ t } := by
  obtain ⟨⟨p1, p2⟩, r⟩ := h
  have e : v.rcvd ++ b ++ pl' = v.recvPlain ++ t := by
    rw [List.append_assoc, ← h2, ← r.g2e ha]; simp
  refine ⟨⟨p1, p2⟩, ⟨r.rm, r.k1, r.k2, r.ag, ?_, fun _ => e, r.late, r.cn⟩⟩
  show v.rcvd ++ b <+: v.recvPlain ++ t
  rw [← e]; exact List.prefix_append _ _

theorem recvLoop_good (f : Nat) (s : Side) (h : Good s) (h0 : s.lostN = 0) :
    Good (Side.recvLoop f s) ∧ Keep s (Side.recvLoop f s) := by
  induction f generalizing s with
  | zero => exact ⟨h, Keep.rfl' s⟩
  | succ f ih =>
    unfold Side.recvLoop
    split
    · exact ⟨h, Keep.rfl' s⟩
    · have hs := recvF_spec 32768 (s.e.inB.length + 2) s.e
      have hrecv : s.e.recv 32768 = Eng.recvF 32768 (s.e.inB.length + 2) s.e := rfl
      rw [hrecv]
      generalize Eng.recvF 32768 (s.e.inB.length + 2) s.e = r at hs
      obtain ⟨e', r, b⟩ := r
      obtain ⟨t, h1, h2, h3, h4, h5⟩ := hs
      simp only at h1 h2 h3 h4 h5
      have hvk : (s.aborted = true ∨ b = []) → Good { s with e := e' } ∧ Keep s { s with e := e' } := by
        intro hb
        have g := GoodV.recv_keep h t b e'.plain h2 hb
        have hv : view { s with e := e' } = { view s with plain := e'.plain, recvPlain := (view s).recvPlain ++ t } := by
          simp [view, h1, h3, h4]
        refine ⟨?_, ⟨rfl, rfl⟩⟩
        unfold Good; rw [hv]; exact g
      cases r
      · -- ok: data for the application
        simp only
        split
        · rename_i ha
          obtain ⟨g1, k1⟩ := hvk (Or.inl ha)
          have := ih _ g1 (by rw [k1.1]; exact h0)
          exact ⟨this.1, k1.trans this.2⟩
        · rename_i ha
          have ha' : (view s).aborted = false := by
            have : s.aborted = false := by simpa using ha
            exact this
          have g := GoodV.recv_data h t b e'.plain h2 ha'
          have hv : view (Side.appData { s with e := e' } b) =
              { view s with rcvd := (view s).rcvd ++ b, plain := e'.plain, recvPlain := (view s).recvPlain ++ t } := by
            have hl : s.late = false := h.rest.late
            simp [view, Side.appData, h1, h3, h4, h0, hl]
          have g1 : Good (Side.appData { s with e := e' } b) := by unfold Good; rw [hv]; exact g
          have k1 : Keep s (Side.appData { s with e := e' } b) := ⟨rfl, rfl⟩
          have := ih _ g1 (by rw [k1.1]; exact h0)
          exact ⟨this.1, k1.trans this.2⟩
      · simp only
        exact hvk (Or.inr (h5 (by simp)))
      · simp only
        obtain ⟨g1, k1⟩ := hvk (Or.inr (h5 (by simp)))
        obtain ⟨g2, k2⟩ := shutdownTLS_good _ g1
        obtain ⟨g3, k3⟩ := tlsShutdownFinished_good _ g2
        have kk := (k1.trans k2).trans k3
        have := ih _ g3 (by rw [kk.1]; exact h0)
        exact ⟨this.1, kk.trans this.2⟩
      · simp only
        obtain ⟨g1, k1⟩ := hvk (Or.inr (h5 (by simp)))
        obtain ⟨g3, k3⟩ := tlsShutdownFinished_good _ g1
        have kk := k1.trans k3
        have := ih _ g3 (by rw [kk.1]; exact h0)
        exact ⟨this.1, kk.trans this.2⟩

theorem flushReceive_good (s : Side) (h : Good s) (h0 : s.lostN = 0) :
    Good s.flushReceive ∧ Keep s s.flushReceive := by
  unfold Side.flushReceive
  obtain ⟨g1, k1⟩ := recvLoop_good (s.e.plain.length + s.e.inB.length + 2) s h h0
  obtain ⟨g2, k2⟩ := good_of_view_eq (view_flushSend _) g1
  exact ⟨g2, k1.trans k2⟩

theorem dataReceived_tail (s1 : Side) (g1 : Good s1) (h0 : s1.lostN = 0) :
    Good (if !s1.hsDone then s1 else Side.flushReceive (if s1.buf ≠ [] then Side.unbuffer s1 else s1)) ∧
    Keep s1 (if !s1.hsDone then s1 else Side.flushReceive (if s1.buf ≠ [] then Side.unbuffer s1 else s1)) := by
  split
  · exact ⟨g1, Keep.rfl' s1⟩
  · split
    · obtain ⟨g2, k2⟩ := unbuffer_good _ g1
      have := flushReceive_good _ g2 (by rw [k2.1]; exact h0)
      exact ⟨this.1, k2.trans this.2⟩
    · exact flushReceive_good _ g1 h0

theorem dataReceived_head (s0 : Side) (g0 : Good s0) :
    Good (if s0.hsDone then s0 else Side.checkHandshake s0) ∧
    Keep s0 (if s0.hsDone then s0 else Side.checkHandshake s0) := by
  split
  · exact ⟨g0, Keep.rfl' s0⟩
  · exact checkHandshake_good _ g0

theorem dataReceived_good (s : Side) (b : Bytes) (h : Good s) (h0 : s.lostN = 0) :
    Good (s.dataReceived b) ∧ Keep s (s.dataReceived b) := by
  have hv0 : view { s with e := s.e.bioWrite b } = view s := by simp [view, Eng.bioWrite]
  obtain ⟨g0, k0⟩ := good_of_view_eq hv0 h
  obtain ⟨g1, k1⟩ := dataReceived_head _ g0
  have kk := k0.trans k1
  obtain ⟨g2, k2⟩ := dataReceived_tail _ g1 (by rw [kk.1]; exact h0)
  exact ⟨g2, kk.trans k2⟩

theorem GoodV.gone {v : V} (h : GoodV v) (hl : v.lost = true) (n : Nat) :
    GoodV { v with connected := false, lostN := n } := by
  obtain ⟨⟨p1, p2⟩, r⟩ := h
  exact ⟨⟨p1, p2⟩, ⟨r.rm, r.k1, r.k2, r.ag, r.g2p, r.g2e, r.late, fun _ => hl⟩⟩

theorem connectionLost_good (s : Side) (h : Good s) (h0 : s.lostN = 0) :
    Good s.connectionLost ∧ s.connectionLost.lostN = 1 ∧ s.connectionLost.tGone = s.tGone := by
  unfold Side.connectionLost
  simp only []
  split
  · rename_i hl
    exact ⟨GoodV.gone h hl _, by simp [h0], rfl⟩
  · have hv0 : view { s with e := { s.e with eof := true } } = view s := by simp [view]
    obtain ⟨g0, k0⟩ := good_of_view_eq hv0 h
    obtain ⟨g1, k1⟩ := flushReceive_good _ g0 (by rw [k0.1]; exact h0)
    have kk := k0.trans k1
    refine ⟨GoodV.gone (v := { view (Side.flushReceive { s with e := { s.e with eof := true } }) with lost := true })
      g1.setLost rfl _, ?_, ?_⟩
    · show (Side.flushReceive { s with e := { s.e with eof := true } }).lostN + 1 = 1
      rw [kk.1, h0]
    · exact kk.2

end TwistedProps.C17
