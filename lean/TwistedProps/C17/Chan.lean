import TwistedModel.Transport.Tls
/-!
C17 helper lemmas: the engine-pair contract, part 1 — records, the channel invariant seen from the sending endpoint
(`SInvE`) and from the receiving endpoint (`RInvE`), and the four engine operations.

The byte stream of a direction X → Y that is still "in flight" is
    `Y.e.inB ++ X.out ++ tail`          (receive BIO of Y, the fake wire, the send BIO of X)
where `tail = X.e.outB` as long as X's transport has not been told to close (`tDisc = false`); afterwards
`FakeTransport.write` drops everything, so the wire is cut at an arbitrary byte and `tail` is whatever would have
followed.  The invariant says that this stream is the encoding `enc rs` of a list `rs` of well-formed records and
that `recvPlain(Y) ++ dataOf rs = sentPlain(X)`; `AOK` adds the ordering of the close_notify alert.
-/
namespace TwistedProps.C17
open Twisted.Transport.Tls

abbrev Rec := UInt8 × Bytes

def enc : List Rec → Bytes
  | [] => []
  | r :: rs => record r.1 r.2 ++ enc rs

def dataOf : List Rec → Bytes
  | [] => []
  | r :: rs => (if r.1 = recData then r.2 else []) ++ dataOf rs

/-- application data in records that follow the first close_notify -/
def tailData : List Rec → Bytes
  | [] => []
  | r :: rs => if r.1 = recAlert then dataOf rs else tailData rs

def okRecs (rs : List Rec) : Prop := ∀ r ∈ rs, r.2.length ≤ 255
def noAlert (rs : List Rec) : Prop := ∀ r ∈ rs, r.1 ≠ recAlert

theorem enc_append (a b : List Rec) : enc (a ++ b) = enc a ++ enc b := by
  induction a with
  | nil => rfl
  | cons r a ih => simp [enc, ih]

theorem dataOf_append (a b : List Rec) : dataOf (a ++ b) = dataOf a ++ dataOf b := by
  induction a with
  | nil => rfl
  | cons r a ih => simp [dataOf, ih]

theorem tailData_of_dataOf_nil (rs : List Rec) (h : dataOf rs = []) : tailData rs = [] := by
  induction rs with
  | nil => rfl
  | cons r rs ih =>
    simp only [dataOf, List.append_eq_nil_iff] at h
    simp only [tailData]
    split
    · exact h.2
    · exact ih h.2

theorem tailData_snoc (rs : List Rec) (r : Rec) (h : tailData rs = []) (hr : r.1 = recData → noAlert rs) :
    tailData (rs ++ [r]) = [] := by
  induction rs with
  | nil =>
    simp only [List.nil_append, tailData]
    split <;> rfl
  | cons q rs ih =>
    simp only [List.cons_append, tailData] at h ⊢
    split
    · rename_i hq
      rw [if_pos hq] at h
      rw [dataOf_append, h]
      simp only [dataOf, List.nil_append, List.append_nil]
      split
      · rename_i hd
        exact absurd hq (hr hd q (by simp))
      · rfl
    · rename_i hq
      rw [if_neg hq] at h
      exact ih h (fun hd x hx => hr hd x (by simp [hx]))

theorem okRecs_snoc {rs : List Rec} {r : Rec} (h : okRecs rs) (hr : r.2.length ≤ 255) : okRecs (rs ++ [r]) := by
  intro x hx
  simp only [List.mem_append, List.mem_singleton] at hx
  rcases hx with hx | hx
  · exact h x hx
  · subst hx; exact hr

theorem noAlert_snoc {rs : List Rec} {r : Rec} (h : noAlert rs) (hr : r.1 ≠ recAlert) : noAlert (rs ++ [r]) := by
  intro x hx
  simp only [List.mem_append, List.mem_singleton] at hx
  rcases hx with hx | hx
  · exact h x hx
  · subst hx; exact hr

/-- parsing the first complete record of the receive BIO yields the first record of the in-flight list -/
theorem head?_spec {rs : List Rec} {inB Z : Bytes} {ty : UInt8} {p rest : Bytes} (hok : okRecs rs)
    (he : inB ++ Z = enc rs) (hh : head? inB = some (ty, p, rest)) :
    ∃ rs', rs = (ty, p) :: rs' ∧ rest ++ Z = enc rs' := by
  unfold head? at hh
  split at hh
  · rename_i t n r
    split at hh
    · exact absurd hh (by simp)
    · rename_i hlen
      simp only [Option.some.injEq, Prod.mk.injEq] at hh
      obtain ⟨h1, h2, h3⟩ := hh
      cases rs with
      | nil => simp [enc] at he
      | cons q rs' =>
        obtain ⟨qt, qp⟩ := q
        simp only [enc, record, List.cons_append, List.cons.injEq] at he
        obtain ⟨e1, e2, e3⟩ := he
        have hq : qp.length ≤ 255 := hok (qt, qp) (by simp)
        have hn : n.toNat = qp.length := by
          rw [e2]
          show (UInt8.ofNat qp.length).toNat = qp.length
          simp [UInt8.toNat_ofNat']
          omega
        have hlen' : qp.length ≤ r.length := by omega
        have e4 := List.append_eq_append_iff.mp e3
        have hp : r.take qp.length = qp ∧ r.drop qp.length ++ Z = enc rs' := by
          rcases e4 with ⟨a, ha, hb⟩ | ⟨c, hc, hd⟩
          · -- qp = r ++ a
            have : a = [] := by
              have := congrArg List.length ha
              simp at this
              apply List.length_eq_zero_iff.mp; omega
            subst this
            simp at ha hb
            subst ha
            simp [hb]
          · -- r = qp ++ c
            subst hc
            simp [hd]
        refine ⟨rs', ?_, ?_⟩
        · rw [← h1, ← h2, hn, hp.1, e1]
        · rw [← h3, hn]; exact hp.2
  · exact absurd hh (by simp)

/-! ## ordering of close_notify -/

structure AOK (rs : List Rec) (xsd ysd : Bool) : Prop where
  seen : ysd = true → xsd = true ∧ dataOf rs = []
  none : xsd = false → noAlert rs
  tail : tailData rs = []

theorem AOK.nil : AOK [] false false := ⟨by simp, fun _ r hr => by simp at hr, rfl⟩

/-- the sender appends a record -/
theorem AOK.snoc {rs : List Rec} {xsd ysd : Bool} (h : AOK rs xsd ysd) (r : Rec) (hd : r.1 = recData → xsd = false) :
    AOK (rs ++ [r]) (xsd || r.1 == recAlert) ysd := by
  refine ⟨?_, ?_, ?_⟩
  · intro hy
    obtain ⟨h1, h2⟩ := h.seen hy
    refine ⟨by simp [h1], ?_⟩
    rw [dataOf_append, h2]
    simp only [dataOf, List.nil_append, List.append_nil]
    split
    · rename_i hr; have := hd hr; simp [h1] at this
    · rfl
  · intro hx
    have hx1 : xsd = false := by cases xsd <;> simp_all
    have hx2 : r.1 ≠ recAlert := by
      intro hr; simp [hr] at hx
    exact noAlert_snoc (h.none hx1) hx2
  · exact tailData_snoc rs r h.tail (fun hr => h.none (hd hr))

/-- the receiver consumes the first record -/
theorem AOK.tail_of_cons {r : Rec} {rs : List Rec} {xsd ysd : Bool} (h : AOK (r :: rs) xsd ysd) :
    AOK rs xsd (ysd || r.1 == recAlert) := by
  by_cases hr : r.1 = recAlert
  · have ht := h.tail
    simp only [tailData, hr, if_true] at ht
    refine ⟨fun _ => ⟨?_, ht⟩, fun hx => ?_, tailData_of_dataOf_nil rs ht⟩
    · cases hx : xsd
      · exact absurd hr (h.none hx r (by simp))
      · rfl
    · exact fun x hx' => h.none hx x (by simp [hx'])
  · have e : (ysd || r.1 == recAlert) = ysd := by simp [hr]
    rw [e]
    refine ⟨fun hy => ?_, fun hx x hx' => h.none hx x (by simp [hx']), ?_⟩
    · obtain ⟨h1, h2⟩ := h.seen hy
      simp only [dataOf, List.append_eq_nil_iff] at h2
      exact ⟨h1, h2.2⟩
    · have ht := h.tail
      simpa only [tailData, hr, if_false] using ht

/-! ## the channel invariant, sender's and receiver's half -/

/-- direction X → Y seen from X: `pre`, `rp`, `ysd` are Y's receive BIO, `recvPlain` and `recvSD` -/
def SInvE (e : Eng) (out : Bytes) (td : Bool) (pre rp : Bytes) (ysd : Bool) : Prop :=
  e.recMax ≤ 255 ∧ ∃ rs tail, okRecs rs ∧ pre ++ out ++ tail = enc rs ∧ (td = false → tail = e.outB) ∧
    rp ++ dataOf rs = e.sentPlain ∧ AOK rs e.sentSD ysd

/-- direction X → Y seen from Y: `Z`, `sp`, `xsd` are the rest of the stream, X's `sentPlain` and `sentSD` -/
def RInvE (e : Eng) (Z sp : Bytes) (xsd : Bool) : Prop :=
  ∃ rs, okRecs rs ∧ e.inB ++ Z = enc rs ∧ e.recvPlain ++ dataOf rs = sp ∧ AOK rs xsd e.recvSD

/-- `e'` is what an engine operation made of `e`: both halves of both directions are preserved -/
def EPres (e e' : Eng) : Prop :=
  (∀ out td pre rp ysd, SInvE e out td pre rp ysd → SInvE e' out td pre rp ysd) ∧
  (∀ Z sp xsd, RInvE e Z sp xsd → RInvE e' Z sp xsd)

theorem EPres.refl (e : Eng) : EPres e e := ⟨fun _ _ _ _ _ h => h, fun _ _ _ h => h⟩
theorem EPres.trans {a b c : Eng} (h1 : EPres a b) (h2 : EPres b c) : EPres a c :=
  ⟨fun o t p r y h => h2.1 o t p r y (h1.1 o t p r y h), fun z s x h => h2.2 z s x (h1.2 z s x h)⟩

theorem SInvE.congr {e e' : Eng} {out : Bytes} {td : Bool} {pre rp : Bytes} {ysd : Bool}
    (h : SInvE e out td pre rp ysd) (h1 : e'.recMax = e.recMax) (h2 : e'.outB = e.outB)
    (h3 : e'.sentPlain = e.sentPlain) (h4 : e'.sentSD = e.sentSD) : SInvE e' out td pre rp ysd := by
  unfold SInvE at *
  rw [h1, h2, h3, h4]; exact h

theorem RInvE.congr {e e' : Eng} {Z sp : Bytes} {xsd : Bool} (h : RInvE e Z sp xsd) (h1 : e'.inB = e.inB)
    (h2 : e'.recvPlain = e.recvPlain) (h3 : e'.recvSD = e.recvSD) : RInvE e' Z sp xsd := by
  unfold RInvE at *
  rw [h1, h2, h3]; exact h

/-- the engine appends one record to its send BIO -/
theorem SInvE.emit {e e' : Eng} {out : Bytes} {td : Bool} {pre rp : Bytes} {ysd : Bool}
    (h : SInvE e out td pre rp ysd) (ty : UInt8) (p : Bytes) (hp : p.length ≤ 255)
    (hd : ty = recData → e.sentSD = false) (h1 : e'.recMax = e.recMax) (h2 : e'.outB = e.outB ++ record ty p)
    (h3 : e'.sentPlain = e.sentPlain ++ (if ty = recData then p else []))
    (h4 : e'.sentSD = (e.sentSD || ty == recAlert)) : SInvE e' out td pre rp ysd := by
  obtain ⟨hm, rs, tail, a1, a2, a3, a4, a5⟩ := h
  refine ⟨h1 ▸ hm, rs ++ [(ty, p)], tail ++ record ty p, okRecs_snoc a1 hp, ?_, ?_, ?_, ?_⟩
  · rw [enc_append, ← a2]; simp [enc]
  · intro ht; rw [h2, a3 ht]
  · rw [h3, dataOf_append, ← a4]; simp [dataOf]
  · rw [h4]; exact a5.snoc (ty, p) hd

/-- the engine consumes the first record of its receive BIO -/
theorem RInvE.consume {e e' : Eng} {Z sp : Bytes} {xsd : Bool} (h : RInvE e Z sp xsd) {ty : UInt8} {p rest : Bytes}
    (hh : head? e.inB = some (ty, p, rest)) (h1 : e'.inB = rest)
    (h2 : e'.recvPlain = e.recvPlain ++ (if ty = recData then p else []))
    (h3 : e'.recvSD = (e.recvSD || ty == recAlert)) : RInvE e' Z sp xsd := by
  obtain ⟨rs, a1, a2, a3, a4⟩ := h
  obtain ⟨rs', b1, b2⟩ := head?_spec a1 a2 hh
  subst b1
  refine ⟨rs', fun r hr => a1 r (by simp [hr]), by rw [h1]; exact b2, ?_, ?_⟩
  · rw [h2, ← a3]; simp [dataOf]
  · rw [h3]; exact a4.tail_of_cons

end TwistedProps.C17
