import TwistedProps.C17.Chan
/-!
C17 helper lemmas: the engine-pair contract, part 2 — every engine operation, every method of an endpoint and every
scheduler step preserves the channel invariant of both directions (`WInv`).
-/
namespace TwistedProps.C17
open Twisted.Transport.Tls

/-! ## engine operations -/

theorem EPres.of_fields {e e' : Eng} (h1 : e'.recMax = e.recMax) (h2 : e'.outB = e.outB)
    (h3 : e'.sentPlain = e.sentPlain) (h4 : e'.sentSD = e.sentSD) (h5 : e'.inB = e.inB)
    (h6 : e'.recvPlain = e.recvPlain) (h7 : e'.recvSD = e.recvSD) : EPres e e' :=
  ⟨fun _ _ _ _ _ h => h.congr h1 h2 h3 h4, fun _ _ _ h => h.congr h5 h6 h7⟩

theorem send_pres (e : Eng) (d : Bytes) : EPres e (e.send d).1 := by
  unfold Eng.send
  split
  · exact EPres.refl _
  · split
    · exact EPres.refl _
    · split
      · exact EPres.refl _
      · simp only []
        split
        · exact EPres.refl _
        · rename_i h1 h2 h3 h4
          refine ⟨fun out td pre rp ysd h => ?_, fun Z sp xsd h => h.congr rfl rfl rfl⟩
          have hm := h.1
          refine h.emit recData (d.take (min d.length e.recMax)) ?_ (fun _ => by simpa using h2) rfl rfl ?_ ?_
          · simp only [List.length_take]; omega
          · simp
          · simp [recData, recAlert]

theorem doHandshakeF_pres (f : Nat) (e : Eng) : EPres e (Eng.doHandshakeF f e).1 := by
  induction f generalizing e with
  | zero => exact EPres.refl _
  | succ f ih =>
    unfold Eng.doHandshakeF
    split
    · exact EPres.refl _
    · split
      · exact EPres.refl _
      · split
        · refine EPres.trans ?_ (ih _)
          refine ⟨fun out td pre rp ysd h => ?_, fun Z sp xsd h => h.congr rfl rfl rfl⟩
          refine h.emit recHandshake [UInt8.ofNat (e.seen % 256)] (by simp) (by simp [recHandshake, recData]) rfl rfl ?_ ?_
          · simp [recHandshake, recData]
          · simp [recHandshake, recAlert]
        · split
          · exact EPres.refl _
          · rename_i ty p rest hh
            split
            · exact EPres.of_fields rfl rfl rfl rfl rfl rfl rfl
            · rename_i hty
              have hty' : ty = recHandshake := by simpa using hty
              refine EPres.trans ?_ (ih _)
              refine ⟨fun out td pre rp ysd h => h.congr rfl rfl rfl rfl, fun Z sp xsd h => ?_⟩
              refine h.consume hh rfl ?_ ?_
              · simp [hty', recHandshake, recData]
              · simp [hty', recHandshake, recAlert]

theorem doHandshake_pres (e : Eng) : EPres e e.doHandshake.1 := doHandshakeF_pres _ e

theorem recvF_pres (n f : Nat) (e : Eng) : EPres e (Eng.recvF n f e).1 := by
  induction f generalizing e with
  | zero => exact EPres.refl _
  | succ f ih =>
    unfold Eng.recvF
    split
    · exact EPres.of_fields rfl rfl rfl rfl rfl rfl rfl
    · split
      · exact EPres.refl _
      · split
        · exact EPres.refl _
        · split
          · exact EPres.refl _
          · split
            · exact EPres.refl _
            · rename_i ty p rest hh
              split
              · rename_i hty
                refine EPres.trans ?_ (ih _)
                refine ⟨fun out td pre rp ysd h => h.congr rfl rfl rfl rfl, fun Z sp xsd h => ?_⟩
                refine h.consume hh rfl ?_ ?_
                · simp [hty]
                · simp [hty, recData, recAlert]
              · split
                · rename_i hty
                  refine ⟨fun out td pre rp ysd h => h.congr rfl rfl rfl rfl, fun Z sp xsd h => ?_⟩
                  refine h.consume hh rfl ?_ ?_
                  · simp [hty, recData, recAlert]
                  · simp [hty]
                · exact EPres.of_fields rfl rfl rfl rfl rfl rfl rfl

theorem recv_pres (e : Eng) (n : Nat) : EPres e (e.recv n).1 := recvF_pres _ _ e

theorem shutdown_pres (e : Eng) : EPres e e.shutdown.1 := by
  unfold Eng.shutdown
  split
  · exact EPres.refl _
  · split
    · exact EPres.refl _
    · split
      · exact EPres.refl _
      · simp only []
        split
        · exact EPres.refl _
        · refine ⟨fun out td pre rp ysd h => ?_, fun Z sp xsd h => h.congr rfl rfl rfl⟩
          refine h.emit recAlert [] (by simp) (by simp [recData, recAlert]) rfl rfl ?_ ?_
          · simp [recData, recAlert]
          · simp

/-! ## one endpoint -/

def SInv (s : Side) : Bytes → Bytes → Bool → Prop := SInvE s.e s.out s.tDisc
def RInv (s : Side) : Bytes → Bytes → Bool → Prop := RInvE s.e

/-- `s'` is what a method of the endpoint made of `s`: both halves of both directions are preserved -/
def Pres (s s' : Side) : Prop :=
  (∀ pre rp ysd, SInv s pre rp ysd → SInv s' pre rp ysd) ∧ (∀ Z sp xsd, RInv s Z sp xsd → RInv s' Z sp xsd)

theorem Pres.refl (s : Side) : Pres s s := ⟨fun _ _ _ h => h, fun _ _ _ h => h⟩
theorem Pres.trans {a b c : Side} (h1 : Pres a b) (h2 : Pres b c) : Pres a c :=
  ⟨fun p r y h => h2.1 p r y (h1.1 p r y h), fun z s x h => h2.2 z s x (h1.2 z s x h)⟩

theorem Pres.of_e {s s' : Side} (h : EPres s.e s'.e) (ho : s'.out = s.out) (ht : s'.tDisc = s.tDisc) : Pres s s' := by
  refine ⟨fun p r y hh => ?_, fun z sp x hh => h.2 z sp x hh⟩
  unfold SInv at *
  rw [ho, ht]; exact h.1 _ _ p r y hh

theorem Pres.of_same {s s' : Side} (he : s'.e = s.e) (ho : s'.out = s.out) (ht : s'.tDisc = s.tDisc) : Pres s s' :=
  Pres.of_e (he ▸ EPres.refl _) ho ht

theorem tLose_pres (s : Side) : Pres s s.tLose := by
  refine ⟨fun p r y h => ?_, fun z sp x h => h⟩
  obtain ⟨hm, rs, tail, a1, a2, a3, a4, a5⟩ := h
  exact ⟨hm, rs, tail, a1, a2, fun ht => by simp [Side.tLose] at ht, a4, a5⟩

theorem flushSend_pres (s : Side) : Pres s s.flushSend := by
  unfold Side.flushSend
  split
  · exact Pres.refl _
  · unfold Side.tWrite
    split
    · rename_i ht
      have ht' : s.tDisc = true := ht
      refine ⟨fun p r y h => ?_, fun z sp x h => h.congr rfl rfl rfl⟩
      obtain ⟨hm, rs, tail, a1, a2, a3, a4, a5⟩ := h
      exact ⟨hm, rs, tail, a1, a2, fun hf => by simp [ht'] at hf, a4, a5⟩
    · rename_i ht
      have ht' : s.tDisc = false := by
        have : ¬ s.tDisc = true := ht
        simpa using this
      refine ⟨fun p r y h => ?_, fun z sp x h => h.congr rfl rfl rfl⟩
      obtain ⟨hm, rs, tail, a1, a2, a3, a4, a5⟩ := h
      have a3' := a3 ht'
      subst a3'
      refine ⟨hm, rs, s.e.outB.drop 32768, a1, ?_, fun _ => rfl, a4, a5⟩
      rw [← a2]
      show p ++ (s.out ++ List.take 32768 s.e.outB) ++ List.drop 32768 s.e.outB = p ++ s.out ++ s.e.outB
      simp [List.append_assoc]

theorem tlsShutdownFinished_pres (s : Side) : Pres s s.tlsShutdownFinished := by
  unfold Side.tlsShutdownFinished
  exact (Pres.of_same (s := s) (s' := { s with lost := true }) rfl rfl rfl).trans
    ((flushSend_pres _).trans (tLose_pres _))

theorem shutdownTLS_pres (s : Side) : Pres s s.shutdownTLS := by
  unfold Side.shutdownTLS
  simp only []
  have h1 : Pres s (Side.flushSend { s with e := s.e.shutdown.1 }) :=
    (Pres.of_e (s := s) (s' := { s with e := s.e.shutdown.1 }) (shutdown_pres s.e) rfl rfl).trans (flushSend_pres _)
  split
  · exact h1.trans (tLose_pres _)
  · exact h1

theorem writeLoop_pres (f : Nat) (rest : Bytes) (s : Side) : Pres s (Side.writeLoop f rest s) := by
  induction f generalizing rest s with
  | zero => exact Pres.refl _
  | succ f ih =>
    unfold Side.writeLoop
    split
    · exact Pres.refl _
    · have hs := send_pres s.e (rest.take 16384)
      generalize s.e.send (rest.take 16384) = r at hs
      obtain ⟨e', r, n⟩ := r
      have h0 : Pres s { s with e := e' } := Pres.of_e (s := s) (s' := { s with e := e' }) hs rfl rfl
      cases r <;> simp only
      · exact h0.trans ((flushSend_pres _).trans (ih _ _))
      · exact Pres.of_e (s := s) (s' := { s with e := e', buf := s.buf ++ [rest] }) hs rfl rfl
      · exact h0.trans (tlsShutdownFinished_pres _)
      · exact h0.trans (tlsShutdownFinished_pres _)

theorem write'_pres (s : Side) (b : Bytes) : Pres s (Side.write' s b) := by
  unfold Side.write'
  split
  · exact Pres.refl _
  · split
    · exact Pres.of_same rfl rfl rfl
    · exact writeLoop_pres _ _ _

theorem tlsWrite_pres (s : Side) (b : Bytes) : Pres s (s.tlsWrite b) := by
  unfold Side.tlsWrite
  split
  · exact Pres.refl _
  · exact write'_pres _ _

theorem aggFlush_pres (s : Side) : Pres s s.aggFlush := by
  unfold Side.aggFlush
  split
  · exact Pres.refl _
  · exact (Pres.of_same (s := s) (s' := { s with aggLeft := 64000 }) rfl rfl rfl).trans
      ((tlsWrite_pres _ _).trans (Pres.of_same rfl rfl rfl))

theorem aggWrite_pres (s : Side) (b : Bytes) : Pres s (s.aggWrite b) := by
  unfold Side.aggWrite
  simp only []
  have h0 : Pres s { s with agg := s.agg ++ [b], aggLeft := s.aggLeft - b.length } := Pres.of_same rfl rfl rfl
  split
  · exact h0.trans (aggFlush_pres _)
  · split
    · exact h0
    · exact Pres.of_same rfl rfl rfl

theorem transportWrite_pres (s : Side) (b : Bytes) : Pres s (s.transportWrite b) := by
  unfold Side.transportWrite
  split
  · exact aggWrite_pres _ _
  · exact tlsWrite_pres _ _

theorem appWrite_pres (s : Side) (b : Bytes) : Pres s (s.appWrite b) := by
  unfold Side.appWrite
  have h0 : Pres s (if s.closed then s else { s with accepted := s.accepted ++ b }) := by
    split
    · exact Pres.refl _
    · exact Pres.of_same rfl rfl rfl
  exact h0.trans (transportWrite_pres _ _)

theorem foldl_write'_pres (ps : List Bytes) (s : Side) : Pres s (ps.foldl Side.write' s) := by
  induction ps generalizing s with
  | nil => exact Pres.refl _
  | cons p ps ih => exact (write'_pres s p).trans (ih _)

theorem unbuffer_pres (s : Side) : Pres s s.unbuffer := by
  unfold Side.unbuffer
  simp only []
  have h0 : Pres s (s.buf.foldl Side.write' { s with buf := [] }) :=
    (Pres.of_same (s := s) (s' := { s with buf := [] }) rfl rfl rfl).trans (foldl_write'_pres _ _)
  split
  · exact h0
  · split
    · exact h0.trans (shutdownTLS_pres _)
    · exact h0

theorem checkHandshake_pres (s : Side) : Pres s s.checkHandshake := by
  unfold Side.checkHandshake
  split
  · exact Pres.refl _
  · have hs := doHandshake_pres s.e
    generalize s.e.doHandshake = r at hs
    obtain ⟨e', r⟩ := r
    have h0 : Pres s { s with e := e' } := Pres.of_e (s := s) (s' := { s with e := e' }) hs rfl rfl
    cases r <;> simp only
    · have h1 : Pres s { s with e := e', hsDone := true, hsN := s.hsN + 1 } :=
        Pres.of_e (s := s) (s' := { s with e := e', hsDone := true, hsN := s.hsN + 1 }) hs rfl rfl
      split
      · exact h1.trans (appWrite_pres _ _)
      · exact h1
    · exact h0.trans (flushSend_pres _)
    · exact h0.trans (tlsShutdownFinished_pres _)
    · exact h0.trans (tlsShutdownFinished_pres _)

theorem recvLoop_pres (f : Nat) (s : Side) : Pres s (Side.recvLoop f s) := by
  induction f generalizing s with
  | zero => exact Pres.refl _
  | succ f ih =>
    unfold Side.recvLoop
    split
    · exact Pres.refl _
    · have hs := recv_pres s.e 32768
      generalize s.e.recv 32768 = r at hs
      obtain ⟨e', r, b⟩ := r
      have h0 : Pres s { s with e := e' } := Pres.of_e (s := s) (s' := { s with e := e' }) hs rfl rfl
      cases r <;> simp only
      · refine Pres.trans ?_ (ih _)
        split
        · exact h0
        · exact h0.trans (Pres.of_same rfl rfl rfl)
      · exact h0
      · exact (h0.trans ((shutdownTLS_pres _).trans (tlsShutdownFinished_pres _))).trans (ih _)
      · exact (h0.trans (tlsShutdownFinished_pres _)).trans (ih _)

theorem flushReceive_pres (s : Side) : Pres s s.flushReceive := by
  unfold Side.flushReceive
  exact (recvLoop_pres _ _).trans (flushSend_pres _)

/-- `dataReceived` after the `bio_write` -/
def drHead (s0 : Side) : Side := if s0.hsDone then s0 else Side.checkHandshake s0
def drTail (s1 : Side) : Side :=
  if !s1.hsDone then s1
  else
    let s2 := if s1.buf ≠ [] then Side.unbuffer s1 else s1
    Side.flushReceive s2
def drRest (s0 : Side) : Side := drTail (drHead s0)

theorem dataReceived_eq (s : Side) (b : Bytes) : s.dataReceived b = drRest { s with e := s.e.bioWrite b } := rfl

theorem drHead_pres (s0 : Side) : Pres s0 (drHead s0) := by
  unfold drHead
  split
  · exact Pres.refl _
  · exact checkHandshake_pres _

theorem drTail_pres (s1 : Side) : Pres s1 (drTail s1) := by
  unfold drTail
  split
  · exact Pres.refl _
  · simp only []
    refine Pres.trans ?_ (flushReceive_pres _)
    split
    · exact unbuffer_pres _
    · exact Pres.refl _

theorem drRest_pres (s0 : Side) : Pres s0 (drRest s0) := (drHead_pres s0).trans (drTail_pres _)

theorem connectionLost_pres (s : Side) : Pres s s.connectionLost := by
  unfold Side.connectionLost
  simp only []
  refine Pres.trans ?_ (Pres.of_same rfl rfl rfl)
  split
  · exact Pres.refl _
  · have h0 : Pres s { s with e := { s.e with eof := true } } :=
      Pres.of_e (s := s) (s' := { s with e := { s.e with eof := true } })
        (EPres.of_fields rfl rfl rfl rfl rfl rfl rfl) rfl rfl
    exact h0.trans ((flushReceive_pres _).trans (Pres.of_same rfl rfl rfl))

theorem abortConnection_pres (s : Side) : Pres s s.abortConnection := by
  unfold Side.abortConnection
  exact (Pres.of_same (s := s) (s' := { s with aborted := true, disc := true }) rfl rfl rfl).trans
    ((shutdownTLS_pres _).trans (tLose_pres _))

theorem loseTail_pres (s1 : Side) :
    Pres s1 (if ({ s1 with disc := true } : Side).buf.isEmpty then Side.shutdownTLS { s1 with disc := true }
      else { s1 with disc := true }) := by
  split
  · exact (Pres.of_same (s := s1) (s' := { s1 with disc := true }) rfl rfl rfl).trans (shutdownTLS_pres _)
  · exact Pres.of_same rfl rfl rfl

theorem tlsLoseConnection_pres (s : Side) : Pres s s.tlsLoseConnection := by
  unfold Side.tlsLoseConnection
  split
  · exact Pres.refl _
  · have h1 : Pres s (if (!s.hsDone && s.buf.isEmpty) = true then Side.abortConnection s else s) := by
      split
      · exact abortConnection_pres _
      · exact Pres.refl _
    exact h1.trans (loseTail_pres _)

theorem appLose_pres (s : Side) : Pres s s.appLose := by
  unfold Side.appLose
  have h1 : Pres s (if s.buffering = true then Side.aggFlush s else s) := by
    split
    · exact aggFlush_pres _
    · exact Pres.refl _
  exact h1.trans ((Pres.of_same (s' := { (if s.buffering = true then Side.aggFlush s else s) with closed := true })
    rfl rfl rfl).trans (tlsLoseConnection_pres _))

theorem tick_pres (s : Side) : Pres s s.tick := by
  unfold Side.tick
  split
  · exact (Pres.of_same (s := s) (s' := { s with aggSched := false }) rfl rfl rfl).trans (aggFlush_pres _)
  · exact Pres.refl _

/-! ## the two endpoints -/

/-- the channel invariant of direction `x → y` -/
def Chan (x y : Side) : Prop := SInv x y.e.inB y.e.recvPlain y.e.recvSD

theorem chan_iff (x y : Side) :
    Chan x y ↔ x.e.recMax ≤ 255 ∧ ∃ tail, (x.tDisc = false → tail = x.e.outB) ∧
      RInv y (x.out ++ tail) x.e.sentPlain x.e.sentSD := by
  unfold Chan SInv RInv SInvE RInvE
  constructor
  · rintro ⟨hm, rs, tail, a1, a2, a3, a4, a5⟩
    exact ⟨hm, tail, a3, rs, a1, by simpa [List.append_assoc] using a2, a4, a5⟩
  · rintro ⟨hm, tail, a3, rs, a1, a2, a4, a5⟩
    exact ⟨hm, rs, tail, a1, by simpa [List.append_assoc] using a2, a3, a4, a5⟩

theorem Chan.sender {x x' y : Side} (h : Chan x y) (p : Pres x x') : Chan x' y := p.1 _ _ _ h

theorem Chan.receiver {x y y' : Side} (h : Chan x y) (p : Pres y y') : Chan x y' := by
  rw [chan_iff] at h ⊢
  obtain ⟨hm, tail, a3, hr⟩ := h
  exact ⟨hm, tail, a3, p.2 _ _ _ hr⟩

/-- the network moves the first `n` bytes of `x`'s wire into `y`'s receive BIO -/
theorem Chan.move {x y : Side} (h : Chan x y) (n : Nat) :
    Chan { x with out := x.out.drop n } { y with e := y.e.bioWrite (x.out.take n) } := by
  obtain ⟨hm, rs, tail, a1, a2, a3, a4, a5⟩ := h
  refine ⟨hm, rs, tail, a1, ?_, a3, a4, a5⟩
  rw [← a2]
  show y.e.inB ++ List.take n x.out ++ List.drop n x.out ++ tail = y.e.inB ++ x.out ++ tail
  simp [List.append_assoc]

theorem Chan.move' {x y : Side} (h : Chan y x) (n : Nat) (b : Bytes) :
    Chan { y with e := y.e.bioWrite b } { x with out := x.out.drop n } := by
  obtain ⟨hm, rs, tail, a1, a2, a3, a4, a5⟩ := h
  exact ⟨hm, rs, tail, a1, a2, a3, a4, a5⟩

/-- the engine-pair + wire invariant of a world: both directions -/
structure WInv (w : World) : Prop where
  cs : Chan w.c w.s
  sc : Chan w.s w.c

theorem WInv.set {w : World} (h : WInv w) (who : Who) (x' : Side) (p : Pres (w.get who) x') : WInv (w.set who x') := by
  cases who
  · exact ⟨h.cs.sender p, h.sc.receiver p⟩
  · exact ⟨h.cs.receiver p, h.sc.sender p⟩

theorem WInv.deliver {w : World} (h : WInv w) (who : Who) (n : Nat) :
    WInv ((w.set who.other { w.get who.other with out := (w.get who.other).out.drop n }).set who
      ((w.get who).dataReceived (List.take n (w.get who.other).out))) := by
  cases who
  · have h1 : WInv { c := { w.c with e := w.c.e.bioWrite (w.s.out.take n) }, s := { w.s with out := w.s.out.drop n } } :=
      ⟨h.cs.move' n _, h.sc.move n⟩
    exact h1.set .c _ (drRest_pres _)
  · have h1 : WInv { c := { w.c with out := w.c.out.drop n }, s := { w.s with e := w.s.e.bioWrite (w.c.out.take n) } } :=
      ⟨h.cs.move n, h.sc.move' n _⟩
    exact h1.set .s _ (drRest_pres _)

theorem step_winv (w : World) (op : Op) (h : WInv w) : WInv (w.step op) := by
  cases op with
  | W who st n => exact h.set who _ (appWrite_pres _ _)
  | L who => exact h.set who _ (appLose_pres _)
  | T who => exact h.set who _ (tick_pres _)
  | D who n =>
    unfold World.step
    simp only []
    split
    · exact h
    · exact h.deliver who n
  | F who =>
    unfold World.step
    simp only []
    split
    · exact h.set who _ ((Pres.of_same (s := w.get who) (s' := { w.get who with tGone := true }) rfl rfl rfl).trans
        (connectionLost_pres _))
    · exact h
  | E who =>
    unfold World.step
    simp only []
    split
    · have h0 : Pres (w.get who) { w.get who with tDisc := true, tGone := true } :=
        (tLose_pres (w.get who)).trans (Pres.of_same rfl rfl rfl)
      exact h.set who _ (h0.trans (connectionLost_pres _))
    · exact h

theorem run_winv (ops : List Op) (w : World) (h : WInv w) : WInv (w.run ops) := by
  induction ops generalizing w with
  | nil => exact h
  | cons op ops ih => exact ih _ (step_winv w op h)

theorem drain_winv (n : Nat) (w : World) (h : WInv w) : WInv (w.drain n) := by
  induction n generalizing w with
  | zero => exact h
  | succ n ih => exact ih _ (run_winv _ w h)

theorem init_winv (k : Nat) (cc cs : Cfg) (hc : cc.recMax ≤ 255) (hs : cs.recMax ≤ 255) : WInv (World.init k cc cs) := by
  let c0 : Side := { e := { isClient := true, k := k, recMax := cc.recMax }, buffering := cc.buffering, hook := cc.hook }
  let s0 : Side := { e := { isClient := false, k := k, recMax := cs.recMax }, buffering := cs.buffering, hook := cs.hook }
  have h0 : WInv { c := c0, s := s0 } := by
    constructor
    · exact ⟨hc, [], [], fun r hr => by simp at hr, rfl, fun _ => rfl, rfl, AOK.nil⟩
    · exact ⟨hs, [], [], fun r hr => by simp at hr, rfl, fun _ => rfl, rfl, AOK.nil⟩
  have h1 := (h0.set .c _ (checkHandshake_pres c0)).set .s _ (checkHandshake_pres s0)
  exact h1

/-- THE ENGINE-PAIR CONTRACT, part 1: what `y`'s engine has decoded is a prefix of what `x`'s engine accepted -/
theorem Chan.prefix {x y : Side} (h : Chan x y) : y.e.recvPlain <+: x.e.sentPlain := by
  obtain ⟨_, rs, _, _, _, _, a4, _⟩ := h
  exact ⟨dataOf rs, a4⟩

/-- part 2: once `y`'s engine has read `x`'s close_notify it has decoded everything `x`'s engine ever accepted -/
theorem Chan.exact {x y : Side} (h : Chan x y) (hy : y.e.recvSD = true) :
    y.e.recvPlain = x.e.sentPlain ∧ x.e.sentSD = true := by
  obtain ⟨_, rs, _, _, _, _, a4, a5⟩ := h
  obtain ⟨h1, h2⟩ := a5.seen hy
  rw [h2] at a4
  exact ⟨by simpa using a4, h1⟩

/-- part 3: when nothing is in flight the two ghosts agree -/
theorem Chan.drained {x y : Side} (h : Chan x y) (h1 : y.e.inB = []) (h2 : x.out = []) (h3 : x.e.outB = [])
    (h4 : x.tDisc = false) : y.e.recvPlain = x.e.sentPlain := by
  obtain ⟨_, rs, tail, _, a2, a3, a4, _⟩ := h
  have ht := a3 h4
  rw [h1, h2, ht, h3] at a2
  cases rs with
  | nil => simpa [dataOf] using a4
  | cons r rs => simp [enc, record] at a2

theorem WInv.chan {w : World} (h : WInv w) (who : Who) : Chan (w.get who.other) (w.get who) := by
  cases who
  · exact h.sc
  · exact h.cs

end TwistedProps.C17
