import TwistedProps.C11.Ops
namespace TwistedProps.C11
open Twisted.Reactor.Cooperator

/-- nothing that has happened is undone: a finished task keeps its completion state and result,
    a fired whenDone Deferred keeps its value -/
structure Mono (s s' : State) : Prop where
  comp : ∀ u c, (s.getTask u).completion = some c →
    (s'.getTask u).completion = some c ∧ (s'.getTask u).result = (s.getTask u).result
  obs : ∀ (o t : Nat) (r : Result), s.observers[o]? = some (t, some r) → s'.observers[o]? = some (t, some r)

theorem Mono.refl (s : State) : Mono s s := ⟨fun _ _ h => ⟨h, rfl⟩, fun _ _ _ h => h⟩
theorem Mono.trans {a b c : State} (h1 : Mono a b) (h2 : Mono b c) : Mono a c :=
  ⟨fun u k h => ⟨(h2.comp u k (h1.comp u k h).1).1, ((h2.comp u k (h1.comp u k h).1).2).trans (h1.comp u k h).2⟩,
   fun o t r h => h2.obs o t r (h1.obs o t r h)⟩

theorem Mono.of_eq {s s' : State} (ht : s'.tasks = s.tasks) (ho : s'.observers = s.observers) : Mono s s' :=
  ⟨fun u c h => by
      have e : s'.getTask u = s.getTask u := by simp [State.getTask, ht]
      rw [e]; exact ⟨h, rfl⟩,
   fun o t r h => by rw [ho]; exact h⟩

theorem updTask_mono (s : State) (t : Nat) (f : Task → Task)
    (hf : ∀ k, (f k).completion = k.completion ∧ (f k).result = k.result) : Mono s (s.updTask t f) := by
  refine ⟨fun u c h => ?_, fun o t' r h => h⟩
  by_cases hu : u = t
  · subst hu
    by_cases hl : u < s.tasks.length
    · rw [getTask_updTask_same _ _ _ hl, (hf _).1, (hf _).2]; exact ⟨h, rfl⟩
    · rw [getTask_updTask_ge _ _ _ (Nat.le_of_not_lt hl)]; exact ⟨h, rfl⟩
  · rw [getTask_updTask_ne _ _ _ _ hu]; exact ⟨h, rfl⟩

theorem removeTask_observers (s : State) (t : Nat) : (removeTask s t).1.observers = s.observers := by
  unfold removeTask; split <;> rfl
theorem removeTask_mono (s : State) (t : Nat) : Mono s (removeTask s t).1 :=
  Mono.of_eq (removeTask_tasks s t) (removeTask_observers s t)

theorem reschedule_mono (s : State) : Mono s (reschedule s) := by
  apply Mono.of_eq (reschedule_same s).tasks
  unfold reschedule; split
  · rfl
  · split <;> rfl

theorem fireObs_mono (s : State) (o : Nat) (r : Result) : Mono s (fireObs s o r).1 := by
  refine ⟨fun u c h => by rw [(fireObs_same s o r).getTask]; exact ⟨h, rfl⟩, fun o' t r' h => ?_⟩
  unfold fireObs
  split
  · next owner heq =>
    show (s.observers.set o (owner, some r))[o']? = _
    by_cases e : o = o'
    · subst e; rw [heq] at h; simp at h
    · rw [List.getElem?_set_ne e]; exact h
  · exact h
  · exact h

theorem fireAll_mono (s : State) (os : List Nat) (r : Result) : Mono s (fireAll s os r).1 := by
  induction os generalizing s with
  | nil => exact Mono.refl s
  | cons o os ih =>
    unfold fireAll
    have h1 := fireObs_mono s o r
    split
    · next s' heq => rw [heq] at h1; exact h1.trans (ih s')
    · next s' e heq => rw [heq] at h1; exact h1

theorem completeWith_mono (s : State) (t : Nat) (c : Completion) (r : Result)
    (hc : (s.getTask t).completion = none) : Mono s (completeWith s t c r).1 := by
  have hmid : Mono s (cwMid s t c r) := by
    refine ⟨fun u k h => ?_, fun o t' r' h => ?_⟩
    · have hu : u ≠ t := by intro e; subst e; rw [hc] at h; simp at h
      rw [(cwMid_frame s t c r).task u hu]; exact ⟨h, rfl⟩
    · unfold cwMid; split
      · rw [removeTask_observers]; exact h
      · exact h
  refine hmid.trans ?_
  unfold completeWith cwMid
  by_cases hp : (s.getTask t).pc = 0
  · simp only [hp, if_true]
    split
    · next s2 e heq => rw [heq]; exact Mono.refl _
    · next s2 heq => rw [heq]; exact fireAll_mono _ _ _
  · simp only [hp, if_false]
    exact fireAll_mono _ _ _

theorem addTask_mono (s : State) (t : Nat) (hc : (s.getTask t).completion = none) : Mono s (addTask s t).1 := by
  unfold addTask
  have h1 : Mono s { s with cur := s.cur ++ [t] } := Mono.of_eq rfl rfl
  split
  · exact h1.trans (completeWith_mono _ t _ _ hc)
  · exact h1.trans (reschedule_mono _)

theorem pauseTask_mono (s : State) (t : Nat) (u : Bool) : Mono s (pauseTask s t u).1 := by
  cases hc : (s.getTask t).completion with
  | some c => rw [pauseTask_done s t u c hc]; exact Mono.refl s
  | none =>
    rw [pauseTask_live s t u hc]
    have h1 := updTask_mono s t (fun k => { k with pc := k.pc + 1, upc := if u then k.upc + 1 else k.upc })
      (fun k => ⟨rfl, rfl⟩)
    split
    · exact h1.trans (removeTask_mono _ t)
    · exact h1

theorem resumeTask_mono (s : State) (t : Nat) (u : Bool) : Mono s (resumeTask s t u).1 := by
  by_cases hp : (s.getTask t).pc = 0
  · rw [resumeTask_zero s t u hp]; exact Mono.refl s
  · rw [resumeTask_pos s t u hp]
    have h1 := updTask_mono s t (fun k => { k with pc := k.pc - 1, upc := if u then k.upc - 1 else k.upc })
      (fun k => ⟨rfl, rfl⟩)
    split
    · next hadd =>
      refine h1.trans (addTask_mono _ t ?_)
      by_cases hl : t < s.tasks.length
      · rw [getTask_updTask_same _ _ _ hl]; exact hadd.2
      · rw [getTask_updTask_ge _ _ _ (Nat.le_of_not_lt hl)]; exact hadd.2
    · exact h1

theorem stopTask_mono (s : State) (t : Nat) : Mono s (stopTask s t).1 := by
  unfold stopTask
  cases hc : (s.getTask t).completion with
  | some c => exact Mono.refl s
  | none => exact completeWith_mono s t _ _ hc

theorem failLater_mono (s : State) (t j : Nat) : Mono s (failLater s t j).1 := by
  unfold failLater; split
  · next hc => exact completeWith_mono s t _ _ hc
  · exact Mono.refl s

theorem workBody_mono (s : State) (t : Nat) (hc : (s.getTask t).completion = none) :
    Mono s (workBody s t).1 := by
  have hcu : ∀ f : Task → Task, (∀ k, (f k).completion = k.completion) →
      ((s.updTask t f).getTask t).completion = none := by
    intro f hf
    by_cases hl : t < s.tasks.length
    · rw [getTask_updTask_same _ _ _ hl, hf]; exact hc
    · rw [getTask_updTask_ge _ _ _ (Nat.le_of_not_lt hl)]; exact hc
  unfold workBody
  split
  · exact completeWith_mono s t _ _ hc
  · refine (updTask_mono s t (fun k => { k with script := [] }) (fun k => ⟨rfl, rfl⟩)).trans
      (completeWith_mono _ t _ _ ?_)
    exact hcu _ (fun k => rfl)
  · exact updTask_mono s t _ (fun k => ⟨rfl, rfl⟩)
  · next j rest hs =>
    have h1 := updTask_mono s t (fun k => { k with script := rest }) (fun k => ⟨rfl, rfl⟩)
    have h2 := pauseTask_mono (s.updTask t fun k => { k with script := rest }) t false
    dsimp only
    split
    · next s2 e heq => rw [heq] at h2; exact h1.trans h2
    · next s2 heq =>
      rw [heq] at h2
      have h12 := h1.trans h2
      split
      · exact h12.trans (updTask_mono s2 t _ (fun k => ⟨rfl, rfl⟩))
      · exact h12.trans (resumeTask_mono s2 t false)
      · exact h12.trans (failLater_mono s2 t j)

theorem workUnit_mono (s : State) (t : Nat) (hc : (s.getTask t).completion = none) :
    Mono s (workUnit s t).1 := by
  rw [workUnit_eq]
  have h0 : Mono s { s with log := recOf s t :: s.log } := Mono.of_eq rfl rfl
  exact h0.trans (workBody_mono _ t hc)

theorem metaNext_eqs (s : State) :
    (metaNext s).2.tasks = s.tasks ∧ (metaNext s).2.observers = s.observers := by
  unfold metaNext
  split
  · exact ⟨rfl, rfl⟩
  · split <;> exact ⟨rfl, rfl⟩
  · split <;> exact ⟨rfl, rfl⟩

theorem nextTask_mono (s : State) : Mono s (nextTask s).2 := by
  have hm := metaNext_eqs s
  rcases hmn : metaNext s with ⟨o, s'⟩
  rw [hmn] at hm
  cases o with
  | some t => rw [nextTask_some s s' t hmn]; exact Mono.of_eq hm.1 hm.2
  | none =>
    cases hc : s.cur with
    | nil => rw [nextTask_none_nil s s' hmn hc]; exact Mono.of_eq rfl rfl
    | cons t rest => rw [nextTask_none_cons s s' t rest hmn hc]; exact Mono.of_eq rfl rfl

theorem tickLoop_mono (fuel : Nat) (s : State) (h : Inv s) : Mono s (tickLoop fuel s).1 := by
  induction fuel generalizing s with
  | zero => exact Mono.refl s
  | succ n ih =>
    have hn := nextTask_spec s h
    have hm := nextTask_mono s
    unfold tickLoop
    split
    · next s' heq => rw [heq] at hm; exact hm
    · next t s1 heq =>
      rw [heq] at hn hm
      have hin := hn.2.2 t rfl
      have hc := ((hn.1.2 t).1.1 hin).2.2
      have hw := workUnit_inv s1 t hn.1 hin
      have hwm := workUnit_mono s1 t hc
      split
      · next s2 e heq2 => rw [heq2] at hwm; exact hm.trans hwm
      · next s2 heq2 => rw [heq2] at hwm hw; exact (hm.trans hwm).trans (ih s2 hw.1)

theorem tick_mono (s : State) (b : Nat) (h : Inv s) : Mono s (tick s b).1 := by
  unfold tick
  split
  · exact Mono.refl s
  · have h0 : Inv { s with scheduled := false } := h.congr rfl rfl rfl
    have m0 : Mono s { s with scheduled := false } := Mono.of_eq rfl rfl
    dsimp only
    split
    · exact m0.trans (reschedule_mono _)
    · have ht := tickLoop_mono b _ h0
      split
      · next s1 e heq => rw [heq] at ht; exact m0.trans ht
      · next s1 heq => rw [heq] at ht; exact (m0.trans ht).trans (reschedule_mono _)

theorem fireWaiters_mono (j : Nat) (ok : Bool) (ts : List Nat) (s : State) : Mono s (fireWaiters j ok s ts) := by
  induction ts generalizing s with
  | nil => exact Mono.refl s
  | cons t ts ih =>
    unfold fireWaiters
    refine Mono.trans ?_ (ih _)
    dsimp only
    split
    · have h1 := updTask_mono s t (fun k => { k with waitingOn := k.waitingOn.erase j }) (fun k => ⟨rfl, rfl⟩)
      split
      · exact h1.trans (resumeTask_mono _ t false)
      · exact h1.trans (failLater_mono _ t j)
    · exact Mono.refl s

theorem fire_mono (s : State) (j : Nat) (ok : Bool) : Mono s (fire s j ok).1 := by
  unfold fire
  split
  · exact Mono.refl s
  · exact (Mono.of_eq rfl rfl : Mono s { s with fired := (j, ok) :: s.fired }).trans (fireWaiters_mono j ok _ _)

theorem stopLoop_mono (ts : List Nat) (s : State) (h : Inv s) (hnd : ts.Nodup) (hsub : ∀ u ∈ ts, u ∈ s.cur) :
    Mono s (stopLoop ts s).1 := by
  induction ts generalizing s with
  | nil => exact Mono.refl s
  | cons t ts ih =>
    unfold stopLoop
    have hin := hsub t (by simp)
    have hc := ((h.2 t).1.1 hin).2.2
    have hp := ((h.2 t).1.1 hin).2.1
    have h1 := completeWith_inv' s t .schedStopped .schedulerStopped h
    have hm := completeWith_mono s t .schedStopped .schedulerStopped hc
    have hcur := completeWith_cur s t .schedStopped .schedulerStopped
    split
    · next s' e heq => rw [heq] at hm; exact hm
    · next s' heq =>
      rw [heq] at hm h1 hcur
      refine hm.trans (ih s' h1 (List.nodup_cons.1 hnd).2 ?_)
      intro u hu
      rw [hcur, if_pos hp]
      have hne : u ≠ t := by intro e; subst e; exact (List.nodup_cons.1 hnd).1 hu
      exact (List.mem_erase_of_ne hne).2 (hsub u (by simp [hu]))

theorem coopStop_mono (s : State) (h : Inv s) : Mono s (coopStop s).1 := by
  unfold coopStop
  have h0 : Inv { s with stopped := true } := h.congr rfl rfl rfl
  have m0 : Mono s { s with stopped := true } := Mono.of_eq rfl rfl
  have hl := stopLoop_mono s.cur { s with stopped := true } h0 h.1.nodup (fun u hu => hu)
  dsimp only
  split
  · next s1 e heq => rw [heq] at hl; exact m0.trans hl
  · next s1 heq => rw [heq] at hl; exact (m0.trans hl).trans (Mono.of_eq rfl rfl)

theorem coopStart_mono (s : State) : Mono s (coopStart s) := by
  unfold coopStart
  dsimp only
  split
  · exact (Mono.of_eq rfl rfl : Mono s { s with stopped := false, started := true, mustSched := false }).trans
      (reschedule_mono _)
  · exact Mono.of_eq rfl rfl

theorem newTask_mono (s : State) (sc : List Item) : Mono s (newTask s sc).1 := by
  unfold newTask
  dsimp only
  have hnew : ({ s with tasks := s.tasks ++ [{ script := sc }] } : State).getTask s.tasks.length = { script := sc } := by
    simp [State.getTask]
  have h1 : Mono s { s with tasks := s.tasks ++ [{ script := sc }] } := by
    refine ⟨fun u c hc => ?_, fun o t r ho => ho⟩
    have hl : u < s.tasks.length := by
      apply Classical.byContradiction; intro hl
      rw [getTask_ge s u hl] at hc
      have hd : (default : Task).completion = none := rfl
      rw [hd] at hc; simp at hc
    have : ({ s with tasks := s.tasks ++ [{ script := sc }] } : State).getTask u = s.getTask u := by
      simp [State.getTask, List.getElem?_append_left hl]
    rw [this]; exact ⟨hc, rfl⟩
  exact h1.trans (addTask_mono _ _ (by rw [hnew]))

theorem whenDone_mono (s : State) (t : Nat) : Mono s (whenDone s t) := by
  unfold whenDone
  dsimp only
  have happ : ∀ x : Nat × Option Result, Mono s { s with observers := s.observers ++ [x] } := by
    intro x
    refine ⟨fun u c hc => ⟨hc, rfl⟩, fun o t' r ho => ?_⟩
    show (s.observers ++ [x])[o]? = _
    have hlt : o < s.observers.length := by
      apply Classical.byContradiction; intro hl
      rw [List.getElem?_eq_none (by omega)] at ho; simp at ho
    rw [List.getElem?_append_left hlt]; exact ho
  split
  · exact (happ _).trans (updTask_mono _ t _ (fun k => ⟨rfl, rfl⟩))
  · exact happ _

theorem step_mono (s : State) (op : Op) (h : Inv s) : Mono s (step s op).1 := by
  cases op with
  | new sc => exact newTask_mono s sc
  | coiter sc =>
    simp only [step]
    have hn := newTask_mono s sc
    split
    · next s1 e heq => rw [heq] at hn; exact hn
    · next s1 heq => rw [heq] at hn; exact hn.trans (whenDone_mono s1 _)
  | pause t => simp only [step]; split
               · exact pauseTask_mono s t true
               · exact Mono.refl s
  | resume t => simp only [step]; split
                · exact resumeTask_mono s t true
                · exact Mono.refl s
  | stop t => simp only [step]; split
              · exact stopTask_mono s t
              · exact Mono.refl s
  | whenDone t => simp only [step]; split
                  · exact whenDone_mono s t
                  · exact Mono.refl s
  | tick b => exact tick_mono s b h
  | fire j ok => exact fire_mono s j ok
  | cstop => exact coopStop_mono s h
  | cstart => exact coopStart_mono s

end TwistedProps.C11
