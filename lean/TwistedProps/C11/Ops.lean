import TwistedProps.C11.Tick
namespace TwistedProps.C11
open Twisted.Reactor.Cooperator

/-! Deferred firing -/
theorem fireWaiters_step_inv (j : Nat) (ok : Bool) (s : State) (t : Nat) (h : Inv s) :
    let s' := if j ∈ (s.getTask t).waitingOn then
        (if ok then (resumeTask (s.updTask t fun k => { k with waitingOn := k.waitingOn.erase j }) t false).1
         else (failLater (s.updTask t fun k => { k with waitingOn := k.waitingOn.erase j }) t j).1)
      else s
    Inv s' ∧ s'.log = s.log := by
  intro s'
  show Inv s' ∧ s'.log = s.log
  simp only [s']
  split
  · next hj =>
    have hl : t < s.tasks.length := by
      apply Classical.byContradiction; intro hl
      rw [getTask_ge s t hl] at hj
      have hd : (default : Task).waitingOn = [] := rfl
      rw [hd] at hj; simp at hj
    have hfr := updTask_frame s t (fun k => { k with waitingOn := k.waitingOn.erase j })
    have hE := (h.except t).frame hfr
    have hlen := List.length_erase_of_mem hj
    have hpos : 0 < (s.getTask t).waitingOn.length := List.length_pos_of_mem hj
    have hmem : t ∉ s.cur := by
      intro hin
      have hg := (h.2 t).1.1 hin
      have := (h.2 t).2 hg.2.2
      have := hg.2.1
      omega
    split
    · refine ⟨resumeTask_inv _ t false hE (by simpa using hl) hmem ?_, by rw [resumeTask_log]; rfl⟩
      rw [getTask_updTask_same _ _ _ hl]
      intro hc
      have := (h.2 t).2 hc
      simp; omega
    · exact ⟨failLater_inv _ t j hE (by simpa using hl) hmem, by rw [failLater_log]; rfl⟩
  · exact ⟨h, rfl⟩

theorem fireWaiters_inv (j : Nat) (ok : Bool) (ts : List Nat) (s : State) (h : Inv s) :
    Inv (fireWaiters j ok s ts) ∧ (fireWaiters j ok s ts).log = s.log := by
  induction ts generalizing s with
  | nil => exact ⟨h, rfl⟩
  | cons t ts ih =>
    unfold fireWaiters
    have h1 := fireWaiters_step_inv j ok s t h
    have h2 := ih _ h1.1
    exact ⟨h2.1, h2.2.trans h1.2⟩

theorem fire_inv (s : State) (j : Nat) (ok : Bool) (h : Inv s) :
    Inv (fire s j ok).1 ∧ (fire s j ok).1.log = s.log := by
  unfold fire
  split
  · exact ⟨h, rfl⟩
  · exact fireWaiters_inv j ok _ _ (h.congr rfl rfl rfl)

/-! Cooperator.stop -/
theorem stopLoop_inv (ts : List Nat) (s : State) (h : Inv s) :
    Inv (stopLoop ts s).1 ∧ (stopLoop ts s).1.log = s.log := by
  induction ts generalizing s with
  | nil => exact ⟨h, rfl⟩
  | cons t ts ih =>
    unfold stopLoop
    have h1 := completeWith_inv' s t .schedStopped .schedulerStopped h
    have hl1 := completeWith_log s t .schedStopped .schedulerStopped
    split
    · next s' e heq => rw [heq] at h1 hl1; exact ⟨h1, hl1⟩
    · next s' heq =>
      rw [heq] at h1 hl1
      have := ih s' h1
      exact ⟨this.1, this.2.trans hl1⟩

theorem stopLoop_empties (ts : List Nat) (s s1 : State) (h : Inv s) (hsub : ∀ u ∈ s.cur, u ∈ ts)
    (hres : stopLoop ts s = (s1, none)) : s1.cur = [] := by
  induction ts generalizing s with
  | nil =>
    simp [stopLoop] at hres; subst hres
    exact List.eq_nil_iff_forall_not_mem.2 fun u hu => by simpa using hsub u hu
  | cons t ts ih =>
    unfold stopLoop at hres
    have h1 := completeWith_inv' s t .schedStopped .schedulerStopped h
    have hcur := completeWith_cur s t .schedStopped .schedulerStopped
    have hgt := completeWith_getTask s t .schedStopped .schedulerStopped
    have hlen := (completeWith_frame s t .schedStopped .schedulerStopped).len
    split at hres
    · simp at hres
    · next s' heq =>
      rw [heq] at h1 hcur hgt hlen
      refine ih s' h1 ?_ hres
      intro u hu
      have hu' : u ∈ s.cur := by
        rw [hcur] at hu
        split at hu
        · exact List.mem_of_mem_erase hu
        · exact hu
      rcases List.mem_cons.1 (hsub u hu') with e | e
      · exfalso
        subst e
        have hg := (h1.2 u).1.1 hu
        have hl : u < s.tasks.length := hlen ▸ hg.1
        have := hg.2.2
        rw [hgt hl] at this
        simp at this
      · exact e

theorem coopStop_inv (s : State) (h : Inv s) : Inv (coopStop s).1 ∧ (coopStop s).1.log = s.log := by
  unfold coopStop
  have h0 : Inv { s with stopped := true } := h.congr rfl rfl rfl
  have hl := stopLoop_inv s.cur { s with stopped := true } h0
  dsimp only
  split
  · next s1 e heq => rw [heq] at hl; exact hl
  · next s1 heq =>
    have hempty := stopLoop_empties s.cur { s with stopped := true } s1 h0 (fun u hu => hu) heq
    rw [heq] at hl
    refine ⟨⟨⟨List.nodup_nil, ?_⟩, fun u => ⟨⟨fun hin => by simp at hin, fun hg => ?_⟩, ?_⟩⟩, hl.2⟩
    · intro l i hm
      dsimp only at hm
      split at hm
      · simp at hm; rw [← hm.1, hempty]
      · next m hne => exact hl.1.1.stale l i hm
    · have : u ∈ s1.cur := (hl.1.2 u).1.2 hg
      rw [hempty] at this; simp at this
    · exact (hl.1.2 u).2

theorem coopStart_inv (s : State) (h : Inv s) : Inv (coopStart s) ∧ (coopStart s).log = s.log := by
  unfold coopStart
  dsimp only
  split
  · have hs := reschedule_same { s with stopped := false, started := true, mustSched := false }
    exact ⟨h.congr hs.tasks hs.cur hs.meta, hs.log⟩
  · exact ⟨h.congr rfl rfl rfl, rfl⟩

/-! creation, whenDone -/
theorem newTask_inv (s : State) (sc : List Item) (h : Inv s) :
    Inv (newTask s sc).1 ∧ (newTask s sc).1.log = s.log := by
  unfold newTask
  dsimp only
  have hget : ∀ u, u ≠ s.tasks.length →
      ({ s with tasks := s.tasks ++ [{ script := sc }] } : State).getTask u = s.getTask u := by
    intro u hu
    unfold State.getTask
    by_cases hlt : u < s.tasks.length
    · simp [List.getElem?_append_left hlt]
    · have e1 : (s.tasks ++ [({ script := sc } : Task)])[u]? = none :=
        List.getElem?_eq_none (by simp; omega)
      have e2 : s.tasks[u]? = none := List.getElem?_eq_none (by omega)
      simp only [e1, e2]
  have hE : InvExcept ({ s with tasks := s.tasks ++ [{ script := sc }] } : State) s.tasks.length := by
    refine ⟨⟨h.1.nodup, h.1.stale⟩, fun u hu => ?_⟩
    have := h.2 u
    unfold TaskOK MemOK CntOK good at *
    rw [hget u hu]
    simp only [List.length_append, List.length_singleton]
    constructor
    · rw [this.1]
      constructor
      · intro hg; exact ⟨by omega, hg.2⟩
      · intro hg; exact ⟨by omega, hg.2⟩
    · exact this.2
  have hnew : ({ s with tasks := s.tasks ++ [{ script := sc }] } : State).getTask s.tasks.length = { script := sc } := by
    simp [State.getTask]
  refine ⟨addTask_inv _ _ hE ?_ (by simp) (by rw [hnew]) (by rw [hnew]) ?_, by rw [addTask_log]⟩
  · intro hin; exact absurd ((h.2 _).1.1 hin).1 (Nat.lt_irrefl _)
  · unfold CntOK; rw [hnew]; intro _; rfl

theorem whenDone_inv (s : State) (t : Nat) (h : Inv s) (hl : t < s.tasks.length) :
    Inv (whenDone s t) ∧ (whenDone s t).log = s.log := by
  unfold whenDone
  dsimp only
  split
  · next hc =>
    have h0 : Inv { s with observers := s.observers ++ [(t, none)] } := h.congr rfl rfl rfl
    refine ⟨((h0.except t).frame (updTask_frame _ t _)).close ?_, rfl⟩
    have := h.2 t
    unfold TaskOK MemOK CntOK good at *
    rw [getTask_updTask_same { s with observers := s.observers ++ [(t, none)] } t _ hl]
    simpa [State.getTask] using this
  · exact ⟨h.congr rfl rfl rfl, rfl⟩

theorem stopTask_log (s : State) (t : Nat) : (stopTask s t).1.log = s.log := by
  unfold stopTask; split
  · rfl
  · rw [completeWith_log]

/-! all operations -/
def wfOp (s : State) : Op → Prop
  | .resume t => 0 < (s.getTask t).upc
  | _ => True

instance (s : State) (op : Op) : Decidable (wfOp s op) := by
  cases op <;> unfold wfOp <;> infer_instance

theorem step_inv (s : State) (op : Op) (h : Inv s) (hlog : LogOK s) (hw : wfOp s op) :
    Inv (step s op).1 ∧ LogOK (step s op).1 := by
  have key : ∀ s' : State, Inv s' ∧ s'.log = s.log → Inv s' ∧ LogOK s' :=
    fun s' hs => ⟨hs.1, by intro r hr; rw [hs.2] at hr; exact hlog r hr⟩
  cases op with
  | new sc => exact key _ (newTask_inv s sc h)
  | coiter sc =>
    simp only [step]
    have hn := newTask_inv s sc h
    split
    · next s1 e heq => rw [heq] at hn; exact key _ hn
    · next s1 heq =>
      rw [heq] at hn
      have hlen : s.tasks.length < s1.tasks.length := by
        have : s1 = (newTask s sc).1 := by rw [heq]
        rw [this]; unfold newTask addTask; dsimp only
        split
        · rw [(completeWith_frame _ _ _ _).len]; simp
        · rw [(reschedule_same _).tasks]; simp
      have hwd := whenDone_inv s1 s.tasks.length hn.1 hlen
      exact key _ ⟨hwd.1, hwd.2.trans hn.2⟩
  | pause t =>
    simp only [step]; split
    · exact key _ ⟨pauseTask_inv s t h, pauseTask_log s t true⟩
    · exact ⟨h, hlog⟩
  | resume t =>
    simp only [step]; split
    · next hl => exact key _ ⟨resumeTask_user_inv s t h hl hw, resumeTask_log s t true⟩
    · exact ⟨h, hlog⟩
  | stop t =>
    simp only [step]; split
    · exact key _ ⟨stopTask_inv s t h, stopTask_log s t⟩
    · exact ⟨h, hlog⟩
  | whenDone t =>
    simp only [step]; split
    · next hl => exact key _ (whenDone_inv s t h hl)
    · exact ⟨h, hlog⟩
  | tick b => exact tick_spec s b h hlog
  | fire j ok => exact key _ (fire_inv s j ok h)
  | cstop => exact key _ (coopStop_inv s h)
  | cstart => exact key _ (coopStart_inv s h)

end TwistedProps.C11
