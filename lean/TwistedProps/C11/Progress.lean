import TwistedProps.C11.ObsOps
/-! C11 — a scheduler tick with a non-empty `_tasks` performs at least one work unit. -/
namespace TwistedProps.C11
open Twisted.Reactor.Cooperator

theorem nextTask_some_of_ne (s : State) (hc : s.cur ≠ []) : ∃ t s', nextTask s = (some t, s') := by
  rcases hmn : metaNext s with ⟨o, s'⟩
  cases o with
  | some t => exact ⟨t, s', nextTask_some s s' t hmn⟩
  | none =>
    cases hcur : s.cur with
    | nil => exact absurd hcur hc
    | cons t rest => exact ⟨t, _, nextTask_none_cons s s' t rest hmn hcur⟩

theorem tickLoop_log_mono (fuel : Nat) (s : State) (h : Inv s) (ho : ObsOK s) :
    s.log.length ≤ (tickLoop fuel s).1.log.length := by
  induction fuel generalizing s with
  | zero => exact Nat.le_refl _
  | succ n ih =>
    have hn := nextTask_spec s h
    have hm := nextTask_obsSame s
    unfold tickLoop
    split
    · next s' heq =>
      rw [heq] at hn
      show s.log.length ≤ s'.log.length
      rw [show s'.log = s.log from hn.2.1]; exact Nat.le_refl _
    · next t s1 heq =>
      rw [heq] at hn hm
      have hin := hn.2.2 t rfl
      have hw := workUnit_inv s1 t hn.1 hin
      have hwo := workUnit_obs s1 t hn.1 (ho.same hm) hin
      have e2 : s1.log = s.log := hn.2.1
      split
      · next s2 e heq2 => rw [heq2] at hwo; simp at hwo
      · next s2 heq2 =>
        rw [heq2] at hwo hw
        have e1 : s2.log = recOf s1 t :: s1.log := hw.2.1
        have := ih s2 hw.1 hwo.1
        rw [e1, List.length_cons, e2] at this
        show s.log.length ≤ (tickLoop n s2).1.log.length
        omega

theorem tickLoop_progress (fuel : Nat) (s : State) (h : Inv s) (ho : ObsOK s) (hc : s.cur ≠ []) :
    s.log.length < (tickLoop (fuel + 1) s).1.log.length := by
  have hn := nextTask_spec s h
  have hm := nextTask_obsSame s
  obtain ⟨t, s1, heq⟩ := nextTask_some_of_ne s hc
  unfold tickLoop
  rw [heq]
  rw [heq] at hn hm
  dsimp only
  have hin := hn.2.2 t rfl
  have hw := workUnit_inv s1 t hn.1 hin
  have hwo := workUnit_obs s1 t hn.1 (ho.same hm) hin
  have e2 : s1.log = s.log := hn.2.1
  split
  · next s2 e heq2 => rw [heq2] at hwo; simp at hwo
  · next s2 heq2 =>
    rw [heq2] at hwo hw
    have e1 : s2.log = recOf s1 t :: s1.log := hw.2.1
    have := tickLoop_log_mono fuel s2 hw.1 hwo.1
    rw [e1, List.length_cons, e2] at this
    show s.log.length < (tickLoop fuel s2).1.log.length
    omega

/-- a pending tick with a non-empty `_tasks` and a budget of at least one work unit calls `next()`
    at least once -/
theorem tick_progress (s : State) (b : Nat) (h : Inv s) (ho : ObsOK s) (hs : s.scheduled = true)
    (hc : s.cur ≠ []) (hb : 0 < b) : s.log.length < (tick s b).1.log.length := by
  obtain ⟨n, rfl⟩ : ∃ n, b = n + 1 := ⟨b - 1, by omega⟩
  have h0 : Inv { s with scheduled := false } := h.congr rfl rfl rfl
  have o0 : ObsOK { s with scheduled := false } := ho.same (ObsSame.of_eq rfl rfl rfl)
  have hp := tickLoop_progress n { s with scheduled := false } h0 o0 hc
  have hno := (tickLoop_obs (n + 1) _ h0 o0).2
  unfold tick
  rw [if_neg (by simp [hs])]
  dsimp only
  rw [if_neg hc]
  split
  · next s1 e heq => rw [heq] at hno; simp at hno
  · next s1 heq =>
    rw [heq] at hp
    show s.log.length < (reschedule s1).log.length
    rw [(reschedule_same s1).log]; exact hp

end TwistedProps.C11
