import TwistedProps.C11.Starve
/-! C11 — every whole `step` of the model is a legal move sequence for a task `T` that stays in
`_tasks` and is not advanced. -/
namespace TwistedProps.C11
open Twisted.Reactor.Cooperator

section
variable {T N : Nat}

theorem addTask_len (s : State) (t : Nat) : (addTask s t).1.tasks.length = s.tasks.length := by
  unfold addTask; dsimp only; split
  · rw [(completeWith_frame _ _ _ _).len]
  · rw [(reschedule_same _).tasks]

theorem resumeTask_len (s : State) (t : Nat) (u : Bool) : (resumeTask s t u).1.tasks.length = s.tasks.length := by
  by_cases hp : (s.getTask t).pc = 0
  · rw [resumeTask_zero s t u hp]
  · rw [resumeTask_pos s t u hp]; split
    · rw [addTask_len]; simp
    · simp

theorem failLater_len (s : State) (t j : Nat) : (failLater s t j).1.tasks.length = s.tasks.length := by
  unfold failLater; split
  · rw [(completeWith_frame _ _ _ _).len]
  · rfl

theorem Inv.cur_le {s : State} (h : Inv s) : s.cur.length ≤ s.tasks.length :=
  Fair.nodup_bounded _ _ h.1.nodup (fun u hu => ((h.2 u).1.1 hu).1)

theorem Inv.cur_lt {s : State} (h : Inv s) (t : Nat) (hl : t < s.tasks.length) (hn : t ∉ s.cur) :
    s.cur.length < s.tasks.length := by
  have := Fair.nodup_bounded s.tasks.length (t :: s.cur) (List.nodup_cons.2 ⟨hn, h.1.nodup⟩)
    (fun u hu => by
      rcases List.mem_cons.1 hu with e | e
      · rw [e]; exact hl
      · exact ((h.2 u).1.1 e).1)
  simp at this; omega

/-- a task in `_tasks` is not waiting on anything -/
theorem Inv.cur_not_waiting {s : State} (h : Inv s) (t : Nat) (hin : t ∈ s.cur) : (s.getTask t).waitingOn = [] := by
  have hg := (h.2 t).1.1 hin
  have := (h.2 t).2 hg.2.2
  exact List.eq_nil_of_length_eq_zero (by have := hg.2.1; omega)

theorem fireWaiters_moves (j : Nat) (ok : Bool) (ts : List Nat) (s : State) (h : Inv s)
    (hok : Fair.Ok T N (absC N s)) (hN : s.tasks.length ≤ N) :
    Moves T N s (fireWaiters j ok s ts) 0 := by
  induction ts generalizing s with
  | nil => exact Moves.of_eq rfl rfl
  | cons t ts ih =>
    unfold fireWaiters
    have h1 := fireWaiters_step_inv j ok s t h
    dsimp only at h1 ⊢
    have key : Moves T N s (if j ∈ (s.getTask t).waitingOn then
          (if ok then (resumeTask (s.updTask t fun k => { k with waitingOn := k.waitingOn.erase j }) t false).1
           else (failLater (s.updTask t fun k => { k with waitingOn := k.waitingOn.erase j }) t j).1)
        else s) 0 ∧
        (if j ∈ (s.getTask t).waitingOn then
          (if ok then (resumeTask (s.updTask t fun k => { k with waitingOn := k.waitingOn.erase j }) t false).1
           else (failLater (s.updTask t fun k => { k with waitingOn := k.waitingOn.erase j }) t j).1)
        else s).tasks.length = s.tasks.length := by
      split
      · next hj =>
        have hnin : t ∉ s.cur := by
          intro hin; rw [h.cur_not_waiting t hin] at hj; simp at hj
        have hne : t ≠ T := by intro e; subst e; exact hnin hok.mem
        have hl : t < s.tasks.length := by
          apply Classical.byContradiction; intro hl
          rw [getTask_ge s t hl] at hj
          exact absurd hj (by simp [show (default : Task).waitingOn = [] from rfl])
        have hlen : s.cur.length < N := Nat.lt_of_lt_of_le (h.cur_lt t hl hnin) hN
        have m1 : Moves T N s (s.updTask t fun k => { k with waitingOn := k.waitingOn.erase j }) 0 :=
          Moves.of_eq rfl rfl
        split
        · exact ⟨m1.trans0 (resumeTask_moves _ t false hne (fun _ => hlen)), by rw [resumeTask_len]; simp⟩
        · exact ⟨m1.trans0 (failLater_moves _ t j hne), by rw [failLater_len]; simp⟩
      · exact ⟨Moves.of_eq rfl rfl, rfl⟩
    exact key.1.trans0 (ih _ h1.1 (key.1.ok hok).1 (by rw [key.2]; exact hN))

theorem fire_moves (s : State) (j : Nat) (ok : Bool) (h : Inv s) (hok : Fair.Ok T N (absC N s))
    (hN : s.tasks.length ≤ N) : Moves T N s (fire s j ok).1 0 := by
  unfold fire
  split
  · exact Moves.of_eq rfl rfl
  · exact (Moves.of_eq rfl rfl : Moves T N s { s with fired := (j, ok) :: s.fired } 0).trans0
      (fireWaiters_moves j ok _ _ (h.congr rfl rfl rfl) hok hN)

theorem newTask_moves (s : State) (sc : List Item) (h : Inv s) (hok : Fair.Ok T N (absC N s))
    (hN : s.tasks.length + 1 ≤ N) : Moves T N s (newTask s sc).1 0 := by
  unfold newTask
  dsimp only
  have hne : s.tasks.length ≠ T := by
    intro e
    have := ((h.2 T).1.1 hok.mem).1
    omega
  have hlen : s.cur.length < N := by have := h.cur_le; omega
  exact (Moves.of_eq rfl rfl : Moves T N s { s with tasks := s.tasks ++ [{ script := sc }] } 0).trans0
    (addTask_moves _ _ hne hlen)

theorem whenDone_cur (s : State) (t : Nat) :
    (whenDone s t).cur = s.cur ∧ (whenDone s t).meta = s.meta ∧ (whenDone s t).log = s.log ∧
      (whenDone s t).tasks.length = s.tasks.length := by
  unfold whenDone; dsimp only
  split
  · exact ⟨rfl, rfl, rfl, by simp⟩
  · exact ⟨rfl, rfl, rfl, rfl⟩

theorem coopStart_cur (s : State) : (coopStart s).cur = s.cur ∧ (coopStart s).meta = s.meta := by
  unfold coopStart; dsimp only
  split
  · exact ⟨(reschedule_same _).cur, (reschedule_same _).meta⟩
  · exact ⟨rfl, rfl⟩

theorem coopStop_cur (s : State) (h : Inv s) (ho : ObsOK s) : (coopStop s).1.cur = [] := by
  unfold coopStop
  have h0 : Inv { s with stopped := true } := h.congr rfl rfl rfl
  have o0 : ObsOK { s with stopped := true } := ho.same (ObsSame.of_eq rfl rfl rfl)
  have hl := stopLoop_obs s.cur { s with stopped := true } h0 o0 h.1.nodup (fun u hu => hu)
  dsimp only
  split
  · next s1 e heq => rw [heq] at hl; simp at hl
  · rfl

theorem pause_removes (s : State) (t : Nat) (h : Inv s) (hin : t ∈ s.cur) : t ∉ (pauseTask s t true).1.cur := by
  have hg := (h.2 t).1.1 hin
  rw [pauseTask_live s t true hg.2.2, if_pos hg.2.1]
  exact removeTask_not_mem _ t h.1.nodup

theorem stop_removes (s : State) (t : Nat) (h : Inv s) (hin : t ∈ s.cur) : t ∉ (stopTask s t).1.cur := by
  have hg := (h.2 t).1.1 hin
  unfold stopTask
  rw [hg.2.2]
  dsimp only
  rw [completeWith_cur, if_pos hg.2.1]
  intro hm
  exact ((List.Nodup.mem_erase_iff h.1.nodup).1 hm).1 rfl

/-- **Each whole operation of the model is a legal move sequence** for a task `T` that is in `_tasks`
    before and after it and receives no `next()` call during it; the number of work units in the
    sequence is the number of `next()` calls the operation made. -/
theorem step_moves (s : State) (op : Op) (h : Inv s) (ho : ObsOK s) (hok : Fair.Ok T N (absC N s))
    (hN : s.tasks.length ≤ N) (hN' : (step s op).1.tasks.length ≤ N) (hT' : T ∈ (step s op).1.cur)
    (hadv : advCount T (step s op).1 = advCount T s) :
    ∃ k, (step s op).1.log.length = s.log.length + k ∧ Moves T N s (step s op).1 k := by
  have zero : ∀ s' : State, s'.log = s.log → Moves T N s s' 0 → ∃ k, s'.log.length = s.log.length + k ∧ Moves T N s s' k :=
    fun s' hl hm => ⟨0, by rw [hl]; rfl, hm⟩
  cases op with
  | new sc =>
    have hlen := newTask_length s sc
    exact zero _ (newTask_inv s sc h).2 (newTask_moves s sc h hok (by
      have : (step s (.new sc)).1 = (newTask s sc).1 := rfl
      rw [this, hlen] at hN'; exact hN'))
  | coiter sc =>
    have hlen := newTask_length s sc
    have hlog := (newTask_inv s sc h).2
    simp only [step] at hN' ⊢
    split at hN'
    · next s1 e heq =>
      rw [heq] at hlen hlog
      have hm := newTask_moves (T := T) (N := N) s sc h hok (by simp at hlen hN'; omega)
      rw [heq] at hm
      exact zero _ hlog hm
    · next s1 heq =>
      rw [heq] at hlen hlog
      have hwd := whenDone_cur s1 s.tasks.length
      have hm := newTask_moves (T := T) (N := N) s sc h hok (by
        simp at hlen hN'; rw [hwd.2.2.2] at hN'; omega)
      rw [heq] at hm
      exact zero _ (hwd.2.2.1.trans hlog) (hm.trans0 (Moves.of_eq hwd.1 hwd.2.1))
  | pause t =>
    simp only [step] at hT' ⊢; split
    · next hl =>
      rw [if_pos hl] at hT'
      have hne : t ≠ T := by intro e; subst e; exact pause_removes s t h hok.mem hT'
      exact zero _ (pauseTask_log s t true) (pauseTask_moves s t true hne)
    · exact zero _ rfl (Moves.of_eq rfl rfl)
  | resume t =>
    simp only [step]; split
    · next hl =>
      by_cases hp : (s.getTask t).pc = 0
      · rw [resumeTask_zero s t true hp]; exact zero _ rfl (Moves.of_eq rfl rfl)
      · have hnin : t ∉ s.cur := fun hin => hp ((h.2 t).1.1 hin).2.1
        have hne : t ≠ T := by intro e; subst e; exact hnin hok.mem
        exact zero _ (resumeTask_log s t true)
          (resumeTask_moves s t true hne (fun _ => Nat.lt_of_lt_of_le (h.cur_lt t hl hnin) hN))
    · exact zero _ rfl (Moves.of_eq rfl rfl)
  | stop t =>
    simp only [step] at hT' ⊢; split
    · next hl =>
      rw [if_pos hl] at hT'
      have hne : t ≠ T := by intro e; subst e; exact stop_removes s t h hok.mem hT'
      exact zero _ (stopTask_log s t) (stopTask_moves s t hne)
    · exact zero _ rfl (Moves.of_eq rfl rfl)
  | whenDone t =>
    simp only [step]; split
    · exact zero _ (whenDone_cur s t).2.2.1 (Moves.of_eq (whenDone_cur s t).1 (whenDone_cur s t).2.1)
    · exact zero _ rfl (Moves.of_eq rfl rfl)
  | tick b => exact tick_moves s b h ho hok hadv
  | fire j ok => exact zero _ (fire_inv s j ok h).2 (fire_moves s j ok h hok hN)
  | cstop =>
    exfalso
    have : (step s .cstop).1.cur = [] := coopStop_cur s h ho
    rw [this] at hT'; simp at hT'
  | cstart => exact zero _ (coopStart_inv s h).2 (Moves.of_eq (coopStart_cur s).1 (coopStart_cur s).2)

end
end TwistedProps.C11
