import TwistedProps.C11.ObsOps
/-! C11 — a `whenDone`/`coiterate` Deferred, once created, is never dropped and never changes owner. -/
namespace TwistedProps.C11
open Twisted.Reactor.Cooperator

def Keep (s s' : State) : Prop :=
  ∀ (o t : Nat) (v : Option Result), s.observers[o]? = some (t, v) → ∃ v', s'.observers[o]? = some (t, v')

theorem Keep.refl (s : State) : Keep s s := fun _ _ v h => ⟨v, h⟩
theorem Keep.trans {a b c : State} (h1 : Keep a b) (h2 : Keep b c) : Keep a c :=
  fun o t v h => by obtain ⟨v', h'⟩ := h1 o t v h; exact h2 o t v' h'
theorem Keep.of_eq {s s' : State} (h : s'.observers = s.observers) : Keep s s' :=
  fun _ _ v ho => ⟨v, by rw [h]; exact ho⟩
theorem Keep.of_same {s s' : State} (h : ObsSame s s') : Keep s s' := Keep.of_eq h.obs

theorem fireObs_keep (s : State) (o : Nat) (r : Result) : Keep s (fireObs s o r).1 := by
  intro o' t v h
  unfold fireObs
  split
  · next owner heq =>
    show ∃ v', (s.observers.set o (owner, some r))[o']? = some (t, v')
    by_cases e : o = o'
    · subst e
      rw [heq] at h; simp at h
      have hlt : o < s.observers.length := by
        apply Classical.byContradiction; intro hl
        rw [List.getElem?_eq_none (by omega)] at heq; simp at heq
      exact ⟨some r, by simp [hlt, h.1]⟩
    · rw [List.getElem?_set_ne e]; exact ⟨v, h⟩
  · exact ⟨v, h⟩
  · exact ⟨v, h⟩

theorem fireAll_keep (s : State) (os : List Nat) (r : Result) : Keep s (fireAll s os r).1 := by
  induction os generalizing s with
  | nil => exact Keep.refl s
  | cons o os ih =>
    unfold fireAll
    have h1 := fireObs_keep s o r
    split
    · next s' heq => rw [heq] at h1; exact h1.trans (ih s')
    · next s' e heq => rw [heq] at h1; exact h1

theorem completeWith_keep (s : State) (t : Nat) (c : Completion) (r : Result) : Keep s (completeWith s t c r).1 := by
  have hmid : Keep s (cwMid s t c r) := Keep.of_eq (cwMid_observers s t c r).1
  refine hmid.trans ?_
  unfold completeWith cwMid
  by_cases hp : (s.getTask t).pc = 0
  · simp only [hp, if_true]
    split
    · next s2 e heq => rw [heq]; exact Keep.refl _
    · next s2 heq => rw [heq]; exact fireAll_keep _ _ _
  · simp only [hp, if_false]
    exact fireAll_keep _ _ _

theorem addTask_keep (s : State) (t : Nat) : Keep s (addTask s t).1 := by
  unfold addTask
  have h1 : Keep s { s with cur := s.cur ++ [t] } := Keep.of_eq rfl
  split
  · exact h1.trans (completeWith_keep _ t _ _)
  · exact h1.trans (Keep.of_same (reschedule_obsSame _))

theorem resumeTask_keep (s : State) (t : Nat) (u : Bool) : Keep s (resumeTask s t u).1 := by
  by_cases hp : (s.getTask t).pc = 0
  · rw [resumeTask_zero s t u hp]; exact Keep.refl s
  · rw [resumeTask_pos s t u hp]
    split
    · exact (Keep.of_eq rfl : Keep s (s.updTask t _)).trans (addTask_keep _ t)
    · exact Keep.of_eq rfl

theorem stopTask_keep (s : State) (t : Nat) : Keep s (stopTask s t).1 := by
  unfold stopTask; split
  · exact Keep.refl s
  · exact completeWith_keep s t _ _

theorem failLater_keep (s : State) (t j : Nat) : Keep s (failLater s t j).1 := by
  unfold failLater; split
  · exact completeWith_keep s t _ _
  · exact Keep.refl s

theorem workBody_keep (s : State) (t : Nat) : Keep s (workBody s t).1 := by
  unfold workBody
  split
  · exact completeWith_keep s t _ _
  · exact (Keep.of_eq rfl : Keep s (s.updTask t _)).trans (completeWith_keep _ t _ _)
  · exact Keep.of_eq rfl
  · next j rest hs =>
    have h1 : Keep s (s.updTask t fun k => { k with script := rest }) := Keep.of_eq rfl
    have h2 := Keep.of_same (pauseTask_obsSame (s.updTask t fun k => { k with script := rest }) t false)
    dsimp only
    split
    · next s2 e heq => rw [heq] at h2; exact h1.trans h2
    · next s2 heq =>
      rw [heq] at h2
      have h12 := h1.trans h2
      split
      · exact h12.trans (Keep.of_eq rfl)
      · exact h12.trans (resumeTask_keep s2 t false)
      · exact h12.trans (failLater_keep s2 t j)

theorem workUnit_keep (s : State) (t : Nat) : Keep s (workUnit s t).1 := by
  rw [workUnit_eq]
  exact (Keep.of_eq rfl : Keep s { s with log := recOf s t :: s.log }).trans (workBody_keep _ t)

theorem tickLoop_keep (fuel : Nat) (s : State) : Keep s (tickLoop fuel s).1 := by
  induction fuel generalizing s with
  | zero => exact Keep.refl s
  | succ n ih =>
    have hm := Keep.of_same (nextTask_obsSame s)
    unfold tickLoop
    split
    · next s' heq => rw [heq] at hm; exact hm
    · next t s1 heq =>
      rw [heq] at hm
      have hw := workUnit_keep s1 t
      split
      · next s2 e heq2 => rw [heq2] at hw; exact hm.trans hw
      · next s2 heq2 => rw [heq2] at hw; exact (hm.trans hw).trans (ih s2)

theorem tick_keep (s : State) (b : Nat) : Keep s (tick s b).1 := by
  unfold tick
  split
  · exact Keep.refl s
  · have m0 : Keep s { s with scheduled := false } := Keep.of_eq rfl
    dsimp only
    split
    · exact m0.trans (Keep.of_same (reschedule_obsSame _))
    · have ht := tickLoop_keep b { s with scheduled := false }
      split
      · next s1 e heq => rw [heq] at ht; exact m0.trans ht
      · next s1 heq => rw [heq] at ht; exact (m0.trans ht).trans (Keep.of_same (reschedule_obsSame _))

theorem fireWaiters_keep (j : Nat) (ok : Bool) (ts : List Nat) (s : State) : Keep s (fireWaiters j ok s ts) := by
  induction ts generalizing s with
  | nil => exact Keep.refl s
  | cons t ts ih =>
    unfold fireWaiters
    refine Keep.trans ?_ (ih _)
    dsimp only
    split
    · have h1 : Keep s (s.updTask t fun k => { k with waitingOn := k.waitingOn.erase j }) := Keep.of_eq rfl
      split
      · exact h1.trans (resumeTask_keep _ t false)
      · exact h1.trans (failLater_keep _ t j)
    · exact Keep.refl s

theorem fire_keep (s : State) (j : Nat) (ok : Bool) : Keep s (fire s j ok).1 := by
  unfold fire
  split
  · exact Keep.refl s
  · exact (Keep.of_eq rfl : Keep s { s with fired := (j, ok) :: s.fired }).trans (fireWaiters_keep j ok _ _)

theorem stopLoop_keep (ts : List Nat) (s : State) : Keep s (stopLoop ts s).1 := by
  induction ts generalizing s with
  | nil => exact Keep.refl s
  | cons t ts ih =>
    unfold stopLoop
    have hm := completeWith_keep s t .schedStopped .schedulerStopped
    split
    · next s' e heq => rw [heq] at hm; exact hm
    · next s' heq => rw [heq] at hm; exact hm.trans (ih s')

theorem coopStop_keep (s : State) : Keep s (coopStop s).1 := by
  unfold coopStop
  have m0 : Keep s { s with stopped := true } := Keep.of_eq rfl
  have hl := stopLoop_keep s.cur { s with stopped := true }
  dsimp only
  split
  · next s1 e heq => rw [heq] at hl; exact m0.trans hl
  · next s1 heq => rw [heq] at hl; exact (m0.trans hl).trans (Keep.of_eq rfl)

theorem coopStart_keep (s : State) : Keep s (coopStart s) := by
  unfold coopStart
  dsimp only
  split
  · exact (Keep.of_eq rfl : Keep s { s with stopped := false, started := true, mustSched := false }).trans
      (Keep.of_same (reschedule_obsSame _))
  · exact Keep.of_eq rfl

theorem newTask_keep (s : State) (sc : List Item) : Keep s (newTask s sc).1 := by
  unfold newTask
  dsimp only
  exact (Keep.of_eq rfl : Keep s { s with tasks := s.tasks ++ [{ script := sc }] }).trans (addTask_keep _ _)

theorem whenDone_keep (s : State) (t : Nat) : Keep s (whenDone s t) := by
  unfold whenDone
  dsimp only
  have happ : ∀ x : Nat × Option Result, Keep s { s with observers := s.observers ++ [x] } := by
    intro x o t' v ho
    have hlt : o < s.observers.length := by
      apply Classical.byContradiction; intro hl
      rw [List.getElem?_eq_none (by omega)] at ho; simp at ho
    exact ⟨v, by show (s.observers ++ [x])[o]? = _; rw [List.getElem?_append_left hlt]; exact ho⟩
  split
  · exact (happ _).trans (Keep.of_eq rfl)
  · exact happ _

theorem step_keep (s : State) (op : Op) : Keep s (step s op).1 := by
  cases op with
  | new sc => exact newTask_keep s sc
  | coiter sc =>
    simp only [step]
    have hn := newTask_keep s sc
    split
    · next s1 e heq => rw [heq] at hn; exact hn
    · next s1 heq => rw [heq] at hn; exact hn.trans (whenDone_keep s1 _)
  | pause t => simp only [step]; split
               · exact Keep.of_same (pauseTask_obsSame s t true)
               · exact Keep.refl s
  | resume t => simp only [step]; split
                · exact resumeTask_keep s t true
                · exact Keep.refl s
  | stop t => simp only [step]; split
              · exact stopTask_keep s t
              · exact Keep.refl s
  | whenDone t => simp only [step]; split
                  · exact whenDone_keep s t
                  · exact Keep.refl s
  | tick b => exact tick_keep s b
  | fire j ok => exact fire_keep s j ok
  | cstop => exact coopStop_keep s
  | cstart => exact coopStart_keep s

theorem run_keep (s : State) (ops : List Op) : Keep s (run s ops) := by
  induction ops generalizing s with
  | nil => exact Keep.refl s
  | cons op ops ih => exact (step_keep s op).trans (ih _)

end TwistedProps.C11
