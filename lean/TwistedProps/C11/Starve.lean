import TwistedProps.C11.ObsOps
import TwistedProps.C11.Fair
/-!
C11 — connecting the abstract four-move fairness argument (`Fair`) to the model: every primitive of
the model acts on (`_tasks`, `_metarator`) as a legal sequence of moves, as long as the task `T` under
observation is neither removed nor advanced.
-/
namespace TwistedProps.C11
open Twisted.Reactor.Cooperator

/-- the index of `_metarator` into the current `_tasks` list; an iterator over another (empty) list
    object is "exhausted" -/
def idx (N : Nat) : Meta → Nat
  | .live i => i
  | _ => N

def absC (N : Nat) (s : State) : List Nat × Nat := (s.cur, idx N s.meta)

/-- `s'` is reached from `s` by a legal sequence of moves containing `k` work units of tasks other than `T` -/
def Moves (T N : Nat) (s s' : State) (k : Nat) : Prop :=
  ∃ ms, Fair.legalAll T N (absC N s) ms ∧ Fair.applyAll (absC N s) ms = absC N s' ∧ Fair.yields ms = k

theorem Moves.of_eq {T N : Nat} {s s' : State} (hc : s'.cur = s.cur) (hm : s'.meta = s.meta) :
    Moves T N s s' 0 :=
  ⟨[], trivial, by simp [Fair.applyAll, absC, hc, hm], rfl⟩

theorem Moves.trans {T N : Nat} {a b c : State} {k1 k2 : Nat} (h1 : Moves T N a b k1) (h2 : Moves T N b c k2) :
    Moves T N a c (k1 + k2) := by
  obtain ⟨m1, l1, a1, y1⟩ := h1
  obtain ⟨m2, l2, a2, y2⟩ := h2
  refine ⟨m1 ++ m2, (Fair.legalAll_append T N _ m1 m2).2 ⟨l1, by rw [a1]; exact l2⟩, ?_, ?_⟩
  · rw [Fair.applyAll_append, a1, a2]
  · rw [Fair.yields_append, y1, y2]

theorem Moves.trans0 {T N : Nat} {a b c : State} {k : Nat} (h1 : Moves T N a b k) (h2 : Moves T N b c 0) :
    Moves T N a c k := h1.trans h2
theorem Moves.zero_trans {T N : Nat} {a b c : State} {k : Nat} (h1 : Moves T N a b 0) (h2 : Moves T N b c k) :
    Moves T N a c k := by have := h1.trans h2; rwa [Nat.zero_add] at this

theorem Moves.erase {T N : Nat} {s s' : State} {u : Nat} (hc : s'.cur = s.cur.erase u) (hm : s'.meta = s.meta)
    (hu : u ≠ T) : Moves T N s s' 0 :=
  ⟨[.erase u], ⟨hu, trivial⟩, by simp [Fair.applyAll, Fair.apply, absC, hc, hm], rfl⟩

theorem Moves.append {T N : Nat} {s s' : State} {u : Nat} (hc : s'.cur = s.cur ++ [u]) (hm : s'.meta = s.meta)
    (hlen : s.cur.length < N) : Moves T N s s' 0 :=
  ⟨[.append u], ⟨hlen, trivial⟩, by simp [Fair.applyAll, Fair.apply, absC, hc, hm], rfl⟩

theorem Moves.ok {T N : Nat} {s s' : State} {k : Nat} (h : Moves T N s s' k) (hok : Fair.Ok T N (absC N s)) :
    Fair.Ok T N (absC N s') ∧ k + Fair.rank T N (absC N s') ≤ Fair.rank T N (absC N s) := by
  obtain ⟨ms, hl, ha, hy⟩ := h
  have h1 := Fair.ok_applyAll T N _ ms hok hl
  have h2 := Fair.yields_le_rank T N _ ms hok hl
  rw [ha] at h1 h2; rw [hy] at h2
  exact ⟨h1, h2⟩

/-! ### the primitives (acting on a task `t ≠ T`) -/
section
variable {T N : Nat}

theorem completeWith_moves (s : State) (t : Nat) (c : Completion) (r : Result) (ht : t ≠ T) :
    Moves T N s (completeWith s t c r).1 0 := by
  have hc := completeWith_cur s t c r
  have hm := (completeWith_frame s t c r).meta
  by_cases hp : (s.getTask t).pc = 0
  · rw [if_pos hp] at hc; exact Moves.erase hc hm ht
  · rw [if_neg hp] at hc; exact Moves.of_eq hc hm

theorem addTask_moves (s : State) (t : Nat) (ht : t ≠ T) (hlen : s.cur.length < N) :
    Moves T N s (addTask s t).1 0 := by
  unfold addTask; dsimp only
  have h1 : Moves T N s { s with cur := s.cur ++ [t] } 0 := Moves.append rfl rfl hlen
  split
  · exact h1.trans0 (completeWith_moves _ t _ _ ht)
  · exact h1.trans0 (Moves.of_eq (reschedule_same _).cur (reschedule_same _).meta)

theorem pauseTask_moves (s : State) (t : Nat) (u : Bool) (ht : t ≠ T) : Moves T N s (pauseTask s t u).1 0 := by
  cases hc : (s.getTask t).completion with
  | some c => rw [pauseTask_done s t u c hc]; exact Moves.of_eq rfl rfl
  | none =>
    rw [pauseTask_live s t u hc]
    split
    · exact Moves.erase (removeTask_cur _ t) (removeTask_meta _ t) ht
    · exact Moves.of_eq rfl rfl

theorem resumeTask_moves (s : State) (t : Nat) (u : Bool) (ht : t ≠ T)
    (hlen : (s.getTask t).pc ≠ 0 → s.cur.length < N) : Moves T N s (resumeTask s t u).1 0 := by
  by_cases hp : (s.getTask t).pc = 0
  · rw [resumeTask_zero s t u hp]; exact Moves.of_eq rfl rfl
  · rw [resumeTask_pos s t u hp]
    split
    · exact (Moves.of_eq rfl rfl : Moves T N s (s.updTask t _) 0).trans0 (addTask_moves _ t ht (hlen hp))
    · exact Moves.of_eq rfl rfl

theorem failLater_moves (s : State) (t j : Nat) (ht : t ≠ T) : Moves T N s (failLater s t j).1 0 := by
  unfold failLater; split
  · exact completeWith_moves s t _ _ ht
  · exact Moves.of_eq rfl rfl

theorem stopTask_moves (s : State) (t : Nat) (ht : t ≠ T) : Moves T N s (stopTask s t).1 0 := by
  unfold stopTask; split
  · exact Moves.of_eq rfl rfl
  · exact completeWith_moves s t _ _ ht

theorem workBody_moves (s : State) (t : Nat) (h : Inv s) (hin : t ∈ s.cur) (ht : t ≠ T)
    (hlen : s.cur.length ≤ N) : Moves T N s (workBody s t).1 0 := by
  cases hs : (s.getTask t).script with
  | nil =>
    have : workBody s t = completeWith s t .done .iterator := by simp [workBody, hs]
    rw [this]; exact completeWith_moves s t _ _ ht
  | cons it rest =>
    cases it with
    | raise =>
      have : workBody s t = completeWith (s.updTask t fun k => { k with script := [] }) t .failed .iterError := by
        simp [workBody, hs]
      rw [this]
      exact (Moves.of_eq rfl rfl : Moves T N s (s.updTask t _) 0).trans0 (completeWith_moves _ t _ _ ht)
    | value =>
      have : workBody s t = (s.updTask t fun k => { k with script := rest }, none) := by
        simp [workBody, hs]
      rw [this]; exact Moves.of_eq rfl rfl
    | deferred j =>
      obtain ⟨hw, _, _, _, _, _, hcur2, hmeta2⟩ := workBody_deferred s t j rest h hin hs
      have m2 : Moves T N s (afterPause s t rest) 0 := Moves.erase hcur2 hmeta2 ht
      have hlen2 : (afterPause s t rest).cur.length < N := by
        rw [hcur2, List.length_erase_of_mem hin]
        have := List.length_pos_of_mem hin
        omega
      rw [hw]
      split
      · exact m2.trans0 (Moves.of_eq rfl rfl)
      · exact m2.trans0 (resumeTask_moves _ t false ht (fun _ => hlen2))
      · exact m2.trans0 (failLater_moves _ t j ht)

theorem workUnit_moves (s : State) (t : Nat) (h : Inv s) (hin : t ∈ s.cur) (ht : t ≠ T)
    (hlen : s.cur.length ≤ N) : Moves T N s (workUnit s t).1 0 := by
  rw [workUnit_eq]
  exact (Moves.of_eq rfl rfl : Moves T N s { s with log := recOf s t :: s.log } 0).trans0
    (workBody_moves _ t (h.congr rfl rfl rfl) hin ht hlen)

/-! ### `next(self._metarator)` -/

theorem nextTask_exhausted (s : State) (hmn : metaNext s = (none, s)) (hidx : s.cur.length ≤ idx N s.meta) :
    (∀ s', nextTask s = (none, s') → Moves T N s s' 0) ∧
    (∀ t s', nextTask s = (some t, s') → t ≠ T → Moves T N s s' 1) := by
  cases hc : s.cur with
  | nil =>
    rw [nextTask_none_nil s s hmn hc]
    refine ⟨fun s' he => ?_, fun t s' he => by simp at he⟩
    simp at he; subst he
    exact ⟨[.refresh], ⟨hidx, trivial⟩, by simp [Fair.applyAll, Fair.apply, absC, idx], rfl⟩
  | cons a rest =>
    rw [nextTask_none_cons s s a rest hmn hc]
    refine ⟨fun s' he => by simp at he, fun t s' he hne => ?_⟩
    simp at he; obtain ⟨e1, e2⟩ := he; subst e1 e2
    refine ⟨[.refresh, .yield], ⟨hidx, ⟨?_, ?_⟩, trivial⟩, by simp [Fair.applyAll, Fair.apply, absC, idx], rfl⟩
    · simp [hc]
    · simp [hc]; exact hne

theorem nextTask_moves (s : State) (h : Inv s) (hlen : s.cur.length ≤ N) :
    (∀ s', nextTask s = (none, s') → Moves T N s s' 0) ∧
    (∀ t s', nextTask s = (some t, s') → t ≠ T → Moves T N s s' 1) := by
  cases hm : s.meta with
  | tuple =>
    exact nextTask_exhausted s (by simp [metaNext, hm]) (by simp [hm, idx]; exact hlen)
  | stale l i =>
    have hl := h.1.stale l i hm
    subst hl
    exact nextTask_exhausted s (by simp [metaNext, hm]) (by simp [hm, idx]; exact hlen)
  | live i =>
    cases hg : s.cur[i]? with
    | none =>
      have : s.cur.length ≤ i := by
        apply Classical.byContradiction; intro hc
        have : i < s.cur.length := by omega
        rw [List.getElem?_eq_getElem this] at hg; simp at hg
      exact nextTask_exhausted s (by simp [metaNext, hm, hg]) (by simp [hm, idx]; exact this)
    | some a =>
      have hmn : metaNext s = (some a, { s with «meta» := .live (i + 1) }) := by simp [metaNext, hm, hg]
      rw [nextTask_some s _ a hmn]
      refine ⟨fun s' he => by simp at he, fun t s' he hne => ?_⟩
      simp at he; obtain ⟨e1, e2⟩ := he; subst e1 e2
      refine ⟨[.yield], ⟨⟨?_, ?_⟩, trivial⟩, by simp [Fair.applyAll, Fair.apply, absC, idx, hm], rfl⟩
      · simp [idx, hm, hg]
      · simp [idx, hm, hg]; exact hne


/-! ### a scheduler tick -/

/-- ghost: how many `next()` calls task `T` has received so far -/
def advCount (T : Nat) (s : State) : Nat := s.log.countP (fun r => r.task == T)

theorem advCount_congr {s s' : State} (h : s'.log = s.log) : advCount T s' = advCount T s := by
  simp [advCount, h]

theorem advCount_workUnit (s : State) (t : Nat) (h : Inv s) (hin : t ∈ s.cur) :
    advCount T (workUnit s t).1 = advCount T s + (if t = T then 1 else 0) := by
  have hw := (workUnit_inv s t h hin).2.1
  simp only [advCount, hw, List.countP_cons, recOf]
  simp

theorem tickLoop_adv_mono (fuel : Nat) (s : State) (h : Inv s) (ho : ObsOK s) :
    advCount T s ≤ advCount T (tickLoop fuel s).1 := by
  induction fuel generalizing s with
  | zero => exact Nat.le_refl _
  | succ n ih =>
    have hn := nextTask_spec s h
    have hm := nextTask_obsSame s
    unfold tickLoop
    split
    · next s' heq => rw [heq] at hn; rw [advCount_congr hn.2.1]; exact Nat.le_refl _
    · next t s1 heq =>
      rw [heq] at hn hm
      have hin := hn.2.2 t rfl
      have hw := workUnit_inv s1 t hn.1 hin
      have hwo := workUnit_obs s1 t hn.1 (ho.same hm) hin
      have ha := advCount_workUnit (T := T) s1 t hn.1 hin
      rw [advCount_congr hn.2.1] at ha
      split
      · next s2 e heq2 =>
        have ha' : advCount T s2 = advCount T s + (if t = T then 1 else 0) := by rw [heq2] at ha; exact ha
        show advCount T s ≤ advCount T s2
        omega
      · next s2 heq2 =>
        rw [heq2] at hwo hw
        have ha' : advCount T s2 = advCount T s + (if t = T then 1 else 0) := by rw [heq2] at ha; exact ha
        have := ih s2 hw.1 hwo.1
        omega

/-- the loop of `_tick`: unless it advances `T`, it is a legal move sequence whose number of work
    units is the number of `next()` calls it made -/
theorem tickLoop_moves (fuel : Nat) (s : State) (h : Inv s) (ho : ObsOK s) (hok : Fair.Ok T N (absC N s))
    (hadv : advCount T (tickLoop fuel s).1 = advCount T s) :
    ∃ k, (tickLoop fuel s).1.log.length = s.log.length + k ∧ Moves T N s (tickLoop fuel s).1 k := by
  induction fuel generalizing s with
  | zero => exact ⟨0, rfl, Moves.of_eq rfl rfl⟩
  | succ n ih =>
    have hn := nextTask_spec s h
    have hm := nextTask_obsSame s
    have hnm := nextTask_moves (T := T) (N := N) s h hok.len
    unfold tickLoop at hadv ⊢
    split at hadv
    · next s' heq =>
      refine ⟨0, ?_, hnm.1 s' heq⟩
      rw [heq] at hn
      show s'.log.length = s.log.length + 0
      rw [show s'.log = s.log from hn.2.1]; rfl
    · next t s1 heq =>
      rw [heq] at hn hm
      have hin := hn.2.2 t rfl
      have hw := workUnit_inv s1 t hn.1 hin
      have hwo := workUnit_obs s1 t hn.1 (ho.same hm) hin
      have ha := advCount_workUnit (T := T) s1 t hn.1 hin
      rw [advCount_congr hn.2.1] at ha
      split at hadv
      · next s2 e heq2 => rw [heq2] at hwo; simp at hwo
      · next s2 heq2 =>
        rw [heq2] at hwo hw
        have ha' : advCount T s2 = advCount T s + (if t = T then 1 else 0) := by rw [heq2] at ha; exact ha
        have hadv' : advCount T (tickLoop n s2).1 = advCount T s := hadv
        have hmono := tickLoop_adv_mono (T := T) n s2 hw.1 hwo.1
        have hne : t ≠ T := by
          intro e; rw [if_pos e] at ha'; omega
        rw [if_neg hne] at ha'
        have m1 := hnm.2 t s1 heq hne
        have ok1 := (m1.ok hok).1
        have m2 : Moves T N s1 s2 0 := by
          have := workUnit_moves (T := T) (N := N) s1 t hn.1 hin hne ok1.len
          rw [heq2] at this; exact this
        have ok2 := (m2.ok ok1).1
        obtain ⟨k, hk, mk⟩ := ih s2 hw.1 hwo.1 ok2 (by omega)
        refine ⟨1 + k, ?_, (m1.trans0 m2).trans mk⟩
        show (tickLoop n s2).1.log.length = _
        have e1 : s2.log = recOf s1 t :: s1.log := hw.2.1
        have e2 : s1.log = s.log := hn.2.1
        rw [hk, e1, List.length_cons, e2]; omega

theorem tick_moves (s : State) (b : Nat) (h : Inv s) (ho : ObsOK s) (hok : Fair.Ok T N (absC N s))
    (hadv : advCount T (tick s b).1 = advCount T s) :
    ∃ k, (tick s b).1.log.length = s.log.length + k ∧ Moves T N s (tick s b).1 k := by
  unfold tick at hadv ⊢
  split
  · exact ⟨0, rfl, Moves.of_eq rfl rfl⟩
  · next hsch =>
    rw [if_neg hsch] at hadv
    have h0 : Inv { s with scheduled := false } := h.congr rfl rfl rfl
    have o0 : ObsOK { s with scheduled := false } := ho.same (ObsSame.of_eq rfl rfl rfl)
    dsimp only at hadv ⊢
    split
    · refine ⟨0, ?_, Moves.of_eq (reschedule_same _).cur (reschedule_same _).meta⟩
      show (reschedule _).log.length = _
      rw [(reschedule_same _).log]; rfl
    · next hcur =>
      rw [if_neg hcur] at hadv
      have hno := (tickLoop_obs b _ h0 o0).2
      split
      · next s1 e heq => rw [heq] at hno; simp at hno
      · next s1 heq =>
        rw [heq] at hadv
        dsimp only at hadv
        rw [advCount_congr (reschedule_same s1).log] at hadv
        have := tickLoop_moves (T := T) (N := N) b { s with scheduled := false } h0 o0 hok
          (by rw [heq]; exact hadv)
        rw [heq] at this
        obtain ⟨k, hk, mk⟩ := this
        exact ⟨k, by show (reschedule s1).log.length = _; rw [(reschedule_same s1).log]; exact hk,
          mk.trans0 (Moves.of_eq (reschedule_same _).cur (reschedule_same _).meta)⟩

end
end TwistedProps.C11
