import TwistedProps.C11.Obs
/-! C11 — the observer invariant through every operation of the model. -/
namespace TwistedProps.C11
open Twisted.Reactor.Cooperator

theorem fire_obs (s : State) (j : Nat) (ok : Bool) (h : Inv s) (ho : ObsOK s) : ObsOK (fire s j ok).1 := by
  unfold fire
  split
  · exact ho
  · exact fireWaiters_obs j ok _ _ (h.congr rfl rfl rfl) (ho.same (ObsSame.of_eq rfl rfl rfl))

/-- the loop of `Cooperator.stop` over (a duplicate-free part of) `_tasks`: never raises -/
theorem stopLoop_obs (ts : List Nat) (s : State) (h : Inv s) (ho : ObsOK s) (hnd : ts.Nodup)
    (hsub : ∀ u ∈ ts, u ∈ s.cur) :
    ObsOK (stopLoop ts s).1 ∧ (stopLoop ts s).2 = none := by
  induction ts generalizing s with
  | nil => exact ⟨ho, rfl⟩
  | cons t ts ih =>
    unfold stopLoop
    have hin := hsub t (by simp)
    have hc := ((h.2 t).1.1 hin).2.2
    have hp := ((h.2 t).1.1 hin).2.1
    have h1 := completeWith_inv' s t .schedStopped .schedulerStopped h
    have hm := completeWith_obs s t .schedStopped .schedulerStopped ho hc (fun _ => hin) trivial
    have hcur := completeWith_cur s t .schedStopped .schedulerStopped
    split
    · next s' e heq => rw [heq] at hm; simp at hm
    · next s' heq =>
      rw [heq] at hm h1 hcur
      refine ih s' h1 hm.1 (List.nodup_cons.1 hnd).2 ?_
      intro u hu
      rw [hcur, if_pos hp]
      have hne : u ≠ t := by intro e; subst e; exact (List.nodup_cons.1 hnd).1 hu
      exact (List.mem_erase_of_ne hne).2 (hsub u (by simp [hu]))

theorem coopStop_obs (s : State) (h : Inv s) (ho : ObsOK s) :
    ObsOK (coopStop s).1 ∧ (coopStop s).2 = none := by
  unfold coopStop
  have h0 : Inv { s with stopped := true } := h.congr rfl rfl rfl
  have o0 : ObsOK { s with stopped := true } := ho.same (ObsSame.of_eq rfl rfl rfl)
  have hl := stopLoop_obs s.cur { s with stopped := true } h0 o0 h.1.nodup (fun u hu => hu)
  dsimp only
  split
  · next s1 e heq => rw [heq] at hl; simp at hl
  · next s1 heq => rw [heq] at hl; exact ⟨hl.1.same (ObsSame.of_eq rfl rfl rfl), rfl⟩

theorem coopStart_obs (s : State) (ho : ObsOK s) : ObsOK (coopStart s) := by
  unfold coopStart
  dsimp only
  split
  · exact (ho.same (ObsSame.of_eq rfl rfl rfl : ObsSame s { s with stopped := false, started := true, mustSched := false })).same
      (reschedule_obsSame _)
  · exact ho.same (ObsSame.of_eq rfl rfl rfl)

theorem newTask_obs (s : State) (sc : List Item) (ho : ObsOK s) :
    ObsOK (newTask s sc).1 ∧ (newTask s sc).2 = none := by
  unfold newTask
  dsimp only
  have hnew : ({ s with tasks := s.tasks ++ [{ script := sc }] } : State).getTask s.tasks.length = { script := sc } := by
    simp [State.getTask]
  have hget : ∀ u, u ≠ s.tasks.length →
      ({ s with tasks := s.tasks ++ [{ script := sc }] } : State).getTask u = s.getTask u := by
    intro u hu
    unfold State.getTask
    by_cases hlt : u < s.tasks.length
    · simp [List.getElem?_append_left hlt]
    · have e1 : (s.tasks ++ [({ script := sc } : Task)])[u]? = none :=
        List.getElem?_eq_none (by simp; omega)
      have e2 : s.tasks[u]? = none := List.getElem?_eq_none (by omega)
      simp only [e1, e2]
  have hold : s.getTask s.tasks.length = default := getTask_ge s _ (Nat.lt_irrefl _)
  have e1 : ObsSame s { s with tasks := s.tasks ++ [{ script := sc }] } := by
    refine ⟨rfl, rfl, ?_, ?_, ?_⟩ <;> intro u <;> (
      by_cases hu : u = s.tasks.length
      · subst hu; rw [hnew, hold]; rfl
      · rw [hget u hu])
  exact addTask_obs _ _ (ho.same e1) (by rw [hnew])

theorem whenDone_obs (s : State) (t : Nat) (ho : ObsOK s) (hl : t < s.tasks.length) :
    ObsOK (whenDone s t) := by
  unfold whenDone
  dsimp only
  have hlt : ∀ (o t' : Nat) (v : Option Result), s.observers[o]? = some (t', v) → o < s.observers.length := by
    intro o t' v h
    apply Classical.byContradiction; intro hc
    rw [List.getElem?_eq_none (by omega)] at h; simp at h
  have happ : ∀ (x : Nat × Option Result) (o t' : Nat) (v : Option Result),
      (s.observers ++ [x])[o]? = some (t', v) →
        s.observers[o]? = some (t', v) ∨ (o = s.observers.length ∧ x = (t', v)) := by
    intro x o t' v h
    by_cases hlo : o < s.observers.length
    · rw [List.getElem?_append_left hlo] at h; exact Or.inl h
    · rw [List.getElem?_append_right (by omega)] at h
      by_cases e : o = s.observers.length
      · subst e; simp at h; exact Or.inr ⟨rfl, h⟩
      · have : o - s.observers.length ≠ 0 := by omega
        rw [List.getElem?_eq_none (by simp; omega)] at h; simp at h
  split
  · next hc =>
    -- unfinished: a new un-fired Deferred is registered
    let s0 : State := { s with observers := s.observers ++ [(t, none)] }
    have hgt : (s0.updTask t fun k => { k with deferreds := k.deferreds ++ [s.observers.length] }).getTask t
        = { s.getTask t with deferreds := (s.getTask t).deferreds ++ [s.observers.length] } :=
      getTask_updTask_same s0 t _ hl
    have hgn : ∀ u, u ≠ t →
        (s0.updTask t fun k => { k with deferreds := k.deferreds ++ [s.observers.length] }).getTask u = s.getTask u :=
      fun u hu => getTask_updTask_ne s0 t u _ hu
    have hfresh : s.observers.length ∉ (s.getTask t).deferreds := by
      intro hin
      obtain ⟨v, hv⟩ := ho.defs t _ hin
      exact absurd (hlt _ _ _ hv) (Nat.lt_irrefl _)
    refine ⟨ho.dbl, ?_, ?_, ?_, ?_, ?_⟩
    · intro o t' v hob hc'
      rcases happ _ o t' v hob with h1 | ⟨h1, h2⟩
      · by_cases hu : t' = t
        · subst hu
          rw [hgt]
          have := ho.live o t' v h1 hc
          exact ⟨this.1, by simp [this.2]⟩
        · rw [hgn t' hu] at hc' ⊢; exact ho.live o t' v h1 hc'
      · simp at h2
        obtain ⟨e1, e2⟩ := h2
        subst e1 h1
        rw [hgt]
        exact ⟨e2.symm, by simp⟩
    · intro o t' v c hob hc'
      have hu : t' ≠ t := by intro e; subst e; rw [hgt] at hc'; simp [hc] at hc'
      rw [hgn t' hu] at hc' ⊢
      rcases happ _ o t' v hob with h1 | ⟨_, h2⟩
      · exact ho.fin o t' v c h1 hc'
      · simp at h2; exact absurd h2.1.symm hu
    · intro t' c hc'
      have hu : t' ≠ t := by intro e; subst e; rw [hgt] at hc'; simp [hc] at hc'
      rw [hgn t' hu] at hc' ⊢
      exact ho.res t' c hc'
    · intro t' o hin
      show ∃ v, (s.observers ++ [(t, none)])[o]? = some (t', v)
      by_cases hu : t' = t
      · subst hu
        rw [hgt] at hin
        simp at hin
        rcases hin with hin | hin
        · obtain ⟨v, hv⟩ := ho.defs t' o hin
          exact ⟨v, by rw [List.getElem?_append_left (hlt _ _ _ hv)]; exact hv⟩
        · subst hin; exact ⟨none, by simp⟩
      · rw [hgn t' hu] at hin
        obtain ⟨v, hv⟩ := ho.defs t' o hin
        exact ⟨v, by rw [List.getElem?_append_left (hlt _ _ _ hv)]; exact hv⟩
    · intro t'
      by_cases hu : t' = t
      · subst hu
        rw [hgt]
        show ((s.getTask t').deferreds ++ [s.observers.length]).Nodup
        rw [List.nodup_append]
        exact ⟨ho.nodup t', by simp, by
          intro a ha b hb; simp at hb; subst hb; intro e; subst e; exact hfresh ha⟩
      · rw [hgn t' hu]; exact ho.nodup t'
  · next c hc =>
    -- finished: the new Deferred is fired at once with the stored result
    have hgt : ∀ u, ({ s with observers := s.observers ++ [(t, (s.getTask t).result)] } : State).getTask u = s.getTask u :=
      fun u => rfl
    refine ⟨ho.dbl, ?_, ?_, ?_, ?_, ?_⟩
    · intro o t' v hob hc'
      rw [hgt] at hc' ⊢
      rcases happ _ o t' v hob with h1 | ⟨_, h2⟩
      · exact ho.live o t' v h1 hc'
      · simp at h2; rw [← h2.1, hc] at hc'; simp at hc'
    · intro o t' v c' hob hc'
      rw [hgt] at hc' ⊢
      rcases happ _ o t' v hob with h1 | ⟨_, h2⟩
      · exact ho.fin o t' v c' h1 hc'
      · simp at h2; rw [← h2.1, ← h2.2]
    · intro t' c' hc'; rw [hgt] at hc' ⊢; exact ho.res t' c' hc'
    · intro t' o hin
      rw [hgt] at hin
      obtain ⟨v, hv⟩ := ho.defs t' o hin
      exact ⟨v, by
        show (s.observers ++ [(t, (s.getTask t).result)])[o]? = _
        rw [List.getElem?_append_left (hlt _ _ _ hv)]; exact hv⟩
    · intro t'; rw [hgt]; exact ho.nodup t'

theorem newTask_length (s : State) (sc : List Item) : (newTask s sc).1.tasks.length = s.tasks.length + 1 := by
  unfold newTask addTask; dsimp only
  split
  · rw [(completeWith_frame _ _ _ _).len]; simp
  · rw [(reschedule_same _).tasks]; simp

/-- every operation keeps the observer invariant -/
theorem step_obs (s : State) (op : Op) (h : Inv s) (ho : ObsOK s) : ObsOK (step s op).1 := by
  cases op with
  | new sc => exact (newTask_obs s sc ho).1
  | coiter sc =>
    simp only [step]
    have hn := newTask_obs s sc ho
    have hlen := newTask_length s sc
    split
    · next s1 e heq => rw [heq] at hn; exact hn.1
    · next s1 heq =>
      rw [heq] at hn hlen
      exact whenDone_obs s1 _ hn.1 (by simp at hlen; omega)
  | pause t =>
    simp only [step]; split
    · exact ho.same (pauseTask_obsSame s t true)
    · exact ho
  | resume t =>
    simp only [step]; split
    · exact resumeTask_obs s t true ho
    · exact ho
  | stop t =>
    simp only [step]; split
    · next hl =>
      exact stopTask_obs s t ho (fun hc hp => (h.2 t).1.2 ⟨hl, hp, hc⟩)
    · exact ho
  | whenDone t =>
    simp only [step]; split
    · next hl => exact whenDone_obs s t ho hl
    · exact ho
  | tick b => exact (tick_obs s b h ho).1
  | fire j ok => exact fire_obs s j ok h ho
  | cstop => exact (coopStop_obs s h ho).1
  | cstart => exact coopStart_obs s ho

end TwistedProps.C11
