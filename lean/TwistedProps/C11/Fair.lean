/-!
C11 — the arithmetic heart of "no runnable task is starved": the Cooperator's `_tasks` list under
the `_metarator` index walk, as abstract moves.  (Core Lean only.)
-/
namespace TwistedProps.C11.Fair

/-- position of `T` in the list (list length when absent) -/
def pos (T : Nat) : List Nat → Nat
  | [] => 0
  | a :: l => if a = T then 0 else pos T l + 1

theorem pos_lt_length (T : Nat) (l : List Nat) (h : T ∈ l) : pos T l < l.length := by
  induction l with
  | nil => simp at h
  | cons a l ih =>
    by_cases e : a = T
    · simp [pos, e]
    · have : T ∈ l := by
        rcases List.mem_cons.1 h with h | h
        · exact absurd h.symm e
        · exact h
      simp [pos, e]; exact ih this

theorem get_pos (T : Nat) (l : List Nat) (h : T ∈ l) : l[pos T l]? = some T := by
  induction l with
  | nil => simp at h
  | cons a l ih =>
    by_cases e : a = T
    · simp [pos, e]
    · have : T ∈ l := by
        rcases List.mem_cons.1 h with h | h
        · exact absurd h.symm e
        · exact h
      simp [pos, e]; exact ih this

theorem pos_append (T u : Nat) (l : List Nat) (h : T ∈ l) : pos T (l ++ [u]) = pos T l := by
  induction l with
  | nil => simp at h
  | cons a l ih =>
    by_cases e : a = T
    · simp [pos, e]
    · have : T ∈ l := by
        rcases List.mem_cons.1 h with h | h
        · exact absurd h.symm e
        · exact h
      simp [pos, e]; exact ih this

theorem pos_erase (l : List Nat) (T u : Nat) (hT : T ∈ l) (hu : u ≠ T) :
    pos T (l.erase u) = if pos u l < pos T l then pos T l - 1 else pos T l := by
  induction l with
  | nil => simp at hT
  | cons a l ih =>
    by_cases hau : a = u
    · subst hau
      simp [pos, hu]
    · by_cases haT : a = T
      · subst haT
        simp [hau, pos]
      · have hT' : T ∈ l := by
          rcases List.mem_cons.1 hT with e | e
          · exact absurd e.symm haT
          · exact e
        have := ih hT'
        simp only [List.erase_cons, pos, beq_iff_eq, hau, haT, if_false, this]
        split <;> split <;> omega

/-- the moves `_tasks` / `_metarator` can make while task `T` stays in the list un-advanced -/
inductive Move where
  | erase (u : Nat)     -- `_removeTask(u)`: another task paused, finished or yielded a Deferred
  | append (u : Nat)    -- `_addTask(u)`: a task resumed / created
  | yield               -- `next(_metarator)` returned `_tasks[i]`: one work unit of another task
  | refresh             -- `_metarator` exhausted: `self._metarator = iter(self._tasks)`

def apply : List Nat × Nat → Move → List Nat × Nat
  | (l, i), .erase u => (l.erase u, i)
  | (l, i), .append u => (l ++ [u], i)
  | (l, i), .yield => (l, i + 1)
  | (l, _), .refresh => (l, 0)

/-- what makes a move possible for the code, and harmless for `T` -/
def legal (T N : Nat) : List Nat × Nat → Move → Prop
  | (_, _), .erase u => u ≠ T
  | (l, _), .append _ => l.length < N
  | (l, i), .yield => (l[i]?).isSome = true ∧ l[i]? ≠ some T
  | (l, i), .refresh => l.length ≤ i

/-- lexicographic rank: (position of `T`, work units until the index walk reaches it) -/
def rank (T N : Nat) (c : List Nat × Nat) : Nat :=
  pos T c.1 * N + (if c.2 ≤ pos T c.1 then pos T c.1 - c.2 else N - c.2 + pos T c.1)

structure Ok (T N : Nat) (c : List Nat × Nat) : Prop where
  mem : T ∈ c.1
  len : c.1.length ≤ N

theorem mul_pred_add_lt (p N d : Nat) (hp : 0 < p) (hd : d < N) : (p - 1) * N + d < p * N := by
  cases p with
  | zero => omega
  | succ k => simp [Nat.succ_mul]; omega

/-- every legal move keeps `T` in the list and does not increase its rank; a work unit given to
    another task strictly decreases it -/
theorem move_rank (T N : Nat) (c : List Nat × Nat) (m : Move) (h : Ok T N c) (hl : legal T N c m) :
    Ok T N (apply c m) ∧ rank T N (apply c m) ≤ rank T N c ∧
      (m = .yield → rank T N (apply c m) < rank T N c) := by
  obtain ⟨l, i⟩ := c
  have hpl := pos_lt_length T l h.mem
  have hlen : l.length ≤ N := h.len
  have hmem : T ∈ l := h.mem
  cases m with
  | erase u =>
    have hu : u ≠ T := hl
    refine ⟨⟨(List.mem_erase_of_ne (Ne.symm hu)).2 h.mem, Nat.le_trans (List.length_erase_le) hlen⟩, ?_, by simp⟩
    simp only [apply, rank, pos_erase l T u h.mem hu]
    split
    · next hlt =>
      have hp : 0 < pos T l := by omega
      have hd : (if i ≤ pos T l - 1 then pos T l - 1 - i else N - i + (pos T l - 1)) < N := by
        split <;> omega
      have := mul_pred_add_lt (pos T l) N _ hp hd
      omega
    · exact Nat.le_refl _
  | append u =>
    refine ⟨⟨by simp [apply, h.mem], ?_⟩, ?_, by simp⟩
    · have : l.length < N := hl
      simp [apply]; omega
    · simp only [apply, rank, pos_append T u l h.mem]; exact Nat.le_refl _
  | yield =>
    have hsome : (l[i]?).isSome = true := hl.1
    have hne : l[i]? ≠ some T := hl.2
    have hi : i < l.length := by
      apply Classical.byContradiction; intro hc
      rw [List.getElem?_eq_none (by omega)] at hsome; simp at hsome
    have hip : i ≠ pos T l := by
      intro e; rw [e, get_pos T l h.mem] at hne; exact hne rfl
    refine ⟨⟨hmem, hlen⟩, ?_, fun _ => ?_⟩
    · simp only [apply, rank]
      by_cases h1 : i + 1 ≤ pos T l <;> by_cases h2 : i ≤ pos T l <;>
        simp only [h1, h2, if_true, if_false] <;> omega
    · simp only [apply, rank]
      by_cases h1 : i + 1 ≤ pos T l <;> by_cases h2 : i ≤ pos T l <;>
        simp only [h1, h2, if_true, if_false] <;> omega
  | refresh =>
    have : l.length ≤ i := hl
    refine ⟨⟨hmem, hlen⟩, ?_, by simp⟩
    simp only [apply, rank]
    by_cases h2 : i ≤ pos T l <;> simp only [h2, Nat.zero_le, if_true, if_false] <;> omega

def applyAll (c : List Nat × Nat) : List Move → List Nat × Nat
  | [] => c
  | m :: ms => applyAll (apply c m) ms

def legalAll (T N : Nat) (c : List Nat × Nat) : List Move → Prop
  | [] => True
  | m :: ms => legal T N c m ∧ legalAll T N (apply c m) ms

def yields : List Move → Nat
  | [] => 0
  | .yield :: ms => yields ms + 1
  | _ :: ms => yields ms

theorem yields_le_rank (T N : Nat) (c : List Nat × Nat) (ms : List Move) (h : Ok T N c)
    (hl : legalAll T N c ms) : yields ms + rank T N (applyAll c ms) ≤ rank T N c := by
  induction ms generalizing c with
  | nil => simp [yields, applyAll]
  | cons m ms ih =>
    have hm := move_rank T N c m h hl.1
    have := ih (apply c m) hm.1 hl.2
    cases m with
    | yield => have := hm.2.2 rfl; simp only [yields, applyAll]; omega
    | erase u => simp only [yields, applyAll]; omega
    | append u => simp only [yields, applyAll]; omega
    | refresh => simp only [yields, applyAll]; omega

theorem rank_lt (T N : Nat) (c : List Nat × Nat) (h : Ok T N c) (hi : c.2 ≤ N) : rank T N c < N * N := by
  obtain ⟨l, i⟩ := c
  have hpl := pos_lt_length T l h.mem
  have hlen : l.length ≤ N := h.len
  have hd : (if i ≤ pos T l then pos T l - i else N - i + pos T l) < N := by
    simp at hi; split <;> omega
  simp only [rank]
  have : pos T l * N + N ≤ N * N := by
    have : (pos T l + 1) * N ≤ N * N := Nat.mul_le_mul_right N (by omega)
    rw [Nat.succ_mul] at this; exact this
  omega

theorem applyAll_append (c : List Nat × Nat) (a b : List Move) :
    applyAll c (a ++ b) = applyAll (applyAll c a) b := by
  induction a generalizing c with
  | nil => rfl
  | cons m a ih => exact ih _

theorem legalAll_append (T N : Nat) (c : List Nat × Nat) (a b : List Move) :
    legalAll T N c (a ++ b) ↔ legalAll T N c a ∧ legalAll T N (applyAll c a) b := by
  induction a generalizing c with
  | nil => simp [legalAll, applyAll]
  | cons m a ih =>
    show legal T N c m ∧ legalAll T N (apply c m) (a ++ b) ↔ _
    rw [ih]; simp [legalAll, applyAll, and_assoc]

theorem yields_append (a b : List Move) : yields (a ++ b) = yields a + yields b := by
  induction a with
  | nil => simp [yields]
  | cons m a ih => cases m <;> simp [yields, ih] <;> omega

theorem ok_applyAll (T N : Nat) (c : List Nat × Nat) (ms : List Move) (h : Ok T N c)
    (hl : legalAll T N c ms) : Ok T N (applyAll c ms) := by
  induction ms generalizing c with
  | nil => exact h
  | cons m ms ih => exact ih _ (move_rank T N c m h hl.1).1 hl.2

/-- the rank is below `N²` wherever the index stands -/
theorem rank_lt' (T N : Nat) (c : List Nat × Nat) (h : Ok T N c) : rank T N c < N * N := by
  obtain ⟨l, i⟩ := c
  have hpl := pos_lt_length T l h.mem
  have hlen : l.length ≤ N := h.len
  have hd : (if i ≤ pos T l then pos T l - i else N - i + pos T l) < N := by
    split <;> omega
  simp only [rank]
  have : pos T l * N + N ≤ N * N := by
    have : (pos T l + 1) * N ≤ N * N := Nat.mul_le_mul_right N (by omega)
    rw [Nat.succ_mul] at this; exact this
  omega

/-- a duplicate-free list of numbers below `n` has at most `n` elements -/
theorem nodup_bounded (n : Nat) : ∀ l : List Nat, l.Nodup → (∀ x ∈ l, x < n) → l.length ≤ n := by
  induction n with
  | zero =>
    intro l _ h
    cases l with
    | nil => simp
    | cons a l => exact absurd (h a (by simp)) (by omega)
  | succ n ih =>
    intro l hnd h
    have h1 := ih (l.erase n) (hnd.erase n) (fun x hx => by
      have hx' := (List.Nodup.mem_erase_iff hnd).1 hx
      have := h x hx'.2
      have := hx'.1
      omega)
    have := List.length_erase (a := n) (l := l)
    split at this <;> omega

instance (T N : Nat) (c : List Nat × Nat) (m : Move) : Decidable (legal T N c m) := by
  obtain ⟨l, i⟩ := c
  cases m <;> unfold legal <;> infer_instance

instance (T N : Nat) : (c : List Nat × Nat) → (ms : List Move) → Decidable (legalAll T N c ms)
  | _, [] => isTrue trivial
  | c, m :: ms =>
    have := instDecidableLegalAll T N (apply c m) ms
    inferInstanceAs (Decidable (legal T N c m ∧ legalAll T N (apply c m) ms))

end TwistedProps.C11.Fair
