import TwistedProps.C11.ObsOps
/-! C11 — a task that failed with "the failure of Deferred `j`" did so because `j` was errbacked. -/
namespace TwistedProps.C11
open Twisted.Reactor.Cooperator

def FailOK (s : State) : Prop :=
  ∀ t j, (s.getTask t).result = some (.deferredFailure j) → s.fired.lookup j = some false

/-- `fired` unchanged, and `FailOK` carried over -/
structure FStep (s s' : State) : Prop where
  fired : s'.fired = s.fired
  ok : FailOK s → FailOK s'

theorem FStep.refl (s : State) : FStep s s := ⟨rfl, id⟩
theorem FStep.trans {a b c : State} (h1 : FStep a b) (h2 : FStep b c) : FStep a c :=
  ⟨h2.fired.trans h1.fired, fun h => h2.ok (h1.ok h)⟩

theorem FStep.of_res {s s' : State} (hf : s'.fired = s.fired)
    (hr : ∀ u, (s'.getTask u).result = (s.getTask u).result) : FStep s s' :=
  ⟨hf, fun h t j hres => by rw [hf]; rw [hr] at hres; exact h t j hres⟩

theorem FStep.of_eq {s s' : State} (ht : s'.tasks = s.tasks) (hf : s'.fired = s.fired) : FStep s s' :=
  FStep.of_res hf (fun u => by simp [State.getTask, ht])

theorem FStep.of_same {s s' : State} (h : ObsSame s s') (hf : s'.fired = s.fired) : FStep s s' :=
  FStep.of_res hf h.res

theorem removeTask_fired (s : State) (t : Nat) : (removeTask s t).1.fired = s.fired := by
  unfold removeTask; split <;> rfl

theorem updTask_fstep (s : State) (t : Nat) (f : Task → Task)
    (hf : ∀ k, (f k).completion = k.completion ∧ (f k).result = k.result ∧ (f k).deferreds = k.deferreds) :
    FStep s (s.updTask t f) := FStep.of_same (updTask_obsSame s t f hf) rfl

theorem cwMid_fired (s : State) (t : Nat) (c : Completion) (r : Result) : (cwMid s t c r).fired = s.fired := by
  unfold cwMid; split
  · rw [removeTask_fired]; rfl
  · rfl

theorem completeWith_fstep (s : State) (t : Nat) (c : Completion) (r : Result)
    (hr : ∀ j, r = .deferredFailure j → s.fired.lookup j = some false) :
    FStep s (completeWith s t c r).1 := by
  have hf : (completeWith s t c r).1.fired = s.fired := by
    rw [(completeWith_same s t c r).fired, cwMid_fired]
  refine ⟨hf, fun h u j hres => ?_⟩
  rw [hf]
  by_cases hu : u = t
  · subst hu
    by_cases hl : u < s.tasks.length
    · rw [completeWith_getTask s u c r hl] at hres
      simp at hres
      exact hr j hres
    · have : (completeWith s u c r).1.getTask u = default := by
        rw [getTask_ge]; rw [(completeWith_frame s u c r).len]; exact hl
      rw [this] at hres
      exact absurd hres (by simp [show (default : Task).result = none from rfl])
  · rw [(completeWith_frame s t c r).task u hu] at hres
    exact h u j hres

theorem addTask_fstep (s : State) (t : Nat) : FStep s (addTask s t).1 := by
  unfold addTask
  have h1 : FStep s { s with cur := s.cur ++ [t] } := FStep.of_eq rfl rfl
  split
  · exact h1.trans (completeWith_fstep _ t _ _ (fun j e => by cases e))
  · exact h1.trans (FStep.of_same (reschedule_obsSame _) (reschedule_same _).fired)

theorem pauseTask_fstep (s : State) (t : Nat) (u : Bool) : FStep s (pauseTask s t u).1 := by
  cases hc : (s.getTask t).completion with
  | some c => rw [pauseTask_done s t u c hc]; exact FStep.refl s
  | none =>
    rw [pauseTask_live s t u hc]
    have h1 := updTask_fstep s t (fun k => { k with pc := k.pc + 1, upc := if u then k.upc + 1 else k.upc })
      (fun k => ⟨rfl, rfl, rfl⟩)
    split
    · exact h1.trans (FStep.of_same (removeTask_obsSame _ t) (removeTask_fired _ t))
    · exact h1

theorem resumeTask_fstep (s : State) (t : Nat) (u : Bool) : FStep s (resumeTask s t u).1 := by
  by_cases hp : (s.getTask t).pc = 0
  · rw [resumeTask_zero s t u hp]; exact FStep.refl s
  · rw [resumeTask_pos s t u hp]
    have h1 := updTask_fstep s t (fun k => { k with pc := k.pc - 1, upc := if u then k.upc - 1 else k.upc })
      (fun k => ⟨rfl, rfl, rfl⟩)
    split
    · exact h1.trans (addTask_fstep _ t)
    · exact h1

theorem stopTask_fstep (s : State) (t : Nat) : FStep s (stopTask s t).1 := by
  unfold stopTask; split
  · exact FStep.refl s
  · exact completeWith_fstep s t _ _ (fun j e => by cases e)

theorem failLater_fstep (s : State) (t j : Nat) (hj : s.fired.lookup j = some false) :
    FStep s (failLater s t j).1 := by
  unfold failLater; split
  · exact completeWith_fstep s t _ _ (fun j' e => by cases e; exact hj)
  · exact FStep.refl s

theorem workBody_fstep (s : State) (t : Nat) : FStep s (workBody s t).1 := by
  unfold workBody
  split
  · exact completeWith_fstep s t _ _ (fun j e => by cases e)
  · exact (updTask_fstep s t (fun k => { k with script := [] }) (fun k => ⟨rfl, rfl, rfl⟩)).trans
      (completeWith_fstep _ t _ _ (fun j e => by cases e))
  · exact updTask_fstep s t _ (fun k => ⟨rfl, rfl, rfl⟩)
  · next j rest hs =>
    have h1 := updTask_fstep s t (fun k => { k with script := rest }) (fun k => ⟨rfl, rfl, rfl⟩)
    have h2 := pauseTask_fstep (s.updTask t fun k => { k with script := rest }) t false
    dsimp only
    split
    · next s2 e heq => rw [heq] at h2; exact h1.trans h2
    · next s2 heq =>
      rw [heq] at h2
      have h12 := h1.trans h2
      split
      · exact h12.trans (updTask_fstep s2 t _ (fun k => ⟨rfl, rfl, rfl⟩))
      · exact h12.trans (resumeTask_fstep s2 t false)
      · next hlk => exact h12.trans (failLater_fstep s2 t j hlk)

theorem workUnit_fstep (s : State) (t : Nat) : FStep s (workUnit s t).1 := by
  rw [workUnit_eq]
  exact (FStep.of_eq rfl rfl : FStep s { s with log := recOf s t :: s.log }).trans (workBody_fstep _ t)

theorem metaNext_fired (s : State) : (metaNext s).2.fired = s.fired := by
  unfold metaNext
  split
  · rfl
  · split <;> rfl
  · split <;> rfl

theorem nextTask_fstep (s : State) : FStep s (nextTask s).2 := by
  refine FStep.of_same (nextTask_obsSame s) ?_
  have hd := metaNext_fired s
  rcases hmn : metaNext s with ⟨o, s'⟩
  rw [hmn] at hd
  cases o with
  | some t => rw [nextTask_some s s' t hmn]; exact hd
  | none =>
    cases hc : s.cur with
    | nil => rw [nextTask_none_nil s s' hmn hc]
    | cons t rest => rw [nextTask_none_cons s s' t rest hmn hc]

theorem tickLoop_fstep (fuel : Nat) (s : State) : FStep s (tickLoop fuel s).1 := by
  induction fuel generalizing s with
  | zero => exact FStep.refl s
  | succ n ih =>
    have hm := nextTask_fstep s
    unfold tickLoop
    split
    · next s' heq => rw [heq] at hm; exact hm
    · next t s1 heq =>
      rw [heq] at hm
      have hw := workUnit_fstep s1 t
      split
      · next s2 e heq2 => rw [heq2] at hw; exact hm.trans hw
      · next s2 heq2 => rw [heq2] at hw; exact (hm.trans hw).trans (ih s2)

theorem tick_fstep (s : State) (b : Nat) : FStep s (tick s b).1 := by
  unfold tick
  split
  · exact FStep.refl s
  · have m0 : FStep s { s with scheduled := false } := FStep.of_eq rfl rfl
    have hre : ∀ x : State, FStep x (reschedule x) :=
      fun x => FStep.of_same (reschedule_obsSame x) (reschedule_same x).fired
    dsimp only
    split
    · exact m0.trans (hre _)
    · have ht := tickLoop_fstep b { s with scheduled := false }
      split
      · next s1 e heq => rw [heq] at ht; exact m0.trans ht
      · next s1 heq => rw [heq] at ht; exact (m0.trans ht).trans (hre _)

theorem fireWaiters_fstep (j : Nat) (ok : Bool) (ts : List Nat) (s : State)
    (hj : ok = false → s.fired.lookup j = some false) : FStep s (fireWaiters j ok s ts) := by
  induction ts generalizing s with
  | nil => exact FStep.refl s
  | cons t ts ih =>
    unfold fireWaiters
    dsimp only
    have key : FStep s (if j ∈ (s.getTask t).waitingOn then
          (if ok then (resumeTask (s.updTask t fun k => { k with waitingOn := k.waitingOn.erase j }) t false).1
           else (failLater (s.updTask t fun k => { k with waitingOn := k.waitingOn.erase j }) t j).1)
        else s) := by
      split
      · have h1 := updTask_fstep s t (fun k => { k with waitingOn := k.waitingOn.erase j }) (fun k => ⟨rfl, rfl, rfl⟩)
        split
        · exact h1.trans (resumeTask_fstep _ t false)
        · next hok => exact h1.trans (failLater_fstep _ t j (hj (by simpa using hok)))
      · exact FStep.refl s
    exact key.trans (ih _ (fun h => by rw [key.fired]; exact hj h))

theorem fire_failok (s : State) (j : Nat) (ok : Bool) (h : FailOK s) : FailOK (fire s j ok).1 := by
  unfold fire
  split
  · exact h
  · next hnf =>
    have hnone : s.fired.lookup j = none := by
      cases hl : s.fired.lookup j with
      | none => rfl
      | some b => rw [hl] at hnf; simp at hnf
    have h1 : FailOK { s with fired := (j, ok) :: s.fired } := by
      intro t j' hres
      have := h t j' hres
      show List.lookup j' ((j, ok) :: s.fired) = some false
      by_cases e : j' = j
      · subst e; rw [hnone] at this; simp at this
      · simp [List.lookup]
        have hb : (j' == j) = false := by simpa using e
        rw [hb]; exact this
    refine (fireWaiters_fstep j ok _ _ (fun hok => ?_)).ok h1
    show List.lookup j ((j, ok) :: s.fired) = some false
    simp [List.lookup, hok]

theorem stopLoop_fstep (ts : List Nat) (s : State) : FStep s (stopLoop ts s).1 := by
  induction ts generalizing s with
  | nil => exact FStep.refl s
  | cons t ts ih =>
    unfold stopLoop
    have hm := completeWith_fstep s t .schedStopped .schedulerStopped (fun j e => by cases e)
    split
    · next s' e heq => rw [heq] at hm; exact hm
    · next s' heq => rw [heq] at hm; exact hm.trans (ih s')

theorem coopStop_fstep (s : State) : FStep s (coopStop s).1 := by
  unfold coopStop
  have m0 : FStep s { s with stopped := true } := FStep.of_eq rfl rfl
  have hl := stopLoop_fstep s.cur { s with stopped := true }
  dsimp only
  split
  · next s1 e heq => rw [heq] at hl; exact m0.trans hl
  · next s1 heq => rw [heq] at hl; exact (m0.trans hl).trans (FStep.of_eq rfl rfl)

theorem coopStart_fstep (s : State) : FStep s (coopStart s) := by
  unfold coopStart
  dsimp only
  split
  · exact (FStep.of_eq rfl rfl : FStep s { s with stopped := false, started := true, mustSched := false }).trans
      (FStep.of_same (reschedule_obsSame _) (reschedule_same _).fired)
  · exact FStep.of_eq rfl rfl

theorem newTask_fstep (s : State) (sc : List Item) : FStep s (newTask s sc).1 := by
  unfold newTask
  dsimp only
  have hnew : ({ s with tasks := s.tasks ++ [{ script := sc }] } : State).getTask s.tasks.length = { script := sc } := by
    simp [State.getTask]
  have hget : ∀ u, u ≠ s.tasks.length →
      ({ s with tasks := s.tasks ++ [{ script := sc }] } : State).getTask u = s.getTask u := by
    intro u hu
    unfold State.getTask
    by_cases hlt : u < s.tasks.length
    · simp [List.getElem?_append_left hlt]
    · have e1 : (s.tasks ++ [({ script := sc } : Task)])[u]? = none :=
        List.getElem?_eq_none (by simp; omega)
      have e2 : s.tasks[u]? = none := List.getElem?_eq_none (by omega)
      simp only [e1, e2]
  have hold : s.getTask s.tasks.length = default := getTask_ge s _ (Nat.lt_irrefl _)
  have e1 : FStep s { s with tasks := s.tasks ++ [{ script := sc }] } := by
    refine FStep.of_res rfl (fun u => ?_)
    by_cases hu : u = s.tasks.length
    · subst hu; rw [hnew, hold]; rfl
    · rw [hget u hu]
  exact e1.trans (addTask_fstep _ _)

theorem whenDone_fstep (s : State) (t : Nat) : FStep s (whenDone s t) := by
  unfold whenDone
  dsimp only
  split
  · refine FStep.of_res rfl (fun u => ?_)
    by_cases hu : u = t
    · subst hu
      by_cases hl : u < s.tasks.length
      · rw [getTask_updTask_same _ _ _ (by simpa using hl)]; rfl
      · rw [getTask_updTask_ge _ _ _ (by simpa using Nat.le_of_not_lt hl)]; rfl
    · rw [getTask_updTask_ne _ _ _ _ hu]; rfl
  · exact FStep.of_eq rfl rfl

theorem step_failok (s : State) (op : Op) (h : FailOK s) : FailOK (step s op).1 := by
  cases op with
  | new sc => exact (newTask_fstep s sc).ok h
  | coiter sc =>
    simp only [step]
    have hn := newTask_fstep s sc
    split
    · next s1 e heq => rw [heq] at hn; exact hn.ok h
    · next s1 heq => rw [heq] at hn; exact (hn.trans (whenDone_fstep s1 _)).ok h
  | pause t => simp only [step]; split
               · exact (pauseTask_fstep s t true).ok h
               · exact h
  | resume t => simp only [step]; split
                · exact (resumeTask_fstep s t true).ok h
                · exact h
  | stop t => simp only [step]; split
              · exact (stopTask_fstep s t).ok h
              · exact h
  | whenDone t => simp only [step]; split
                  · exact (whenDone_fstep s t).ok h
                  · exact h
  | tick b => exact (tick_fstep s b).ok h
  | fire j ok => exact fire_failok s j ok h
  | cstop => exact (coopStop_fstep s).ok h
  | cstart => exact (coopStart_fstep s).ok h

theorem run_failok (s : State) (ops : List Op) (h : FailOK s) : FailOK (run s ops) := by
  induction ops generalizing s with
  | nil => exact h
  | cons op ops ih => exact ih _ (step_failok s op h)

end TwistedProps.C11
