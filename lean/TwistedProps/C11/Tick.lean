import TwistedProps.C11.Inv
namespace TwistedProps.C11
open Twisted.Reactor.Cooperator

theorem Inv.congr' {s s' : State} (h : Inv s) (ht : s'.tasks = s.tasks) (hc : s'.cur = s.cur)
    (hm : ∀ l i, s'.meta = .stale l i → l = []) : Inv s' := by
  refine ⟨⟨by rw [hc]; exact h.1.nodup, hm⟩, fun u => ?_⟩
  have := h.2 u
  unfold TaskOK MemOK CntOK good at *
  simpa [State.getTask, ht, hc] using this

def LogOK (s : State) : Prop := ∀ r ∈ s.log, recOK r

theorem metaNext_spec (s : State) (h : Inv s) :
    Inv (metaNext s).2 ∧ (metaNext s).2.log = s.log ∧ (metaNext s).2.cur = s.cur ∧
      (metaNext s).2.tasks = s.tasks ∧ ∀ t, (metaNext s).1 = some t → t ∈ s.cur := by
  unfold metaNext
  split
  · exact ⟨h, rfl, rfl, rfl, by simp⟩
  · next i hm =>
    split
    · next t hget =>
      refine ⟨h.congr' rfl rfl (by simp), rfl, rfl, rfl, ?_⟩
      intro t' ht'; simp at ht'; subst ht'
      exact List.mem_of_getElem? hget
    · exact ⟨h, rfl, rfl, rfl, by simp⟩
  · next l i hm =>
    have hl := h.1.stale l i hm
    subst hl
    simpa using h

theorem nextTask_some (s s' : State) (t : Nat) (h : metaNext s = (some t, s')) :
    nextTask s = (some t, s') := by simp [nextTask, h]
theorem nextTask_none_nil (s s' : State) (h : metaNext s = (none, s')) (hc : s.cur = []) :
    nextTask s = (none, { s with «meta» := .live 0 }) := by simp [nextTask, h, hc]
theorem nextTask_none_cons (s s' : State) (t : Nat) (rest : List Nat) (h : metaNext s = (none, s'))
    (hc : s.cur = t :: rest) : nextTask s = (some t, { s with «meta» := .live 1 }) := by
  simp [nextTask, h, hc]

theorem nextTask_spec (s : State) (h : Inv s) :
    Inv (nextTask s).2 ∧ (nextTask s).2.log = s.log ∧ ∀ t, (nextTask s).1 = some t → t ∈ (nextTask s).2.cur := by
  have hm := metaNext_spec s h
  rcases hmn : metaNext s with ⟨o, s'⟩
  rw [hmn] at hm
  cases o with
  | some t =>
    rw [nextTask_some s s' t hmn]
    exact ⟨hm.1, hm.2.1, fun t' ht' => by rw [hm.2.2.1]; exact hm.2.2.2.2 t' ht'⟩
  | none =>
    cases hc : s.cur with
    | nil =>
      rw [nextTask_none_nil s s' hmn hc]
      exact ⟨h.congr' rfl rfl (by simp), rfl, by simp⟩
    | cons t rest =>
      rw [nextTask_none_cons s s' t rest hmn hc]
      refine ⟨h.congr' rfl rfl (by simp), rfl, ?_⟩
      intro t' ht'; simp at ht'; subst ht'
      show t ∈ s.cur
      rw [hc]; simp

theorem tickLoop_spec (fuel : Nat) (s : State) (h : Inv s) (hlog : LogOK s) :
    Inv (tickLoop fuel s).1 ∧ LogOK (tickLoop fuel s).1 := by
  induction fuel generalizing s with
  | zero => exact ⟨h, hlog⟩
  | succ n ih =>
    have hn := nextTask_spec s h
    unfold tickLoop
    split
    · next s' heq => rw [heq] at hn; exact ⟨hn.1, by intro r hr; rw [hn.2.1] at hr; exact hlog r hr⟩
    · next t s1 heq =>
      rw [heq] at hn
      have hw := workUnit_inv s1 t hn.1 (hn.2.2 t rfl)
      have hlog2 : LogOK (workUnit s1 t).1 := by
        intro r hr; rw [hw.2.1] at hr
        rcases List.mem_cons.1 hr with h1 | h1
        · rw [h1]; exact hw.2.2
        · rw [hn.2.1] at h1; exact hlog r h1
      split
      · next s2 e heq2 => rw [heq2] at hw hlog2; exact ⟨hw.1, hlog2⟩
      · next s2 heq2 => rw [heq2] at hw hlog2; exact ih s2 hw.1 hlog2

theorem tick_spec (s : State) (b : Nat) (h : Inv s) (hlog : LogOK s) :
    Inv (tick s b).1 ∧ LogOK (tick s b).1 := by
  unfold tick
  split
  · exact ⟨h, hlog⟩
  · have h0 : Inv { s with scheduled := false } := h.congr rfl rfl rfl
    have hlog0 : LogOK { s with scheduled := false } := hlog
    dsimp only
    split
    · have hs := reschedule_same { s with scheduled := false }
      exact ⟨h0.congr hs.tasks hs.cur hs.meta, by intro r hr; rw [hs.log] at hr; exact hlog0 r hr⟩
    · have ht := tickLoop_spec b _ h0 hlog0
      split
      · next s1 e heq => rw [heq] at ht; exact ht
      · next s1 heq =>
        rw [heq] at ht
        have hs := reschedule_same s1
        exact ⟨ht.1.congr hs.tasks hs.cur hs.meta, by intro r hr; rw [hs.log] at hr; exact ht.2 r hr⟩

end TwistedProps.C11
