import TwistedProps.C11.Mono
/-!
C11 — the observer-ownership invariant: every `whenDone`/`coiterate` Deferred belongs to one task,
is un-fired and registered in `_deferreds` (once) while the task is unfinished, and carries the task's
stored `_completionResult` once it has finished; nothing is ever called back twice.
-/
namespace TwistedProps.C11
open Twisted.Reactor.Cooperator

/-- the value a `whenDone` Deferred fires with matches the way the task finished -/
def Matches : Completion → Result → Prop
  | .done, .iterator => True
  | .stopped, .taskStopped => True
  | .schedStopped, .schedulerStopped => True
  | .failed, .iterError => True
  | .failed, .deferredFailure _ => True
  | _, _ => False

instance (c : Completion) (r : Result) : Decidable (Matches c r) := by
  cases c <;> cases r <;> unfold Matches <;> infer_instance

structure ObsOK (s : State) : Prop where
  dbl : s.dblFire = 0
  live : ∀ (o t : Nat) (v : Option Result), s.observers[o]? = some (t, v) → (s.getTask t).completion = none →
    v = none ∧ o ∈ (s.getTask t).deferreds
  fin : ∀ (o t : Nat) (v : Option Result) (c : Completion), s.observers[o]? = some (t, v) → (s.getTask t).completion = some c →
    v = (s.getTask t).result
  res : ∀ t c, (s.getTask t).completion = some c → ∃ r, (s.getTask t).result = some r ∧ Matches c r
  defs : ∀ (t o : Nat), o ∈ (s.getTask t).deferreds → ∃ v : Option Result, s.observers[o]? = some (t, v)
  nodup : ∀ t, (s.getTask t).deferreds.Nodup

/-- the part of the state `ObsOK` talks about is unchanged -/
structure ObsSame (s s' : State) : Prop where
  obs : s'.observers = s.observers
  dbl : s'.dblFire = s.dblFire
  comp : ∀ u, (s'.getTask u).completion = (s.getTask u).completion
  res : ∀ u, (s'.getTask u).result = (s.getTask u).result
  defs : ∀ u, (s'.getTask u).deferreds = (s.getTask u).deferreds

theorem ObsSame.refl (s : State) : ObsSame s s := ⟨rfl, rfl, fun _ => rfl, fun _ => rfl, fun _ => rfl⟩
theorem ObsSame.trans {a b c : State} (h1 : ObsSame a b) (h2 : ObsSame b c) : ObsSame a c :=
  ⟨h2.obs.trans h1.obs, h2.dbl.trans h1.dbl, fun u => (h2.comp u).trans (h1.comp u),
   fun u => (h2.res u).trans (h1.res u), fun u => (h2.defs u).trans (h1.defs u)⟩

theorem ObsSame.of_eq {s s' : State} (ht : s'.tasks = s.tasks) (ho : s'.observers = s.observers)
    (hd : s'.dblFire = s.dblFire) : ObsSame s s' := by
  have e : ∀ u, s'.getTask u = s.getTask u := fun u => by simp [State.getTask, ht]
  exact ⟨ho, hd, fun u => by rw [e], fun u => by rw [e], fun u => by rw [e]⟩

theorem ObsOK.same {s s' : State} (h : ObsOK s) (e : ObsSame s s') : ObsOK s' := by
  refine ⟨by rw [e.dbl]; exact h.dbl, ?_, ?_, ?_, ?_, ?_⟩
  · intro o t v ho hc; rw [e.obs] at ho; rw [e.comp] at hc; rw [e.defs]; exact h.live o t v ho hc
  · intro o t v c ho hc; rw [e.obs] at ho; rw [e.comp] at hc; rw [e.res]; exact h.fin o t v c ho hc
  · intro t c hc; rw [e.comp] at hc; rw [e.res]; exact h.res t c hc
  · intro t o ho; rw [e.defs] at ho; rw [e.obs]; exact h.defs t o ho
  · intro t; rw [e.defs]; exact h.nodup t

/-- the owner of a Deferred is a task that exists -/
theorem ObsOK.owner {s : State} (h : ObsOK s) (o t : Nat) (v : Option Result)
    (ho : s.observers[o]? = some (t, v)) : t < s.tasks.length := by
  apply Classical.byContradiction; intro hl
  have hd := getTask_ge s t hl
  have hc : (s.getTask t).completion = none := by rw [hd]; rfl
  have := (h.live o t v ho hc).2
  rw [hd] at this
  exact absurd this (by simp [show (default : Task).deferreds = [] from rfl])

theorem updTask_obsSame (s : State) (t : Nat) (f : Task → Task)
    (hf : ∀ k, (f k).completion = k.completion ∧ (f k).result = k.result ∧ (f k).deferreds = k.deferreds) :
    ObsSame s (s.updTask t f) := by
  have key : ∀ u, (s.updTask t f).getTask u = s.getTask u ∨ (s.updTask t f).getTask u = f (s.getTask u) := by
    intro u
    by_cases hu : u = t
    · subst hu
      by_cases hl : u < s.tasks.length
      · exact Or.inr (getTask_updTask_same _ _ _ hl)
      · exact Or.inl (getTask_updTask_ge _ _ _ (Nat.le_of_not_lt hl))
    · exact Or.inl (getTask_updTask_ne _ _ _ _ hu)
  refine ⟨rfl, rfl, fun u => ?_, fun u => ?_, fun u => ?_⟩ <;>
    rcases key u with e | e <;> rw [e]
  · exact (hf _).1
  · exact (hf _).2.1
  · exact (hf _).2.2

theorem removeTask_dblFire (s : State) (t : Nat) : (removeTask s t).1.dblFire = s.dblFire := by
  unfold removeTask; split <;> rfl

theorem removeTask_obsSame (s : State) (t : Nat) : ObsSame s (removeTask s t).1 :=
  ObsSame.of_eq (removeTask_tasks s t) (removeTask_observers s t) (removeTask_dblFire s t)

theorem reschedule_obsSame (s : State) : ObsSame s (reschedule s) := by
  unfold reschedule; split
  · exact ObsSame.of_eq rfl rfl rfl
  · split <;> exact ObsSame.of_eq rfl rfl rfl

/-! ### firing the registered Deferreds -/

theorem fireObs_unfired (s : State) (o t : Nat) (r : Result) (h : s.observers[o]? = some (t, none)) :
    fireObs s o r = ({ s with observers := s.observers.set o (t, some r) }, none) := by
  simp [fireObs, h]

/-- `for d in self._deferreds: d.callback(result)` over distinct un-fired Deferreds of `t`: no
    `AlreadyCalledError`, exactly those Deferreds now hold `r`, nothing else changes -/
theorem fireAll_spec (os : List Nat) (s : State) (t : Nat) (r : Result) (hnd : os.Nodup)
    (hun : ∀ o ∈ os, s.observers[o]? = some (t, none)) :
    (fireAll s os r).2 = none ∧ (fireAll s os r).1.dblFire = s.dblFire ∧
      ∀ o, (fireAll s os r).1.observers[o]? = if o ∈ os then some (t, some r) else s.observers[o]? := by
  induction os generalizing s with
  | nil => exact ⟨rfl, rfl, fun o => by simp [fireAll]⟩
  | cons a os ih =>
    have ha := hun a (by simp)
    have hnd' := List.nodup_cons.1 hnd
    unfold fireAll
    rw [fireObs_unfired s a t r ha]
    dsimp only
    have hlt : a < s.observers.length := by
      apply Classical.byContradiction; intro hl
      rw [List.getElem?_eq_none (by omega)] at ha; simp at ha
    have hun' : ∀ o ∈ os, ({ s with observers := s.observers.set a (t, some r) } : State).observers[o]? = some (t, none) := by
      intro o ho
      have hne : a ≠ o := by intro e; subst e; exact hnd'.1 ho
      show (s.observers.set a (t, some r))[o]? = _
      rw [List.getElem?_set_ne hne]; exact hun o (by simp [ho])
    have := ih _ hnd'.2 hun'
    refine ⟨this.1, this.2.1, fun o => ?_⟩
    rw [this.2.2 o]
    by_cases ho : o ∈ os
    · simp [ho]
    · simp only [ho, if_false, List.mem_cons]
      show (s.observers.set a (t, some r))[o]? = _
      by_cases e : a = o
      · subst e; simp [hlt]
      · rw [List.getElem?_set_ne e]; simp [Ne.symm e]

theorem cwMid_observers (s : State) (t : Nat) (c : Completion) (r : Result) :
    (cwMid s t c r).observers = s.observers ∧ (cwMid s t c r).dblFire = s.dblFire := by
  unfold cwMid; split
  · exact ⟨by rw [removeTask_observers]; rfl, by rw [removeTask_dblFire]; rfl⟩
  · exact ⟨rfl, rfl⟩

theorem completeWith_eq (s : State) (t : Nat) (c : Completion) (r : Result)
    (hin : (s.getTask t).pc = 0 → t ∈ s.cur) :
    completeWith s t c r = fireAll (cwMid s t c r) (s.getTask t).deferreds r := by
  unfold completeWith cwMid
  by_cases hp : (s.getTask t).pc = 0
  · simp only [hp, if_true]
    have hok := removeTask_ok (s.updTask t fun k => { k with completion := some c, result := some r }) t (hin hp)
    split
    · next s2 e heq => rw [heq] at hok; simp at hok
    · next s2 heq => rw [heq]
  · simp only [hp, if_false]

/-- `_completeWith` on an unfinished task: no exception, every registered Deferred is fired with the
    result, the invariant is kept -/
theorem completeWith_obs (s : State) (t : Nat) (c : Completion) (r : Result) (h : ObsOK s)
    (hc : (s.getTask t).completion = none) (hin : (s.getTask t).pc = 0 → t ∈ s.cur) (hm : Matches c r) :
    ObsOK (completeWith s t c r).1 ∧ (completeWith s t c r).2 = none := by
  rw [completeWith_eq s t c r hin]
  have hmo := cwMid_observers s t c r
  have hun : ∀ o ∈ (s.getTask t).deferreds, (cwMid s t c r).observers[o]? = some (t, none) := by
    intro o ho
    rw [hmo.1]
    obtain ⟨v, hv⟩ := h.defs t o ho
    rw [hv, (h.live o t v hv hc).1]
  have hsp := fireAll_spec _ (cwMid s t c r) t r (h.nodup t) hun
  have hsame := fireAll_same (cwMid s t c r) (s.getTask t).deferreds r
  have hfr := cwMid_frame s t c r
  refine ⟨?_, hsp.1⟩
  -- task fields after the call
  have hne : ∀ u, u ≠ t → (fireAll (cwMid s t c r) (s.getTask t).deferreds r).1.getTask u = s.getTask u :=
    fun u hu => by rw [hsame.getTask, hfr.task u hu]
  by_cases hl : t < s.tasks.length
  · have ht : (fireAll (cwMid s t c r) (s.getTask t).deferreds r).1.getTask t =
        { s.getTask t with completion := some c, result := some r } := by
      rw [← completeWith_eq s t c r hin]; exact completeWith_getTask s t c r hl
    have hobs : ∀ o, (fireAll (cwMid s t c r) (s.getTask t).deferreds r).1.observers[o]? =
        if o ∈ (s.getTask t).deferreds then some (t, some r) else s.observers[o]? := by
      intro o; rw [hsp.2.2 o, hmo.1]
    refine ⟨by rw [hsp.2.1, hmo.2]; exact h.dbl, ?_, ?_, ?_, ?_, ?_⟩
    · intro o t' v ho hc'
      have hu : t' ≠ t := by intro e; subst e; rw [ht] at hc'; simp at hc'
      rw [hne t' hu] at hc' ⊢
      rw [hobs o] at ho
      split at ho
      · simp at ho; exact absurd ho.1.symm hu
      · exact h.live o t' v ho hc'
    · intro o t' v c' ho hc'
      rw [hobs o] at ho
      by_cases hu : t' = t
      · subst hu
        rw [ht]
        split at ho
        · simp at ho; simp [ho]
        · next hno => exact absurd (h.live o t' v ho hc).2 hno
      · rw [hne t' hu] at hc' ⊢
        split at ho
        · simp at ho; exact absurd ho.1.symm hu
        · exact h.fin o t' v c' ho hc'
    · intro t' c' hc'
      by_cases hu : t' = t
      · subst hu
        rw [ht] at hc' ⊢
        simp at hc'; subst hc'
        exact ⟨r, rfl, hm⟩
      · rw [hne t' hu] at hc' ⊢; exact h.res t' c' hc'
    · intro t' o ho
      have ho' : o ∈ (s.getTask t').deferreds := by
        by_cases hu : t' = t
        · subst hu; rw [ht] at ho; exact ho
        · rw [hne t' hu] at ho; exact ho
      rw [hobs o]
      split
      · next hin' =>
        obtain ⟨v, hv⟩ := h.defs t' o ho'
        obtain ⟨v2, hv2⟩ := h.defs t o hin'
        rw [hv] at hv2; simp at hv2
        exact ⟨some r, by rw [hv2.1]⟩
      · exact h.defs t' o ho'
    · intro t'
      by_cases hu : t' = t
      · subst hu; rw [ht]; exact h.nodup t'
      · rw [hne t' hu]; exact h.nodup t'
  · -- no such task: nothing but `_tasks` changes
    have hd := getTask_ge s t hl
    have hdef : (s.getTask t).deferreds = [] := by rw [hd]; rfl
    rw [hdef]
    show ObsOK (cwMid s t c r)
    refine h.same ⟨hmo.1, hmo.2, ?_, ?_, ?_⟩ <;> intro u <;> (
      by_cases hu : u = t
      · subst hu
        have : (cwMid s u c r).getTask u = default := by
          rw [getTask_ge]; rw [hfr.len]; exact hl
        rw [this, hd]
      · rw [hfr.task u hu])


/-! ### the primitives -/

theorem addTask_obs (s : State) (t : Nat) (h : ObsOK s) (hc : (s.getTask t).completion = none) :
    ObsOK (addTask s t).1 ∧ (addTask s t).2 = none := by
  unfold addTask
  have e1 : ObsSame s { s with cur := s.cur ++ [t] } := ObsSame.of_eq rfl rfl rfl
  dsimp only
  split
  · exact completeWith_obs _ t _ _ (h.same e1) (by rw [e1.comp]; exact hc)
      (fun _ => by show t ∈ s.cur ++ [t]; simp) (by decide)
  · exact ⟨h.same (e1.trans (reschedule_obsSame _)), rfl⟩

theorem pauseTask_obsSame (s : State) (t : Nat) (u : Bool) : ObsSame s (pauseTask s t u).1 := by
  cases hc : (s.getTask t).completion with
  | some c => rw [pauseTask_done s t u c hc]; exact ObsSame.refl s
  | none =>
    rw [pauseTask_live s t u hc]
    have h1 := updTask_obsSame s t (fun k => { k with pc := k.pc + 1, upc := if u then k.upc + 1 else k.upc })
      (fun k => ⟨rfl, rfl, rfl⟩)
    split
    · exact h1.trans (removeTask_obsSame _ t)
    · exact h1

theorem resumeTask_obs (s : State) (t : Nat) (u : Bool) (h : ObsOK s) : ObsOK (resumeTask s t u).1 := by
  by_cases hp : (s.getTask t).pc = 0
  · rw [resumeTask_zero s t u hp]; exact h
  · rw [resumeTask_pos s t u hp]
    have h1 := updTask_obsSame s t (fun k => { k with pc := k.pc - 1, upc := if u then k.upc - 1 else k.upc })
      (fun k => ⟨rfl, rfl, rfl⟩)
    split
    · next hadd => exact (addTask_obs _ t (h.same h1) (by rw [h1.comp]; exact hadd.2)).1
    · exact h.same h1

theorem stopTask_obs (s : State) (t : Nat) (h : ObsOK s)
    (hin : (s.getTask t).completion = none → (s.getTask t).pc = 0 → t ∈ s.cur) :
    ObsOK (stopTask s t).1 := by
  unfold stopTask
  cases hc : (s.getTask t).completion with
  | some c => exact h
  | none => exact (completeWith_obs s t _ _ h hc (hin hc) (by decide)).1

theorem failLater_obs (s : State) (t j : Nat) (h : ObsOK s)
    (hin : (s.getTask t).completion = none → (s.getTask t).pc = 0 → t ∈ s.cur) :
    ObsOK (failLater s t j).1 := by
  unfold failLater; split
  · next hc => exact (completeWith_obs s t _ _ h hc (hin hc) (by simp [Matches])).1
  · exact h

/-! ### one work unit -/

/-- the state right after `self.pause()` inside `_oneWorkUnit` (task `t` has just yielded a Deferred) -/
def afterPause (s : State) (t : Nat) (rest : List Item) : State :=
  (removeTask ((s.updTask t fun k => { k with script := rest }).updTask t
      fun k => { k with pc := k.pc + 1, upc := if false then k.upc + 1 else k.upc }) t).1

theorem workBody_deferred (s : State) (t j : Nat) (rest : List Item) (h : Inv s) (ht : t ∈ s.cur)
    (hs : (s.getTask t).script = .deferred j :: rest) :
    (workBody s t =
        match (afterPause s t rest).fired.lookup j with
        | none => ((afterPause s t rest).updTask t fun k => { k with waitingOn := k.waitingOn ++ [j] }, none)
        | some true => ((resumeTask (afterPause s t rest) t false).1, none)
        | some false => ((failLater (afterPause s t rest) t j).1, none)) ∧
      InvExcept (afterPause s t rest) t ∧ t < (afterPause s t rest).tasks.length ∧
      t ∉ (afterPause s t rest).cur ∧
      (afterPause s t rest).getTask t = { s.getTask t with script := rest, pc := 1 } ∧
      (afterPause s t rest).log = s.log ∧ (afterPause s t rest).cur = s.cur.erase t ∧
      (afterPause s t rest).meta = s.meta := by
  have hg := (h.2 t).1.1 ht
  have hl := hg.1
  have hp := hg.2.1
  have hc := hg.2.2
  let s1 : State := s.updTask t fun k => { k with script := rest }
  let s1' : State := s1.updTask t fun k => { k with pc := k.pc + 1, upc := if false then k.upc + 1 else k.upc }
  have hl1 : t < s1.tasks.length := by simpa [s1] using hl
  have hg1 : s1.getTask t = { s.getTask t with script := rest } := getTask_updTask_same _ _ _ hl
  have hpause : pauseTask s1 t false = (afterPause s t rest, none) := by
    rw [pauseTask_live s1 t false (by rw [hg1]; exact hc)]
    rw [if_pos (by rw [hg1]; exact hp)]
    exact Prod.ext rfl (removeTask_ok _ t ht)
  refine ⟨?_, ?_, ?_, ?_, ?_, ?_, ?_, ?_⟩
  · simp only [workBody, hs]
    show (match pauseTask s1 t false with
      | (s2, some e) => (s2, some e)
      | (s2, none) => _) = _
    rw [hpause]
    rfl
  · exact (h.except t).frame (((updTask_frame _ t _).trans (updTask_frame s1 t _)).trans (removeTask_frame s1' t))
  · show t < (removeTask s1' t).1.tasks.length
    simpa [s1', removeTask_tasks] using hl1
  · exact removeTask_not_mem s1' t h.1.nodup
  · show (removeTask s1' t).1.getTask t = _
    rw [removeTask_getTask, getTask_updTask_same _ _ _ hl1, hg1]; simp [hp]
  · show (removeTask s1' t).1.log = _
    rw [removeTask_log]; rfl
  · show (removeTask s1' t).1.cur = _
    rw [removeTask_cur]; rfl
  · show (removeTask s1' t).1.meta = _
    rw [removeTask_meta]; rfl

theorem afterPause_obsSame (s : State) (t : Nat) (rest : List Item) : ObsSame s (afterPause s t rest) := by
  unfold afterPause
  exact ((updTask_obsSame s t (fun k => { k with script := rest }) (fun k => ⟨rfl, rfl, rfl⟩)).trans
    (updTask_obsSame _ t (fun k => { k with pc := k.pc + 1, upc := if false then k.upc + 1 else k.upc })
      (fun k => ⟨rfl, rfl, rfl⟩))).trans (removeTask_obsSame _ t)

theorem workBody_obs (s : State) (t : Nat) (h : Inv s) (ho : ObsOK s) (ht : t ∈ s.cur) :
    ObsOK (workBody s t).1 ∧ (workBody s t).2 = none := by
  have hg := (h.2 t).1.1 ht
  have hc := hg.2.2
  cases hs : (s.getTask t).script with
  | nil =>
    have : workBody s t = completeWith s t .done .iterator := by simp [workBody, hs]
    rw [this]
    exact completeWith_obs s t _ _ ho hc (fun _ => ht) (by decide)
  | cons it rest =>
    cases it with
    | raise =>
      have : workBody s t = completeWith (s.updTask t fun k => { k with script := [] }) t .failed .iterError := by
        simp [workBody, hs]
      rw [this]
      have e1 := updTask_obsSame s t (fun k => { k with script := [] }) (fun k => ⟨rfl, rfl, rfl⟩)
      exact completeWith_obs _ t _ _ (ho.same e1) (by rw [e1.comp]; exact hc) (fun _ => ht) (by decide)
    | value =>
      have : workBody s t = (s.updTask t fun k => { k with script := rest }, none) := by
        simp [workBody, hs]
      rw [this]
      exact ⟨ho.same (updTask_obsSame s t _ (fun k => ⟨rfl, rfl, rfl⟩)), rfl⟩
    | deferred j =>
      obtain ⟨hw, _, hl2, hmem2, hg2, _, _, _⟩ := workBody_deferred s t j rest h ht hs
      have ho2 := ho.same (afterPause_obsSame s t rest)
      rw [hw]
      split
      · exact ⟨ho2.same (updTask_obsSame _ t _ (fun k => ⟨rfl, rfl, rfl⟩)), rfl⟩
      · exact ⟨resumeTask_obs _ t false ho2, rfl⟩
      · refine ⟨failLater_obs _ t j ho2 ?_, rfl⟩
        rw [hg2]; intro _ h0; simp at h0

theorem workUnit_obs (s : State) (t : Nat) (h : Inv s) (ho : ObsOK s) (ht : t ∈ s.cur) :
    ObsOK (workUnit s t).1 ∧ (workUnit s t).2 = none := by
  rw [workUnit_eq]
  exact workBody_obs _ t (h.congr rfl rfl rfl) (ho.same (ObsSame.of_eq rfl rfl rfl)) ht

theorem metaNext_dblFire (s : State) : (metaNext s).2.dblFire = s.dblFire := by
  unfold metaNext
  split
  · rfl
  · split <;> rfl
  · split <;> rfl

theorem nextTask_obsSame (s : State) : ObsSame s (nextTask s).2 := by
  have hm := metaNext_eqs s
  have hd := metaNext_dblFire s
  rcases hmn : metaNext s with ⟨o, s'⟩
  rw [hmn] at hm hd
  cases o with
  | some t => rw [nextTask_some s s' t hmn]; exact ObsSame.of_eq hm.1 hm.2 hd
  | none =>
    cases hc : s.cur with
    | nil => rw [nextTask_none_nil s s' hmn hc]; exact ObsSame.of_eq rfl rfl rfl
    | cons t rest => rw [nextTask_none_cons s s' t rest hmn hc]; exact ObsSame.of_eq rfl rfl rfl

/-- a scheduler tick never raises and keeps the observer invariant -/
theorem tickLoop_obs (fuel : Nat) (s : State) (h : Inv s) (ho : ObsOK s) :
    ObsOK (tickLoop fuel s).1 ∧ (tickLoop fuel s).2 = none := by
  induction fuel generalizing s with
  | zero => exact ⟨ho, rfl⟩
  | succ n ih =>
    have hn := nextTask_spec s h
    have hm := nextTask_obsSame s
    unfold tickLoop
    split
    · next s' heq => rw [heq] at hm; exact ⟨ho.same hm, rfl⟩
    · next t s1 heq =>
      rw [heq] at hn hm
      have hin := hn.2.2 t rfl
      have hw := workUnit_inv s1 t hn.1 hin
      have hwo := workUnit_obs s1 t hn.1 (ho.same hm) hin
      split
      · next s2 e heq2 => rw [heq2] at hwo; simp at hwo
      · next s2 heq2 => rw [heq2] at hwo hw; exact ih s2 hw.1 hwo.1

theorem tick_obs (s : State) (b : Nat) (h : Inv s) (ho : ObsOK s) :
    ObsOK (tick s b).1 ∧ (tick s b).2 = none := by
  unfold tick
  split
  · exact ⟨ho, rfl⟩
  · have h0 : Inv { s with scheduled := false } := h.congr rfl rfl rfl
    have o0 : ObsOK { s with scheduled := false } := ho.same (ObsSame.of_eq rfl rfl rfl)
    dsimp only
    split
    · exact ⟨o0.same (reschedule_obsSame _), rfl⟩
    · have ht := tickLoop_obs b _ h0 o0
      split
      · next s1 e heq => rw [heq] at ht; simp at ht
      · next s1 heq => rw [heq] at ht; exact ⟨ht.1.same (reschedule_obsSame _), rfl⟩

/-! ### firing a yielded Deferred -/

theorem fireWaiters_obs (j : Nat) (ok : Bool) (ts : List Nat) (s : State) (h : Inv s) (ho : ObsOK s) :
    ObsOK (fireWaiters j ok s ts) := by
  induction ts generalizing s with
  | nil => exact ho
  | cons t ts ih =>
    unfold fireWaiters
    have h1 := fireWaiters_step_inv j ok s t h
    refine ih _ h1.1 ?_
    dsimp only
    split
    · next hj =>
      have e1 := updTask_obsSame s t (fun k => { k with waitingOn := k.waitingOn.erase j }) (fun k => ⟨rfl, rfl, rfl⟩)
      split
      · exact resumeTask_obs _ t false (ho.same e1)
      · refine failLater_obs _ t j (ho.same e1) ?_
        intro hc hp
        exfalso
        have hl : t < s.tasks.length := by
          apply Classical.byContradiction; intro hl
          rw [getTask_ge s t hl] at hj
          exact absurd hj (by simp [show (default : Task).waitingOn = [] from rfl])
        rw [getTask_updTask_same _ _ _ hl] at hp hc
        have := (h.2 t).2 hc
        have := List.length_pos_of_mem hj
        simp at hp
        omega
    · exact ho

end TwistedProps.C11
