import TwistedProps.C11.ObsOps
/-! C11 — a tick is scheduled whenever `_tasks` is non-empty (and the Cooperator has been started). -/
namespace TwistedProps.C11
open Twisted.Reactor.Cooperator

structure SchedOK (s : State) : Prop where
  run : s.started = true → s.cur ≠ [] → s.scheduled = true
  wait : s.started = false → s.cur ≠ [] → s.mustSched = true

theorem SchedOK.congr {s s' : State} (h : SchedOK s) (hc : s'.cur = s.cur) (h1 : s'.scheduled = s.scheduled)
    (h2 : s'.started = s.started) (h3 : s'.mustSched = s.mustSched) : SchedOK s' :=
  ⟨by rw [hc, h1, h2]; exact h.run, by rw [hc, h2, h3]; exact h.wait⟩

theorem reschedule_sched (s : State) : SchedOK (reschedule s) := by
  unfold reschedule
  split
  · next h => exact ⟨fun h' => by simp [h] at h', fun _ _ => rfl⟩
  · next h =>
    have hst : s.started = true := by simpa using h
    split
    · next h2 => exact ⟨fun _ _ => rfl, fun h' => by simp [hst] at h'⟩
    · next h2 =>
      refine ⟨fun _ hc => ?_, fun h' => by simp [hst] at h'⟩
      cases hsch : s.scheduled with
      | true => rfl
      | false => exact absurd ⟨hsch, hc⟩ h2

theorem removeTask_sched_weak (s : State) (t : Nat)
    (h1 : s.started = true → s.cur.erase t ≠ [] → s.scheduled = true)
    (h2 : s.started = false → s.cur.erase t ≠ [] → s.mustSched = true) : SchedOK (removeTask s t).1 := by
  unfold removeTask
  split
  · refine ⟨fun hs hc => ?_, fun hs hc => h2 hs hc⟩
    show (if s.cur.erase t = [] then false else s.scheduled) = true
    rw [if_neg hc]; exact h1 hs hc
  · next hn => rw [List.erase_of_not_mem hn] at h1 h2; exact ⟨h1, h2⟩

theorem erase_ne_nil {l : List Nat} {t : Nat} (h : l.erase t ≠ []) : l ≠ [] := by
  intro e; subst e; simp at h

theorem removeTask_sched (s : State) (t : Nat) (h : SchedOK s) : SchedOK (removeTask s t).1 :=
  removeTask_sched_weak s t (fun hs hc => h.run hs (erase_ne_nil hc)) (fun hs hc => h.wait hs (erase_ne_nil hc))

theorem fireObs_flags (s : State) (o : Nat) (r : Result) :
    (fireObs s o r).1.scheduled = s.scheduled ∧ (fireObs s o r).1.mustSched = s.mustSched := by
  unfold fireObs; split <;> exact ⟨rfl, rfl⟩

theorem fireAll_flags (s : State) (os : List Nat) (r : Result) :
    (fireAll s os r).1.scheduled = s.scheduled ∧ (fireAll s os r).1.mustSched = s.mustSched := by
  induction os generalizing s with
  | nil => exact ⟨rfl, rfl⟩
  | cons o os ih =>
    unfold fireAll
    have h1 := fireObs_flags s o r
    split
    · next s' heq => rw [heq] at h1; exact ⟨(ih s').1.trans h1.1, (ih s').2.trans h1.2⟩
    · next s' e heq => rw [heq] at h1; exact h1

theorem completeWith_flags (s : State) (t : Nat) (c : Completion) (r : Result) :
    (completeWith s t c r).1.scheduled = (cwMid s t c r).scheduled ∧
      (completeWith s t c r).1.mustSched = (cwMid s t c r).mustSched := by
  unfold completeWith cwMid
  by_cases hp : (s.getTask t).pc = 0
  · simp only [hp, if_true]
    split
    · next s2 e heq => rw [heq]; exact ⟨rfl, rfl⟩
    · next s2 heq => rw [heq]; exact fireAll_flags _ _ _
  · simp only [hp, if_false]
    exact fireAll_flags _ _ _

theorem SchedOK.of_mid {s : State} {t : Nat} {c : Completion} {r : Result} (h : SchedOK (cwMid s t c r)) :
    SchedOK (completeWith s t c r).1 :=
  h.congr (completeWith_same s t c r).cur (completeWith_flags s t c r).1 (completeWith_same s t c r).started
    (completeWith_flags s t c r).2

theorem completeWith_sched (s : State) (t : Nat) (c : Completion) (r : Result) (h : SchedOK s) :
    SchedOK (completeWith s t c r).1 := by
  apply SchedOK.of_mid
  unfold cwMid
  split
  · exact removeTask_sched _ t (h.congr rfl rfl rfl rfl)
  · exact h.congr rfl rfl rfl rfl

theorem addTask_sched (s : State) (t : Nat) (h : SchedOK s) (hp : (s.getTask t).pc = 0) (hn : t ∉ s.cur) :
    SchedOK (addTask s t).1 := by
  unfold addTask
  dsimp only
  split
  · apply SchedOK.of_mid
    unfold cwMid
    have hp' : (({ s with cur := s.cur ++ [t] } : State).getTask t).pc = 0 := hp
    rw [if_pos hp']
    have he : (s.cur ++ [t]).erase t = s.cur := by
      rw [List.erase_append_right _ hn]; simp
    exact removeTask_sched_weak _ t (fun hs hc => h.run hs (by
        have : (s.cur ++ [t]).erase t ≠ [] := hc
        rwa [he] at this)) (fun hs hc => h.wait hs (by
        have : (s.cur ++ [t]).erase t ≠ [] := hc
        rwa [he] at this))
  · exact reschedule_sched _

theorem pauseTask_sched (s : State) (t : Nat) (u : Bool) (h : SchedOK s) : SchedOK (pauseTask s t u).1 := by
  cases hc : (s.getTask t).completion with
  | some c => rw [pauseTask_done s t u c hc]; exact h
  | none =>
    rw [pauseTask_live s t u hc]
    split
    · exact removeTask_sched _ t (h.congr rfl rfl rfl rfl)
    · exact h.congr rfl rfl rfl rfl

theorem resumeTask_sched (s : State) (t : Nat) (u : Bool) (h : SchedOK s) (hl : t < s.tasks.length)
    (hn : (s.getTask t).pc ≠ 0 → t ∉ s.cur) : SchedOK (resumeTask s t u).1 := by
  by_cases hp : (s.getTask t).pc = 0
  · rw [resumeTask_zero s t u hp]; exact h
  · rw [resumeTask_pos s t u hp]
    split
    · next hadd =>
      refine addTask_sched _ t (h.congr rfl rfl rfl rfl) ?_ (hn hp)
      rw [getTask_updTask_same _ _ _ hl]; simp [hadd.1]
    · exact h.congr rfl rfl rfl rfl

theorem stopTask_sched (s : State) (t : Nat) (h : SchedOK s) : SchedOK (stopTask s t).1 := by
  unfold stopTask; split
  · exact h
  · exact completeWith_sched s t _ _ h

theorem failLater_sched (s : State) (t j : Nat) (h : SchedOK s) : SchedOK (failLater s t j).1 := by
  unfold failLater; split
  · exact completeWith_sched s t _ _ h
  · exact h

theorem fireWaiters_sched (j : Nat) (ok : Bool) (ts : List Nat) (s : State) (h : Inv s) (hs : SchedOK s) :
    SchedOK (fireWaiters j ok s ts) := by
  induction ts generalizing s with
  | nil => exact hs
  | cons t ts ih =>
    unfold fireWaiters
    have h1 := fireWaiters_step_inv j ok s t h
    refine ih _ h1.1 ?_
    dsimp only
    split
    · next hj =>
      have hl : t < s.tasks.length := by
        apply Classical.byContradiction; intro hl
        rw [getTask_ge s t hl] at hj
        exact absurd hj (by simp [show (default : Task).waitingOn = [] from rfl])
      have hnin : t ∉ s.cur := by
        intro hin
        have hg := (h.2 t).1.1 hin
        have := (h.2 t).2 hg.2.2
        have := List.length_pos_of_mem hj
        have := hg.2.1
        omega
      split
      · exact resumeTask_sched _ t false (hs.congr rfl rfl rfl rfl) (by simpa using hl) (fun _ => hnin)
      · exact failLater_sched _ t j (hs.congr rfl rfl rfl rfl)
    · exact hs

theorem fire_sched (s : State) (j : Nat) (ok : Bool) (h : Inv s) (hs : SchedOK s) : SchedOK (fire s j ok).1 := by
  unfold fire
  split
  · exact hs
  · exact fireWaiters_sched j ok _ _ (h.congr rfl rfl rfl) (hs.congr rfl rfl rfl rfl)

theorem coopStop_sched (s : State) (h : Inv s) (ho : ObsOK s) : SchedOK (coopStop s).1 := by
  have hc : (coopStop s).1.cur = [] := by
    unfold coopStop
    have h0 : Inv { s with stopped := true } := h.congr rfl rfl rfl
    have o0 : ObsOK { s with stopped := true } := ho.same (ObsSame.of_eq rfl rfl rfl)
    have hl := stopLoop_obs s.cur { s with stopped := true } h0 o0 h.1.nodup (fun u hu => hu)
    dsimp only
    split
    · next s1 e heq => rw [heq] at hl; simp at hl
    · rfl
  exact ⟨fun _ hne => absurd hc hne, fun _ hne => absurd hc hne⟩

theorem coopStart_sched (s : State) (hs : SchedOK s) : SchedOK (coopStart s) := by
  unfold coopStart
  dsimp only
  split
  · exact reschedule_sched _
  · next hm =>
    refine ⟨fun _ hc => ?_, fun h' => by simp at h'⟩
    have hc' : s.cur ≠ [] := hc
    show s.scheduled = true
    cases hst : s.started with
    | true => exact hs.run hst hc'
    | false => exact absurd (hs.wait hst hc') hm

theorem newTask_sched (s : State) (sc : List Item) (h : Inv s) (hs : SchedOK s) : SchedOK (newTask s sc).1 := by
  unfold newTask
  dsimp only
  refine addTask_sched _ _ (hs.congr rfl rfl rfl rfl) ?_ ?_
  · simp [State.getTask]
  · intro hin; exact absurd ((h.2 _).1.1 hin).1 (Nat.lt_irrefl _)

theorem whenDone_sched (s : State) (t : Nat) (hs : SchedOK s) : SchedOK (whenDone s t) := by
  unfold whenDone; dsimp only
  split
  · exact hs.congr rfl rfl rfl rfl
  · exact hs.congr rfl rfl rfl rfl

theorem tick_sched (s : State) (b : Nat) (h : Inv s) (ho : ObsOK s) (hs : SchedOK s) : SchedOK (tick s b).1 := by
  have hno := (tick_obs s b h ho).2
  unfold tick at hno ⊢
  split
  · exact hs
  · next hsch =>
    rw [if_neg hsch] at hno
    dsimp only at hno ⊢
    split
    · exact reschedule_sched _
    · next hcur =>
      rw [if_neg hcur] at hno
      split
      · next s1 e heq => rw [heq] at hno; simp at hno
      · exact reschedule_sched _

/-- every operation keeps "non-empty `_tasks` ⇒ a tick is pending (or will be, on `start()`)" -/
theorem step_sched (s : State) (op : Op) (h : Inv s) (ho : ObsOK s) (hs : SchedOK s) : SchedOK (step s op).1 := by
  cases op with
  | new sc => exact newTask_sched s sc h hs
  | coiter sc =>
    simp only [step]
    have hn := newTask_sched s sc h hs
    split
    · next s1 e heq => rw [heq] at hn; exact hn
    · next s1 heq => rw [heq] at hn; exact whenDone_sched s1 _ hn
  | pause t =>
    simp only [step]; split
    · exact pauseTask_sched s t true hs
    · exact hs
  | resume t =>
    simp only [step]; split
    · next hl => exact resumeTask_sched s t true hs hl (fun hp hin => hp ((h.2 t).1.1 hin).2.1)
    · exact hs
  | stop t =>
    simp only [step]; split
    · exact stopTask_sched s t hs
    · exact hs
  | whenDone t =>
    simp only [step]; split
    · exact whenDone_sched s t hs
    · exact hs
  | tick b => exact tick_sched s b h ho hs
  | fire j ok => exact fire_sched s j ok h hs
  | cstop => exact coopStop_sched s h ho
  | cstart => exact coopStart_sched s hs

end TwistedProps.C11
