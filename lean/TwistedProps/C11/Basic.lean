import TwistedModel.Reactor.Cooperator
/-! C11 — frame lemmas for the Cooperator model primitives and the state invariant. -/
namespace TwistedProps.C11
open Twisted.Reactor.Cooperator

/-! ### task access -/

theorem getTask_updTask_same (s : State) (t : Nat) (f : Task → Task) (h : t < s.tasks.length) :
    (s.updTask t f).getTask t = f (s.getTask t) := by
  simp [State.getTask, State.updTask, h]

theorem getTask_updTask_ne (s : State) (t u : Nat) (f : Task → Task) (h : u ≠ t) :
    (s.updTask t f).getTask u = s.getTask u := by
  simp [State.getTask, State.updTask, Ne.symm h]

theorem getTask_updTask_ge (s : State) (t : Nat) (f : Task → Task) (h : s.tasks.length ≤ t) :
    (s.updTask t f).getTask t = s.getTask t := by
  simp [State.getTask, State.updTask, h]

@[simp] theorem updTask_length (s : State) (t : Nat) (f : Task → Task) :
    (s.updTask t f).tasks.length = s.tasks.length := by simp [State.updTask]
@[simp] theorem updTask_cur (s : State) (t : Nat) (f : Task → Task) : (s.updTask t f).cur = s.cur := rfl
@[simp] theorem updTask_meta (s : State) (t : Nat) (f : Task → Task) : (s.updTask t f).meta = s.meta := rfl
@[simp] theorem updTask_log (s : State) (t : Nat) (f : Task → Task) : (s.updTask t f).log = s.log := rfl
@[simp] theorem updTask_stopped (s : State) (t : Nat) (f : Task → Task) : (s.updTask t f).stopped = s.stopped := rfl
@[simp] theorem updTask_started (s : State) (t : Nat) (f : Task → Task) : (s.updTask t f).started = s.started := rfl
@[simp] theorem updTask_fired (s : State) (t : Nat) (f : Task → Task) : (s.updTask t f).fired = s.fired := rfl
@[simp] theorem updTask_observers (s : State) (t : Nat) (f : Task → Task) : (s.updTask t f).observers = s.observers := rfl
@[simp] theorem updTask_scheduled (s : State) (t : Nat) (f : Task → Task) : (s.updTask t f).scheduled = s.scheduled := rfl
@[simp] theorem updTask_dblFire (s : State) (t : Nat) (f : Task → Task) : (s.updTask t f).dblFire = s.dblFire := rfl

/-! ### "same core": only observers / scheduling flags / ghost counters differ -/

structure SameCore (s s' : State) : Prop where
  tasks : s'.tasks = s.tasks
  cur : s'.cur = s.cur
  «meta» : s'.meta = s.meta
  log : s'.log = s.log
  stopped : s'.stopped = s.stopped
  started : s'.started = s.started
  fired : s'.fired = s.fired

theorem SameCore.refl (s : State) : SameCore s s := ⟨rfl, rfl, rfl, rfl, rfl, rfl, rfl⟩
theorem SameCore.trans {a b c : State} (h1 : SameCore a b) (h2 : SameCore b c) : SameCore a c :=
  ⟨h2.tasks.trans h1.tasks, h2.cur.trans h1.cur, h2.meta.trans h1.meta, h2.log.trans h1.log,
   h2.stopped.trans h1.stopped, h2.started.trans h1.started, h2.fired.trans h1.fired⟩

theorem SameCore.getTask {s s' : State} (h : SameCore s s') (t : Nat) : s'.getTask t = s.getTask t := by
  simp [State.getTask, h.tasks]

theorem fireObs_same (s : State) (o : Nat) (r : Result) : SameCore s (fireObs s o r).1 := by
  unfold fireObs
  split <;> exact ⟨rfl, rfl, rfl, rfl, rfl, rfl, rfl⟩

theorem fireAll_same (s : State) (os : List Nat) (r : Result) : SameCore s (fireAll s os r).1 := by
  induction os generalizing s with
  | nil => exact SameCore.refl s
  | cons o os ih =>
    unfold fireAll
    have h1 := fireObs_same s o r
    split
    · next s' heq => rw [heq] at h1; exact h1.trans (ih s')
    · next s' e heq => rw [heq] at h1; exact h1

theorem reschedule_same (s : State) : SameCore s (reschedule s) := by
  unfold reschedule
  split
  · exact ⟨rfl, rfl, rfl, rfl, rfl, rfl, rfl⟩
  · split <;> exact ⟨rfl, rfl, rfl, rfl, rfl, rfl, rfl⟩

end TwistedProps.C11
