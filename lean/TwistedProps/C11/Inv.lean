import TwistedProps.C11.Basic
namespace TwistedProps.C11
open Twisted.Reactor.Cooperator

def good (s : State) (t : Nat) : Prop :=
  t < s.tasks.length ∧ (s.getTask t).pc = 0 ∧ (s.getTask t).completion = none

def MemOK (s : State) (t : Nat) : Prop := t ∈ s.cur ↔ good s t

def CntOK (s : State) (t : Nat) : Prop :=
  (s.getTask t).completion = none →
    (s.getTask t).pc = (s.getTask t).upc + (s.getTask t).waitingOn.length

def TaskOK (s : State) (t : Nat) : Prop := MemOK s t ∧ CntOK s t

structure Base (s : State) : Prop where
  nodup : s.cur.Nodup
  stale : ∀ l i, s.meta = .stale l i → l = []

def InvExcept (s : State) (t : Nat) : Prop := Base s ∧ ∀ u, u ≠ t → TaskOK s u
def Inv (s : State) : Prop := Base s ∧ ∀ u, TaskOK s u

theorem Inv.except {s : State} (h : Inv s) (t : Nat) : InvExcept s t := ⟨h.1, fun u _ => h.2 u⟩
theorem InvExcept.close {s : State} {t : Nat} (h : InvExcept s t) (ht : TaskOK s t) : Inv s :=
  ⟨h.1, fun u => if hu : u = t then hu ▸ ht else h.2 u hu⟩

/-- `s'` differs from `s` only at task `t` (its fields, its membership in `_tasks`) -/
structure Frame (t : Nat) (s s' : State) : Prop where
  len : s'.tasks.length = s.tasks.length
  «meta» : s'.meta = s.meta
  nodup : s.cur.Nodup → s'.cur.Nodup
  task : ∀ u, u ≠ t → s'.getTask u = s.getTask u
  mem : ∀ u, u ≠ t → (u ∈ s'.cur ↔ u ∈ s.cur)

theorem Frame.refl (t : Nat) (s : State) : Frame t s s := ⟨rfl, rfl, id, fun _ _ => rfl, fun _ _ => Iff.rfl⟩
theorem Frame.trans {t : Nat} {a b c : State} (h1 : Frame t a b) (h2 : Frame t b c) : Frame t a c :=
  ⟨h2.len.trans h1.len, h2.meta.trans h1.meta, fun h => h2.nodup (h1.nodup h),
   fun u hu => (h2.task u hu).trans (h1.task u hu), fun u hu => (h2.mem u hu).trans (h1.mem u hu)⟩

theorem SameCore.frame {s s' : State} (h : SameCore s s') (t : Nat) : Frame t s s' :=
  ⟨by rw [h.tasks], h.meta, by rw [h.cur]; exact id, fun u _ => h.getTask u, fun u _ => by rw [h.cur]⟩

theorem InvExcept.frame {s s' : State} {t : Nat} (h : InvExcept s t) (f : Frame t s s') : InvExcept s' t := by
  refine ⟨⟨f.nodup h.1.nodup, fun l i hm => h.1.stale l i (f.meta ▸ hm)⟩, fun u hu => ?_⟩
  have := h.2 u hu
  unfold TaskOK MemOK CntOK good at *
  rw [f.task u hu, f.mem u hu, f.len]
  exact this

theorem updTask_frame (s : State) (t : Nat) (f : Task → Task) : Frame t s (s.updTask t f) :=
  ⟨by simp, rfl, id, fun u hu => getTask_updTask_ne s t u f hu, fun _ _ => Iff.rfl⟩

/-! removeTask -/
theorem removeTask_cur (s : State) (t : Nat) : (removeTask s t).1.cur = s.cur.erase t := by
  unfold removeTask
  split
  · rfl
  · next h => simp [List.erase_of_not_mem h]

theorem removeTask_tasks (s : State) (t : Nat) : (removeTask s t).1.tasks = s.tasks := by
  unfold removeTask; split <;> rfl
theorem removeTask_meta (s : State) (t : Nat) : (removeTask s t).1.meta = s.meta := by
  unfold removeTask; split <;> rfl
theorem removeTask_log (s : State) (t : Nat) : (removeTask s t).1.log = s.log := by
  unfold removeTask; split <;> rfl
theorem removeTask_stopped (s : State) (t : Nat) : (removeTask s t).1.stopped = s.stopped := by
  unfold removeTask; split <;> rfl
theorem removeTask_getTask (s : State) (t u : Nat) : (removeTask s t).1.getTask u = s.getTask u := by
  simp [State.getTask, removeTask_tasks]

theorem removeTask_frame (s : State) (t : Nat) : Frame t s (removeTask s t).1 := by
  refine ⟨by rw [removeTask_tasks], removeTask_meta s t, ?_, fun u _ => removeTask_getTask s t u, ?_⟩
  · intro h; rw [removeTask_cur]; exact h.erase t
  · intro u hu; rw [removeTask_cur]; exact List.mem_erase_of_ne hu

theorem removeTask_not_mem (s : State) (t : Nat) (h : s.cur.Nodup) : t ∉ (removeTask s t).1.cur := by
  rw [removeTask_cur]; intro hm
  exact ((List.Nodup.mem_erase_iff h).1 hm).1 rfl

theorem removeTask_ok (s : State) (t : Nat) (h : t ∈ s.cur) : (removeTask s t).2 = none := by
  simp [removeTask, h]


/-! completeWith -/
def cwMid (s : State) (t : Nat) (c : Completion) (r : Result) : State :=
  let s1 := s.updTask t fun k => { k with completion := some c, result := some r }
  if (s.getTask t).pc = 0 then (removeTask s1 t).1 else s1

theorem completeWith_same (s : State) (t : Nat) (c : Completion) (r : Result) :
    SameCore (cwMid s t c r) (completeWith s t c r).1 := by
  unfold completeWith cwMid
  by_cases hp : (s.getTask t).pc = 0
  · simp only [hp, if_true]
    split
    · next s2 e heq => rw [heq]; exact SameCore.refl _
    · next s2 heq => rw [heq]; exact fireAll_same _ _ _
  · simp only [hp, if_false]
    exact fireAll_same _ _ _

theorem cwMid_frame (s : State) (t : Nat) (c : Completion) (r : Result) : Frame t s (cwMid s t c r) := by
  unfold cwMid
  split
  · exact (updTask_frame s t _).trans (removeTask_frame _ t)
  · exact updTask_frame s t _

theorem completeWith_frame (s : State) (t : Nat) (c : Completion) (r : Result) :
    Frame t s (completeWith s t c r).1 :=
  (cwMid_frame s t c r).trans ((completeWith_same s t c r).frame t)

theorem completeWith_getTask (s : State) (t : Nat) (c : Completion) (r : Result) (h : t < s.tasks.length) :
    (completeWith s t c r).1.getTask t = { s.getTask t with completion := some c, result := some r } := by
  rw [(completeWith_same s t c r).getTask]
  unfold cwMid
  split
  · rw [removeTask_getTask, getTask_updTask_same _ _ _ h]
  · rw [getTask_updTask_same _ _ _ h]

theorem completeWith_cur (s : State) (t : Nat) (c : Completion) (r : Result) :
    (completeWith s t c r).1.cur = if (s.getTask t).pc = 0 then s.cur.erase t else s.cur := by
  rw [(completeWith_same s t c r).cur]
  unfold cwMid
  split
  · rw [removeTask_cur]; rfl
  · rfl

theorem completeWith_log (s : State) (t : Nat) (c : Completion) (r : Result) :
    (completeWith s t c r).1.log = s.log := by
  rw [(completeWith_same s t c r).log]; unfold cwMid; split
  · rw [removeTask_log]; rfl
  · rfl

theorem completeWith_stopped (s : State) (t : Nat) (c : Completion) (r : Result) :
    (completeWith s t c r).1.stopped = s.stopped := by
  rw [(completeWith_same s t c r).stopped]; unfold cwMid; split
  · rw [removeTask_stopped]; rfl
  · rfl

/-- completing a task keeps the invariant, whatever the task's state was -/
theorem completeWith_inv (s : State) (t : Nat) (c : Completion) (r : Result) (h : InvExcept s t)
    (hm : (s.getTask t).pc ≠ 0 → t ∉ s.cur) (hlen : t ∈ s.cur → t < s.tasks.length) :
    Inv (completeWith s t c r).1 := by
  refine (h.frame (completeWith_frame s t c r)).close ⟨?_, ?_⟩
  · unfold MemOK good
    by_cases hl : t < s.tasks.length
    · rw [completeWith_getTask s t c r hl, completeWith_cur]
      constructor
      · intro hin
        exfalso
        split at hin
        · exact ((List.Nodup.mem_erase_iff h.1.nodup).1 hin).1 rfl
        · next hp => exact hm hp hin
      · intro hg; exact absurd hg.2.2 (by simp)
    · constructor
      · intro hin
        exfalso
        rw [completeWith_cur] at hin
        split at hin
        · exact hl (hlen (List.mem_of_mem_erase hin))
        · exact hl (hlen hin)
      · intro hg
        exact absurd ((completeWith_frame s t c r).len ▸ hg.1) hl
  · unfold CntOK
    by_cases hl : t < s.tasks.length
    · rw [completeWith_getTask s t c r hl]; intro hc; simp at hc
    · intro _
      have : (completeWith s t c r).1.getTask t = default := by
        simp [State.getTask, (completeWith_frame s t c r).len, Nat.le_of_not_lt hl]
      rw [this]; rfl


theorem completeWith_inv' (s : State) (t : Nat) (c : Completion) (r : Result) (h : Inv s) :
    Inv (completeWith s t c r).1 :=
  completeWith_inv s t c r (h.except t)
    (fun hp hin => hp (((h.2 t).1.1 hin).2.1)) (fun hin => ((h.2 t).1.1 hin).1)

/-! addTask -/
theorem append_except (s : State) (t : Nat) (h : InvExcept s t) (hn : t ∉ s.cur) :
    InvExcept { s with cur := s.cur ++ [t] } t := by
  refine ⟨⟨?_, h.1.stale⟩, fun u hu => ?_⟩
  · show (s.cur ++ [t]).Nodup
    rw [List.nodup_append]
    exact ⟨h.1.nodup, by simp, by intro a ha b hb; simp at hb; subst hb; intro e; subst e; exact hn ha⟩
  · have := h.2 u hu
    unfold TaskOK MemOK CntOK good at *
    show (u ∈ s.cur ++ [t] ↔ _) ∧ _
    simp only [List.mem_append, List.mem_singleton, hu, or_false]
    exact this

theorem addTask_inv (s : State) (t : Nat) (h : InvExcept s t) (hn : t ∉ s.cur)
    (hl : t < s.tasks.length) (hp : (s.getTask t).pc = 0) (hc : (s.getTask t).completion = none)
    (hcnt : CntOK s t) : Inv (addTask s t).1 := by
  unfold addTask
  have h1 := append_except s t h hn
  split
  · exact completeWith_inv _ t _ _ h1 (fun hp' => absurd hp hp') (fun _ => hl)
  · have hs := reschedule_same { s with cur := s.cur ++ [t] }
    refine (h1.frame (hs.frame t)).close ⟨?_, ?_⟩
    · unfold MemOK good
      rw [hs.getTask, hs.cur, hs.tasks]
      exact ⟨fun _ => ⟨hl, hp, hc⟩, fun _ => by simp⟩
    · unfold CntOK; rw [hs.getTask]; exact hcnt

/-! pause -/
theorem pauseTask_done (s : State) (t : Nat) (u : Bool) (c : Completion)
    (h : (s.getTask t).completion = some c) : pauseTask s t u = (s, some (errOf c)) := by
  simp [pauseTask, h]

theorem pauseTask_live (s : State) (t : Nat) (u : Bool) (h : (s.getTask t).completion = none) :
    pauseTask s t u =
      if (s.getTask t).pc = 0 then
        removeTask (s.updTask t fun k => { k with pc := k.pc + 1, upc := if u then k.upc + 1 else k.upc }) t
      else (s.updTask t fun k => { k with pc := k.pc + 1, upc := if u then k.upc + 1 else k.upc }, none) := by
  simp [pauseTask, h]

theorem getTask_ge (s : State) (t : Nat) (h : ¬ t < s.tasks.length) : s.getTask t = default := by
  simp [State.getTask, Nat.le_of_not_lt h]

theorem pauseTask_inv (s : State) (t : Nat) (h : Inv s) : Inv (pauseTask s t true).1 := by
  cases hc : (s.getTask t).completion with
  | some c => rw [pauseTask_done s t true c hc]; exact h
  | none =>
    rw [pauseTask_live s t true hc]
    have hT := h.2 t
    by_cases hl : t < s.tasks.length
    · by_cases hp : (s.getTask t).pc = 0
      · simp only [hp, if_true]
        have hf := (updTask_frame s t (fun k => { k with pc := k.pc + 1, upc := k.upc + 1 })).trans
          (removeTask_frame _ t)
        refine ((h.except t).frame hf).close ⟨?_, ?_⟩
        · unfold MemOK good
          rw [removeTask_getTask, getTask_updTask_same _ _ _ hl]
          constructor
          · intro hin; exact absurd hin (removeTask_not_mem _ t h.1.nodup)
          · intro hg; simp at hg
        · unfold CntOK
          rw [removeTask_getTask, getTask_updTask_same _ _ _ hl]
          intro _; have := hT.2 hc; simp; omega
      · simp only [hp, if_false]
        refine ((h.except t).frame (updTask_frame s t _)).close ⟨?_, ?_⟩
        · unfold MemOK good
          rw [getTask_updTask_same _ _ _ hl]
          constructor
          · intro hin; exact absurd (hT.1.1 hin).2.1 hp
          · intro hg; simp at hg
        · unfold CntOK
          rw [getTask_updTask_same _ _ _ hl]
          intro _; have := hT.2 hc; simp; omega
    · -- no such task: `getTask` is the default task, `updTask` changes nothing
      have hd := getTask_ge s t hl
      have hp : (s.getTask t).pc = 0 := by rw [hd]; rfl
      simp only [hp, if_true]
      have hf := (updTask_frame s t (fun k => { k with pc := k.pc + 1, upc := k.upc + 1 })).trans
          (removeTask_frame _ t)
      refine ((h.except t).frame hf).close ⟨?_, ?_⟩
      · unfold MemOK good
        constructor
        · intro hin; exact absurd hin (removeTask_not_mem _ t h.1.nodup)
        · intro hg; exact absurd (by simpa [removeTask_tasks] using hg.1) hl
      · unfold CntOK
        rw [removeTask_getTask, getTask_updTask_ge _ _ _ (Nat.le_of_not_lt hl), hd]
        intro _; rfl


/-! resume -/
theorem resumeTask_zero (s : State) (t : Nat) (u : Bool) (h : (s.getTask t).pc = 0) :
    resumeTask s t u = (s, some .notPaused) := by simp [resumeTask, h]

theorem resumeTask_pos (s : State) (t : Nat) (u : Bool) (h : (s.getTask t).pc ≠ 0) :
    resumeTask s t u =
      if (s.getTask t).pc = 1 ∧ (s.getTask t).completion = none then
        addTask (s.updTask t fun k => { k with pc := k.pc - 1, upc := if u then k.upc - 1 else k.upc }) t
      else (s.updTask t fun k => { k with pc := k.pc - 1, upc := if u then k.upc - 1 else k.upc }, none) := by
  simp [resumeTask, h]

theorem resumeTask_inv (s : State) (t : Nat) (u : Bool) (h : InvExcept s t) (hl : t < s.tasks.length)
    (hmem : t ∉ s.cur)
    (hpre : (s.getTask t).completion = none →
      (s.getTask t).pc = (if u then (s.getTask t).upc - 1 else (s.getTask t).upc) + (s.getTask t).waitingOn.length + 1) :
    Inv (resumeTask s t u).1 := by
  by_cases hp : (s.getTask t).pc = 0
  · rw [resumeTask_zero s t u hp]
    refine h.close ⟨⟨fun hin => absurd hin hmem, fun hg => ?_⟩, fun hc => ?_⟩
    · have := hpre hg.2.2; omega
    · have := hpre hc; omega
  · rw [resumeTask_pos s t u hp]
    have hfr := updTask_frame s t (fun k => { k with pc := k.pc - 1, upc := if u then k.upc - 1 else k.upc })
    split
    · next hadd =>
      refine addTask_inv _ t (h.frame hfr) hmem (by simpa using hl) ?_ ?_ ?_
      · rw [getTask_updTask_same _ _ _ hl]; simp; omega
      · rw [getTask_updTask_same _ _ _ hl]; exact hadd.2
      · unfold CntOK; rw [getTask_updTask_same _ _ _ hl]
        intro _; have := hpre hadd.2; simp; omega
    · next hadd =>
      refine (h.frame hfr).close ⟨⟨fun hin => absurd hin hmem, fun hg => ?_⟩, ?_⟩
      · unfold good at hg; rw [getTask_updTask_same _ _ _ hl] at hg
        simp at hg
        exact absurd ⟨by omega, hg.2.2⟩ hadd
      · unfold CntOK; rw [getTask_updTask_same _ _ _ hl]
        intro hc; have := hpre hc; simp; omega

theorem resumeTask_user_inv (s : State) (t : Nat) (h : Inv s) (hl : t < s.tasks.length)
    (hw : 0 < (s.getTask t).upc) : Inv (resumeTask s t true).1 := by
  by_cases hp : (s.getTask t).pc = 0
  · rw [resumeTask_zero s t true hp]; exact h
  · refine resumeTask_inv s t true (h.except t) hl (fun hin => hp ((h.2 t).1.1 hin).2.1) ?_
    intro hc; have := (h.2 t).2 hc; simp; omega

/-! stop -/
theorem stopTask_inv (s : State) (t : Nat) (h : Inv s) : Inv (stopTask s t).1 := by
  unfold stopTask
  cases hc : (s.getTask t).completion with
  | some c => exact h
  | none => exact completeWith_inv' s t _ _ h

theorem failLater_inv (s : State) (t : Nat) (j : Nat) (h : InvExcept s t) (hl : t < s.tasks.length)
    (hmem : t ∉ s.cur) : Inv (failLater s t j).1 := by
  unfold failLater
  split
  · exact completeWith_inv s t _ _ h (fun _ => hmem) (fun _ => hl)
  · next hc =>
    exact h.close ⟨⟨fun hin => absurd hin hmem, fun hg => absurd hg.2.2 hc⟩, fun hc' => absurd hc' hc⟩


/-! log preservation -/
theorem addTask_log (s : State) (t : Nat) : (addTask s t).1.log = s.log := by
  unfold addTask; split
  · rw [completeWith_log]
  · rw [(reschedule_same _).log]

theorem pauseTask_log (s : State) (t : Nat) (u : Bool) : (pauseTask s t u).1.log = s.log := by
  cases hc : (s.getTask t).completion with
  | some c => rw [pauseTask_done s t u c hc]
  | none => rw [pauseTask_live s t u hc]; split
            · rw [removeTask_log]; rfl
            · rfl

theorem resumeTask_log (s : State) (t : Nat) (u : Bool) : (resumeTask s t u).1.log = s.log := by
  by_cases hp : (s.getTask t).pc = 0
  · rw [resumeTask_zero s t u hp]
  · rw [resumeTask_pos s t u hp]; split
    · rw [addTask_log]; rfl
    · rfl

theorem failLater_log (s : State) (t j : Nat) : (failLater s t j).1.log = s.log := by
  unfold failLater; split
  · rw [completeWith_log]
  · rfl

/-! one work unit -/
def recOK (r : AdvRec) : Prop := r.pc = 0 ∧ r.upc = 0 ∧ r.completed = false ∧ r.waiting = false

theorem Inv.congr {s s' : State} (h : Inv s) (ht : s'.tasks = s.tasks) (hc : s'.cur = s.cur)
    (hm : s'.meta = s.meta) : Inv s' := by
  have f : Frame 0 s s' := ⟨by rw [ht], hm, by rw [hc]; exact id,
    fun u _ => by simp [State.getTask, ht], fun u _ => by rw [hc]⟩
  refine ((h.except 0).frame f).close ?_
  have := h.2 0
  unfold TaskOK MemOK CntOK good at *
  simpa [State.getTask, ht, hc] using this

/-- `_oneWorkUnit` after the ghost log entry has been written -/
def workBody (s0 : State) (t : Nat) : R :=
  match (s0.getTask t).script with
  | [] => completeWith s0 t .done .iterator
  | .raise :: _ => completeWith (s0.updTask t fun k => { k with script := [] }) t .failed .iterError
  | .value :: rest => (s0.updTask t fun k => { k with script := rest }, none)
  | .deferred j :: rest =>
    let s1 := s0.updTask t fun k => { k with script := rest }
    match pauseTask s1 t false with
    | (s2, some e) => (s2, some e)
    | (s2, none) =>
      match s2.fired.lookup j with
      | none => (s2.updTask t fun k => { k with waitingOn := k.waitingOn ++ [j] }, none)
      | some true => ((resumeTask s2 t false).1, none)
      | some false => ((failLater s2 t j).1, none)

def recOf (s : State) (t : Nat) : AdvRec :=
  { task := t, pc := (s.getTask t).pc, upc := (s.getTask t).upc,
    completed := (s.getTask t).completion.isSome, waiting := !(s.getTask t).waitingOn.isEmpty }

theorem workUnit_eq (s : State) (t : Nat) :
    workUnit s t = workBody { s with log := recOf s t :: s.log } t := rfl

theorem workBody_inv (s : State) (t : Nat) (h : Inv s) (ht : t ∈ s.cur) :
    Inv (workBody s t).1 ∧ (workBody s t).1.log = s.log := by
  have hg := (h.2 t).1.1 ht
  have hl := hg.1
  have hp := hg.2.1
  have hc := hg.2.2
  have hcnt := (h.2 t).2 hc
  have hupc : (s.getTask t).upc = 0 := by omega
  have hwl : (s.getTask t).waitingOn = [] := List.eq_nil_of_length_eq_zero (by omega)
  cases hs : (s.getTask t).script with
  | nil =>
    have : workBody s t = completeWith s t .done .iterator := by simp [workBody, hs]
    rw [this]
    exact ⟨completeWith_inv' _ t _ _ h, by rw [completeWith_log]⟩
  | cons it rest =>
    cases it with
    | raise =>
      have : workBody s t = completeWith (s.updTask t fun k => { k with script := [] }) t .failed .iterError := by
        simp [workBody, hs]
      rw [this]
      refine ⟨completeWith_inv _ t _ _ ((h.except t).frame (updTask_frame _ t _)) ?_ (fun _ => by simpa using hl),
        by rw [completeWith_log]; rfl⟩
      intro hp'; exfalso; apply hp'
      rw [getTask_updTask_same _ _ _ hl]; exact hp
    | value =>
      have : workBody s t = (s.updTask t fun k => { k with script := rest }, none) := by
        simp [workBody, hs]
      rw [this]
      refine ⟨((h.except t).frame (updTask_frame _ t _)).close ⟨?_, ?_⟩, rfl⟩
      · unfold MemOK good; rw [getTask_updTask_same _ _ _ hl]
        exact ⟨fun _ => ⟨by simpa using hl, hp, hc⟩, fun _ => ht⟩
      · unfold CntOK; rw [getTask_updTask_same _ _ _ hl]; intro _; exact hcnt
    | deferred j =>
      -- the state after `self.pause()` inside `_oneWorkUnit`
      let s1 : State := s.updTask t fun k => { k with script := rest }
      let s1' : State := s1.updTask t fun k => { k with pc := k.pc + 1, upc := if false then k.upc + 1 else k.upc }
      let s2 : State := (removeTask s1' t).1
      have hl1 : t < s1.tasks.length := by simpa [s1] using hl
      have hg1 : s1.getTask t = { s.getTask t with script := rest } := getTask_updTask_same _ _ _ hl
      have hpause : pauseTask s1 t false = (s2, none) := by
        rw [pauseTask_live s1 t false (by rw [hg1]; exact hc)]
        rw [if_pos (by rw [hg1]; exact hp)]
        exact Prod.ext rfl (removeTask_ok _ t ht)
      have hl2 : t < s2.tasks.length := by simpa [s2, s1', removeTask_tasks] using hl1
      have hg2 : s2.getTask t = { s.getTask t with script := rest, pc := 1 } := by
        show (removeTask s1' t).1.getTask t = _
        rw [removeTask_getTask, getTask_updTask_same _ _ _ hl1, hg1]; simp [hp]
      have hmem2 : t ∉ s2.cur := removeTask_not_mem s1' t h.1.nodup
      have hE2 : InvExcept s2 t :=
        (h.except t).frame (((updTask_frame _ t _).trans (updTask_frame s1 t _)).trans (removeTask_frame s1' t))
      have hlog2 : s2.log = s.log := by
        show (removeTask s1' t).1.log = _
        rw [removeTask_log]; rfl
      have hw : workBody s t =
          match s2.fired.lookup j with
          | none => (s2.updTask t fun k => { k with waitingOn := k.waitingOn ++ [j] }, none)
          | some true => ((resumeTask s2 t false).1, none)
          | some false => ((failLater s2 t j).1, none) := by
        simp only [workBody, hs]
        show (match pauseTask s1 t false with
          | (s2, some e) => (s2, some e)
          | (s2, none) => _) = _
        rw [hpause]
      rw [hw]
      split
      · refine ⟨(hE2.frame (updTask_frame _ t _)).close ⟨?_, ?_⟩, hlog2⟩
        · unfold MemOK good; rw [getTask_updTask_same _ _ _ hl2, hg2]
          exact ⟨fun hin => absurd hin hmem2, fun hgd => by simp at hgd⟩
        · unfold CntOK; rw [getTask_updTask_same _ _ _ hl2, hg2]
          intro _; simp [hupc, hwl]
      · refine ⟨resumeTask_inv s2 t false hE2 hl2 hmem2 ?_, by rw [resumeTask_log, hlog2]⟩
        rw [hg2]; intro _; simp [hupc, hwl]
      · exact ⟨failLater_inv s2 t j hE2 hl2 hmem2, by rw [failLater_log, hlog2]⟩

theorem workUnit_inv (s : State) (t : Nat) (h : Inv s) (ht : t ∈ s.cur) :
    Inv (workUnit s t).1 ∧ (workUnit s t).1.log = recOf s t :: s.log ∧ recOK (recOf s t) := by
  rw [workUnit_eq]
  have h0 : Inv { s with log := recOf s t :: s.log } := h.congr rfl rfl rfl
  have := workBody_inv _ t h0 ht
  refine ⟨this.1, this.2, ?_⟩
  have hg := (h.2 t).1.1 ht
  have hcnt := (h.2 t).2 hg.2.2
  have hwl : (s.getTask t).waitingOn = [] := List.eq_nil_of_length_eq_zero (by have := hg.2.1; omega)
  simp [recOK, recOf, hg.2.1, hg.2.2, hwl]
  have := hg.2.1; omega

end TwistedProps.C11
