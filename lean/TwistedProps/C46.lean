import TwistedModel.Endpoints.Quote
import TwistedProps.C46.Gen
/-!
C46 — endpoint description quoting round-trips.

For every list of arguments (positional texts and `key=text` pairs, any texts at all, in
every position), building the description with `quoteStringArgument` and parsing it with
`_parse` yields exactly those texts at those positions.

`positional_at` / `keyword_at`: the same per position ("yields exactly that text at that position"): the text is
`args[i]` / `kw[name]` of the parse whatever arguments surround it (a later argument may re-assign the same name, as in
Python's dict).  `plugin_roundtrip`: what `serverFromString` / `clientFromString` hand to a plugin parser after taking the
endpoint name off.

`gen_*`: `quoteStringArgument` is regenerated from endpoints.py on every run (`Generated.Quote`, harness/py2lean.py:
the for-loop of `str.replace` as a fold) and proved equal to the model's `quote` (`TwistedProps/C46/Gen.lean`).
-/
namespace TwistedProps.C46
open Twisted.Endpoints.Quote

/-- one-pass form of the three `str.replace` calls -/
def q1 (c : Char) : Text := if c = '\\' ∨ c = ':' ∨ c = '=' then ['\\', c] else [c]

theorem quote_eq_flatMap (t : Text) : quote t = t.flatMap q1 := by
  unfold quote escapeChar
  rw [List.flatMap_assoc, List.flatMap_assoc]
  congr 1
  funext x
  unfold q1
  by_cases h1 : x = '\\'
  · subst h1; decide
  · by_cases h2 : x = ':'
    · subst h2; decide
    · by_cases h3 : x = '='
      · subst h3; decide
      · simp [h1, h2, h3]

theorem quote_nil : quote [] = [] := by simp [quote_eq_flatMap]
theorem quote_cons (c : Char) (t : Text) : quote (c :: t) = q1 c ++ quote t := by
  simp [quote_eq_flatMap]

theorem tokenize_cons (c : Char) (rest cur : Text) (eqA : Bool) :
    tokenize (c :: rest) cur eqA =
      if c = ':' ∨ (c = '=' ∧ eqA = true) then
        (Tok.str cur :: Tok.op c :: (tokenize rest [] (c = ':')).1, (tokenize rest [] (c = ':')).2)
      else if c = '\\' then
        match rest with
        | [] => ([], false)
        | d :: rest' => tokenize rest' (cur ++ [d]) eqA
      else tokenize rest (cur ++ [c]) eqA := by
  cases rest <;> simp [tokenize]

theorem tokenize_esc (d : Char) (rest cur : Text) (eqA : Bool) :
    tokenize ('\\' :: d :: rest) cur eqA = tokenize rest (cur ++ [d]) eqA := by
  rw [tokenize_cons]; simp

theorem tokenize_lit (c : Char) (rest cur : Text) (eqA : Bool)
    (h1 : ¬ (c = ':' ∨ (c = '=' ∧ eqA = true))) (h2 : c ≠ '\\') :
    tokenize (c :: rest) cur eqA = tokenize rest (cur ++ [c]) eqA := by
  rw [tokenize_cons]; simp only [h1, h2, if_false]

theorem tokenize_colon (rest cur : Text) (eqA : Bool) :
    tokenize (':' :: rest) cur eqA =
      (Tok.str cur :: Tok.op ':' :: (tokenize rest [] true).1, (tokenize rest [] true).2) := by
  rw [tokenize_cons]; simp

theorem tokenize_equals (rest cur : Text) :
    tokenize ('=' :: rest) cur true =
      (Tok.str cur :: Tok.op '=' :: (tokenize rest [] false).1, (tokenize rest [] false).2) := by
  rw [tokenize_cons]; simp

/-- **Literal consumption**: a quoted text in front of anything is consumed by the tokenizer
    into the current string, verbatim, without producing an operator — whatever the text. -/
theorem tokenize_quote (t rest cur : Text) (eqA : Bool) :
    tokenize (quote t ++ rest) cur eqA = tokenize rest (cur ++ t) eqA := by
  induction t generalizing cur with
  | nil => simp [quote_nil]
  | cons c t ih =>
    rw [quote_cons]
    by_cases h : c = '\\' ∨ c = ':' ∨ c = '='
    · have : q1 c = ['\\', c] := by simp [q1, h]
      rw [this]
      simp only [List.cons_append, List.nil_append]
      rw [tokenize_esc, ih]; simp
    · have hq : q1 c = [c] := by simp [q1, h]
      rw [hq]
      simp only [List.cons_append, List.nil_append]
      have h1 : ¬ (c = ':' ∨ (c = '=' ∧ eqA = true)) := by
        intro hh; rcases hh with hh | ⟨hh, _⟩ <;> exact h (by simp [hh])
      have h2 : ¬ c = '\\' := fun hh => h (Or.inl hh)
      rw [tokenize_lit _ _ _ _ h1 h2, ih]; simp

/-- the output of `quoteStringArgument` never ends in a lone backslash and never contains an
    unescaped operator: tokenizing it alone gives the single string back -/
theorem tokenize_quote_alone (t : Text) (eqA : Bool) :
    tokenize (quote t) [] eqA = ([Tok.str t], true) := by
  have := tokenize_quote t [] [] eqA
  simpa [tokenize] using this

/-- keyword names: no `:`, `=`, backslash (Python identifiers in every endpoint parser) -/
def plainKey (k : Text) : Prop := ∀ c ∈ k, c ≠ ':' ∧ c ≠ '=' ∧ c ≠ '\\'

theorem tokenize_plain (k rest cur : Text) (eqA : Bool) (hk : plainKey k) :
    tokenize (k ++ rest) cur eqA = tokenize rest (cur ++ k) eqA := by
  induction k generalizing cur with
  | nil => simp
  | cons c k ih =>
    have hc := hk c (by simp)
    have hk' : plainKey k := fun x hx => hk x (by simp [hx])
    simp only [List.cons_append]
    have h1 : ¬ (c = ':' ∨ (c = '=' ∧ eqA = true)) := by
      intro hh; rcases hh with hh | ⟨hh, _⟩
      · exact hc.1 hh
      · exact hc.2.1 hh
    rw [tokenize_lit _ _ _ _ h1 hc.2.2, ih _ hk']; simp

/-- tokens of one argument -/
def itoks : Item → List Tok
  | .pos t => [Tok.str t]
  | .kw k t => [Tok.str k, Tok.op '=', Tok.str t]

def toks : List Item → List Tok
  | [] => [Tok.str []]
  | [i] => itoks i
  | i :: is => itoks i ++ Tok.op ':' :: toks is

def wfItem : Item → Prop
  | .pos _ => True
  | .kw k _ => plainKey k

theorem tokenize_item (i : Item) (rest : Text) (h : wfItem i) :
    tokenize (render i ++ ':' :: rest) [] true =
      (itoks i ++ Tok.op ':' :: (tokenize rest [] true).1, (tokenize rest [] true).2) := by
  cases i with
  | pos t =>
    simp only [render, itoks]
    rw [tokenize_quote, tokenize_colon]
    simp
  | kw k t =>
    simp only [render, itoks, List.append_assoc, List.cons_append]
    rw [tokenize_plain _ _ _ _ h, tokenize_equals, tokenize_quote, tokenize_colon]
    simp

theorem tokenize_item_last (i : Item) (h : wfItem i) :
    tokenize (render i) [] true = (itoks i, true) := by
  cases i with
  | pos t => simp only [render, itoks]; exact tokenize_quote_alone t true
  | kw k t =>
    simp only [render, itoks]
    rw [tokenize_plain _ _ _ _ h, tokenize_equals, tokenize_quote_alone]
    simp

theorem describe_cons2 (i j : Item) (js : List Item) :
    describe (i :: j :: js) = render i ++ ':' :: describe (j :: js) := rfl
theorem toks_cons2 (i j : Item) (js : List Item) :
    toks (i :: j :: js) = itoks i ++ Tok.op ':' :: toks (j :: js) := rfl

theorem tokenize_describe (items : List Item) (hne : items ≠ []) (h : ∀ i ∈ items, wfItem i) :
    tokenize (describe items) [] true = (toks items, true) := by
  induction items with
  | nil => exact absurd rfl hne
  | cons i is ih =>
    cases is with
    | nil => simpa [describe, toks] using tokenize_item_last i (h i (by simp))
    | cons j js =>
      have := ih (by simp) (fun x hx => h x (by simp [hx]))
      rw [describe_cons2, toks_cons2, tokenize_item i _ (h i (by simp)), this]

/-- what the caller intended: apply the arguments left to right -/
def applyItem (p : Parsed) : Item → Parsed
  | .pos t => { p with args := p.args ++ [t] }
  | .kw k t => { p with kw := kwSet p.kw k t }

def asciiKey : Item → Prop
  | .pos _ => True
  | .kw k _ => k.all (·.toNat < 128) = true

theorem loop_item (i : Item) (ts : List Tok) (p : Parsed) (ha : asciiKey i) :
    loopToks (itoks i ++ Tok.op ':' :: ts) p [] = loopToks ts (applyItem p i) [] := by
  cases i with
  | pos t => simp [itoks, loopToks, add, applyItem, Except.bind]
  | kw k t =>
    simp only [asciiKey] at ha
    simp [itoks, loopToks, add, applyItem, Except.bind, ha]

theorem loop_item_last (i : Item) (p : Parsed) (ha : asciiKey i) :
    finish true (loopToks (itoks i) p []) = .ok (applyItem p i) := by
  cases i with
  | pos t => simp [itoks, loopToks, add, applyItem, finish]
  | kw k t =>
    simp only [asciiKey] at ha
    simp [itoks, loopToks, add, applyItem, ha, finish]

theorem parseToks_items (items : List Item) (hne : items ≠ []) (p : Parsed)
    (ha : ∀ i ∈ items, asciiKey i) :
    finish true (loopToks (toks items) p []) = .ok (items.foldl applyItem p) := by
  induction items generalizing p with
  | nil => exact absurd rfl hne
  | cons i is ih =>
    cases is with
    | nil => simpa [toks] using loop_item_last i p (ha i (by simp))
    | cons j js =>
      rw [toks_cons2, loop_item i _ p (ha i (by simp))]
      simpa using ih (by simp) (applyItem p i) (fun x hx => ha x (by simp [hx]))

/-- **C46** (positional and keyword, every position, any texts): parsing the description
    built from `quoteStringArgument`-quoted arguments yields exactly those arguments. -/
theorem roundtrip (items : List Item) (hne : items ≠ [])
    (hk : ∀ i ∈ items, wfItem i) (ha : ∀ i ∈ items, asciiKey i) :
    parse (describe items) = .ok (items.foldl applyItem ⟨[], []⟩) := by
  unfold parse
  simp only [tokenize_describe items hne hk]
  simpa using parseToks_items items hne ⟨[], []⟩ ha

theorem foldl_pos (ts : List Text) (p : Parsed) :
    (ts.map Item.pos).foldl applyItem p = ⟨p.args ++ ts, p.kw⟩ := by
  induction ts generalizing p with
  | nil => simp
  | cons t ts ih => simp [applyItem, ih]

/-- Positional corollary: a description made only of quoted positional texts parses to
    exactly those texts, in order, and no keyword arguments. -/
theorem positional_roundtrip (ts : List Text) (hne : ts ≠ []) :
    parse (describe (ts.map Item.pos)) = .ok ⟨ts, []⟩ := by
  rw [roundtrip _ (by simpa using hne) (by simp [wfItem]) (by simp [asciiKey])]
  simpa using foldl_pos ts ⟨[], []⟩

/-- Keyword corollary: one quoted keyword argument after any quoted positional ones. -/
theorem keyword_roundtrip (ts : List Text) (k v : Text) (hk : plainKey k)
    (ha : k.all (·.toNat < 128) = true) :
    parse (describe (ts.map Item.pos ++ [Item.kw k v])) = .ok ⟨ts, [(k, v)]⟩ := by
  rw [roundtrip _ (by simp)]
  · simp [List.foldl_append, foldl_pos, applyItem, kwSet]
  · intro i hi
    simp only [List.mem_append, List.mem_map, List.mem_singleton] at hi
    rcases hi with ⟨t, _, rfl⟩ | rfl
    · simp [wfItem]
    · simpa [wfItem] using hk
  · intro i hi
    simp only [List.mem_append, List.mem_map, List.mem_singleton] at hi
    rcases hi with ⟨t, _, rfl⟩ | rfl
    · simp [asciiKey]
    · simpa [asciiKey] using ha

/-- A quoted text contains only escaped operators: it is never empty of meaning —
    quoting is injective. -/
theorem quote_injective (a b : Text) (h : quote a = quote b) : a = b := by
  have ha := tokenize_quote_alone a true
  rw [h, tokenize_quote_alone] at ha
  simpa using ha.symm

/-! ### at that position: one slot of the parse, whatever surrounds it; what the entry points pass on -/

theorem find_map_upd (kw : List (Text × Text)) (k k' v : Text) :
    (kw.map fun p => if p.1 = k' then (k', v) else p).find? (·.1 = k) =
      (kw.find? (·.1 = k)).map fun p => if p.1 = k' then (k', v) else p := by
  rw [List.find?_map]
  have : ((fun x : Text × Text => decide (x.1 = k)) ∘ fun p => if p.1 = k' then (k', v) else p) =
      fun x => decide (x.1 = k) := by
    funext p
    by_cases h : p.1 = k' <;> simp [h]
  rw [this]

theorem kwGet_kwSet_same (kw : List (Text × Text)) (k v : Text) : kwGet (kwSet kw k v) k = some v := by
  unfold kwGet kwSet
  by_cases hany : kw.any (·.1 = k) = true
  · simp only [hany, if_true]
    rw [find_map_upd]
    obtain ⟨x, hx, hxk⟩ := List.any_eq_true.mp hany
    cases hf : kw.find? (·.1 = k) with
    | none =>
      have := List.find?_eq_none.mp hf x hx
      exact absurd hxk this
    | some y =>
      have hy := List.find?_some hf
      simp only [decide_eq_true_eq] at hy
      simp [hy]
  · simp only [hany]
    simp only [Bool.not_eq_true] at hany
    have hnone : kw.find? (·.1 = k) = none := by
      apply List.find?_eq_none.mpr
      intro x hx
      have := List.any_eq_false.mp hany x hx
      simpa using this
    simp [List.find?_append, hnone]

theorem kwGet_kwSet_other (kw : List (Text × Text)) (k k' v : Text) (h : k' ≠ k) :
    kwGet (kwSet kw k' v) k = kwGet kw k := by
  unfold kwGet kwSet
  split
  · rw [find_map_upd]
    cases hf : kw.find? (·.1 = k) with
    | none => rfl
    | some y =>
      have hy := List.find?_some hf
      simp only [decide_eq_true_eq] at hy
      have : ¬ y.1 = k' := fun e => h (e ▸ hy)
      simp [this]
  · simp only [List.find?_append]
    cases kw.find? (·.1 = k) <;> simp [h]

def positionals : List Item → List Text
  | [] => []
  | .pos t :: is => t :: positionals is
  | .kw _ _ :: is => positionals is

theorem foldl_args (items : List Item) (p : Parsed) :
    (items.foldl applyItem p).args = p.args ++ positionals items := by
  induction items generalizing p with
  | nil => simp [positionals]
  | cons i is ih => cases i <;> simp [applyItem, positionals, ih]

/-- **at that position (positional)**: whatever arguments come before and after, the quoted text `t` placed as a
    positional argument is `args[i]`, `i` = the number of positional arguments before it. -/
theorem positional_at (pre post : List Item) (t : Text)
    (hk : ∀ i ∈ pre ++ Item.pos t :: post, wfItem i) (ha : ∀ i ∈ pre ++ Item.pos t :: post, asciiKey i) :
    ∃ p, parse (describe (pre ++ Item.pos t :: post)) = .ok p ∧
      select p (.arg (positionals pre).length) = some t := by
  refine ⟨_, roundtrip _ (by simp) hk ha, ?_⟩
  simp [select, List.foldl_append, foldl_args, applyItem]

def keyOf : Item → Option Text
  | .pos _ => none
  | .kw k _ => some k

theorem foldl_kwGet_other (items : List Item) (p : Parsed) (k : Text)
    (h : ∀ i ∈ items, keyOf i ≠ some k) :
    kwGet (items.foldl applyItem p).kw k = kwGet p.kw k := by
  induction items generalizing p with
  | nil => rfl
  | cons i is ih =>
    have hi := h i (by simp)
    rw [List.foldl_cons, ih _ (fun x hx => h x (by simp [hx]))]
    cases i with
    | pos t => rfl
    | kw k' t =>
      have : k' ≠ k := fun e => hi (by simp [keyOf, e])
      simp [applyItem, kwGet_kwSet_other _ _ _ _ this]

/-- **at that position (keyword)**: the quoted text `t` placed as `k=t` is `kw[k]`, whatever comes before, and whatever
    comes after that does not assign the same name again. -/
theorem keyword_at (pre post : List Item) (k t : Text)
    (hk : ∀ i ∈ pre ++ Item.kw k t :: post, wfItem i) (ha : ∀ i ∈ pre ++ Item.kw k t :: post, asciiKey i)
    (hpost : ∀ i ∈ post, keyOf i ≠ some k) :
    ∃ p, parse (describe (pre ++ Item.kw k t :: post)) = .ok p ∧ select p (.key k) = some t := by
  refine ⟨_, roundtrip _ (by simp) hk ha, ?_⟩
  simp only [select, List.foldl_append, List.foldl_cons]
  rw [foldl_kwGet_other _ _ _ hpost]
  simp [applyItem, kwGet_kwSet_same]

theorem foldl_cons_arg (items : List Item) (x : Text) (as : List Text) (kw : List (Text × Text)) :
    items.foldl applyItem ⟨x :: as, kw⟩ =
      ⟨x :: (items.foldl applyItem ⟨as, kw⟩).args, (items.foldl applyItem ⟨as, kw⟩).kw⟩ := by
  induction items generalizing as kw with
  | nil => rfl
  | cons i is ih => cases i <;> simp [applyItem, ih]

/-- **what a plugin parser receives** (`serverFromString`: `plugin.parseStreamServer(reactor, *args[1:], **kw)`;
    `clientFromString`: `args.pop(0)` then `plugin.parseStreamClient(reactor, *args, **kwargs)`): after the endpoint name
    the quoted arguments, exactly — for every argument list, the empty one included. -/
theorem plugin_roundtrip (name : Text) (items : List Item)
    (hk : ∀ i ∈ items, wfItem i) (ha : ∀ i ∈ items, asciiKey i) :
    dropName (parse (describe (Item.pos name :: items))) = .ok (items.foldl applyItem ⟨[], []⟩) := by
  rw [roundtrip _ (by simp)]
  · simp only [List.foldl_cons, applyItem, List.nil_append, foldl_cons_arg, dropName, Except.map]
    simp
  · intro i hi
    rcases List.mem_cons.mp hi with rfl | hi
    · simp [wfItem]
    · exact hk i hi
  · intro i hi
    rcases List.mem_cons.mp hi with rfl | hi
    · simp [asciiKey]
    · exact ha i hi

example : (match parse (describe [Item.pos ['u'], Item.kw ['m'] ['6'], Item.pos [':', '\\', '='], Item.kw ['k'] []]) with
    | .ok p => select p (.arg 1) == some [':', '\\', '='] && select p (.key ['k']) == some [] && select p (.arg 2) == none
    | .error _ => false) = true := by decide
example : (match dropName (parse (describe [Item.pos ['f'], Item.pos [], Item.kw ['k'] ['=']])) with
    | .ok p => p.args == [[]] && p.kw == [(['k'], ['='])]
    | .error _ => false) = true := by decide

/-! ### the translator-regenerated `quoteStringArgument` (see `TwistedProps/C46/Gen.lean`) -/

/-- `quoteStringArgument` as regenerated from endpoints.py = the model's `quote`, on every string -/
theorem gen_quote (t : Text) : Generated.Quote.quoteStringArgument t = quote t := gen_quote_eq t

/-- the regenerated `quoteStringArgument` is injective (so is any description built from it) -/
theorem gen_quote_injective (a b : Text)
    (h : Generated.Quote.quoteStringArgument a = Generated.Quote.quoteStringArgument b) : a = b :=
  quote_injective a b (by rw [← gen_quote, ← gen_quote]; exact h)

/-- **the round trip over the regenerated quoting**: a description whose argument texts are quoted by the
    translated `quoteStringArgument` tokenizes back to exactly that text -/
theorem gen_tokenize_quote_alone (t : Text) (eqA : Bool) :
    tokenize (Generated.Quote.quoteStringArgument t) [] eqA = ([Tok.str t], true) := by
  rw [gen_quote]; exact tokenize_quote_alone t eqA

example : Generated.Quote.quoteStringArgument ['a', ':', '\\', '='] = ['a', '\\', ':', '\\', '\\', '\\', '='] := by
  rw [gen_quote]; decide

/-! ### Non-vacuity -/
example : (match parse (describe [Item.pos ['a', '=', 'b', ':', 'c', '\\'], Item.kw ['k'] ['x', '=', ':', '\\'], Item.pos []]) with
    | .ok p => p.args == [['a', '=', 'b', ':', 'c', '\\'], []] && p.kw == [(['k'], ['x', '=', ':', '\\'])]
    | .error _ => false) = true := by decide
example : plainKey ['i', 'f'] ∧ ['i', 'f'].all (·.toNat < 128) = true := by
  refine ⟨?_, by decide⟩
  intro c hc
  simp only [List.mem_cons, List.not_mem_nil, or_false] at hc
  rcases hc with rfl | rfl <;> decide

end TwistedProps.C46
