import TwistedProps.C12.Lists
/-!
C12 — the first invariant is preserved by every step of the model.
-/
namespace TwistedProps.C12
open Twisted.Reactor.ThreePhase

/-- `G1` together with the list of all keys registered so far -/
def K (s : St) (L : List Nat) : Prop := G1 s ∧ allAdded s.log = L

theorem K.same {s t L} (h : K s L) (hl : ∀ ph, t.get ph = s.get ph) (hg : t.log = s.log) : K t L :=
  ⟨h.1.same hl hg, by rw [hg]; exact h.2⟩

theorem K.plain {s t L e} (h : K s L) (hl : ∀ ph, t.get ph = s.get ph) (hg : t.log = s.log ++ [e])
    (he : Ev.plain e = true) : K t L :=
  ⟨h.1.plain hl hg he, by
    rw [hg, allAdded_snoc, ← h.2]; cases e <;> simp [Ev.plain] at he <;> simp [anyAddedKey?]⟩

theorem K.rem {s t L ph k} (h : K s L) (hk : k ∈ s.get ph)
    (hl : t.get ph = (s.get ph).erase k) (hl' : ∀ ph', ph' ≠ ph → t.get ph' = s.get ph')
    (hg : t.log = s.log ++ [.removed ph k]) : K t L :=
  ⟨h.1.rem hk hl hl' hg, by rw [hg, allAdded_snoc, ← h.2]; simp [anyAddedKey?]⟩

theorem K.pop {s t L ph k rest} (h : K s L) (hs : s.get ph = k :: rest)
    (hl : t.get ph = rest) (hl' : ∀ ph', ph' ≠ ph → t.get ph' = s.get ph')
    (hg : t.log = s.log ++ [.ran ph k]) : K t L :=
  ⟨h.1.pop hs hl hl' hg, by rw [hg, allAdded_snoc, ← h.2]; simp [anyAddedKey?]⟩

theorem K.add {s t L ph k} (h : K s L) (hk : k ∉ L)
    (hl : t.get ph = s.get ph ++ [k]) (hl' : ∀ ph', ph' ≠ ph → t.get ph' = s.get ph')
    (hg : t.log = s.log ++ [.added ph k]) : K t (L ++ [k]) :=
  ⟨h.1.add (h.2 ▸ hk) hl hl' hg, by rw [hg, allAdded_snoc, ← h.2]; simp [anyAddedKey?]⟩

def Pres (f : St → St) : Prop := ∀ s L, K s L → K (f s) L

theorem pres_afterLoop {fin} (hf : Pres fin) : Pres (afterLoop fin) := by
  intro s L h
  unfold afterLoop
  split
  · rename_i k rest hs
    exact h.pop (ph := .after) (by simpa [St.get] using hs) rfl
      (fun ph' hp => by cases ph' <;> first | rfl | exact absurd rfl hp) rfl
  · exact hf s L h

theorem pres_duringLoop {fin} (hf : Pres fin) : Pres (duringLoop fin) := by
  intro s L h
  unfold duringLoop
  split
  · rename_i k rest hs
    exact h.pop (ph := .during) (by simpa [St.get] using hs) rfl
      (fun ph' hp => by cases ph' <;> first | rfl | exact absurd rfl hp) rfl
  · exact pres_afterLoop hf s L h

theorem pres_contLoop (n : Nat) : Pres (contLoop n) := by
  induction n with
  | zero =>
    intro s L h
    unfold contLoop
    apply pres_duringLoop
    · intro s L h; exact h.same (fun ph => by cases ph <;> rfl) rfl
    · exact h.same (fun ph => by cases ph <;> rfl) rfl
  | succ n ih =>
    intro s L h
    unfold contLoop
    apply pres_duringLoop ih
    exact h.same (fun ph => by cases ph <;> rfl) rfl

theorem pres_finish : Pres finish := by
  intro s L h
  unfold finish
  split
  · exact h.same (fun ph => by cases ph <;> rfl) rfl
  · exact pres_contLoop _ s L h

theorem pres_endBefore : Pres endBefore := by
  intro s L h
  unfold endBefore
  simp only
  split
  · exact pres_contLoop 0 _ L (h.same (fun ph => by cases ph <;> rfl) rfl)
  · exact h.same (fun ph => by cases ph <;> rfl) rfl

theorem pres_beforeLoop : Pres beforeLoop := by
  intro s L h
  unfold beforeLoop
  split
  · rename_i k rest hs
    exact h.pop (ph := .before) (by simpa [St.get] using hs) rfl
      (fun ph' hp => by cases ph' <;> first | rfl | exact absurd rfl hp) rfl
  · exact pres_endBefore s L h

theorem pres_fire : Pres fire := by
  intro s L h
  unfold fire
  apply pres_beforeLoop
  exact h.plain (e := .fired) (fun ph => by cases ph <;> rfl) rfl rfl

theorem pres_fireD (d) : Pres (fun s => fireD s d) := by
  intro s L h
  simp only [fireD]
  split
  · exact h.plain (e := .already d) (fun ph => by cases ph <;> rfl) rfl rfl
  · split
    · exact h.plain (e := .dfired d) (fun ph => by cases ph <;> rfl) rfl rfl
    · exact pres_contLoop _ _ L (h.plain (e := .dfired d) (fun ph => by cases ph <;> rfl) rfl rfl)

theorem pres_fireDIn (d) : Pres (fun s => fireDIn s d) := by
  intro s L h
  simp only [fireDIn]
  split
  · exact h.plain (e := .already d) (fun ph => by cases ph <;> rfl) rfl rfl
  · exact h.plain (e := .dfired d) (fun ph => by cases ph <;> rfl) rfl rfl

theorem get_set (s : St) (ph l) : (s.set ph l).get ph = l := by cases ph <;> rfl
theorem get_set_ne (s : St) {ph ph'} (l) (h : ph' ≠ ph) : (s.set ph l).get ph' = s.get ph' := by
  cases ph <;> cases ph' <;> first | rfl | exact absurd rfl h
theorem get_emit (s : St) (e ph) : (s.emit e).get ph = s.get ph := by cases ph <;> rfl
theorem log_emit (s : St) (e) : (s.emit e).log = s.log ++ [e] := rfl
theorem log_set (s : St) (ph l) : (s.set ph l).log = s.log := by cases ph <;> rfl

theorem pres_removeBase (ph k) : Pres (fun s => removeBase s ph k) := by
  intro s L h
  simp only [removeBase]
  split
  · rename_i hk
    exact h.rem hk (by rw [get_emit, get_set]) (fun ph' hp => by rw [get_emit, get_set_ne _ _ hp])
      (by rw [log_emit, log_set])
  · exact h.plain (e := .notFound ph k) (fun ph => get_emit _ _ _) rfl rfl

theorem pres_remove (ph k) : Pres (fun s => remove s ph k) := by
  intro s L h
  simp only [remove]
  split
  · split
    · exact pres_removeBase ph k s L h
    · split
      · exact h.plain (e := .warned k) (fun ph => get_emit _ _ _) rfl rfl
      · exact pres_removeBase ph k s L h
  · exact pres_removeBase ph k s L h

/-- every op other than `add` keeps the invariant and the set of registered keys -/
theorem pres_step_nonadd (op : Op) (h : ∀ ph k, op ≠ .add ph k) : Pres (fun s => step s op) := by
  intro s L hk
  cases op with
  | add ph k => exact absurd rfl (h ph k)
  | remove ph k => exact pres_remove ph k s L hk
  | fire =>
    simp only [step]; split
    · exact pres_fire s L hk
    · exact hk.plain (e := .ignored) (fun ph => get_emit _ _ _) rfl rfl
  | fireD d =>
    simp only [step]; split
    · exact pres_fireD d s L hk
    · split
      · exact hk.plain (e := .ignored) (fun ph => get_emit _ _ _) rfl rfl
      · exact pres_fireDIn d s L hk
  | ret r =>
    simp only [step]
    split
    · exact hk.plain (e := .ignored) (fun ph => get_emit _ _ _) rfl rfl
    · split
      · exact pres_beforeLoop _ L (hk.plain (e := .retB _) (fun ph => by cases ph <;> rfl) rfl rfl)
      · exact pres_beforeLoop _ L (hk.plain (e := .retB none) (fun ph => get_emit _ _ _) rfl rfl)
    · exact pres_duringLoop pres_finish _ L (hk.plain (e := .retO) (fun ph => get_emit _ _ _) rfl rfl)
    · exact pres_afterLoop pres_finish _ L (hk.plain (e := .retO) (fun ph => get_emit _ _ _) rfl rfl)

theorem K_step_add {s L ph k} (h : K s L) (hk : k ∉ L) : K (step s (.add ph k)) (L ++ [k]) := by
  simp only [step]
  exact h.add hk (by rw [get_emit, get_set]) (fun ph' hp => by rw [get_emit, get_set_ne _ _ hp])
    (by rw [log_emit, log_set])

/-- keys of the `add` ops of a history -/
def addKeys : List Op → List Nat
  | [] => []
  | .add _ k :: ops => k :: addKeys ops
  | _ :: ops => addKeys ops

theorem addKeys_append (a b : List Op) : addKeys (a ++ b) = addKeys a ++ addKeys b := by
  induction a with
  | nil => rfl
  | cons x xs ih => cases x <;> simp [addKeys, ih]

/-- registrations are pairwise distinct as `(callable, args, kwargs)` -/
def Fresh (ops : List Op) : Prop := (addKeys ops).Nodup

instance (ops) : Decidable (Fresh ops) := by unfold Fresh; infer_instance

theorem run_snoc (ops : List Op) (op : Op) : run (ops ++ [op]) = step (run ops) op := by
  simp [run, List.foldl_append]

theorem Fresh.prefix {a b : List Op} (h : Fresh (a ++ b)) : Fresh a := by
  unfold Fresh at *; rw [addKeys_append] at h; exact (List.nodup_append.1 h).1

theorem K_init : K init [] := by
  refine ⟨⟨fun ph => by cases ph <;> rfl, by simp [init, allAdded], ?_, allRuns_nil _⟩, rfl⟩
  intro ph k h; simp [init] at h

theorem snoc_induction {α} {P : List α → Prop} (nil : P [])
    (snoc : ∀ l a, P l → P (l ++ [a])) : ∀ l, P l := by
  intro l
  rw [← List.reverse_reverse l]
  induction l.reverse with
  | nil => exact nil
  | cons a t ih => simpa using snoc _ a ih

theorem K_run (ops : List Op) (hf : Fresh ops) : K (run ops) (addKeys ops) := by
  induction ops using snoc_induction with
  | nil => exact K_init
  | snoc ops op ih =>
    have ih := ih hf.prefix
    rw [run_snoc, addKeys_append]
    cases op with
    | add ph k =>
      have : k ∉ addKeys ops := by
        unfold Fresh at hf
        rw [addKeys_append] at hf
        have := (List.nodup_append.1 hf).2.2
        intro hk; exact this k hk k (by simp [addKeys]) rfl
      simpa [addKeys] using K_step_add ih this
    | remove ph k => simpa [addKeys] using pres_step_nonadd _ (by intro _ _ h; cases h) _ _ ih
    | fire => simpa [addKeys] using pres_step_nonadd _ (by intro _ _ h; cases h) _ _ ih
    | fireD d => simpa [addKeys] using pres_step_nonadd _ (by intro _ _ h; cases h) _ _ ih
    | ret r => simpa [addKeys] using pres_step_nonadd _ (by intro _ _ h; cases h) _ _ ih

theorem G1_run (ops : List Op) (hf : Fresh ops) : G1 (run ops) := (K_run ops hf).1

end TwistedProps.C12
