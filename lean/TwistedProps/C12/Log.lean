import TwistedModel.Reactor.ThreePhase
/-!
C12 — functions of the event log and their behaviour under appending one event.
-/
namespace TwistedProps.C12
open Twisted.Reactor.ThreePhase

def addedKey? (ph : Phase) : Ev → Option Nat
  | .added p k => if p = ph then some k else none
  | _ => none

def anyAddedKey? : Ev → Option Nat
  | .added _ k => some k
  | _ => none

/-- keys registered in phase `ph`, in registration order -/
def addedKeys (ph : Phase) (log : List Ev) : List Nat := log.filterMap (addedKey? ph)
/-- keys registered in any phase, in registration order -/
def allAdded (log : List Ev) : List Nat := log.filterMap anyAddedKey?

/-- the registration `k` of phase `ph` has been called or removed -/
def isDone (log : List Ev) (ph : Phase) (k : Nat) : Bool :=
  log.contains (.ran ph k) || log.contains (.removed ph k)

/-- registered in `ph`, not yet called, not removed — in registration order -/
def pend (ph : Phase) (log : List Ev) : List Nat :=
  (addedKeys ph log).filter (fun k => !isDone log ph k)

/-- the events after the last `fired` (the whole log if there is none) -/
def sinceFire : List Ev → List Ev
  | [] => []
  | e :: l => if Ev.fired ∈ l then sinceFire l else if e = .fired then l else e :: sinceFire l

/-- a property of every call of a trigger, in terms of the log before the call -/
def AllRuns (P : List Ev → Phase → Nat → Prop) (log : List Ev) : Prop :=
  ∀ pre ph k post, log = pre ++ Ev.ran ph k :: post → P pre ph k

theorem allRuns_nil (P) : AllRuns P [] := by
  intro pre ph k post h; simp at h

theorem allRuns_snoc {P} {log : List Ev} {e : Ev} (h : AllRuns P log)
    (he : ∀ ph k, e = .ran ph k → P log ph k) : AllRuns P (log ++ [e]) := by
  intro pre ph k post hd
  rcases List.eq_nil_or_concat post with hp | ⟨post', x, hp⟩
  · subst hp
    have := List.append_inj' (show log ++ [e] = pre ++ [Ev.ran ph k] from hd) rfl
    obtain ⟨h1, h2⟩ := this
    subst h1
    exact he ph k (by simpa using h2)
  · subst hp
    have hd' : log ++ [e] = (pre ++ Ev.ran ph k :: post') ++ [x] := by simpa using hd
    have := List.append_inj' hd' rfl
    exact h pre ph k post' this.1

theorem allRuns_prefix {P} {l1 l2 : List Ev} (h : AllRuns P (l1 ++ l2)) : AllRuns P l1 := by
  intro pre ph k post hd
  exact h pre ph k (post ++ l2) (by simp [hd])

theorem allRuns_mono {P Q : List Ev → Phase → Nat → Prop} {log} (h : AllRuns P log)
    (hpq : ∀ pre ph k, P pre ph k → Q pre ph k) : AllRuns Q log :=
  fun pre ph k post hd => hpq _ _ _ (h pre ph k post hd)

theorem allRuns_and {P Q : List Ev → Phase → Nat → Prop} {log} (h : AllRuns P log) (h' : AllRuns Q log) :
    AllRuns (fun pre ph k => P pre ph k ∧ Q pre ph k) log :=
  fun pre ph k post hd => ⟨h pre ph k post hd, h' pre ph k post hd⟩

/-- events that neither register, remove nor call a trigger -/
def Ev.plain : Ev → Bool
  | .added _ _ => false
  | .removed _ _ => false
  | .ran _ _ => false
  | _ => true

theorem mem_addedKeys {ph k log} : k ∈ addedKeys ph log ↔ Ev.added ph k ∈ log := by
  unfold addedKeys
  rw [List.mem_filterMap]
  constructor
  · rintro ⟨e, he, h⟩
    cases e <;> simp [addedKey?] at h
    obtain ⟨h1, h2⟩ := h; subst h1; subst h2; exact he
  · intro h; exact ⟨_, h, by simp [addedKey?]⟩

theorem mem_allAdded {k log} : k ∈ allAdded log ↔ ∃ ph, Ev.added ph k ∈ log := by
  unfold allAdded
  rw [List.mem_filterMap]
  constructor
  · rintro ⟨e, he, h⟩
    cases e <;> simp [anyAddedKey?] at h
    subst h; exact ⟨_, he⟩
  · rintro ⟨ph, h⟩; exact ⟨_, h, by simp [anyAddedKey?]⟩

theorem addedKeys_sublist (ph log) : (addedKeys ph log).Sublist (allAdded log) := by
  induction log with
  | nil => simp [addedKeys, allAdded]
  | cons e l ih =>
    cases e <;> simp only [addedKeys, allAdded, List.filterMap_cons, addedKey?, anyAddedKey?] at ih ⊢ <;> try exact ih
    rename_i p k
    by_cases hp : p = ph
    · simp only [hp, if_true]; exact ih.cons_cons _
    · simp only [hp, if_false]; exact ih.cons _

theorem addedKeys_snoc (ph log e) :
    addedKeys ph (log ++ [e]) = addedKeys ph log ++ (match addedKey? ph e with | some k => [k] | none => []) := by
  unfold addedKeys
  rw [List.filterMap_append]
  congr 1
  simp only [List.filterMap_cons, List.filterMap_nil]
  cases addedKey? ph e <;> rfl

theorem allAdded_snoc (log e) :
    allAdded (log ++ [e]) = allAdded log ++ (match anyAddedKey? e with | some k => [k] | none => []) := by
  unfold allAdded
  rw [List.filterMap_append]
  congr 1
  simp only [List.filterMap_cons, List.filterMap_nil]
  cases anyAddedKey? e <;> rfl

theorem isDone_snoc (log e ph k) :
    isDone (log ++ [e]) ph k = (isDone log ph k || decide (e = .ran ph k) || decide (e = .removed ph k)) := by
  rw [Bool.eq_iff_iff]
  simp only [isDone, Bool.or_eq_true, List.contains_eq_mem, List.mem_append, List.mem_singleton,
    decide_eq_true_eq, beq_iff_eq]
  constructor
  · rintro ((h | h) | (h | h))
    · exact Or.inl (Or.inl (Or.inl h))
    · exact Or.inl (Or.inr h.symm)
    · exact Or.inl (Or.inl (Or.inr h))
    · exact Or.inr h.symm
  · rintro (((h | h) | h) | h)
    · exact Or.inl (Or.inl h)
    · exact Or.inr (Or.inl h)
    · exact Or.inl (Or.inr h.symm)
    · exact Or.inr (Or.inr h.symm)

theorem isDone_iff {log ph k} : isDone log ph k = true ↔ (Ev.ran ph k ∈ log ∨ Ev.removed ph k ∈ log) := by
  simp [isDone]

theorem sinceFire_snoc (log : List Ev) (e : Ev) :
    sinceFire (log ++ [e]) = if e = .fired then [] else sinceFire log ++ [e] := by
  induction log with
  | nil => by_cases h : e = .fired <;> simp [sinceFire, h]
  | cons x l ih =>
    simp only [List.cons_append, sinceFire, List.mem_append, List.mem_singleton]
    by_cases h : e = .fired
    · subst h; simp [ih]
    · have h' : ¬ Ev.fired = e := fun hh => h hh.symm
      by_cases h2 : Ev.fired ∈ l
      · simp [h2, ih, h]
      · by_cases h3 : x = .fired <;> simp [h2, h3, h, h', ih]

end TwistedProps.C12
