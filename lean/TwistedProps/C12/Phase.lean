import TwistedProps.C12.Step1
/-!
C12 — second invariant: outside the `while self.before` loop every pending before-trigger was
registered after the last `fireEvent()`; in the after loop (and when the firing is complete) the
same for during-triggers; when complete also for after-triggers.
-/
namespace TwistedProps.C12
open Twisted.Reactor.ThreePhase

/-- every key of `l` was registered (in `ph`) after the last `fireEvent()` -/
def JP (ph : Phase) (l : List Nat) (log : List Ev) : Prop := ∀ k ∈ l, Ev.added ph k ∈ sinceFire log

theorem JP.snoc {ph l log e} (h : JP ph l log) (he : e ≠ .fired) : JP ph l (log ++ [e]) := by
  intro k hk; rw [sinceFire_snoc, if_neg he]; exact List.mem_append_left _ (h k hk)
theorem JP.sub {ph l l' log} (h : JP ph l log) (hs : ∀ k ∈ l', k ∈ l) : JP ph l' log :=
  fun k hk => h k (hs k hk)
theorem JP.nil {ph log} : JP ph [] log := by intro k hk; simp at hk
theorem JP.tail {ph k l log} (h : JP ph (k :: l) log) : JP ph l log := h.sub (fun x hx => List.mem_cons_of_mem _ hx)

def P2 (pre : List Ev) (ph : Phase) (_k : Nat) : Prop :=
  (ph ≠ .before → JP .before (pend .before pre) pre) ∧ (ph = .after → JP .during (pend .during pre) pre)

def Done (s : St) : Prop := s.ctl = .idle ∧ s.waiting = []

structure G2 (s : St) : Prop where
  jb : s.ctl ≠ .runB → JP .before s.before s.log
  jd : (s.ctl = .runA ∨ Done s) → JP .during s.during s.log
  ja : Done s → JP .after s.after s.log
  runs : AllRuns P2 s.log

/-- what the loops of `_continueFiring` need on entry -/
structure Pre2 (s : St) : Prop where
  jb : JP .before s.before s.log
  runs : AllRuns P2 s.log

def Post2 (fin : St → St) : Prop :=
  ∀ s L, K s L → Pre2 s → JP .during s.during s.log → s.after = [] → G2 (fin s)

theorem g2_afterLoop {fin} (hf : Post2 fin) {s L} (hk : K s L) (h : Pre2 s)
    (hd : JP .during s.during s.log) : G2 (afterLoop fin s) := by
  unfold afterLoop
  split
  · rename_i k rest hs
    refine ⟨fun _ => h.jb.snoc (by simp), fun _ => hd.snoc (by simp), ?_, ?_⟩
    · rintro ⟨hc, _⟩; simp at hc
    · refine allRuns_snoc h.runs (fun ph' k' he => ?_)
      simp only [Ev.ran.injEq] at he
      obtain ⟨h1, h2⟩ := he; subst h1; subst h2
      refine ⟨fun _ => ?_, fun _ => ?_⟩
      · have := hk.1.lists .before; simp only [St.get] at this; rw [← this]; exact h.jb
      · have := hk.1.lists .during; simp only [St.get] at this; rw [← this]; exact hd
  · rename_i hs
    exact hf s L hk h hd hs

theorem g2_duringLoop {fin} (hf : Post2 fin) {s L} (hk : K s L) (h : Pre2 s) : G2 (duringLoop fin s) := by
  unfold duringLoop
  split
  · rename_i k rest hs
    refine ⟨fun _ => h.jb.snoc (by simp), ?_, ?_, ?_⟩
    · rintro (hc | ⟨hc, _⟩) <;> simp at hc
    · rintro ⟨hc, _⟩; simp at hc
    · refine allRuns_snoc h.runs (fun ph' k' he => ?_)
      simp only [Ev.ran.injEq] at he
      obtain ⟨h1, h2⟩ := he; subst h1; subst h2
      refine ⟨fun _ => ?_, fun hh => by cases hh⟩
      have := hk.1.lists .before; simp only [St.get] at this; rw [← this]; exact h.jb
  · rename_i hs
    exact g2_afterLoop hf hk h (by rw [hs]; exact JP.nil)

theorem post2_idle : Post2 (fun s => { s with ctl := .idle, conts := 0 }) := by
  intro s L hk h hd ha
  exact ⟨fun _ => h.jb, fun _ => hd, fun _ => by simp only [ha]; exact JP.nil, h.runs⟩

theorem g2_contLoop (n : Nat) : ∀ {s L}, K s L → Pre2 s → G2 (contLoop n s) := by
  induction n with
  | zero =>
    intro s L hk h
    unfold contLoop
    exact g2_duringLoop post2_idle (hk.same (fun ph => by cases ph <;> rfl) rfl) ⟨h.jb, h.runs⟩
  | succ n ih =>
    intro s L hk h
    unfold contLoop
    exact g2_duringLoop (fun s L hk h _ _ => ih hk h) (hk.same (fun ph => by cases ph <;> rfl) rfl) ⟨h.jb, h.runs⟩

theorem post2_finish : Post2 finish := by
  intro s L hk h hd ha
  unfold finish
  split
  · exact ⟨fun _ => h.jb, fun _ => hd, fun _ => by simp only [ha]; exact JP.nil, h.runs⟩
  · exact g2_contLoop _ hk h

theorem g2_endBefore {s L} (hk : K s L) (hb : s.before = []) (hr : AllRuns P2 s.log) : G2 (endBefore s) := by
  unfold endBefore
  simp only
  split
  · exact g2_contLoop 0 (hk.same (fun ph => by cases ph <;> rfl) rfl) ⟨by simp only [hb]; exact JP.nil, hr⟩
  · refine ⟨fun _ => by simp only [hb]; exact JP.nil, ?_, ?_, hr⟩
    · rintro (hc | ⟨_, hc⟩)
      · simp at hc
      · simp at hc
    · rintro ⟨_, hc⟩; simp at hc

theorem g2_beforeLoop {s L} (hk : K s L) (hr : AllRuns P2 s.log) : G2 (beforeLoop s) := by
  unfold beforeLoop
  split
  · rename_i k rest hs
    refine ⟨fun hc => by simp at hc, ?_, ?_, ?_⟩
    · rintro (hc | ⟨hc, _⟩) <;> simp at hc
    · rintro ⟨hc, _⟩; simp at hc
    · refine allRuns_snoc hr (fun ph' k' he => ?_)
      simp only [Ev.ran.injEq] at he
      obtain ⟨h1, h2⟩ := he; subst h1; subst h2
      exact ⟨fun hh => absurd rfl hh, fun hh => by cases hh⟩
  · rename_i hs
    exact g2_endBefore hk hs hr

theorem runs_plain {P} {log : List Ev} {e} (h : AllRuns P log) (he : Ev.plain e = true) : AllRuns P (log ++ [e]) :=
  allRuns_snoc h (fun ph k hh => by subst hh; simp [Ev.plain] at he)

/-- an op-token that changes neither lists, control nor the DeferredLists -/
theorem G2.plain {s t : St} {e} (h : G2 s) (hb : t.before = s.before) (hd : t.during = s.during)
    (ha : t.after = s.after) (hc : t.ctl = s.ctl) (hw : t.waiting = s.waiting) (hg : t.log = s.log ++ [e])
    (he : Ev.plain e = true) (hf : e ≠ .fired) : G2 t := by
  refine ⟨?_, ?_, ?_, ?_⟩
  · rw [hc, hb, hg]; exact fun x => (h.jb x).snoc hf
  · unfold Done; rw [hc, hd, hg, hw]; exact fun x => (h.jd x).snoc hf
  · unfold Done; rw [hc, ha, hg, hw]; exact fun x => (h.ja x).snoc hf
  · rw [hg]; exact runs_plain h.runs he

theorem g2_removeBase {s L} (ph k) (hk : K s L) (h : G2 s) : G2 (removeBase s ph k) := by
  simp only [removeBase]
  split
  · refine ⟨?_, ?_, ?_, ?_⟩
    · intro hc
      have := (h.jb (by cases ph <;> exact hc)).snoc (e := .removed ph k) (by simp)
      cases ph
      · exact this.sub (fun x hx => List.mem_of_mem_erase hx)
      · exact this
      · exact this
    · intro hc
      have := (h.jd (by cases ph <;> exact hc)).snoc (e := .removed ph k) (by simp)
      cases ph
      · exact this
      · exact this.sub (fun x hx => List.mem_of_mem_erase hx)
      · exact this
    · intro hc
      have := (h.ja (by cases ph <;> exact hc)).snoc (e := .removed ph k) (by simp)
      cases ph
      · exact this
      · exact this
      · exact this.sub (fun x hx => List.mem_of_mem_erase hx)
    · rw [log_emit, log_set]; exact allRuns_snoc h.runs (fun _ _ hh => by simp at hh)
  · exact h.plain rfl rfl rfl rfl rfl rfl rfl (by simp)

theorem g2_remove {s L} (ph k) (hk : K s L) (h : G2 s) : G2 (remove s ph k) := by
  simp only [remove]
  split
  · split
    · exact g2_removeBase ph k hk h
    · split
      · exact h.plain rfl rfl rfl rfl rfl rfl rfl (by simp)
      · exact g2_removeBase ph k hk h
  · exact g2_removeBase ph k hk h

theorem g2_add {s} (ph k) (h : G2 s) : G2 (step s (.add ph k)) := by
  simp only [step]
  have hm : Ev.added ph k ∈ sinceFire (s.log ++ [Ev.added ph k]) := by
    rw [sinceFire_snoc]; simp
  refine ⟨?_, ?_, ?_, ?_⟩
  · intro hc
    have := (h.jb (by cases ph <;> exact hc)).snoc (e := .added ph k) (by simp)
    cases ph
    · intro x hx
      rcases List.mem_append.1 hx with hx | hx
      · exact this x hx
      · simp at hx; subst hx; exact hm
    · exact this
    · exact this
  · intro hc
    have := (h.jd (by cases ph <;> exact hc)).snoc (e := .added ph k) (by simp)
    cases ph
    · exact this
    · intro x hx
      rcases List.mem_append.1 hx with hx | hx
      · exact this x hx
      · simp at hx; subst hx; exact hm
    · exact this
  · intro hc
    have := (h.ja (by cases ph <;> exact hc)).snoc (e := .added ph k) (by simp)
    cases ph
    · exact this
    · exact this
    · intro x hx
      rcases List.mem_append.1 hx with hx | hx
      · exact this x hx
      · simp at hx; subst hx; exact hm
  · rw [log_emit, log_set]; exact allRuns_snoc h.runs (fun _ _ hh => by simp at hh)

theorem filter_ne_nil_eq_nil {ws : List (List Nat)} (h0 : (ws.filter (· = [])).length = 0)
    (h : ws.filter (· ≠ []) = []) : ws = [] := by
  cases ws with
  | nil => rfl
  | cons w ws =>
    exfalso
    by_cases hw : w = []
    · simp [hw] at h0
    · simp [hw] at h

theorem g2_fireD {s L} (d) (hk : K s L) (h : G2 s) (hc : s.ctl = .idle) : G2 (fireD s d) := by
  simp only [fireD]
  split
  · exact h.plain rfl rfl rfl rfl rfl rfl rfl (by simp)
  · split
    · rename_i n hn
      have hn' : ((s.waiting.map fun l => l.filter (· ≠ d)).filter (· = [])).length = 0 := hn
      refine ⟨fun x => (h.jb (by simpa using x)).snoc (by simp), ?_, ?_, runs_plain h.runs rfl⟩
      · rintro (hx | ⟨_, hx⟩)
        · simp [hc] at hx
        · have hw : s.waiting = [] := by
            have := filter_ne_nil_eq_nil hn' hx
            simpa using this
          exact (h.jd (Or.inr ⟨hc, hw⟩)).snoc (by simp)
      · rintro ⟨_, hx⟩
        have hw : s.waiting = [] := by
          have := filter_ne_nil_eq_nil hn' hx
          simpa using this
        exact (h.ja ⟨hc, hw⟩).snoc (by simp)
    · exact g2_contLoop _ (hk.plain (e := .dfired d) (fun ph => by cases ph <;> rfl) rfl rfl)
        ⟨(h.jb (by simp [hc])).snoc (by simp), runs_plain h.runs rfl⟩

theorem g2_step {s L} (op : Op) (hk : K s L) (h : G2 s) : G2 (step s op) := by
  cases op with
  | add ph k => exact g2_add ph k h
  | remove ph k => exact g2_remove ph k hk h
  | fire =>
    simp only [step]; split
    · unfold fire
      exact g2_beforeLoop (hk.plain (e := .fired) (fun ph => by cases ph <;> rfl) rfl rfl) (runs_plain h.runs rfl)
    · exact h.plain rfl rfl rfl rfl rfl rfl rfl (by simp)
  | fireD d =>
    simp only [step]; split
    · rename_i hc; exact g2_fireD d hk h hc
    · split
      · exact h.plain rfl rfl rfl rfl rfl rfl rfl (by simp)
      · simp only [fireDIn]; split
        · exact h.plain rfl rfl rfl rfl rfl rfl rfl (by simp)
        · exact h.plain rfl rfl rfl rfl rfl rfl rfl (by simp)
  | ret r =>
    simp only [step]
    split
    · exact h.plain rfl rfl rfl rfl rfl rfl rfl (by simp)
    · split
      · exact g2_beforeLoop (hk.plain (e := .retB _) (fun ph => by cases ph <;> rfl) rfl rfl) (runs_plain h.runs rfl)
      · exact g2_beforeLoop (hk.plain (e := .retB none) (fun ph => get_emit _ _ _) rfl rfl) (runs_plain h.runs rfl)
    · rename_i hc
      exact g2_duringLoop post2_finish (hk.plain (e := .retO) (fun ph => get_emit _ _ _) rfl rfl)
        ⟨(h.jb (by simp [hc])).snoc (by simp), runs_plain h.runs rfl⟩
    · rename_i hc
      exact g2_afterLoop post2_finish (hk.plain (e := .retO) (fun ph => get_emit _ _ _) rfl rfl)
        ⟨(h.jb (by simp [hc])).snoc (by simp), runs_plain h.runs rfl⟩ ((h.jd (Or.inl hc)).snoc (by simp))

theorem G2_init : G2 init :=
  ⟨fun _ => JP.nil, fun _ => JP.nil, fun _ => JP.nil, allRuns_nil _⟩

theorem K_step {s L} (op : Op) (hk : K s L) (hf : ∀ ph k, op = .add ph k → k ∉ L) : ∃ L', K (step s op) L' := by
  cases op with
  | add ph k => exact ⟨_, K_step_add hk (hf ph k rfl)⟩
  | remove ph k => exact ⟨_, pres_step_nonadd _ (by intro _ _ h; cases h) _ _ hk⟩
  | fire => exact ⟨_, pres_step_nonadd _ (by intro _ _ h; cases h) _ _ hk⟩
  | fireD d => exact ⟨_, pres_step_nonadd _ (by intro _ _ h; cases h) _ _ hk⟩
  | ret r => exact ⟨_, pres_step_nonadd _ (by intro _ _ h; cases h) _ _ hk⟩

theorem G2_run (ops : List Op) (hf : Fresh ops) : G2 (run ops) := by
  induction ops using snoc_induction with
  | nil => exact G2_init
  | snoc ops op ih =>
    rw [run_snoc]
    exact g2_step op (K_run ops hf.prefix) (ih hf.prefix)

end TwistedProps.C12
