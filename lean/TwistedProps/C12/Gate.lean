import TwistedProps.C12.Phase
/-!
C12 — third invariant (the DeferredList gate): as long as `fireEvent()` is never re-entered
while an earlier firing still waits (`overlapped = false`), the during/after loops only run
when every Deferred returned by a before-trigger since the last `fireEvent()` has fired.
-/
namespace TwistedProps.C12
open Twisted.Reactor.ThreePhase

/-- every Deferred returned by a before-trigger since the last `fireEvent()` has fired -/
def GD (log : List Ev) : Prop := ∀ d, Ev.retB (some d) ∈ sinceFire log → Ev.dfired d ∈ log

def P3 (pre : List Ev) (ph : Phase) (_k : Nat) : Prop := ph ≠ .before → GD pre

/-- events that do not touch the gate -/
def Ev.quiet : Ev → Bool
  | .fired => false
  | .retB (some _) => false
  | _ => true

theorem mem_sinceFire_snoc {log : List Ev} {e x : Ev} (he : e ≠ .fired) (h : x ∈ sinceFire (log ++ [e])) :
    x ∈ sinceFire log ∨ x = e := by
  rw [sinceFire_snoc, if_neg he] at h
  rcases List.mem_append.1 h with h | h
  · exact Or.inl h
  · exact Or.inr (by simpa using h)

theorem quiet_ne_fired {e : Ev} (h : Ev.quiet e = true) : e ≠ .fired := by
  intro hh; subst hh; simp [Ev.quiet] at h

theorem GD.snoc {log e} (h : GD log) (he : Ev.quiet e = true) : GD (log ++ [e]) := by
  intro d hd
  rcases mem_sinceFire_snoc (quiet_ne_fired he) hd with hd | hd
  · exact List.mem_append_left _ (h d hd)
  · subst hd; simp [Ev.quiet] at he

structure Open (s : St) : Prop where
  w : s.waiting = []
  gd : GD s.log

def Ctl3 (s : St) : Prop :=
  match s.ctl with
  | .runB => s.inBefore = true ∧ s.waiting = [] ∧
      ∀ d, Ev.retB (some d) ∈ sinceFire s.log → (d ∈ s.results ∨ Ev.dfired d ∈ s.log)
  | .idle => (s.inBefore = false ∧ Open s) ∨
      (s.inBefore = true ∧ ∃ L, s.waiting = [L] ∧
        ∀ d, Ev.retB (some d) ∈ sinceFire s.log → (Ev.dfired d ∈ s.log ∨ d ∈ L))
  | _ => s.inBefore = false ∧ Open s

structure G3 (s : St) : Prop where
  fired : ∀ d, d ∈ s.fired ↔ Ev.dfired d ∈ s.log
  ctl : Ctl3 s
  runs : AllRuns P3 s.log

def FiredOk (s : St) : Prop := ∀ d, d ∈ s.fired ↔ Ev.dfired d ∈ s.log

def Post3 (fin : St → St) : Prop :=
  ∀ s, FiredOk s → s.inBefore = false → Open s → AllRuns P3 s.log → G3 (fin s)

theorem g3_afterLoop {fin} (hf : Post3 fin) {s} (hF : FiredOk s) (hb : s.inBefore = false) (ho : Open s)
    (hr : AllRuns P3 s.log) : G3 (afterLoop fin s) := by
  unfold afterLoop
  split
  · refine ⟨fun d => ?_, ⟨hb, ho.w, ho.gd.snoc rfl⟩, allRuns_snoc hr (fun ph k he => fun _ => ho.gd)⟩
    rw [hF d]; simp
  · exact hf s hF hb ho hr

theorem g3_duringLoop {fin} (hf : Post3 fin) {s} (hF : FiredOk s) (hb : s.inBefore = false) (ho : Open s)
    (hr : AllRuns P3 s.log) : G3 (duringLoop fin s) := by
  unfold duringLoop
  split
  · refine ⟨fun d => ?_, ⟨hb, ho.w, ho.gd.snoc rfl⟩, allRuns_snoc hr (fun ph k he => fun _ => ho.gd)⟩
    rw [hF d]; simp
  · exact g3_afterLoop hf hF hb ho hr

theorem post3_idle : Post3 (fun s => { s with ctl := .idle, conts := 0 }) :=
  fun _ hF hb ho hr => ⟨hF, Or.inl ⟨hb, ho.w, ho.gd⟩, hr⟩

theorem g3_contLoop (n : Nat) : ∀ {s}, FiredOk s → Open s → AllRuns P3 s.log → G3 (contLoop n s) := by
  induction n with
  | zero =>
    intro s hF ho hr
    unfold contLoop
    exact g3_duringLoop post3_idle hF rfl ⟨ho.w, ho.gd⟩ hr
  | succ n ih =>
    intro s hF ho hr
    unfold contLoop
    exact g3_duringLoop (fun s hF _ ho hr => ih hF ho hr) hF rfl ⟨ho.w, ho.gd⟩ hr

theorem post3_finish : Post3 finish := by
  intro s hF hb ho hr
  unfold finish
  split
  · exact ⟨hF, Or.inl ⟨hb, ho.w, ho.gd⟩, hr⟩
  · exact g3_contLoop _ hF ho hr

/-- what the `while self.before` loop maintains -/
structure InB (s : St) : Prop where
  f : FiredOk s
  b : s.inBefore = true
  w : s.waiting = []
  r : ∀ d, Ev.retB (some d) ∈ sinceFire s.log → (d ∈ s.results ∨ Ev.dfired d ∈ s.log)
  runs : AllRuns P3 s.log

theorem g3_endBefore {s} (h : InB s) : G3 (endBefore s) := by
  unfold endBefore
  simp only
  split
  · rename_i hl
    refine g3_contLoop 0 h.f ⟨h.w, fun d hd => ?_⟩ h.runs
    rcases h.r d hd with hd | hd
    · have := List.filter_eq_nil_iff.1 hl d hd
      simp only [List.contains_eq_mem, Bool.not_eq_true', decide_eq_false_iff_not] at this
      exact (h.f d).1 (Decidable.not_not.1 this)
    · exact hd
  · refine ⟨h.f, Or.inr ⟨h.b, s.results.filter (fun d => !(s.fired.contains d)), by simp [h.w], fun d hd => ?_⟩, h.runs⟩
    rcases h.r d hd with hd | hd
    · by_cases hf : d ∈ s.fired
      · exact Or.inl ((h.f d).1 hf)
      · exact Or.inr (List.mem_filter.2 ⟨hd, by simpa using hf⟩)
    · exact Or.inl hd

theorem g3_beforeLoop {s} (h : InB s) : G3 (beforeLoop s) := by
  unfold beforeLoop
  split
  · refine ⟨fun d => ?_, ⟨h.b, h.w, fun d hd => ?_⟩, allRuns_snoc h.runs (fun ph k he => ?_)⟩
    · rw [h.f d]; simp
    · rcases mem_sinceFire_snoc (by simp) hd with hd | hd
      · rcases h.r d hd with hd | hd
        · exact Or.inl hd
        · exact Or.inr (List.mem_append_left _ hd)
      · simp at hd
    · simp only [Ev.ran.injEq] at he
      intro hh; exact absurd he.1.symm hh
  · exact g3_endBefore h

/-- an op-token that touches nothing the gate depends on -/
theorem G3.plain {s t : St} {e} (h : G3 s) (hf : t.fired = s.fired) (hc : t.ctl = s.ctl)
    (hb : t.inBefore = s.inBefore) (hw : t.waiting = s.waiting) (hr : t.results = s.results)
    (hg : t.log = s.log ++ [e]) (he : ∀ ph k, e ≠ .ran ph k) (hq : Ev.quiet e = true)
    (hd : ∀ d, e ≠ .dfired d) : G3 t := by
  have hmono : ∀ d, Ev.retB (some d) ∈ sinceFire t.log → Ev.retB (some d) ∈ sinceFire s.log := by
    intro d hd'
    rw [hg] at hd'
    rcases mem_sinceFire_snoc (quiet_ne_fired hq) hd' with hd' | hd'
    · exact hd'
    · subst hd'; simp [Ev.quiet] at hq
  have hgd : GD s.log → GD t.log := fun g => by rw [hg]; exact g.snoc hq
  refine ⟨fun d => ?_, ?_, by rw [hg]; exact allRuns_snoc h.runs (fun ph k hh => absurd hh (he ph k))⟩
  · rw [hf, hg, h.fired d]
    simp only [List.mem_append, List.mem_singleton]
    constructor
    · exact Or.inl
    · rintro (hh | hh)
      · exact hh
      · exact absurd hh.symm (hd d)
  · have hc3 := h.ctl
    unfold Ctl3 at hc3 ⊢
    rw [hc]
    split at hc3
    · obtain ⟨h1, h2, h3⟩ := hc3
      refine ⟨hb ▸ h1, hw ▸ h2, fun d hd' => ?_⟩
      rcases h3 d (hmono d hd') with hh | hh
      · exact Or.inl (hr ▸ hh)
      · exact Or.inr (by rw [hg]; exact List.mem_append_left _ hh)
    · rcases hc3 with ⟨h1, h2⟩ | ⟨h1, L, h2, h3⟩
      · exact Or.inl ⟨hb ▸ h1, hw ▸ h2.w, hgd h2.gd⟩
      · refine Or.inr ⟨hb ▸ h1, L, hw ▸ h2, fun d hd' => ?_⟩
        rcases h3 d (hmono d hd') with hh | hh
        · exact Or.inl (by rw [hg]; exact List.mem_append_left _ hh)
        · exact Or.inr hh
    · exact ⟨hb ▸ hc3.1, hw ▸ hc3.2.w, hgd hc3.2.gd⟩

theorem g3_removeBase {s} (ph k) (h : G3 s) : G3 (removeBase s ph k) := by
  simp only [removeBase]
  split
  · exact h.plain (e := .removed ph k) (by cases ph <;> rfl) (by cases ph <;> rfl) (by cases ph <;> rfl)
      (by cases ph <;> rfl) (by cases ph <;> rfl) (by rw [log_emit, log_set]) (by simp) rfl (by simp)
  · exact h.plain rfl rfl rfl rfl rfl rfl (by simp) rfl (by simp)

theorem g3_remove {s} (ph k) (h : G3 s) : G3 (remove s ph k) := by
  simp only [remove]
  split
  · split
    · exact g3_removeBase ph k h
    · split
      · exact h.plain rfl rfl rfl rfl rfl rfl (by simp) rfl (by simp)
      · exact g3_removeBase ph k h
  · exact g3_removeBase ph k h

theorem g3_add {s} (ph k) (h : G3 s) : G3 (step s (.add ph k)) := by
  simp only [step]
  exact h.plain (e := .added ph k) (by cases ph <;> rfl) (by cases ph <;> rfl) (by cases ph <;> rfl)
      (by cases ph <;> rfl) (by cases ph <;> rfl) (by rw [log_emit, log_set]) (by simp) rfl (by simp)

theorem g3_fireD {s} (d) (h : G3 s) (hc : s.ctl = .idle) : G3 (fireD s d) := by
  simp only [fireD]
  split
  · exact h.plain rfl rfl rfl rfl rfl rfl (by simp) rfl (by simp)
  · rename_i hnf
    have hF : ∀ d', d' ∈ s.fired ++ [d] ↔ Ev.dfired d' ∈ s.log ++ [Ev.dfired d] := by
      intro d'
      simp only [List.mem_append, List.mem_singleton, Ev.dfired.injEq, h.fired d']
    have hmono : ∀ d', Ev.retB (some d') ∈ sinceFire (s.log ++ [Ev.dfired d]) →
        Ev.retB (some d') ∈ sinceFire s.log := by
      intro d' hd'
      rcases mem_sinceFire_snoc (by simp) hd' with hd' | hd'
      · exact hd'
      · simp at hd'
    have hc3 := h.ctl
    unfold Ctl3 at hc3
    rw [hc] at hc3
    simp only at hc3
    rcases hc3 with ⟨h1, h2⟩ | ⟨h1, L, h2, h3⟩
    · -- nothing is waiting
      simp only [h2.w, List.map_nil, List.filter_nil, List.length_nil]
      refine ⟨hF, ?_, runs_plain h.runs rfl⟩
      unfold Ctl3
      simp only [hc]
      exact Or.inl ⟨h1, by simp [h2.w], h2.gd.snoc rfl⟩
    · simp only [h2, List.map_cons, List.map_nil]
      by_cases hL : L.filter (fun x => decide (x ≠ d)) = []
      · -- the DeferredList completes now
        simp only [hL, List.filter_cons, decide_true, if_true, List.filter_nil, List.length_cons,
          List.length_nil, ne_eq, not_true_eq_false, decide_false, Bool.false_eq_true, if_false]
        refine g3_contLoop 0 hF ⟨rfl, fun d' hd' => ?_⟩ (runs_plain h.runs rfl)
        rcases h3 d' (hmono d' hd') with hh | hh
        · exact List.mem_append_left _ hh
        · have := List.filter_eq_nil_iff.1 hL d' hh
          simp only [ne_eq, decide_not, Bool.not_eq_true', decide_eq_false_iff_not] at this
          have : d' = d := Decidable.not_not.1 this
          subst this; simp
      · simp only [hL, List.filter_cons, decide_false, Bool.false_eq_true, if_false, List.filter_nil,
          List.length_nil, ne_eq, not_false_eq_true, decide_true, if_true]
        refine ⟨hF, ?_, runs_plain h.runs rfl⟩
        unfold Ctl3
        simp only [hc]
        refine Or.inr ⟨h1, _, rfl, fun d' hd' => ?_⟩
        rcases h3 d' (hmono d' hd') with hh | hh
        · exact Or.inl (List.mem_append_left _ hh)
        · by_cases hdd : d' = d
          · subst hdd; exact Or.inl (by simp)
          · exact Or.inr (List.mem_filter.2 ⟨hh, by simpa using hdd⟩)

/-! `overlapped` is only ever written by `fire` -/
def Ovl (f : St → St) : Prop := ∀ s, (f s).overlapped = s.overlapped

theorem ovl_afterLoop {fin} (hf : Ovl fin) : Ovl (afterLoop fin) := by
  intro s; unfold afterLoop; split
  · rfl
  · exact hf s
theorem ovl_duringLoop {fin} (hf : Ovl fin) : Ovl (duringLoop fin) := by
  intro s; unfold duringLoop; split
  · rfl
  · exact ovl_afterLoop hf s
theorem ovl_contLoop (n : Nat) : Ovl (contLoop n) := by
  induction n with
  | zero =>
    intro s; unfold contLoop
    exact ovl_duringLoop (fin := fun s => { s with ctl := .idle, conts := 0 }) (fun _ => rfl) _
  | succ n ih => intro s; unfold contLoop; exact ovl_duringLoop ih _
theorem ovl_finish : Ovl finish := by
  intro s; unfold finish; split
  · rfl
  · exact ovl_contLoop _ s
theorem ovl_endBefore : Ovl endBefore := by
  intro s; unfold endBefore; simp only; split
  · exact ovl_contLoop 0 _
  · rfl
theorem ovl_beforeLoop : Ovl beforeLoop := by
  intro s; unfold beforeLoop; split
  · rfl
  · exact ovl_endBefore s
theorem ovl_removeBase (ph k) : Ovl (fun s => removeBase s ph k) := by
  intro s; simp only [removeBase]; split <;> cases ph <;> rfl
theorem ovl_remove (ph k) : Ovl (fun s => remove s ph k) := by
  intro s; simp only [remove]
  split
  · split
    · exact ovl_removeBase ph k s
    · split
      · rfl
      · exact ovl_removeBase ph k s
  · exact ovl_removeBase ph k s
theorem ovl_fireD (d) : Ovl (fun s => fireD s d) := by
  intro s; simp only [fireD]; split
  · rfl
  · split
    · rfl
    · exact ovl_contLoop _ _

theorem ovl_fireDIn (d) : Ovl (fun s => fireDIn s d) := by
  intro s; simp only [fireDIn]; split <;> rfl

/-- a Deferred fired from inside a trigger body (no DeferredList is waiting then: `Ctl3`) -/
theorem g3_fireDIn {s} (d) (h : G3 s) (hc : s.ctl ≠ .idle) : G3 (fireDIn s d) := by
  simp only [fireDIn]
  split
  · exact h.plain rfl rfl rfl rfl rfl rfl (by simp) rfl (by simp)
  · have hF : ∀ d', d' ∈ s.fired ++ [d] ↔ Ev.dfired d' ∈ s.log ++ [Ev.dfired d] := by
      intro d'
      simp only [List.mem_append, List.mem_singleton, Ev.dfired.injEq, h.fired d']
    have hmono : ∀ d', Ev.retB (some d') ∈ sinceFire (s.log ++ [Ev.dfired d]) →
        Ev.retB (some d') ∈ sinceFire s.log := by
      intro d' hd'
      rcases mem_sinceFire_snoc (by simp) hd' with hd' | hd'
      · exact hd'
      · simp at hd'
    refine ⟨hF, ?_, runs_plain h.runs rfl⟩
    have hc3 := h.ctl
    unfold Ctl3 at hc3 ⊢
    simp only
    split at hc3
    · obtain ⟨h1, h2, h3⟩ := hc3
      refine ⟨h1, h2, fun d' hd' => ?_⟩
      rcases h3 d' (hmono d' hd') with hh | hh
      · exact Or.inl hh
      · exact Or.inr (List.mem_append_left _ hh)
    · rename_i hi; exact absurd hi hc
    · exact ⟨hc3.1, hc3.2.w, hc3.2.gd.snoc rfl⟩

theorem g3_retB_some {s} (d) (g : G3 s) (hc : s.ctl = .runB) :
    G3 (beforeLoop { s with results := s.results ++ [d], log := s.log ++ [.retB (some d)] }) := by
  have hc3 := g.ctl
  unfold Ctl3 at hc3
  rw [hc] at hc3
  simp only at hc3
  obtain ⟨h1, h2, h3⟩ := hc3
  refine g3_beforeLoop ⟨fun d' => ?_, h1, h2, fun d' hd' => ?_, runs_plain g.runs rfl⟩
  · rw [g.fired d']; simp
  · simp only at hd' ⊢
    rcases mem_sinceFire_snoc (by simp) hd' with hd' | hd'
    · rcases h3 d' hd' with hh | hh
      · exact Or.inl (List.mem_append_left _ hh)
      · exact Or.inr (List.mem_append_left _ hh)
    · simp only [Ev.retB.injEq, Option.some.injEq] at hd'
      subst hd'; exact Or.inl (by simp)

theorem g3_retB_none {s} (g : G3 s) (hc : s.ctl = .runB) : G3 (beforeLoop (s.emit (.retB none))) := by
  have hc3 := g.ctl
  unfold Ctl3 at hc3
  rw [hc] at hc3
  simp only at hc3
  obtain ⟨h1, h2, h3⟩ := hc3
  refine g3_beforeLoop ⟨fun d' => ?_, h1, h2, fun d' hd' => ?_, runs_plain g.runs rfl⟩
  · rw [log_emit]; have := g.fired d'; simp [St.emit, this]
  · rw [log_emit] at hd' ⊢
    rcases mem_sinceFire_snoc (by simp) hd' with hd' | hd'
    · rcases h3 d' hd' with hh | hh
      · exact Or.inl hh
      · exact Or.inr (List.mem_append_left _ hh)
    · simp at hd'

/-- the gate invariant, conditional on no overlapping firing so far -/
def G3' (s : St) : Prop := s.overlapped = false → G3 s

theorem g3_step {s} (op : Op) (h : G3' s) : G3' (step s op) := by
  intro hno
  cases op with
  | add ph k =>
    have : s.overlapped = false := by
      simp only [step] at hno; cases ph <;> exact hno
    exact g3_add ph k (h this)
  | remove ph k =>
    have : s.overlapped = false := by
      simp only [step] at hno; rw [ovl_remove ph k s] at hno; exact hno
    exact g3_remove ph k (h this)
  | fire =>
    simp only [step] at hno ⊢
    split
    · rename_i hc
      rw [if_pos hc] at hno
      unfold fire at hno ⊢
      rw [ovl_beforeLoop] at hno
      simp only [Bool.or_eq_false_iff] at hno
      have g := h hno.1
      have hc3 := g.ctl
      unfold Ctl3 at hc3
      rw [hc] at hc3
      simp only at hc3
      rcases hc3 with ⟨h1, h2⟩ | ⟨h1, _⟩
      · refine g3_beforeLoop ⟨fun d => ?_, rfl, h2.w, fun d hd => ?_, runs_plain g.runs rfl⟩
        · rw [g.fired d]; simp
        · simp only at hd; rw [sinceFire_snoc, if_pos rfl] at hd; simp at hd
      · rw [hno.2] at h1; cases h1
    · rename_i hc
      rw [if_neg hc] at hno
      exact (h hno).plain rfl rfl rfl rfl rfl rfl (by simp) rfl (by simp)
  | fireD d =>
    simp only [step] at hno ⊢
    split
    · rename_i hc
      rw [if_pos hc] at hno
      rw [ovl_fireD d s] at hno
      exact g3_fireD d (h hno) hc
    · rename_i hc
      rw [if_neg hc] at hno
      split
      · rename_i ho
        rw [if_pos ho] at hno
        exact (h hno).plain rfl rfl rfl rfl rfl rfl (by simp) rfl (by simp)
      · rename_i ho
        rw [if_neg ho] at hno
        rw [ovl_fireDIn d s] at hno
        exact g3_fireDIn d (h hno) hc
  | ret r =>
    simp only [step] at hno ⊢
    split
    · rename_i hc
      simp only [hc] at hno
      exact (h hno).plain rfl rfl rfl rfl rfl rfl (by simp) rfl (by simp)
    · rename_i hc
      simp only [hc] at hno
      cases r with
      | deferred d =>
        simp only at hno ⊢
        rw [ovl_beforeLoop] at hno
        exact g3_retB_some d (h hno) hc
      | none =>
        simp only at hno ⊢
        rw [ovl_beforeLoop] at hno
        exact g3_retB_none (h hno) hc
      | raise =>
        simp only at hno ⊢
        rw [ovl_beforeLoop] at hno
        exact g3_retB_none (h hno) hc
    · rename_i hc
      simp only [hc] at hno
      rw [ovl_duringLoop ovl_finish] at hno
      have g := h hno
      have hc3 := g.ctl
      unfold Ctl3 at hc3
      rw [hc] at hc3
      simp only at hc3
      refine g3_duringLoop post3_finish (fun d' => ?_) hc3.1 ⟨hc3.2.w, hc3.2.gd.snoc rfl⟩ (runs_plain g.runs rfl)
      rw [log_emit]; have := g.fired d'; simp [St.emit, this]
    · rename_i hc
      simp only [hc] at hno
      rw [ovl_afterLoop ovl_finish] at hno
      have g := h hno
      have hc3 := g.ctl
      unfold Ctl3 at hc3
      rw [hc] at hc3
      simp only at hc3
      refine g3_afterLoop post3_finish (fun d' => ?_) hc3.1 ⟨hc3.2.w, hc3.2.gd.snoc rfl⟩ (runs_plain g.runs rfl)
      rw [log_emit]; have := g.fired d'; simp [St.emit, this]

theorem G3_init : G3 init := by
  refine ⟨fun d => by simp [init], ?_, allRuns_nil _⟩
  unfold Ctl3
  exact Or.inl ⟨rfl, rfl, fun d hd => by simp [init, sinceFire] at hd⟩

theorem G3_run (ops : List Op) : G3' (run ops) := by
  induction ops using snoc_induction with
  | nil => exact fun _ => G3_init
  | snoc ops op ih => rw [run_snoc]; exact g3_step op ih

end TwistedProps.C12
