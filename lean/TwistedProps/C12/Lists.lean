import TwistedProps.C12.Log
/-!
C12 — first invariant: the three lists of the event are exactly "registered, not yet called,
not removed, in registration order" (as functions of the log), and what that gives for every
call of a trigger.
-/
namespace TwistedProps.C12
open Twisted.Reactor.ThreePhase

theorem pend_snoc (ph log e) :
    pend ph (log ++ [e]) =
      (addedKeys ph log ++ (match addedKey? ph e with | some k => [k] | none => [])).filter
        (fun x => !(isDone log ph x || decide (e = .ran ph x) || decide (e = .removed ph x))) := by
  unfold pend
  rw [addedKeys_snoc]
  congr 1
  funext x
  rw [isDone_snoc]

theorem pend_snoc_plain {ph log e} (he : Ev.plain e = true) : pend ph (log ++ [e]) = pend ph log := by
  rw [pend_snoc]
  cases e <;> simp [Ev.plain] at he <;> simp [addedKey?, pend]

theorem pend_snoc_added_other {ph ph' log k} (h : ph' ≠ ph) :
    pend ph' (log ++ [.added ph k]) = pend ph' log := by
  rw [pend_snoc]; simp [addedKey?, pend, Ne.symm h]

theorem pend_snoc_added {ph log k} (h : isDone log ph k = false) :
    pend ph (log ++ [.added ph k]) = pend ph log ++ [k] := by
  rw [pend_snoc]; simp [addedKey?, pend, h]

theorem pend_snoc_done_other {ph ph' log k e} (he : e = .ran ph k ∨ e = .removed ph k) (h : ph' ≠ ph) :
    pend ph' (log ++ [e]) = pend ph' log := by
  rw [pend_snoc]
  rcases he with he | he <;> subst he <;> simp [addedKey?, pend, Ne.symm h]

theorem pend_snoc_done {ph log k e} (he : e = .ran ph k ∨ e = .removed ph k) :
    pend ph (log ++ [e]) = (pend ph log).filter (· ≠ k) := by
  rw [pend_snoc]
  rcases he with he | he <;> subst he <;> simp only [addedKey?, pend, List.filter_filter, List.append_nil] <;>
    (congr 1; funext x; by_cases hx : x = k
     · simp [hx]
     · have hx' : ¬ k = x := fun h => hx h.symm
       simp [hx, hx'])

/-- what holds, in terms of the log before it, at every call of a trigger -/
def P1 (pre : List Ev) (ph : Phase) (k : Nat) : Prop :=
  Ev.added ph k ∈ pre ∧ isDone pre ph k = false ∧
  ∀ l1 l2, addedKeys ph pre = l1 ++ k :: l2 → ∀ k' ∈ l1, isDone pre ph k' = true

structure G1 (s : St) : Prop where
  lists : ∀ ph, s.get ph = pend ph s.log
  nodup : (allAdded s.log).Nodup
  remAdded : ∀ ph k, Ev.removed ph k ∈ s.log → Ev.added ph k ∈ s.log
  runs : AllRuns P1 s.log

theorem G1.ranAdded {s} (h : G1 s) {ph k} (hr : Ev.ran ph k ∈ s.log) : Ev.added ph k ∈ s.log := by
  obtain ⟨pre, post, hd⟩ := List.append_of_mem hr
  have := (h.runs pre ph k post hd).1
  rw [hd]; exact List.mem_append_left _ this

theorem G1.notDone_of_fresh {s} (h : G1 s) {ph k} (hk : k ∉ allAdded s.log) : isDone s.log ph k = false := by
  cases hd : isDone s.log ph k with
  | false => rfl
  | true =>
    exfalso; apply hk
    rcases isDone_iff.1 hd with hr | hr
    · exact mem_allAdded.2 ⟨ph, h.ranAdded hr⟩
    · exact mem_allAdded.2 ⟨ph, h.remAdded _ _ hr⟩

theorem G1.pend_nodup {s} (h : G1 s) (ph) : (pend ph s.log).Nodup :=
  ((List.filter_sublist).trans (addedKeys_sublist ph s.log)).nodup h.nodup

theorem G1.same {s t : St} (h : G1 s) (hl : ∀ ph, t.get ph = s.get ph) (hg : t.log = s.log) : G1 t :=
  ⟨fun ph => by rw [hl, hg]; exact h.lists ph, by rw [hg]; exact h.nodup,
   by rw [hg]; exact h.remAdded, by rw [hg]; exact h.runs⟩

theorem G1.plain {s t : St} {e} (h : G1 s) (hl : ∀ ph, t.get ph = s.get ph) (hg : t.log = s.log ++ [e])
    (he : Ev.plain e = true) : G1 t := by
  refine ⟨fun ph => ?_, ?_, ?_, ?_⟩
  · rw [hl, hg, pend_snoc_plain he]; exact h.lists ph
  · rw [hg, allAdded_snoc]; cases e <;> simp [Ev.plain] at he <;> simpa [anyAddedKey?] using h.nodup
  · intro ph k hm
    rw [hg] at hm ⊢
    rcases List.mem_append.1 hm with hm | hm
    · exact List.mem_append_left _ (h.remAdded _ _ hm)
    · simp at hm; subst hm; simp [Ev.plain] at he
  · rw [hg]; exact allRuns_snoc h.runs (fun ph k hh => by subst hh; simp [Ev.plain] at he)

theorem G1.add {s t : St} {ph k} (h : G1 s) (hk : k ∉ allAdded s.log)
    (hl : t.get ph = s.get ph ++ [k]) (hl' : ∀ ph', ph' ≠ ph → t.get ph' = s.get ph')
    (hg : t.log = s.log ++ [.added ph k]) : G1 t := by
  refine ⟨fun ph' => ?_, ?_, ?_, ?_⟩
  · by_cases hp : ph' = ph
    · subst hp; rw [hl, hg, pend_snoc_added (h.notDone_of_fresh hk), h.lists]
    · rw [hl' _ hp, hg, pend_snoc_added_other hp, h.lists]
  · rw [hg, allAdded_snoc]
    simp only [anyAddedKey?]
    exact List.nodup_append.2 ⟨h.nodup, by simp, by simpa using fun a ha (hh : a = k) => hk (hh ▸ ha)⟩
  · intro ph' k' hm
    rw [hg] at hm ⊢
    rcases List.mem_append.1 hm with hm | hm
    · exact List.mem_append_left _ (h.remAdded _ _ hm)
    · simp at hm
  · rw [hg]; exact allRuns_snoc h.runs (fun ph k hh => by simp at hh)

theorem G1.rem {s t : St} {ph k} (h : G1 s) (hk : k ∈ s.get ph)
    (hl : t.get ph = (s.get ph).erase k) (hl' : ∀ ph', ph' ≠ ph → t.get ph' = s.get ph')
    (hg : t.log = s.log ++ [.removed ph k]) : G1 t := by
  refine ⟨fun ph' => ?_, ?_, ?_, ?_⟩
  · by_cases hp : ph' = ph
    · subst hp
      rw [hl, hg, pend_snoc_done (Or.inr rfl), h.lists, (h.pend_nodup _).erase_eq_filter]
      congr 1; funext x; by_cases hx : x = k <;> simp [hx]
    · rw [hl' _ hp, hg, pend_snoc_done_other (Or.inr rfl) hp, h.lists]
  · rw [hg, allAdded_snoc]; simpa [anyAddedKey?] using h.nodup
  · intro ph' k' hm
    rw [hg] at hm ⊢
    rcases List.mem_append.1 hm with hm | hm
    · exact List.mem_append_left _ (h.remAdded _ _ hm)
    · simp at hm
      obtain ⟨h1, h2⟩ := hm; subst h1; subst h2
      apply List.mem_append_left
      rw [h.lists] at hk
      exact mem_addedKeys.1 (List.mem_filter.1 hk).1
  · rw [hg]; exact allRuns_snoc h.runs (fun ph k hh => by simp at hh)

theorem G1.pop {s t : St} {ph k rest} (h : G1 s) (hs : s.get ph = k :: rest)
    (hl : t.get ph = rest) (hl' : ∀ ph', ph' ≠ ph → t.get ph' = s.get ph')
    (hg : t.log = s.log ++ [.ran ph k]) : G1 t := by
  have hp := h.lists ph
  rw [hs] at hp
  have hnd := h.pend_nodup ph
  rw [← hp] at hnd
  have hkm : k ∈ pend ph s.log := by rw [← hp]; simp
  refine ⟨fun ph' => ?_, ?_, ?_, ?_⟩
  · by_cases hpp : ph' = ph
    · subst hpp
      rw [hl, hg, pend_snoc_done (Or.inl rfl), ← hp]
      have hk : k ∉ rest := (List.nodup_cons.1 hnd).1
      simp only [List.filter_cons, ne_eq, not_true_eq_false, decide_false]
      simp only [Bool.false_eq_true, if_false]
      symm
      rw [List.filter_eq_self]
      intro a ha
      simp only [decide_eq_true_eq]
      intro hh; exact hk (hh ▸ ha)
    · rw [hl' _ hpp, hg, pend_snoc_done_other (Or.inl rfl) hpp, h.lists]
  · rw [hg, allAdded_snoc]; simpa [anyAddedKey?] using h.nodup
  · intro ph' k' hm
    rw [hg] at hm ⊢
    rcases List.mem_append.1 hm with hm | hm
    · exact List.mem_append_left _ (h.remAdded _ _ hm)
    · simp at hm
  · rw [hg]
    refine allRuns_snoc h.runs (fun ph' k' hh => ?_)
    simp only [Ev.ran.injEq] at hh
    obtain ⟨h1, h2⟩ := hh; subst h1; subst h2
    have hf := List.mem_filter.1 hkm
    refine ⟨mem_addedKeys.1 hf.1, by simpa using hf.2, ?_⟩
    intro l1 l2 hd k' hk'
    -- the pending list starts with k, so nothing before k in registration order is pending
    have hpe : pend ph s.log = (l1.filter fun x => !isDone s.log ph x) ++
        ((k :: l2).filter fun x => !isDone s.log ph x) := by
      unfold pend; rw [hd, List.filter_append]
    have hnd2 : (l1 ++ k :: l2).Nodup := by
      rw [← hd]; exact (addedKeys_sublist ph s.log).nodup h.nodup
    have hk1 : k ∉ l1 := by
      intro hh
      have := List.nodup_append.1 hnd2
      exact this.2.2 k hh k (by simp) rfl
    cases hf1 : l1.filter (fun x => !isDone s.log ph x) with
    | nil =>
      have := List.filter_eq_nil_iff.1 hf1 k' hk'
      simpa using this
    | cons x xs =>
      exfalso
      rw [hf1, ← hp] at hpe
      simp only [List.cons_append, List.cons.injEq] at hpe
      have : x ∈ l1 := (List.mem_filter.1 (hf1 ▸ List.mem_cons_self)).1
      exact hk1 (hpe.1 ▸ this)

end TwistedProps.C12
