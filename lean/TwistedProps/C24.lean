import TwistedProps.C24.Body
import TwistedProps.C24.Safety
/-!
C24 — HTTP client requests serialise to exactly the intended message.

Writer: the model of `Request.writeTo` & co. (`TwistedModel/Http/ClientRequest.lean`, tied to
`_newclient.py` by the correspondence check).  Reader: `RequestParser.parseRequest`, an RFC 9112
request parser written from the grammar (`TwistedModel/Http/RequestParser.lean`); it accepts
its input only as exactly ONE complete message (left-over bytes are `trailing`, a short message is
`incomplete`).

Preconditions of the statement, as decidable predicates (`C24/Head.lean`, `C24/Lines.lean`):
* `validReq r`: `istoken r.method` (the method is an RFC 9110 token — `tokenByte_eq_tchar` shows
  Twisted's table is `tchar`), `validURI r.uri` (1*VCHAR), exactly one `Host` value, and
  `validStore r.headers`: every field name is a token, every value is a `fieldValue`
  (field-vchar / SP / HTAB, no blank at either end), and the caller supplies no Content-Length /
  Transfer-Encoding field of its own.
* body: absent; or a well-behaved producer script `goodScript early ws1 ws2` (any writes `ws1`
  inside `startProducing`, any writes `ws2` after it, empty writes included, then success —
  signalled before (`early`) or after `startProducing` returns); for a known length `L` the
  writes total `L`.
-/
namespace TwistedProps.C24
open Twisted.Py Twisted.Http Twisted.Http.ClientRequest Twisted.Http.RequestParser

/-- the one request an independent reader has to see: method, target, the field lines
    (`Connection: close` unless persistent, the framing field, then the caller's fields in store
    order, names and values byte for byte), the framing and the body -/
def expected (r : Req) (framingFields : List (Bytes × Bytes)) (fr : Framing) (body : Bytes) : Parsed :=
  { method := r.method, target := r.uri,
    headers := connFields r.persistent ++ framingFields ++ fieldsOf r.headers,
    framing := fr, body := body }

/-- **Unknown length.** For every valid request and every well-behaved producer (all write sizes,
    empty writes, any split between synchronous and asynchronous writes, early or late success)
    `writeTo` succeeds, unregisters the producer, and the bytes on the transport are exactly one
    request with that method, target and fields, `Transfer-Encoding: chunked`, whose decoded body
    is the concatenation of the writes. -/
theorem serialises_to_one_request_chunked (r : Req) (hv : validReq r = true)
    (early : Bool) (ws1 ws2 : List Bytes) :
    ∃ s, writeTo r .unknown (goodScript early ws1 ws2) = .ok s ∧ s.outcome = .ok ∧ s.registered = false ∧
      parseRequest s.out = .ok (expected r [teField] .chunked (ws1 ++ ws2).flatten) := by
  have e : ClientRequest.ofStr "Transfer-Encoding: chunked\r\n" = fieldBytes [teField] := by decide
  obtain ⟨s, hs, hout, hok, hreg⟩ := ch_good early ws1 ws2
    (headOf r.method r.uri (connFields r.persistent ++ [teField] ++ fieldsOf r.headers))
  refine ⟨s, ?_, hok, hreg, ?_⟩
  · simp only [writeTo, e, headerBlock_eq r hv, Except.map, hs]
  · have hm : istoken r.method = true ∧ validURI r.uri = true := by
      simp only [validReq, Bool.and_eq_true] at hv; exact ⟨hv.1.1.1, hv.1.1.2⟩
    rw [hout, List.append_assoc, parseRequest_head _ _ _ _ hm.1 hm.2
      (fields_valid r hv [teField] (by intro p hp; simp at hp; subst hp; exact teField_valid)),
      parseBody_chunked r hv]
    rfl

/-- **Known length.** For every valid request and every well-behaved producer whose writes total the
    declared length, the bytes are exactly one request framed by `Content-Length: <length>` whose
    body is the concatenation of the writes. -/
theorem serialises_to_one_request_known_length (r : Req) (hv : validReq r = true)
    (early : Bool) (ws1 ws2 : List Bytes) :
    ∃ s, writeTo r (.known (ws1 ++ ws2).flatten.length) (goodScript early ws1 ws2) = .ok s ∧
      s.outcome = .ok ∧ s.registered = false ∧
      parseRequest s.out = .ok (expected r [clField (ws1 ++ ws2).flatten.length]
        (.contentLength (ws1 ++ ws2).flatten.length) (ws1 ++ ws2).flatten) := by
  have e : ∀ n, ClientRequest.ofStr "Content-Length: " ++ decimal n ++ crlf = fieldBytes [clField n] := by
    intro n
    have : ClientRequest.ofStr "Content-Length: " =
        ClientRequest.ofStr "Content-Length" ++ ClientRequest.ofStr ": " := by decide
    simp [fieldBytes, lineOf, clField, this]
  obtain ⟨s, hs, hout, hok, hreg⟩ := cl_good early ws1 ws2
    (headOf r.method r.uri (connFields r.persistent ++ [clField (ws1 ++ ws2).flatten.length] ++ fieldsOf r.headers))
  refine ⟨s, ?_, hok, hreg, ?_⟩
  · simp only [writeTo, e, headerBlock_eq r hv, Except.map, hs]
  · have hm : istoken r.method = true ∧ validURI r.uri = true := by
      simp only [validReq, Bool.and_eq_true] at hv; exact ⟨hv.1.1.1, hv.1.1.2⟩
    rw [hout, parseRequest_head _ _ _ _ hm.1 hm.2
      (fields_valid r hv [clField _] (by intro p hp; simp at hp; subst hp; exact clField_valid _)),
      parseBody_cl r hv]
    rfl

/-- **No body.** A valid request without a body producer is written as exactly one request with an
    empty body: with `Content-Length: 0` for PUT and POST, without any framing field otherwise. -/
theorem serialises_to_one_request_no_body (r : Req) (hv : validReq r = true) :
    ∃ s, writeTo r .none [] = .ok s ∧ s.outcome = .ok ∧ s.registered = false ∧
      parseRequest s.out = .ok
        (if r.method = ClientRequest.ofStr "PUT" ∨ r.method = ClientRequest.ofStr "POST"
         then expected r [clField 0] (.contentLength 0) [] else expected r [] .none []) := by
  have hm : istoken r.method = true ∧ validURI r.uri = true := by
    simp only [validReq, Bool.and_eq_true] at hv; exact ⟨hv.1.1.1, hv.1.1.2⟩
  have e0 : ClientRequest.ofStr "Content-Length: 0\r\n" = fieldBytes [clField 0] := by
    simp only [fieldBytes, lineOf, clField, decimal_zero]; decide
  have en : ([] : Bytes) = fieldBytes [] := rfl
  by_cases hp : r.method = ClientRequest.ofStr "PUT" ∨ r.method = ClientRequest.ofStr "POST"
  · refine ⟨{ out := headOf r.method r.uri (connFields r.persistent ++ [clField 0] ++ fieldsOf r.headers),
              outcome := .ok }, ?_, rfl, rfl, ?_⟩
    · simp only [writeTo, hp, if_true, e0, headerBlock_eq r hv, Except.map]
    · simp only [hp, if_true]
      have := parseRequest_head r.method r.uri _ [] hm.1 hm.2
        (fields_valid r hv [clField 0] (by intro p hp; simp at hp; subst hp; exact clField_valid _))
      rw [List.append_nil] at this
      rw [this]
      have := parseBody_cl r hv []
      simp only [List.length_nil] at this
      rw [this]; rfl
  · refine ⟨{ out := headOf r.method r.uri (connFields r.persistent ++ [] ++ fieldsOf r.headers),
              outcome := .ok }, ?_, rfl, rfl, ?_⟩
    · simp only [writeTo, hp, if_false]
      rw [en, headerBlock_eq r hv]; rfl
    · simp only [hp, if_false]
      have := parseRequest_head r.method r.uri _ [] hm.1 hm.2
        (fields_valid r hv [] (by intro p hp; simp at hp))
      rw [List.append_nil] at this
      rw [this, parseBody_none r hv]; rfl

/-- **Refusal.** If the method or the target is invalid — as given to the constructor, or as assigned
    to `.method` / `.uri` afterwards — nothing is written: the run ends in an exception
    (`ValueError`, or `BadHeaders` when the Host check fails first) raised before `_writeHeaders`
    reaches `transport.writeSequence`; there is no transport state (`St`) at all, for every header
    store, body kind and producer script. -/
theorem invalid_method_or_target_refused_before_any_write
    (m u : Bytes) (m2 u2 : Option Bytes) (h : HeaderStore) (p : Bool) (body : Body) (script : List Ev)
    (hbad : ¬ (istoken m = true ∧ validURI u = true ∧
               istoken (m2.getD m) = true ∧ validURI (u2.getD u) = true)) :
    ∃ e, run m u m2 u2 h p body script = .error e := by
  unfold run construct
  by_cases h1 : istoken m = true
  · by_cases h2 : validURI u = true
    · have h34 : ¬ (istoken (m2.getD m) = true ∧ validURI (u2.getD u) = true) :=
        fun h34 => hbad ⟨h1, h2, h34⟩
      simp only [h1, h2, Bool.not_true, Bool.false_eq_true, if_false]
      show ∃ e, writeTo _ body script = .error e
      have hb : ∀ te, ∃ e, headerBlock
          { method := m2.getD m, uri := u2.getD u, headers := h, persistent := p : Req } te = .error e := by
        intro te
        unfold headerBlock
        by_cases hh : (getRaw h (ClientRequest.ofStr "Host")).length ≠ 1
        · exact ⟨.badHeaders, by simp [hh]⟩
        · by_cases h3 : istoken (m2.getD m) = true
          · have h4 : validURI (u2.getD u) ≠ true := fun h4 => h34 ⟨h3, h4⟩
            exact ⟨.valueError, by simp [hh, h3, h4]⟩
          · exact ⟨.valueError, by simp [hh, h3]⟩
      cases body with
      | none =>
        obtain ⟨e, he⟩ := hb (if m2.getD m = ClientRequest.ofStr "PUT" ∨ m2.getD m = ClientRequest.ofStr "POST"
          then ClientRequest.ofStr "Content-Length: 0\r\n" else [])
        exact ⟨e, by simp only [writeTo, he, Except.map]⟩
      | unknown =>
        obtain ⟨e, he⟩ := hb (ClientRequest.ofStr "Transfer-Encoding: chunked\r\n")
        exact ⟨e, by simp only [writeTo, he, Except.map]⟩
      | known n =>
        obtain ⟨e, he⟩ := hb (ClientRequest.ofStr "Content-Length: " ++ decimal n ++ crlf)
        exact ⟨e, by simp only [writeTo, he, Except.map]⟩
    · exact ⟨.valueError, by simp [h1, h2]; rfl⟩
  · exact ⟨.valueError, by simp [h1]; rfl⟩

/-- … and a valid request with exactly one Host value is never refused, whatever the producer does -/
theorem valid_request_not_refused (m u : Bytes) (h : HeaderStore) (p : Bool) (body : Body) (script : List Ev)
    (hm : istoken m = true) (hu : validURI u = true)
    (hh : (getRaw h (ClientRequest.ofStr "Host")).length = 1) :
    ∃ s, run m u none none h p body script = .ok s := by
  have hb : ∀ te, ∃ b, headerBlock { method := m, uri := u, headers := h, persistent := p : Req } te = .ok b := by
    intro te
    unfold headerBlock
    simp only [hh, ne_eq, not_true_eq_false, if_false, hm, hu, Bool.not_true, Bool.false_eq_true]
    exact ⟨_, rfl⟩
  unfold run construct
  simp only [hm, hu, Bool.not_true, Bool.false_eq_true, if_false]
  show ∃ s, writeTo _ body script = .ok s
  cases body with
  | none =>
    obtain ⟨b, he⟩ := hb (if m = ClientRequest.ofStr "PUT" ∨ m = ClientRequest.ofStr "POST"
      then ClientRequest.ofStr "Content-Length: 0\r\n" else [])
    exact ⟨_, by simp only [writeTo, Option.getD_none, he, Except.map]; rfl⟩
  | unknown =>
    obtain ⟨b, he⟩ := hb (ClientRequest.ofStr "Transfer-Encoding: chunked\r\n")
    exact ⟨_, by simp only [writeTo, Option.getD_none, he, Except.map]; rfl⟩
  | known n =>
    obtain ⟨b, he⟩ := hb (ClientRequest.ofStr "Content-Length: " ++ decimal n ++ crlf)
    exact ⟨_, by simp only [writeTo, Option.getD_none, he, Except.map]; rfl⟩

/-- **Content-Length is never overrun — for EVERY producer script** (too many bytes, writes after the
    end, failures, never finishing, any interleaving with `startProducing` returning): what reaches
    the transport is the header block followed by at most the declared number of body bytes. -/
theorem content_length_never_exceeded (r : Req) (n : Nat) (script : List Ev) (s : St)
    (h : writeTo r (.known n) script = .ok s) :
    ∃ head body, headerBlock r (ClientRequest.ofStr "Content-Length: " ++ decimal n ++ crlf) = .ok head ∧
      s.out = head ++ body ∧ body.length ≤ n := by
  simp only [writeTo] at h
  cases hb : headerBlock r (ClientRequest.ofStr "Content-Length: " ++ decimal n ++ crlf) with
  | error e => rw [hb] at h; simp [Except.map] at h
  | ok head =>
    rw [hb] at h
    simp only [Except.map, Except.ok.injEq] at h
    obtain ⟨body, h1, h2⟩ := cl_invariant script { out := head, registered := true, remaining := n } head [] n
      ⟨by simp, by simp⟩
    rw [h] at h1 h2
    exact ⟨head, body, rfl, h1, by omega⟩

/-! ### request objects with a history (retries, attributes assigned after construction) -/

/-- What can happen to a `Request` object before the `writeTo` that is looked at: its public
    attributes are assigned, and it is written to other transports (a retry on a fresh
    connection).  `writeTo` assigns no attribute of the request, so an earlier write leaves the
    record as it is. -/
inductive Op where
  | setMethod (m : Bytes)
  | setUri (u : Bytes)
  | setHeaders (h : HeaderStore)
  | setPersistent (p : Bool)
  | written (body : Body) (script : List Ev)

def applyOp (r : Req) : Op → Req
  | .setMethod m => { r with method := m }
  | .setUri u => { r with uri := u }
  | .setHeaders h => { r with headers := h }
  | .setPersistent p => { r with persistent := p }
  | .written _ _ => r

/-- **Refusal, for a request object with any history.**  Whatever was assigned to the request and
    however often it was written before, if its method or target is invalid at the moment of
    `writeTo` there is no transport state: the call ends in an exception before the first write. -/
theorem invalid_refused_whatever_the_history (r0 : Req) (ops : List Op) (body : Body) (script : List Ev)
    (hbad : ¬ (istoken (ops.foldl applyOp r0).method = true ∧ validURI (ops.foldl applyOp r0).uri = true)) :
    ∃ e, writeTo (ops.foldl applyOp r0) body script = .error e := by
  generalize ops.foldl applyOp r0 = r at hbad
  have hb : ∀ te, ∃ e, headerBlock r te = .error e := by
    intro te
    unfold headerBlock
    by_cases hh : (getRaw r.headers (ClientRequest.ofStr "Host")).length ≠ 1
    · exact ⟨.badHeaders, by simp [hh]⟩
    · by_cases h3 : istoken r.method = true
      · have h4 : validURI r.uri ≠ true := fun h4 => hbad ⟨h3, h4⟩
        exact ⟨.valueError, by simp [hh, h3, h4]⟩
      · exact ⟨.valueError, by simp [hh, h3]⟩
  cases body with
  | none =>
    obtain ⟨e, he⟩ := hb (if r.method = ClientRequest.ofStr "PUT" ∨ r.method = ClientRequest.ofStr "POST"
      then ClientRequest.ofStr "Content-Length: 0\r\n" else [])
    exact ⟨e, by simp only [writeTo, he, Except.map]⟩
  | unknown =>
    obtain ⟨e, he⟩ := hb (ClientRequest.ofStr "Transfer-Encoding: chunked\r\n")
    exact ⟨e, by simp only [writeTo, he, Except.map]⟩
  | known n =>
    obtain ⟨e, he⟩ := hb (ClientRequest.ofStr "Content-Length: " ++ decimal n ++ crlf)
    exact ⟨e, by simp only [writeTo, he, Except.map]⟩

/-- … and what a request with a history writes is what a freshly built request with the same four
    attribute values writes: the serialisation theorems above apply to it as they stand. -/
theorem written_bytes_depend_on_current_attributes_only (r0 : Req) (ops : List Op) (body : Body) (script : List Ev) :
    writeTo (ops.foldl applyOp r0) body script =
      writeTo { method := (ops.foldl applyOp r0).method, uri := (ops.foldl applyOp r0).uri,
                headers := (ops.foldl applyOp r0).headers, persistent := (ops.foldl applyOp r0).persistent }
        body script := rfl

/-! ### non-vacuity -/

def exReq : Req :=
  { method := ClientRequest.ofStr "POST", uri := ClientRequest.ofStr "/upload?x=1",
    headers := [(ClientRequest.ofStr "Host", [ClientRequest.ofStr "example.com"]),
                (ClientRequest.ofStr "X-A", [ClientRequest.ofStr "1", ClientRequest.ofStr "two words"])],
    persistent := false }

example : validReq exReq = true := by decide
-- the witness of the repaired defect: an empty write in the middle of a body of unknown length
example : ∃ s, writeTo exReq .unknown (goodScript false [ClientRequest.ofStr "abc", []] [ClientRequest.ofStr "def"]) = .ok s ∧
    s.outcome = .ok ∧ s.registered = false ∧
    parseRequest s.out = .ok (expected exReq [teField] .chunked (ClientRequest.ofStr "abcdef")) :=
  serialises_to_one_request_chunked exReq (by decide) false _ _
example : ∃ s, writeTo exReq (.known 6) (goodScript true [ClientRequest.ofStr "abc"] [[], ClientRequest.ofStr "def"]) = .ok s ∧
    s.outcome = .ok ∧ s.registered = false ∧
    parseRequest s.out = .ok (expected exReq [clField 6] (.contentLength 6) (ClientRequest.ofStr "abcdef")) :=
  serialises_to_one_request_known_length exReq (by decide) true [ClientRequest.ofStr "abc"] [[], ClientRequest.ofStr "def"]
example : ¬ (istoken (ClientRequest.ofStr "GET") = true ∧ validURI (ClientRequest.ofStr "/a b\r\nX: y") = true ∧
    istoken ((none : Option Bytes).getD (ClientRequest.ofStr "GET")) = true ∧
    validURI ((none : Option Bytes).getD (ClientRequest.ofStr "/a b\r\nX: y")) = true) := by decide
-- a producer that writes 2 + 5 bytes against a declared length of 5: only the first 2 reach the transport,
-- stopProducing is called, the result is WrongBodyLength
def overrun : St := ([Ev.write [1, 2], .ret, .write [3, 4, 5, 6, 7], .succeed] : List Ev).foldl clStep
  { out := [0], registered := true, remaining := 5 }
example : (overrun.out, overrun.outcome, overrun.stops, overrun.registered) =
    ([0, 1, 2], Outcome.wrongBodyLength, 1, false) := by decide
example : (match run (ClientRequest.ofStr "GET") (ClientRequest.ofStr "/") (some (ClientRequest.ofStr "GET\r\n")) none
    exReq.headers false .unknown [.write [1], .ret] with
    | .error .valueError => true
    | _ => false) = true := by decide

-- a request first written as `GET /first`, then pointed at an invalid target: refused
example : ∃ e, writeTo (([Op.written .none [], .setUri (ClientRequest.ofStr "/bad uri")] : List Op).foldl applyOp exReq)
    .none [] = .error e :=
  invalid_refused_whatever_the_history exReq _ .none [] (by decide)

end TwistedProps.C24
