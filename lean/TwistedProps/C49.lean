import TwistedProps.C49.Inv
import TwistedProps.C49.Log
import TwistedProps.C49.Quit
import TwistedProps.C49.Quiesce
import TwistedProps.C49.Backlog
import TwistedProps.C49.Report
/-!
C49 — thread pools run every task exactly once within their worker limit.

Statement (fixed): for any interleaving of task submission, worker growth and shrinking, limit changes and
quit, with tasks that succeed or raise, every task submitted before quit runs exactly once (unless no worker
could ever be created), workers are only created while fewer than the limit exist, no worker runs two tasks
at once, and after quit every worker is stopped once outstanding tasks finish while new submissions are
refused.  With the real thread pool, every callInThreadWithCallback reports its outcome exactly once.

Model: `TwistedModel/Threads/Team.lean` (Team + memory workers + `limitedWorkerCreator` + ThreadPool).
A history is a list of `Op`: the public calls, raw changes of the limit function, and the schedule steps
(`stepC`, `stepW w`, `any k`) that let one queue perform one item; `set.pop()` follows a choice stream.
Every theorem below quantifies over ALL histories, limits and choice streams (`Reachable`).

Proved here (all histories):
* `no_queue_item_raises`                 no `AlreadyQuit`/`KeyError` ever escapes a coordinator or worker item;
* `worker_holds_at_most_one_task`        a worker is never handed a task while it holds one (queue length ≤ 1), and a
                                         worker holding a task is neither idle nor quit nor being recycled;
* `idle_workers_are_live_and_free`       the idle set has no duplicates, only live workers with empty queues;
* `busy_counts_occupied_workers`         `_busyCount` = tasks sitting in worker queues + recycle items on their way;
* `workers_created_only_below_limit`     every creation happened with `busy + idle < limit`;
* `coordinator_stops_only_when_drained`  the coordinator is quit only after `quit()`, with nothing busy/queued;
* `quit_is_permanent`, `submission_after_quit_refused`, `call_after_stop_dropped`.

* `conservation_for_every_key`           for every key (a set of tasks + the event calling one of them produces exactly once):
                                         #events + #in flight = #accepted; instances: tasks/`run` (`task_conservation`),
                                         callback calls with outcome ok/`onResult(ok, …)` (`outcome_report_conservation`),
                                         exceptions reaching `Team`/`logException()` (`errKey`), failing calls without
                                         callback/`log.err` (`logerrKey`);
* `outcome_reported_at_most_once`, `wrong_outcome_never_reported`, `call_submitted_once_reported_once_or_owed`,
  `called_means_reported`, `every_outcome_reported_exactly_once`, `every_effect_happened_exactly_once`,
  `every_outcome_reported_exactly_once_unless_no_worker_possible`
                                         every `callInThreadWithCallback` — `func` returns or raises, `onResult` returns, RAISES
                                         or is `None` — has its outcome reported exactly once, with the right flag; a fault inside
                                         the callback is logged once by `Team` and never causes a second report;
* `task_conservation`                    for every task id: #calls + #in flight (backlog + worker queues + coordinator
                                         queue) = #accepted — no task is lost or duplicated; corollaries
                                         `task_runs_at_most_as_often_as_accepted` (never twice), `task_submitted_once_is_in_one_place`;
* `quiescent_ran_or_backlogged`          when no queue has work, every accepted task has run or is still in `_pending`;
* `quiescent_backlog_means_no_live_worker`  when no queue has work: backlog empty, or idle set empty ∧ nothing busy ∧ every
                                         worker ever created is quit; hence `every_task_ran_exactly_once` (a live worker left);
* `quit_stops_coordinator_and_every_worker`  quit requested ∧ no queue has work ⇒ coordinator quit ∧ every worker quit;
* `backlog_only_while_creator_refuses`, `quiescent_backlog_means_no_worker_possible`,
  `every_task_runs_exactly_once_unless_no_worker_possible`
                                         for histories whose limit changes go through `ThreadPool` (`ReachableViaPool`: no raw
                                         `Op.limit`): before quit a backlog exists only while `limitedWorkerCreator` refuses (or
                                         the `grow` kick of `adjustPoolsize` is still queued), so a quiescent pre-quit state with
                                         a backlog has limit ≤ 0; with limit > 0 every task ran exactly as often as accepted.

Scope notes (not gaps in the proofs, limits of what the statement can mean):
* `silent_limit_raise_starves`: a raw change of the limit function is never noticed by `Team`, so the "unless no worker
  could be created" clause is stated for limit changes that go through `ThreadPool`;
* `start_after_stop_leaves_backlog`: after `quit()` the clause "the creator refuses" can fail (a `start()` after `stop()`
  raises the limit while its `grow` raises `AlreadyQuit`); after quit the theorems give: nothing lost, nothing twice,
  backlog ⇒ no live worker, all workers and the coordinator quit;
* real threads (`LockWorker`/`ThreadWorker`, `stop()` joining) are outside the model (see ASSUMES in harness/corr/C49.py);
* tasks / callbacks that call back into the pool while they run are not in the model (the harness runs them against the
  oracle only).
-/
namespace TwistedProps.C49
open Twisted.Threads Twisted.Threads.St

/-- states reachable from a fresh `Team` (any limit) or a fresh `ThreadPool(mn, mx)` by any history -/
def Reachable (s : St) : Prop :=
  ∃ (s0 : St) (ops : List Op),
    ((∃ l ch, s0 = init l ch) ∨ (∃ mn mx ch, s0 = initPool mn mx ch)) ∧ s = run s0 ops

theorem reachable_inv {s : St} (h : Reachable s) : Inv s := by
  obtain ⟨s0, ops, h0, rfl⟩ := h
  rcases h0 with ⟨l, ch, rfl⟩ | ⟨mn, mx, ch, rfl⟩
  · exact inv_run (inv_init l ch) ops
  · exact inv_run (inv_initPool mn mx ch) ops

theorem reachable_logOK {s : St} (h : Reachable s) : LogOK s := by
  obtain ⟨s0, ops, h0, rfl⟩ := h
  apply LogOK_run
  rcases h0 with ⟨l, ch, rfl⟩ | ⟨mn, mx, ch, rfl⟩ <;> (intro e he; simp [init, initPool] at he)

/-- No exception ever escapes a queue item: no second `Quit.set`, no `do`/`quit` on a quit worker, no
    `set.remove` of a missing element — for every history, limit and `set.pop()` order. -/
theorem no_queue_item_raises {s : St} (h : Reachable s) : s.crashed = none :=
  (reachable_inv h).mid.core.nocrash

/-- No worker runs two tasks at once: a worker's queue never holds more than one task, and while it holds one
    it is not in the idle set (so it cannot be chosen again), not quit, and not being recycled. -/
theorem worker_holds_at_most_one_task {s : St} (h : Reachable s) (w : Nat) (wk : Worker)
    (hw : s.workers[w]? = some wk) :
    wk.queue.length ≤ 1 ∧
    (wk.queue ≠ [] → w ∉ s.idle ∧ wk.quit = false ∧ CItem.recycle w ∉ s.coordQ) := by
  have hc := (reachable_inv h).mid.core
  have h1 := hc.one w wk hw
  refine ⟨by omega, fun hne => ⟨?_, hc.busyOK w wk hw hne, ?_⟩⟩
  · intro hm
    obtain ⟨wk', hw', _, he⟩ := hc.idleOK w hm
    rw [hw] at hw'; cases hw'; exact hne he
  · intro hm
    have hpos := List.count_pos_iff.mpr hm
    have : wk.queue.length ≠ 0 := by
      intro h0; exact hne (List.length_eq_zero_iff.mp h0)
    omega

/-- The idle set: no duplicates; every member is a created, live worker with an empty queue. -/
theorem idle_workers_are_live_and_free {s : St} (h : Reachable s) :
    s.idle.Nodup ∧ ∀ w ∈ s.idle, ∃ wk : Worker, s.workers[w]? = some wk ∧ wk.quit = false ∧ wk.queue = [] :=
  ⟨(reachable_inv h).mid.core.nodup, (reachable_inv h).mid.core.idleOK⟩

/-- `_busyCount` is exact: tasks sitting in worker queues plus finished workers whose `idleAndPending` has not
    run yet. -/
theorem busy_counts_occupied_workers {s : St} (h : Reachable s) :
    s.busy = (s.workers.map (·.queue.length)).sum + s.coordQ.countP isRecycle :=
  (reachable_inv h).mid.bsum

/-- Workers are only created while fewer than the limit exist: every `create` event was emitted with
    `busy + idle` (the team's count of live workers, exact by the two theorems above) below the limit. -/
theorem workers_created_only_below_limit {s : St} (h : Reachable s) (w live : Nat) (lim : Int)
    (he : Ev.create w live lim ∈ s.log) : (live : Int) < lim :=
  reachable_logOK h _ he

/-- The coordinator is stopped only after `quit()`, and only when nothing is busy or queued. -/
theorem coordinator_stops_only_when_drained {s : St} (h : Reachable s) (hq : s.coordQuit = true) :
    s.quit = true ∧ s.shouldQuit = true ∧ s.busy = 0 ∧ s.coordQ = [] := by
  have hi := reachable_inv h
  obtain ⟨a, b, c⟩ := hi.mid.cq hq
  exact ⟨hi.sqQuit a, a, b, c⟩

/-- `quit()` is permanent: whatever happens afterwards the flag stays set. -/
theorem quit_is_permanent (s : St) (ops : List Op) (h : s.quit = true) : (run s ops).quit = true :=
  quit_run s ops h

/-- After quit, `Team.do` is refused (`AlreadyQuit`): nothing is queued, the refusal is the only effect. -/
theorem submission_after_quit_refused (s : St) (t : Nat) (r : Bool) (hc : s.crashed = none) (hq : s.quit = true) :
    (step s (.doTask t r)).coordQ = s.coordQ ∧ (step s (.doTask t r)).pending = s.pending ∧
    (step s (.doTask t r)).log = s.log ++ [.refused 0] := by
  simp [step, hc, applyOp, St.teamDo, hq, St.emit]

/-- After `ThreadPool.stop()`, `callInThreadWithCallback` is silently ignored. -/
theorem call_after_stop_dropped (s : St) (t : Nat) (r : Bool) (cb : Cb) (hc : s.crashed = none) (hj : s.joined = true) :
    (step s (.pCall t r cb)).coordQ = s.coordQ ∧ (step s (.pCall t r cb)).log = s.log ++ [.dropped t] := by
  simp [step, hc, applyOp, St.poolCall, hj, St.emit]


/-! ### Every task runs exactly once; quit terminates -/

theorem reachable_inv2 {s : St} (h : Reachable s) : Inv2 s := by
  obtain ⟨s0, ops, h0, rfl⟩ := h
  rcases h0 with ⟨l, ch, rfl⟩ | ⟨mn, mx, ch, rfl⟩
  · exact inv2_run (inv2_init l ch) ops
  · exact inv2_run (inv2_initPool mn mx ch) ops

/-- Conservation for every *key* `κ` (a set of tasks + the log event that calling one of them produces exactly once;
    `Count.lean`), for every history and schedule:
    `#κ-events in the log + #κ-tasks still in flight = #κ-tasks accepted by Team.do`. -/
theorem conservation_for_every_key {s : St} (h : Reachable s) (κ : Key) :
    runsK κ s + inflightK κ s = acceptsK κ s := by
  have hn : NC s := no_queue_item_raises h
  obtain ⟨s0, ops, h0, rfl⟩ := h
  refine cons_run ops hn ?_ κ
  rcases h0 with ⟨l, ch, rfl⟩ | ⟨mn, mx, ch, rfl⟩ <;> exact cons_fresh _ rfl rfl rfl rfl

/-- Conservation of tasks, for every history and schedule and every task id `x`:
    `#calls of x + #copies of x still in flight = #times Team.do accepted x`,
    where "in flight" = `Team._pending` + the worker queues + the `_coordinateThisTask` items of the coordinator queue.
    No task is lost and none is duplicated. -/
theorem task_conservation {s : St} (h : Reachable s) (x : Nat) : runs x s + inflight x s = accepts x s :=
  conservation_for_every_key h (runKey x)

/-- No task runs more often than it was accepted — in particular a task submitted once never runs twice. -/
theorem task_runs_at_most_as_often_as_accepted {s : St} (h : Reachable s) (x : Nat) : runs x s ≤ accepts x s := by
  have := task_conservation h x; omega

/-- A task submitted once has, at every moment, either been called exactly once and is nowhere in flight, or has
    not been called and sits in exactly one place (backlog, one worker queue, or the coordinator queue). -/
theorem task_submitted_once_is_in_one_place {s : St} (h : Reachable s) (x : Nat) (ha : accepts x s = 1) :
    (runs x s = 1 ∧ inflight x s = 0) ∨ (runs x s = 0 ∧ inflight x s = 1) := by
  have := task_conservation h x; omega

/-- At a quiescent state (no queue has work), for every key: `#κ-events + #κ-tasks in the backlog = #κ-tasks accepted`. -/
theorem quiescent_done_or_backlogged {s : St} (h : Reachable s) (he : s.enabled = []) (κ : Key) :
    runsK κ s + s.pending.countP κ.tp = acceptsK κ s := by
  have hc := conservation_for_every_key h κ
  obtain ⟨hq, hw⟩ := (enabled_nil_iff s).mp he
  simp only [inflightK, wsumK_zero_of_empty κ s.workers hw, hq] at hc
  simpa using hc

/-- At a quiescent state (no queue has work) every accepted task has run exactly as often as it was accepted,
    except for the copies still in `Team._pending`. -/
theorem quiescent_ran_or_backlogged {s : St} (h : Reachable s) (he : s.enabled = []) (x : Nat) :
    runs x s + s.pending.countP (isT x) = accepts x s :=
  quiescent_done_or_backlogged h he (runKey x)

/-- Quiescence: if no queue has work, then either the backlog is empty, or there is no live worker at all (the idle
    set is empty, nothing is busy, every worker ever created has been quit) — a backlog never coexists with a
    worker that could take it. -/
theorem quiescent_backlog_means_no_live_worker {s : St} (h : Reachable s) (he : s.enabled = []) :
    s.pending = [] ∨
    (s.idle = [] ∧ s.busy = 0 ∧ ∀ (w : Nat) (wk : Worker), s.workers[w]? = some wk → wk.quit = true) := by
  have hi := reachable_inv2 h
  cases hp : s.pending with
  | nil => exact Or.inl rfl
  | cons t rest =>
    right
    have hidle := hi.num.pendIdle (by rw [hp]; simp)
    refine ⟨hidle, quiescent_busy_zero hi he, ?_⟩
    intro w wk hw
    cases hq : wk.quit with
    | true => rfl
    | false =>
      have := quiescent_live_idle hi he w wk hw hq
      rw [hidle] at this; simp at this

/-- "Every task submitted runs exactly once (unless no worker could be had)": at a quiescent state in which some
    worker is still alive, every task has been called exactly as often as `Team.do` accepted it. -/
theorem every_task_ran_exactly_once {s : St} (h : Reachable s) (he : s.enabled = [])
    (hlive : ∃ (w : Nat) (wk : Worker), s.workers[w]? = some wk ∧ wk.quit = false) (x : Nat) :
    runs x s = accepts x s := by
  have := quiescent_ran_or_backlogged h he x
  rcases quiescent_backlog_means_no_live_worker h he with hp | ⟨_, _, hall⟩
  · rw [hp] at this; simpa using this
  · obtain ⟨w, wk, hw, hq⟩ := hlive
    rw [hall w wk hw] at hq; cases hq

/-- Quit terminates: once `quit()` has been called and no queue has work left, the coordinator has been quit and so
    has every worker ever created. -/
theorem quit_stops_coordinator_and_every_worker {s : St} (h : Reachable s) (he : s.enabled = [])
    (hq : s.quit = true) :
    s.coordQuit = true ∧ ∀ (w : Nat) (wk : Worker), s.workers[w]? = some wk → wk.quit = true := by
  have hi := reachable_inv2 h
  obtain ⟨hcq, _⟩ := (enabled_nil_iff s).mp he
  have hsq : s.shouldQuit = true := by
    rcases hi.finPending hq with a | a
    · exact a
    · rw [hcq] at a; simp at a
  obtain ⟨hidle, hc⟩ := hi.num.sqIdle hsq
  have hb := quiescent_busy_zero hi he
  refine ⟨?_, ?_⟩
  · rcases hc with hc | hc
    · exact hc
    · omega
  · intro w wk hw
    cases hwq : wk.quit with
    | true => rfl
    | false =>
      have := quiescent_live_idle hi he w wk hw hwq
      rw [hidle] at this; simp at this


/-! ### "unless no worker could ever be created" -/

/-- states reachable by histories in which the limit function changes only through `ThreadPool`
    (`start/stop/adjustPoolsize`), never behind `Team`'s back (no raw `Op.limit`); a `ThreadPool` is created with
    `0 ≤ minthreads ≤ maxthreads` (its constructor asserts this) -/
def ReachableViaPool (s : St) : Prop :=
  ∃ (s0 : St) (ops : List Op),
    ((∃ l ch, s0 = init l ch) ∨ (∃ mn mx ch, 0 ≤ mn ∧ mn ≤ mx ∧ s0 = initPool mn mx ch)) ∧
    (∀ o ∈ ops, ∀ l, o ≠ Op.limit l) ∧ s = run s0 ops

theorem ReachableViaPool.reachable {s : St} (h : ReachableViaPool s) : Reachable s := by
  obtain ⟨s0, ops, h0, _, rfl⟩ := h
  refine ⟨s0, ops, ?_, rfl⟩
  rcases h0 with h0 | ⟨mn, mx, ch, _, _, h0⟩
  · exact Or.inl h0
  · exact Or.inr ⟨mn, mx, ch, h0⟩

theorem reachableViaPool_inv3 {s : St} (h : ReachableViaPool s) : Inv3 s := by
  obtain ⟨s0, ops, h0, hno, rfl⟩ := h
  rcases h0 with ⟨l, ch, rfl⟩ | ⟨mn, mx, ch, h1, h2, rfl⟩
  · exact inv3_run (inv3_init l ch) ops hno
  · exact inv3_run (inv3_initPool mn mx ch ⟨h1, h2⟩) ops hno

/-- Before `quit()`, a backlog exists only while `limitedWorkerCreator` would refuse to create a worker
    (`busy + idle ≥ currentLimit()`), or while the `grow(len(_pending))` kick of `adjustPoolsize` is still queued. -/
theorem backlog_only_while_creator_refuses {s : St} (h : ReachableViaPool s) (hq : s.quit = false)
    (hp : s.pending ≠ []) :
    ((s.busy + s.idle.length : Nat) : Int) ≥ s.limit ∨
    ∃ n, CItem.grow n ∈ s.coordQ ∧ s.pending.length ≤ n := by
  rcases (reachableViaPool_inv3 h).back hp with a | a | a
  · rw [hq] at a; cases a
  · exact Or.inl a
  · exact Or.inr a

/-- Quiescence, in full: if no queue has work and `quit()` has not been called, then either the backlog is empty,
    or there is no live worker AND the creator refuses (the limit is ≤ 0: no worker can be created at all). -/
theorem quiescent_backlog_means_no_worker_possible {s : St} (h : ReachableViaPool s) (he : s.enabled = [])
    (hq : s.quit = false) :
    s.pending = [] ∨
    (s.limit ≤ 0 ∧ s.idle = [] ∧ s.busy = 0 ∧
      ∀ (w : Nat) (wk : Worker), s.workers[w]? = some wk → wk.quit = true) := by
  rcases quiescent_backlog_means_no_live_worker h.reachable he with hp | ⟨hi, hb, hall⟩
  · exact Or.inl hp
  · cases hp : s.pending with
    | nil => exact Or.inl rfl
    | cons t rest =>
      right
      refine ⟨?_, hi, hb, hall⟩
      obtain ⟨hcq, _⟩ := (enabled_nil_iff s).mp he
      rcases backlog_only_while_creator_refuses h hq (by rw [hp]; simp) with a | ⟨n, a, _⟩
      · rw [hb, hi] at a; simpa using a
      · rw [hcq] at a; simp at a

/-- Every task submitted before quit runs exactly once unless no worker can be created: at a quiescent state
    before `quit()` whose limit admits at least one worker, every task has been called exactly as often as
    `Team.do` accepted it (so exactly once for distinct tasks). -/
theorem every_task_runs_exactly_once_unless_no_worker_possible {s : St} (h : ReachableViaPool s)
    (he : s.enabled = []) (hq : s.quit = false) (hl : 0 < s.limit) (x : Nat) :
    runs x s = accepts x s := by
  have := quiescent_ran_or_backlogged h.reachable he x
  rcases quiescent_backlog_means_no_worker_possible h he hq with hp | ⟨hle, _⟩
  · rw [hp] at this; simpa using this
  · omega

/-- … and every `callInThreadWithCallback` outcome has been reported exactly as often as accepted (any key: also the
    single `logException()` of a raising callback and the single `log.err` of a failing call without callback). -/
theorem every_outcome_reported_exactly_once_unless_no_worker_possible {s : St} (h : ReachableViaPool s)
    (he : s.enabled = []) (hq : s.quit = false) (hl : 0 < s.limit) (κ : Key) :
    runsK κ s = acceptsK κ s := by
  have := quiescent_done_or_backlogged h.reachable he κ
  rcases quiescent_backlog_means_no_worker_possible h he hq with hp | ⟨hle, _⟩
  · rw [hp] at this; simpa using this
  · omega

/-! ### Every `callInThreadWithCallback` reports its outcome exactly once

`Op.pCall t raises cb` is `ThreadPool.callInThreadWithCallback(onResult, func)` where `func` returns/raises and
`onResult` returns, RAISES, or is `None`.  A raising callback's exception leaves `inContext` and is caught by
`Team`'s `doWork` (one `logException()`); it must not cause a second report. -/

/-- `onResult(ok, …)` calls made for call `x` -/
def reports (x : Nat) (ok : Bool) (s : St) : Nat := runsK (resKey x ok) s
/-- accepted, not yet called copies of call `x` that carry a callback and whose `func` has outcome `ok` -/
def owed (x : Nat) (ok : Bool) (s : St) : Nat := inflightK (resKey x ok) s
/-- how often `callInThreadWithCallback` was accepted for `x` with a callback and a `func` of outcome `ok` -/
def callsAccepted (x : Nat) (ok : Bool) (s : St) : Nat := acceptsK (resKey x ok) s

/-- what `callsAccepted` counts: accepted tasks of the kinds `callInThreadWithCallback` submits for a present
    callback (returning or raising) and a `func` whose outcome is `ok` -/
theorem callsAccepted_counts (x t : Nat) (ok r : Bool) (cb : Cb) :
    aK (resKey x ok) (.accept (t, callKind r cb)) = (t == x && (cb != Cb.absent) && (ok == !r)) :=
  isCall_callKind x t ok r cb

/-- Conservation of outcome reports, for every history and schedule, every call `x` and both flags:
    `#onResult(ok, …) calls for x + #accepted copies of x (callback present, outcome ok) not yet called
     = #such copies accepted`.
    No outcome is lost, none is reported twice, none with the wrong flag — also when the callback itself raises. -/
theorem outcome_report_conservation {s : St} (h : Reachable s) (x : Nat) (ok : Bool) :
    reports x ok s + owed x ok s = callsAccepted x ok s :=
  conservation_for_every_key h (resKey x ok)

/-- An outcome is never reported more often than the call was accepted with that outcome: a call submitted once is
    never reported twice — neither twice with the same flag, nor (next theorem) once as success and once as failure. -/
theorem outcome_reported_at_most_once {s : St} (h : Reachable s) (x : Nat) (ok : Bool) :
    reports x ok s ≤ callsAccepted x ok s := by
  have := outcome_report_conservation h x ok; omega

/-- An outcome that no accepted call has is never reported: if `x` was never accepted with a callback and a `func` of
    outcome `ok` (e.g. `func` always succeeds and `ok = false`; or `onResult is None`), there is no `onResult(ok, …)`
    call for `x` — whatever the callbacks do. -/
theorem wrong_outcome_never_reported {s : St} (h : Reachable s) (x : Nat) (ok : Bool)
    (h0 : callsAccepted x ok s = 0) : reports x ok s = 0 := by
  have := outcome_report_conservation h x ok; omega

/-- A call submitted once has, at every moment, either been reported exactly once (with its flag) or not been called
    yet. -/
theorem call_submitted_once_reported_once_or_owed {s : St} (h : Reachable s) (x : Nat) (ok : Bool)
    (ha : callsAccepted x ok s = 1) :
    (reports x ok s = 1 ∧ owed x ok s = 0) ∨ (reports x ok s = 0 ∧ owed x ok s = 1) := by
  have := outcome_report_conservation h x ok; omega

/-- The report is made by the worker item that calls the task: as soon as call `x` has been called as often as it was
    accepted (nothing of `x` in flight), every outcome of `x` has been reported exactly as often as accepted. -/
theorem called_means_reported {s : St} (h : Reachable s) (x : Nat) (ok : Bool) (h0 : inflight x s = 0) :
    reports x ok s = callsAccepted x ok s := by
  have hc := outcome_report_conservation h x ok
  have hle : owed x ok s ≤ inflight x s := by
    have hp : ∀ t : Task, (resKey x ok).tp t = true → (runKey x).tp t = true := by
      intro t ht
      simp only [resKey, isCall, Bool.and_eq_true] at ht
      exact ht.1
    have hc' : ∀ c : CItem, cK (resKey x ok) c = true → cK (runKey x) c = true := by
      intro c; cases c <;> simp only [cK] <;> first | exact hp _ | exact id
    have hw : ∀ ws : List Worker, wsumK (resKey x ok) ws ≤ wsumK (runKey x) ws := by
      intro ws
      induction ws with
      | nil => simp [wsumK]
      | cons a l ih =>
        have := List.countP_mono_left (l := a.queue) (p := (resKey x ok).tp) (q := (runKey x).tp) (fun t _ => hp t)
        simp only [wsumK, List.map_cons, List.sum_cons] at ih ⊢
        omega
    have h1 := List.countP_mono_left (l := s.pending) (p := (resKey x ok).tp) (q := (runKey x).tp) (fun t _ => hp t)
    have h2 := List.countP_mono_left (l := s.coordQ) (p := cK (resKey x ok)) (q := cK (runKey x)) (fun c _ => hc' c)
    have h3 := hw s.workers
    simp only [owed, inflight, inflightK]
    omega
  omega

/-- At a quiescent state in which some worker is still alive, every outcome has been reported exactly as often as a
    call with that outcome was accepted (exactly once for calls submitted once). -/
theorem every_outcome_reported_exactly_once {s : St} (h : Reachable s) (he : s.enabled = [])
    (hlive : ∃ (w : Nat) (wk : Worker), s.workers[w]? = some wk ∧ wk.quit = false) (x : Nat) (ok : Bool) :
    reports x ok s = callsAccepted x ok s := by
  have := quiescent_done_or_backlogged h he (resKey x ok)
  rcases quiescent_backlog_means_no_live_worker h he with hp | ⟨_, _, hall⟩
  · rw [hp] at this; simpa [reports, callsAccepted] using this
  · obtain ⟨w, wk, hw, hq⟩ := hlive
    rw [hall w wk hw] at hq; cases hq

/-- The same for any key — in particular `errKey x` (an exception that reaches `Team` is logged exactly once: a raising
    `Team.do` task, or a raising callback, on either outcome) and `logerrKey x` (a failing call without callback is
    `log.err`ed exactly once). -/
theorem every_effect_happened_exactly_once {s : St} (h : Reachable s) (he : s.enabled = [])
    (hlive : ∃ (w : Nat) (wk : Worker), s.workers[w]? = some wk ∧ wk.quit = false) (κ : Key) :
    runsK κ s = acceptsK κ s := by
  have := quiescent_done_or_backlogged h he κ
  rcases quiescent_backlog_means_no_live_worker h he with hp | ⟨_, _, hall⟩
  · rw [hp] at this; simpa using this
  · obtain ⟨w, wk, hw, hq⟩ := hlive
    rw [hall w wk hw] at hq; cases hq

/-! ### Non-vacuity and witnesses -/

/-- a history that creates two workers, runs three tasks (one raising), shrinks and quits -/
def demo : St :=
  run (init 2 [1]) [.doTask 0 false, .doTask 1 true, .doTask 2 false, .any 0, .any 0, .any 0, .any 1, .any 0,
    .shrink (some 1), .any 0, .any 0, .any 0, .any 0, .any 0, .quit, .any 0, .any 0]

example : Reachable demo := ⟨init 2 [1], _, Or.inl ⟨2, [1], rfl⟩, rfl⟩
example : demo.workers.length = 2 ∧ demo.coordQuit = true ∧ demo.crashed = none ∧
    demo.log.count (.run 0 0) = 1 ∧ demo.log.count (.run 1 1) = 1 ∧ demo.log.count (.run 2 0) + demo.log.count (.run 2 1) = 1 ∧
    Ev.create 1 1 2 ∈ demo.log := by decide
example : (step demo (.doTask 9 false)).log = demo.log ++ [.refused 0] :=
  (submission_after_quit_refused demo 9 false (by decide) (by decide)).2.2


/-- `demo` is quiescent after quit: three tasks accepted once each, each called exactly once, nothing in flight,
    coordinator and both workers quit (the hypotheses of the quiescence/quit theorems are satisfiable). -/
example : demo.enabled = [] ∧ demo.quit = true ∧ accepts 0 demo = 1 ∧ runs 0 demo = 1 ∧ accepts 1 demo = 1 ∧
    runs 1 demo = 1 ∧ runs 2 demo = 1 ∧ inflight 2 demo = 0 ∧ demo.coordQuit = true ∧
    demo.workers.map (·.quit) = [true, true] := by decide
example : demo.coordQuit = true := (quit_stops_coordinator_and_every_worker
  ⟨init 2 [1], _, Or.inl ⟨2, [1], rfl⟩, rfl⟩ (by decide) (by decide)).1

/-- calls whose callback misbehaves: call 0 succeeds and its callback raises (the history of the seeded regression),
    call 1 fails and its callback raises, call 2 fails without callback, call 3 succeeds without callback, call 4 is
    well-behaved; two workers, everything drained. -/
def cbFault : St :=
  run (initPool 0 2 [])
    ([.pStart, .pCall 0 false .raises, .pCall 1 true .raises, .pCall 2 true .absent, .pCall 3 false .absent,
      .pCall 4 false .returns] ++ List.replicate 24 (.any 0))

example : Reachable cbFault := ⟨initPool 0 2 [], _, Or.inr ⟨0, 2, [], rfl⟩, rfl⟩
/-- call 0 is reported once as success and never as failure; its callback's exception is logged once; call 1 is
    reported once as failure; calls 2 and 3 are never reported, the failure of 2 is `log.err`ed once. -/
example : cbFault.enabled = [] ∧ cbFault.quit = false ∧ cbFault.crashed = none ∧
    callsAccepted 0 true cbFault = 1 ∧ reports 0 true cbFault = 1 ∧
    callsAccepted 0 false cbFault = 0 ∧ reports 0 false cbFault = 0 ∧ runsK (errKey 0) cbFault = 1 ∧
    callsAccepted 1 false cbFault = 1 ∧ reports 1 false cbFault = 1 ∧ reports 1 true cbFault = 0 ∧
    runsK (errKey 1) cbFault = 1 ∧
    callsAccepted 2 false cbFault = 0 ∧ reports 2 false cbFault = 0 ∧ acceptsK (logerrKey 2) cbFault = 1 ∧
    runsK (logerrKey 2) cbFault = 1 ∧ runs 3 cbFault = 1 ∧ reports 3 true cbFault = 0 ∧
    reports 4 true cbFault = 1 ∧ runsK (errKey 4) cbFault = 0 ∧
    (∃ (w : Nat) (wk : Worker), cbFault.workers[w]? = some wk ∧ wk.quit = false) := by
  refine ⟨by decide, by decide, by decide, by decide, by decide, by decide, by decide, by decide, by decide, by decide,
    by decide, by decide, by decide, by decide, by decide, by decide, by decide, by decide, by decide, by decide,
    ⟨0, _, rfl, by decide⟩⟩
/-- in the middle of that history: call 0 accepted, not yet called — its report is owed -/
example : owed 0 true (run (initPool 0 2 []) [.pStart, .pCall 0 false .raises, .stepC]) = 1 ∧
    reports 0 true (run (initPool 0 2 []) [.pStart, .pCall 0 false .raises, .stepC]) = 0 := by decide

theorem noRawLimit_of_all (ops : List Op)
    (h : ops.all (fun o => match o with | .limit _ => false | _ => true) = true) :
    ∀ o ∈ ops, ∀ l, o ≠ Op.limit l := by
  intro o ho l hx
  subst hx
  have := List.all_eq_true.mp h _ ho
  simp at this

/-- conservation in the middle of a history: task 0 is in a worker queue, task 1 in the backlog (limit 1), task 2
    still a coordinator item -/
def mid : St := run (init 1 []) [.doTask 0 false, .doTask 1 false, .stepC, .stepC, .doTask 2 true]
example : ReachableViaPool mid := ⟨init 1 [], _, Or.inl ⟨1, [], rfl⟩, noRawLimit_of_all _ (by decide), rfl⟩
example : inflight 0 mid = 1 ∧ inflight 1 mid = 1 ∧ inflight 2 mid = 1 ∧ runs 0 mid = 0 ∧ mid.pending = [(1, 0)] ∧
    mid.busy = 1 ∧ mid.limit = 1 ∧ mid.quit = false := by decide

/-- a quiescent pre-quit state with a backlog: the limit is 0 (a `ThreadPool` that was never started) -/
def starved : St := run (initPool 0 3 []) [.pCall 7 false .returns, .stepC]
example : ReachableViaPool starved :=
  ⟨initPool 0 3 [], _, Or.inr ⟨0, 3, [], by decide, by decide, rfl⟩, noRawLimit_of_all _ (by decide), rfl⟩
example : starved.enabled = [] ∧ starved.quit = false ∧ starved.pending = [(7, 2)] ∧ starved.limit = 0 := by decide
/-- … and starting the pool serves it: quiescent, limit 3 > 0, the call ran exactly once. -/
def served : St := run starved [.pStart, .any 0, .any 0, .any 0]
example : served.enabled = [] ∧ served.quit = false ∧ 0 < served.limit ∧ runs 7 served = 1 ∧ accepts 7 served = 1 := by
  decide

/-- After `quit()` the pre-quit clause really needs `quit = false`: a `start()` after `stop()` raises the limit but its
    `grow` is refused (`AlreadyQuit`), so a call queued before the pool ever started is never served. -/
theorem start_after_stop_leaves_backlog :
    let s := run (initPool 0 3 []) [.pCall 7 false .returns, .stepC, .pStop, .pStart, .stepC]
    s.enabled = [] ∧ s.quit = true ∧ s.pending = [(7, 2)] ∧ s.limit = 3 ∧ s.workers = [] ∧ s.coordQuit = true := by
  decide

/-- The repaired `adjustPoolsize`: raising the maximum of a started `ThreadPool(0, 0)` now runs the backlog. -/
example : Ev.run 0 0 ∈ (run (initPool 0 0 []) [.pStart, .pCall 0 false .returns, .stepC, .pAdjust none (some 1),
    .any 0, .any 0, .any 0]).log := by decide

/-- Why "exactly once" needs limit changes to go through `ThreadPool`: `Team` is never told that the limit
    function changed, so after a raw raise the quiescent team keeps the task in its backlog although a worker
    could now be created (unchanged Twisted: `ThreadPool(0,0)` + `adjustPoolsize(0,1)` did exactly this). -/
theorem silent_limit_raise_starves :
    let s := run (init 0 []) [.doTask 0 false, .stepC, .limit 1]
    s.enabled = [] ∧ s.pending = [(0, 0)] ∧ s.workers = [] ∧ s.limit = 1 ∧ s.log = [.accept (0, 0)] := by decide

end TwistedProps.C49
