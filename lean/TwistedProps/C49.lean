import TwistedProps.C49.Inv
import TwistedProps.C49.Log
import TwistedProps.C49.Quit
/-!
C49 — thread pools run every task exactly once within their worker limit.

Statement (fixed): for any interleaving of task submission, worker growth and shrinking, limit changes and
quit, with tasks that succeed or raise, every task submitted before quit runs exactly once (unless no worker
could ever be created), workers are only created while fewer than the limit exist, no worker runs two tasks
at once, and after quit every worker is stopped once outstanding tasks finish while new submissions are
refused.

Model: `TwistedModel/Threads/Team.lean` (Team + memory workers + `limitedWorkerCreator` + ThreadPool).
A history is a list of `Op`: the public calls, raw changes of the limit function, and the schedule steps
(`stepC`, `stepW w`, `any k`) that let one queue perform one item; `set.pop()` follows a choice stream.
Every theorem below quantifies over ALL histories, limits and choice streams (`Reachable`).

Proved here (all histories):
* `no_queue_item_raises`                 no `AlreadyQuit`/`KeyError` ever escapes a coordinator or worker item;
* `worker_holds_at_most_one_task`        a worker is never handed a task while it holds one (queue length ≤ 1), and a
                                         worker holding a task is neither idle nor quit nor being recycled;
* `idle_workers_are_live_and_free`       the idle set has no duplicates, only live workers with empty queues;
* `busy_counts_occupied_workers`         `_busyCount` = tasks sitting in worker queues + recycle items on their way;
* `workers_created_only_below_limit`     every creation happened with `busy + idle < limit`;
* `coordinator_stops_only_when_drained`  the coordinator is quit only after `quit()`, with nothing busy/queued;
* `quit_is_permanent`, `submission_after_quit_refused`, `call_after_stop_dropped`.

PARTIAL — not proved in Lean (checked on the implementation by the oracle of harness/corr/C49.py on every run):
* "runs exactly once": the conservation law  #run t + #in-flight t = #accepted t  and its corollary at a quiescent
  state (ran once, or still pending with no live worker);
* "after quit every worker is stopped once outstanding tasks finish": quiescent ∧ quit → coordinator quit ∧ all
  workers quit.
`silent_limit_raise_starves` records why the first needs "limit changes go through ThreadPool": a raw change of the
limit function is never noticed by `Team`.
-/
namespace TwistedProps.C49
open Twisted.Threads Twisted.Threads.St

/-- states reachable from a fresh `Team` (any limit) or a fresh `ThreadPool(mn, mx)` by any history -/
def Reachable (s : St) : Prop :=
  ∃ (s0 : St) (ops : List Op),
    ((∃ l ch, s0 = init l ch) ∨ (∃ mn mx ch, s0 = initPool mn mx ch)) ∧ s = run s0 ops

theorem reachable_inv {s : St} (h : Reachable s) : Inv s := by
  obtain ⟨s0, ops, h0, rfl⟩ := h
  rcases h0 with ⟨l, ch, rfl⟩ | ⟨mn, mx, ch, rfl⟩
  · exact inv_run (inv_init l ch) ops
  · exact inv_run (inv_initPool mn mx ch) ops

theorem reachable_logOK {s : St} (h : Reachable s) : LogOK s := by
  obtain ⟨s0, ops, h0, rfl⟩ := h
  apply LogOK_run
  rcases h0 with ⟨l, ch, rfl⟩ | ⟨mn, mx, ch, rfl⟩ <;> (intro e he; simp [init, initPool] at he)

/-- No exception ever escapes a queue item: no second `Quit.set`, no `do`/`quit` on a quit worker, no
    `set.remove` of a missing element — for every history, limit and `set.pop()` order. -/
theorem no_queue_item_raises {s : St} (h : Reachable s) : s.crashed = none :=
  (reachable_inv h).mid.core.nocrash

/-- No worker runs two tasks at once: a worker's queue never holds more than one task, and while it holds one
    it is not in the idle set (so it cannot be chosen again), not quit, and not being recycled. -/
theorem worker_holds_at_most_one_task {s : St} (h : Reachable s) (w : Nat) (wk : Worker)
    (hw : s.workers[w]? = some wk) :
    wk.queue.length ≤ 1 ∧
    (wk.queue ≠ [] → w ∉ s.idle ∧ wk.quit = false ∧ CItem.recycle w ∉ s.coordQ) := by
  have hc := (reachable_inv h).mid.core
  have h1 := hc.one w wk hw
  refine ⟨by omega, fun hne => ⟨?_, hc.busyOK w wk hw hne, ?_⟩⟩
  · intro hm
    obtain ⟨wk', hw', _, he⟩ := hc.idleOK w hm
    rw [hw] at hw'; cases hw'; exact hne he
  · intro hm
    have hpos := List.count_pos_iff.mpr hm
    have : wk.queue.length ≠ 0 := by
      intro h0; exact hne (List.length_eq_zero_iff.mp h0)
    omega

/-- The idle set: no duplicates; every member is a created, live worker with an empty queue. -/
theorem idle_workers_are_live_and_free {s : St} (h : Reachable s) :
    s.idle.Nodup ∧ ∀ w ∈ s.idle, ∃ wk : Worker, s.workers[w]? = some wk ∧ wk.quit = false ∧ wk.queue = [] :=
  ⟨(reachable_inv h).mid.core.nodup, (reachable_inv h).mid.core.idleOK⟩

/-- `_busyCount` is exact: tasks sitting in worker queues plus finished workers whose `idleAndPending` has not
    run yet. -/
theorem busy_counts_occupied_workers {s : St} (h : Reachable s) :
    s.busy = (s.workers.map (·.queue.length)).sum + s.coordQ.countP isRecycle :=
  (reachable_inv h).mid.bsum

/-- Workers are only created while fewer than the limit exist: every `create` event was emitted with
    `busy + idle` (the team's count of live workers, exact by the two theorems above) below the limit. -/
theorem workers_created_only_below_limit {s : St} (h : Reachable s) (w live : Nat) (lim : Int)
    (he : Ev.create w live lim ∈ s.log) : (live : Int) < lim :=
  reachable_logOK h _ he

/-- The coordinator is stopped only after `quit()`, and only when nothing is busy or queued. -/
theorem coordinator_stops_only_when_drained {s : St} (h : Reachable s) (hq : s.coordQuit = true) :
    s.quit = true ∧ s.shouldQuit = true ∧ s.busy = 0 ∧ s.coordQ = [] := by
  have hi := reachable_inv h
  obtain ⟨a, b, c⟩ := hi.mid.cq hq
  exact ⟨hi.sqQuit a, a, b, c⟩

/-- `quit()` is permanent: whatever happens afterwards the flag stays set. -/
theorem quit_is_permanent (s : St) (ops : List Op) (h : s.quit = true) : (run s ops).quit = true :=
  quit_run s ops h

/-- After quit, `Team.do` is refused (`AlreadyQuit`): nothing is queued, the refusal is the only effect. -/
theorem submission_after_quit_refused (s : St) (t : Nat) (r : Bool) (hc : s.crashed = none) (hq : s.quit = true) :
    (step s (.doTask t r)).coordQ = s.coordQ ∧ (step s (.doTask t r)).pending = s.pending ∧
    (step s (.doTask t r)).log = s.log ++ [.refused 0] := by
  simp [step, hc, applyOp, St.teamDo, hq, St.emit]

/-- After `ThreadPool.stop()`, `callInThreadWithCallback` is silently ignored. -/
theorem call_after_stop_dropped (s : St) (t : Nat) (r : Bool) (hc : s.crashed = none) (hj : s.joined = true) :
    (step s (.pCall t r)).coordQ = s.coordQ ∧ (step s (.pCall t r)).log = s.log ++ [.dropped t] := by
  simp [step, hc, applyOp, St.poolCall, hj, St.emit]

/-! ### Non-vacuity and witnesses -/

/-- a history that creates two workers, runs three tasks (one raising), shrinks and quits -/
def demo : St :=
  run (init 2 [1]) [.doTask 0 false, .doTask 1 true, .doTask 2 false, .any 0, .any 0, .any 0, .any 1, .any 0,
    .shrink (some 1), .any 0, .any 0, .any 0, .any 0, .any 0, .quit, .any 0, .any 0]

example : Reachable demo := ⟨init 2 [1], _, Or.inl ⟨2, [1], rfl⟩, rfl⟩
example : demo.workers.length = 2 ∧ demo.coordQuit = true ∧ demo.crashed = none ∧
    demo.log.count (.run 0 0) = 1 ∧ demo.log.count (.run 1 1) = 1 ∧ demo.log.count (.run 2 0) + demo.log.count (.run 2 1) = 1 ∧
    Ev.create 1 1 2 ∈ demo.log := by decide
example : (step demo (.doTask 9 false)).log = demo.log ++ [.refused 0] :=
  (submission_after_quit_refused demo 9 false (by decide) (by decide)).2.2

/-- The repaired `adjustPoolsize`: raising the maximum of a started `ThreadPool(0, 0)` now runs the backlog. -/
example : Ev.run 0 0 ∈ (run (initPool 0 0 []) [.pStart, .pCall 0 false, .stepC, .pAdjust none (some 1),
    .any 0, .any 0, .any 0]).log := by decide

/-- Why "exactly once" needs limit changes to go through `ThreadPool`: `Team` is never told that the limit
    function changed, so after a raw raise the quiescent team keeps the task in its backlog although a worker
    could now be created (unchanged Twisted: `ThreadPool(0,0)` + `adjustPoolsize(0,1)` did exactly this). -/
theorem silent_limit_raise_starves :
    let s := run (init 0 []) [.doTask 0 false, .stepC, .limit 1]
    s.enabled = [] ∧ s.pending = [(0, 0)] ∧ s.workers = [] ∧ s.limit = 1 ∧ s.log = [.accept 0] := by decide

end TwistedProps.C49
