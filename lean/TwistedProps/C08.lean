import TwistedProps.C08.Trace
import TwistedProps.C08.Counter
/-!
C08 — reactor timed calls run once, on time, in time order.

Model: `TwistedModel/Reactor/Timers.lean` (transcribes `ReactorBase.callLater/_moveCallLaterSooner/
_insertNewDelayedCalls/timeout/runUntilCurrent/getDelayedCalls`, `DelayedCall.cancel/reset/delay`,
CPython `heapq`).  A *history* is any list of top-level operations (`Top`): user operations
(callLater / cancel / reset / delay), clock advances, iterations (`runUntilCurrent`), `timeout()` and
`getDelayedCalls()` probes; user operations also happen *inside* running calls through the script
table (any table, including self-rescheduling scripts).  All theorems are for every history, every
script table, every initial clock value: `reachable` gives the invariant for the state after any
history, and the per-operation theorems (`iteration`, `timeout_bound`, `getDelayedCalls_exact`,
flags `*_forever`) are stated for every state satisfying it — i.e. for the next operation after
any history.  `history_timed_calls` packages them.

**The property on the global trace** (`TwistedProps/C08/Trace.lean`): a reference timer `Ref` is run
over the event trace alone (clock, creation count, scheduled time and status of every call — the
Lean twin of the Python oracle); `okAt r e` is what the statement demands of event `e`, `check` demands
it of every event.  `history_trace_ok`: the trace of EVERY history passes `check`.
`runs_exactly_once` unpacks it in the statement's words.

The statement's clauses and where they are:
* runs exactly once iff not cancelled first, never before its currently scheduled time, in the first
  iteration that starts at or after that time → `runs_exactly_once` (ONE theorem about the global
  trace: (a) no id twice in the run log; (b) at every `run` event: inside an iteration, existed before
  it began, no successful `cancel` before, not run before, scheduled time ≤ clock, ordering; (c) at
  every iteration end: every call that existed when it began and whose time has come has run or was
  cancelled).  Status characterisation `st_char_init`: called ⇔ in the run log, cancelled ⇔ a `cancel`
  succeeded.  (Per-iteration form, kept: `IterOK`, `called_forever`, `cancelled_forever`.)
* a call scheduled during an iteration does not run in that iteration → `runs_exactly_once` (b)
  (`id < r.n0`), `RunOK.old`.
* when a call runs no other pending call is scheduled earlier → `okAt` for `run` events / `RunOK.order`:
  proved against every other pending call that existed before the iteration began and every newer one
  not moved before the clock.  The remaining case — a call created inside the running iteration and
  then moved before the iteration's clock by `delay(negative)`/`reset(negative)` — is a real exception
  of the code (`order_counterexample`), finding key `staged-call-moved-before-now`; no implementation
  can meet this clause and the previous one together on such an input.  `nonneg_history_order`: for
  every history whose `reset()`/`delay()` arguments are non-negative (the statement's quantifier) the
  clause holds WITHOUT exception at every `run` event of the trace (`gentle_history_order`: more
  generally, whenever no `reset`/`delay` moves a call before the clock); `noStagedPastFor` holds there,
  so `order_full'` applies.
* getDelayedCalls returns exactly the pending calls → `okAt` for `delayed` events, `getDelayedCalls_exact`.
* the sleep timeout never exceeds the time until the earliest pending call → `okAt` for `timeout`
  events, `timeout_bound`.
* `_cancellations` (state anchor; not in the statement): `cancellations_counter_exact` — the counter
  equals the number of cancelled entries stored minus the number of cancelled calls that were still
  staged at the most recent compaction; `cancellations_counter_le`; `counter_negative_witness` (the
  intended invariant "= cancelled entries stored" fails: −1 with nothing cancelled stored; harmless —
  the counter only delays the compaction heuristic).
-/
namespace TwistedProps.C08
open Twisted.Reactor.Timers

theorem init_inv (base : Int) (scripts : List (List Op)) : Inv (Sys.init base scripts) := by
  have hc : ∀ j, (Sys.init base scripts).call j = dead := by
    intro j; simp [Sys.call, Sys.init]
  refine ⟨?_, by simp [Sys.init], ?_, ?_, ?_, ?_, ?_⟩
  · intro i _ hi; simp [Sys.init] at hi
  · intro j hj; simp [Sys.init] at hj
  · intro j hj; simp [Sys.init] at hj
  · intro j hj; rw [hc] at hj; simp [pendingC, dead] at hj
  · intro j; rw [hc]; simp [dead]
  · intro j _; exact hc j

theorem compact_spec (s : Sys) (I : Inv s) :
    Inv (compact s) ∧ (compact s).now = s.now ∧ (compact s).stuck = s.stuck ∧
    (compact s).call = s.call ∧ (compact s).calls.length = s.calls.length ∧
    (compact s).staged = s.staged ∧ ∀ j ∈ (compact s).heap, j ∈ s.heap := by
  unfold compact
  split
  · have H := heapify_spec s.key (s.heap.filter fun id => !(s.call id).cancelled)
    have hsub : ∀ j ∈ heapify s.key (s.heap.filter fun id => !(s.call id).cancelled), j ∈ s.heap :=
      fun j hj => (List.mem_filter.mp (H.2.mem_iff.mp hj)).1
    refine ⟨?_, rfl, rfl, rfl, rfl, rfl, hsub⟩
    show InvF s.call s.calls.length (heapify s.key _) s.staged
    have hperm := H.2.append_right s.staged
    have hsl : ((s.heap.filter fun id => !(s.call id).cancelled) ++ s.staged).Sublist (s.heap ++ s.staged) :=
      List.Sublist.append_right List.filter_sublist s.staged
    have hmem : ∀ j ∈ heapify s.key (s.heap.filter fun id => !(s.call id).cancelled) ++ s.staged,
        j ∈ s.heap ++ s.staged := fun j hj => hsl.subset (hperm.mem_iff.mp hj)
    refine ⟨H.1, hperm.nodup_iff.mpr (I.nodup.sublist hsl), fun j hj => I.bound j (hmem j hj),
      fun j hj => I.live j (hmem j hj), ?_, I.dnn, I.out⟩
    intro j hj
    apply hperm.mem_iff.mpr
    rcases List.mem_append.mp (I.pend j hj) with h | h
    · apply List.mem_append_left
      rw [List.mem_filter]
      refine ⟨h, ?_⟩
      rw [pendingC_iff] at hj
      simp [hj.1]
    · exact List.mem_append_right _ h
  · exact ⟨I, rfl, rfl, rfl, rfl, rfl, fun _ h => h⟩

theorem loopFuel_enough (s : Sys) : pot s < loopFuel s := by
  unfold pot loopFuel
  have h1 := List.countP_le_length (p := fun j => decide (0 < (s.call j).delayed)) (l := s.heap)
  have : (s.heap.length + 1) * (s.heap.length + 1) = s.heap.length * (s.heap.length + 1) + s.heap.length + 1 := by
    simp only [Nat.mul_add, Nat.add_mul, Nat.mul_one, Nat.one_mul]; omega
  omega

/-- what one reactor iteration (`runUntilCurrent`) guarantees, started in state `s` -/
structure IterOK (s : Sys) : Prop where
  inv : Inv (runUntilCurrent s).1
  stuck : (runUntilCurrent s).1.stuck = false
  now : (runUntilCurrent s).1.now = s.now
  /-- every call entered: existed before the iteration, never called nor cancelled, due, in order -/
  runs : ∀ id snap, Ev.run id snap ∈ (runUntilCurrent s).2 → RunOK (insertNew s) s.calls.length id snap
  /-- … never called nor cancelled in terms of the state before the iteration -/
  fresh : ∀ id snap, Ev.run id snap ∈ (runUntilCurrent s).2 →
    (s.call id).called = false ∧ (s.call id).cancelled = false
  /-- each call entered is marked called afterwards -/
  marked : ∀ id snap, Ev.run id snap ∈ (runUntilCurrent s).2 → ((runUntilCurrent s).1.call id).called = true
  /-- no call is entered twice -/
  nodup : (runIds (runUntilCurrent s).2).Nodup
  /-- afterwards, every call that existed before the iteration and is still pending is not yet due -/
  complete : ∀ id, id < s.calls.length → (runUntilCurrent s).1.pending id = true →
    (runUntilCurrent s).1.now < (runUntilCurrent s).1.sched id
  mono : Mono s (runUntilCurrent s).1

theorem iteration (s : Sys) (I : Inv s) (hs : s.stuck = false) : IterOK s := by
  have N := insertNew_spec s I
  have hpre : Pre s.calls.length (insertNew s) :=
    ⟨N.1, fun j hj => by rw [← N.2.1.len]; exact N.1.bound j (List.mem_append_left _ hj),
     fun j hj => by rw [N.2.2] at hj; simp at hj, by rw [N.2.1.len]; exact Nat.le_refl _⟩
  have L := runLoop_spec s.calls.length (loopFuel (insertNew s)) (insertNew s) hpre
  have C := compact_spec _ L.1.inv
  have hstuck := L.2.2.2.2.2 (loopFuel_enough _) (by rw [N.2.1.stuck]; exact hs)
  have hmonoN : Mono s (insertNew s) :=
    ⟨N.2.1.now, N.2.1.scripts, by rw [N.2.1.len]; exact Nat.le_refl _,
     fun j _ h => by rw [N.2.1.called]; exact h, fun j _ h => by rw [N.2.1.cancelled]; exact h⟩
  have hmonoC : Mono (runLoop (loopFuel (insertNew s)) (insertNew s)).1
      (compact (runLoop (loopFuel (insertNew s)) (insertNew s)).1) :=
    ⟨C.2.1, by unfold compact; split <;> rfl, by rw [C.2.2.2.2.1]; exact Nat.le_refl _,
     fun j _ h => by rw [C.2.2.2.1]; exact h, fun j _ h => by rw [C.2.2.2.1]; exact h⟩
  refine ⟨C.1, by show (compact _).stuck = false; rw [C.2.2.1]; exact hstuck,
    by show (compact _).now = s.now; rw [C.2.1, L.2.1.now, N.2.1.now], ?_, ?_, ?_, L.2.2.2.1, ?_,
    (hmonoN.trans L.2.1).trans hmonoC⟩
  · intro id snap h; exact (L.2.2.1 id snap h).1
  · intro id snap h
    have := (L.2.2.1 id snap h).1.fresh
    rw [N.2.1.called, N.2.1.cancelled] at this
    exact this
  · intro id snap h
    show ((compact _).call id).called = true
    rw [C.2.2.2.1]; exact (L.2.2.1 id snap h).2
  · intro id hid hp
    have hp' : pendingC ((runLoop (loopFuel (insertNew s)) (insertNew s)).1.call id) = true := by
      have : (compact (runLoop (loopFuel (insertNew s)) (insertNew s)).1).call id =
          (runLoop (loopFuel (insertNew s)) (insertNew s)).1.call id := by rw [C.2.2.2.1]
      rw [← this]; exact hp
    have hm := L.1.inv.pend id hp'
    have hheap : id ∈ (runLoop (loopFuel (insertNew s)) (insertNew s)).1.heap := by
      rcases List.mem_append.mp hm with h | h
      · exact h
      · have := L.1.stagedNew id h; omega
    have hlt := L.2.2.2.2.1 hstuck id hheap
    have hd := L.1.inv.dnn id
    show (compact _).now < ((compact _).call id).time + ((compact _).call id).delayed
    rw [C.2.1, C.2.2.2.1]
    simp only [Sys.key] at hlt
    omega

/-- no pending call outside the heap (i.e. staged: created during the running iteration) has been
    moved before the clock — decidable on the snapshot -/
def noStagedPast (snap : Sys) : Prop :=
  ∀ j, j ∉ snap.heap → snap.pending j = true → snap.now ≤ snap.sched j

/-- the ordering clause without exception, when no staged call has been moved before the clock -/
theorem order_full (s : Sys) (n0 id : Nat) (snap : Sys) (r : RunOK s n0 id snap)
    (hst : noStagedPast snap) :
    ∀ j, j ≠ id → snap.pending j = true → snap.sched id ≤ snap.sched j := by
  intro j hj hp
  by_cases hm : j ∈ snap.heap
  · exact r.order j hj hp (Or.inl hm)
  · exact r.order j hj hp (Or.inr (hst j hm hp))

/-- `getDelayedCalls()` returns exactly the pending calls (each once, with its `getTime()`) -/
theorem getDelayedCalls_exact (s : Sys) (I : Inv s) :
    (∀ id t, (id, t) ∈ getDelayedCalls s ↔ (s.pending id = true ∧ t = s.sched id)) ∧
    ((getDelayedCalls s).map Prod.fst).Nodup := by
  constructor
  · intro id t
    unfold getDelayedCalls
    simp only [List.mem_map, List.mem_filter, Prod.mk.injEq]
    constructor
    · rintro ⟨a, ⟨ha, hx⟩, rfl, rfl⟩
      refine ⟨?_, rfl⟩
      show pendingC (s.call a) = true
      rw [pendingC_iff]
      exact ⟨by simpa using hx, I.live a ha⟩
    · rintro ⟨hp, rfl⟩
      have hp' : pendingC (s.call id) = true := hp
      refine ⟨id, ⟨I.pend id hp', ?_⟩, rfl, rfl⟩
      rw [pendingC_iff] at hp'
      simp [hp'.1]
  · unfold getDelayedCalls
    rw [List.map_map]
    have : (Prod.fst ∘ fun id => (id, s.sched id)) = id := by funext x; rfl
    rw [this, List.map_id]
    exact I.nodup.filter _

/-- `timeout()`: `None` only when nothing is pending; otherwise within `[0, longest]` and never
    beyond the time until any (hence the earliest) pending call (0 when one is overdue) -/
theorem timeout_bound (s : Sys) (I : Inv s) :
    Inv (timeout s).1 ∧ (timeout s).1.stuck = s.stuck ∧ Mono s (timeout s).1 ∧
    ((timeout s).2 = none → ∀ id, s.pending id = false) ∧
    (∀ v, (timeout s).2 = some v → 0 ≤ v ∧ v ≤ longest ∧
      ∀ id, s.pending id = true → v ≤ max 0 (s.sched id - s.now)) := by
  have N := insertNew_spec s I
  have hmonoN : Mono s (insertNew s) :=
    ⟨N.2.1.now, N.2.1.scripts, by rw [N.2.1.len]; exact Nat.le_refl _,
     fun j _ h => by rw [N.2.1.called]; exact h, fun j _ h => by rw [N.2.1.cancelled]; exact h⟩
  have hl : (0 : Int) ≤ longest := by decide
  unfold timeout
  cases hh : (insertNew s).heap with
  | nil =>
    simp only [hh]
    refine ⟨N.1, N.2.1.stuck, hmonoN, ?_, by simp⟩
    intro _ id
    cases hp : s.pending id
    · rfl
    · exfalso
      have hp' : pendingC ((insertNew s).call id) = true := by
        have := N.2.1.pending id; rw [hp] at this; exact this
      have := N.1.pend id hp'
      rw [hh, N.2.2] at this; simp at this
  | cons root tl =>
    simp only [hh]
    refine ⟨N.1, N.2.1.stuck, hmonoN, by simp, ?_⟩
    intro v hv
    simp only [Option.some.injEq] at hv
    subst hv
    refine ⟨by omega, by omega, ?_⟩
    intro id hp
    have hp' : pendingC ((insertNew s).call id) = true := by
      have := N.2.1.pending id; rw [hp] at this; exact this
    have hm := N.1.pend id hp'
    rw [N.2.2] at hm
    simp only [List.append_nil] at hm
    have h1 := isHeap_root_le_mem (insertNew s).key (insertNew s).heap N.1.isHeap id hm
    rw [hh] at h1
    simp only [List.getD_cons_zero] at h1
    have h2 := N.1.dnn id
    have h3 := N.2.1.sched id
    have h4 := N.2.1.now
    simp only [Sys.key, Sys.sched] at h1 h3 ⊢
    omega

/-- `called` and `cancelled` are never reset -/
structure Flags (s s' : Sys) : Prop where
  len : s.calls.length ≤ s'.calls.length
  called : ∀ j, j < s.calls.length → (s.call j).called = true → (s'.call j).called = true
  cancelled : ∀ j, j < s.calls.length → (s.call j).cancelled = true → (s'.call j).cancelled = true

theorem Mono.toFlags {s s' : Sys} (m : Mono s s') : Flags s s' := ⟨m.len, m.called, m.cancelled⟩
theorem Flags.refl (s : Sys) : Flags s s := ⟨Nat.le_refl _, fun _ _ h => h, fun _ _ h => h⟩
theorem Flags.trans {a b c : Sys} (f : Flags a b) (g : Flags b c) : Flags a c :=
  ⟨Nat.le_trans f.len g.len,
   fun j hj h => g.called j (Nat.lt_of_lt_of_le hj f.len) (f.called j hj h),
   fun j hj h => g.cancelled j (Nat.lt_of_lt_of_le hj f.len) (f.cancelled j hj h)⟩

/-- every top-level operation preserves the invariant -/
theorem step_spec (s : Sys) (t : Top) (I : Inv s) (hs : s.stuck = false) :
    Inv (step s t).1 ∧ (step s t).1.stuck = false ∧ Flags s (step s t).1 := by
  cases t with
  | user o =>
    have A := applyOp_spec s o I
    exact ⟨A.1, by show (applyOp s o).1.stuck = false; rw [A.2.stuck]; exact hs, A.2.toMono.toFlags⟩
  | advance dt => exact ⟨I, hs, ⟨Nat.le_refl _, fun _ _ h => h, fun _ _ h => h⟩⟩
  | iterate =>
    have A := iteration s I hs
    exact ⟨A.inv, A.stuck, A.mono.toFlags⟩
  | timeout =>
    have A := timeout_bound s I
    exact ⟨A.1, by show (timeout s).1.stuck = false; rw [A.2.1]; exact hs, A.2.2.1.toFlags⟩
  | getDelayedCalls => exact ⟨I, hs, Flags.refl s⟩
  | counter => exact ⟨I, hs, Flags.refl s⟩

theorem exec_spec : ∀ (ops : List Top) (s : Sys), Inv s → s.stuck = false →
    Inv (exec s ops).1 ∧ (exec s ops).1.stuck = false ∧ Flags s (exec s ops).1
  | [], s, I, hs => ⟨I, hs, Flags.refl s⟩
  | t :: ts, s, I, hs => by
    have A := step_spec s t I hs
    have B := exec_spec ts (step s t).1 A.1 A.2.1
    exact ⟨B.1, B.2.1, A.2.2.trans B.2.2⟩

/-- the state after ANY history satisfies the invariant (and the loop fuel never ran out) -/
theorem reachable (base : Int) (scripts : List (List Op)) (ops : List Top) :
    Inv (exec (Sys.init base scripts) ops).1 ∧ (exec (Sys.init base scripts) ops).1.stuck = false :=
  let A := exec_spec ops (Sys.init base scripts) (init_inv base scripts) rfl
  ⟨A.1, A.2.1⟩

/-! ### the property on the GLOBAL TRACE of any history

`history_trace_ok`: the trace of every history passes `check` (the reference timer of
`TwistedProps/C08/Trace.lean`, the Lean twin of the Python oracle).  `runs_exactly_once` unpacks
it into the statement's words. -/

/-- a block of top-level events: every event passes, the reference timer follows the model, and
    no iteration is left open -/
structure TopOK (r : Ref) (evs : List Ev) (s' : Sys) : Prop where
  chk : always okL r evs
  sim : Sim (refRun r evs) s'
  out : (refRun r evs).inIter = false

theorem runUntilCurrent_eq (s : Sys) :
    runUntilCurrent s = (compact (runLoop (loopFuel (insertNew s)) (insertNew s)).1,
      (runLoop (loopFuel (insertNew s)) (insertNew s)).2) := rfl

theorem timeout_fst (s : Sys) : (timeout s).1 = insertNew s := by
  cases h : (insertNew s).heap <;> simp only [timeout, h]

theorem iterate_top (r : Ref) (s : Sys) (I : Inv s) (hs : s.stuck = false) (S : Sim r s)
    (hin : r.inIter = false) :
    TopOK r (Ev.iterBegin :: (runUntilCurrent s).2 ++ [Ev.iterEnd]) (runUntilCurrent s).1 := by
  have IT := iteration s I hs
  have N := insertNew_spec s I
  have hpre : Pre s.calls.length (insertNew s) :=
    ⟨N.1, fun j hj => by rw [← N.2.1.len]; exact N.1.bound j (List.mem_append_left _ hj),
     fun j hj => by rw [N.2.2] at hj; simp at hj, by rw [N.2.1.len]; exact Nat.le_refl _⟩
  have S1 : Sim (refStep r Ev.iterBegin) (insertNew s) :=
    View.sim (⟨S.now, S.n, S.T, S.st⟩ : Sim (refStep r Ev.iterBegin) s) N.2.1
  have L := runLoop_blk s.calls.length (loopFuel (insertNew s)) (refStep r Ev.iterBegin) (insertNew s)
    hpre S1 S.n rfl
  have PL := (runLoop_spec s.calls.length (loopFuel (insertNew s)) (insertNew s) hpre).1
  have C := compact_spec _ PL.inv
  have hcomplete : ∀ id, id < s.calls.length →
      (compact (runLoop (loopFuel (insertNew s)) (insertNew s)).1).pending id = true →
      (compact (runLoop (loopFuel (insertNew s)) (insertNew s)).1).now <
        (compact (runLoop (loopFuel (insertNew s)) (insertNew s)).1).sched id := IT.complete
  have hlen : s.calls.length ≤ (compact (runLoop (loopFuel (insertNew s)) (insertNew s)).1).calls.length :=
    IT.mono.len
  clear IT
  show TopOK r (Ev.iterBegin :: (runLoop (loopFuel (insertNew s)) (insertNew s)).2 ++ [Ev.iterEnd])
    (compact (runLoop (loopFuel (insertNew s)) (insertNew s)).1)
  generalize hsL : (runLoop (loopFuel (insertNew s)) (insertNew s)).1 = sL at *
  generalize hev : (runLoop (loopFuel (insertNew s)) (insertNew s)).2 = evL at *
  have S2 : Sim (refRun (refStep r Ev.iterBegin) evL) (compact sL) :=
    L.sim.congr C.2.1 C.2.2.2.2.1
      (fun j => by show ((compact sL).call j).time + ((compact sL).call j).delayed = _; rw [C.2.2.2.1]; rfl)
      (fun j => by rw [C.2.2.2.1])
  have hn0 : (refRun (refStep r Ev.iterBegin) evL).n0 = s.calls.length := L.n0.trans S.n
  have hend : okAt (refRun (refStep r Ev.iterBegin) evL) Ev.iterEnd := by
    refine ⟨L.inIter, ?_⟩
    intro j hj hp
    rw [hn0] at hj
    have hjn : j < (refRun (refStep r Ev.iterBegin) evL).n := by
      rw [S2.n]; exact Nat.lt_of_lt_of_le hj hlen
    have hp' : (compact sL).pending j = true := by
      have := (stOf_pending ((compact sL).call j)).mp (by rw [← S2.st j hjn]; exact hp)
      exact this
    have := hcomplete j hj hp'
    rw [S2.now, S2.T j hjn]; exact this
  refine ⟨⟨⟨hin, trivial⟩, (always_append okL evL [Ev.iterEnd] _).mpr ⟨L.chk, ⟨hend, trivial⟩, trivial⟩⟩, ?_, ?_⟩
  · show Sim (refRun (refStep r Ev.iterBegin) (evL ++ [Ev.iterEnd])) (compact sL)
    rw [refRun_append]
    exact ⟨S2.now, S2.n, S2.T, S2.st⟩
  · show (refRun (refStep r Ev.iterBegin) (evL ++ [Ev.iterEnd])).inIter = false
    rw [refRun_append]; rfl

theorem step_top (r : Ref) (s : Sys) (t : Top) (I : Inv s) (hs : s.stuck = false) (S : Sim r s)
    (hin : r.inIter = false) : TopOK r (step s t).2 (step s t).1 := by
  cases t with
  | user o =>
    have B := applyOp_blk r s o S
    exact ⟨B.chk, B.sim, B.inIter.trans hin⟩
  | advance dt =>
    refine ⟨⟨⟨hin, trivial⟩, trivial⟩, ?_, hin⟩
    exact ⟨by show r.now + dt = s.now + dt; rw [S.now], S.n, S.T, S.st⟩
  | iterate => exact iterate_top r s I hs S hin
  | timeout =>
    have TB := timeout_bound s I
    have N := insertNew_spec s I
    have hpend : ∀ j, j < r.n → (r.st j = St.pending ↔ s.pending j = true) := by
      intro j hj; rw [S.st j hj, stOf_pending]; rfl
    refine ⟨⟨⟨?_, trivial⟩, trivial⟩, ?_, hin⟩
    · show okAt r (Ev.timeout (timeout s).2)
      cases hv : (timeout s).2 with
      | none =>
        intro j hj hp
        have := TB.2.2.2.1 hv j
        rw [(hpend j hj).mp hp] at this; cases this
      | some v =>
        have := TB.2.2.2.2 v hv
        refine ⟨this.1, this.2.1, ?_⟩
        intro j hj hp
        rw [S.T j hj, S.now]
        exact this.2.2 j ((hpend j hj).mp hp)
    · show Sim r (timeout s).1
      rw [timeout_fst]; exact View.sim S N.2.1
  | getDelayedCalls =>
    have G := getDelayedCalls_exact s I
    refine ⟨⟨⟨⟨?_, G.2⟩, trivial⟩, trivial⟩, S, hin⟩
    intro id t
    rw [G.1 id t]
    constructor
    · rintro ⟨hp, ht⟩
      have hid : id < r.n := by rw [S.n]; exact pending_lt s I id hp
      exact ⟨hid, by rw [S.st id hid, stOf_pending]; exact hp, by rw [S.T id hid]; exact ht⟩
    · rintro ⟨hid, hp, ht⟩
      exact ⟨by rw [S.st id hid, stOf_pending] at hp; exact hp, by rw [← S.T id hid]; exact ht⟩
  | counter => exact ⟨⟨⟨trivial, trivial⟩, trivial⟩, S, hin⟩

theorem exec_top : ∀ (ops : List Top) (r : Ref) (s : Sys), Inv s → s.stuck = false → Sim r s →
    r.inIter = false → TopOK r (exec s ops).2 (exec s ops).1
  | [], r, s, _, _, S, hin => ⟨trivial, S, hin⟩
  | t :: ts, r, s, I, hs, S, hin => by
    have A := step_top r s t I hs S hin
    have Sp := step_spec s t I hs
    have B := exec_top ts (refRun r (step s t).2) (step s t).1 Sp.1 Sp.2.1 A.sim A.out
    simp only [exec]
    refine ⟨(always_append okL _ _ r).mpr ⟨A.chk, B.chk⟩, ?_, ?_⟩
    · rw [refRun_append]; exact B.sim
    · rw [refRun_append]; exact B.out

theorem init_sim (base : Int) (scripts : List (List Op)) : Sim (Ref.init base) (Sys.init base scripts) :=
  ⟨rfl, rfl, fun j hj => by simp [Ref.init] at hj, fun j hj => by simp [Ref.init] at hj⟩

/-- the trace of ANY history passes the reference timer's check at every event, and every `run`
    event's snapshot is linked to the reference state (`linkAt`) -/
theorem history_trace_linked (base : Int) (scripts : List (List Op)) (ops : List Top) :
    always okL (Ref.init base) (exec (Sys.init base scripts) ops).2 :=
  (exec_top ops (Ref.init base) (Sys.init base scripts) (init_inv base scripts) rfl
    (init_sim base scripts) rfl).chk

/-- **The property on the global trace.**  For ANY history (any script table, any initial clock),
    the whole event trace passes `check`: see `okAt` for what is demanded of each event. -/
theorem history_trace_ok (base : Int) (scripts : List (List Op)) (ops : List Top) :
    check (Ref.init base) (exec (Sys.init base scripts) ops).2 :=
  ((always_and okAt linkAt _ _).mp (history_trace_linked base scripts ops)).1

/-- **Runs exactly once iff not cancelled first, never early, in the first iteration at or after
    its time** — one statement about the global trace `tr` of any history.  `refRun (Ref.init base)
    pre` is the reference timer after the events `pre`: `.now` the clock, `.T id` the currently
    scheduled time of call `id` (as set by the `callLater`/`reset`/`delay` events in `pre`), `.n0`
    the number of calls that existed when the running iteration began.
    (a) no call id occurs twice in the run log;
    (b) whenever a call is entered: an iteration is running and the call existed before it began
        (calls scheduled during an iteration do not run in it); no `cancel` of it succeeded before
        and it has not run before; its scheduled time has come, and the clock it sees is the
        reference clock; and no other pending call that existed before the iteration began, or that
        is not scheduled before the clock, is scheduled earlier (for the remaining calls see
        `order_counterexample` and `nonneg_history_order`);
    (c) whenever an iteration ends: every call that existed when it began and whose scheduled time
        is at or before the clock has run (in this iteration or before) or was cancelled.
    By (b) a call never runs before its time, so with (c) a call that is never cancelled runs in
    the FIRST iteration that starts at or after its scheduled time, and by (a) only there. -/
theorem runs_exactly_once (base : Int) (scripts : List (List Op)) (ops : List Top) :
    let tr := (exec (Sys.init base scripts) ops).2
    (runIds tr).Nodup ∧
    (∀ pre id snap post, tr = pre ++ Ev.run id snap :: post →
      let r := refRun (Ref.init base) pre
      r.inIter = true ∧ id < r.n0 ∧ r.n0 ≤ r.n ∧
      ¬ wasCancelled id pre ∧ id ∉ runIds pre ∧
      r.T id ≤ r.now ∧ snap.now = r.now ∧
      (∀ j, j < r.n → j ≠ id → r.st j = St.pending → (j < r.n0 ∨ r.now ≤ r.T j) → r.T id ≤ r.T j)) ∧
    (∀ pre post, tr = pre ++ Ev.iterEnd :: post →
      let r := refRun (Ref.init base) pre
      ∀ id, id < r.n0 → r.T id ≤ r.now → id ∈ runIds pre ∨ wasCancelled id pre) := by
  intro tr
  have H : check (Ref.init base) tr := history_trace_ok base scripts ops
  refine ⟨check_runs_nodup tr _ H, ?_, ?_⟩
  · intro pre id snap post he r
    rw [he] at H
    have hpre : check (Ref.init base) pre := ((always_append okAt _ _ _).mp H).1
    have ok : okAt r (Ev.run id snap) := always_split okAt _ pre _ post H
    simp only [okAt] at ok
    have hc := st_char_init base pre hpre id (by show id < r.n; omega)
    have hp := hc.2.2.mp ok.2.2.2.2.1
    exact ⟨ok.1, ok.2.2.1, ok.2.2.2.1, hp.2, hp.1, ok.2.2.2.2.2.1, ok.2.1, ok.2.2.2.2.2.2⟩
  · intro pre post he r id hid hT
    rw [he] at H
    have hpre : check (Ref.init base) pre := ((always_append okAt _ _ _).mp H).1
    have ok : okAt r Ev.iterEnd := always_split okAt _ pre _ post H
    simp only [okAt] at ok
    have hn : r.n0 ≤ r.n := n0_le_n pre (Ref.init base) (Nat.le_refl _)
    have hc := st_char_init base pre hpre id (by show id < r.n; omega)
    cases hst : r.st id with
    | pending => have := ok.2 id hid hst; omega
    | cancelled => exact Or.inr (hc.2.1.mp hst)
    | called => exact Or.inl (hc.1.mp hst)

/-! ### timed calls that raise

A user function may raise — any exception class, inside or outside the `Exception` hierarchy;
`runUntilCurrent` logs the failure and goes on (`Stmt`, `executed` in `TwistedModel/Reactor/Timers`).
The theorems above quantify over ALL script tables, hence over the executed parts of all tables of
bodies that raise: the property holds of every history in which calls raise, in particular the
remaining due calls run in the same iteration and the raising call counts as run. -/

theorem raising_history_trace_ok (base : Int) (progs : List (List Stmt)) (ops : List Top) :
    check (Ref.init base) (exec (Sys.initProg base progs) ops).2 :=
  history_trace_ok base (progs.map executed) ops

theorem raising_runs_exactly_once (base : Int) (progs : List (List Stmt)) (ops : List Top) :
    let tr := (exec (Sys.initProg base progs) ops).2
    (runIds tr).Nodup ∧
    (∀ pre id snap post, tr = pre ++ Ev.run id snap :: post →
      let r := refRun (Ref.init base) pre
      r.inIter = true ∧ id < r.n0 ∧ r.n0 ≤ r.n ∧
      ¬ wasCancelled id pre ∧ id ∉ runIds pre ∧
      r.T id ≤ r.now ∧ snap.now = r.now ∧
      (∀ j, j < r.n → j ≠ id → r.st j = St.pending → (j < r.n0 ∨ r.now ≤ r.T j) → r.T id ≤ r.T j)) ∧
    (∀ pre post, tr = pre ++ Ev.iterEnd :: post →
      let r := refRun (Ref.init base) pre
      ∀ id, id < r.n0 → r.T id ≤ r.now → id ∈ runIds pre ∨ wasCancelled id pre) :=
  runs_exactly_once base (progs.map executed) ops

/-- a body without `raise` is executed whole; nothing after a `raise` is executed -/
theorem executed_no_raise (os : List Op) : executed (os.map Stmt.op) = os := by
  induction os with
  | nil => rfl
  | cons o os ih => simp [executed, ih]

theorem executed_until_raise (os : List Op) (k : Nat) (rest : List Stmt) :
    executed (os.map Stmt.op ++ Stmt.raise k :: rest) = os := by
  induction os with
  | nil => rfl
  | cons o os ih => simp [executed, ih]

/-! ### the ordering clause for histories that never move a call before the clock
(in particular: non-negative `delay()`/`reset()` arguments — the histories of the property's text) -/

/-- `noStagedPast` for the snapshot of the `run` event of call `id`: no OTHER pending call outside
    the heap (i.e. staged: created during the running iteration) is scheduled before the clock.
    (`noStagedPast snap` also constrains the entered call itself, which is pending and already popped
    in `snap`; it implies this one — `noStagedPast_imp`.) -/
def noStagedPastFor (id : Nat) (snap : Sys) : Prop :=
  ∀ j, j ≠ id → j ∉ snap.heap → snap.pending j = true → snap.now ≤ snap.sched j

theorem noStagedPast_imp (id : Nat) (snap : Sys) (h : noStagedPast snap) : noStagedPastFor id snap :=
  fun j _ hm hp => h j hm hp

/-- `order_full` under the weaker (satisfiable also when the entered call is overdue) hypothesis -/
theorem order_full' (s : Sys) (n0 id : Nat) (snap : Sys) (r : RunOK s n0 id snap)
    (hst : noStagedPastFor id snap) :
    ∀ j, j ≠ id → snap.pending j = true → snap.sched id ≤ snap.sched j := by
  intro j hj hp
  by_cases hm : j ∈ snap.heap
  · exact r.order j hj hp (Or.inl hm)
  · exact r.order j hj hp (Or.inr (hst j hj hm hp))

/-- **Dynamic form.**  If no `reset`/`delay` event of the history moves a call before the clock
    (`gentleAt`: `reset` with a non-negative argument; `delay` with a non-negative argument or
    landing at or after the clock), then at every `run` event of the global trace no staged call is
    scheduled before the clock (`noStagedPastFor`), so the ordering clause holds without exception:
    no other pending call is scheduled earlier than the call being entered. -/
theorem gentle_history_order (base : Int) (scripts : List (List Op)) (ops : List Top)
    (hg : always gentleAt (Ref.init base) (exec (Sys.init base scripts) ops).2) :
    always orderAt (Ref.init base) (exec (Sys.init base scripts) ops).2 ∧
    ∀ id snap, Ev.run id snap ∈ (exec (Sys.init base scripts) ops).2 →
      noStagedPastFor id snap ∧
      ∀ j, j ≠ id → snap.pending j = true → snap.sched id ≤ snap.sched j := by
  have HL := (always_and okAt linkAt _ _).mp (history_trace_linked base scripts ops)
  have F0 : Fresh (Ref.init base) := by intro h; simp [Ref.init] at h
  have HF := always_fresh _ _ F0 HL.1 hg
  refine ⟨always_order _ _ F0 HL.1 hg, ?_⟩
  intro id snap hmem
  obtain ⟨pre, post, he⟩ := List.append_of_mem hmem
  rw [he] at HL HF
  have ok : okAt (refRun (Ref.init base) pre) (Ev.run id snap) := always_split okAt _ pre _ post HL.1
  have lk : linkAt (refRun (Ref.init base) pre) (Ev.run id snap) := always_split linkAt _ pre _ post HL.2
  have fr : Fresh (refRun (Ref.init base) pre) :=
    always_split (fun r _ => Fresh r) _ pre (Ev.run id snap) post HF
  have ord := order_of_fresh _ _ ok fr
  generalize refRun (Ref.init base) pre = r at ok lk fr ord
  simp only [okAt] at ok
  obtain ⟨S, hlt, hoth⟩ := lk
  have hidr : id < r.n := by omega
  constructor
  · intro j hj hnh hp
    have hjn := hlt j hp
    rcases hoth j hj hp with h | h
    · exact absurd h hnh
    · have := fr ok.1 j h hjn
      rw [S.now, S.T j hjn] at this; exact this
  · intro j hj hp
    have hjn := hlt j hp
    have hst : r.st j = St.pending := by rw [S.st j hjn, stOf_pending]; exact hp
    have := ord j hjn hj hst
    rw [S.T id hidr, S.T j hjn] at this; exact this

/-- a `reset`/`delay` with a non-negative argument (what the property's text quantifies over) -/
def nonnegOp : Op → Prop
  | .reset _ secs => 0 ≤ secs
  | .delay _ secs => 0 ≤ secs
  | _ => True

/-- every `reset`/`delay` written in the history — at top level or in any script — has a
    non-negative argument (a static condition on the history) -/
def NonNegHistory (scripts : List (List Op)) (ops : List Top) : Prop :=
  (∀ sc ∈ scripts, ∀ o ∈ sc, nonnegOp o) ∧ (∀ o, Top.user o ∈ ops → nonnegOp o)

def nonnegEv : Ev → Prop
  | .op o _ _ => nonnegOp o
  | _ => True

theorem runScript_nonneg : ∀ (os : List Op) (s : Sys), (∀ o ∈ os, nonnegOp o) →
    ∀ e ∈ (runScript s os).2, nonnegEv e
  | [], _, _, e, he => by simp [runScript] at he
  | o :: os, s, h, e, he => by
    simp only [runScript] at he
    rcases List.mem_cons.mp he with h1 | h1
    · subst h1; exact h o (by simp)
    · exact runScript_nonneg os _ (fun o' ho' => h o' (List.mem_cons_of_mem _ ho')) e h1

theorem getD_nonneg (scripts : List (List Op)) (k : Nat) (h : ∀ sc ∈ scripts, ∀ o ∈ sc, nonnegOp o) :
    ∀ o ∈ scripts.getD k [], nonnegOp o := by
  intro o ho
  by_cases hk : k < scripts.length
  · have : scripts.getD k [] = scripts[k] := by simp [List.getD_eq_getElem?_getD, hk]
    rw [this] at ho
    exact h _ (List.getElem_mem hk) o ho
  · have : scripts.getD k [] = [] := by
      simp [List.getD_eq_getElem?_getD, List.getElem?_eq_none (Nat.le_of_not_lt hk)]
    rw [this] at ho; simp at ho

theorem turn_nonneg (s s' : Sys) (evs : List Ev) (hsc : ∀ sc ∈ s.scripts, ∀ o ∈ sc, nonnegOp o)
    (h : turn s = some (s', evs)) : ∀ e ∈ evs, nonnegEv e := by
  obtain ⟨root, tl, id, heap', hh, hdue, hpop⟩ := turn_cases s s' evs h
  rw [turn_eq s root tl id heap' hh hdue hpop] at h
  split at h
  · simp only [Option.some.injEq, Prod.mk.injEq] at h
    obtain ⟨_, rfl⟩ := h
    intro e he; simp at he
  · split at h
    · simp only [Option.some.injEq, Prod.mk.injEq] at h
      obtain ⟨_, rfl⟩ := h
      intro e he; simp at he
    · simp only [Option.some.injEq, Prod.mk.injEq] at h
      obtain ⟨_, rfl⟩ := h
      intro e he
      rcases List.mem_cons.mp he with h1 | h1
      · subst h1; trivial
      · exact runScript_nonneg _ _ (getD_nonneg s.scripts _ hsc) e h1

theorem runLoop_nonneg (n0 : Nat) : ∀ (fuel : Nat) (s : Sys), Pre n0 s →
    (∀ sc ∈ s.scripts, ∀ o ∈ sc, nonnegOp o) → ∀ e ∈ (runLoop fuel s).2, nonnegEv e
  | 0, s, _, _, e, he => by
    rw [runLoop_zero] at he
    split at he <;> simp at he
  | fuel + 1, s, R, hsc, e, he => by
    rw [runLoop_succ] at he
    split at he
    · simp at he
    · rename_i s' evs ht
      have T := turn_spec n0 s s' evs R ht
      rcases List.mem_append.mp he with h1 | h1
      · exact turn_nonneg s s' evs hsc ht e h1
      · exact runLoop_nonneg n0 fuel s' T.pre (by rw [T.mono.scripts]; exact hsc) e h1

theorem step_nonneg (s : Sys) (t : Top) (I : Inv s) (hs : s.stuck = false)
    (hsc : ∀ sc ∈ s.scripts, ∀ o ∈ sc, nonnegOp o) (ht : ∀ o, t = Top.user o → nonnegOp o) :
    (∀ e ∈ (step s t).2, nonnegEv e) ∧ (step s t).1.scripts = s.scripts := by
  cases t with
  | user o =>
    refine ⟨?_, (applyOp_spec s o I).2.scripts⟩
    intro e he
    simp only [step, List.mem_singleton] at he
    subst he; exact ht o rfl
  | advance dt => exact ⟨by intro e he; simp only [step, List.mem_singleton] at he; subst he; trivial, rfl⟩
  | iterate =>
    refine ⟨?_, (iteration s I hs).mono.scripts⟩
    have N := insertNew_spec s I
    have hpre : Pre s.calls.length (insertNew s) :=
      ⟨N.1, fun j hj => by rw [← N.2.1.len]; exact N.1.bound j (List.mem_append_left _ hj),
       fun j hj => by rw [N.2.2] at hj; simp at hj, by rw [N.2.1.len]; exact Nat.le_refl _⟩
    intro e he
    simp only [step] at he
    rcases List.mem_cons.mp he with h1 | h1
    · subst h1; trivial
    · rcases List.mem_append.mp h1 with h2 | h2
      · exact runLoop_nonneg s.calls.length _ (insertNew s) hpre (by rw [N.2.1.scripts]; exact hsc) e h2
      · simp only [List.mem_singleton] at h2; subst h2; trivial
  | timeout =>
    exact ⟨by intro e he; simp only [step, List.mem_singleton] at he; subst he; trivial,
      (timeout_bound s I).2.2.1.scripts⟩
  | getDelayedCalls =>
    exact ⟨by intro e he; simp only [step, List.mem_singleton] at he; subst he; trivial, rfl⟩
  | counter =>
    exact ⟨by intro e he; simp only [step, List.mem_singleton] at he; subst he; trivial, rfl⟩

theorem exec_nonneg : ∀ (ops : List Top) (s : Sys), Inv s → s.stuck = false →
    (∀ sc ∈ s.scripts, ∀ o ∈ sc, nonnegOp o) → (∀ o, Top.user o ∈ ops → nonnegOp o) →
    ∀ e ∈ (exec s ops).2, nonnegEv e
  | [], _, _, _, _, _, e, he => by simp [exec] at he
  | t :: ts, s, I, hs, hsc, hops, e, he => by
    simp only [exec] at he
    have A := step_nonneg s t I hs hsc (fun o ho => hops o (by rw [ho]; exact List.mem_cons_self))
    have Sp := step_spec s t I hs
    rcases List.mem_append.mp he with h1 | h1
    · exact A.1 e h1
    · exact exec_nonneg ts (step s t).1 Sp.1 Sp.2.1 (by rw [A.2]; exact hsc)
        (fun o ho => hops o (List.mem_cons_of_mem _ ho)) e h1

theorem always_gentle_of_nonneg : ∀ (tr : List Ev) (r : Ref), (∀ e ∈ tr, nonnegEv e) → always gentleAt r tr
  | [], _, _ => trivial
  | e :: es, r, h => by
    refine ⟨?_, always_gentle_of_nonneg es _ (fun e' he' => h e' (List.mem_cons_of_mem _ he'))⟩
    have := h e List.mem_cons_self
    cases e with
    | op o t res =>
      cases o with
      | reset ref secs => exact this
      | delay ref secs => exact Or.inl this
      | _ => trivial
    | _ => trivial

/-- **Static corollary (non-negative delays).**  For every history whose `reset()`/`delay()`
    arguments are all non-negative — at top level and in every script — every `run` event of the
    global trace satisfies `noStagedPastFor` (no call created during the running iteration is
    scheduled before its clock), hence the ordering clause holds WITHOUT exception: when a call
    runs, no other pending call is scheduled earlier.  (`callLater` refuses negative delays.) -/
theorem nonneg_history_order (base : Int) (scripts : List (List Op)) (ops : List Top)
    (h : NonNegHistory scripts ops) :
    always orderAt (Ref.init base) (exec (Sys.init base scripts) ops).2 ∧
    ∀ id snap, Ev.run id snap ∈ (exec (Sys.init base scripts) ops).2 →
      noStagedPastFor id snap ∧
      ∀ j, j ≠ id → snap.pending j = true → snap.sched id ≤ snap.sched j :=
  gentle_history_order base scripts ops
    (always_gentle_of_nonneg _ _
      (exec_nonneg ops (Sys.init base scripts) (init_inv base scripts) rfl h.1 h.2))

/-! ### the lazy-deletion counter `_cancellations` -/

/-- **`_cancellations`, exactly.**  After ANY history: `_cancellations` = (number of cancelled
    entries still stored in `_pendingTimedCalls` and `_newTimedCalls`) − debt, where the debt is the
    number of cancelled calls that were still in the staging list at the most recent compaction
    (`debtAfter`; 0 before the first compaction, never negative).  The intended invariant
    "`_cancellations` = cancelled entries stored" (debt = 0) does NOT hold: the compaction zeroes the
    counter but filters the heap only, so a call created and cancelled inside the compacting
    iteration is later subtracted a second time — `counter_negative_witness` reaches −1 with no
    cancelled entry stored (confirmed on the real `ReactorBase`).  The counter only drives the
    compaction heuristic: the next compaction fires `debt` cancellations late. -/
theorem cancellations_counter_exact (base : Int) (scripts : List (List Op)) (ops : List Top) :
    let s := (exec (Sys.init base scripts) ops).1
    s.canc = cancelledStored s - debtAfter (Sys.init base scripts) 0 ops ∧
    0 ≤ debtAfter (Sys.init base scripts) 0 ops :=
  cancellations_counter_exact_of
    (fun s t I hs => ⟨(step_spec s t I hs).1, (step_spec s t I hs).2.1⟩) base scripts (init_inv base scripts) ops

/-- the counter never over-counts -/
theorem cancellations_counter_le (base : Int) (scripts : List (List Op)) (ops : List Top) :
    let s := (exec (Sys.init base scripts) ops).1
    s.canc ≤ cancelledStored s :=
  cancellations_counter_le_of
    (fun s t I hs => ⟨(step_spec s t I hs).1, (step_spec s t I hs).2.1⟩) base scripts (init_inv base scripts) ops

/-- once run, a call stays marked called through any continuation of the history — together with
    `IterOK.fresh` it is never entered again -/
theorem called_forever (s : Sys) (I : Inv s) (hs : s.stuck = false) (ops : List Top) (id : Nat)
    (hid : id < s.calls.length) (h : (s.call id).called = true) :
    ((exec s ops).1.call id).called = true :=
  (exec_spec ops s I hs).2.2.called id hid h

/-- once cancelled, a call stays cancelled through any continuation — by `IterOK.fresh` it is
    never entered -/
theorem cancelled_forever (s : Sys) (I : Inv s) (hs : s.stuck = false) (ops : List Top) (id : Nat)
    (hid : id < s.calls.length) (h : (s.call id).cancelled = true) :
    ((exec s ops).1.call id).cancelled = true :=
  (exec_spec ops s I hs).2.2.cancelled id hid h

/-- a successful `cancel` marks the call cancelled -/
theorem cancel_ok_cancels (s : Sys) (id : Nat) (hid : id < s.calls.length)
    (h : (cancel s id).2 = Res.ok) : ((cancel s id).1.call id).cancelled = true := by
  unfold cancel at h ⊢
  simp only at h ⊢
  split
  · rename_i hx; rw [if_pos hx] at h; simp at h
  · rename_i hx
    split
    · rename_i hc; rw [if_neg hx, if_pos hc] at h; simp at h
    · show ((s.setCall id _).call id).cancelled = true
      rw [call_setCall s id _ hid]; simp [upd]

/-- **Headline.**  After ANY history (any script table, any initial clock): the invariant holds;
    the next iteration enters only calls that existed before it, were never called nor cancelled,
    are due, and are in order w.r.t. the heap (`IterOK.runs`), enters none twice, marks them
    called, and leaves no pre-existing pending call due; `getDelayedCalls()` is exactly the
    pending set; `timeout()` is `None` only if nothing is pending and otherwise at most the time
    to the earliest pending call. -/
theorem history_timed_calls (base : Int) (scripts : List (List Op)) (ops : List Top) :
    let s := (exec (Sys.init base scripts) ops).1
    Inv s ∧ IterOK s ∧
    ((∀ id t, (id, t) ∈ getDelayedCalls s ↔ (s.pending id = true ∧ t = s.sched id)) ∧
      ((getDelayedCalls s).map Prod.fst).Nodup) ∧
    ((timeout s).2 = none → ∀ id, s.pending id = false) ∧
    (∀ v, (timeout s).2 = some v → 0 ≤ v ∧ v ≤ longest ∧
      ∀ id, s.pending id = true → v ≤ max 0 (s.sched id - s.now)) := by
  intro s
  have R := reachable base scripts ops
  have T := timeout_bound s R.1
  exact ⟨R.1, iteration s R.1 R.2, getDelayedCalls_exact s R.1, T.2.2.2.1, T.2.2.2.2⟩

/-! ### the exception of the ordering clause is real, and the theorems are not vacuous -/

/-- some call is entered while another pending call is scheduled strictly earlier -/
def orderViolated : List Ev → Bool
  | [] => false
  | Ev.run id snap :: es =>
    (List.range snap.calls.length).any (fun j => j != id && snap.pending j && decide (snap.sched j < snap.sched id))
      || orderViolated es
  | _ :: es => orderViolated es

/-- the witness found by the oracle on the real code: call 0 (due at 1) schedules call 2 with delay
    0 from inside its body and moves it back by 24 ticks, to 8; call 1 (due at 16) is then entered
    at clock 32 while call 2 is pending with scheduled time 8 -/
def witnessScripts : List (List Op) := [[Op.callLater 0 9, Op.delay 2 (-24)]]
def witnessOps : List Top :=
  [Top.user (Op.callLater 1 0), Top.user (Op.callLater 16 2), Top.advance 32, Top.iterate]

theorem order_counterexample :
    orderViolated (exec (Sys.init 0 witnessScripts) witnessOps).2 = true := by decide

def runLog : List Ev → List (Nat × Int)
  | [] => []
  | Ev.run id snap :: es => (id, snap.now) :: runLog es
  | _ :: es => runLog es

/-- non-vacuity: a history with a reset-to-earlier from inside a running call, a cancellation and
    a `delay`; calls run as (id, clock): 0@16 resets call 2 to now, so 2@16 runs in the same
    iteration; call 1 was cancelled; call 3 runs at 48 after being delayed -/
example :
    runLog (exec (Sys.init 0 [[Op.reset 2 0], []])
      [Top.user (Op.callLater 16 0), Top.user (Op.callLater 24 1), Top.user (Op.callLater 80 1),
       Top.user (Op.callLater 32 1), Top.user (Op.cancel 1), Top.user (Op.delay 3 16),
       Top.advance 16, Top.iterate, Top.advance 16, Top.iterate, Top.advance 16, Top.iterate]).2
      = [(0, 16), (2, 16), (3, 48)] := by decide

example : (getDelayedCalls (exec (Sys.init 0 [[]])
      [Top.user (Op.callLater 16 0), Top.user (Op.callLater 8 0), Top.user (Op.cancel 0), Top.timeout]).1)
      = [(1, 8)] := by decide

example : (timeout (exec (Sys.init 5 [[]]) [Top.user (Op.callLater 16 0), Top.user (Op.delay 0 (-4))]).1).2
      = some 12 := by decide

/-- non-vacuity of the raising-call theorems: call 0 resets call 2 to now and then raises (its
    `cancel 1` is not executed); call 1 raises at once; all three run in the iteration at 16 -/
example :
    runLog (exec (Sys.initProg 0 [[Stmt.op (Op.reset 2 0), Stmt.raise 1, Stmt.op (Op.cancel 1)], [Stmt.raise 2]])
      [Top.user (Op.callLater 16 0), Top.user (Op.callLater 16 1), Top.user (Op.callLater 80 1),
       Top.advance 16, Top.iterate, Top.user (Op.cancel 0)]).2
      = [(0, 16), (1, 16), (2, 16)] := by decide

/-- non-vacuity of `check`: it rejects a call entered outside any iteration … -/
example : ¬ check (Ref.init 0) [Ev.run 0 (Sys.init 0 [])] := by
  intro h
  have := h.1
  simp [okAt, Ref.init] at this

/-- … a call entered twice … -/
example : ¬ check (Ref.init 0)
    [Ev.op (Op.callLater 0 0) 0 (Res.created 0), Ev.iterBegin, Ev.run 0 (Sys.init 0 []), Ev.run 0 (Sys.init 0 [])] := by
  intro h
  have := h.2.2.2.1
  simp [okAt, refStep, refOp, Ref.init, fset] at this

/-- … a call entered before its time … -/
example : ¬ check (Ref.init 0)
    [Ev.op (Op.callLater 5 0) 0 (Res.created 0), Ev.iterBegin, Ev.run 0 (Sys.init 0 [])] := by
  intro h
  have := h.2.2.1
  simp [okAt, refStep, refOp, Ref.init, fset] at this

/-- … and an iteration that ends leaving a due call pending -/
example : ¬ check (Ref.init 0)
    [Ev.op (Op.callLater 5 0) 0 (Res.created 0), Ev.advance 5, Ev.iterBegin, Ev.iterEnd] := by
  intro h
  have := h.2.2.2.1.2 0
  simp [refStep, refOp, Ref.init, fset] at this

/-- non-vacuity of `nonneg_history_order`: the history of the example above (reset to now from
    inside a running call, a cancellation, a positive `delay`) is a non-negative history -/
example : NonNegHistory [[Op.reset 2 0], []]
      [Top.user (Op.callLater 16 0), Top.user (Op.callLater 24 1), Top.user (Op.callLater 80 1),
       Top.user (Op.callLater 32 1), Top.user (Op.cancel 1), Top.user (Op.delay 3 16),
       Top.advance 16, Top.iterate, Top.advance 16, Top.iterate, Top.advance 16, Top.iterate] := by
  constructor
  · intro sc hsc o ho
    simp at hsc
    rcases hsc with rfl | rfl
    · simp at ho; subst ho; simp [nonnegOp]
    · simp at ho
  · intro o ho
    simp at ho
    rcases ho with rfl | rfl | rfl | rfl | rfl | rfl <;> simp [nonnegOp]

/-- the hypothesis of `nonneg_history_order` cannot be dropped: the witness history moves a staged
    call before the clock (`delay 2 (-24)` in a script) -/
example : ¬ NonNegHistory witnessScripts witnessOps := by
  intro h
  have := h.1 [Op.callLater 0 9, Op.delay 2 (-24)] (by simp [witnessScripts]) (Op.delay 2 (-24)) (by simp)
  simp [nonnegOp] at this

end TwistedProps.C08
