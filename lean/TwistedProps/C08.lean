import TwistedProps.C08.Loop
/-!
C08 — reactor timed calls run once, on time, in time order.

Model: `TwistedModel/Reactor/Timers.lean` (transcribes `ReactorBase.callLater/_moveCallLaterSooner/
_insertNewDelayedCalls/timeout/runUntilCurrent/getDelayedCalls`, `DelayedCall.cancel/reset/delay`,
CPython `heapq`).  A *history* is any list of top-level operations (`Top`): user operations
(callLater / cancel / reset / delay), clock advances, iterations (`runUntilCurrent`), `timeout()` and
`getDelayedCalls()` probes; user operations also happen *inside* running calls through the script
table (any table, including self-rescheduling scripts).  All theorems are for every history, every
script table, every initial clock value: `reachable` gives the invariant for the state after any
history, and the per-operation theorems (`iteration`, `timeout_bound`, `getDelayedCalls_exact`,
flags `*_forever`) are stated for every state satisfying it — i.e. for the next operation after
any history.  `history_timed_calls` packages them.

The statement's clauses and where they are:
* runs exactly once iff not cancelled first → `IterOK.runs` (`RunOK.pending`, `.fresh`: entered only
  if never called and not cancelled), `IterOK.nodup` (at most once per iteration), `IterOK.marked` +
  `called_forever` (never again later), `cancelled_forever`, and `IterOK.complete` (every
  pre-existing call still pending after an iteration is not yet due — so a call that is never
  cancelled runs in the first iteration at or after its time).
* never before its currently scheduled time → `RunOK.due`.
* in the first iteration that starts at or after that time → `IterOK.complete`.
* a call scheduled during an iteration does not run in that iteration → `RunOK.old`.
* when a call runs no other pending call is scheduled earlier → `RunOK.order`, `RunOK.others`:
  proved against every other pending call in the heap and every staged one not moved before the
  clock.  The remaining case — a call created inside the running iteration and then moved before the
  iteration's clock by `delay(negative)`/`reset(negative)` — is a real exception of the code
  (`order_counterexample`), finding key `staged-call-moved-before-now`; no implementation can meet
  this clause and the previous one together on such an input.  `order_full` gives the clause
  without exception under the decidable hypothesis `noStagedPast`.
* getDelayedCalls returns exactly the pending calls → `getDelayedCalls_exact`.
* the sleep timeout never exceeds the time until the earliest pending call → `timeout_bound`.
-/
namespace TwistedProps.C08
open Twisted.Reactor.Timers

theorem init_inv (base : Int) (scripts : List (List Op)) : Inv (Sys.init base scripts) := by
  have hc : ∀ j, (Sys.init base scripts).call j = dead := by
    intro j; simp [Sys.call, Sys.init]
  refine ⟨?_, by simp [Sys.init], ?_, ?_, ?_, ?_, ?_⟩
  · intro i _ hi; simp [Sys.init] at hi
  · intro j hj; simp [Sys.init] at hj
  · intro j hj; simp [Sys.init] at hj
  · intro j hj; rw [hc] at hj; simp [pendingC, dead] at hj
  · intro j; rw [hc]; simp [dead]
  · intro j _; exact hc j

theorem compact_spec (s : Sys) (I : Inv s) :
    Inv (compact s) ∧ (compact s).now = s.now ∧ (compact s).stuck = s.stuck ∧
    (compact s).call = s.call ∧ (compact s).calls.length = s.calls.length ∧
    (compact s).staged = s.staged ∧ ∀ j ∈ (compact s).heap, j ∈ s.heap := by
  unfold compact
  split
  · have H := heapify_spec s.key (s.heap.filter fun id => !(s.call id).cancelled)
    have hsub : ∀ j ∈ heapify s.key (s.heap.filter fun id => !(s.call id).cancelled), j ∈ s.heap :=
      fun j hj => (List.mem_filter.mp (H.2.mem_iff.mp hj)).1
    refine ⟨?_, rfl, rfl, rfl, rfl, rfl, hsub⟩
    show InvF s.call s.calls.length (heapify s.key _) s.staged
    have hperm := H.2.append_right s.staged
    have hsl : ((s.heap.filter fun id => !(s.call id).cancelled) ++ s.staged).Sublist (s.heap ++ s.staged) :=
      List.Sublist.append_right List.filter_sublist s.staged
    have hmem : ∀ j ∈ heapify s.key (s.heap.filter fun id => !(s.call id).cancelled) ++ s.staged,
        j ∈ s.heap ++ s.staged := fun j hj => hsl.subset (hperm.mem_iff.mp hj)
    refine ⟨H.1, hperm.nodup_iff.mpr (I.nodup.sublist hsl), fun j hj => I.bound j (hmem j hj),
      fun j hj => I.live j (hmem j hj), ?_, I.dnn, I.out⟩
    intro j hj
    apply hperm.mem_iff.mpr
    rcases List.mem_append.mp (I.pend j hj) with h | h
    · apply List.mem_append_left
      rw [List.mem_filter]
      refine ⟨h, ?_⟩
      rw [pendingC_iff] at hj
      simp [hj.1]
    · exact List.mem_append_right _ h
  · exact ⟨I, rfl, rfl, rfl, rfl, rfl, fun _ h => h⟩

theorem loopFuel_enough (s : Sys) : pot s < loopFuel s := by
  unfold pot loopFuel
  have h1 := List.countP_le_length (p := fun j => decide (0 < (s.call j).delayed)) (l := s.heap)
  have : (s.heap.length + 1) * (s.heap.length + 1) = s.heap.length * (s.heap.length + 1) + s.heap.length + 1 := by
    simp only [Nat.mul_add, Nat.add_mul, Nat.mul_one, Nat.one_mul]; omega
  omega

/-- what one reactor iteration (`runUntilCurrent`) guarantees, started in state `s` -/
structure IterOK (s : Sys) : Prop where
  inv : Inv (runUntilCurrent s).1
  stuck : (runUntilCurrent s).1.stuck = false
  now : (runUntilCurrent s).1.now = s.now
  /-- every call entered: existed before the iteration, never called nor cancelled, due, in order -/
  runs : ∀ id snap, Ev.run id snap ∈ (runUntilCurrent s).2 → RunOK (insertNew s) s.calls.length id snap
  /-- … never called nor cancelled in terms of the state before the iteration -/
  fresh : ∀ id snap, Ev.run id snap ∈ (runUntilCurrent s).2 →
    (s.call id).called = false ∧ (s.call id).cancelled = false
  /-- each call entered is marked called afterwards -/
  marked : ∀ id snap, Ev.run id snap ∈ (runUntilCurrent s).2 → ((runUntilCurrent s).1.call id).called = true
  /-- no call is entered twice -/
  nodup : (runIds (runUntilCurrent s).2).Nodup
  /-- afterwards, every call that existed before the iteration and is still pending is not yet due -/
  complete : ∀ id, id < s.calls.length → (runUntilCurrent s).1.pending id = true →
    (runUntilCurrent s).1.now < (runUntilCurrent s).1.sched id
  mono : Mono s (runUntilCurrent s).1

theorem iteration (s : Sys) (I : Inv s) (hs : s.stuck = false) : IterOK s := by
  have N := insertNew_spec s I
  have hpre : Pre s.calls.length (insertNew s) :=
    ⟨N.1, fun j hj => by rw [← N.2.1.len]; exact N.1.bound j (List.mem_append_left _ hj),
     fun j hj => by rw [N.2.2] at hj; simp at hj, by rw [N.2.1.len]; exact Nat.le_refl _⟩
  have L := runLoop_spec s.calls.length (loopFuel (insertNew s)) (insertNew s) hpre
  have C := compact_spec _ L.1.inv
  have hstuck := L.2.2.2.2.2 (loopFuel_enough _) (by rw [N.2.1.stuck]; exact hs)
  have hmonoN : Mono s (insertNew s) :=
    ⟨N.2.1.now, N.2.1.scripts, by rw [N.2.1.len]; exact Nat.le_refl _,
     fun j _ h => by rw [N.2.1.called]; exact h, fun j _ h => by rw [N.2.1.cancelled]; exact h⟩
  have hmonoC : Mono (runLoop (loopFuel (insertNew s)) (insertNew s)).1
      (compact (runLoop (loopFuel (insertNew s)) (insertNew s)).1) :=
    ⟨C.2.1, by unfold compact; split <;> rfl, by rw [C.2.2.2.2.1]; exact Nat.le_refl _,
     fun j _ h => by rw [C.2.2.2.1]; exact h, fun j _ h => by rw [C.2.2.2.1]; exact h⟩
  refine ⟨C.1, by show (compact _).stuck = false; rw [C.2.2.1]; exact hstuck,
    by show (compact _).now = s.now; rw [C.2.1, L.2.1.now, N.2.1.now], ?_, ?_, ?_, L.2.2.2.1, ?_,
    (hmonoN.trans L.2.1).trans hmonoC⟩
  · intro id snap h; exact (L.2.2.1 id snap h).1
  · intro id snap h
    have := (L.2.2.1 id snap h).1.fresh
    rw [N.2.1.called, N.2.1.cancelled] at this
    exact this
  · intro id snap h
    show ((compact _).call id).called = true
    rw [C.2.2.2.1]; exact (L.2.2.1 id snap h).2
  · intro id hid hp
    have hp' : pendingC ((runLoop (loopFuel (insertNew s)) (insertNew s)).1.call id) = true := by
      have : (compact (runLoop (loopFuel (insertNew s)) (insertNew s)).1).call id =
          (runLoop (loopFuel (insertNew s)) (insertNew s)).1.call id := by rw [C.2.2.2.1]
      rw [← this]; exact hp
    have hm := L.1.inv.pend id hp'
    have hheap : id ∈ (runLoop (loopFuel (insertNew s)) (insertNew s)).1.heap := by
      rcases List.mem_append.mp hm with h | h
      · exact h
      · have := L.1.stagedNew id h; omega
    have hlt := L.2.2.2.2.1 hstuck id hheap
    have hd := L.1.inv.dnn id
    show (compact _).now < ((compact _).call id).time + ((compact _).call id).delayed
    rw [C.2.1, C.2.2.2.1]
    simp only [Sys.key] at hlt
    omega

/-- no pending call outside the heap (i.e. staged: created during the running iteration) has been
    moved before the clock — decidable on the snapshot -/
def noStagedPast (snap : Sys) : Prop :=
  ∀ j, j ∉ snap.heap → snap.pending j = true → snap.now ≤ snap.sched j

/-- the ordering clause without exception, when no staged call has been moved before the clock -/
theorem order_full (s : Sys) (n0 id : Nat) (snap : Sys) (r : RunOK s n0 id snap)
    (hst : noStagedPast snap) :
    ∀ j, j ≠ id → snap.pending j = true → snap.sched id ≤ snap.sched j := by
  intro j hj hp
  by_cases hm : j ∈ snap.heap
  · exact r.order j hj hp (Or.inl hm)
  · exact r.order j hj hp (Or.inr (hst j hm hp))

/-- `getDelayedCalls()` returns exactly the pending calls (each once, with its `getTime()`) -/
theorem getDelayedCalls_exact (s : Sys) (I : Inv s) :
    (∀ id t, (id, t) ∈ getDelayedCalls s ↔ (s.pending id = true ∧ t = s.sched id)) ∧
    ((getDelayedCalls s).map Prod.fst).Nodup := by
  constructor
  · intro id t
    unfold getDelayedCalls
    simp only [List.mem_map, List.mem_filter, Prod.mk.injEq]
    constructor
    · rintro ⟨a, ⟨ha, hx⟩, rfl, rfl⟩
      refine ⟨?_, rfl⟩
      show pendingC (s.call a) = true
      rw [pendingC_iff]
      exact ⟨by simpa using hx, I.live a ha⟩
    · rintro ⟨hp, rfl⟩
      have hp' : pendingC (s.call id) = true := hp
      refine ⟨id, ⟨I.pend id hp', ?_⟩, rfl, rfl⟩
      rw [pendingC_iff] at hp'
      simp [hp'.1]
  · unfold getDelayedCalls
    rw [List.map_map]
    have : (Prod.fst ∘ fun id => (id, s.sched id)) = id := by funext x; rfl
    rw [this, List.map_id]
    exact I.nodup.filter _

/-- `timeout()`: `None` only when nothing is pending; otherwise within `[0, longest]` and never
    beyond the time until any (hence the earliest) pending call (0 when one is overdue) -/
theorem timeout_bound (s : Sys) (I : Inv s) :
    Inv (timeout s).1 ∧ (timeout s).1.stuck = s.stuck ∧ Mono s (timeout s).1 ∧
    ((timeout s).2 = none → ∀ id, s.pending id = false) ∧
    (∀ v, (timeout s).2 = some v → 0 ≤ v ∧ v ≤ longest ∧
      ∀ id, s.pending id = true → v ≤ max 0 (s.sched id - s.now)) := by
  have N := insertNew_spec s I
  have hmonoN : Mono s (insertNew s) :=
    ⟨N.2.1.now, N.2.1.scripts, by rw [N.2.1.len]; exact Nat.le_refl _,
     fun j _ h => by rw [N.2.1.called]; exact h, fun j _ h => by rw [N.2.1.cancelled]; exact h⟩
  have hl : (0 : Int) ≤ longest := by decide
  unfold timeout
  cases hh : (insertNew s).heap with
  | nil =>
    simp only [hh]
    refine ⟨N.1, N.2.1.stuck, hmonoN, ?_, by simp⟩
    intro _ id
    cases hp : s.pending id
    · rfl
    · exfalso
      have hp' : pendingC ((insertNew s).call id) = true := by
        have := N.2.1.pending id; rw [hp] at this; exact this
      have := N.1.pend id hp'
      rw [hh, N.2.2] at this; simp at this
  | cons root tl =>
    simp only [hh]
    refine ⟨N.1, N.2.1.stuck, hmonoN, by simp, ?_⟩
    intro v hv
    simp only [Option.some.injEq] at hv
    subst hv
    refine ⟨by omega, by omega, ?_⟩
    intro id hp
    have hp' : pendingC ((insertNew s).call id) = true := by
      have := N.2.1.pending id; rw [hp] at this; exact this
    have hm := N.1.pend id hp'
    rw [N.2.2] at hm
    simp only [List.append_nil] at hm
    have h1 := isHeap_root_le_mem (insertNew s).key (insertNew s).heap N.1.isHeap id hm
    rw [hh] at h1
    simp only [List.getD_cons_zero] at h1
    have h2 := N.1.dnn id
    have h3 := N.2.1.sched id
    have h4 := N.2.1.now
    simp only [Sys.key, Sys.sched] at h1 h3 ⊢
    omega

/-- `called` and `cancelled` are never reset -/
structure Flags (s s' : Sys) : Prop where
  len : s.calls.length ≤ s'.calls.length
  called : ∀ j, j < s.calls.length → (s.call j).called = true → (s'.call j).called = true
  cancelled : ∀ j, j < s.calls.length → (s.call j).cancelled = true → (s'.call j).cancelled = true

theorem Mono.toFlags {s s' : Sys} (m : Mono s s') : Flags s s' := ⟨m.len, m.called, m.cancelled⟩
theorem Flags.refl (s : Sys) : Flags s s := ⟨Nat.le_refl _, fun _ _ h => h, fun _ _ h => h⟩
theorem Flags.trans {a b c : Sys} (f : Flags a b) (g : Flags b c) : Flags a c :=
  ⟨Nat.le_trans f.len g.len,
   fun j hj h => g.called j (Nat.lt_of_lt_of_le hj f.len) (f.called j hj h),
   fun j hj h => g.cancelled j (Nat.lt_of_lt_of_le hj f.len) (f.cancelled j hj h)⟩

/-- every top-level operation preserves the invariant -/
theorem step_spec (s : Sys) (t : Top) (I : Inv s) (hs : s.stuck = false) :
    Inv (step s t).1 ∧ (step s t).1.stuck = false ∧ Flags s (step s t).1 := by
  cases t with
  | user o =>
    have A := applyOp_spec s o I
    exact ⟨A.1, by show (applyOp s o).1.stuck = false; rw [A.2.stuck]; exact hs, A.2.toMono.toFlags⟩
  | advance dt => exact ⟨I, hs, ⟨Nat.le_refl _, fun _ _ h => h, fun _ _ h => h⟩⟩
  | iterate =>
    have A := iteration s I hs
    exact ⟨A.inv, A.stuck, A.mono.toFlags⟩
  | timeout =>
    have A := timeout_bound s I
    exact ⟨A.1, by show (timeout s).1.stuck = false; rw [A.2.1]; exact hs, A.2.2.1.toFlags⟩
  | getDelayedCalls => exact ⟨I, hs, Flags.refl s⟩

theorem exec_spec : ∀ (ops : List Top) (s : Sys), Inv s → s.stuck = false →
    Inv (exec s ops).1 ∧ (exec s ops).1.stuck = false ∧ Flags s (exec s ops).1
  | [], s, I, hs => ⟨I, hs, Flags.refl s⟩
  | t :: ts, s, I, hs => by
    have A := step_spec s t I hs
    have B := exec_spec ts (step s t).1 A.1 A.2.1
    exact ⟨B.1, B.2.1, A.2.2.trans B.2.2⟩

/-- the state after ANY history satisfies the invariant (and the loop fuel never ran out) -/
theorem reachable (base : Int) (scripts : List (List Op)) (ops : List Top) :
    Inv (exec (Sys.init base scripts) ops).1 ∧ (exec (Sys.init base scripts) ops).1.stuck = false :=
  let A := exec_spec ops (Sys.init base scripts) (init_inv base scripts) rfl
  ⟨A.1, A.2.1⟩

/-- once run, a call stays marked called through any continuation of the history — together with
    `IterOK.fresh` it is never entered again -/
theorem called_forever (s : Sys) (I : Inv s) (hs : s.stuck = false) (ops : List Top) (id : Nat)
    (hid : id < s.calls.length) (h : (s.call id).called = true) :
    ((exec s ops).1.call id).called = true :=
  (exec_spec ops s I hs).2.2.called id hid h

/-- once cancelled, a call stays cancelled through any continuation — by `IterOK.fresh` it is
    never entered -/
theorem cancelled_forever (s : Sys) (I : Inv s) (hs : s.stuck = false) (ops : List Top) (id : Nat)
    (hid : id < s.calls.length) (h : (s.call id).cancelled = true) :
    ((exec s ops).1.call id).cancelled = true :=
  (exec_spec ops s I hs).2.2.cancelled id hid h

/-- a successful `cancel` marks the call cancelled -/
theorem cancel_ok_cancels (s : Sys) (id : Nat) (hid : id < s.calls.length)
    (h : (cancel s id).2 = Res.ok) : ((cancel s id).1.call id).cancelled = true := by
  unfold cancel at h ⊢
  simp only at h ⊢
  split
  · rename_i hx; rw [if_pos hx] at h; simp at h
  · rename_i hx
    split
    · rename_i hc; rw [if_neg hx, if_pos hc] at h; simp at h
    · show ((s.setCall id _).call id).cancelled = true
      rw [call_setCall s id _ hid]; simp [upd]

/-- **Headline.**  After ANY history (any script table, any initial clock): the invariant holds;
    the next iteration enters only calls that existed before it, were never called nor cancelled,
    are due, and are in order w.r.t. the heap (`IterOK.runs`), enters none twice, marks them
    called, and leaves no pre-existing pending call due; `getDelayedCalls()` is exactly the
    pending set; `timeout()` is `None` only if nothing is pending and otherwise at most the time
    to the earliest pending call. -/
theorem history_timed_calls (base : Int) (scripts : List (List Op)) (ops : List Top) :
    let s := (exec (Sys.init base scripts) ops).1
    Inv s ∧ IterOK s ∧
    ((∀ id t, (id, t) ∈ getDelayedCalls s ↔ (s.pending id = true ∧ t = s.sched id)) ∧
      ((getDelayedCalls s).map Prod.fst).Nodup) ∧
    ((timeout s).2 = none → ∀ id, s.pending id = false) ∧
    (∀ v, (timeout s).2 = some v → 0 ≤ v ∧ v ≤ longest ∧
      ∀ id, s.pending id = true → v ≤ max 0 (s.sched id - s.now)) := by
  intro s
  have R := reachable base scripts ops
  have T := timeout_bound s R.1
  exact ⟨R.1, iteration s R.1 R.2, getDelayedCalls_exact s R.1, T.2.2.2.1, T.2.2.2.2⟩

/-! ### the exception of the ordering clause is real, and the theorems are not vacuous -/

/-- some call is entered while another pending call is scheduled strictly earlier -/
def orderViolated : List Ev → Bool
  | [] => false
  | Ev.run id snap :: es =>
    (List.range snap.calls.length).any (fun j => j != id && snap.pending j && decide (snap.sched j < snap.sched id))
      || orderViolated es
  | _ :: es => orderViolated es

/-- the witness found by the oracle on the real code: call 0 (due at 1) schedules call 2 with delay
    0 from inside its body and moves it back by 24 ticks, to 8; call 1 (due at 16) is then entered
    at clock 32 while call 2 is pending with scheduled time 8 -/
def witnessScripts : List (List Op) := [[Op.callLater 0 9, Op.delay 2 (-24)]]
def witnessOps : List Top :=
  [Top.user (Op.callLater 1 0), Top.user (Op.callLater 16 2), Top.advance 32, Top.iterate]

theorem order_counterexample :
    orderViolated (exec (Sys.init 0 witnessScripts) witnessOps).2 = true := by decide

def runLog : List Ev → List (Nat × Int)
  | [] => []
  | Ev.run id snap :: es => (id, snap.now) :: runLog es
  | _ :: es => runLog es

/-- non-vacuity: a history with a reset-to-earlier from inside a running call, a cancellation and
    a `delay`; calls run as (id, clock): 0@16 resets call 2 to now, so 2@16 runs in the same
    iteration; call 1 was cancelled; call 3 runs at 48 after being delayed -/
example :
    runLog (exec (Sys.init 0 [[Op.reset 2 0], []])
      [Top.user (Op.callLater 16 0), Top.user (Op.callLater 24 1), Top.user (Op.callLater 80 1),
       Top.user (Op.callLater 32 1), Top.user (Op.cancel 1), Top.user (Op.delay 3 16),
       Top.advance 16, Top.iterate, Top.advance 16, Top.iterate, Top.advance 16, Top.iterate]).2
      = [(0, 16), (2, 16), (3, 48)] := by decide

example : (getDelayedCalls (exec (Sys.init 0 [[]])
      [Top.user (Op.callLater 16 0), Top.user (Op.callLater 8 0), Top.user (Op.cancel 0), Top.timeout]).1)
      = [(1, 8)] := by decide

example : (timeout (exec (Sys.init 5 [[]]) [Top.user (Op.callLater 16 0), Top.user (Op.delay 0 (-4))]).1).2
      = some 12 := by decide

end TwistedProps.C08
