import TwistedModel.Cred.Digest
/-!
Lemmas for C48 (HTTP Digest credentials): which exceptions the primitives can produce, totality of the
digest computation under the guard, the base64 round trip through the lenient decoder, `bytes.split`/`join`
inversion, the alphabets of `hexlify`/`b64encode`, injectivity of `hexlify`, and `int(b"%d" % t) = t`.
-/
namespace TwistedProps.C48
open Twisted.Py Twisted.Cred.Digest

theorem b64go_err (bs : Bytes) (q l p : Nat) (e : Err) (h : b64go bs q l p = .error e) : e = .binasciiError := by
  induction bs generalizing q l p with
  | nil => unfold b64go at h; split at h <;> cases h; rfl
  | cons c rest ih =>
    unfold b64go at h
    repeat' split at h
    all_goals first | (cases h; done) | exact ih _ _ _ h | skip
    all_goals
      cases hh : b64go rest _ _ _ <;> rw [hh] at h <;> simp [Except.map] at h
      subst h; exact ih _ _ _ hh

theorem verifyOpaque_err (H : Hash) (pk : Bytes) (now : Int) (o n : Bytes) (ip : Option Bytes) (e : Err)
    (h : verifyOpaque H pk now o n ip = .error e) : e = .loginFailed := by
  unfold verifyOpaque at h
  repeat' split at h
  all_goals first | (cases h; done) | (cases h; rfl) | skip
  rename_i x hx heq
  cases h
  exact absurd (b64go_err _ _ _ _ _ heq) hx

theorem buildAuth_err (ps : List Part) (acc : Fields) (e : Err) (h : buildAuth ps acc = .error e) :
    e = .loginFailed := by
  induction ps generalizing acc with
  | nil => simp [buildAuth] at h
  | cons p ps ih =>
    unfold buildAuth at h
    unfold nativeString at h
    split at h
    · exact ih _ h
    · cases h; rfl
    · rename_i e' hne heq
      split at heq
      · cases heq
      · cases heq; exact absurd rfl hne


theorem calcResponse_ok (H : Hash) (ha1 ha2 alg n qop : Bytes) (nc cn : Option Bytes) (f : HashFn)
    (hf : algorithms alg = .ok f) : ∃ x, calcResponse H ha1 ha2 alg (some n) nc cn qop = .ok x := by
  unfold calcResponse
  simp only [hf, upd, bind, Except.bind, pure, Except.pure]
  cases nc with
  | none => simp [truthy]
  | some v =>
    cases cn with
    | none => simp [truthy]
    | some w => split <;> exact ⟨_, rfl⟩

theorem calcHA1_ok (H : Hash) (alg u r p n : Bytes) (cn : Option Bytes) (f : HashFn)
    (hf : algorithms alg = .ok f) (hs : alg ≠ s "md5-sess" ∨ ∃ c, cn = some c) :
    ∃ x, calcHA1 H alg u r p (some n) cn = .ok x := by
  unfold calcHA1
  simp only [hf, upd, bind, Except.bind, pure, Except.pure]
  by_cases hm : alg = s "md5-sess"
  · rcases hs with hs | ⟨c, rfl⟩
    · exact absurd hm hs
    · simp [hm]
  · simp [hm]

theorem calcHA2_ok (H : Hash) (alg m u qop : Bytes) (f : HashFn)
    (hf : algorithms alg = .ok f) (hq : qop ≠ s "auth-int") :
    ∃ x, calcHA2 H alg m (some u) qop = .ok x := by
  unfold calcHA2
  simp [hf, upd, bind, Except.bind, pure, Except.pure, hq]

theorem algorithms_ok_of (a : Bytes) (h : (algorithms a).toBool = true) : ∃ f, algorithms a = .ok f := by
  cases hh : algorithms a with
  | ok f => exact ⟨f, rfl⟩
  | error e => rw [hh] at h; simp [Except.toBool] at h

theorem expectedResponse_ok (H : Hash) (c : Creds) (pw : Bytes) (hc : computable c = true) :
    ∃ x, expectedResponse H c pw = .ok x := by
  unfold computable at hc
  simp only [Bool.and_eq_true, Bool.or_eq_true, bne_iff_ne, ne_eq, Option.isSome_iff_exists] at hc
  obtain ⟨⟨⟨⟨ha, ⟨n, hn⟩⟩, ⟨u, hu⟩⟩, hq⟩, hs⟩ := hc
  obtain ⟨f, hf⟩ := algorithms_ok_of _ ha
  unfold expectedResponse
  rw [hn, hu]
  obtain ⟨x1, h1⟩ := calcHA1_ok H (credAlg c) c.username c.realm pw n (c.fields.get (s "cnonce")) f hf hs
  obtain ⟨x2, h2⟩ := calcHA2_ok H (credAlg c) c.method u (credQop c) f hf hq
  obtain ⟨x3, h3⟩ := calcResponse_ok H x1 x2 (credAlg c) n (credQop c) (c.fields.get (s "nc")) (c.fields.get (s "cnonce")) f hf
  simp only [h1, h2, bind, Except.bind]
  exact ⟨x3, h3⟩


theorem b64val_b64char_fin : ∀ s : Fin 64, b64val (b64char s.val) = some s.val := by decide
theorem b64char_ne_pad_fin : ∀ s : Fin 64, b64char s.val ≠ 61 := by decide

theorem b64val_b64char (s : Nat) (h : s < 64) : b64val (b64char s) = some s := b64val_b64char_fin ⟨s, h⟩
theorem b64char_ne_pad (s : Nat) (h : s < 64) : b64char s ≠ 61 := b64char_ne_pad_fin ⟨s, h⟩

theorem b64go_data (c : UInt8) (rest : Bytes) (quad left pads v : Nat) (hc : c ≠ 61) (hv : b64val c = some v) :
    b64go (c :: rest) quad left pads =
      if quad = 0 then b64go rest 1 v 0
      else if quad = 1 then (b64go rest 2 (v % 16) 0).map (UInt8.ofNat (left * 4 + v / 16) :: ·)
      else if quad = 2 then (b64go rest 3 (v % 4) 0).map (UInt8.ofNat (left * 16 + v / 4) :: ·)
      else (b64go rest 0 0 0).map (UInt8.ofNat (left * 64 + v) :: ·) := by
  rw [b64go]; simp [hc, hv]

theorem b64go_char (s : Nat) (h : s < 64) (rest : Bytes) (quad left pads : Nat) :
    b64go (b64char s :: rest) quad left pads =
      if quad = 0 then b64go rest 1 s 0
      else if quad = 1 then (b64go rest 2 (s % 16) 0).map (UInt8.ofNat (left * 4 + s / 16) :: ·)
      else if quad = 2 then (b64go rest 3 (s % 4) 0).map (UInt8.ofNat (left * 16 + s / 4) :: ·)
      else (b64go rest 0 0 0).map (UInt8.ofNat (left * 64 + s) :: ·) :=
  b64go_data _ _ _ _ _ _ (b64char_ne_pad s h) (b64val_b64char s h)

theorem ofNat_eq (a : UInt8) (n : Nat) (h : n = a.toNat) : UInt8.ofNat n = a := by
  subst h; simp

theorem b64_roundtrip_go (bs : Bytes) : b64go (b64encode bs) 0 0 0 = .ok bs := by
  fun_induction b64encode bs with
  | case1 => simp [b64go]
  | case2 a =>
    have ha := a.toNat_lt
    rw [b64go_char _ (by omega), if_pos rfl, b64go_char _ (by omega)]
    simp only [show (1:Nat) ≠ 0 by decide, if_false, if_true]
    simp only [b64go, Except.map, if_true, ge_iff_le, Nat.le_refl, Nat.reduceAdd, Nat.reduceLeDiff, if_false]
    congr 2
    apply ofNat_eq; omega
  | case3 a b =>
    have ha := a.toNat_lt
    have hb := b.toNat_lt
    rw [b64go_char _ (by omega), if_pos rfl, b64go_char _ (by omega)]
    simp only [show (1:Nat) ≠ 0 by decide, if_false, if_true]
    rw [b64go_char _ (by omega)]
    simp only [show (2:Nat) ≠ 0 by decide, show (2:Nat) ≠ 1 by decide, if_false, if_true]
    simp only [b64go, Except.map, if_true, ge_iff_le, Nat.le_refl, Nat.reduceAdd, Nat.reduceLeDiff]
    congr 2
    · apply ofNat_eq; omega
    congr 1
    · apply ofNat_eq; omega
  | case4 a b c rest ih =>
    have ha := a.toNat_lt
    have hb := b.toNat_lt
    have hc := c.toNat_lt
    rw [b64go_char _ (by omega), if_pos rfl, b64go_char _ (by omega)]
    simp only [show (1:Nat) ≠ 0 by decide, if_false, if_true]
    rw [b64go_char _ (by omega)]
    simp only [show (2:Nat) ≠ 0 by decide, show (2:Nat) ≠ 1 by decide, if_false, if_true]
    rw [b64go_char _ (by omega)]
    simp only [show (3:Nat) ≠ 0 by decide, show (3:Nat) ≠ 1 by decide, show (3:Nat) ≠ 2 by decide, if_false]
    rw [ih]
    simp only [Except.map]
    congr 1
    congr 1
    · apply ofNat_eq; omega
    congr 1
    · apply ofNat_eq; omega
    congr 1
    · apply ofNat_eq; omega

theorem b64decode_b64encode (bs : Bytes) : b64decode (b64encode bs) = .ok bs := b64_roundtrip_go bs

theorem splitOn_ne_nil (sep : UInt8) (bs : Bytes) : splitOn sep bs ≠ [] := by
  cases bs with
  | nil => simp [splitOn]
  | cons c rest =>
    unfold splitOn
    split
    · simp
    · split <;> simp

theorem splitOn_of_not_mem (sep : UInt8) (a : Bytes) (h : sep ∉ a) : splitOn sep a = [a] := by
  induction a with
  | nil => simp [splitOn]
  | cons c rest ih =>
    have hc : c ≠ sep := fun e => h (by simp [e])
    have hr : sep ∉ rest := fun e => h (by simp [e])
    unfold splitOn
    simp [hc, ih hr]

theorem splitOn_append_sep (sep : UInt8) (a b : Bytes) (h : sep ∉ a) :
    splitOn sep (a ++ sep :: b) = a :: splitOn sep b := by
  induction a with
  | nil => simp [splitOn]
  | cons c rest ih =>
    have hc : c ≠ sep := fun e => h (by simp [e])
    have hr : sep ∉ rest := fun e => h (by simp [e])
    simp only [List.cons_append]
    rw [splitOn]
    simp [hc, ih hr]

theorem joinWith_splitOn (sep : UInt8) (bs : Bytes) : joinWith sep (splitOn sep bs) = bs := by
  induction bs with
  | nil => simp [splitOn, joinWith]
  | cons c rest ih =>
    unfold splitOn
    split
    · rename_i hc
      cases hs : splitOn sep rest with
      | nil => exact absurd hs (splitOn_ne_nil _ _)
      | cons p ps => rw [hs] at ih; simp [joinWith, ih, hc]
    · cases hs : splitOn sep rest with
      | nil => exact absurd hs (splitOn_ne_nil _ _)
      | cons p ps =>
        rw [hs] at ih
        simp only
        cases ps with
        | nil => simp [joinWith] at ih ⊢; exact ih
        | cons q qs => simp [joinWith] at ih ⊢; exact ih

theorem splitOn_two (sep : UInt8) (o d e : Bytes) (h : splitOn sep o = [d, e]) : o = d ++ sep :: e := by
  have := joinWith_splitOn sep o
  rw [h] at this; simpa [joinWith] using this.symm

theorem splitOn_three (sep : UInt8) (o a b c : Bytes) (h : splitOn sep o = [a, b, c]) :
    o = a ++ sep :: (b ++ sep :: c) := by
  have := joinWith_splitOn sep o
  rw [h] at this; simpa [joinWith] using this.symm

theorem hexNibble_fin : ∀ i : Fin 16, hexNibble i.val ≠ 45 ∧ hexNibble i.val ≠ 44 := by decide
theorem hexNibble_inj_fin : ∀ i j : Fin 16, hexNibble i.val = hexNibble j.val → i = j := by decide

theorem hexlify_mem (bs : Bytes) (x : UInt8) (h : x ∈ hexlify bs) : x ≠ 45 ∧ x ≠ 44 := by
  unfold hexlify at h
  simp only [List.mem_flatMap, List.mem_cons, List.not_mem_nil, or_false] at h
  obtain ⟨b, _, hb⟩ := h
  have hb' := b.toNat_lt
  rcases hb with rfl | rfl
  · exact hexNibble_fin ⟨b.toNat / 16, by omega⟩
  · exact hexNibble_fin ⟨b.toNat % 16, by omega⟩

theorem hexlify_cons (b : UInt8) (bs : Bytes) :
    hexlify (b :: bs) = hexNibble (b.toNat / 16) :: hexNibble (b.toNat % 16) :: hexlify bs := by
  simp [hexlify]

theorem hexlify_inj (a b : Bytes) (h : hexlify a = hexlify b) : a = b := by
  induction a generalizing b with
  | nil =>
    cases b with
    | nil => rfl
    | cons y ys => simp [hexlify] at h
  | cons x xs ih =>
    cases b with
    | nil => simp [hexlify] at h
    | cons y ys =>
      rw [hexlify_cons, hexlify_cons] at h
      simp only [List.cons.injEq] at h
      obtain ⟨h1, h2, h3⟩ := h
      have hx := x.toNat_lt
      have hy := y.toNat_lt
      have e1 := hexNibble_inj_fin ⟨x.toNat / 16, by omega⟩ ⟨y.toNat / 16, by omega⟩ h1
      have e2 := hexNibble_inj_fin ⟨x.toNat % 16, by omega⟩ ⟨y.toNat % 16, by omega⟩ h2
      simp only [Fin.mk.injEq] at e1 e2
      have : x.toNat = y.toNat := by omega
      rw [ih ys h3, UInt8.toNat_inj.mp this]

theorem b64char_mem_fin : ∀ i : Fin 64, b64char i.val ≠ 45 ∧ b64char i.val ≠ 10 := by decide

theorem b64encode_mem (bs : Bytes) (x : UInt8) (h : x ∈ b64encode bs) : x ≠ 45 ∧ x ≠ 10 := by
  fun_induction b64encode bs with
  | case1 => simp at h
  | case2 a =>
    have ha := a.toNat_lt
    simp only [List.mem_cons, List.not_mem_nil, or_false] at h
    rcases h with rfl | rfl | rfl | rfl
    · exact b64char_mem_fin ⟨_, by omega⟩
    · exact b64char_mem_fin ⟨_, by omega⟩
    · decide
    · decide
  | case3 a b =>
    have ha := a.toNat_lt
    have hb := b.toNat_lt
    simp only [List.mem_cons, List.not_mem_nil, or_false] at h
    rcases h with rfl | rfl | rfl | rfl
    · exact b64char_mem_fin ⟨_, by omega⟩
    · exact b64char_mem_fin ⟨_, by omega⟩
    · exact b64char_mem_fin ⟨_, by omega⟩
    · decide
  | case4 a b c rest ih =>
    have ha := a.toNat_lt
    have hb := b.toNat_lt
    have hc := c.toNat_lt
    simp only [List.mem_cons] at h
    rcases h with rfl | rfl | rfl | rfl | h
    · exact b64char_mem_fin ⟨_, by omega⟩
    · exact b64char_mem_fin ⟨_, by omega⟩
    · exact b64char_mem_fin ⟨_, by omega⟩
    · exact b64char_mem_fin ⟨_, by omega⟩
    · exact ih h

theorem digit_fin : ∀ d : Fin 10, isDigit (UInt8.ofNat (48 + d.val)) = true
    ∧ (UInt8.ofNat (48 + d.val)).toNat - 48 = d.val ∧ isSpace (UInt8.ofNat (48 + d.val)) = false
    ∧ UInt8.ofNat (48 + d.val) ≠ 44 ∧ UInt8.ofNat (48 + d.val) ≠ 45 ∧ UInt8.ofNat (48 + d.val) ≠ 43 := by decide

theorem lstrip_all (bs : Bytes) (h : ∀ x ∈ bs, isSpace x = false) : lstrip bs = bs := by
  cases bs with
  | nil => rfl
  | cons c r => simp [lstrip, h c (by simp)]

theorem strip_all (bs : Bytes) (h : ∀ x ∈ bs, isSpace x = false) : strip bs = bs := by
  unfold strip
  rw [lstrip_all bs h, lstrip_all _ (by intro x hx; exact h x (by simpa using hx))]
  simp

theorem natDigits_lt (n : Nat) (h : n < 10) : natDigits n = [UInt8.ofNat (48 + n)] := by
  rw [natDigits]; simp [h]

theorem natDigits_ge (n : Nat) (h : ¬ n < 10) :
    natDigits n = natDigits (n / 10) ++ [UInt8.ofNat (48 + n % 10)] := by
  rw [natDigits]; simp [h]

/-- what every byte of a decimal numeral satisfies -/
def DigitByte (x : UInt8) : Prop := isDigit x = true ∧ isSpace x = false ∧ x ≠ 44 ∧ x ≠ 45 ∧ x ≠ 43

theorem digitByte_ofNat (d : Nat) (h : d < 10) : DigitByte (UInt8.ofNat (48 + d)) := by
  have := digit_fin ⟨d, h⟩
  exact ⟨this.1, this.2.2.1, this.2.2.2.1, this.2.2.2.2.1, this.2.2.2.2.2⟩

theorem natDigits_mem (n : Nat) : ∀ x ∈ natDigits n, DigitByte x := by
  induction n using Nat.strongRecOn with
  | _ n ih =>
    by_cases h : n < 10
    · rw [natDigits_lt n h]; intro x hx
      simp only [List.mem_cons, List.not_mem_nil, or_false] at hx; subst hx; exact digitByte_ofNat n h
    · rw [natDigits_ge n h]
      intro x hx
      simp only [List.mem_append, List.mem_cons, List.not_mem_nil, or_false] at hx
      rcases hx with hx | rfl
      · exact ih (n / 10) (by omega) x hx
      · exact digitByte_ofNat _ (by omega)

theorem natDigits_ne_nil (n : Nat) : natDigits n ≠ [] := by
  by_cases h : n < 10
  · rw [natDigits_lt n h]; simp
  · rw [natDigits_ge n h]; simp

theorem digitsGo_digit (d : Nat) (h : d < 10) (rest : Bytes) (ok : Bool) (acc k : Nat) :
    digitsGo (UInt8.ofNat (48 + d) :: rest) ok acc k = digitsGo rest true (acc * 10 + d) (k + 1) := by
  have h1 : isDigit (UInt8.ofNat (48 + d)) = true := (digit_fin ⟨d, h⟩).1
  have h2 : (UInt8.ofNat (48 + d)).toNat - 48 = d := (digit_fin ⟨d, h⟩).2.1
  rw [digitsGo, if_pos h1, h2]

theorem digitsGo_natDigits (n : Nat) : ∀ (rest : Bytes) (ok : Bool) (acc k : Nat),
    digitsGo (natDigits n ++ rest) ok acc k =
      digitsGo rest true (acc * 10 ^ (natDigits n).length + n) (k + (natDigits n).length) := by
  induction n using Nat.strongRecOn with
  | _ n ih =>
    intro rest ok acc k
    by_cases h : n < 10
    · rw [natDigits_lt n h]
      simp only [List.cons_append, List.nil_append, List.length_cons, List.length_nil]
      rw [digitsGo_digit n h]
    · rw [natDigits_ge n h]
      simp only [List.append_assoc, List.cons_append, List.nil_append, List.length_append, List.length_cons, List.length_nil]
      rw [ih (n / 10) (by omega), digitsGo_digit _ (by omega)]
      congr 1
      · generalize (natDigits (n / 10)).length = L
        rw [Nat.pow_succ, ← Nat.mul_assoc]
        generalize acc * 10 ^ L = m
        omega
      
theorem pyInt_decimal (t : Int) (h : (natDigits t.natAbs).length ≤ maxStrDigits) : pyInt (decimal t) = some t := by
  have hall : ∀ x ∈ decimal t, isSpace x = false := by
    intro x hx
    unfold decimal at hx
    split at hx
    · simp only [List.mem_cons] at hx
      rcases hx with rfl | hx
      · decide
      · exact (natDigits_mem _ x hx).2.1
    · exact (natDigits_mem _ x hx).2.1
  unfold pyInt
  simp only [strip_all _ hall]
  have hg := digitsGo_natDigits t.natAbs [] false 0 0
  simp only [List.append_nil, Nat.zero_mul, Nat.zero_add, digitsGo, if_true] at hg
  unfold decimal
  by_cases hn : t < 0
  · simp only [hn, if_true, hg]
    simp only [gt_iff_lt, if_neg (Nat.not_lt.mpr h)]
    congr 1; omega
  · simp only [hn, if_false]
    cases hd : natDigits t.natAbs with
    | nil => exact absurd hd (natDigits_ne_nil _)
    | cons c r =>
      have hc := natDigits_mem t.natAbs c (by rw [hd]; simp)
      simp only [hc.2.2.2.1, hc.2.2.2.2, if_false]
      rw [← hd, hg]
      simp only [gt_iff_lt, if_neg (Nat.not_lt.mpr h)]
      simp only [Bool.false_eq_true, if_false]; congr 1; omega

theorem decimal_no_comma (t : Int) : (44 : UInt8) ∉ decimal t := by
  intro hx
  unfold decimal at hx
  split at hx
  · simp only [List.mem_cons] at hx
    rcases hx with hx | hx
    · exact absurd hx (by decide)
    · exact (natDigits_mem _ _ hx).2.2.1 rfl
  · exact (natDigits_mem _ _ hx).2.2.1 rfl

end TwistedProps.C48
