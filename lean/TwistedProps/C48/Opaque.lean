import TwistedProps.C48.Lemmas
/-!
C48 — definitions used by the property statements (issued challenges, the keyed digest, the Dolev-Yao
hypothesis, "computed with this password") and the structural lemmas about `_generateOpaque` /
`_verifyOpaque` / `calcHA1` / `calcResponse`.
-/
namespace TwistedProps.C48
open Twisted.Py Twisted.Cred.Digest

/-- the keyed digest in front of the opaque: `hexlify(md5(key + privateKey).digest())` -/
def mac (H : Hash) (pk key : Bytes) : Bytes := hexlify (H .md5 (key ++ pk))

/-- a challenge handed out by `getChallenge`: its nonce, the address it was issued to, and the integer
    second `int(self._getTime())` of issue -/
structure Challenge where
  nonce : Bytes
  ip : Option Bytes
  t : Int

def Challenge.key (c : Challenge) : Bytes := opaqueKey c.nonce (normIp c.ip) c.t
def Challenge.opaque (H : Hash) (pk : Bytes) (c : Challenge) : Bytes := generateOpaque H pk c.nonce c.ip c.t

/-- well-formedness the code silently relies on: no `,` in the nonce (it is `hexlify` output) or in the
    client address (an IP literal), and a clock value within `int()`'s digit limit -/
def Challenge.WF (c : Challenge) : Prop :=
  (44 : UInt8) ∉ c.nonce ∧ (44 : UInt8) ∉ normIp c.ip ∧ (natDigits c.t.natAbs).length ≤ maxStrDigits

instance (c : Challenge) : Decidable c.WF := by unfold Challenge.WF; infer_instance

theorem generateOpaque_eq (H : Hash) (pk n : Bytes) (ip : Option Bytes) (t : Int) :
    generateOpaque H pk n ip t =
      mac H pk (opaqueKey n (normIp ip) t) ++ 45 :: b64encode (opaqueKey n (normIp ip) t) := by
  unfold generateOpaque mac
  have : (b64encode (opaqueKey n (normIp ip) t)).filter (· != 10) = b64encode (opaqueKey n (normIp ip) t) := by
    rw [List.filter_eq_self]
    intro x hx
    simpa using (b64encode_mem _ x hx).2
  simp only [this, joinWith]

theorem opaqueKey_split (n ip : Bytes) (t : Int) (hn : (44 : UInt8) ∉ n) (hip : (44 : UInt8) ∉ ip) :
    splitOn 44 (opaqueKey n ip t) = [n, ip, decimal t] := by
  unfold opaqueKey
  simp only [joinWith]
  rw [splitOn_append_sep _ _ _ hn, splitOn_append_sep _ _ _ hip, splitOn_of_not_mem _ _ (decimal_no_comma t)]

/-- inversion of `_verifyOpaque` -/
theorem verifyOpaque_ok_iff (H : Hash) (pk : Bytes) (now : Int) (o n : Bytes) (ip : Option Bytes) :
    verifyOpaque H pk now o n ip = .ok () ↔
      ∃ key kt w, o = mac H pk key ++ 45 :: b64encode key ∧ (45 : UInt8) ∉ mac H pk key
        ∧ splitOn 44 key = [n, normIp ip, kt] ∧ pyInt kt = some w ∧ now - w ≤ lifetime := by
  constructor
  · intro h
    unfold verifyOpaque at h
    repeat' split at h
    all_goals first | (cases h; done) | skip
    rename_i _ d e hsp _ key hdec henc _ kn kc kt hk hkn hkc _ w hw hlife hmac
    simp only [ne_eq, Decidable.not_not] at henc hkn hkc hmac
    subst hkn hkc
    refine ⟨key, kt, w, ?_, ?_, hk, hw, by omega⟩
    · rw [splitOn_two _ _ _ _ hsp, henc, ← hmac]; rfl
    · intro hm; exact (hexlify_mem _ _ hm).1 rfl
  · rintro ⟨key, kt, w, rfl, hm, hk, hw, hl⟩
    unfold verifyOpaque
    have h45 : (45 : UInt8) ∉ b64encode key := fun hx => (b64encode_mem _ _ hx).1 rfl
    rw [splitOn_append_sep _ _ _ hm, splitOn_of_not_mem _ _ h45]
    simp only [b64decode_b64encode, ne_eq, not_true_eq_false, if_false, hk, hw]
    rw [if_neg (by omega)]
    simp [mac]


theorem mac_no_dash (H : Hash) (pk key : Bytes) : (45 : UInt8) ∉ mac H pk key :=
  fun hm => (hexlify_mem _ _ hm).1 rfl

theorem mac_inj (H : Hash) (hinj : ∀ f, Function.Injective (H f)) (pk k k' : Bytes)
    (h : mac H pk k = mac H pk k') : k = k' := by
  unfold mac at h
  exact List.append_cancel_right (hinj _ (hexlify_inj _ _ h))


/-- the digest part a response presents: what stands before the first `-` of its opaque -/
def presentedDigest (o : Bytes) : Bytes := (splitOn 45 o).headD []

/-- Dolev-Yao hypothesis for a client that does not know `privateKey`: the digest it presents is one it was
    handed inside an issued opaque, or it is not the keyed digest of anything. -/
def Unforged (H : Hash) (pk : Bytes) (issued : List Challenge) (o : Bytes) : Prop :=
  (∃ c ∈ issued, presentedDigest o = mac H pk c.key) ∨ ∀ k, mac H pk k ≠ presentedDigest o


theorem hexH_inj (H : Hash) (hinj : ∀ f, Function.Injective (H f)) (f : HashFn) (a b : Bytes)
    (h : hexlify (H f a) = hexlify (H f b)) : a = b := hinj f (hexlify_inj _ _ h)

theorem calcHA1_inj (H : Hash) (hinj : ∀ f, Function.Injective (H f)) (alg u r p p' n : Bytes)
    (cn : Option Bytes) (x : Bytes)
    (h : calcHA1 H alg u r p (some n) cn = .ok x) (h' : calcHA1 H alg u r p' (some n) cn = .ok x) :
    p = p' := by
  unfold calcHA1 at h h'
  cases hf : algorithms alg with
  | error e => simp [hf, bind, Except.bind] at h
  | ok f =>
    simp only [hf, upd, bind, Except.bind, pure, Except.pure] at h h'
    have key : hexlify (H f (u ++ 58 :: r ++ 58 :: p)) = hexlify (H f (u ++ 58 :: r ++ 58 :: p')) → p = p' := by
      intro hh
      have := hexH_inj H hinj f _ _ hh
      have := List.append_cancel_left this
      simpa using this
    by_cases hm : alg = s "md5-sess"
    · simp only [hm, if_true] at h h'
      cases cn with
      | none => simp at h
      | some c =>
        simp only [Except.ok.injEq] at h h'
        have := hexH_inj H hinj f _ _ (h.trans h'.symm)
        exact key (List.append_cancel_right (List.append_cancel_right this))
    · simp only [hm, if_false, Except.ok.injEq] at h h'
      exact key (h.trans h'.symm)

theorem calcResponse_inj (H : Hash) (hinj : ∀ f, Function.Injective (H f)) (ha1 ha1' ha2 alg qop : Bytes)
    (n nc cn : Option Bytes) (x : Bytes)
    (h : calcResponse H ha1 ha2 alg n nc cn qop = .ok x) (h' : calcResponse H ha1' ha2 alg n nc cn qop = .ok x) :
    ha1 = ha1' := by
  unfold calcResponse at h h'
  cases hf : algorithms alg with
  | error e => simp [hf, bind, Except.bind] at h
  | ok f =>
    cases n with
    | none => simp [hf, upd, bind, Except.bind] at h
    | some nv =>
      simp only [hf, upd, bind, Except.bind, pure, Except.pure] at h h'
      split at h
      · rename_i ht
        rw [if_pos ht] at h'
        cases nc with
        | none => simp at h
        | some ncv =>
          cases cn with
          | none => simp at h
          | some cv =>
            simp only [Except.ok.injEq] at h h'
            have := hexH_inj H hinj f _ _ (h.trans h'.symm)
            simp only [List.append_assoc] at this
            exact List.append_cancel_right this
      · rename_i ht
        rw [if_neg ht] at h'
        simp only [Except.ok.injEq] at h h'
        have := hexH_inj H hinj f _ _ (h.trans h'.symm)
        simp only [List.append_assoc] at this
        exact List.append_cancel_right this

/-- the digest `expected` determines the password (for injective `H`) -/
theorem expectedResponse_inj (H : Hash) (hinj : ∀ f, Function.Injective (H f)) (c : Creds) (p p' x : Bytes)
    (h : expectedResponse H c p = .ok x) (h' : expectedResponse H c p' = .ok x) : p = p' := by
  unfold expectedResponse at h h'
  cases hn : c.fields.get (s "nonce") with
  | none =>
    exfalso
    rw [hn] at h
    simp only [bind, Except.bind] at h
    cases h1 : calcHA1 H (credAlg c) c.username c.realm p none (c.fields.get (s "cnonce")) with
    | error e => rw [h1] at h; cases h
    | ok a1 =>
      rw [h1] at h
      cases h2 : calcHA2 H (credAlg c) c.method (c.fields.get (s "uri")) (credQop c) with
      | error e => rw [h2] at h; cases h
      | ok a2 =>
        rw [h2] at h
        unfold calcResponse at h
        cases hf : algorithms (credAlg c) <;> simp [hf, upd, bind, Except.bind] at h
  | some n =>
    rw [hn] at h h'
    simp only [bind, Except.bind] at h h'
    cases h1 : calcHA1 H (credAlg c) c.username c.realm p (some n) (c.fields.get (s "cnonce")) with
    | error e => rw [h1] at h; cases h
    | ok a1 =>
      cases h1' : calcHA1 H (credAlg c) c.username c.realm p' (some n) (c.fields.get (s "cnonce")) with
      | error e => rw [h1'] at h'; cases h'
      | ok a1' =>
        rw [h1] at h; rw [h1'] at h'
        cases h2 : calcHA2 H (credAlg c) c.method (c.fields.get (s "uri")) (credQop c) with
        | error e => rw [h2] at h; cases h
        | ok a2 =>
          rw [h2] at h h'
          have := calcResponse_inj H hinj _ _ _ _ _ _ _ _ _ h h'
          subst this
          exact calcHA1_inj H hinj _ _ _ _ _ _ _ _ h1 h1'

/-- `_verifyOpaque` looks at the client address only through `if not clientip: clientip = b""` -/
theorem verifyOpaque_congr_ip (H : Hash) (pk : Bytes) (now : Int) (o n : Bytes) (ip ip' : Option Bytes)
    (h : normIp ip = normIp ip') : verifyOpaque H pk now o n ip = verifyOpaque H pk now o n ip' := by
  unfold verifyOpaque; rw [h]

/-- the response field is the RFC 2617 digest of password `p` over the fields the response itself carries
    (and those fields name a supported algorithm/qop and include every value the digest covers) -/
def ComputedWith (H : Hash) (c : Creds) (p : Bytes) : Prop :=
  computable c = true ∧ ∃ x, expectedResponse H c p = .ok x ∧ c.fields.get (s "response") = some x

/-- `decode` succeeded and `checkPassword(p)` returned `True` -/
def Accepts (H : Hash) (pk realm : Bytes) (now : Int) (response method : Bytes) (host : Option Bytes)
    (p : Bytes) : Prop :=
  ∃ creds, decode H pk realm now response method host = .ok creds ∧ checkPassword H creds p = .ok true

/-- inversion of `decode` -/
theorem decode_ok_iff (H : Hash) (pk realm : Bytes) (now : Int) (response method : Bytes)
    (host : Option Bytes) (creds : Creds) :
    decode H pk realm now response method host = .ok creds ↔
      ∃ auth user n o, parseResponse response = .ok auth ∧ auth.get (s "username") = some user ∧ user ≠ []
        ∧ auth.get (s "nonce") = some n ∧ auth.get (s "opaque") = some o
        ∧ verifyOpaque H pk now o n host = .ok () ∧ creds = ⟨user, method, realm, auth⟩ := by
  constructor
  · intro h
    unfold decode at h
    repeat' split at h
    all_goals first | (cases h; done) | skip
    rename_i _ auth hp _ user hu hne _ o ho _ n hn _ hv
    cases h
    exact ⟨auth, user, n, o, hp, hu, by simpa using hne, hn, ho, hv, rfl⟩
  · rintro ⟨auth, user, n, o, hp, hu, hne, hn, ho, hv, rfl⟩
    unfold decode
    have : user.isEmpty = false := by cases user <;> simp_all
    simp [hp, hu, hn, ho, hv, this]

/-- a toy injective hash for the non-vacuity examples: the digest is the input behind a tag byte -/
def toyH : Hash := fun f x => (if f = .md5 then 0 else 1) :: x

theorem toyH_inj : ∀ f, Function.Injective (toyH f) := by
  intro f a b h
  simpa [toyH] using h

end TwistedProps.C48
