import TwistedModel.Dns.Serial
import Generated.Rfc1982
/-!
C34 — RFC 1982 serial-number arithmetic is implemented exactly.

Two layers:
* `gen_*` : the definitions regenerated from `_rfc1982.py` on this run (Generated.Rfc1982)
  are equal to the hand-written model (the model the driver executes in the tie).
* the property theorems, for every width `bits ≥ 1` and all values in the ring.
-/
namespace TwistedProps.C34
open Twisted.Dns.Serial

/-! ### Tie: generated = model -/
theorem gen_modulo : Generated.Rfc1982.modulo = modulo := rfl
theorem gen_halfRing : Generated.Rfc1982.halfRing = halfRing := rfl
theorem gen_maxAdd : Generated.Rfc1982.maxAdd = maxAdd := rfl
theorem gen_mk : Generated.Rfc1982.mk = mk := rfl
theorem gen_eq : Generated.Rfc1982.eq = eq := rfl
theorem gen_lt : Generated.Rfc1982.lt = lt := rfl
theorem gen_gt : Generated.Rfc1982.gt = gt := rfl
theorem gen_le : Generated.Rfc1982.le = le := rfl
theorem gen_ge : Generated.Rfc1982.ge = ge := rfl
theorem gen_add : Generated.Rfc1982.add = add := by
  funext a b m n; simp [Generated.Rfc1982.add, add]

/-! ### Ring facts -/
theorem modulo_eq_two_half (bits : Nat) (h : 1 ≤ bits) : modulo bits = 2 * halfRing bits := by
  unfold modulo halfRing
  obtain ⟨k, rfl⟩ : ∃ k, bits = k + 1 := ⟨bits - 1, by omega⟩
  simp [Int.pow_succ, Int.mul_comm]

theorem halfRing_pos (bits : Nat) : 0 < halfRing bits := by
  unfold halfRing; exact Int.pow_pos (by decide)

/-- The constructor reduces into the ring `[0, 2^bits)`. -/
theorem mk_range (n : Int) (bits : Nat) : 0 ≤ mk n bits ∧ mk n bits < modulo bits := by
  have hp : (0 : Int) < modulo bits := by unfold modulo; exact Int.pow_pos (by decide)
  exact ⟨Int.emod_nonneg _ (by omega), Int.emod_lt_of_pos _ hp⟩

theorem mk_spec (n : Int) (bits : Nat) : mk n bits = n % 2 ^ bits := rfl

/-- RFC 1982 §3.2 verbatim, as a proposition. -/
def rfcLt (i1 i2 half : Int) : Prop :=
  (i1 < i2 ∧ i2 - i1 < half) ∨ (i1 > i2 ∧ i1 - i2 > half)
def rfcGt (i1 i2 half : Int) : Prop :=
  (i1 < i2 ∧ i2 - i1 > half) ∨ (i1 > i2 ∧ i1 - i2 < half)

theorem lt_iff_rfc (a b h : Int) : lt a b h = true ↔ rfcLt a b h := by
  simp [lt, rfcLt]
theorem gt_iff_rfc (a b h : Int) : gt a b h = true ↔ rfcGt a b h := by
  simp [gt, rfcGt]

/-! ### Ordering: for each pair exactly one of less / equal / greater, except half-ring apart -/

/-- Distinct values not exactly half the ring apart: exactly one of `<`, `>` holds (and not `==`). -/
theorem trichotomy_except_half (bits : Nat) (a b : Int)
    (_ha : 0 ≤ a ∧ a < modulo bits) (_hb : 0 ≤ b ∧ b < modulo bits)
    (hne : a ≠ b) (hhalf : a - b ≠ halfRing bits ∧ b - a ≠ halfRing bits) :
    eq a b = false ∧ (lt a b (halfRing bits) = true ∧ gt a b (halfRing bits) = false ∨
                      lt a b (halfRing bits) = false ∧ gt a b (halfRing bits) = true) := by
  generalize halfRing bits = h at *
  simp only [eq, lt, gt, Bool.or_eq_true, Bool.and_eq_true, decide_eq_true_eq,
    Bool.or_eq_false_iff, Bool.and_eq_false_iff, decide_eq_false_iff_not]
  omega

/-- Equal values: `==` holds, neither `<` nor `>`. -/
theorem equal_only_eq (a h : Int) : eq a a = true ∧ lt a a h = false ∧ gt a a h = false := by
  simp [eq, lt, gt]

/-- Values exactly half the ring apart: neither `<` nor `>` (and not `==`). -/
theorem half_apart_unordered (bits : Nat) (a b : Int)
    (hhalf : a - b = halfRing bits ∨ b - a = halfRing bits) :
    eq a b = false ∧ lt a b (halfRing bits) = false ∧ gt a b (halfRing bits) = false := by
  have hp := halfRing_pos bits
  generalize halfRing bits = h at *
  simp only [eq, lt, gt, Bool.or_eq_false_iff, Bool.and_eq_false_iff,
    decide_eq_false_iff_not]
  omega

/-- `<` and `>` are never both true, whatever the inputs. -/
theorem lt_gt_exclusive (a b h : Int) : ¬ (lt a b h = true ∧ gt a b h = true) := by
  simp only [lt, gt, Bool.or_eq_true, Bool.and_eq_true, decide_eq_true_eq]
  omega

/-- `<` is the mirror image of `>`. -/
theorem lt_swap (a b h : Int) : lt a b h = gt b a h := by
  simp only [lt, gt]
  rw [Bool.or_comm]

theorem le_iff (a b h : Int) : le a b h = true ↔ (eq a b = true ∨ lt a b h = true) := by
  simp [le]
theorem ge_iff (a b h : Int) : ge a b h = true ↔ (eq a b = true ∨ gt a b h = true) := by
  simp [ge]

/-! ### Addition -/

/-- `n ∈ [0, 2^(bits-1) - 1]` ⇒ the sum is `(s + n) mod 2^bits`. -/
theorem add_mod (bits : Nat) (a n : Int) (hn : n ≤ maxAdd bits) :
    add a n (maxAdd bits) (modulo bits) = some ((a + n) % 2 ^ bits) := by
  simp [add, hn, modulo]

/-- Larger increments are refused (ArithmeticError). -/
theorem add_refuses_large (bits : Nat) (a n : Int) (hn : maxAdd bits < n) :
    add a n (maxAdd bits) (modulo bits) = none := by
  have : ¬ n ≤ maxAdd bits := by omega
  simp [add, this]

/-- For `0 < n ≤ maxAdd`, the sum compares greater than `s`. -/
theorem add_gt (bits : Nat) (hbits : 1 ≤ bits) (a n : Int)
    (ha : 0 ≤ a ∧ a < modulo bits) (hn0 : 0 < n) (hn : n ≤ maxAdd bits) :
    ∃ s', add a n (maxAdd bits) (modulo bits) = some s' ∧
      gt s' a (halfRing bits) = true ∧ lt a s' (halfRing bits) = true ∧
      0 ≤ s' ∧ s' < modulo bits := by
  refine ⟨(a + n) % modulo bits, by simp [add, hn], ?_⟩
  have hM := modulo_eq_two_half bits hbits
  have hmax : maxAdd bits = halfRing bits - 1 := rfl
  generalize halfRing bits = h at *
  generalize modulo bits = M at *
  generalize maxAdd bits = mx at *
  subst hM hmax
  rw [lt_swap]
  by_cases hlt : a + n < 2 * h
  · have e : (a + n) % (2 * h) = a + n := Int.emod_eq_of_lt (by omega) hlt
    rw [e]
    simp only [gt, Bool.or_eq_true, Bool.and_eq_true, decide_eq_true_eq]
    omega
  · have e : (a + n) % (2 * h) = a + n - 2 * h := by
      rw [← Int.sub_emod_right]
      exact Int.emod_eq_of_lt (by omega) (by omega)
    rw [e]
    simp only [gt, Bool.or_eq_true, Bool.and_eq_true, decide_eq_true_eq]
    omega

/-- Adding zero changes nothing. -/
theorem add_zero (bits : Nat) (a : Int) (ha : 0 ≤ a ∧ a < modulo bits) :
    add a 0 (maxAdd bits) (modulo bits) = some a := by
  have hp := halfRing_pos bits
  have : (0 : Int) ≤ maxAdd bits := by unfold maxAdd; unfold halfRing at hp; omega
  simp only [add, this, if_true, Int.add_zero]
  rw [Int.emod_eq_of_lt ha.1 ha.2]

/-! ### Non-vacuity: the hypotheses are satisfiable on concrete non-trivial values -/
example : (0 ≤ (3:Int) ∧ (3:Int) < modulo 8) ∧ (0 ≤ (200:Int) ∧ (200:Int) < modulo 8)
    ∧ (3:Int) ≠ 200 ∧ ((3:Int) - 200 ≠ halfRing 8 ∧ (200:Int) - 3 ≠ halfRing 8) := by decide
example : gt 3 200 (halfRing 8) = true ∧ lt 3 200 (halfRing 8) = false := by decide
example : (0:Int) - 128 = halfRing 8 ∨ (128:Int) - 0 = halfRing 8 := by decide
example : add 250 100 (maxAdd 8) (modulo 8) = some 94 ∧ gt 94 250 (halfRing 8) = true := by decide

end TwistedProps.C34
