import TwistedModel.Dns.Serial
import Generated.Rfc1982
/-!
C34 — RFC 1982 serial-number arithmetic is implemented exactly.

Two layers:
* `gen_*` : the definitions regenerated from `_rfc1982.py` on this run (Generated.Rfc1982)
  are equal to the hand-written model (the model the driver executes in the tie).
* the property theorems, for every width `bits ≥ 1` and all values in the ring.
-/
namespace TwistedProps.C34
open Twisted.Dns.Serial

/-! ### Tie: generated = model -/
theorem gen_modulo : Generated.Rfc1982.modulo = modulo := rfl
theorem gen_halfRing : Generated.Rfc1982.halfRing = halfRing := rfl
theorem gen_maxAdd : Generated.Rfc1982.maxAdd = maxAdd := rfl
theorem gen_mk : Generated.Rfc1982.mk = mk := rfl
theorem gen_eq : Generated.Rfc1982.eq = eq := rfl
theorem gen_lt : Generated.Rfc1982.lt = lt := rfl
theorem gen_gt : Generated.Rfc1982.gt = gt := rfl
theorem gen_le : Generated.Rfc1982.le = le := rfl
theorem gen_ge : Generated.Rfc1982.ge = ge := rfl
theorem gen_add : Generated.Rfc1982.add = add := by
  funext a b m n; simp [Generated.Rfc1982.add, add]

/-! ### Ring facts -/
theorem modulo_eq_two_half (bits : Nat) (h : 1 ≤ bits) : modulo bits = 2 * halfRing bits := by
  unfold modulo halfRing
  obtain ⟨k, rfl⟩ : ∃ k, bits = k + 1 := ⟨bits - 1, by omega⟩
  simp [Int.pow_succ, Int.mul_comm]

theorem halfRing_pos (bits : Nat) : 0 < halfRing bits := by
  unfold halfRing; exact Int.pow_pos (by decide)

/-- The constructor reduces into the ring `[0, 2^bits)`. -/
theorem mk_range (n : Int) (bits : Nat) : 0 ≤ mk n bits ∧ mk n bits < modulo bits := by
  have hp : (0 : Int) < modulo bits := by unfold modulo; exact Int.pow_pos (by decide)
  exact ⟨Int.emod_nonneg _ (by omega), Int.emod_lt_of_pos _ hp⟩

theorem mk_spec (n : Int) (bits : Nat) : mk n bits = n % 2 ^ bits := rfl

/-- RFC 1982 §3.2 verbatim, as a proposition. -/
def rfcLt (i1 i2 half : Int) : Prop :=
  (i1 < i2 ∧ i2 - i1 < half) ∨ (i1 > i2 ∧ i1 - i2 > half)
def rfcGt (i1 i2 half : Int) : Prop :=
  (i1 < i2 ∧ i2 - i1 > half) ∨ (i1 > i2 ∧ i1 - i2 < half)

theorem lt_iff_rfc (a b h : Int) : lt a b h = true ↔ rfcLt a b h := by
  simp [lt, rfcLt]
theorem gt_iff_rfc (a b h : Int) : gt a b h = true ↔ rfcGt a b h := by
  simp [gt, rfcGt]

/-! ### Ordering: for each pair exactly one of less / equal / greater, except half-ring apart -/

/-- Distinct values not exactly half the ring apart: exactly one of `<`, `>` holds (and not `==`). -/
theorem trichotomy_except_half (bits : Nat) (a b : Int)
    (_ha : 0 ≤ a ∧ a < modulo bits) (_hb : 0 ≤ b ∧ b < modulo bits)
    (hne : a ≠ b) (hhalf : a - b ≠ halfRing bits ∧ b - a ≠ halfRing bits) :
    eq a b = false ∧ (lt a b (halfRing bits) = true ∧ gt a b (halfRing bits) = false ∨
                      lt a b (halfRing bits) = false ∧ gt a b (halfRing bits) = true) := by
  generalize halfRing bits = h at *
  simp only [eq, lt, gt, Bool.or_eq_true, Bool.and_eq_true, decide_eq_true_eq,
    Bool.or_eq_false_iff, Bool.and_eq_false_iff, decide_eq_false_iff_not]
  omega

/-- Equal values: `==` holds, neither `<` nor `>`. -/
theorem equal_only_eq (a h : Int) : eq a a = true ∧ lt a a h = false ∧ gt a a h = false := by
  simp [eq, lt, gt]

/-- Values exactly half the ring apart: neither `<` nor `>` (and not `==`). -/
theorem half_apart_unordered (bits : Nat) (a b : Int)
    (hhalf : a - b = halfRing bits ∨ b - a = halfRing bits) :
    eq a b = false ∧ lt a b (halfRing bits) = false ∧ gt a b (halfRing bits) = false := by
  have hp := halfRing_pos bits
  generalize halfRing bits = h at *
  simp only [eq, lt, gt, Bool.or_eq_false_iff, Bool.and_eq_false_iff,
    decide_eq_false_iff_not]
  omega

/-- `<` and `>` are never both true, whatever the inputs. -/
theorem lt_gt_exclusive (a b h : Int) : ¬ (lt a b h = true ∧ gt a b h = true) := by
  simp only [lt, gt, Bool.or_eq_true, Bool.and_eq_true, decide_eq_true_eq]
  omega

/-- `<` is the mirror image of `>`. -/
theorem lt_swap (a b h : Int) : lt a b h = gt b a h := by
  simp only [lt, gt]
  rw [Bool.or_comm]

theorem le_iff (a b h : Int) : le a b h = true ↔ (eq a b = true ∨ lt a b h = true) := by
  simp [le]
theorem ge_iff (a b h : Int) : ge a b h = true ↔ (eq a b = true ∨ gt a b h = true) := by
  simp [ge]

/-! ### Addition -/

/-- `n ∈ [0, 2^(bits-1) - 1]` ⇒ the sum is `(s + n) mod 2^bits`. -/
theorem add_mod (bits : Nat) (a n : Int) (hn : n ≤ maxAdd bits) :
    add a n (maxAdd bits) (modulo bits) = some ((a + n) % 2 ^ bits) := by
  simp [add, hn, modulo]

/-- Larger increments are refused (ArithmeticError). -/
theorem add_refuses_large (bits : Nat) (a n : Int) (hn : maxAdd bits < n) :
    add a n (maxAdd bits) (modulo bits) = none := by
  have : ¬ n ≤ maxAdd bits := by omega
  simp [add, this]

/-- For `0 < n ≤ maxAdd`, the sum compares greater than `s`. -/
theorem add_gt (bits : Nat) (hbits : 1 ≤ bits) (a n : Int)
    (ha : 0 ≤ a ∧ a < modulo bits) (hn0 : 0 < n) (hn : n ≤ maxAdd bits) :
    ∃ s', add a n (maxAdd bits) (modulo bits) = some s' ∧
      gt s' a (halfRing bits) = true ∧ lt a s' (halfRing bits) = true ∧
      0 ≤ s' ∧ s' < modulo bits := by
  refine ⟨(a + n) % modulo bits, by simp [add, hn], ?_⟩
  have hM := modulo_eq_two_half bits hbits
  have hmax : maxAdd bits = halfRing bits - 1 := rfl
  generalize halfRing bits = h at *
  generalize modulo bits = M at *
  generalize maxAdd bits = mx at *
  subst hM hmax
  rw [lt_swap]
  by_cases hlt : a + n < 2 * h
  · have e : (a + n) % (2 * h) = a + n := Int.emod_eq_of_lt (by omega) hlt
    rw [e]
    simp only [gt, Bool.or_eq_true, Bool.and_eq_true, decide_eq_true_eq]
    omega
  · have e : (a + n) % (2 * h) = a + n - 2 * h := by
      rw [← Int.sub_emod_right]
      exact Int.emod_eq_of_lt (by omega) (by omega)
    rw [e]
    simp only [gt, Bool.or_eq_true, Bool.and_eq_true, decide_eq_true_eq]
    omega

/-- Adding zero changes nothing. -/
theorem add_zero (bits : Nat) (a : Int) (ha : 0 ≤ a ∧ a < modulo bits) :
    add a 0 (maxAdd bits) (modulo bits) = some a := by
  have hp := halfRing_pos bits
  have : (0 : Int) ≤ maxAdd bits := by unfold maxAdd; unfold halfRing at hp; omega
  simp only [add, this, if_true, Int.add_zero]
  rw [Int.emod_eq_of_lt ha.1 ha.2]

/-! ### Non-vacuity: the hypotheses are satisfiable on concrete non-trivial values -/
example : (0 ≤ (3:Int) ∧ (3:Int) < modulo 8) ∧ (0 ≤ (200:Int) ∧ (200:Int) < modulo 8)
    ∧ (3:Int) ≠ 200 ∧ ((3:Int) - 200 ≠ halfRing 8 ∧ (200:Int) - 3 ≠ halfRing 8) := by decide
example : gt 3 200 (halfRing 8) = true ∧ lt 3 200 (halfRing 8) = false := by decide
example : (0:Int) - 128 = halfRing 8 ∨ (128:Int) - 0 = halfRing 8 := by decide
example : add 250 100 (maxAdd 8) (modulo 8) = some 94 ∧ gt 94 250 (halfRing 8) = true := by decide

/-! ### Histories: several objects, operations in any order (model: `step` / `run`)

The statement quantifies over values; these theorems lift it to every HISTORY: whatever
objects exist and whatever operations ran before, an operation between two objects of one
width gives the answer of the pair theorems above, and no operation changes an object. -/

/-- One operation only appends (at most) one slot: existing objects are never changed or removed. -/
theorem step_prefix (objs : List Slot) (op : Op) : objs <+: (step objs op).2 := by
  unfold step
  split <;> split <;> (try split) <;> (try split) <;>
    first | exact List.prefix_refl _ | exact List.prefix_append _ _

theorem run_frozen (objs : List Slot) (ops : List Op) : objs <+: (run objs ops).2 := by
  induction ops generalizing objs with
  | nil => exact List.prefix_refl _
  | cons op ops ih =>
    simp only [run]
    exact List.IsPrefix.trans (step_prefix objs op) (ih _)

/-- An object that exists keeps its number and width through any program. -/
theorem run_slot_frozen (objs : List Slot) (ops : List Op) (k : Nat) (hk : k < objs.length) :
    slotAt (run objs ops).2 k = slotAt objs k := by
  obtain ⟨t, ht⟩ := run_frozen objs ops
  rw [← ht]
  simp [slotAt, List.getElem?_append_left hk]

/-- The answer to the operation at position `pre.length` of a program is the answer of that
operation on the slots left by the operations before it. -/
theorem run_nth (objs : List Slot) (pre : List Op) (op : Op) (post : List Op) :
    (run objs (pre ++ op :: post)).1[pre.length]? = some (step (run objs pre).2 op).1 := by
  induction pre generalizing objs with
  | nil => simp [run]
  | cons p pre ih =>
    simp only [List.cons_append, run, List.length_cons, List.getElem?_cons_succ]
    exact ih _

/-- Comparison between two objects of one width: the pair function, whatever the other slots hold. -/
theorem step_cmp (objs : List Slot) (op : Op) (a b : Int) (w : Nat)
    (hx : slotAt objs op.i = some (a, w)) (hy : slotAt objs op.j = some (b, w))
    (hk : op.kind ≠ .add ∧ op.kind ≠ .iadd) :
    step objs op = (.bool (cmpK op.kind a b (halfRing w)), objs) := by
  unfold step
  rw [hx, hy]
  cases h : op.kind <;> simp_all [cmpK]

/-- History independence of comparisons: a comparison between two objects constructed at the start
(slots `i`, `j` of the initial objects, same width) answers the pair function of their constructed
values, whatever operations `pre` ran before and whatever other objects exist. -/
theorem run_cmp_history_independent (objs : List Slot) (pre : List Op) (op : Op) (post : List Op)
    (a b : Int) (w : Nat) (hi : op.i < objs.length) (hj : op.j < objs.length)
    (hx : slotAt objs op.i = some (a, w)) (hy : slotAt objs op.j = some (b, w))
    (hk : op.kind ≠ .add ∧ op.kind ≠ .iadd) :
    (run objs (pre ++ op :: post)).1[pre.length]? = some (.bool (cmpK op.kind a b (halfRing w))) := by
  rw [run_nth, step_cmp _ op a b w (by rw [run_slot_frozen _ _ _ hi, hx])
    (by rw [run_slot_frozen _ _ _ hj, hy]) hk]

/-- Addition (`s + n` or `s += n`) between two objects of one width, `0 < n ≤ maxAdd`: a NEW object of the
same width holding `(s + n) mod 2^bits` is appended, and it compares greater than (not less than, not
equal to) the left operand. -/
theorem step_add_ok (objs : List Slot) (op : Op) (a n : Int) (w : Nat) (hw : 1 ≤ w)
    (hx : slotAt objs op.i = some (a, w)) (hy : slotAt objs op.j = some (n, w))
    (hk : op.kind = .add ∨ op.kind = .iadd)
    (ha : 0 ≤ a ∧ a < modulo w) (hn0 : 0 < n) (hn : n ≤ maxAdd w) :
    step objs op = (.sum ((a + n) % 2 ^ w) w true false false, objs ++ [some ((a + n) % 2 ^ w, w)]) := by
  obtain ⟨s', hs, hgt, _, hs0, hsM⟩ := add_gt w hw a n ha hn0 hn
  have hs' : s' = (a + n) % 2 ^ w := by
    have := add_mod w a n hn
    rw [hs] at this; exact Option.some.inj this
  have hmk : mk s' w = s' := by
    unfold mk; exact Int.emod_eq_of_lt hs0 hsM
  have hlt : lt s' a (halfRing w) = false := by
    cases h : lt s' a (halfRing w)
    · rfl
    · exact absurd ⟨h, hgt⟩ (lt_gt_exclusive _ _ _)
  have heq : eq s' a = false := by
    cases h : eq s' a
    · rfl
    · have : a = s' := by simpa [eq] using h
      subst this
      have := (equal_only_eq a (halfRing w)).2.2
      rw [this] at hgt; exact absurd hgt (by decide)
  unfold step
  rw [hx, hy]
  rcases hk with hk | hk <;> simp [hk, hs, hmk, hgt, hlt, heq, ← hs']

/-- Addition of `n > maxAdd` is refused (ArithmeticError) and leaves every object as it was. -/
theorem step_add_refused (objs : List Slot) (op : Op) (a n : Int) (w : Nat)
    (hx : slotAt objs op.i = some (a, w)) (hy : slotAt objs op.j = some (n, w))
    (hk : op.kind = .add ∨ op.kind = .iadd) (hn : maxAdd w < n) :
    step objs op = (.arith, objs ++ [none]) := by
  have hs := add_refuses_large w a n hn
  unfold step
  rw [hx, hy]
  rcases hk with hk | hk <;> simp [hk, hs]

/-- Every object a program ever holds is in the ring of its width, if the initial ones are
(constructor: `mk_range`). -/
def InRing (s : Slot) : Prop := ∀ a w, s = some (a, w) → 0 ≤ a ∧ a < modulo w

theorem step_inRing (objs : List Slot) (op : Op) (h : ∀ s ∈ objs, InRing s) :
    ∀ s ∈ (step objs op).2, InRing s := by
  unfold step
  split <;> split <;> (try split) <;> (try split) <;>
    simp only [List.mem_append, List.mem_singleton] <;>
    (first
      | exact h
      | (rintro s (hs | rfl)
         · exact h s hs
         · intro a w hsw
           first
             | (cases hsw; exact mk_range _ _)
             | cases hsw))

theorem run_inRing (objs : List Slot) (ops : List Op) (h : ∀ s ∈ objs, InRing s) :
    ∀ s ∈ (run objs ops).2, InRing s := by
  induction ops generalizing objs with
  | nil => exact h
  | cons op ops ih =>
    simp only [run]
    exact ih _ (step_inRing objs op h)

/-- History independence of additions: adding slot `j` to slot `i` (objects constructed at the start, one
width, `0 < n ≤ maxAdd`) after ANY operations `pre` yields `(s + n) mod 2^bits`, greater than `s`. -/
theorem run_add_history_independent (objs : List Slot) (pre : List Op) (op : Op) (post : List Op)
    (a n : Int) (w : Nat) (hw : 1 ≤ w) (hi : op.i < objs.length) (hj : op.j < objs.length)
    (hx : slotAt objs op.i = some (a, w)) (hy : slotAt objs op.j = some (n, w))
    (hk : op.kind = .add ∨ op.kind = .iadd)
    (ha : 0 ≤ a ∧ a < modulo w) (hn0 : 0 < n) (hn : n ≤ maxAdd w) :
    (run objs (pre ++ op :: post)).1[pre.length]? = some (.sum ((a + n) % 2 ^ w) w true false false) := by
  rw [run_nth, step_add_ok _ op a n w hw (by rw [run_slot_frozen _ _ _ hi, hx])
    (by rw [run_slot_frozen _ _ _ hj, hy]) hk ha hn0 hn]

/-- A chain of additions `s + n₁ + … + n_k` with every `n_i ≤ maxAdd` yields `(s + Σ n_i) mod 2^bits`
(for `s` in the ring). -/
theorem addMany_sum (bits : Nat) (a : Int) (ns : List Int) (ha : 0 ≤ a ∧ a < modulo bits)
    (hns : ∀ n ∈ ns, n ≤ maxAdd bits) :
    addMany a ns (maxAdd bits) (modulo bits) = some ((a + ns.sum) % 2 ^ bits) := by
  have key : ∀ (ns : List Int) (a : Int), (∀ n ∈ ns, n ≤ maxAdd bits) →
      addMany (a % 2 ^ bits) ns (maxAdd bits) (modulo bits) = some ((a + ns.sum) % 2 ^ bits) := by
    intro ns
    induction ns with
    | nil => intro a _; simp [addMany]
    | cons n ns ih =>
      intro a h
      have hn : n ≤ maxAdd bits := h n (by simp)
      simp only [addMany, add_mod bits _ n hn, List.sum_cons]
      rw [Int.emod_add_emod, ih (a + n) (fun m hm => h m (by simp [hm])), Int.add_assoc]
  have : a % 2 ^ bits = a := Int.emod_eq_of_lt ha.1 (by simpa [modulo] using ha.2)
  rw [← this, key ns a hns, this]

/-- … and one addend above `maxAdd` anywhere in the chain makes the whole chain fail. -/
theorem addMany_refused (bits : Nat) (a : Int) (ns₁ ns₂ : List Int) (n : Int)
    (hn : maxAdd bits < n) :
    addMany a (ns₁ ++ n :: ns₂) (maxAdd bits) (modulo bits) = none := by
  induction ns₁ generalizing a with
  | nil => simp [addMany, add_refuses_large bits a n hn]
  | cons m ms ih =>
    simp only [List.cons_append, addMany]
    split
    · exact ih _
    · rfl

/-! non-vacuity of the history theorems: a program over objects of two widths, a shared number,
`+=`, an addition through a returned object, a refused addition -/
example :
    (run [some (250, 8), some (100, 8), some (250, 16), some (200, 8)]
      [⟨.lt, 0, 2⟩, ⟨.eq, 0, 2⟩, ⟨.iadd, 0, 1⟩, ⟨.gt, 4, 0⟩, ⟨.add, 4, 3⟩, ⟨.add, 4, 1⟩, ⟨.le, 0, 6⟩]).1
      = [.type, .bool false, .sum 94 8 true false false, .bool true, .arith,
         .sum 194 8 true false false, .bool false] := by decide
example : addMany 250 [100, 100, 0, 127] (maxAdd 8) (modulo 8) = some 65 := by decide

end TwistedProps.C34
