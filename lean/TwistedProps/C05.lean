import TwistedModel.Inline.Sync
import TwistedModel.Inline.Driver
import TwistedProps.C05.Sem
import TwistedProps.C05.Sim
import TwistedProps.C05.Obs
/-!
C05 — inlineCallbacks and coroutines match synchronous execution, incl. cancellation.

Statement (given): for any generator decorated with inlineCallbacks, or coroutine run with
ensureDeferred, that yields or awaits Deferreds and plain values whose outcomes arrive in any
order, the function observes each outcome as a returned value or raised exception exactly as a
synchronous call would, and the returned Deferred fires exactly once with the function's return
value or uncaught exception.  Cancelling the returned Deferred while the function waits cancels
exactly the awaited Deferred, the function observes that Deferred's outcome, and the returned
Deferred then fires once with the function's eventual outcome.

What is proved here, for ALL programs `p` of the mini language (Inline/Lang.lean: awaits, plain
yields, try/except with class filters, try/finally incl. return/raise in finally, loops, if,
return, raise, nested calls through a new Deferred or by direct delegation), ALL canceller
assignments `specs`, ALL schedules `pre`/`post` (fire events in any order, any number of repeated
or missing fires, cancel events anywhere and any number of times):

  * `inline_matches_sync`  — what the function bodies logged (every value bound / exception raised at
    every await, plain yield and nested call, in order) and the list of results the returned Deferred
    delivered are EQUAL to the synchronous evaluation (`Sync.run`, big-step, no generators, no
    Deferreds) of the same program on the outcomes the awaited Deferreds had.  The synchronous run
    either ends (then the Deferred fired exactly once with that outcome) or blocks at a Deferred
    that has no outcome (then the Deferred has not fired and the log is the log up to there).
  * `result_fires_at_most_once`, `result_fires_iff_sync_ends` — the "exactly once" part, separately.
  * `cancel_cancels_exactly_awaited` — `cancel()` while the function waits: the awaited Deferred
    receives exactly one `cancel()`, every other awaited Deferred none; `cancel_when_done_is_noop`.
  * `cancel_outcome_observed_at_the_await` — the first thing any function body logs after that `cancel()`
    is `aw o` (the await it was suspended at producing `o`), `o` the outcome the cancelled Deferred got.
  * `cancel_function_observes_awaited_outcome` — after that `cancel()` the awaited Deferred HAS an
    outcome (the one its canceller chose, `CancelledError` if it chose none), nobody else's outcome
    changed, and (by `inline_matches_sync` at the new state) the function has observed it exactly as
    the synchronous function reading that outcome at that await would; the returned Deferred fired
    iff that synchronous function ends — `cancel_result_fires_once_with_eventual_outcome`.

ENLARGED SPACE (after seeded change C05-2 was missed): every theorem is for BOTH kinds of function (`coro`):
a generator's `yield d` hands the Deferred to `_inlineCallbacks`, a coroutine's `await d` first runs
`Deferred.__await__`, which returns/raises an already-available result itself (`Gen.awaitC`, `Driver.runGen`);
nested calls choose the kind of the callee (`Stmt.call w c p`).  Deferreds are fired with `Res` objects: a value or
a failure of any `FCls` (Failure, Failure SUBCLASS instance, bare exception, Failure through `callback`) — in
events and in cancellers; exceptions include a `BaseException` that is not an `Exception` (`Exc.base`, `raiseB`,
`except BaseException`).  `fired_result_observed_by_isinstance` states the class-blindness explicitly.

PARTIAL BY NATURE (named `…` not `…_partial` because nothing in the statement is dropped, but the
objects are models):
  1. Python's generator/coroutine semantics are MY transcription (`Inline/Machine.lean: denote`),
     tied to CPython on every run by compiling each program to a real generator, a real coroutine
     and a real synchronous function (harness/corr/C05.py).
  2. The Deferreds created by `_cancellableInlineCallbacks` (one per nested call, plus the chain of
     replacement Deferreds that `_handleCancelInlineCallbacks` builds) are abstracted into the stack
     of suspended activations; the theorems therefore do not cover the callback-list splice of
     `_addCancelCallbackToDeferred` or the `_continuation` hand-over — the tie runs the real ones
     (nested through decorated functions, bare generator/coroutine objects, ensureDeferred,
     fromCoroutine) and compares timelines.
  3. Hypotheses of the model = the ASSUMES of the correspondence: every Deferred is awaited once and
     carries no foreign callbacks; `cancel()` is not re-entrant; cancellers return normally.
-/
namespace TwistedProps.C05
open Twisted.Inline Twisted.Inline.Driver

/-- the outcomes the awaited Deferreds had in state `s` -/
def outcomes (s : State) : Nat → Option Outcome := fun i => (s.ds i).delivered

/-- **Headline.** Under every schedule the asynchronous run observes what the synchronous run of
    the same program observes on the same outcomes, and delivers its result (once) iff that ends. -/
theorem inline_matches_sync (coro : Bool) (p : Stmt) (specs : List Canc) (pre post : List Event) :
    let s := run coro p specs pre post
    (s.final, s.log) = ((Sync.run (outcomes s) p).1.toList, (Sync.run (outcomes s) p).2) := by
  intro s
  have v : Inv coro p s := run_inv coro p specs pre post
  have hs := v.spec (outcomes s) (agrees_self s)
  rw [← gen_sound _ coro]
  by_cases hst : s.stack = []
  · obtain ⟨c, n', hf, he⟩ := hs.1 hst
    simp [he, hf]
  · obtain ⟨hf, he⟩ := hs.2 hst
    have hw := v.waiting hst
    have hnone : outcomes s (s.next - 1) = none := by
      have := v.wfd.called (s.next - 1)
      rw [hw.unfired] at this
      cases h : (s.ds (s.next - 1)).delivered with
      | none => exact h
      | some o => rw [h] at this; simp at this
    simp [he, hf, resumeSpec, hnone]

/-- non-vacuity: two awaits fired in reverse order, a failure caught, cancellation of the third
    wait — the run ends with value 1000 (the code of CancelledError) after logging four observations -/
example :
    let p : Stmt := .seq .await (.seq (.tryExcept .await .all (.mark 7)) (.seq (.tryExcept .await .canc .skip) (.ret .acc)))
    let s := run false p [.none, .none, .noop] [] [.fire 1 (.fail .plain (.user 4)), .fire 0 (.ok 3), .cancel]
    (s.final, s.log, (s.ds 2).cancelCalls) =
      ([.val 1000], [.aw (.val 3), .aw (.exc (.user 4)), .mk 7, .aw (.exc .cancelled)], 1) := by
  decide +kernel

/-- non-vacuity on the enlarged space: the same program as a COROUTINE; Deferred 1 has ALREADY failed, with an
    instance of a Failure SUBCLASS, when the coroutine reaches it (the `Deferred.__await__` shortcut: the Deferred
    keeps its result), Deferred 0 fails later through `callback(Failure(…))`: both exceptions are raised in the function -/
example :
    let p : Stmt := .seq (.tryExcept .await .user (.mark 1)) (.seq (.tryExcept .await .all (.mark 7)) (.seq (.tryExcept .await .canc .skip) (.ret .acc)))
    let s := run true p [.none, .none, .noop] [.fire 1 (.fail .sub (.user 4))] [.fire 0 (.fail .viaCallback (.user 9)), .cancel]
    (s.final, s.log, (s.ds 2).cancelCalls, (s.ds 1).result) =
      ([.val 1000], [.aw (.exc (.user 9)), .mk 1, .aw (.exc (.user 4)), .mk 7, .aw (.exc .cancelled)], 1,
       some (.fail .sub (.user 4))) := by
  decide +kernel

/-- non-vacuity: a `BaseException` that is not an `Exception` passes `except Exception`, is caught by
    `except BaseException`, and is the function's outcome when uncaught -/
example :
    let p : Stmt := .seq (.tryExcept (.tryExcept .await .all (.mark 1)) .base (.mark 2)) (.raiseB 5)
    let s := run true p [] [.fire 0 (.fail .raw (.base 3))] []
    (s.final, s.log) = ([.exc (.base 5)], [.aw (.exc (.base 3)), .mk 2]) := by
  decide +kernel

theorem result_fires_at_most_once (coro : Bool) (p : Stmt) (specs : List Canc) (pre post : List Event) :
    (run coro p specs pre post).final.length ≤ 1 := by
  have h := inline_matches_sync coro p specs pre post
  simp only at h
  have := congrArg Prod.fst h
  simp only at this
  rw [this]
  cases (Sync.run (outcomes (run coro p specs pre post)) p).1 <;> simp

/-- the returned Deferred has fired, with `o`, exactly when the synchronous function ends with `o` -/
theorem result_fires_iff_sync_ends (coro : Bool) (p : Stmt) (specs : List Canc) (pre post : List Event) (o : Outcome) :
    let s := run coro p specs pre post
    s.final = [o] ↔ (Sync.run (outcomes s) p).1 = some o := by
  intro s
  have h := congrArg Prod.fst (inline_matches_sync coro p specs pre post)
  simp only at h
  show s.final = [o] ↔ _
  rw [h]
  cases (Sync.run (outcomes s) p).1 <;> simp

example : (run false (.seq .await (.ret (.add 1))) [] [] [.fire 0 (.ok 4), .fire 0 (.ok 9), .cancel]).final = [.val 5] := by
  decide +kernel

/-- one more event -/
theorem run_snoc (coro : Bool) (p : Stmt) (specs : List Canc) (pre post : List Event) (e : Event) :
    run coro p specs pre (post ++ [e]) = step (run coro p specs pre post) e := by
  simp [run, List.foldl_append]

/-- the function waits (the returned Deferred has not fired, some activation is suspended) -/
def waits (s : State) : Prop := s.stack ≠ []

/-- `cancel()` while the function waits reaches exactly the awaited Deferred, once. -/
theorem cancel_cancels_exactly_awaited (coro : Bool) (p : Stmt) (specs : List Canc) (pre post : List Event) :
    let s := run coro p specs pre post
    let s' := run coro p specs pre (post ++ [.cancel])
    waits s →
      (s'.ds (s.next - 1)).cancelCalls = (s.ds (s.next - 1)).cancelCalls + 1 ∧
      ∀ j, j ≠ s.next - 1 → (s'.ds j).cancelCalls = (s.ds j).cancelCalls := by
  intro s s' hw
  have v : Inv coro p s := run_inv coro p specs pre post
  have hs' : s' = step s .cancel := run_snoc coro p specs pre post .cancel
  have v0 := (flagEq_mark s .cancel).inv v
  have hW := v.waiting hw
  have hne : (s.mark .cancel).stack.isEmpty = false := by
    cases h : s.stack with
    | nil => exact absurd h hw
    | cons a b => simp [h]
  have hstep : step s .cancel = cancelD (s.mark .cancel) (s.next - 1) := by
    simp only [step, cancel, hne, Bool.false_eq_true, if_false, mark_waitingOn, hW.on]
  have f := cancelD_facts coro p (s.mark .cancel) v0 (s.next - 1) hW.unfired
  rw [hs', hstep]
  exact ⟨f.hit, fun j hj => (f.others j hj).1⟩

/-- `cancel()` when the function does not wait (it has finished) changes nothing. -/
theorem cancel_when_done_is_noop (coro : Bool) (p : Stmt) (specs : List Canc) (pre post : List Event) :
    let s := run coro p specs pre post
    let s' := run coro p specs pre (post ++ [.cancel])
    ¬ waits s → s'.ds = s.ds ∧ s'.final = s.final ∧ s'.log = s.log := by
  intro s s' hw
  have hs' : s' = step s .cancel := run_snoc coro p specs pre post .cancel
  have hst : s.stack = [] := by
    cases h : s.stack with
    | nil => rfl
    | cons a b => exact absurd (by simp [waits, h]) hw
  have : step s .cancel = s.mark .cancel := by
    simp [step, cancel, hst]
  rw [hs', this]
  exact ⟨rfl, rfl, rfl⟩

example :
    let p : Stmt := .seq .await (.ret (.lit 3))
    let s' := run true p [.firesOk 1] [] ([.fire 0 (.fail .sub (.user 2))] ++ [.cancel])
    s'.final = [.exc (.user 2)] ∧ (s'.ds 0).cancelCalls = 0 ∧ s'.log = [.aw (.exc (.user 2))] := by
  decide +kernel

/-- After `cancel()` while waiting, the awaited Deferred has the outcome its canceller chose
    (`CancelledError` when it chose none), no other Deferred's outcome changed, and the function has
    observed the outcomes exactly as the synchronous function would (so in particular this one, at
    the await it was blocked at). -/
theorem cancel_function_observes_awaited_outcome (coro : Bool) (p : Stmt) (specs : List Canc) (pre post : List Event) :
    let s := run coro p specs pre post
    let s' := run coro p specs pre (post ++ [.cancel])
    waits s →
      outcomes s (s.next - 1) = none ∧
      outcomes s' (s.next - 1) = some (cancelOutcome (s.ds (s.next - 1)).canc) ∧
      (∀ j, j ≠ s.next - 1 → outcomes s' j = outcomes s j) ∧
      s'.log = (Sync.run (outcomes s') p).2 := by
  intro s s' hw
  have v : Inv coro p s := run_inv coro p specs pre post
  have hs' : s' = step s .cancel := run_snoc coro p specs pre post .cancel
  have v0 := (flagEq_mark s .cancel).inv v
  have hW := v.waiting hw
  have hne : (s.mark .cancel).stack.isEmpty = false := by
    cases h : s.stack with
    | nil => exact absurd h hw
    | cons a b => simp [h]
  have hstep : step s .cancel = cancelD (s.mark .cancel) (s.next - 1) := by
    simp only [step, cancel, hne, Bool.false_eq_true, if_false, mark_waitingOn, hW.on]
  have f := cancelD_facts coro p (s.mark .cancel) v0 (s.next - 1) hW.unfired
  have hnone : outcomes s (s.next - 1) = none := by
    have := v.wfd.called (s.next - 1)
    rw [hW.unfired] at this
    cases h : (s.ds (s.next - 1)).delivered with
    | none => exact h
    | some o => rw [h] at this; simp at this
  refine ⟨hnone, ?_, ?_, ?_⟩
  · show (s'.ds _).delivered = _
    rw [hs', hstep]; exact f.outcome
  · intro j hj
    show (s'.ds j).delivered = (s.ds j).delivered
    rw [hs', hstep]; exact (f.others j hj).2
  · exact (congrArg Prod.snd (inline_matches_sync coro p specs pre (post ++ [.cancel])))

/-- The observation happens at the await the function was suspended at: the first entry logged after
    the `cancel()` is that await producing the cancelled Deferred's outcome. -/
theorem cancel_outcome_observed_at_the_await (coro : Bool) (p : Stmt) (specs : List Canc) (pre post : List Event) :
    let s := run coro p specs pre post
    let s' := run coro p specs pre (post ++ [.cancel])
    waits s → ∃ more, s'.log = s.log ++ .aw (cancelOutcome (s.ds (s.next - 1)).canc) :: more := by
  intro s s' hw
  have v : Inv coro p s := run_inv coro p specs pre post
  have g : GS s := run_gs coro p specs pre post
  have hs' : s' = step s .cancel := run_snoc coro p specs pre post .cancel
  have v0 := (flagEq_mark s .cancel).inv v
  have hW := v.waiting hw
  have hne : (s.mark .cancel).stack.isEmpty = false := by
    cases h : s.stack with
    | nil => exact absurd h hw
    | cons a b => simp [h]
  have hstep : step s .cancel = cancelD (s.mark .cancel) (s.next - 1) := by
    simp only [step, cancel, hne, Bool.false_eq_true, if_false, mark_waitingOn, hW.on]
  rw [hs', hstep]
  exact cancelD_log coro p (s.mark .cancel) v0 (g.of_stack_eq rfl) (s.next - 1) hW.unfired hw hW.on

/-- …and the returned Deferred then has fired (once) iff the function's synchronous twin ends, with
    that outcome — at the cancel and at every later moment. -/
theorem cancel_result_fires_once_with_eventual_outcome (coro : Bool) (p : Stmt) (specs : List Canc)
    (pre post later : List Event) :
    let s' := run coro p specs pre (post ++ [.cancel] ++ later)
    s'.final = (Sync.run (outcomes s') p).1.toList :=
  congrArg Prod.fst (inline_matches_sync coro p specs pre (post ++ [.cancel] ++ later))

/-- non-vacuity for the cancellation theorems: a nested function (through its own Deferred) waits on
    Deferred 1 whose canceller fires the value 8; the outer function goes on with it -/
example :
    let p : Stmt := .seq .await (.seq (.call true true (.seq .await (.ret (.add 1)))) (.ret (.add 10)))
    let s := run false p [.none, .firesOk 8] [.fire 0 (.ok 2)] []
    let s' := run false p [.none, .firesOk 8] [.fire 0 (.ok 2)] ([] ++ [.cancel])
    s.stack.length = 2 ∧ s.next = 2 ∧ ((s'.ds 0).cancelCalls, (s'.ds 1).cancelCalls) = (0, 1) ∧
      (s'.ds 1).delivered = some (.val 8) ∧ s'.final = [.val 19] ∧
      s'.log = [.aw (.val 2), .aw (.val 8), .cr (.val 9)] := by
  decide +kernel

/-- **Failure classes.**  Whatever object an awaited Deferred that has not fired yet is fired with — a value, a
    `Failure`, an instance of a SUBCLASS of `Failure`, a bare exception, a `Failure` given to `callback` —, the
    outcome the Deferred then has is `r.outcome` (the exception, for every failure class; the class is not
    observable), nobody else's outcome changes, and the function (generator or coroutine, whether it was
    suspended on this Deferred or reaches it later through `Deferred.__await__`'s already-fired shortcut) observes
    exactly what the synchronous function reading that outcome observes. -/
theorem fired_result_observed_by_isinstance (coro : Bool) (p : Stmt) (specs : List Canc) (pre post : List Event)
    (i : Nat) (r : Res) :
    let s := run coro p specs pre post
    let s' := run coro p specs pre (post ++ [.fire i r])
    (s.ds i).called = false →
      outcomes s' i = some r.outcome ∧ (∀ j, j ≠ i → outcomes s' j = outcomes s j) ∧
      (s'.final, s'.log) = ((Sync.run (outcomes s') p).1.toList, (Sync.run (outcomes s') p).2) := by
  intro s s' hc
  have v : Inv coro p s := run_inv coro p specs pre post
  have hs' : s' = step s (.fire i r) := run_snoc coro p specs pre post _
  have v0 := (flagEq_mark s (.fire i)).inv v
  have f := fire_facts (s.mark (.fire i)) v0.wfd i (v0.hooked_lt i) r
  have hc0 : ((s.mark (.fire i)).ds i).called = false := hc
  have hd : ∀ j, ((step s (.fire i r)).ds j).delivered = ((fire (s.mark (.fire i)) i r).1.ds j).delivered := by
    intro j
    simp only [step]
    split <;> rename_i s'' h <;> rw [h] <;> rfl
  refine ⟨?_, ?_, inline_matches_sync coro p specs pre (post ++ [.fire i r])⟩
  · show (s'.ds i).delivered = _
    rw [hs', hd]; exact (f.accepted hc0).2
  · intro j hj
    show (s'.ds j).delivered = (s.ds j).delivered
    rw [hs', hd]; exact (f.others j hj).1

example :
    let p : Stmt := .seq .await (.seq (.tryExcept .await .user (.mark 3)) (.ret .acc))
    let s' := run true p [] [] ([.fire 1 (.fail .sub (.user 6))] ++ [.fire 0 (.ok 2)])
    outcomes s' 1 = some (.exc (.user 6)) ∧ s'.log = [.aw (.val 2), .aw (.exc (.user 6)), .mk 3] ∧ s'.final = [.val 6] := by
  decide +kernel

/-- **Part A, restated**: the resumable (generator) semantics fed immediately IS the synchronous
    big-step semantics — the link between `denote` (used by the driver) and `Sync.run`. -/
theorem generator_semantics_matches_sync (σ : Nat → Option Outcome) (coro : Bool) (p : Stmt) :
    ((feed σ (gen coro p) 0 []).1.map (·.1), (feed σ (gen coro p) 0 []).2) = Sync.run σ p :=
  gen_sound σ coro p

end TwistedProps.C05
