import TwistedModel.Ssh.Sexpy
/-!
C37 lemmas — `twisted.conch.ssh.sexpy`: decimal length prefixes, the `parse` stack machine reads back
what `pack` wrote for every nested S-expression (`parse_pack`).
-/
namespace TwistedProps.C37
open Twisted.Py Twisted.Ssh.Sexpy

theorem decToNat_snoc (bs : Bytes) (b : UInt8) : decToNat (bs ++ [b]) = decToNat bs * 10 + (b.toNat - 48) := by
  simp [decToNat, List.foldl_append]

theorem digit_toNat (d : Nat) (h : d < 10) : (UInt8.ofNat (48 + d)).toNat = 48 + d := by
  rw [UInt8.toNat_ofNat']; omega

theorem decToNat_decDigits (n : Nat) : decToNat (decDigits n) = n := by
  induction n using Nat.strongRecOn with
  | _ n ih =>
    rw [decDigits]
    by_cases h : n < 10
    · simp only [h, dite_true, decToNat, List.foldl_cons, List.foldl_nil]
      rw [digit_toNat n h]; omega
    · simp only [h, dite_false]
      rw [decToNat_snoc, ih (n / 10) (by omega), digit_toNat _ (by omega)]
      omega

theorem decDigits_all (n : Nat) : ∀ c ∈ decDigits n, isDigit c = true := by
  induction n using Nat.strongRecOn with
  | _ n ih =>
    rw [decDigits]
    by_cases h : n < 10
    · simp only [h, dite_true, List.mem_singleton]
      intro c hc; subst hc
      simp only [isDigit, digit_toNat n h]; simp; omega
    · simp only [h, dite_false, List.mem_append, List.mem_singleton]
      intro c hc
      rcases hc with hc | hc
      · exact ih (n / 10) (by omega) c hc
      · subst hc
        simp only [isDigit, digit_toNat _ (show n % 10 < 10 by omega)]; simp; omega

theorem decDigits_ne_nil (n : Nat) : decDigits n ≠ [] := by
  rw [decDigits]; split <;> simp

theorem takeWhile_digits (n : Nat) (t : Bytes) :
    (decDigits n ++ 58 :: t).takeWhile isDigit = decDigits n := by
  rw [List.takeWhile_append_of_pos (decDigits_all n)]
  simp [isDigit]


theorem parseLoop_open (fuel : Nat) (rest : Bytes) (stack : List (List Sexp)) :
    parseLoop (fuel + 1) (40 :: rest) stack = parseLoop fuel rest ([] :: stack) := by
  simp [parseLoop]

theorem parseLoop_close_inner (fuel : Nat) (rest : Bytes) (top parent : List Sexp) (more : List (List Sexp)) :
    parseLoop (fuel + 1) (41 :: rest) (top :: parent :: more)
      = parseLoop fuel rest ((parent ++ [.list top]) :: more) := by
  simp [parseLoop]

theorem parseLoop_close_outer (fuel : Nat) (top : List Sexp) :
    parseLoop (fuel + 1) [41] [top] = .ok top := by
  simp [parseLoop]

/-- one atom `b"%d:%b" % (len(b), b)` is read back, whatever follows -/
theorem parseLoop_atom (fuel : Nat) (b rest : Bytes) (top : List Sexp) (more : List (List Sexp)) :
    parseLoop (fuel + 1) (packOne (.atom b) ++ rest) (top :: more)
      = parseLoop fuel rest ((top ++ [.atom b]) :: more) := by
  have hne := decDigits_ne_nil b.length
  have hall := decDigits_all b.length
  have htw := takeWhile_digits b.length (b ++ rest)
  have hval := decToNat_decDigits b.length
  generalize hds : decDigits b.length = ds at hne hall htw hval
  cases ds with
  | nil => exact absurd rfl hne
  | cons c ds =>
    have hc : isDigit c = true := hall c (by simp)
    have h40 : c ≠ 40 := by intro e; subst e; simp [isDigit] at hc
    have h41 : c ≠ 41 := by intro e; subst e; simp [isDigit] at hc
    have hs : packOne (.atom b) ++ rest = c :: (ds ++ 58 :: (b ++ rest)) := by
      simp [packOne, hds]
    rw [hs]
    simp only [parseLoop, h40, h41, if_false]
    have htw' : (c :: (ds ++ 58 :: (b ++ rest))).takeWhile isDigit = c :: ds := by simpa using htw
    rw [htw']
    have hi : (c :: ds).length ≠ 0 := by simp
    simp only [hi, if_false]
    have htake : (c :: (ds ++ 58 :: (b ++ rest))).take (c :: ds).length = c :: ds := by
      have : c :: (ds ++ 58 :: (b ++ rest)) = (c :: ds) ++ 58 :: (b ++ rest) := by simp
      rw [this, List.take_left']; rfl
    rw [htake, hval]
    have hdrop1 : (c :: (ds ++ 58 :: (b ++ rest))).drop ((c :: ds).length + 1) = b ++ rest := by
      have : c :: (ds ++ 58 :: (b ++ rest)) = ((c :: ds) ++ [58]) ++ (b ++ rest) := by simp
      rw [this, List.drop_left']; simp
    have hdrop2 : (c :: (ds ++ 58 :: (b ++ rest))).drop ((c :: ds).length + 1 + b.length) = rest := by
      have : c :: (ds ++ 58 :: (b ++ rest)) = (((c :: ds) ++ [58]) ++ b) ++ rest := by simp
      rw [this, List.drop_left']; simp; omega
    rw [hdrop1, hdrop2]
    simp


mutual
  /-- iterations of the `while s:` loop spent on one element -/
  def steps : Sexp → Nat
    | .atom _ => 1
    | .list xs => stepsL xs + 2
  def stepsL : List Sexp → Nat
    | [] => 0
    | x :: xs => steps x + stepsL xs
end

mutual
  theorem parseLoop_packOne (x : Sexp) (fuel : Nat) (rest : Bytes) (top : List Sexp) (more : List (List Sexp)) :
      parseLoop (fuel + steps x) (packOne x ++ rest) (top :: more)
        = parseLoop fuel rest ((top ++ [x]) :: more) := by
    cases x with
    | atom b => exact parseLoop_atom fuel b rest top more
    | list xs =>
      have h1 : packOne (.list xs) ++ rest = 40 :: (packList xs ++ (41 :: rest)) := by simp [packOne]
      have h2 : fuel + steps (.list xs) = ((fuel + 1) + stepsL xs) + 1 := by simp [steps]; omega
      rw [h1, h2, parseLoop_open, parseLoop_packList xs (fuel + 1) (41 :: rest) [] (top :: more)]
      rw [List.nil_append, parseLoop_close_inner]
  theorem parseLoop_packList (xs : List Sexp) (fuel : Nat) (rest : Bytes) (top : List Sexp) (more : List (List Sexp)) :
      parseLoop (fuel + stepsL xs) (packList xs ++ rest) (top :: more)
        = parseLoop fuel rest ((top ++ xs) :: more) := by
    cases xs with
    | nil => simp [stepsL, packList]
    | cons x xs =>
      have h1 : packList (x :: xs) ++ rest = packOne x ++ (packList xs ++ rest) := by simp [packList]
      have h2 : fuel + stepsL (x :: xs) = (fuel + stepsL xs) + steps x := by simp [stepsL]; omega
      rw [h1, h2, parseLoop_packOne x, parseLoop_packList xs]
      simp
end

mutual
  theorem steps_le (x : Sexp) : steps x ≤ (packOne x).length := by
    cases x with
    | atom b =>
      have := decDigits_ne_nil b.length
      cases h : decDigits b.length with
      | nil => exact absurd h this
      | cons c ds => simp [steps, packOne, h]
    | list xs => have := stepsL_le xs; simp [steps, packOne]; omega
  theorem stepsL_le (xs : List Sexp) : stepsL xs ≤ (packList xs).length := by
    cases xs with
    | nil => simp [stepsL]
    | cons x xs => have := steps_le x; have := stepsL_le xs; simp [stepsL, packList]; omega
end


theorem strip_parens (mid : Bytes) : strip (40 :: (mid ++ [41])) = 40 :: (mid ++ [41]) := by
  have h1 : (40 :: (mid ++ [41])).dropWhile isWs = 40 :: (mid ++ [41]) := by
    simp [List.dropWhile, isWs]
  have h2 : (40 :: (mid ++ [41])).reverse = 41 :: (mid.reverse ++ [40]) := by simp
  have h3 : (41 :: (mid.reverse ++ [40])).dropWhile isWs = 41 :: (mid.reverse ++ [40]) := by
    simp [List.dropWhile, isWs]
  unfold strip
  rw [h1, h2, h3]
  simp

/-- **sexpy round trip**: `parse(pack([xs])) == xs` for every (arbitrarily nested) S-expression list. -/
theorem parse_pack (xs : List Sexp) : parse (packList [.list xs]) = .ok xs := by
  have hp : packList [.list xs] = 40 :: (packList xs ++ [41]) := by simp [packList, packOne]
  have hle := stepsL_le xs
  unfold parse
  simp only [hp, strip_parens]
  have hf : (40 :: (packList xs ++ [41])).length + 1
      = ((((packList xs).length - stepsL xs) + 1) + 1 + stepsL xs) + 1 := by
    simp; omega
  rw [hf, parseLoop_open, parseLoop_packList xs _ [41] [] [], List.nil_append, parseLoop_close_outer]

end TwistedProps.C37
