import TwistedModel.Ssh.PubText
import TwistedProps.C48.Lemmas
import TwistedProps.C37.Wire
/-!
Lemmas for the OpenSSH public text line (C37): `bytes.split()` on a line whose first two tokens are known,
`bytes.strip()` never reaches into them, `encodebytes(b).replace(b"\n", b"")` is plain base64 (57 = 3·19: chunking
never splits a triple), the base64 alphabet contains no whitespace.  The base64 round trip through CPython's lenient
decoder is `TwistedProps.C48.b64decode_b64encode` (same `binascii` model as C48).
-/
namespace TwistedProps.C37
open Twisted.Py Twisted.Ssh.Wire Twisted.Ssh.KeyBlob Twisted.Ssh.PubText
open Twisted.Cred.Digest (b64encode b64decode b64char)

theorem splitGo_token (tok : Bytes) (w : UInt8) (rest cur : Bytes) (ht : ∀ x ∈ tok, isWs x = false)
    (hw : isWs w = true) (hne : cur ++ tok ≠ []) :
    splitGo (tok ++ w :: rest) cur = (cur ++ tok) :: splitGo rest [] := by
  induction tok generalizing cur with
  | nil =>
    have : cur ≠ [] := by simpa using hne
    have h2 : cur.isEmpty = false := by cases cur <;> simp_all
    simp [splitGo, hw, h2]
  | cons c t ih =>
    have hc : isWs c = false := ht c (by simp)
    simp only [List.cons_append, splitGo, hc, Bool.false_eq_true, if_false]
    rw [ih (cur ++ [c]) (fun x hx => ht x (by simp [hx])) (by simp)]
    simp

theorem splitGo_last (tok cur : Bytes) (ht : ∀ x ∈ tok, isWs x = false) (hne : cur ++ tok ≠ []) :
    splitGo tok cur = [cur ++ tok] := by
  induction tok generalizing cur with
  | nil =>
    have : cur ≠ [] := by simpa using hne
    have h2 : cur.isEmpty = false := by cases cur <;> simp_all
    simp [splitGo, h2]
  | cons c t ih =>
    have hc : isWs c = false := ht c (by simp)
    simp only [splitGo, hc, Bool.false_eq_true, if_false]
    rw [ih (cur ++ [c]) (fun x hx => ht x (by simp [hx])) (by simp)]
    simp

theorem stripR_append (P Q : Bytes) (x : UInt8) (hx : isWs x = false) :
    stripR (P ++ x :: Q) = P ++ x :: stripR Q := by
  unfold stripR
  simp only [List.reverse_append, List.reverse_cons, List.append_assoc, List.singleton_append]
  rw [List.dropWhile_append]
  split
  · rename_i h
    have h' : List.dropWhile isWs (List.reverse Q) = [] := List.isEmpty_iff.mp h
    simp [hx, h']
  · rename_i h
    simp

theorem stripR_prefix (s : Bytes) : stripR s <+: s := by
  unfold stripR
  have h := List.dropWhile_suffix (l := s.reverse) isWs
  have := List.reverse_prefix.mpr h
  simpa using this

theorem stripR_ws_cons (C : Bytes) : stripR (32 :: C) = [] ∨ ∃ Q, stripR (32 :: C) = 32 :: Q := by
  have h := stripR_prefix (32 :: C)
  cases hs : stripR (32 :: C) with
  | nil => exact Or.inl rfl
  | cons a Q =>
    rw [hs] at h
    have := List.cons_prefix_cons.mp h
    exact Or.inr ⟨Q, by rw [this.1]⟩

/-! base64 -/
theorem b64char_not_ws : ∀ i : Fin 64, isWs (b64char i.val) = false := by decide

theorem b64encode_not_ws (bs : Bytes) (x : UInt8) (h : x ∈ b64encode bs) : isWs x = false ∧ x ≠ 10 := by
  fun_induction b64encode bs with
  | case1 => simp at h
  | case2 a =>
    have ha := a.toNat_lt
    simp only [List.mem_cons, List.not_mem_nil, or_false] at h
    rcases h with rfl | rfl | rfl | rfl
    · exact ⟨b64char_not_ws ⟨_, by omega⟩, (TwistedProps.C48.b64char_mem_fin ⟨_, by omega⟩).2⟩
    · exact ⟨b64char_not_ws ⟨_, by omega⟩, (TwistedProps.C48.b64char_mem_fin ⟨_, by omega⟩).2⟩
    · decide
    · decide
  | case3 a b =>
    have ha := a.toNat_lt
    have hb := b.toNat_lt
    simp only [List.mem_cons, List.not_mem_nil, or_false] at h
    rcases h with rfl | rfl | rfl | rfl
    · exact ⟨b64char_not_ws ⟨_, by omega⟩, (TwistedProps.C48.b64char_mem_fin ⟨_, by omega⟩).2⟩
    · exact ⟨b64char_not_ws ⟨_, by omega⟩, (TwistedProps.C48.b64char_mem_fin ⟨_, by omega⟩).2⟩
    · exact ⟨b64char_not_ws ⟨_, by omega⟩, (TwistedProps.C48.b64char_mem_fin ⟨_, by omega⟩).2⟩
    · decide
  | case4 a b c rest ih =>
    have ha := a.toNat_lt
    have hb := b.toNat_lt
    have hc := c.toNat_lt
    simp only [List.mem_cons] at h
    rcases h with rfl | rfl | rfl | rfl | h
    · exact ⟨b64char_not_ws ⟨_, by omega⟩, (TwistedProps.C48.b64char_mem_fin ⟨_, by omega⟩).2⟩
    · exact ⟨b64char_not_ws ⟨_, by omega⟩, (TwistedProps.C48.b64char_mem_fin ⟨_, by omega⟩).2⟩
    · exact ⟨b64char_not_ws ⟨_, by omega⟩, (TwistedProps.C48.b64char_mem_fin ⟨_, by omega⟩).2⟩
    · exact ⟨b64char_not_ws ⟨_, by omega⟩, (TwistedProps.C48.b64char_mem_fin ⟨_, by omega⟩).2⟩
    · exact ih h

theorem b64encode_ne_nil (bs : Bytes) (h : bs ≠ []) : b64encode bs ≠ [] := by
  fun_induction b64encode bs <;> simp_all

/-- three input bytes make four characters, independently of what follows -/
theorem b64encode_append (xs ys : Bytes) (n : Nat) (h : xs.length = 3 * n) :
    b64encode (xs ++ ys) = b64encode xs ++ b64encode ys := by
  induction n generalizing xs with
  | zero =>
    have : xs = [] := List.length_eq_zero_iff.mp (by omega)
    subst this; simp [b64encode]
  | succ n ih =>
    match xs, h with
    | a :: b :: c :: rest, h =>
      have hr : rest.length = 3 * n := by simp at h; omega
      simp only [List.cons_append, b64encode, ih rest hr]
    | [], h => simp at h
    | [_], h => simp at h; omega
    | [_, _], h => simp at h; omega

theorem filter_b64encode (bs : Bytes) : (b64encode bs).filter (· != 10) = b64encode bs := by
  apply List.filter_eq_self.mpr
  intro x hx
  simpa using (b64encode_not_ws bs x hx).2

theorem b64line_eq (s : Bytes) : b64line s = b64encode s := by
  unfold b64line
  fun_induction encodebytes s with
  | case1 => simp [b64encode]
  | case2 s hne ih =>
    simp only [List.filter_append, List.filter_cons, filter_b64encode, bne_self_eq_false, Bool.false_eq_true, if_false, ih]
    by_cases hl : s.length ≤ 57
    · have h1 : s.take 57 = s := List.take_of_length_le hl
      have h2 : s.drop 57 = [] := List.drop_of_length_le hl
      simp [h1, h2, b64encode]
    · have hlen : (s.take 57).length = 3 * 19 := by simp; omega
      conv => rhs; rw [← List.take_append_drop 57 s]
      rw [b64encode_append _ _ 19 hlen]

theorem dropWhile_head (T R : Bytes) (hT : ∀ x ∈ T, isWs x = false) (hTne : T ≠ []) :
    (T ++ R).dropWhile isWs = T ++ R := by
  cases T with
  | nil => exact absurd rfl hTne
  | cons a t => simp [hT a (by simp)]

/-- the shape of a written line: the type, one space, the base64 body, then nothing or a space and more -/
theorem line_shape (T B C : Bytes) (hT : ∀ x ∈ T, isWs x = false) (hTne : T ≠ [])
    (hB : ∀ x ∈ B, isWs x = false) (hBne : B ≠ []) :
    ∃ R tail, strip (T ++ [32] ++ B ++ [32] ++ C) = T ++ R ∧ splitWs (T ++ R) = T :: B :: tail := by
  obtain ⟨Bi, x, rfl⟩ : ∃ Bi x, B = Bi ++ [x] := ⟨B.dropLast, B.getLast hBne, (List.dropLast_concat_getLast hBne).symm⟩
  have hx : isWs x = false := hB x (by simp)
  have e1 : T ++ [32] ++ (Bi ++ [x]) ++ [32] ++ C = T ++ (32 :: Bi ++ x :: 32 :: C) := by simp
  have e2 : T ++ (32 :: Bi ++ x :: 32 :: C) = (T ++ 32 :: Bi) ++ x :: (32 :: C) := by simp
  have hs : strip (T ++ [32] ++ (Bi ++ [x]) ++ [32] ++ C) = (T ++ 32 :: Bi) ++ x :: stripR (32 :: C) := by
    unfold strip
    rw [e1, dropWhile_head T _ hT hTne, e2, stripR_append _ _ x hx]
  rcases stripR_ws_cons C with h0 | ⟨Q, hQ⟩
  · refine ⟨32 :: (Bi ++ [x]), [], ?_, ?_⟩
    · rw [hs, h0]; simp
    · unfold splitWs
      rw [splitGo_token T 32 _ [] hT (by decide) (by simpa using hTne)]
      rw [splitGo_last (Bi ++ [x]) [] hB (by simp)]
      simp
  · refine ⟨32 :: ((Bi ++ [x]) ++ 32 :: Q), splitGo Q [], ?_, ?_⟩
    · rw [hs, hQ]; simp
    · unfold splitWs
      rw [splitGo_token T 32 _ [] hT (by decide) (by simpa using hTne)]
      rw [splitGo_token (Bi ++ [x]) 32 Q [] hB (by decide) (by simp)]
      simp

theorem sshType_facts (k : PubKey) (hk : ∀ c p, k ≠ .ec c p) :
    (∀ x ∈ sshType k, isWs x = false) ∧ sshType k ≠ [] ∧
      ∀ R, startsWith (sshType k ++ R) ecdsaSha2 = false ∧ startsWith (sshType k ++ R) pSsh = true := by
  cases k with
  | ec c p => exact absurd rfl (hk c p)
  | rsa e n => refine ⟨by simp only [sshType]; decide, by simp only [sshType]; decide, fun R => ⟨?_, ?_⟩⟩ <;> simp [startsWith, sshType, sshRsa, ecdsaSha2, pSsh, List.isPrefixOf]
  | dsa p q g y => refine ⟨by simp only [sshType]; decide, by simp only [sshType]; decide, fun R => ⟨?_, ?_⟩⟩ <;> simp [startsWith, sshType, sshDss, ecdsaSha2, pSsh, List.isPrefixOf]
  | ed25519 a => refine ⟨by simp only [sshType]; decide, by simp only [sshType]; decide, fun R => ⟨?_, ?_⟩⟩ <;> simp [startsWith, sshType, sshEd, ecdsaSha2, pSsh, List.isPrefixOf]

/-! ### `_guessStringType`: the `getMP` count over length-prefixed fields -/

/-- a length-prefixed field as `getMP` sees it: non-empty, and read off whatever follows -/
def IsField (c : Bytes) : Prop := c ≠ [] ∧ ∀ r, ∃ v, getMP1 (c ++ r) = .ok (v, r)

theorem countMP_fields (cs : List Bytes) (hc : ∀ c ∈ cs, IsField c) (fuel n : Nat)
    (hf : cs.flatten.length < fuel) : countMP fuel cs.flatten n = .ok (n + cs.length) := by
  induction cs generalizing fuel n with
  | nil =>
    cases fuel with
    | zero => simp at hf
    | succ f => simp [countMP]
  | cons c cs ih =>
    cases fuel with
    | zero => simp at hf
    | succ f =>
      obtain ⟨hne, hr⟩ := hc c (by simp)
      obtain ⟨v, hv⟩ := hr cs.flatten
      have hemp : (c ++ cs.flatten).isEmpty = false := by
        cases c with
        | nil => exact absurd rfl hne
        | cons a t => rfl
      have hlen : 0 < c.length := List.length_pos_iff.mpr hne
      simp only [List.flatten_cons, countMP, hemp, Bool.false_eq_true, if_false, hv]
      rw [ih (fun x hx => hc x (by simp [hx])) f (n + 1) (by simp only [List.flatten_cons, List.length_append] at hf; omega)]
      simp; omega

theorem isField_MP (x : Nat) (enc : Bytes) (h : MP (x : Int) = .ok enc) : IsField enc := by
  refine ⟨?_, fun r => ⟨x, getMP1_MP x r enc h⟩⟩
  intro h0; subst h0
  have := getMP1_MP x [] [] h
  simp [getMP1] at this

theorem isField_NS (s enc : Bytes) (h : NS s = .ok enc) : IsField enc := by
  unfold NS at h
  split at h
  · cases h
    rename_i hl
    refine ⟨by simp [u32be], fun r => ⟨beToNat s, ?_⟩⟩
    have hg := getNS1_NS s r (u32be s.length ++ s) (by simp [NS, hl])
    unfold getNS1 at hg
    unfold getMP1
    split at hg
    · cases hg
    · rename_i hlen
      simp only [Except.ok.injEq, Prod.mk.injEq] at hg
      simp only [hlen, if_false, hg.1, hg.2]
  · cases h

/-- the count that tells a public blob (≤ 4 fields after the type) from an agent v3 key (> 4) -/
theorem guess_of_fields (a t : Bytes) (cs : List Bytes) (ha : NS t = .ok a) (hc : ∀ c ∈ cs, IsField c)
    (h0 : a.head? = some 0)
    (hbin : pBin.any (startsWith (a ++ cs.flatten)) = true) :
    guessStringType (a ++ cs.flatten) = .ok (if cs.length > 4 then .agentv3 else .blob) := by
  obtain ⟨x, hx⟩ : ∃ x, a = 0 :: x := by
    cases a with
    | nil => simp at h0
    | cons y x => simp at h0; exact ⟨x, by rw [h0]⟩
  have hns := getNS1_NS t cs.flatten a ha
  have hcount := countMP_fields cs hc (cs.flatten.length + 1) 0 (by omega)
  unfold guessStringType
  rw [hbin, hns]
  simp only [hcount]
  subst hx
  simp [startsWith, pSsh, pEcdsa, pSkEcCert, pSkEdCert, pSkEc, pSkEd, pBegin, List.isPrefixOf]
  split <;> simp_all

theorem NS_curve (c : Bytes) (hc : c ∈ curves) :
    (∃ x, c = [101, 99, 100, 115, 97, 45] ++ x) ∧ NS c = .ok ([0, 0, 0, 19] ++ c) := by
  simp only [curves, List.mem_cons, List.not_mem_nil, or_false] at hc
  rcases hc with rfl | rfl | rfl
  · exact ⟨⟨_, rfl⟩, rfl⟩
  · exact ⟨⟨_, rfl⟩, rfl⟩
  · exact ⟨⟨_, rfl⟩, rfl⟩

end TwistedProps.C37
