import TwistedModel.Ssh.FromString
/-!
Lemmas about the `Key.fromString(data, type, passphrase)` dispatch (C37): the format name is case-insensitive, an empty
passphrase is no passphrase.
-/
namespace TwistedProps.C37
open Twisted.Py Twisted.Ssh.Wire Twisted.Ssh.KeyBlob Twisted.Ssh.PubText Twisted.Ssh.FromString

theorem upperB_idem (c : UInt8) : upperB (upperB c) = upperB c := by
  have h : ∀ n : Fin 256, upperB (upperB (UInt8.ofNat n.val)) = upperB (UInt8.ofNat n.val) := by decide +kernel
  have := h ⟨c.toNat, c.toNat_lt⟩
  simpa using this

theorem upper_idem (s : Bytes) : upper (upper s) = upper s := by
  simp [upper, List.map_map, Function.comp_def, upperB_idem]

theorem readerNamed_upper (t : Bytes) : readerNamed (upper t) = readerNamed t := by
  simp [readerNamed, upper_idem]

theorem resolve_upper (data t : Bytes) : resolve data (some (upper t)) = resolve data (some t) := by
  simp [resolve, readerNamed_upper]

theorem truthy_empty : truthy (some []) = truthy none := rfl

theorem truthy_cons (c : UInt8) (cs : Bytes) : truthy (some (c :: cs)) = true := rfl

end TwistedProps.C37
