import TwistedModel.Ssh.PrivKey
import TwistedProps.C37.Wire
/-!
C37 lemmas — private blobs (`Key.privateBlob` / `_fromString_PRIVATE_BLOB`) and agent v3 round trips.
-/
namespace TwistedProps.C37
open Twisted.Py Twisted.Ssh.Wire Twisted.Ssh.KeyBlob Twisted.Ssh.PrivKey

/-- inversion of `do let a ← x; let b ← y; pure (a ++ b)` -/
theorem cat_ok {x y : Except Err Bytes} {enc : Bytes}
    (h : (do let a ← x; let b ← y; pure (a ++ b) : Except Err Bytes) = .ok enc) :
    ∃ a b, x = .ok a ∧ y = .ok b ∧ enc = a ++ b := by
  cases x with
  | error e => simp [bind, Except.bind] at h
  | ok a =>
    cases y with
    | error e => simp [bind, Except.bind] at h
    | ok b =>
      simp only [bind, Except.bind, pure, Except.pure, Except.ok.injEq] at h
      exact ⟨a, b, rfl, rfl, h.symm⟩

theorem mpList_eq_MPs (xs : List Nat) : mpList xs = MPs xs := by
  induction xs with
  | nil => rfl
  | cons x xs ih => simp only [mpList, MPs, ih]

/-- `getMP` reads back what `mpList` wrote, whatever follows -/
theorem getMP_mpList (xs : List Nat) (r enc : Bytes) (h : mpList xs = .ok enc) :
    getMP xs.length (enc ++ r) = .ok (xs, r) :=
  getMP_list xs r enc (mpList_eq_MPs xs ▸ h)

/-- the common shape `NS(type) + MP(v1) + … + MP(vk)`: first string is the type, then the numbers -/
theorem typed_mps (t : Bytes) (xs : List Nat) (enc : Bytes)
    (h : (do let a ← NS t; let b ← mpList xs; pure (a ++ b) : Except Err Bytes) = .ok enc) :
    ∀ r, ∃ b, getNS1 (enc ++ r) = .ok (t, b) ∧ getMP xs.length b = .ok (xs, r) := by
  obtain ⟨a, b, ha, hb, rfl⟩ := cat_ok h
  intro r
  refine ⟨b ++ r, ?_, ?_⟩
  · rw [List.append_assoc]; exact getNS1_NS t (b ++ r) a ha
  · exact getMP_mpList xs r b hb

theorem parsePrivateBlob_rsa (n e d p q u : Nat) (enc r : Bytes)
    (h : privateBlob (.rsa n e d p q) u = .ok enc) : parsePrivateBlob (enc ++ r) = .ok (.rsa n e d p q) := by
  obtain ⟨b, h1, h2⟩ := typed_mps _ _ _ h r
  simp only [List.length_cons, List.length_nil] at h2
  simp [parsePrivateBlob, h1, h2, liftW, bind, Except.bind, pure, Except.pure]

theorem parsePrivateBlob_dsa (p q g y x u : Nat) (enc r : Bytes)
    (h : privateBlob (.dsa p q g y x) u = .ok enc) : parsePrivateBlob (enc ++ r) = .ok (.dsa p q g y x) := by
  obtain ⟨b, h1, h2⟩ := typed_mps _ _ _ h r
  simp only [List.length_cons, List.length_nil] at h2
  have hne : sshDss ≠ sshRsa := by decide
  simp [parsePrivateBlob, h1, h2, liftW, bind, Except.bind, pure, Except.pure, hne]


/-- inversion for four parts -/
theorem cat4_ok {w x y z : Except Err Bytes} {enc : Bytes}
    (h : (do let a ← w; let b ← x; let c ← y; let d ← z; pure (a ++ b ++ c ++ d) : Except Err Bytes) = .ok enc) :
    ∃ a b c d, w = .ok a ∧ x = .ok b ∧ y = .ok c ∧ z = .ok d ∧ enc = a ++ b ++ c ++ d := by
  cases w with
  | error e => simp [bind, Except.bind] at h
  | ok a =>
    cases x with
    | error e => simp [bind, Except.bind] at h
    | ok b =>
      cases y with
      | error e => simp [bind, Except.bind] at h
      | ok c =>
        cases z with
        | error e => simp [bind, Except.bind] at h
        | ok d =>
          simp only [bind, Except.bind, pure, Except.pure, Except.ok.injEq] at h
          exact ⟨a, b, c, d, rfl, rfl, rfl, rfl, h.symm⟩

theorem cat3_ok {w x y : Except Err Bytes} {enc : Bytes}
    (h : (do let a ← w; let b ← x; let c ← y; pure (a ++ b ++ c) : Except Err Bytes) = .ok enc) :
    ∃ a b c, w = .ok a ∧ x = .ok b ∧ y = .ok c ∧ enc = a ++ b ++ c := by
  cases w with
  | error e => simp [bind, Except.bind] at h
  | ok a =>
    cases x with
    | error e => simp [bind, Except.bind] at h
    | ok b =>
      cases y with
      | error e => simp [bind, Except.bind] at h
      | ok c =>
        simp only [bind, Except.bind, pure, Except.pure, Except.ok.injEq] at h
        exact ⟨a, b, c, rfl, rfl, rfl, h.symm⟩

theorem curve_ne_rsa (curve : Bytes) (hc : curve ∈ curves) : curve ≠ sshRsa := by
  intro e; subst e; revert hc; decide
theorem curve_ne_dss (curve : Bytes) (hc : curve ∈ curves) : curve ≠ sshDss := by
  intro e; subst e; revert hc; decide

theorem parsePrivateBlob_ec (curve point : Bytes) (priv u : Nat) (hc : curve ∈ curves) (enc r : Bytes)
    (h : privateBlob (.ec curve point priv) u = .ok enc) : parsePrivateBlob (enc ++ r) = .ok (.ec curve priv) := by
  obtain ⟨a, b, c, d, ha, hb, hcc, hd, rfl⟩ := cat4_ok h
  have h1 := getNS1_NS curve (b ++ c ++ d ++ r) a ha
  have h2 := getNS_list [curve.drop (curve.length - 8), point] (d ++ r) (b ++ c)
    (by simp [NSs, hb, hcc, bind, Except.bind, pure, Except.pure])
  have h3 := getMP1_MP priv r d hd
  simp only [List.length_cons, List.length_nil] at h2 h3
  unfold parsePrivateBlob
  simp only [List.append_assoc] at h1 h2 ⊢
  rw [h1]
  simp [liftW, bind, Except.bind, h2, h3, pure, Except.pure, curve_ne_rsa _ hc, curve_ne_dss _ hc, hc]

theorem parsePrivateBlob_ed (a k : Bytes) (u : Nat) (hk : k.length = 32) (enc r : Bytes)
    (h : privateBlob (.ed25519 a k) u = .ok enc) : parsePrivateBlob (enc ++ r) = .ok (.ed25519 k) := by
  obtain ⟨x, y, z, hx, hy, hz, rfl⟩ := cat3_ok h
  have h1 := getNS1_NS sshEd (y ++ z ++ r) x hx
  have h2 := getNS_list [a, k ++ a] r (y ++ z)
    (by simp [NSs, hy, hz, bind, Except.bind, pure, Except.pure])
  simp only [List.length_cons, List.length_nil] at h2
  unfold parsePrivateBlob
  simp only [List.append_assoc] at h1 h2 ⊢
  rw [h1]
  have hne1 : sshEd ≠ sshRsa := by decide
  have hne2 : sshEd ≠ sshDss := by decide
  have hne3 : sshEd ∉ curves := by decide
  have ht : (k ++ a).take 32 = k := by rw [← hk]; simp
  simp [liftW, bind, Except.bind, h2, pure, Except.pure, hne1, hne2, hne3, ht]

/-- parsed fields of a key (what survives the trip) -/
def fieldsOf : PrivKey → PrivFields
  | .rsa n e d p q => .rsa n e d p q
  | .dsa p q g y x => .dsa p q g y x
  | .ec curve _ priv => .ec curve priv
  | .ed25519 _ k => .ed25519 k

theorem build_fieldsOf (G : KeyGen) (k : PrivKey) (hk : WellFormed G k) : build G (fieldsOf k) = k := by
  cases k with
  | rsa => rfl
  | dsa => rfl
  | ec c pt pv => simp only [WellFormed] at hk; simp [fieldsOf, build, hk.2]
  | ed25519 a s => simp only [WellFormed] at hk; simp [fieldsOf, build, hk.2]

/-- every private blob parses back to the fields it was written from, whatever follows it
    (`r`: in the OpenSSH v1 container the comment and the padding follow) -/
theorem parsePrivateBlob_privateBlob (G : KeyGen) (k : PrivKey) (u : Nat) (hk : WellFormed G k) (enc r : Bytes)
    (h : privateBlob k u = .ok enc) : parsePrivateBlob (enc ++ r) = .ok (fieldsOf k) := by
  cases k with
  | rsa n e d p q => exact parsePrivateBlob_rsa n e d p q u enc r h
  | dsa p q g y x => exact parsePrivateBlob_dsa p q g y x u enc r h
  | ec c pt pv => exact parsePrivateBlob_ec c pt pv u hk.1 enc r h
  | ed25519 a s => exact parsePrivateBlob_ed a s u hk.1 enc r h

/-! agent v3 -/
theorem parseAgentV3_toAgentV3 (k : PrivKey) (u : Nat) (enc r : Bytes)
    (h : toAgentV3 k u = .ok enc) : parseAgentV3 (enc ++ r) = .ok (fieldsOf k) := by
  cases k with
  | rsa n e d p q =>
    simp only [toAgentV3] at h
    split at h
    · rename_i r hr
      cases h
      obtain ⟨b, h1, h2⟩ := typed_mps _ _ _ hr r
      simp only [List.length_cons, List.length_nil] at h2
      have hne : sshRsa ≠ sshDss := by decide
      simp [parseAgentV3, fieldsOf, h1, h2, liftW, bind, Except.bind, pure, Except.pure, hne]
    · cases h
  | dsa p q g y x =>
    simp only [toAgentV3] at h
    split at h
    · rename_i r hr
      cases h
      obtain ⟨b, h1, h2⟩ := typed_mps _ _ _ hr r
      simp only [List.length_cons, List.length_nil] at h2
      simp [parseAgentV3, fieldsOf, h1, h2, liftW, bind, Except.bind, pure, Except.pure]
    · cases h
  | ec c pt pv => simp [toAgentV3] at h
  | ed25519 a s => simp [toAgentV3] at h

end TwistedProps.C37
