import TwistedModel.Ssh.KeyBlob
/-!
C37 lemmas — big-endian codec, `getNS1 ∘ NS`, `getMP1 ∘ MP` and their list forms (the workhorses every
layout proof rewrites with).  Moved verbatim from `TwistedProps/C37.lean`.
-/
namespace TwistedProps.C37
open Twisted.Py Twisted.Ssh.Wire Twisted.Ssh.KeyBlob

/-! ### big-endian integers -/

theorem beToNat_snoc (bs : Bytes) (b : UInt8) : beToNat (bs ++ [b]) = beToNat bs * 256 + b.toNat := by
  simp [beToNat, List.foldl_append]

theorem beToNat_zero_cons (bs : Bytes) : beToNat (0 :: bs) = beToNat bs := by
  simp [beToNat]

/-- `int.from_bytes(int_to_bytes(n), "big") = n` -/
theorem beToNat_natToBE (n : Nat) : beToNat (natToBE n) = n := by
  induction n using Nat.strongRecOn with
  | _ n ih =>
    rw [natToBE]
    by_cases h : n = 0
    · simp [h, beToNat]
    · simp only [h, dite_false]
      rw [beToNat_snoc, ih (n / 256) (by omega), UInt8.toNat_ofNat']
      omega

theorem u32be_length (n : Nat) : (u32be n).length = 4 := rfl

/-- `struct.unpack(">L", struct.pack(">L", n)) = n` for `n < 2^32` -/
theorem beToNat_u32be (n : Nat) (h : n < 4294967296) : beToNat (u32be n) = n := by
  simp only [beToNat, u32be, List.foldl_cons, List.foldl_nil, UInt8.toNat_ofNat']
  omega

/-! ### NS / getNS -/

theorem getNS1_NS (s r enc : Bytes) (h : NS s = .ok enc) : getNS1 (enc ++ r) = .ok (s, r) := by
  unfold NS at h
  split at h
  · rename_i hlen
    cases h
    unfold getNS1
    have h4 : ¬ (u32be s.length ++ s ++ r).length < 4 := by simp [u32be_length]
    simp only [h4, if_false]
    have ht : (u32be s.length ++ s ++ r).take 4 = u32be s.length := by
      rw [List.append_assoc, List.take_append_of_le_length (by simp [u32be_length])]
      simp [u32be]
    have hd : (u32be s.length ++ s ++ r).drop 4 = s ++ r := by
      rw [List.append_assoc, List.drop_append_of_le_length (by simp [u32be_length])]
      simp [u32be]
    rw [ht, hd, beToNat_u32be _ hlen]
    simp
  · cases h

/-- encoding of a list of strings, as `b"".join(NS(x) for x in xs)` -/
def NSs : List Bytes → Except Err Bytes
  | [] => .ok []
  | x :: xs => do
      let a ← NS x
      let b ← NSs xs
      pure (a ++ b)

/-- **getNS ∘ NS**: any number of strings followed by any rest decode to exactly those
    strings and that rest. -/
theorem getNS_list (xs : List Bytes) (r enc : Bytes) (h : NSs xs = .ok enc) :
    getNS xs.length (enc ++ r) = .ok (xs, r) := by
  induction xs generalizing enc with
  | nil => cases h; simp [getNS]
  | cons x xs ih =>
    simp only [NSs] at h
    cases hx : NS x with
    | error e => simp [hx, bind, Except.bind] at h
    | ok a =>
      cases hxs : NSs xs with
      | error e => simp [hx, hxs, bind, Except.bind] at h
      | ok b =>
        simp only [hx, hxs, bind, Except.bind, pure, Except.pure] at h
        cases h
        simp only [getNS, List.length_cons, List.append_assoc]
        rw [getNS1_NS x (b ++ r) a hx]
        simp only [bind, Except.bind]
        rw [ih b hxs]
        rfl

/-! ### MP / getMP -/

theorem getMP1_MP (n : Nat) (r enc : Bytes) (h : MP (n : Int) = .ok enc) :
    getMP1 (enc ++ r) = .ok (n, r) := by
  unfold MP at h
  by_cases h0 : (n : Int) = 0
  · simp only [h0, if_true] at h
    cases h
    have : n = 0 := by omega
    subst this
    simp [getMP1, beToNat]
  · have hneg : ¬ (n : Int) < 0 := by omega
    simp only [h0, hneg, if_false, Int.toNat_natCast] at h
    generalize hbn : (if ((natToBE n).headD 0).toNat &&& 128 ≠ 0 then 0 :: natToBE n else natToBE n) = bn at h
    have hval : beToNat bn = n := by
      rw [← hbn]; split
      · rw [beToNat_zero_cons, beToNat_natToBE]
      · exact beToNat_natToBE n
    split at h
    · rename_i hlen
      cases h
      unfold getMP1
      have h4 : ¬ (u32be bn.length ++ bn ++ r).length < 4 := by simp [u32be_length]
      simp only [h4, if_false]
      have ht : (u32be bn.length ++ bn ++ r).take 4 = u32be bn.length := by
        rw [List.append_assoc, List.take_append_of_le_length (by simp [u32be_length])]
        simp [u32be]
      have hd : (u32be bn.length ++ bn ++ r).drop 4 = bn ++ r := by
        rw [List.append_assoc, List.drop_append_of_le_length (by simp [u32be_length])]
        simp [u32be]
      rw [ht, hd, beToNat_u32be _ hlen]
      simp [hval]
    · cases h

def MPs : List Nat → Except Err Bytes
  | [] => .ok []
  | x :: xs => do
      let a ← MP (x : Int)
      let b ← MPs xs
      pure (a ++ b)

/-- **getMP ∘ MP** for any number of non-negative integers and any trailing bytes. -/
theorem getMP_list (xs : List Nat) (r enc : Bytes) (h : MPs xs = .ok enc) :
    getMP xs.length (enc ++ r) = .ok (xs, r) := by
  induction xs generalizing enc with
  | nil => cases h; simp [getMP]
  | cons x xs ih =>
    simp only [MPs] at h
    cases hx : MP (x : Int) with
    | error e => simp [hx, bind, Except.bind] at h
    | ok a =>
      cases hxs : MPs xs with
      | error e => simp [hx, hxs, bind, Except.bind] at h
      | ok b =>
        simp only [hx, hxs, bind, Except.bind, pure, Except.pure] at h
        cases h
        simp only [getMP, List.length_cons, List.append_assoc]
        rw [getMP1_MP x (b ++ r) a hx]
        simp only [bind, Except.bind]
        rw [ih b hxs]
        rfl


end TwistedProps.C37
