import TwistedModel.Ssh.Wire
import Generated.SshWire
/-!
C37 — `conch/ssh/common.py` `NS`, `getNS`, `MP`, `getMP`, regenerated from the Python source by
`harness/py2lean.py` on every run (`lean/Generated/SshWire.lean`) and proved equal to the hand model's
functions of `TwistedModel/Ssh/Wire.lean`.

What the translator produces and what is proved about it here:
* a function that can raise is `Except PyErr …`; the model's `Err` embeds by `errToPy`
  (`struct.error`, `AssertionError`);
* `struct.pack("!L", n)` is `packU32` (`u32be`, `struct.error` outside `0 ≤ n < 2^32`), `struct.unpack("!L", b)`
  is `unpackU32` (`beToNat`, `struct.error` unless `len(b) = 4`) — so the model's test "fewer than 4 bytes
  remain" is *derived* from the slice `s[c:c+4]` having length 4 or not (`gen_unpackU32_slice`);
* the generated `getNS`/`getMP` keep the code's absolute cursor `c` and slice `s[c+4 : 4+l+c]` out of the whole
  buffer (`(s.take _).drop _`), folded over `range(count)`; the model recurses on the unread rest.
  `gen_getNS_fold` / `gen_getMP_fold` are the loop invariants relating the two (`rest = s.drop c`);
* `int_to_bytes(number)` is `intToBytes` (one zero byte for 0, OverflowError below 0 — both unreachable after the
  `assert`), `ord(bn[0:1])` is `pyOrd` (TypeError on an empty slice — unreachable: `natToBE n ≠ []` for `n > 0`).
-/
namespace TwistedProps.C37
open Twisted.Py Twisted.Ssh.Wire
open Generated.SshWire (PyErr)

/-- the model's exception classes as the generated file's -/
def errToPy : Err → PyErr
  | .struct => .structError
  | .assertion => .assertionError

theorem gen_packU32_len (n : Nat) :
    Generated.SshWire.packU32 (n : Int) = if n < 4294967296 then .ok (u32be n) else .error .structError := by
  unfold Generated.SshWire.packU32
  by_cases h : n < 4294967296
  · have h' : (0 : Int) ≤ (n : Int) ∧ (n : Int) < 4294967296 := by omega
    rw [if_pos h, if_pos h', Int.toNat_natCast]
  · have h' : ¬ ((0 : Int) ≤ (n : Int) ∧ (n : Int) < 4294967296) := by omega
    rw [if_neg h, if_neg h']

theorem gen_NS_eq (t : Bytes) : Generated.SshWire.NS t = (NS t).mapError errToPy := by
  unfold Generated.SshWire.NS NS
  rw [gen_packU32_len]
  by_cases h : t.length < 4294967296
  · rw [if_pos h, if_pos h]; rfl
  · rw [if_neg h, if_neg h]; rfl

theorem slice_len4 (s : Bytes) (c : Nat) : ((s.take (c + 4)).drop c).length = 4 ↔ ¬ (s.drop c).length < 4 := by
  rw [List.length_drop, List.length_take, List.length_drop]; omega

theorem slice_head (s : Bytes) (c : Nat) : (s.take (c + 4)).drop c = (s.drop c).take 4 := by
  rw [List.drop_take]; congr 1; omega

theorem gen_unpackU32_slice (s : Bytes) (c : Nat) :
    Generated.SshWire.unpackU32 ((s.take (c + 4)).drop c) =
      if (s.drop c).length < 4 then .error .structError else .ok (beToNat ((s.drop c).take 4)) := by
  unfold Generated.SshWire.unpackU32
  by_cases h : (s.drop c).length < 4
  · rw [if_pos h, if_neg (by rw [slice_len4]; exact fun h' => h' h)]
  · rw [if_neg h, if_pos ((slice_len4 s c).mpr h), slice_head]

theorem slice_body (s : Bytes) (c l : Nat) : (s.take (4 + l + c)).drop (c + 4) = ((s.drop c).drop 4).take l := by
  rw [List.drop_take, List.drop_drop] <;> congr 1 <;> omega

theorem slice_body' (s : Bytes) (c l : Nat) : (s.take (c + 4 + l)).drop (c + 4) = ((s.drop c).drop 4).take l := by
  rw [List.drop_take, List.drop_drop] <;> congr 1 <;> omega

theorem slice_rest (s : Bytes) (c l : Nat) : s.drop (c + (4 + l)) = ((s.drop c).drop 4).drop l := by
  rw [List.drop_drop, List.drop_drop] <;> congr 1 <;> omega

theorem gen_getNSStep_eq (s : Bytes) (ns : List Bytes) (c i : Nat) :
    Generated.SshWire.getNSStep s (ns, c) i =
      match getNS1 (s.drop c) with
      | .ok (x, _) => .ok (ns ++ [x], c + (4 + beToNat ((s.drop c).take 4)))
      | .error e => .error (errToPy e) := by
  simp only [Generated.SshWire.getNSStep, getNS1, gen_unpackU32_slice]
  by_cases h : (s.drop c).length < 4
  · rw [if_pos h, if_pos h]; rfl
  · rw [if_neg h, if_neg h]
    simp only [bind, Except.bind, pure, Except.pure, slice_body]

theorem gen_getNS_fold (s : Bytes) (l : List Nat) (ns : List Bytes) (c : Nat) :
    (List.foldlM (Generated.SshWire.getNSStep s) (ns, c) l >>= fun st => pure (st.1, s.drop st.2)) =
      ((getNS l.length (s.drop c)).mapError errToPy).map (fun p => (ns ++ p.1, p.2)) := by
  induction l generalizing ns c with
  | nil => simp [getNS, Except.mapError, Except.map, pure, Except.pure, bind, Except.bind]
  | cons i l ih =>
    simp only [List.foldlM_cons, List.length_cons, getNS, gen_getNSStep_eq]
    cases h1 : getNS1 (s.drop c) with
    | error e => simp [bind, Except.bind, Except.mapError, Except.map]
    | ok xr =>
      obtain ⟨x, r⟩ := xr
      have hr : r = s.drop (c + (4 + beToNat ((s.drop c).take 4))) := by
        unfold getNS1 at h1
        split at h1
        · cases h1
        · cases h1; rw [slice_rest]
      have := ih (ns ++ [x]) (c + (4 + beToNat ((s.drop c).take 4)))
      simp only [bind, Except.bind] at this ⊢
      rw [this, ← hr]
      cases getNS l.length r with
      | error e => simp [Except.mapError, Except.map]
      | ok p => simp [Except.mapError, Except.map, pure, Except.pure]

theorem gen_getNS_eq (s : Bytes) (count : Nat) :
    Generated.SshWire.getNS s count = (getNS count s).mapError errToPy := by
  have := gen_getNS_fold s (List.range count) [] 0
  simp only [List.length_range, List.drop_zero, List.nil_append] at this
  unfold Generated.SshWire.getNS
  simp only [bind, Except.bind, pure, Except.pure] at this ⊢
  rw [this]
  cases getNS count s with
  | error e => rfl
  | ok p => rfl

theorem natToBE_ne_nil (n : Nat) (h : n ≠ 0) : natToBE n ≠ [] := by
  rw [natToBE]; simp [h]

theorem gen_intToBytes_pos (n : Nat) (h : n ≠ 0) : Generated.SshWire.intToBytes (n : Int) = .ok (natToBE n) := by
  unfold Generated.SshWire.intToBytes
  rw [if_neg (by omega), if_neg (by omega), Int.toNat_natCast]

theorem gen_pyOrd_head (b : UInt8) (bs : Bytes) :
    Generated.SshWire.pyOrd (((b :: bs).take 1).drop 0) = .ok ((b :: bs).headD 0).toNat := rfl

theorem ok_bind {ε α β : Type} (a : α) (f : α → Except ε β) : (Except.ok a >>= f) = f a := rfl

theorem pack_tail (bn : Bytes) :
    ((if bn.length < 4294967296 then Except.ok (u32be bn.length) else Except.error PyErr.structError) >>=
        fun t => (pure (t ++ bn) : Except PyErr Bytes)) =
      Except.mapError errToPy
        (if bn.length < 4294967296 then Except.ok (u32be bn.length ++ bn) else Except.error Err.struct) := by
  by_cases hl : bn.length < 4294967296
  · rw [if_pos hl, if_pos hl]; rfl
  · rw [if_neg hl, if_neg hl]; rfl

theorem gen_MP_eq (number : Int) : Generated.SshWire.MP number = (MP number).mapError errToPy := by
  unfold Generated.SshWire.MP MP
  by_cases h0 : number = 0
  · rw [if_pos h0, if_pos h0]; rfl
  · rw [if_neg h0, if_neg h0]
    by_cases hneg : number < 0
    · rw [if_pos hneg, if_neg (by omega)]; rfl
    · rw [if_neg hneg, if_pos (by omega)]
      have hn : number.toNat ≠ 0 := by omega
      obtain ⟨b, bs, hbs⟩ := List.exists_cons_of_ne_nil (natToBE_ne_nil _ hn)
      show (Generated.SshWire.intToBytes ((number.toNat : Nat) : Int) >>= _) = _
      rw [gen_intToBytes_pos _ hn, hbs]
      rw [ok_bind, gen_pyOrd_head, ok_bind]
      simp only [List.headD_cons, List.cons_append, List.nil_append, gen_packU32_len]
      by_cases hb : b.toNat &&& 128 = 0
      · simp only [hb, ne_eq, not_true_eq_false, if_false]; exact pack_tail _
      · simp only [hb, ne_eq, not_false_eq_true, if_true]; exact pack_tail _

theorem gen_getMPStep_eq (s : Bytes) (mp : List Nat) (c i : Nat) :
    Generated.SshWire.getMPStep s (mp, c) i =
      match getMP1 (s.drop c) with
      | .ok (x, _) => .ok (mp ++ [x], c + (4 + beToNat ((s.drop c).take 4)))
      | .error e => .error (errToPy e) := by
  simp only [Generated.SshWire.getMPStep, getMP1, gen_unpackU32_slice, Generated.SshWire.intFromBytesBig]
  by_cases h : (s.drop c).length < 4
  · rw [if_pos h, if_pos h]; rfl
  · rw [if_neg h, if_neg h]
    simp only [bind, Except.bind, pure, Except.pure, slice_body']

theorem gen_getMP_fold (s : Bytes) (l : List Nat) (mp : List Nat) (c : Nat) :
    (List.foldlM (Generated.SshWire.getMPStep s) (mp, c) l >>= fun st => pure (st.1, s.drop st.2)) =
      ((getMP l.length (s.drop c)).mapError errToPy).map (fun p => (mp ++ p.1, p.2)) := by
  induction l generalizing mp c with
  | nil => simp [getMP, Except.mapError, Except.map, pure, Except.pure, bind, Except.bind]
  | cons i l ih =>
    simp only [List.foldlM_cons, List.length_cons, getMP, gen_getMPStep_eq]
    cases h1 : getMP1 (s.drop c) with
    | error e => simp [bind, Except.bind, Except.mapError, Except.map]
    | ok xr =>
      obtain ⟨x, r⟩ := xr
      have hr : r = s.drop (c + (4 + beToNat ((s.drop c).take 4))) := by
        unfold getMP1 at h1
        split at h1
        · cases h1
        · cases h1; rw [slice_rest]
      have := ih (mp ++ [x]) (c + (4 + beToNat ((s.drop c).take 4)))
      simp only [bind, Except.bind] at this ⊢
      rw [this, ← hr]
      cases getMP l.length r with
      | error e => simp [Except.mapError, Except.map]
      | ok p => simp [Except.mapError, Except.map, pure, Except.pure]

theorem gen_getMP_eq (s : Bytes) (count : Nat) :
    Generated.SshWire.getMP s count = (getMP count s).mapError errToPy := by
  have := gen_getMP_fold s (List.range count) [] 0
  simp only [List.length_range, List.drop_zero, List.nil_append] at this
  unfold Generated.SshWire.getMP
  simp only [bind, Except.bind, pure, Except.pure] at this ⊢
  rw [this]
  cases getMP count s with
  | error e => rfl
  | ok p => rfl
end TwistedProps.C37
