import TwistedModel.Ssh.Lsh
import TwistedProps.C37.Priv
import TwistedProps.C37.Sexpy
/-!
C37 lemmas — LSH S-expression key layouts: `_fromString_PUBLIC_LSH ∘ _toString_LSH` and
`_fromString_PRIVATE_LSH ∘ _toString_LSH` for RSA and DSA (incl. the p/q exchange).
-/
namespace TwistedProps.C37
open Twisted.Py Twisted.Ssh.Wire Twisted.Ssh.KeyBlob Twisted.Ssh.PrivKey Twisted.Ssh.Sexpy Twisted.Ssh.Lsh

/-- `NS(MP(n)[4:]) == MP(n)`: the body of an MP under a fresh length prefix is that MP again -/
theorem NS_MP_body (n : Nat) (enc : Bytes) (h : MP (n : Int) = .ok enc) : NS (enc.drop 4) = .ok enc := by
  unfold MP at h
  by_cases h0 : (n : Int) = 0
  · simp only [h0, if_true] at h
    cases h
    simp [NS, u32be]
  · have hneg : ¬ (n : Int) < 0 := by omega
    simp only [h0, hneg, if_false, Int.toNat_natCast] at h
    generalize (if ((natToBE n).headD 0).toNat &&& 128 ≠ 0 then 0 :: natToBE n else natToBE n) = bn at h
    split at h
    · rename_i hlen
      cases h
      have hd : (u32be bn.length ++ bn).drop 4 = bn := by
        rw [List.drop_append_of_le_length (by simp [u32be_length])]; simp [u32be]
      rw [hd]; simp [NS, hlen]
    · cases h

/-- `common.getMP(common.NS(MP(n)[4:]))[0] == n` -/
theorem getMP1_NS_MP_body (n : Nat) (enc : Bytes) (h : MP (n : Int) = .ok enc) :
    ∃ e2, NS (enc.drop 4) = .ok e2 ∧ getMP1 e2 = .ok (n, []) := by
  refine ⟨enc, NS_MP_body n enc h, ?_⟩
  simpa using getMP1_MP n [] enc h

/-- the `kd` loop over the pairs written by `fields` binds every name to its number, in order -/
theorem readFields_fields (l : List (UInt8 × Nat)) (fs : List Sexp) (kd : Dict) (h : fields l = .ok fs) :
    readFields fs kd = .ok (l.foldl (fun kd nv => kd.set [nv.1] nv.2) kd) := by
  induction l generalizing fs kd with
  | nil => cases h; rfl
  | cons nv l ih =>
    obtain ⟨name, v⟩ := nv
    simp only [fields, field] at h
    cases hm : MP (v : Int) with
    | error e => simp [hm, liftE, bind, Except.bind] at h
    | ok enc =>
      cases hr : fields l with
      | error e => simp [hm, hr, liftE, bind, Except.bind, pure, Except.pure] at h
      | ok fs' =>
        simp only [hm, hr, liftE, bind, Except.bind, pure, Except.pure, Except.ok.injEq] at h
        subst h
        obtain ⟨e2, h1, h2⟩ := getMP1_NS_MP_body v enc hm
        simp only [readFields, h1, h2, liftE, bind, Except.bind]
        exact ih fs' _ hr


theorem bindE_ok {α β} {x : Except LshErr α} {f : α → Except LshErr β} {b : β}
    (h : (x >>= f) = .ok b) : ∃ a, x = .ok a ∧ f a = .ok b := by
  cases x with
  | error e => simp [bind, Except.bind] at h
  | ok a => exact ⟨a, rfl, h⟩

theorem fromLshPublic_rsa (e n : Nat) (enc : Bytes) (h : toLshPublic (.rsa e n) = .ok enc) :
    fromLshPublic enc = .ok (.rsa e n) := by
  simp only [toLshPublic] at h
  obtain ⟨fs, hfs, h⟩ := bindE_ok h
  simp only [pure, Except.pure, Except.ok.injEq] at h
  subst h
  have hr := readFields_fields _ fs [] hfs
  simp only [List.foldl_cons, List.foldl_nil] at hr
  simp [fromLshPublic, keySexp, parse_pack, liftS, readKey, isAtom, hr, bind, Except.bind, pure, Except.pure,
    Dict.set, Dict.get, sPublicKey, sRsaSha1, sDsa]

theorem fromLshPublic_dsa (p q g y : Nat) (enc : Bytes) (h : toLshPublic (.dsa p q g y) = .ok enc) :
    fromLshPublic enc = .ok (.dsa p q g y) := by
  simp only [toLshPublic] at h
  obtain ⟨fs, hfs, h⟩ := bindE_ok h
  simp only [pure, Except.pure, Except.ok.injEq] at h
  subst h
  have hr := readFields_fields _ fs [] hfs
  simp only [List.foldl_cons, List.foldl_nil] at hr
  simp [fromLshPublic, keySexp, parse_pack, liftS, readKey, isAtom, hr, bind, Except.bind, pure, Except.pure,
    Dict.set, Dict.get, sPublicKey, sDsa]

theorem parseLshPrivate_dsa (p q g y x u : Nat) (enc : Bytes) (h : toLshPrivate (.dsa p q g y x) u = .ok enc) :
    parseLshPrivate enc = .ok (.dsa p q g y x) := by
  simp only [toLshPrivate] at h
  obtain ⟨fs, hfs, h⟩ := bindE_ok h
  simp only [pure, Except.pure, Except.ok.injEq] at h
  subst h
  have hr := readFields_fields _ fs [] hfs
  simp only [List.foldl_cons, List.foldl_nil] at hr
  simp [parseLshPrivate, keySexp, parse_pack, liftS, readKey, isAtom, hr, bind, Except.bind, pure, Except.pure,
    Dict.set, Dict.get, sPrivateKey, sDsa]

theorem fields_append (l1 l2 : List (UInt8 × Nat)) (f1 f2 : List Sexp)
    (h1 : fields l1 = .ok f1) (h2 : fields l2 = .ok f2) : fields (l1 ++ l2) = .ok (f1 ++ f2) := by
  induction l1 generalizing f1 with
  | nil => cases h1; simpa using h2
  | cons nv l ih =>
    obtain ⟨name, v⟩ := nv
    simp only [fields, List.cons_append] at h1 ⊢
    obtain ⟨f, hf, h1⟩ := bindE_ok h1
    obtain ⟨fs, hfs, h1⟩ := bindE_ok h1
    simp only [pure, Except.pure, Except.ok.injEq] at h1
    subst h1
    simp [hf, ih fs hfs, bind, Except.bind, pure, Except.pure]

theorem fields_single (name : UInt8) (v : Nat) (f : Sexp) (h : field name v = .ok f) :
    fields [(name, v)] = .ok [f] := by
  simp [fields, h, bind, Except.bind, pure, Except.pure]

/-- RSA private LSH: the p/q exchange of the writer is undone by the (repaired) reader. -/
theorem parseLshPrivate_rsa (n e d p q u : Nat) (enc : Bytes) (h : toLshPrivate (.rsa n e d p q) u = .ok enc) :
    parseLshPrivate enc = .ok (.rsa n e d p q) := by
  simp only [toLshPrivate] at h
  obtain ⟨f1, hf1, h⟩ := bindE_ok h
  obtain ⟨a, ha, h⟩ := bindE_ok h
  obtain ⟨fa, hfa, h⟩ := bindE_ok h
  obtain ⟨b, hb, h⟩ := bindE_ok h
  obtain ⟨fb, hfb, h⟩ := bindE_ok h
  obtain ⟨fc, hfc, h⟩ := bindE_ok h
  simp only [pure, Except.pure, Except.ok.injEq] at h
  subst h
  have hall : fields ([(110, n), (101, e), (100, d), (112, q), (113, p)] ++ ([(97, a)] ++ ([(98, b)] ++ [(99, u)])))
      = .ok (f1 ++ ([fa] ++ ([fb] ++ [fc]))) :=
    fields_append _ _ _ _ hf1 (fields_append _ _ _ _ (fields_single _ _ _ hfa)
      (fields_append _ _ _ _ (fields_single _ _ _ hfb) (fields_single _ _ _ hfc)))
  have hr := readFields_fields _ _ [] hall
  simp only [List.cons_append, List.nil_append, List.foldl_cons, List.foldl_nil] at hr
  simp [parseLshPrivate, keySexp, parse_pack, liftS, readKey, isAtom, hr, bind, Except.bind, pure, Except.pure,
    Dict.set, Dict.get, sPrivateKey, sRsa, sDsa]

end TwistedProps.C37
