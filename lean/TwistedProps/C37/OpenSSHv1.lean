import TwistedModel.Ssh.OpenSSHv1
import TwistedProps.C37.Priv
/-!
C37 lemmas — the OpenSSH v1 private container: the reader finds the parts of a container again
(`readOuter_plain`, `readOuter_encrypted`), the check-int comparison (`readSection_checks`), the padding loop and
its closed form (`padLoop_eq8/16`), and the round trip under the cipher contract (`parseOpenSSHv1_toOpenSSHv1`).
-/
namespace TwistedProps.C37
open Twisted.Py Twisted.Ssh.Wire Twisted.Ssh.KeyBlob Twisted.Ssh.PrivKey Twisted.Ssh.OpenSSHv1

theorem bindW_ok {α β} {x : Except Err α} {f : α → Except Err β} {b : β}
    (h : (x >>= f) = .ok b) : ∃ a, x = .ok a ∧ f a = .ok b := by
  cases x with
  | error e => simp [bind, Except.bind] at h
  | ok a => exact ⟨a, rfl, h⟩

theorem unpackL_u32be (n : Nat) (h : n < 4294967296) (r : Bytes) : unpackL (u32be n ++ r) = .ok n := by
  have ht : (u32be n ++ r).take 4 = u32be n := by simp [u32be]
  have hl : ¬ (u32be n ++ r).length < 4 := by simp [u32be_length]
  simp only [unpackL, hl, if_false, ht, beToNat_u32be n h]

/-- the reader finds the five parts of a well-formed container again -/
theorem readOuter_container_parts (cipher kdf opts pub sec enc : Bytes)
    (h : container cipher kdf opts pub sec = .ok enc) :
    ∃ rest, enc.take magic.length = magic ∧
      getNS 3 (enc.drop magic.length) = .ok ([cipher, kdf, opts], rest) ∧
      unpackL rest = .ok 1 ∧ getNS 2 (rest.drop 4) = .ok ([pub, sec], []) := by
  simp only [container] at h
  obtain ⟨a, ha, h⟩ := bindW_ok h
  obtain ⟨b, hb, h⟩ := bindW_ok h
  obtain ⟨c, hc, h⟩ := bindW_ok h
  obtain ⟨d, hd, h⟩ := bindW_ok h
  obtain ⟨e, he, h⟩ := bindW_ok h
  simp only [pure, Except.pure, Except.ok.injEq] at h
  subst h
  refine ⟨u32be 1 ++ d ++ e, ?_, ?_, ?_, ?_⟩
  · simp [magic]
  · have h3 := getNS_list [cipher, kdf, opts] (u32be 1 ++ d ++ e) (a ++ (b ++ c))
      (by simp [NSs, ha, hb, hc, bind, Except.bind, pure, Except.pure])
    simp only [List.length_cons, List.length_nil] at h3
    have hd : (magic ++ a ++ b ++ c ++ u32be 1 ++ d ++ e).drop magic.length
        = a ++ (b ++ c) ++ (u32be 1 ++ d ++ e) := by
      simp [magic]
    rw [hd]; exact h3
  · rw [List.append_assoc]; exact unpackL_u32be 1 (by omega) _
  · have h2 := getNS_list [pub, sec] [] (d ++ e)
      (by simp [NSs, hd, he, bind, Except.bind, pure, Except.pure])
    simp only [List.length_cons, List.length_nil, List.append_nil] at h2
    have : (u32be 1 ++ d ++ e).drop 4 = d ++ e := by simp [u32be]
    rw [this]; exact h2


/-- an unencrypted container: the reader gets the private section as written (any passphrase) -/
theorem readOuter_plain (pub sec enc pass : Bytes) (h : container sNone sNone [] pub sec = .ok enc) :
    readOuter enc pass = .ok (.plain sec) := by
  obtain ⟨rest, h0, h1, h2, h3⟩ := readOuter_container_parts _ _ _ _ _ _ h
  simp [readOuter, h0, h1, h2, h3, liftV, bind, Except.bind, pure, Except.pure]

/-- an encrypted container (aes256-ctr / bcrypt, as the writer emits it): the reader recovers the key
    size, the salt, the rounds and the ciphertext -/
theorem readOuter_encrypted (salt s pub sec enc pass : Bytes) (rounds : Nat) (hr : rounds < 4294967296)
    (hs : NS salt = .ok s) (hp : pass ≠ []) (hlen : sec.length % 16 = 0)
    (h : container sAes256 sBcrypt (s ++ u32be rounds) pub sec = .ok enc) :
    readOuter enc pass = .ok (.encrypted 32 salt rounds sec) := by
  obtain ⟨rest, h0, h1, h2, h3⟩ := readOuter_container_parts _ _ _ _ _ _ h
  have h4 := getNS1_NS salt (u32be rounds) s hs
  have h5 := unpackL_u32be rounds hr []
  simp only [List.append_nil] at h5
  have hne : sAes256 ≠ sNone := by decide
  have hk : keySizeOf sAes256 = some 32 := by decide
  simp [readOuter, h0, h1, h2, h3, h4, h5, liftV, bind, Except.bind, pure, Except.pure, hne, hk, hp, hlen]

theorem padding_length (bs len : Nat) : (padding bs len).length = (bs - len % bs) % bs := by
  simp [padding]

/-- two different 4-byte strings unpack to different integers -/
theorem beToNat_inj4 (a b : Bytes) (ha : a.length = 4) (hb : b.length = 4) (h : beToNat a = beToNat b) : a = b := by
  match a, ha with
  | [a0, a1, a2, a3], _ =>
    match b, hb with
    | [b0, b1, b2, b3], _ =>
      simp only [beToNat, List.foldl_cons, List.foldl_nil] at h
      have := a0.toNat_lt; have := a1.toNat_lt; have := a2.toNat_lt; have := a3.toNat_lt
      have := b0.toNat_lt; have := b1.toNat_lt; have := b2.toNat_lt; have := b3.toNat_lt
      have e0 : a0.toNat = b0.toNat := by omega
      have e1 : a1.toNat = b1.toNat := by omega
      have e2 : a2.toNat = b2.toNat := by omega
      have e3 : a3.toNat = b3.toNat := by omega
      rw [UInt8.toNat_inj.mp e0, UInt8.toNat_inj.mp e1, UInt8.toNat_inj.mp e2, UInt8.toNat_inj.mp e3]

theorem readSection_checks (c1 c2 body : Bytes) (h1 : c1.length = 4) (h2 : c2.length = 4) :
    readSection (c1 ++ c2 ++ body) =
      if c1 = c2 then liftP (parsePrivateBlob body) else .error .badKey := by
  have hl1 : ¬ (c1 ++ c2 ++ body).length < 4 := by simp; omega
  have hd4 : (c1 ++ c2 ++ body).drop 4 = c2 ++ body := by
    rw [List.append_assoc, ← h1]; simp
  have hl2 : ¬ (c2 ++ body).length < 4 := by simp; omega
  have ht1 : (c1 ++ c2 ++ body).take 4 = c1 := by rw [List.append_assoc, ← h1]; simp
  have ht2 : (c2 ++ body).take 4 = c2 := by rw [← h2]; simp
  have hd8 : (c1 ++ c2 ++ body).drop 8 = body := by
    have : 8 = (c1 ++ c2).length := by simp; omega
    rw [this]; simp
  simp only [readSection, unpackL, hl1, hd4, hl2, ht1, ht2, hd8, liftV, if_false, bind, Except.bind]
  by_cases hc : c1 = c2
  · simp [hc]
  · have : beToNat c1 ≠ beToNat c2 := fun e => hc (beToNat_inj4 c1 c2 h1 h2 e)
    simp [hc, this]


def padFrom (pb n : Nat) : Bytes := (List.range n).map fun i => UInt8.ofNat ((pb + i + 1) % 256)

theorem padFrom_succ (pb n : Nat) : padFrom pb (n + 1) = UInt8.ofNat ((pb + 1) % 256) :: padFrom (pb + 1) n := by
  simp only [padFrom, List.range_succ_eq_map, List.map_cons, List.map_map, Nat.add_zero]
  congr 1
  apply List.map_congr_left
  intro i _
  simp only [Function.comp]
  congr 2; omega

theorem padLoop_eq16 (fuel pb : Nat) (l : Bytes) (hf : (16 - l.length % 16) % 16 ≤ fuel) :
    padLoop fuel 16 pb l = l ++ padFrom pb ((16 - l.length % 16) % 16) := by
  induction fuel generalizing pb l with
  | zero =>
    have : (16 - l.length % 16) % 16 = 0 := by omega
    simp [padLoop, this, padFrom]
  | succ fuel ih =>
    unfold padLoop
    by_cases h : l.length % 16 = 0
    · simp [h, padFrom]
    · simp only [ne_eq, h, not_false_eq_true, if_true]
      have hl : (l ++ [UInt8.ofNat ((pb + 1) % 256)]).length = l.length + 1 := by simp
      have hn : (16 - l.length % 16) % 16 = (16 - (l.length + 1) % 16) % 16 + 1 := by omega
      rw [ih (pb + 1) _ (by rw [hl]; omega), hl, hn, padFrom_succ]
      simp

theorem padLoop_eq8 (fuel pb : Nat) (l : Bytes) (hf : (8 - l.length % 8) % 8 ≤ fuel) :
    padLoop fuel 8 pb l = l ++ padFrom pb ((8 - l.length % 8) % 8) := by
  induction fuel generalizing pb l with
  | zero =>
    have : (8 - l.length % 8) % 8 = 0 := by omega
    simp [padLoop, this, padFrom]
  | succ fuel ih =>
    unfold padLoop
    by_cases h : l.length % 8 = 0
    · simp [h, padFrom]
    · simp only [ne_eq, h, not_false_eq_true, if_true]
      have hl : (l ++ [UInt8.ofNat ((pb + 1) % 256)]).length = l.length + 1 := by simp
      have hn : (8 - l.length % 8) % 8 = (8 - (l.length + 1) % 8) % 8 + 1 := by omega
      rw [ih (pb + 1) _ (by rw [hl]; omega), hl, hn, padFrom_succ]
      simp

theorem padFrom_zero (bs len : Nat) : padFrom 0 ((bs - len % bs) % bs) = padding bs len := by
  simp [padFrom, padding]

theorem padLoop_prefix (fuel bs pb : Nat) (l : Bytes) : ∃ t, padLoop fuel bs pb l = l ++ t := by
  induction fuel generalizing pb l with
  | zero => exact ⟨[], by simp [padLoop]⟩
  | succ fuel ih =>
    unfold padLoop
    by_cases h : l.length % bs = 0
    · exact ⟨[], by simp [h]⟩
    · obtain ⟨t, ht⟩ := ih (pb + 1) (l ++ [UInt8.ofNat ((pb + 1) % 256)])
      exact ⟨UInt8.ofNat ((pb + 1) % 256) :: t, by simp [h, ht]⟩

/-- the loop is its closed form for the two block sizes the writer uses -/
theorem padLoop_closed8 (l : Bytes) : padLoop 8 8 0 l = l ++ padding 8 l.length := by
  rw [padLoop_eq8 8 0 l (by omega), padFrom_zero]
theorem padLoop_closed16 (l : Bytes) : padLoop 16 16 0 l = l ++ padding 16 l.length := by
  rw [padLoop_eq16 16 0 l (by omega), padFrom_zero]

theorem privSection_shape (k : PrivKey) (iqmp : Nat) (comment check sec : Bytes) (bs : Nat)
    (h : privSection k iqmp comment check bs = .ok sec) :
    ∃ pb c tail, privateBlob k iqmp = .ok pb ∧ sec = check ++ check ++ (pb ++ tail) ∧
      sec = padLoop bs bs 0 (check ++ check ++ pb ++ c) := by
  simp only [privSection] at h
  obtain ⟨pb, hpb, h⟩ := bindW_ok h
  obtain ⟨c, hc, h⟩ := bindW_ok h
  simp only [pure, Except.pure, Except.ok.injEq] at h
  subst h
  obtain ⟨t, ht⟩ := padLoop_prefix bs bs 0 (check ++ check ++ pb ++ c)
  exact ⟨pb, c, c ++ t, hpb, by rw [ht]; simp, rfl⟩

/-- the section written for a key reads back to that key's fields (check bytes equal by construction) -/
theorem readSection_privSection (G : KeyGen) (k : PrivKey) (hk : WellFormed G k) (iqmp : Nat)
    (comment check sec : Bytes) (bs : Nat) (hc : check.length = 4)
    (h : privSection k iqmp comment check bs = .ok sec) : readSection sec = .ok (fieldsOf k) := by
  obtain ⟨pb, _, tail, hpb, hsec, _⟩ := privSection_shape k iqmp comment check _ bs h
  rw [hsec, readSection_checks check check _ hc hc, if_pos rfl,
    parsePrivateBlob_privateBlob G k iqmp hk pb tail hpb]
  rfl

theorem privSection_length16 (k : PrivKey) (iqmp : Nat) (comment check sec : Bytes)
    (h : privSection k iqmp comment check 16 = .ok sec) : sec.length % 16 = 0 := by
  obtain ⟨pb, c, _, _, _, hl⟩ := privSection_shape k iqmp comment check sec 16 h
  rw [hl, padLoop_closed16, List.length_append, padding_length]
  omega

/-- **OpenSSH v1 container round trip**, with a passphrase (`passphrase ≠ []`: aes256-ctr + bcrypt, under
    the cipher contract) and without (`passphrase = []`: cipher and KDF `none`), for every key type, comment,
    salt and check value. -/
theorem parseOpenSSHv1_toOpenSSHv1 (C : CipherOps) (hC : C.Lawful) (G : KeyGen) (k : PrivKey) (hk : WellFormed G k)
    (iqmp : Nat) (comment passphrase salt check enc : Bytes) (hc : check.length = 4)
    (h : toOpenSSHv1 C k iqmp comment passphrase salt check = .ok enc) :
    parseOpenSSHv1 C enc passphrase = .ok (fieldsOf k) := by
  unfold toOpenSSHv1 at h
  by_cases hp : passphrase = []
  · simp only [hp, ne_eq, not_true_eq_false, if_false] at h
    obtain ⟨sec, hsec, h⟩ := bindW_ok h
    obtain ⟨pub, _, h⟩ := bindW_ok h
    have ho := readOuter_plain pub sec enc [] h
    simp only [parseOpenSSHv1, hp, ho, bind, Except.bind, openOuter]
    exact readSection_privSection G k hk iqmp comment check sec 8 hc hsec
  · simp only [ne_eq, hp, not_false_eq_true, if_true] at h
    obtain ⟨s, hs, h⟩ := bindW_ok h
    obtain ⟨sec, hsec, h⟩ := bindW_ok h
    obtain ⟨pub, _, h⟩ := bindW_ok h
    have hlen : (C.encrypt ((C.kdf passphrase salt (32 + 16) 100).take 32)
        (((C.kdf passphrase salt (32 + 16) 100).drop 32).take 16) sec).length % 16 = 0 := by
      rw [hC.enc_length]; exact privSection_length16 k iqmp comment check sec hsec
    have ho := readOuter_encrypted salt s pub _ enc passphrase 100 (by omega) hs hp hlen h
    simp only [parseOpenSSHv1, ho, bind, Except.bind, openOuter, hC.dec_enc]
    exact readSection_privSection G k hk iqmp comment check sec 16 hc hsec

/-- **a wrong check pair is refused**: a container (plain or encrypted as the writer does) whose private
    section starts with two different 4-byte check values is a `BadKeyError`, whatever follows. -/
theorem wrong_check_refused_plain (C : CipherOps) (pub c1 c2 body enc pass : Bytes)
    (h1 : c1.length = 4) (h2 : c2.length = 4) (hne : c1 ≠ c2)
    (h : container sNone sNone [] pub (c1 ++ c2 ++ body) = .ok enc) :
    parseOpenSSHv1 C enc pass = .error .badKey := by
  have ho := readOuter_plain pub _ enc pass h
  simp only [parseOpenSSHv1, ho, bind, Except.bind, openOuter]
  rw [readSection_checks c1 c2 body h1 h2, if_neg hne]

theorem wrong_check_refused_encrypted (C : CipherOps) (hC : C.Lawful) (salt s pub c1 c2 body enc pass : Bytes)
    (rounds : Nat) (hr : rounds < 4294967296) (hs : NS salt = .ok s) (hp : pass ≠ [])
    (h1 : c1.length = 4) (h2 : c2.length = 4) (hne : c1 ≠ c2) (hlen : (c1 ++ c2 ++ body).length % 16 = 0)
    (h : container sAes256 sBcrypt (s ++ u32be rounds) pub
          (C.encrypt ((C.kdf pass salt (32 + 16) rounds).take 32) (((C.kdf pass salt (32 + 16) rounds).drop 32).take 16)
            (c1 ++ c2 ++ body)) = .ok enc) :
    parseOpenSSHv1 C enc pass = .error .badKey := by
  have hl : (C.encrypt ((C.kdf pass salt (32 + 16) rounds).take 32) (((C.kdf pass salt (32 + 16) rounds).drop 32).take 16)
      (c1 ++ c2 ++ body)).length % 16 = 0 := by rw [hC.enc_length]; exact hlen
  have ho := readOuter_encrypted salt s pub _ enc pass rounds hr hs hp hl h
  simp only [parseOpenSSHv1, ho, bind, Except.bind, openOuter, hC.dec_enc]
  rw [readSection_checks c1 c2 body h1 h2, if_neg hne]

end TwistedProps.C37
