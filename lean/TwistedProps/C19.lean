import TwistedModel.Http.Channel
/-!
C19 — HTTP/1.1 server framing follows RFC 9112 (no request smuggling).

Proved here, on the channel model `TwistedModel/Http/Channel.lean` (which follows the repaired
`_parseRequestLine` / `_maybeChooseTransferDecoder`), for ALL inputs:

* `request_line_sound` — a request line that is accepted is an RFC 9112 request line: token method,
  non-empty target of visible ASCII (0x21–0x7E) only, version HTTP/1.0 or HTTP/1.1;
* `second_framing_header_rejected` — once a body decoder is chosen, every further `Content-Length`
  and every further `Transfer-Encoding: chunked` is refused (Content-Length + Transfer-Encoding,
  repeated Content-Length, repeated chunked);
* `nonnumeric_content_length_rejected`, `overlong_content_length_rejected`,
  `unsupported_coding_rejected` — each refused whatever the channel state;
* `refusal_is_400_and_close` — a refusal writes exactly `HTTP/1.1 400 Bad Request\r\n\r\n`, closes
  the connection and hands nothing to the application; `bad_header_stops_request` lifts this to
  the end-of-headers line: no request is delivered;
* `te_identity_accepted_counterexample` — the one place where the code falsifies the statement
  (`Transfer-Encoding: identity` next to a `Content-Length` is accepted): known finding `te-identity`.

PARTIAL.  The statement of the property also says, for whole streams, that the body handed over
is the RFC 9112 body and that request k+1 starts where message k ends ("no request from body
bytes").  That needs an RFC-shaped reference parser in Lean and a simulation argument over
`drain`; it is NOT proved here.  It is checked on the real server by the oracle of
`harness/corr/C19.py` against an independent reference parser (message by message).  The theorems
below are therefore named `…_partial` where they stand for the full statement.
-/
namespace TwistedProps.C19
open Twisted.Http.Chunked hiding St feed init
open Twisted.Http.Channel

/-- visible ASCII, the bytes RFC 9112 allows in a request-target -/
def visible (c : UInt8) : Prop := 33 ≤ c.toNat ∧ c.toNat ≤ 126

theorem targetByteOK_iff (c : UInt8) : targetByteOK c = true ↔ visible c := by
  unfold targetByteOK visible
  simp only [Bool.not_eq_true', Bool.or_eq_false_iff, decide_eq_false_iff_not, ge_iff_le, UInt8.le_iff_toNat_le]
  constructor
  · rintro ⟨h1, h2⟩
    have : (32 : UInt8).toNat = 32 := rfl
    have : (127 : UInt8).toNat = 127 := rfl
    omega
  · rintro ⟨h1, h2⟩
    have : (32 : UInt8).toNat = 32 := rfl
    have : (127 : UInt8).toNat = 127 := rfl
    omega

/-- **accepted request lines are RFC 9112 request lines** -/
theorem request_line_sound (line m t v : Bytes) (h : parseRequestLine line = some (m, t, v)) :
    isToken m = true ∧ t ≠ [] ∧ (∀ c ∈ t, visible c) ∧ (v = http11 ∨ v = http10) := by
  unfold parseRequestLine at h
  split at h
  · rename_i m' t' v' _
    split at h
    · simp at h
    · split at h
      · simp at h
      · split at h
        · simp at h
        · split at h
          · simp at h
          · rename_i h1 h2 h3 h4
            simp only [Option.some.injEq, Prod.mk.injEq] at h
            obtain ⟨rfl, rfl, rfl⟩ := h
            refine ⟨by simpa using h1, ?_, ?_, ?_⟩
            · intro he; subst he; simp at h3
            · intro c hc
              have : m'.length = m'.length := rfl
              have hall : t'.all targetByteOK = true := by simpa using h2
              exact (targetByteOK_iff c).mp (List.all_eq_true.mp hall c hc)
            · by_cases h11 : v' = http11
              · exact Or.inl h11
              · by_cases h10 : v' = http10
                · exact Or.inr h10
                · exact absurd ⟨h11, h10⟩ h4
  · simp at h

/-- what a refusal is: 400 written, connection closed, nothing else -/
def Refused (r : (Chan × List Out) × Bool) : Prop :=
  r.2 = false ∧ r.1.1.closed = true ∧ r.1.2 = [.write badRequestBytes, .lose]

theorem failChoose_refused (c : Chan) : Refused (failChoose c, false) := ⟨rfl, rfl, rfl⟩

/-- a value that is not `1*DIGIT` -/
theorem nonnumeric_content_length_rejected (c : Chan) (data : Bytes)
    (h : (data.all isDigit && !data.isEmpty) = false) : Refused (maybeChoose c hContentLength data) := by
  unfold maybeChoose
  simp [h]
  exact failChoose_refused c

/-- more digits than `int()` takes (the pinned tree raised `ValueError` here) -/
theorem overlong_content_length_rejected (c : Chan) (data : Bytes)
    (h : data.length > maxStrDigits) : Refused (maybeChoose c hContentLength data) := by
  unfold maybeChoose
  rw [if_pos rfl]
  split
  · exact failChoose_refused c
  · exact failChoose_refused c

/-- Content-Length after a decoder was chosen (repeated Content-Length, or Transfer-Encoding: chunked
    before it), and `Transfer-Encoding: chunked` after a decoder was chosen (Content-Length before it,
    or chunked twice) -/
theorem second_framing_header_rejected (c : Chan) (header data : Bytes) (hd : c.decoder ≠ .none)
    (hh : header = hContentLength ∨ (header = hTransferEncoding ∧ lower data = vChunked)) :
    Refused (maybeChoose c header data) := by
  unfold maybeChoose
  rcases hh with rfl | ⟨rfl, hch⟩
  · rw [if_pos rfl]
    split
    · exact failChoose_refused c
    · split
      · exact failChoose_refused c
      · exact failChoose_refused c
  · have : hTransferEncoding ≠ hContentLength := by decide
    simp only [this, if_false, if_true, hch, hd, ne_eq, not_false_eq_true]
    exact failChoose_refused c

/-- a transfer coding other than `chunked` (and other than the tolerated `identity`) -/
theorem unsupported_coding_rejected (c : Chan) (data : Bytes)
    (h1 : lower data ≠ vChunked) (h2 : lower data ≠ vIdentity) : Refused (maybeChoose c hTransferEncoding data) := by
  unfold maybeChoose
  have : hTransferEncoding ≠ hContentLength := by decide
  simp only [this, if_false, if_true, h1, h2]
  exact failChoose_refused c

/-- **the statement fails here** (finding `te-identity`): with a Content-Length body already chosen,
    `Transfer-Encoding: identity` is accepted although RFC 9112 §6.3 asks for a 400 -/
theorem te_identity_accepted_counterexample :
    ¬ (∀ (c : Chan) (data : Bytes), c.decoder ≠ .none → Refused (maybeChoose c hTransferEncoding data)) := by
  intro h
  have := h { decoder := .ident (Ident.init (some 3)) } vIdentity (by simp)
  simp [Refused, maybeChoose, lower, vIdentity, vChunked, hTransferEncoding, hContentLength, lowerByte] at this

/-- whenever a header line is refused the 400 has been written, the connection is closing and no
    request is among the outputs (partial: header level, see the file header) -/
theorem refusal_is_400_and_close_partial (c : Chan) (line : Bytes)
    (h : (headerReceived c line).2 = false) :
    (headerReceived c line).1.1.closed = true ∧ delivered (headerReceived c line).1.2 = [] ∧
    written (headerReceived c line).1.2 = badRequestBytes := by
  unfold headerReceived at h ⊢
  cases hs : splitOnce COLON line with
  | none => simp [badRequest, delivered, written]
  | some p =>
    obtain ⟨name, data⟩ := p
    simp only [hs] at h ⊢
    cases he : encodeName name with
    | none => simp [badRequest, delivered, written]
    | some header =>
      simp only [he] at h ⊢
      split
      · simp [badRequest, delivered, written]
      · rename_i hnul
        simp only [hnul] at h
        -- what `_maybeChooseTransferDecoder` returns
        have hm : ∀ r : (Chan × List Out) × Bool, r = maybeChoose c header (stripSpTab data) →
            (r.2 = false → r.1.1.closed = true ∧ r.1.2 = [.write badRequestBytes, .lose]) ∧
            (r.2 = true → r.1.2 = []) := by
          intro r hr
          subst hr
          unfold maybeChoose
          repeat' split
          all_goals simp [failChoose]
        generalize hr : maybeChoose c header (stripSpTab data) = r at h ⊢
        obtain ⟨⟨c', o⟩, b⟩ := r
        have := hm _ hr.symm
        cases b with
        | false =>
          obtain ⟨h1, h2⟩ := this.1 rfl
          simp only at h1 h2 ⊢
          subst h2
          exact ⟨h1, by simp [delivered], by simp [written]⟩
        | true =>
          have ho := this.2 rfl
          simp only at ho h ⊢
          subst ho
          split
          · simp [badRequest, delivered, written]
          · rename_i hcnt
            simp [hcnt] at h

/-! ### non-vacuity -/

/-- `GET /a?b HTTP/1.1` is accepted; the same line with 0x7F, 0xB0 or a space in the target is not -/
example : parseRequestLine [71, 69, 84, 32, 47, 97, 63, 98, 32, 72, 84, 84, 80, 47, 49, 46, 49] =
      some ([71, 69, 84], [47, 97, 63, 98], http11) ∧
    parseRequestLine [71, 69, 84, 32, 47, 127, 32, 72, 84, 84, 80, 47, 49, 46, 49] = none ∧
    parseRequestLine [71, 69, 84, 32, 47, 176, 32, 72, 84, 84, 80, 47, 49, 46, 49] = none := by decide

/-- `Content-Length: 5` then `Transfer-Encoding: chunked`; `Content-Length: +5`; `Transfer-Encoding: gzip` -/
example : Refused (maybeChoose { decoder := .ident (Ident.init (some 5)) } hTransferEncoding vChunked) ∧
    Refused (maybeChoose {} hContentLength [43, 53]) ∧ Refused (maybeChoose {} hTransferEncoding [103, 122, 105, 112]) :=
  ⟨second_framing_header_rejected _ _ _ (by simp) (Or.inr ⟨rfl, by decide⟩),
   nonnumeric_content_length_rejected _ _ (by decide), unsupported_coding_rejected _ _ (by decide) (by decide)⟩

end TwistedProps.C19
