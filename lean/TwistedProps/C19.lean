import TwistedProps.C19.Whole
/-!
C19 — HTTP/1.1 server framing follows RFC 9112 (no request smuggling).

Objects.  The channel model `TwistedModel/Http/Channel.lean` (which follows the repaired `_parseRequestLine` /
`_maybeChooseTransferDecoder`, tied to `twisted/web/http.py` by the differential runs of the check) and the
independent reference parser `TwistedModel/Http/Rfc9112Request.lean` (RFC 9112 §2.2, §3, §5, §6.3, §7.1; tied on
every run to the Python reference of `harness/corr/C19.py` and to `h11`).  `R.parseStream stream` is the reference's
reading of a byte stream: its messages (request line, fields, body, offsets `start`/`stop`) and why it stopped
(`done`, `more`, `may`, `bad <class>`).  `feed app init stream` is the connection after the stream has arrived in one
delivery (what the C19 check runs; independence of the segmentation is C18), `delivered …outs` the requests handed to
the application.  `AtOnce app`: the application answers each request inside `requestReceived` (the assumption of the
check; otherwise pipelined requests stay buffered, unparsed).

WHOLE-STREAM THEOREMS (for EVERY application that answers at once and EVERY byte stream):

* `body_is_rfc_body` — the k-th request handed over has exactly the method, target, version and BODY of the k-th
  message of the reference (Content-Length octets, or the decoded chunked content), for every k for which the
  reference has a message — i.e. on the whole prefix of the stream the reference accepts, whatever comes after it;
* `no_request_from_body_bytes` — request k+1 is the message `parseOne` reads at the offset where the reference says
  message k stops (after at most one empty line): no octet of a body is ever read as the start of a request;
* `no_extra_request_partial` — when the stream ends after a message (`done`) or at an invalid one (`bad`), no request
  beyond the reference's messages is handed over.  PARTIAL: for a stream that ends INSIDE a message (`more`) it is not
  proved that nothing is handed over for the incomplete message (the oracle checks it on the real server: key
  `early-request`);
* `bad_framing_gets_400_and_stop` — ONE theorem over all rejection classes of the reference (request-line, method,
  target-byte, version, field-line, field-name, field-value-nul, cl+te, te-repeated, te-unsupported, cl-repeated,
  cl-nonnumeric, cl-digits, chunk-size, chunk-ext, chunk-crlf) EXCEPT `te-identity`: the connection is closing, no
  request beyond the valid messages was handed over, and — unless the server had already closed after a request that
  was not persistent (Connection: close / HTTP/1.0) — the bytes `HTTP/1.1 400 Bad Request\r\n\r\n` and
  `loseConnection` are the LAST things the connection did, after exactly one request per valid message;
  `stopped_after_close`: nothing delivered later is processed;
* the exception stays explicit: `te_identity_accepted_counterexample` (header level) and
  `te_identity_stream_counterexample` (a stream the reference refuses as `te-identity` whose request the channel
  hands over) — known finding `te-identity`.  `body_is_rfc_body` / `no_request_from_body_bytes` need no exception:
  a message the reference ACCEPTS has no `Transfer-Encoding: identity`.

ANY SEGMENTATION (added with the mutation audit, class `segmented` of the check): `body_is_rfc_body_segmented_partial`,
`no_request_from_body_bytes_segmented_partial`, `bad_framing_gets_400_and_stop_segmented_partial` — the same
statements for a stream that arrives as an arbitrary list of deliveries, given `SegInvariant` (= the conclusion of
`TwistedProps.C18.http_seg_invariant`; see the section for why it is a hypothesis here).

Nothing is claimed where the reference says `may` (obs-fold, bare CR/LF in a value, versions other than 1.0/1.1,
size limits, codings before a final `chunked`, …): RFC 9110/9112 let a recipient reject or tolerate.

HEADER-LEVEL THEOREMS (kept from the first round, for ALL channel states):
`request_line_sound`, `second_framing_header_rejected`, `nonnumeric_content_length_rejected`,
`overlong_content_length_rejected`, `unsupported_coding_rejected`, `header_refusal_is_400_and_close`.

Proof structure (`TwistedProps/C19/*.lean`): `Bridge` (the reference's octet functions are the channel's; header-name
canonicalisation), `Framing` (§6.3 decided on the whole field section = the incremental choice of
`_maybeChooseTransferDecoder`), `Chunked` (reference chunked-body ⇒ `_ChunkedTransferDecoder` finishes with exactly
that content and rest, via the C22 theorems; malformed ⇒ `_MalformedChunkedDataError`), `Head`/`Sim` (field section in
lockstep, `head_sim`), `Msg`/`Stream` (`msg_sim`, `stream_sim`), `Whole` (observables, offsets).
-/
namespace TwistedProps.C19
open Twisted.Http.Chunked hiding St feed init
open Twisted.Http.Channel

/-- visible ASCII, the bytes RFC 9112 allows in a request-target -/
def visible (c : UInt8) : Prop := 33 ≤ c.toNat ∧ c.toNat ≤ 126

theorem targetByteOK_iff (c : UInt8) : targetByteOK c = true ↔ visible c := by
  unfold targetByteOK visible
  simp only [Bool.not_eq_true', Bool.or_eq_false_iff, decide_eq_false_iff_not, ge_iff_le, UInt8.le_iff_toNat_le]
  constructor
  · rintro ⟨h1, h2⟩
    have : (32 : UInt8).toNat = 32 := rfl
    have : (127 : UInt8).toNat = 127 := rfl
    omega
  · rintro ⟨h1, h2⟩
    have : (32 : UInt8).toNat = 32 := rfl
    have : (127 : UInt8).toNat = 127 := rfl
    omega

/-- **accepted request lines are RFC 9112 request lines** -/
theorem request_line_sound (line m t v : Bytes) (h : parseRequestLine line = some (m, t, v)) :
    isToken m = true ∧ t ≠ [] ∧ (∀ c ∈ t, visible c) ∧ (v = http11 ∨ v = http10) := by
  unfold parseRequestLine at h
  split at h
  · rename_i m' t' v' _
    split at h
    · simp at h
    · split at h
      · simp at h
      · split at h
        · simp at h
        · split at h
          · simp at h
          · rename_i h1 h2 h3 h4
            simp only [Option.some.injEq, Prod.mk.injEq] at h
            obtain ⟨rfl, rfl, rfl⟩ := h
            refine ⟨by simpa using h1, ?_, ?_, ?_⟩
            · intro he; subst he; simp at h3
            · intro c hc
              have : m'.length = m'.length := rfl
              have hall : t'.all targetByteOK = true := by simpa using h2
              exact (targetByteOK_iff c).mp (List.all_eq_true.mp hall c hc)
            · by_cases h11 : v' = http11
              · exact Or.inl h11
              · by_cases h10 : v' = http10
                · exact Or.inr h10
                · exact absurd ⟨h11, h10⟩ h4
  · simp at h

/-- what a refusal is: 400 written, connection closed, nothing else -/
def Refused (r : (Chan × List Out) × Bool) : Prop :=
  r.2 = false ∧ r.1.1.closed = true ∧ r.1.2 = [.write badRequestBytes, .lose]

theorem failChoose_refused (c : Chan) : Refused (failChoose c, false) := ⟨rfl, rfl, rfl⟩

/-- a value that is not `1*DIGIT` -/
theorem nonnumeric_content_length_rejected (c : Chan) (data : Bytes)
    (h : (data.all isDigit && !data.isEmpty) = false) : Refused (maybeChoose c hContentLength data) := by
  unfold maybeChoose
  simp [h]
  exact failChoose_refused c

/-- more digits than `int()` takes (the pinned tree raised `ValueError` here) -/
theorem overlong_content_length_rejected (c : Chan) (data : Bytes)
    (h : data.length > maxStrDigits) : Refused (maybeChoose c hContentLength data) := by
  unfold maybeChoose
  rw [if_pos rfl]
  split
  · exact failChoose_refused c
  · exact failChoose_refused c

/-- Content-Length after a decoder was chosen (repeated Content-Length, or Transfer-Encoding: chunked
    before it), and `Transfer-Encoding: chunked` after a decoder was chosen (Content-Length before it,
    or chunked twice) -/
theorem second_framing_header_rejected (c : Chan) (header data : Bytes) (hd : c.decoder ≠ .none)
    (hh : header = hContentLength ∨ (header = hTransferEncoding ∧ lower data = vChunked)) :
    Refused (maybeChoose c header data) := by
  unfold maybeChoose
  rcases hh with rfl | ⟨rfl, hch⟩
  · rw [if_pos rfl]
    split
    · exact failChoose_refused c
    · split
      · exact failChoose_refused c
      · exact failChoose_refused c
  · have : hTransferEncoding ≠ hContentLength := by decide
    simp only [this, if_false, if_true, hch, hd, ne_eq, not_false_eq_true]
    exact failChoose_refused c

/-- a transfer coding other than `chunked` (and other than the tolerated `identity`) -/
theorem unsupported_coding_rejected (c : Chan) (data : Bytes)
    (h1 : lower data ≠ vChunked) (h2 : lower data ≠ vIdentity) : Refused (maybeChoose c hTransferEncoding data) := by
  unfold maybeChoose
  have : hTransferEncoding ≠ hContentLength := by decide
  simp only [this, if_false, if_true, h1, h2]
  exact failChoose_refused c

/-- **the statement fails here** (finding `te-identity`): with a Content-Length body already chosen,
    `Transfer-Encoding: identity` is accepted although RFC 9112 §6.3 asks for a 400 -/
theorem te_identity_accepted_counterexample :
    ¬ (∀ (c : Chan) (data : Bytes), c.decoder ≠ .none → Refused (maybeChoose c hTransferEncoding data)) := by
  intro h
  have := h { decoder := .ident (Ident.init (some 3)) } vIdentity (by simp)
  simp [Refused, maybeChoose, lower, vIdentity, vChunked, hTransferEncoding, hContentLength, lowerByte] at this

/-- whenever a header line is refused the 400 has been written, the connection is closing and no
    request is among the outputs (header level; the whole-stream statement is `bad_framing_gets_400_and_stop`) -/
theorem header_refusal_is_400_and_close (c : Chan) (line : Bytes)
    (h : (headerReceived c line).2 = false) :
    (headerReceived c line).1.1.closed = true ∧ delivered (headerReceived c line).1.2 = [] ∧
    written (headerReceived c line).1.2 = badRequestBytes := by
  unfold headerReceived at h ⊢
  cases hs : splitOnce COLON line with
  | none => simp [badRequest, delivered, written]
  | some p =>
    obtain ⟨name, data⟩ := p
    simp only [hs] at h ⊢
    cases he : encodeName name with
    | none => simp [badRequest, delivered, written]
    | some header =>
      simp only [he] at h ⊢
      split
      · simp [badRequest, delivered, written]
      · rename_i hnul
        simp only [hnul] at h
        -- what `_maybeChooseTransferDecoder` returns
        have hm : ∀ r : (Chan × List Out) × Bool, r = maybeChoose c header (stripSpTab data) →
            (r.2 = false → r.1.1.closed = true ∧ r.1.2 = [.write badRequestBytes, .lose]) ∧
            (r.2 = true → r.1.2 = []) := by
          intro r hr
          subst hr
          unfold maybeChoose
          repeat' split
          all_goals simp [failChoose]
        generalize hr : maybeChoose c header (stripSpTab data) = r at h ⊢
        obtain ⟨⟨c', o⟩, b⟩ := r
        have := hm _ hr.symm
        cases b with
        | false =>
          obtain ⟨h1, h2⟩ := this.1 rfl
          simp only at h1 h2 ⊢
          subst h2
          exact ⟨h1, by simp [delivered], by simp [written]⟩
        | true =>
          have ho := this.2 rfl
          simp only at ho h ⊢
          subst ho
          split
          · simp [badRequest, delivered, written]
          · rename_i hcnt
            simp [hcnt] at h

/-! ### non-vacuity -/

/-- `GET /a?b HTTP/1.1` is accepted; the same line with 0x7F, 0xB0 or a space in the target is not -/
example : parseRequestLine [71, 69, 84, 32, 47, 97, 63, 98, 32, 72, 84, 84, 80, 47, 49, 46, 49] =
      some ([71, 69, 84], [47, 97, 63, 98], http11) ∧
    parseRequestLine [71, 69, 84, 32, 47, 127, 32, 72, 84, 84, 80, 47, 49, 46, 49] = none ∧
    parseRequestLine [71, 69, 84, 32, 47, 176, 32, 72, 84, 84, 80, 47, 49, 46, 49] = none := by decide

/-- `Content-Length: 5` then `Transfer-Encoding: chunked`; `Content-Length: +5`; `Transfer-Encoding: gzip` -/
example : Refused (maybeChoose { decoder := .ident (Ident.init (some 5)) } hTransferEncoding vChunked) ∧
    Refused (maybeChoose {} hContentLength [43, 53]) ∧ Refused (maybeChoose {} hTransferEncoding [103, 122, 105, 112]) :=
  ⟨second_framing_header_rejected _ _ _ (by simp) (Or.inr ⟨rfl, by decide⟩),
   nonnumeric_content_length_rejected _ _ (by decide), unsupported_coding_rejected _ _ (by decide) (by decide)⟩


/-! ## whole streams -/

/-- **each request handed over has exactly the body (and request line) RFC 9112 assigns to it** -/
theorem body_is_rfc_body (app : App) (hfin : AtOnce app) (stream : Bytes) (k : Nat) (r : Req) (m : R.Msg)
    (hr : (delivered (feed app init stream).outs)[k]? = some r) (hm : (R.parseStream stream).1[k]? = some m) :
    r.method = m.method ∧ r.uri = m.target ∧ r.version = m.version ∧ r.body = m.body := by
  rw [(feed_init app stream).1] at hr
  exact follows_delivered _ _ _ (follows_stream app hfin stream) k r m hr hm

theorem consecutive_get (orig : Bytes) : ∀ (msgs : List R.Msg) (prev : Nat), Consecutive orig prev msgs →
    ∀ (k : Nat) (m m1 : R.Msg), msgs[k]? = some m → msgs[k + 1]? = some m1 →
      (m1.start = m.stop ∨ (m1.start = m.stop + 2 ∧ R.startsCRLF (orig.drop m.stop) = true)) ∧
      ∃ m' rest, R.parseOne (orig.drop m1.start) = .ok (m', rest) ∧ m'.method = m1.method ∧ m'.target = m1.target ∧
        m'.version = m1.version ∧ m'.body = m1.body ∧ m1.stop = m1.start + m'.stop := by
  intro msgs
  induction msgs with
  | nil => intro prev _ k m m1 h; simp at h
  | cons a t ih =>
    intro prev hc k m m1 h0 h1
    obtain ⟨_, _, hct⟩ := hc
    cases k with
    | zero =>
      simp only [List.getElem?_cons_zero, Option.some.injEq] at h0
      subst h0
      cases t with
      | nil => simp at h1
      | cons b t' =>
        simp only [Nat.zero_add, List.getElem?_cons_succ, List.getElem?_cons_zero, Option.some.injEq] at h1
        subst h1
        exact ⟨hct.1, hct.2.1⟩
    | succ k =>
      simp only [List.getElem?_cons_succ] at h0 h1
      exact ih a.stop hct k m m1 h0 h1

/-- **bytes of a body are never parsed as a new request**: request k+1 handed over is the message the reference
    reads at the offset where message k stops (`m1.start = m.stop`, or two octets later after one empty line) -/
theorem no_request_from_body_bytes (app : App) (hfin : AtOnce app) (stream : Bytes) (k : Nat) (r : Req) (m m1 : R.Msg)
    (hr : (delivered (feed app init stream).outs)[k + 1]? = some r)
    (hm : (R.parseStream stream).1[k]? = some m) (hm1 : (R.parseStream stream).1[k + 1]? = some m1) :
    (m1.start = m.stop ∨ (m1.start = m.stop + 2 ∧ R.startsCRLF (stream.drop m.stop) = true)) ∧
    ∃ m' rest, R.parseOne (stream.drop m1.start) = .ok (m', rest) ∧ m1.stop = m1.start + m'.stop ∧
      r.method = m'.method ∧ r.uri = m'.target ∧ r.version = m'.version ∧ r.body = m'.body := by
  obtain ⟨hadj, m', rest, hp, e1, e2, e3, e4, e5⟩ :=
    consecutive_get stream _ 0 (parseStream_consecutive stream) k m m1 hm hm1
  obtain ⟨b1, b2, b3, b4⟩ := body_is_rfc_body app hfin stream (k + 1) r m1 hr hm1
  exact ⟨hadj, m', rest, hp, e5, by rw [b1, e1], by rw [b2, e2], by rw [b3, e3], by rw [b4, e4]⟩

/-- no request beyond the reference's messages when the stream ends after a message or at an invalid one.
    PARTIAL — full statement: also when `(R.parseStream stream).2 = .more` (the stream ends inside a message) the
    number of requests handed over is at most the number of complete messages.  Missing: the converse direction of
    the simulation for incomplete heads / bodies (the channel hands a request over only when the reference's message
    is complete). -/
theorem no_extra_request_partial (app : App) (hfin : AtOnce app) (stream : Bytes)
    (hstop : (R.parseStream stream).2 = .done ∨ ∃ k, (R.parseStream stream).2 = .bad k ∧ k ≠ .teIdentity) :
    (delivered (feed app init stream).outs).length ≤ (R.parseStream stream).1.length := by
  rw [(feed_init app stream).1]
  exact follows_count _ _ _ (follows_stream app hfin stream) hstop

/-- **invalid or conflicting framing or syntax is answered with 400 and nothing after it is processed** — one
    theorem over every rejection class `k` of the reference except `te-identity` (the known finding) -/
theorem bad_framing_gets_400_and_stop (app : App) (hfin : AtOnce app) (stream : Bytes) (k : R.BadKey)
    (hstop : (R.parseStream stream).2 = .bad k) (hk : k ≠ .teIdentity) :
    (feed app init stream).chan.closed = true ∧
    (delivered (feed app init stream).outs).length ≤ (R.parseStream stream).1.length ∧
    ((∀ r ∈ delivered (feed app init stream).outs, checkPersistence r.headers r.version = true) →
      ∃ o, (feed app init stream).outs = o ++ [.write badRequestBytes, .lose] ∧
        delivered o = delivered (feed app init stream).outs ∧
        (delivered (feed app init stream).outs).length = (R.parseStream stream).1.length) := by
  have hF := follows_stream app hfin stream
  rw [hstop] at hF
  obtain ⟨h1, h2⟩ := follows_bad _ k _ hF hk
  refine ⟨by rw [(feed_init app stream).2]; exact h1,
    no_extra_request_partial app hfin stream (Or.inr ⟨k, hstop, hk⟩), ?_⟩
  rw [(feed_init app stream).1]
  exact h2

/-- once the connection is closing, nothing that is delivered later is processed -/
theorem stopped_after_close (app : App) (s : St) (h : s.chan.closed = true) (more : Bytes) :
    step app s (.data more) = s := by
  simp [step, St.stopped, h]

/-! ### the exception, on a whole stream -/

/-- the application that answers every request at once with nothing -/
def nullApp : App := ⟨fun _ _ => ([], true), fun _ _ => 0, fun _ _ => false, fun _ _ => []⟩

theorem nullApp_atOnce : AtOnce nullApp := fun _ _ => rfl

/-- `POST / HTTP/1.1␍␊Transfer-Encoding: identity␍␊␍␊` -/
def teIdentityStream : Bytes :=
  [80, 79, 83, 84, 32, 47, 32, 72, 84, 84, 80, 47, 49, 46, 49, 13, 10,
   84, 114, 97, 110, 115, 102, 101, 114, 45, 69, 110, 99, 111, 100, 105, 110, 103, 58, 32,
   105, 100, 101, 110, 116, 105, 116, 121, 13, 10, 13, 10]

/-- **the statement fails here** (finding `te-identity`): the reference refuses the message, the channel hands it over -/
theorem te_identity_stream_counterexample :
    R.parseStream teIdentityStream = ([], .bad .teIdentity) ∧
    (delivered (feed nullApp init teIdentityStream).outs).length = 1 ∧
    (feed nullApp init teIdentityStream).chan.closed = false := by
  decide +kernel

/-! ### non-vacuity of the whole-stream theorems -/

/-- `POST /a HTTP/1.1␍␊Content-Length: 19␍␊␍␊GET /x HTTP/1.1␍␊␍␊` then
    `POST /b HTTP/1.1␍␊Transfer-Encoding: chunked␍␊␍␊3␍␊abc␍␊0␍␊␍␊` then `GET /c HTTP/1.1␍␊Content-Length: x␍␊␍␊` -/
def exStream : Bytes :=
  [80, 79, 83, 84, 32, 47, 97, 32, 72, 84, 84, 80, 47, 49, 46, 49, 13, 10,
   67, 111, 110, 116, 101, 110, 116, 45, 76, 101, 110, 103, 116, 104, 58, 32, 49, 57, 13, 10, 13, 10,
   71, 69, 84, 32, 47, 120, 32, 72, 84, 84, 80, 47, 49, 46, 49, 13, 10, 13, 10,
   80, 79, 83, 84, 32, 47, 98, 32, 72, 84, 84, 80, 47, 49, 46, 49, 13, 10,
   84, 114, 97, 110, 115, 102, 101, 114, 45, 69, 110, 99, 111, 100, 105, 110, 103, 58, 32, 99, 104, 117, 110, 107, 101, 100, 13, 10, 13, 10,
   51, 13, 10, 97, 98, 99, 13, 10, 48, 13, 10, 13, 10,
   71, 69, 84, 32, 47, 99, 32, 72, 84, 84, 80, 47, 49, 46, 49, 13, 10,
   67, 111, 110, 116, 101, 110, 116, 45, 76, 101, 110, 103, 116, 104, 58, 32, 120, 13, 10, 13, 10]

/-- the reference: two messages (the smuggled `GET /x` is the 19-octet body of the first, the second has the
    chunked content `abc`), then an invalid one (`cl-nonnumeric`) -/
example : ((R.parseStream exStream).1.map fun m => (m.target, m.body.length, m.start, m.stop)) =
      [([47, 97], 19, 0, 59), ([47, 98], 3, 59, 120)] ∧
    (R.parseStream exStream).2 = .bad .clNonnumeric := by decide +kernel

/-- so by the theorems the channel hands over exactly these two requests with these bodies, then writes 400 and closes -/
example : (delivered (feed nullApp init exStream).outs).length ≤ 2 ∧ (feed nullApp init exStream).chan.closed = true := by
  have h : (R.parseStream exStream).2 = .bad .clNonnumeric := by decide +kernel
  have hl : (R.parseStream exStream).1.length = 2 := by decide +kernel
  obtain ⟨h1, h2, _⟩ := bad_framing_gets_400_and_stop nullApp nullApp_atOnce exStream .clNonnumeric h (by decide)
  exact ⟨by rw [hl] at h2; exact h2, h1⟩

/-- `POST /a HTTP/1.1␍␊Content-Length: 19␍␊␍␊GET /x HTTP/1.1␍␊␍␊` then `GET /real HTTP/1.1␍␊␍␊` -/
def exStream2 : Bytes :=
  [80, 79, 83, 84, 32, 47, 97, 32, 72, 84, 84, 80, 47, 49, 46, 49, 13, 10,
   67, 111, 110, 116, 101, 110, 116, 45, 76, 101, 110, 103, 116, 104, 58, 32, 49, 57, 13, 10, 13, 10,
   71, 69, 84, 32, 47, 120, 32, 72, 84, 84, 80, 47, 49, 46, 49, 13, 10, 13, 10,
   71, 69, 84, 32, 47, 114, 101, 97, 108, 32, 72, 84, 84, 80, 47, 49, 46, 49, 13, 10, 13, 10]

/-- the hypotheses of `body_is_rfc_body` / `no_request_from_body_bytes` are met for k = 0, 1 on this stream: the
    channel hands over two requests, the reference reads two messages; the `GET /x` inside the first body is neither -/
example : ((delivered (feed nullApp init exStream2).outs).map fun r => (r.uri, r.body.length)) =
      [([47, 97], 19), ([47, 114, 101, 97, 108], 0)] ∧
    ((R.parseStream exStream2).1.map fun m => (m.target, m.body.length, m.start, m.stop)) =
      [([47, 97], 19, 0, 59), ([47, 114, 101, 97, 108], 0, 59, 81)] ∧
    (R.parseStream exStream2).2 = .done := by decide +kernel

/-! ## any segmentation (the class `segmented` of the check)

The whole-stream theorems above speak of ONE delivery.  That the observables do not depend on how the stream is cut
into deliveries is `TwistedProps.C18.http_seg_invariant` (every application, every list of deliveries, no hypothesis).
The two developments cannot be imported into one file: `TwistedProps.C22.SizeLine` (used here) and
`TwistedProps.C18.ChunkedStep` each generate the equation lemma `Twisted.Http.Chunked.handleChunkLength.eq_1`, and Lean
refuses an environment that contains it twice.  So the segmented statements are `_partial`: they take the CONCLUSION of
the C18 theorem as the hypothesis `SegInvariant app chunks`; what is missing is only its discharge by
`TwistedProps.C18.http_seg_invariant app chunks` (a one-line `simp only [obs]` once both files can be imported).
Full statements: the three theorems below without `hseg`. -/

/-- one delivery through the event loop of the driver is `feed` -/
theorem runOps_one_delivery (app : App) (stream : Bytes) :
    runOps app init [.data stream] = feed app init stream := by
  have hs : (init : St).stopped = false := rfl
  simp [runOps, step, hs]

/-- the conclusion of `TwistedProps.C18.http_seg_invariant` (proved there for EVERY application and EVERY list of
    deliveries), restricted to the observables of this property -/
abbrev SegInvariant (app : App) (chunks : List Bytes) : Prop :=
  delivered (runOps app init (chunks.map .data)).outs = delivered (runOps app init [.data chunks.flatten]).outs ∧
  written (runOps app init (chunks.map .data)).outs = written (runOps app init [.data chunks.flatten]).outs ∧
  (runOps app init (chunks.map .data)).chan.closed = (runOps app init [.data chunks.flatten]).chan.closed

/-- the hypothesis is not vacuous: it holds outright for a single delivery -/
theorem segInvariant_one (app : App) (stream : Bytes) : SegInvariant app [stream] := by
  simp [SegInvariant]

theorem body_is_rfc_body_segmented_partial (app : App) (hfin : AtOnce app) (chunks : List Bytes)
    (hseg : SegInvariant app chunks) (k : Nat) (r : Req) (m : R.Msg)
    (hr : (delivered (runOps app init (chunks.map .data)).outs)[k]? = some r)
    (hm : (R.parseStream chunks.flatten).1[k]? = some m) :
    r.method = m.method ∧ r.uri = m.target ∧ r.version = m.version ∧ r.body = m.body := by
  rw [hseg.1, runOps_one_delivery] at hr
  exact body_is_rfc_body app hfin chunks.flatten k r m hr hm

theorem no_request_from_body_bytes_segmented_partial (app : App) (hfin : AtOnce app) (chunks : List Bytes)
    (hseg : SegInvariant app chunks) (k : Nat) (r : Req) (m m1 : R.Msg)
    (hr : (delivered (runOps app init (chunks.map .data)).outs)[k + 1]? = some r)
    (hm : (R.parseStream chunks.flatten).1[k]? = some m) (hm1 : (R.parseStream chunks.flatten).1[k + 1]? = some m1) :
    (m1.start = m.stop ∨ (m1.start = m.stop + 2 ∧ R.startsCRLF (chunks.flatten.drop m.stop) = true)) ∧
    ∃ m' rest, R.parseOne (chunks.flatten.drop m1.start) = .ok (m', rest) ∧ m1.stop = m1.start + m'.stop ∧
      r.method = m'.method ∧ r.uri = m'.target ∧ r.version = m'.version ∧ r.body = m'.body := by
  rw [hseg.1, runOps_one_delivery] at hr
  exact no_request_from_body_bytes app hfin chunks.flatten k r m m1 hr hm hm1

theorem written_append (a b : List Out) : written (a ++ b) = written a ++ written b := by
  induction a with
  | nil => rfl
  | cons o t ih => cases o <;> simp [written, ih]

theorem bad_framing_gets_400_and_stop_segmented_partial (app : App) (hfin : AtOnce app) (chunks : List Bytes)
    (hseg : SegInvariant app chunks) (k : R.BadKey)
    (hstop : (R.parseStream chunks.flatten).2 = .bad k) (hk : k ≠ .teIdentity) :
    (runOps app init (chunks.map .data)).chan.closed = true ∧
    (delivered (runOps app init (chunks.map .data)).outs).length ≤ (R.parseStream chunks.flatten).1.length ∧
    ((∀ r ∈ delivered (runOps app init (chunks.map .data)).outs, checkPersistence r.headers r.version = true) →
      (∃ w, written (runOps app init (chunks.map .data)).outs = w ++ badRequestBytes) ∧
        (delivered (runOps app init (chunks.map .data)).outs).length = (R.parseStream chunks.flatten).1.length) := by
  obtain ⟨e1, e2, e3⟩ := hseg
  rw [runOps_one_delivery] at e1 e2 e3
  obtain ⟨h1, h2, h3⟩ := bad_framing_gets_400_and_stop app hfin chunks.flatten k hstop hk
  rw [e1, e2, e3]
  refine ⟨h1, h2, fun hp => ?_⟩
  obtain ⟨o, ho, _, hl⟩ := h3 hp
  refine ⟨⟨written o, ?_⟩, hl⟩
  rw [ho, written_append]
  simp [written]

/-- the three-delivery split `POST /a …19␍␊␍` | `␊GET /x HTTP/1.1␍␊␍␊GET /re` | `al HTTP/1.1␍␊␍␊` of `exStream2`
    (cut between the CR and the LF that end the head, and inside the second request line) -/
def exChunks2 : List Bytes := [exStream2.take 58, (exStream2.drop 58).take 27, exStream2.drop 85]

example : exChunks2.flatten = exStream2 ∧ SegInvariant nullApp exChunks2 ∧
    ((delivered (runOps nullApp init (exChunks2.map .data)).outs).map fun r => (r.uri, r.body.length)) =
      [([47, 97], 19), ([47, 114, 101, 97, 108], 0)] := by decide +kernel

end TwistedProps.C19
