import TwistedProps.C32.Basic
/-! C32 lemmas: `Name.encode` / `Name.decode` with the compression dictionary. -/
namespace TwistedProps.C32
open Twisted.Py Twisted.Dns.Wire

/-- a proper label: 1..63 bytes, no dot -/
def WfLabel (l : Bytes) : Prop := 1 ≤ l.length ∧ l.length ≤ 63 ∧ (46 : UInt8) ∉ l

/-- `b".".join(labels)` -/
def joinDots : List Bytes → Bytes
  | [] => []
  | [l] => l
  | l :: l' :: ls => l ++ 46 :: joinDots (l' :: ls)

def WfLabels (ls : List Bytes) : Prop := ∀ l ∈ ls, WfLabel l

theorem joinDots_cons_ne_nil {l : Bytes} {ls : List Bytes} (h : l ≠ []) : joinDots (l :: ls) ≠ [] := by
  cases ls <;> simp [joinDots, h]

theorem joinDots_length_cons (l m : Bytes) (ls : List Bytes) :
    (joinDots (l :: m :: ls)).length = l.length + 1 + (joinDots (m :: ls)).length := by
  simp [joinDots]; omega

/-! ### splitting at the first dot -/

theorem splitAtDot_none {l : Bytes} (h : (46 : UInt8) ∉ l) : splitAtDot l = none := by
  induction l with
  | nil => rfl
  | cons c cs ih =>
    have hc : c ≠ 46 := fun e => h (by simp [e])
    have hcs : (46 : UInt8) ∉ cs := fun e => h (by simp [e])
    simp [splitAtDot, hc, ih hcs]

theorem splitAtDot_append {l r : Bytes} (h : (46 : UInt8) ∉ l) : splitAtDot (l ++ 46 :: r) = some (l, r) := by
  induction l with
  | nil => simp [splitAtDot]
  | cons c cs ih =>
    have hc : c ≠ 46 := fun e => h (by simp [e])
    have hcs : (46 : UInt8) ∉ cs := fun e => h (by simp [e])
    simp [splitAtDot, hc, ih hcs]

theorem nextLabel_last {l : Bytes} (h : WfLabel l) : nextLabel (joinDots [l]) = (l, none) := by
  simp [nextLabel, joinDots, splitAtDot_none h.2.2]

theorem nextLabel_more {l m : Bytes} {ls : List Bytes} (h : WfLabel l) :
    nextLabel (joinDots (l :: m :: ls)) = (l, some (joinDots (m :: ls))) := by
  have hne : l ≠ [] := by intro e; have := h.1; simp [e] at this
  simp [nextLabel, joinDots, splitAtDot_append h.2.2, hne]

theorem append_dot_inj {l l' r r' : Bytes} (h : (46 : UInt8) ∉ l) (h' : (46 : UInt8) ∉ l')
    (e : l ++ 46 :: r = l' ++ 46 :: r') : l = l' ∧ r = r' := by
  have := splitAtDot_append (r := r) h
  rw [e, splitAtDot_append h'] at this
  simpa using this.symm

def DotFree (ls : List Bytes) : Prop := ∀ l ∈ ls, (46 : UInt8) ∉ l

theorem WfLabels.dotFree {ls : List Bytes} (h : WfLabels ls) : DotFree ls := fun l hl => (h l hl).2.2

theorem joinDots_inj' {ls ls' : List Bytes} (h : DotFree ls) (h' : DotFree ls') (hn : ls ≠ []) (hn' : ls' ≠ [])
    (e : joinDots ls = joinDots ls') : ls = ls' := by
  induction ls generalizing ls' with
  | nil => exact absurd rfl hn
  | cons l rest ih =>
    cases ls' with
    | nil => exact absurd rfl hn'
    | cons l' rest' =>
      have hl := h l (by simp)
      have hl' := h' l' (by simp)
      cases rest with
      | nil =>
        cases rest' with
        | nil => simpa [joinDots] using e
        | cons m' r' =>
          simp only [joinDots] at e
          exact absurd (e ▸ (by simp : (46 : UInt8) ∈ l' ++ 46 :: joinDots (m' :: r'))) hl
      | cons m r =>
        cases rest' with
        | nil =>
          simp only [joinDots] at e
          exact absurd (e ▸ (by simp : (46 : UInt8) ∈ l ++ 46 :: joinDots (m :: r))) hl'
        | cons m' r' =>
          simp only [joinDots] at e
          obtain ⟨e1, e2⟩ := append_dot_inj hl hl' e
          have := ih (ls' := m' :: r') (fun x hx => h x (by simp [hx])) (fun x hx => h' x (by simp [hx]))
            (by simp) (by simp) e2
          rw [e1, this]

theorem joinDots_inj {ls ls' : List Bytes} (h : WfLabels ls) (h' : WfLabels ls') (hn : ls ≠ []) (hn' : ls' ≠ [])
    (e : joinDots ls = joinDots ls') : ls = ls' := joinDots_inj' h.dotFree h'.dotFree hn hn' e

/-! ### what a decoder sees: validity of an encoded name inside a message -/

/-- `Valid M start o ls e`: at offset `o` of `M`, inside a label run that began at `start`, the
    labels `ls` are encoded; every compression pointer targets an offset *before the start of its
    own run* (so pointer chains strictly descend); `e` is the offset just past this run. -/
inductive Valid (M : Bytes) : Nat → Nat → List Bytes → Nat → Prop
  | root (start o : Nat) : M[o]? = some 0 → Valid M start o [] (o + 1)
  | label (start o : Nat) (l : Bytes) (ls : List Bytes) (e : Nat) :
      1 ≤ l.length → l.length ≤ 63 → Placed M o (UInt8.ofNat l.length :: l) →
      Valid M start (o + 1 + l.length) ls e → Valid M start o (l :: ls) e
  | ptr (start o t : Nat) (ls : List Bytes) (e : Nat) :
      t < start → t < 16384 → Placed M o (beN 2 (49152 + t)) →
      Valid M t t ls e → Valid M start o ls (o + 2)

theorem Valid.mono {M : Bytes} {start start' o : Nat} {ls : List Bytes} {e : Nat}
    (h : Valid M start o ls e) (hs : start ≤ start') : Valid M start' o ls e := by
  induction h generalizing start' with
  | root s o h0 => exact .root _ _ h0
  | label s o l ls e h1 h2 hp _ ih => exact .label _ _ _ _ _ h1 h2 hp (ih hs)
  | ptr s o t ls e ht ht2 hp hv _ => exact .ptr _ _ t _ _ (by omega) ht2 hp hv

/-- the accumulation `self.name = label` / `self.name + b"." + label` -/
def accJoin : Bytes → List Bytes → Bytes
  | acc, [] => acc
  | acc, l :: ls => accJoin (if acc = [] then l else acc ++ 46 :: l) ls

theorem accJoin_ne {acc : Bytes} (h : acc ≠ []) (ls : List Bytes) :
    accJoin acc ls = acc ++ ls.flatMap (fun l => 46 :: l) := by
  induction ls generalizing acc with
  | nil => simp [accJoin]
  | cons l ls ih =>
    simp only [accJoin, h, if_false]
    rw [ih (by simp)]
    simp

theorem joinDots_eq (l : Bytes) (ls : List Bytes) : joinDots (l :: ls) = l ++ ls.flatMap (fun l => 46 :: l) := by
  induction ls generalizing l with
  | nil => simp [joinDots]
  | cons m ls ih => simp [joinDots, ih]

theorem accJoin_nil {ls : List Bytes} (h : ∀ l ∈ ls, l ≠ []) : accJoin [] ls = joinDots ls := by
  cases ls with
  | nil => rfl
  | cons l ls =>
    simp only [accJoin, if_true]
    rw [accJoin_ne (h l (by simp)), joinDots_eq]

/-- **Decoding a valid name**: whatever was visited so far lies at or after the start of the
    current run, so the loop check never fires; the result is the accumulated labels and the
    saved position (or the end of the first run). -/
theorem decode_valid {M : Bytes} {start o : Nat} {ls : List Bytes} {e : Nat} (h : Valid M start o ls e) :
    ∀ (visited : List Nat) (acc : Bytes) (off : Nat), (∀ v ∈ visited, start ≤ v) →
      decodeNameLoop M o visited acc off = .ok (accJoin acc ls, if off > 0 then off else e) := by
  induction h with
  | root s o h0 =>
    intro visited acc off _
    have hlen : o < M.length := by
      rcases Nat.lt_or_ge o M.length with h | h
      · exact h
      · simp [List.getElem?_eq_none h] at h0
    rw [decodeNameLoop]
    have : M.getD o 0 = 0 := by simp [List.getD_eq_getElem?_getD, h0]
    simp only [this]
    rw [dif_pos (by omega), if_pos (by decide)]
    rfl
  | label s o l ls e h1 h2 hp _ ih =>
    intro visited acc off hv
    have hlen := hp.length_le
    simp only [List.length_cons] at hlen
    rw [decodeNameLoop]
    have hb : M.getD o 0 = UInt8.ofNat l.length := hp.getD
    have hn : (UInt8.ofNat l.length).toNat = l.length := by
      rw [UInt8.toNat_ofNat']; omega
    have hsl : slice M (o + 1) l.length = l := (Placed.cons_right hp).slice
    simp only [hb, hn]
    rw [dif_pos (by omega), if_neg (by omega), if_neg (by omega), dif_pos (by omega), hsl]
    rw [ih visited _ off hv]
    rfl
  | ptr s o t ls e ht ht2 hp _ ih =>
    intro visited acc off hv
    have hlen := hp.length_le
    rw [beN_length] at hlen
    have hbytes : beN 2 (49152 + t) = [UInt8.ofNat (192 + t / 256), UInt8.ofNat (t % 256)] := by
      simp only [beN, List.nil_append, List.cons_append]
      congr 2
      · congr 1; omega
      · congr 1; omega
    rw [hbytes] at hp
    have hb0 : M.getD o 0 = UInt8.ofNat (192 + t / 256) := hp.getD
    have hb1 : M.getD (o + 1) 0 = UInt8.ofNat (t % 256) := (Placed.cons_right hp).getD
    have hn0 : (UInt8.ofNat (192 + t / 256)).toNat = 192 + t / 256 := by
      rw [UInt8.toNat_ofNat']; omega
    have hn1 : (UInt8.ofNat (t % 256)).toNat = t % 256 := by
      rw [UInt8.toNat_ofNat']; omega
    rw [decodeNameLoop]
    simp only [hb0, hb1, hn0, hn1]
    have hoff : (192 + t / 256) % 64 * 256 + t % 256 = t := by omega
    have hnv : ¬ t ∈ visited := by
      intro hm; have := hv t hm; omega
    rw [dif_pos (by omega), if_neg (by omega), if_pos (by omega), if_pos (by omega)]
    simp only [hoff]
    rw [dif_neg (by simpa using hnv)]
    rw [ih (t :: visited) acc _ (by intro v hm; rcases List.mem_cons.mp hm with rfl | hm; exact Nat.le_refl _; have := hv v hm; omega)]
    congr 2
    by_cases h0 : off = 0
    · simp [h0]
    · have : off > 0 := by omega
      simp [h0, this]

/-- decoding a valid name from a fresh `Name.decode` call -/
theorem decodeName_valid {M : Bytes} {o : Nat} {ls : List Bytes} {e : Nat} (h : Valid M o o ls e)
    (hne : ∀ l ∈ ls, l ≠ []) : decodeName M o = .ok (joinDots ls, e) := by
  unfold decodeName
  rw [decode_valid h [] [] 0 (by simp), accJoin_nil hne]
  simp

/-! ### the encoder -/

theorem encodeNameAux_succ (fuel : Nat) (name : Bytes) (off : Nat) (comp : Bool) (d : Dict) :
    encodeNameAux (fuel + 1) name off comp d =
    if name = [] then .ok ([0], d)
    else
      match (if comp then d.lookup name else none) with
      | some t => .ok (beN 2 (49152 ||| t), d)
      | none =>
        let d1 := if comp ∧ off < maxPtr then (name, off) :: d else d
        if (nextLabel name).1.length > 63 then .error .value
        else
          match (nextLabel name).2 with
          | none => .ok (UInt8.ofNat (nextLabel name).1.length :: (nextLabel name).1 ++ [0], d1)
          | some r =>
            match encodeNameAux fuel r (off + 1 + (nextLabel name).1.length) comp d1 with
            | .error e => .error e
            | .ok (bs, d2) => .ok (UInt8.ofNat (nextLabel name).1.length :: (nextLabel name).1 ++ bs, d2) := by
  rw [encodeNameAux]
  rfl

theorem lookup_mem {d : Dict} {k : Bytes} {t : Nat} (h : d.lookup k = some t) : (k, t) ∈ d := by
  induction d with
  | nil => simp [List.lookup] at h
  | cons p d ih =>
    obtain ⟨k', t'⟩ := p
    simp only [List.lookup] at h
    by_cases hk : k = k'
    · subst hk
      simp at h
      simp [h]
    · have : (k == k') = false := by simpa using hk
      simp only [this] at h
      exact List.mem_cons_of_mem _ (ih h)

/-- a dictionary entry `k ↦ t` is sound in `M`: `t` fits a pointer and a decoder starting at `t`
    reads the name `k` -/
def EntryOK (M : Bytes) (k : Bytes) (t : Nat) : Prop :=
  t < 16384 ∧ ∃ ls e, WfLabels ls ∧ ls ≠ [] ∧ k = joinDots ls ∧ Valid M t t ls e

/-- every entry is sound and lies before `bound` -/
def DictOK (M : Bytes) (bound : Nat) (d : Dict) : Prop := ∀ k t, (k, t) ∈ d → t < bound ∧ EntryOK M k t

theorem DictOK.mono {M : Bytes} {b b' : Nat} {d : Dict} (h : DictOK M b d) (hb : b ≤ b') : DictOK M b' d :=
  fun k t hm => ⟨by have := (h k t hm).1; omega, (h k t hm).2⟩

theorem DictOK.nil (M : Bytes) (b : Nat) : DictOK M b [] := by intro k t h; cases h

theorem wfLabels_tail {l : Bytes} {ls : List Bytes} (h : WfLabels (l :: ls)) : WfLabels ls :=
  fun x hx => h x (by simp [hx])

/-- **Encoding a well-formed name** inside a run that began at `start`, with a dictionary whose
    entries are either sound and before `start`, or were added in this run (longer keys, never hit). -/
theorem encode_aux (M : Bytes) (ls : List Bytes) (hwf : WfLabels ls) :
    ∀ (fuel start off : Nat) (comp : Bool) (d : Dict) (B : Bytes) (d' : Dict),
      start ≤ off → (joinDots ls).length < fuel →
      encodeNameAux fuel (joinDots ls) off comp d = .ok (B, d') →
      Placed M off B →
      (∀ k t, (k, t) ∈ d → (joinDots ls).length < k.length ∨ (t < start ∧ EntryOK M k t)) →
      Valid M start off ls (off + B.length) ∧
        (∀ k t, (k, t) ∈ d' → (k, t) ∈ d ∨
          (EntryOK M k t ∧ start ≤ t ∧ t < off + B.length ∧ k.length ≤ (joinDots ls).length)) := by
  induction ls with
  | nil =>
    intro fuel start off comp d B d' _ hf henc hpl _
    cases fuel with
    | zero => simp at hf
    | succ fuel =>
      rw [encodeNameAux_succ] at henc
      simp only [joinDots, if_true] at henc
      cases henc
      exact ⟨.root _ _ hpl.getElem?, fun k t h => Or.inl h⟩
  | cons l rest ih =>
    intro fuel start off comp d B d' hso hf henc hpl hd
    have hl : WfLabel l := hwf l (by simp)
    have hlne : l ≠ [] := by intro e; have := hl.1; simp [e] at this
    have hname : joinDots (l :: rest) ≠ [] := joinDots_cons_ne_nil hlne
    cases fuel with
    | zero => simp at hf
    | succ fuel =>
      rw [encodeNameAux_succ, if_neg hname] at henc
      -- dictionary hit?
      cases hlk : (if comp = true then List.lookup (joinDots (l :: rest)) d else none) with
      | some t =>
        rw [hlk] at henc
        simp only at henc
        cases henc
        have hcomp : comp = true := by
          cases comp <;> simp at hlk ⊢
        rw [hcomp] at hlk
        simp only [if_true] at hlk
        have hm := lookup_mem hlk
        rcases hd _ _ hm with hlt | ⟨hts, ht14, ls2, e2, hwf2, hne2, hk2, hv2⟩
        · omega
        · have : ls2 = l :: rest := (joinDots_inj hwf2 hwf hne2 (by simp) hk2.symm)
          subst this
          rw [or_c000 t ht14] at hpl ⊢
          rw [beN_length]
          exact ⟨.ptr _ _ t _ _ hts ht14 hpl hv2, fun k t h => Or.inl h⟩
      | none =>
        rw [hlk] at henc
        simp only at henc
        -- the entry recorded for this name
        generalize hd1 : (if comp = true ∧ off < maxPtr then (joinDots (l :: rest), off) :: d else d) = d1 at henc
        have hd1mem : ∀ k t, (k, t) ∈ d1 → (k, t) ∈ d ∨ ((k, t) = (joinDots (l :: rest), off) ∧ off < 16384) := by
          intro k t hm
          rw [← hd1] at hm
          split at hm
          · rename_i hc
            rcases List.mem_cons.mp hm with h | h
            · exact Or.inr ⟨h, hc.2⟩
            · exact Or.inl h
          · exact Or.inl hm
        cases rest with
        | nil =>
          rw [nextLabel_last hl] at henc
          simp only at henc
          rw [if_neg (by have := hl.2.1; omega)] at henc
          cases henc
          have hroot : M[off + 1 + l.length]? = some 0 := by
            have h1 : Placed M off ((UInt8.ofNat l.length :: l) ++ [0]) := by simpa using hpl
            have := h1.append_right
            simp only [List.length_cons] at this
            have h2 := this.getElem?
            rw [show off + (l.length + 1) = off + 1 + l.length by omega] at h2
            exact h2
          have hlab : Placed M off (UInt8.ofNat l.length :: l) := by
            have h1 : Placed M off ((UInt8.ofNat l.length :: l) ++ [0]) := by simpa using hpl
            exact h1.append_left
          have hlen : (UInt8.ofNat l.length :: l ++ [0]).length = l.length + 2 := by simp
          have hv : Valid M start off [l] (off + (UInt8.ofNat l.length :: l ++ [0]).length) := by
            rw [hlen, show off + (l.length + 2) = (off + 1 + l.length) + 1 by omega]
            exact .label _ _ _ _ _ hl.1 hl.2.1 hlab (.root _ _ hroot)
          refine ⟨hv, ?_⟩
          intro k t hm
          rcases hd1mem k t hm with h | ⟨h, h14⟩
          · exact Or.inl h
          · cases h
            refine Or.inr ⟨⟨h14, [l], _, hwf, by simp, rfl, hv.mono hso⟩, hso, ?_, Nat.le_refl _⟩
            rw [hlen]; omega
        | cons m rest' =>
          rw [nextLabel_more hl] at henc
          simp only at henc
          rw [if_neg (by have := hl.2.1; omega)] at henc
          cases hrec : encodeNameAux fuel (joinDots (m :: rest')) (off + 1 + l.length) comp d1 with
          | error e => rw [hrec] at henc; cases henc
          | ok r =>
            obtain ⟨bs, d2⟩ := r
            rw [hrec] at henc
            simp only at henc
            cases henc
            have hjl := joinDots_length_cons l m rest'
            have hlab : Placed M off (UInt8.ofNat l.length :: l) := by
              have h1 : Placed M off ((UInt8.ofNat l.length :: l) ++ bs) := by simpa using hpl
              exact h1.append_left
            have hbs : Placed M (off + 1 + l.length) bs := by
              have h1 : Placed M off ((UInt8.ofNat l.length :: l) ++ bs) := by simpa using hpl
              have := h1.append_right
              simp only [List.length_cons] at this
              rw [show off + (l.length + 1) = off + 1 + l.length by omega] at this
              exact this
            have hd1' : ∀ k t, (k, t) ∈ d1 →
                (joinDots (m :: rest')).length < k.length ∨ (t < start ∧ EntryOK M k t) := by
              intro k t hm
              rcases hd1mem k t hm with h | ⟨h, _⟩
              · rcases hd k t h with h' | h'
                · left; omega
                · exact Or.inr h'
              · cases h; left; omega
            obtain ⟨hvrec, hdrec⟩ := ih (wfLabels_tail hwf) fuel start (off + 1 + l.length) comp d1 bs _
              (by omega) (by omega) hrec hbs hd1'
            have hlen : (UInt8.ofNat l.length :: l ++ bs).length = 1 + l.length + bs.length := by
              simp; omega
            have hv : Valid M start off (l :: m :: rest') (off + (UInt8.ofNat l.length :: l ++ bs).length) := by
              rw [hlen, show off + (1 + l.length + bs.length) = off + 1 + l.length + bs.length by omega]
              exact .label _ _ _ _ _ hl.1 hl.2.1 hlab hvrec
            refine ⟨hv, ?_⟩
            intro k t hm
            rcases hdrec k t hm with h | ⟨he, h1, h2, h3⟩
            · rcases hd1mem k t h with h | ⟨h, h14⟩
              · exact Or.inl h
              · cases h
                refine Or.inr ⟨⟨h14, l :: m :: rest', _, hwf, by simp, rfl, hv.mono hso⟩, hso, ?_, Nat.le_refl _⟩
                rw [hlen]; omega
            · refine Or.inr ⟨he, h1, ?_, ?_⟩
              · rw [hlen]; omega
              · omega

/-- `Name.encode` of a name made of 1..63-byte labels succeeds. -/
theorem encode_ok (ls : List Bytes) (hwf : WfLabels ls) :
    ∀ (fuel off : Nat) (comp : Bool) (d : Dict), (joinDots ls).length < fuel →
      ∃ B d', encodeNameAux fuel (joinDots ls) off comp d = .ok (B, d') := by
  induction ls with
  | nil =>
    intro fuel off comp d hf
    cases fuel with
    | zero => simp at hf
    | succ fuel =>
      refine ⟨[0], d, ?_⟩
      rw [encodeNameAux_succ]; simp [joinDots]
  | cons l rest ih =>
    intro fuel off comp d hf
    have hl : WfLabel l := hwf l (by simp)
    have hlne : l ≠ [] := by intro e; have := hl.1; simp [e] at this
    have hname : joinDots (l :: rest) ≠ [] := joinDots_cons_ne_nil hlne
    cases fuel with
    | zero => simp at hf
    | succ fuel =>
      rw [encodeNameAux_succ, if_neg hname]
      cases hlk : (if comp = true then List.lookup (joinDots (l :: rest)) d else none) with
      | some t => exact ⟨_, _, rfl⟩
      | none =>
        simp only
        cases rest with
        | nil =>
          rw [nextLabel_last hl]
          simp only
          rw [if_neg (by have := hl.2.1; omega)]
          exact ⟨_, _, rfl⟩
        | cons m rest' =>
          rw [nextLabel_more hl]
          simp only
          rw [if_neg (by have := hl.2.1; omega)]
          have hjl := joinDots_length_cons l m rest'
          obtain ⟨B, d', h⟩ := ih (wfLabels_tail hwf) fuel (off + 1 + l.length) comp
            (if comp = true ∧ off < maxPtr then (joinDots (l :: m :: rest'), off) :: d else d) (by omega)
          rw [h]
          exact ⟨_, _, rfl⟩


/-- **Name round trip**: a name made of 1..63-byte labels, written by `Name.encode` at any offset
    with any sound dictionary (with or without compression), placed in any message `M`, is read
    back by `Name.decode` — which ends just after the written bytes — and the dictionary stays
    sound. -/
theorem name_roundtrip (ls : List Bytes) (hwf : WfLabels ls) (off : Nat) (comp : Bool) (d d' : Dict) (B M : Bytes)
    (henc : encodeName (joinDots ls) off comp d = .ok (B, d')) (hpl : Placed M off B) (hd : DictOK M off d) :
    decodeName M off = .ok (joinDots ls, off + B.length) ∧ DictOK M (off + B.length) d' := by
  obtain ⟨hv, hd'⟩ := encode_aux M ls hwf _ off off comp d B d' (Nat.le_refl _) (Nat.lt_succ_self _) henc hpl
    (fun k t hm => Or.inr (hd k t hm))
  refine ⟨decodeName_valid hv (fun l hl e => by have := (hwf l hl).1; simp [e] at this), ?_⟩
  intro k t hm
  rcases hd' k t hm with h | ⟨he, _, h2, _⟩
  · exact ⟨by have := (hd k t h).1; omega, (hd k t h).2⟩
  · exact ⟨h2, he⟩

/-- names of 1..63-byte labels are always accepted by `Name.encode` -/
theorem name_encode_ok (ls : List Bytes) (hwf : WfLabels ls) (off : Nat) (comp : Bool) (d : Dict) :
    ∃ B d', encodeName (joinDots ls) off comp d = .ok (B, d') :=
  encode_ok ls hwf _ off comp d (Nat.lt_succ_self _)

/-- proper labels (non-empty, no dot) of any length -/
def ProperLabels (ls : List Bytes) : Prop := ∀ l ∈ ls, l ≠ [] ∧ (46 : UInt8) ∉ l

/-- keys of the dictionary are names of 1..63-byte labels (true of every dictionary the encoder builds) -/
def KeysWf (d : Dict) : Prop := ∀ k t, (k, t) ∈ d → ∃ ls, WfLabels ls ∧ ls ≠ [] ∧ k = joinDots ls

theorem DictOK.keysWf {M : Bytes} {b : Nat} {d : Dict} (h : DictOK M b d) : KeysWf d := by
  intro k t hm
  obtain ⟨_, _, ls, _, h1, h2, h3, _⟩ := h k t hm
  exact ⟨ls, h1, h2, h3⟩

/-- if `Name.encode` accepts a name of proper labels then every label has at most 63 bytes -/
theorem encode_accepts_only_wf (ls : List Bytes) (hp : ProperLabels ls) :
    ∀ (fuel off : Nat) (comp : Bool) (d : Dict) (B : Bytes) (d' : Dict), (joinDots ls).length < fuel →
      (∀ k t, (k, t) ∈ d → (joinDots ls).length < k.length ∨ ∃ ls', WfLabels ls' ∧ ls' ≠ [] ∧ k = joinDots ls') →
      encodeNameAux fuel (joinDots ls) off comp d = .ok (B, d') → WfLabels ls := by
  induction ls with
  | nil => intro _ _ _ _ _ _ _ _ _ l hl; cases hl
  | cons l rest ih =>
    intro fuel off comp d B d' hf hd henc
    have hl := hp l (by simp)
    have hname : joinDots (l :: rest) ≠ [] := joinDots_cons_ne_nil hl.1
    have hdf : DotFree (l :: rest) := fun x hx => (hp x hx).2
    cases fuel with
    | zero => simp at hf
    | succ fuel =>
      rw [encodeNameAux_succ, if_neg hname] at henc
      cases hlk : (if comp = true then List.lookup (joinDots (l :: rest)) d else none) with
      | some t =>
        have hcomp : comp = true := by cases comp <;> simp at hlk ⊢
        rw [hcomp] at hlk
        simp only [if_true] at hlk
        rcases hd _ _ (lookup_mem hlk) with h | ⟨ls', hwf', hne', hk'⟩
        · omega
        · have := joinDots_inj' hdf hwf'.dotFree (by simp) hne' hk'
          rw [this]; exact hwf'
      | none =>
        rw [hlk] at henc
        simp only at henc
        have hll : l.length ≥ 1 := by
          cases l with
          | nil => exact absurd rfl hl.1
          | cons _ _ => simp
        cases rest with
        | nil =>
          have hnl : nextLabel (joinDots [l]) = (l, none) := by
            simp [nextLabel, joinDots, splitAtDot_none hl.2]
          rw [hnl] at henc
          simp only at henc
          by_cases h63 : l.length > 63
          · rw [if_pos h63] at henc; cases henc
          · intro x hx
            simp only [List.mem_singleton] at hx
            subst hx
            exact ⟨hll, by omega, hl.2⟩
        | cons m rest' =>
          have hnl : nextLabel (joinDots (l :: m :: rest')) = (l, some (joinDots (m :: rest'))) := by
            simp [nextLabel, joinDots, splitAtDot_append hl.2, hl.1]
          rw [hnl] at henc
          simp only at henc
          by_cases h63 : l.length > 63
          · rw [if_pos h63] at henc; cases henc
          · rw [if_neg h63] at henc
            have hjl := joinDots_length_cons l m rest'
            cases hrec : encodeNameAux fuel (joinDots (m :: rest')) (off + 1 + l.length) comp
                (if comp = true ∧ off < maxPtr then (joinDots (l :: m :: rest'), off) :: d else d) with
            | error e => rw [hrec] at henc; cases henc
            | ok r =>
              have hrest := ih (fun x hx => hp x (by simp [hx])) fuel (off + 1 + l.length) comp _ r.1 r.2 (by omega)
                (by
                  intro k t hm
                  split at hm
                  · rcases List.mem_cons.mp hm with h | h
                    · cases h; left; omega
                    · rcases hd k t h with h' | h'
                      · left; omega
                      · exact Or.inr h'
                  · rcases hd k t hm with h' | h'
                    · left; omega
                    · exact Or.inr h') hrec
              intro x hx
              rcases List.mem_cons.mp hx with rfl | hx
              · exact ⟨hll, by omega, hl.2⟩
              · exact hrest x hx

/-- **Unrepresentable names are refused**: a name of proper labels one of which is longer than 63
    bytes makes `Name.encode` raise `ValueError` — at any offset, with or without compression,
    whatever (encoder-built) dictionary is in use; nothing is ever returned for it. -/
theorem unrepresentable_name_refused (ls : List Bytes) (hp : ProperLabels ls) (l : Bytes) (hl : l ∈ ls)
    (hlong : l.length > 63) (off : Nat) (comp : Bool) (d : Dict) (hd : KeysWf d) :
    encodeName (joinDots ls) off comp d = .error .value := by
  cases h : encodeName (joinDots ls) off comp d with
  | ok r =>
    have := encode_accepts_only_wf ls hp _ off comp d r.1 r.2 (Nat.lt_succ_self _)
      (fun k t hm => Or.inr (hd k t hm)) h
    have := (this l hl).2.1
    omega
  | error e =>
    -- the only exception `Name.encode` can raise is ValueError
    have hval : ∀ (fuel : Nat) (name : Bytes) (off : Nat) (comp : Bool) (d : Dict) (e : Err),
        encodeNameAux fuel name off comp d = .error e → e = .value := by
      intro fuel
      induction fuel with
      | zero => intro name off comp d e h; simp [encodeNameAux] at h
      | succ fuel ih =>
        intro name off comp d e h
        rw [encodeNameAux_succ] at h
        split at h
        · cases h
        · split at h
          · cases h
          · simp only at h
            split at h
            · cases h; rfl
            · split at h
              · cases h
              · split at h
                · rename_i e' he'
                  cases h
                  exact ih _ _ _ _ _ he'
                · cases h
    rw [hval _ _ _ _ _ _ h]

end TwistedProps.C32
