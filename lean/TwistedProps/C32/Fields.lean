import TwistedProps.C32.Wf
/-! C32 lemmas: every field kind of every `Record_*` decodes to what was encoded. -/
namespace TwistedProps.C32
open Twisted.Py Twisted.Dns.Wire

theorem readByte_placed {M : Bytes} {off : Nat} {b : UInt8} {B : Bytes} (h : Placed M off (b :: B)) :
    readByte M off = .ok (b.toNat, off + 1) := by
  have h1 : Placed M off ([b] ++ B) := by simpa using h
  have := readPrecisely_placed h1.append_left
  simp only [List.length_singleton] at this
  simp [readByte, this, pyOrd]

theorem readStr8_placed {M : Bytes} {off : Nat} {s : Bytes} (hs : s.length ≤ 255)
    (h : Placed M off (UInt8.ofNat s.length :: s)) : readStr8 M off = .ok (s, off + 1 + s.length) := by
  have hn : (UInt8.ofNat s.length).toNat = s.length := by rw [UInt8.toNat_ofNat']; omega
  simp [readStr8, readByte_placed h, hn, readPrecisely_placed (Placed.cons_right h)]

theorem beN_one (n : Nat) : beN 1 n = [UInt8.ofNat n] := by
  simp only [beN, List.nil_append]
  congr 1
  apply UInt8.toNat_inj.mp
  simp [UInt8.toNat_ofNat']

theorem txt_rt : ∀ (l : List Bytes) (B : Bytes), (∀ s ∈ l, s.length ≤ 255) → encStrs l = .ok B →
    ∀ (fuel : Nat) (M : Bytes) (off : Nat), Placed M off B → B.length ≤ fuel →
      txtLoop fuel B.length M off = .ok (l, off + B.length) := by
  intro l
  induction l with
  | nil =>
    intro B _ henc fuel M off _ _
    simp only [encStrs] at henc
    cases henc
    cases fuel <;> simp [txtLoop]
  | cons s l ih =>
    intro B hl henc fuel M off hpl hf
    simp only [encStrs] at henc
    have hs : s.length ≤ 255 := hl s (by simp)
    rw [packBE_ok (by simpa using (by omega : s.length < 256))] at henc
    cases hr : encStrs l with
    | error e => simp [hr] at henc
    | ok r =>
      simp only [hr] at henc
      cases henc
      rw [beN_one] at hpl hf ⊢
      have hlen : ([UInt8.ofNat s.length] ++ s ++ r).length = 1 + s.length + r.length := by simp; omega
      rw [hlen] at hf ⊢
      cases fuel with
      | zero => omega
      | succ fuel =>
        have h1 : Placed M off ((UInt8.ofNat s.length :: s) ++ r) := by simpa using hpl
        have h2 := h1.append_right
        simp only [List.length_cons] at h2
        rw [show off + (s.length + 1) = off + 1 + s.length by omega] at h2
        rw [txtLoop, if_neg (by omega), readStr8_placed hs h1.append_left]
        simp only
        rw [show 1 + s.length + r.length - (s.length + 1) = r.length by omega]
        rw [ih r (fun x hx => hl x (by simp [hx])) hr fuel M _ h2 (by omega)]
        simp only [Except.ok.injEq, Prod.mk.injEq, true_and]
        omega

theorem beN8_drop2 (n : Nat) (h : n < 281474976710656) : (beN 8 n).drop 2 = beN 6 n := by
  have := beN_add 2 6 n
  rw [show 2 + 6 = 8 from rfl] at this
  rw [this, List.drop_left' (beN_length 2 _)]

theorem toSigned32_pack (i : Int) (h1 : -2147483648 ≤ i) (h2 : i < 2147483648) :
    toSigned32 (i % 4294967296).toNat = i := by
  unfold toSigned32
  split <;> omega

/-- **One field**: what `Record_X.encode` wrote for a field is what `Record_X.decode` reads back. -/
theorem field_rt (k : Kind) (v : Val) (hwf : wfVal k v = true) (off : Nat) (d d' : Dict) (B M : Bytes) (rdlen : Nat)
    (henc : encField k v off d = .ok (B, d')) (hpl : Placed M off B) (hd : DictOK M off d)
    (hrest : ∀ j, k = .rest j → (rdlen : Int) - j = B.length) (htxt : k = .txts → rdlen = B.length) :
    decField k M off rdlen = .ok (v, off + B.length) ∧ DictOK M (off + B.length) d' := by
  have hmono : ∀ n, DictOK M (off + n) d := fun n => hd.mono (by omega)
  cases k with
  | u8 =>
    cases v with
    | nat n =>
      simp only [wfVal, decide_eq_true_eq] at hwf
      simp only [encField, packBE_ok (show n < 256 ^ 1 by omega), Except.map] at henc
      cases henc
      simp [decField, readBE_placed (show n < 256 ^ 1 by omega) hpl, Except.map, beN_length, hmono]
    | _ => simp [wfVal] at hwf
  | u16 =>
    cases v with
    | nat n =>
      simp only [wfVal, decide_eq_true_eq] at hwf
      simp only [encField, packBE_ok (show n < 256 ^ 2 by omega), Except.map] at henc
      cases henc
      simp [decField, readBE_placed (show n < 256 ^ 2 by omega) hpl, Except.map, beN_length, hmono]
    | _ => simp [wfVal] at hwf
  | u32 =>
    cases v with
    | nat n =>
      simp only [wfVal, decide_eq_true_eq] at hwf
      simp only [encField, packBE_ok (show n < 256 ^ 4 by omega), Except.map] at henc
      cases henc
      simp [decField, readBE_placed (show n < 256 ^ 4 by omega) hpl, Except.map, beN_length, hmono]
    | _ => simp [wfVal] at hwf
  | i32 =>
    cases v with
    | int i =>
      simp only [wfVal, Bool.and_eq_true, decide_eq_true_eq] at hwf
      simp only [encField, packI32, hwf.1, hwf.2, and_self, if_true, Except.map] at henc
      cases henc
      have hlt : (i % 4294967296).toNat < 256 ^ 4 := by omega
      simp [decField, readBE_placed hlt hpl, Except.map, beN_length, hmono, toSigned32_pack i hwf.1 hwf.2]
    | _ => simp [wfVal] at hwf
  | u48 =>
    cases v with
    | nat n =>
      simp only [wfVal, decide_eq_true_eq] at hwf
      simp only [encField, packBE_ok (show n < 256 ^ 8 by omega), Except.map] at henc
      cases henc
      rw [beN8_drop2 n hwf] at hpl ⊢
      simp [decField, readBE_placed (show n < 256 ^ 6 by omega) hpl, Except.map, beN_length, hmono]
    | _ => simp [wfVal] at hwf
  | raw w =>
    cases v with
    | bytes b =>
      simp only [wfVal, decide_eq_true_eq] at hwf
      simp only [encField] at henc
      cases henc
      have := readPrecisely_placed hpl
      rw [hwf] at this
      simp [decField, this, Except.map, hmono, hwf]
    | _ => simp [wfVal] at hwf
  | name comp =>
    cases v with
    | bytes n =>
      simp only [wfVal] at hwf
      obtain ⟨ls, hls, rfl⟩ := wfName_labels hwf
      simp only [encField] at henc
      cases comp with
      | true =>
        simp only [if_true] at henc
        obtain ⟨h1, h2⟩ := name_roundtrip ls hls off true d d' B M henc hpl hd
        simp [decField, h1, Except.map, h2]
      | false =>
        simp only [Bool.false_eq_true, if_false] at henc
        cases hn : encodeName (joinDots ls) off false d with
        | error e => simp [hn, Except.map] at henc
        | ok r =>
          simp only [hn, Except.map] at henc
          cases henc
          obtain ⟨h1, _⟩ := name_roundtrip ls hls off false d r.2 r.1 M hn hpl hd
          simp [decField, h1, Except.map, hmono]
    | _ => simp [wfVal] at hwf
  | charstr =>
    cases v with
    | bytes s =>
      simp only [wfVal, decide_eq_true_eq] at hwf
      simp only [encField, if_neg (show ¬ s.length > 255 by omega)] at henc
      cases henc
      simp only [decField, readStr8_placed hwf hpl, Except.map, List.length_cons]
      exact ⟨by congr 2; omega, hmono _⟩
    | _ => simp [wfVal] at hwf
  | bstr =>
    cases v with
    | bytes s =>
      simp only [wfVal, decide_eq_true_eq] at hwf
      simp only [encField, packBE_ok (show s.length < 256 ^ 1 by omega), Except.map, beN_one] at henc
      cases henc
      have hpl' : Placed M off (UInt8.ofNat s.length :: s) := by simpa using hpl
      simp only [decField, readStr8_placed hwf hpl', Except.map, List.length_append, List.length_singleton]
      exact ⟨by congr 2; omega, hmono _⟩
    | _ => simp [wfVal] at hwf
  | lp16 =>
    cases v with
    | bytes s =>
      simp only [wfVal, decide_eq_true_eq] at hwf
      simp only [encField, packBE_ok (show s.length < 256 ^ 2 by omega), Except.map] at henc
      cases henc
      have h2 := hpl.append_right
      rw [beN_length] at h2
      simp only [decField, readBE_placed (show s.length < 256 ^ 2 by omega) hpl.append_left,
        readPrecisely_placed h2, Except.map, List.length_append, beN_length]
      exact ⟨by congr 2; omega, hmono _⟩
    | _ => simp [wfVal] at hwf
  | rest j =>
    cases v with
    | bytes b =>
      simp only [encField] at henc
      cases henc
      have hr := hrest j rfl
      have hnn : ¬ ((rdlen : Int) - j < 0) := by omega
      have hto : ((rdlen : Int) - j).toNat = B.length := by omega
      simp [decField, readPreciselyInt, hnn, hto, readPrecisely_placed hpl, Except.map, hmono]
    | _ => simp [wfVal] at hwf
  | txts =>
    cases v with
    | strs l =>
      simp only [wfVal, List.all_eq_true, decide_eq_true_eq] at hwf
      simp only [encField] at henc
      cases he : encStrs l with
      | error e => simp [he, Except.map] at henc
      | ok r =>
        simp only [he, Except.map] at henc
        cases henc
        have hr := htxt rfl
        subst hr
        have := txt_rt l B hwf he B.length M off hpl (Nat.le_refl _)
        simp [decField, this, Except.map, hmono]
    | _ => simp [wfVal] at hwf
  | a6 =>
    cases v with
    | a6 p s pre =>
      simp only [wfVal, Bool.and_eq_true, decide_eq_true_eq] at hwf
      obtain ⟨⟨⟨hp, hs16⟩, hz⟩, hpre⟩ := hwf
      generalize hk : (128 - p + 7) / 8 = kk at hz
      have hk16 : kk ≤ 16 := by omega
      have ha6 : a6bytes p = (kk : Int) := by simp [a6bytes, hp, hk]
      have hsfx : (if a6bytes p ≠ 0 then lastBytes s (a6bytes p) else []) = s.drop (16 - kk) := by
        rw [ha6]
        by_cases h0 : kk = 0
        · subst h0; simp [hs16.symm]
        · have : ¬ ((kk : Int) = 0) := by omega
          simp only [ne_eq, this, not_false_eq_true, if_true, lastBytes]
          rw [if_neg (by omega), hs16]
          congr 1
      have hsl : (s.drop (16 - kk)).length = kk := by simp [hs16]; omega
      have hsuffix : zeros (16 - kk) ++ s.drop (16 - kk) = s := by
        rw [← hz]; exact List.take_append_drop _ _
      simp only [encField, packBE_ok (show p < 256 ^ 1 by omega), beN_one, hsfx] at henc
      generalize s.drop (16 - kk) = sx at henc hsl hsuffix
      have hb : ∀ rest, Placed M off (UInt8.ofNat p :: rest) → readBE M off 1 = .ok (p, off + 1) := by
        intro rest h
        have h1 : Placed M off ([UInt8.ofNat p] ++ rest) := by simpa using h
        exact readBE_placed (show p < 256 ^ 1 by omega) (by simpa [beN_one] using h1.append_left)
      by_cases hp0 : p = 0
      · subst hp0
        simp only [ne_eq, not_true_eq_false, if_false] at henc
        simp only [if_true] at hpre
        cases henc
        have hpre' : pre = [] := by simpa using hpre
        subst hpre'
        have hkk : kk = 16 := by omega
        subst hkk
        have h1 : Placed M off ([UInt8.ofNat 0] ++ sx) := by simpa using hpl
        have hrd := readPrecisely_placed h1.append_right
        simp only [List.length_singleton, hsl] at hrd
        have hsx : sx = s := by simpa [zeros] using hsuffix
        subst hsx
        simp only [decField, hb _ (by simpa using hpl), ha6]
        simp only [readPreciselyInt, Int.natCast_eq_zero, ne_eq, show ¬ (16 = 0) by decide, not_false_eq_true, if_true,
          show ¬ ((16 : Nat) : Int) < 0 by decide, if_false, Int.toNat_natCast, hrd, Except.map]
        simp only [show ((16 : Int) - ((16 : Nat) : Int)).toNat = 0 by decide, zeros, List.replicate_zero, List.nil_append]
        refine ⟨by simp [hsl], hd.mono (by omega)⟩
      · simp only [ne_eq, hp0, not_false_eq_true, if_true] at henc
        simp only [hp0, if_false] at hpre
        obtain ⟨ls, hls, rfl⟩ := wfName_labels hpre
        cases hn : encodeName (joinDots ls) (off + 1 + sx.length) false d with
        | error e => rw [hn] at henc; cases henc
        | ok r =>
          rw [hn] at henc
          simp only at henc
          cases henc
          have h1 : Placed M off ([UInt8.ofNat p] ++ (sx ++ r.1)) := by simpa using hpl
          have h2 := h1.append_right
          simp only [List.length_singleton] at h2
          have h3 := h2.append_right
          have hrd := readPrecisely_placed h2.append_left
          obtain ⟨hdn, _⟩ := name_roundtrip ls hls (off + 1 + sx.length) false d r.2 r.1 M hn h3 (hd.mono (by omega))
          rw [hsl] at hrd hdn
          simp only [decField, hb _ (by simpa using hpl), ha6]
          by_cases h0 : kk = 0
          · subst h0
            have hsx : sx = [] := List.length_eq_zero_iff.mp hsl
            subst hsx
            have : s = zeros 16 := by simpa using hsuffix.symm
            simp only [Int.natCast_eq_zero, ne_eq, not_true_eq_false, if_false, hp0, not_false_eq_true, if_true]
            simp only [Nat.add_zero] at hdn
            rw [hdn]
            simp only [Except.map, ← this]
            refine ⟨by simp; omega, hd.mono (by omega)⟩
          · have hne : ¬ ((kk : Int) = 0) := by omega
            have hnn : ¬ ((kk : Int) < 0) := by omega
            simp only [ne_eq, hne, not_false_eq_true, if_true, readPreciselyInt, hnn, if_false, Int.toNat_natCast,
              hrd, Except.map, hp0]
            rw [show (16 - (kk : Int)).toNat = 16 - kk by omega, hsuffix, hdn]
            refine ⟨by simp [hsl]; omega, hd.mono (by omega)⟩
    | _ => simp [wfVal] at hwf

end TwistedProps.C32
