import TwistedProps.C32.Fields
/-! C32 lemmas: field lists of every record type, `RRHeader`, `Query`. -/
namespace TwistedProps.C32
open Twisted.Py Twisted.Dns.Wire

def width : Kind → Option Nat
  | .u8 => some 1 | .u16 => some 2 | .u32 => some 4 | .i32 => some 4 | .u48 => some 6 | .raw n => some n
  | _ => none

def lenFreeK : Kind → Bool
  | .rest _ => false
  | .txts => false
  | _ => true

/-- the shape every `Record_*` field sequence has: nothing depends on RDLENGTH, or fixed-width
    fields are followed by one final `readPrecisely(length - <their total width>)` / TXT loop -/
def goodFrom : Nat → List Kind → Bool
  | _, [] => true
  | c, k :: ks =>
    match k with
    | .rest j => ks.isEmpty && j == c
    | .txts => ks.isEmpty && c == 0
    | k => match width k with
      | some w => goodFrom (c + w) ks
      | none => (k :: ks).all lenFreeK

theorem kindsOf_good (t : Nat) : goodFrom 0 (kindsOf t) = true := by
  unfold kindsOf schema
  split <;> decide

theorem encFields_cons (k : Kind) (ks : List Kind) (v : Val) (vs : List Val) (off : Nat) (d : Dict) :
    encFields (k :: ks) (v :: vs) off d =
      match encField k v off d with
      | .error e => .error e
      | .ok (b1, d1) =>
        match encFields ks vs (off + b1.length) d1 with
        | .error e => .error e
        | .ok (b2, d2) => .ok (b1 ++ b2, d2) := by
  rfl

theorem fields_step {k : Kind} {ks : List Kind} {vs : List Val} {off : Nat} {d d' : Dict} {B : Bytes}
    (hwf : wfVals (k :: ks) vs = true) (henc : encFields (k :: ks) vs off d = .ok (B, d')) :
    ∃ v vs' b1 d1 b2, vs = v :: vs' ∧ wfVal k v = true ∧ wfVals ks vs' = true ∧
      encField k v off d = .ok (b1, d1) ∧ encFields ks vs' (off + b1.length) d1 = .ok (b2, d') ∧ B = b1 ++ b2 := by
  cases vs with
  | nil => simp [wfVals] at hwf
  | cons v vs' =>
    simp only [wfVals, Bool.and_eq_true] at hwf
    rw [encFields_cons] at henc
    cases h1 : encField k v off d with
    | error e => simp [h1] at henc
    | ok r1 =>
      obtain ⟨b1, d1⟩ := r1
      simp only [h1] at henc
      cases h2 : encFields ks vs' (off + b1.length) d1 with
      | error e => simp [h2] at henc
      | ok r2 =>
        obtain ⟨b2, d2⟩ := r2
        simp only [h2] at henc
        cases henc
        exact ⟨v, vs', b1, d1, b2, rfl, hwf.1, hwf.2, h1, h2, rfl⟩

theorem decFields_of {k : Kind} {ks : List Kind} {M : Bytes} {off rdlen : Nat} {v : Val} {vs : List Val} {p p' : Nat}
    (h1 : decField k M off rdlen = .ok (v, p)) (h2 : decFields ks M p rdlen = .ok (vs, p')) :
    decFields (k :: ks) M off rdlen = .ok (v :: vs, p') := by
  simp [decFields, h1, h2]

/-- field sequences that do not look at RDLENGTH -/
theorem fields_free : ∀ (ks : List Kind) (vs : List Val) (off : Nat) (d d' : Dict) (B M : Bytes) (rdlen : Nat),
    ks.all lenFreeK = true → wfVals ks vs = true → encFields ks vs off d = .ok (B, d') → Placed M off B →
    DictOK M off d → decFields ks M off rdlen = .ok (vs, off + B.length) ∧ DictOK M (off + B.length) d' := by
  intro ks
  induction ks with
  | nil =>
    intro vs off d d' B M rdlen _ hwf henc _ hd
    cases vs with
    | nil => simp only [encFields] at henc; cases henc; simpa [decFields] using hd
    | cons _ _ => simp [wfVals] at hwf
  | cons k ks ih =>
    intro vs off d d' B M rdlen hfree hwf henc hpl hd
    obtain ⟨v, vs', b1, d1, b2, rfl, hwv, hwvs, he1, he2, rfl⟩ := fields_step hwf henc
    simp only [List.all_cons, Bool.and_eq_true] at hfree
    obtain ⟨h1, hd1⟩ := field_rt k v hwv off d d1 b1 M rdlen he1 hpl.append_left hd
      (by intro j hj; subst hj; simp [lenFreeK] at hfree) (by intro hj; subst hj; simp [lenFreeK] at hfree)
    obtain ⟨h2, hd2⟩ := ih vs' (off + b1.length) d1 d' b2 M rdlen hfree.2 hwvs he2 hpl.append_right hd1
    rw [List.length_append, ← Nat.add_assoc]
    exact ⟨decFields_of h1 h2, hd2⟩

theorem packBE_len {w n : Nat} {b : Bytes} (h : packBE w n = .ok b) : b.length = w := by
  rw [(packBE_inv h).2, beN_length]

theorem width_len {k : Kind} {w : Nat} (hw : width k = some w) {v : Val} (hwf : wfVal k v = true) {off : Nat}
    {d d' : Dict} {B : Bytes} (henc : encField k v off d = .ok (B, d')) : B.length = w := by
  cases k <;> simp only [width, Option.some.injEq, reduceCtorEq] at hw <;> subst hw <;>
    cases v <;> simp only [wfVal, Bool.false_eq_true] at hwf
  · rename_i n
    cases hp : packBE 1 n with
    | error e => simp [encField, hp, Except.map] at henc
    | ok b => simp only [encField, hp, Except.map] at henc; cases henc; exact packBE_len hp
  · rename_i n
    cases hp : packBE 2 n with
    | error e => simp [encField, hp, Except.map] at henc
    | ok b => simp only [encField, hp, Except.map] at henc; cases henc; exact packBE_len hp
  · rename_i n
    cases hp : packBE 4 n with
    | error e => simp [encField, hp, Except.map] at henc
    | ok b => simp only [encField, hp, Except.map] at henc; cases henc; exact packBE_len hp
  · simp only [Bool.and_eq_true, decide_eq_true_eq] at hwf
    simp only [encField, packI32, hwf.1, hwf.2, and_self, if_true, Except.map] at henc
    cases henc; rw [beN_length]
  · rename_i n
    simp only [decide_eq_true_eq] at hwf
    simp only [encField, packBE_ok (show n < 256 ^ 8 by omega), Except.map] at henc
    cases henc; rw [beN8_drop2 _ hwf, beN_length]
  · simp only [decide_eq_true_eq] at hwf
    simp only [encField] at henc
    cases henc; exact hwf

/-- **Field lists**: the RDATA of any record type, encoded at any offset with any sound dictionary,
    decodes — given its RDLENGTH — to the same values. -/
theorem fields_good : ∀ (ks : List Kind) (c : Nat) (vs : List Val) (off : Nat) (d d' : Dict) (B M : Bytes) (rdlen : Nat),
    goodFrom c ks = true → wfVals ks vs = true → encFields ks vs off d = .ok (B, d') → Placed M off B →
    DictOK M off d → rdlen = c + B.length →
    decFields ks M off rdlen = .ok (vs, off + B.length) ∧ DictOK M (off + B.length) d' := by
  intro ks
  induction ks with
  | nil =>
    intro c vs off d d' B M rdlen _ hwf henc _ hd _
    cases vs with
    | nil => simp only [encFields] at henc; cases henc; simpa [decFields] using hd
    | cons _ _ => simp [wfVals] at hwf
  | cons k ks ih =>
    intro c vs off d d' B M rdlen hg hwf henc hpl hd hr
    cases hw : width k with
    | some w =>
      have hg' : goodFrom (c + w) ks = true := by
        cases k <;> simp only [width, reduceCtorEq] at hw <;> simpa [goodFrom, width, hw] using hg
      obtain ⟨v, vs', b1, d1, b2, rfl, hwv, hwvs, he1, he2, rfl⟩ := fields_step hwf henc
      have hb1 := width_len hw hwv he1
      obtain ⟨h1, hd1⟩ := field_rt k v hwv off d d1 b1 M rdlen he1 hpl.append_left hd
        (by intro j hj; subst hj; simp [width] at hw) (by intro hj; subst hj; simp [width] at hw)
      obtain ⟨h2, hd2⟩ := ih (c + w) vs' (off + b1.length) d1 d' b2 M rdlen hg' hwvs he2 hpl.append_right hd1
        (by rw [hr, List.length_append]; omega)
      rw [List.length_append, ← Nat.add_assoc]
      exact ⟨decFields_of h1 h2, hd2⟩
    | none =>
      by_cases hfree : (k :: ks).all lenFreeK = true
      · exact fields_free (k :: ks) vs off d d' B M rdlen hfree hwf henc hpl hd
      · -- a final RDLENGTH-dependent field
        have hlast : ks = [] ∧ ((∃ j, k = .rest j ∧ j = c) ∨ (k = .txts ∧ c = 0)) := by
          cases k <;> simp only [width, reduceCtorEq] at hw <;>
            simp_all [goodFrom, width, lenFreeK]
        obtain ⟨rfl, hk⟩ := hlast
        obtain ⟨v, vs', b1, d1, b2, rfl, hwv, hwvs, he1, he2, rfl⟩ := fields_step hwf henc
        cases vs' with
        | cons _ _ => simp [wfVals] at hwvs
        | nil =>
          simp only [encFields] at he2
          cases he2
          simp only [List.append_nil] at hr hpl ⊢
          obtain ⟨h1, hd1⟩ := field_rt k v hwv off d d' b1 M rdlen he1 hpl hd
            (by
              intro j hj
              rcases hk with ⟨j', hj', hc⟩ | ⟨hj', _⟩
              · rw [hj'] at hj; cases hj; omega
              · rw [hj'] at hj; cases hj)
            (by
              intro hj
              rcases hk with ⟨j', hj', _⟩ | ⟨_, hc⟩
              · rw [hj'] at hj; cases hj
              · omega)
          exact ⟨decFields_of h1 (by simp [decFields]), hd1⟩

end TwistedProps.C32
