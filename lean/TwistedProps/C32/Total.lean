import TwistedProps.C32.Message
/-! C32 lemmas: when does `encode` succeed?  One pass over names / fields / records / sections
    giving, for items that are well-formed *except possibly for the length of name labels*
    (`loose…`), the exact outcome of the encoder:

    * no label over 63 bytes  → accepted, the dictionary keys stay well-formed names, and the size is
      bounded by a syntactic bound (`…Max`) — except that an RDATA of 65536 bytes or more makes
      `RRHeader.encode` raise `struct.error` when it packs RDLENGTH;
    * some label over 63 bytes → `ValueError`. -/
namespace TwistedProps.C32
open Twisted.Py Twisted.Dns.Wire

/-! ### names -/

/-- the name is `b""` or every `b"."`-separated label is non-empty (any length) -/
def properName (n : Bytes) : Bool := n.isEmpty || (splitDots n).all fun l => decide (1 ≤ l.length)

/-- some `b"."`-separated label has more than 63 bytes -/
def hasLong (n : Bytes) : Bool := (splitDots n).any fun l => decide (l.length > 63)

theorem wfName_iff (n : Bytes) : wfName n = true ↔ properName n = true ∧ hasLong n = false := by
  unfold wfName properName hasLong
  by_cases he : n = []
  · subst he; simp [splitDots]
  · have : n.isEmpty = false := by cases n <;> simp_all
    simp only [this, Bool.false_or, List.all_eq_true, Bool.and_eq_true, decide_eq_true_eq, List.any_eq_false,
      decide_eq_false_iff_not]
    constructor
    · intro h; exact ⟨fun l hl => (h l hl).1, fun l hl => by have := (h l hl).2; omega⟩
    · intro h l hl; exact ⟨h.1 l hl, by have := h.2 l hl; omega⟩

theorem properName_labels {n : Bytes} (h : properName n = true) : ∃ ls, ProperLabels ls ∧ n = joinDots ls ∧
    (hasLong n = true → ∃ l ∈ ls, l.length > 63) ∧ (hasLong n = false → WfLabels ls) := by
  unfold properName at h
  by_cases he : n = []
  · subst he
    refine ⟨[], (fun l hl => by cases hl), rfl, ?_, fun _ l hl => by cases hl⟩
    simp [hasLong, splitDots]
  · have : n.isEmpty = false := by cases n <;> simp_all
    simp only [this, Bool.false_or, List.all_eq_true, decide_eq_true_eq] at h
    refine ⟨splitDots n, ?_, (splitDots_spec n).1.symm, ?_, ?_⟩
    · intro l hl
      refine ⟨?_, (splitDots_spec n).2 l hl⟩
      intro e; have := h l hl; simp [e] at this
    · intro hl
      simpa [hasLong] using hl
    · intro hl l hm
      simp only [hasLong, List.any_eq_false, decide_eq_false_iff_not] at hl
      exact ⟨h l hm, by have := hl l hm; simp at this; omega, (splitDots_spec n).2 l hm⟩

/-- a name of 1..63-byte labels: the dictionary keys stay well-formed names and at most
    `len(name) + 2` bytes are written -/
theorem name_ok_spec (ls : List Bytes) (hwf : WfLabels ls) :
    ∀ (fuel off : Nat) (comp : Bool) (d : Dict) (B : Bytes) (d' : Dict), (joinDots ls).length < fuel →
      encodeNameAux fuel (joinDots ls) off comp d = .ok (B, d') → KeysWf d →
      KeysWf d' ∧ B.length ≤ (joinDots ls).length + 2 := by
  induction ls with
  | nil =>
    intro fuel off comp d B d' hf henc hd
    cases fuel with
    | zero => simp at hf
    | succ fuel =>
      rw [encodeNameAux_succ] at henc
      simp only [joinDots, if_true] at henc
      cases henc
      exact ⟨hd, by simp⟩
  | cons l rest ih =>
    intro fuel off comp d B d' hf henc hd
    have hl : WfLabel l := hwf l (by simp)
    have hlne : l ≠ [] := by intro e; have := hl.1; simp [e] at this
    have hname : joinDots (l :: rest) ≠ [] := joinDots_cons_ne_nil hlne
    cases fuel with
    | zero => simp at hf
    | succ fuel =>
      rw [encodeNameAux_succ, if_neg hname] at henc
      cases hlk : (if comp = true then List.lookup (joinDots (l :: rest)) d else none) with
      | some t =>
        rw [hlk] at henc
        simp only at henc
        cases henc
        exact ⟨hd, by rw [beN_length]; omega⟩
      | none =>
        rw [hlk] at henc
        simp only at henc
        have hd1 : KeysWf (if comp = true ∧ off < maxPtr then (joinDots (l :: rest), off) :: d else d) := by
          intro k t hm
          split at hm
          · rcases List.mem_cons.mp hm with h | h
            · cases h; exact ⟨l :: rest, hwf, by simp, rfl⟩
            · exact hd k t h
          · exact hd k t hm
        cases rest with
        | nil =>
          rw [nextLabel_last hl] at henc
          simp only at henc
          rw [if_neg (by have := hl.2.1; omega)] at henc
          cases henc
          exact ⟨hd1, by simp [joinDots]⟩
        | cons m rest' =>
          rw [nextLabel_more hl] at henc
          simp only at henc
          rw [if_neg (by have := hl.2.1; omega)] at henc
          have hjl := joinDots_length_cons l m rest'
          cases hrec : encodeNameAux fuel (joinDots (m :: rest')) (off + 1 + l.length) comp
              (if comp = true ∧ off < maxPtr then (joinDots (l :: m :: rest'), off) :: d else d) with
          | error e => rw [hrec] at henc; cases henc
          | ok r =>
            obtain ⟨bs, d2⟩ := r
            rw [hrec] at henc
            simp only at henc
            cases henc
            obtain ⟨h1, h2⟩ := ih (wfLabels_tail hwf) fuel _ comp _ bs _ (by omega) hrec hd1
            refine ⟨h1, ?_⟩
            simp only [List.length_cons, List.length_append]
            omega

/-- **`Name.encode`, exactly**: a name of non-empty labels is accepted iff no label exceeds 63 bytes;
    otherwise `ValueError`. -/
theorem name_total (n : Bytes) (hp : properName n = true) (off : Nat) (comp : Bool) (d : Dict) (hd : KeysWf d) :
    (hasLong n = false ∧ ∃ B d', encodeName n off comp d = .ok (B, d') ∧ KeysWf d' ∧ B.length ≤ n.length + 2) ∨
    (hasLong n = true ∧ encodeName n off comp d = .error .value) := by
  obtain ⟨ls, hpl, rfl, hlong, hshort⟩ := properName_labels hp
  cases hh : hasLong (joinDots ls) with
  | false =>
    left
    have hwf := hshort hh
    obtain ⟨B, d', henc⟩ := name_encode_ok ls hwf off comp d
    obtain ⟨h1, h2⟩ := name_ok_spec ls hwf _ off comp d B d' (Nat.lt_succ_self _) henc hd
    exact ⟨rfl, B, d', henc, h1, h2⟩
  | true =>
    right
    obtain ⟨l, hl, hll⟩ := hlong hh
    exact ⟨rfl, unrepresentable_name_refused ls hpl l hl hll off comp d hd⟩

/-! ### fields -/

/-- `wfVal` with the 63-byte bound on labels left out -/
def looseVal : Kind → Val → Bool
  | .name _, .bytes n => properName n
  | .a6, .a6 p s pre =>
    decide (p ≤ 128) && decide (s.length = 16) && decide (s.take (16 - (128 - p + 7) / 8) = zeros (16 - (128 - p + 7) / 8))
      && (if p = 0 then pre.isEmpty else properName pre)
  | k, v => wfVal k v

/-- the field holds a name with a label over 63 bytes -/
def valLong : Kind → Val → Bool
  | .name _, .bytes n => hasLong n
  | .a6, .a6 p _ pre => decide (p ≠ 0) && hasLong pre
  | _, _ => false

/-- a syntactic bound on the number of bytes a field's `encode` writes -/
def valMax : Kind → Val → Nat
  | .u8, _ => 1 | .u16, _ => 2 | .u32, _ => 4 | .i32, _ => 4 | .u48, _ => 6
  | .name _, .bytes n => n.length + 2
  | .charstr, .bytes s => s.length + 1
  | .bstr, .bytes s => s.length + 1
  | .lp16, .bytes s => s.length + 2
  | .raw _, .bytes b => b.length
  | .rest _, .bytes b => b.length
  | .txts, .strs l => (l.map fun s => s.length + 1).sum
  | .a6, .a6 _ _ pre => 17 + pre.length + 2
  | _, _ => 0

/-- a lower bound on the number of bytes a field's `encode` writes (exact unless the field holds a
    name, which compression may shrink to one or two bytes) -/
def valMin : Kind → Val → Nat
  | .name _, _ => 1
  | .a6, _ => 1
  | k, v => valMax k v

theorem encodeNameAux_pos (fuel : Nat) (name : Bytes) (off : Nat) (comp : Bool) (d : Dict) (B : Bytes) (d' : Dict)
    (h : encodeNameAux fuel name off comp d = .ok (B, d')) : 1 ≤ B.length := by
  cases fuel with
  | zero => simp only [encodeNameAux] at h; cases h; simp
  | succ fuel =>
    rw [encodeNameAux_succ] at h
    split at h
    · cases h; simp
    · split at h
      · cases h; simp [beN_length]
      · simp only at h
        split at h
        · cases h
        · split at h
          · cases h; simp
          · split at h
            · cases h
            · cases h; simp

theorem wfVal_loose {k : Kind} {v : Val} (h : wfVal k v = true) : looseVal k v = true ∧ valLong k v = false := by
  cases k <;> cases v <;> simp only [wfVal, Bool.false_eq_true] at h <;>
    simp only [looseVal, valLong, wfVal, h, and_self]
  · rename_i c n
    exact (wfName_iff n).mp h
  · rename_i p s pre
    simp only [Bool.and_eq_true, decide_eq_true_eq] at h
    obtain ⟨⟨⟨hp, hs⟩, hz⟩, hpre⟩ := h
    by_cases hp0 : p = 0
    · simp_all
    · simp only [hp0, if_false] at hpre
      have := (wfName_iff pre).mp hpre
      simp [hp, hs, hz, hp0, this.1, this.2]

theorem encStrs_ok : ∀ (l : List Bytes), (∀ s ∈ l, s.length ≤ 255) →
    ∃ B, encStrs l = .ok B ∧ B.length = (l.map fun s => s.length + 1).sum := by
  intro l
  induction l with
  | nil => intro _; exact ⟨[], rfl, rfl⟩
  | cons s l ih =>
    intro h
    obtain ⟨B, hB, hlen⟩ := ih (fun x hx => h x (by simp [hx]))
    have hs := h s (by simp)
    refine ⟨beN 1 s.length ++ s ++ B, ?_, ?_⟩
    · simp [encStrs, packBE_ok (show s.length < 256 ^ 1 by omega), hB]
    · simp [beN_length, hlen]; omega

/-- **One field, exactly**: a field in range except possibly for label lengths is accepted (bounded
    size, dictionary keys stay well-formed) iff it holds no label over 63 bytes; else `ValueError`. -/
theorem field_total (k : Kind) (v : Val) (hl : looseVal k v = true) (off : Nat) (d : Dict) (hd : KeysWf d) :
    (valLong k v = false ∧ ∃ B d', encField k v off d = .ok (B, d') ∧ KeysWf d' ∧ valMin k v ≤ B.length ∧ B.length ≤ valMax k v) ∨
    (valLong k v = true ∧ encField k v off d = .error .value) := by
  cases k with
  | u8 =>
    cases v with
    | nat n =>
      simp only [looseVal, wfVal, decide_eq_true_eq] at hl
      exact Or.inl ⟨rfl, beN 1 n, d, by simp [encField, packBE_ok (show n < 256 ^ 1 by omega), Except.map], hd, by simp [beN_length, valMin, valMax], by simp [beN_length, valMax]⟩
    | _ => simp [looseVal, wfVal] at hl
  | u16 =>
    cases v with
    | nat n =>
      simp only [looseVal, wfVal, decide_eq_true_eq] at hl
      exact Or.inl ⟨rfl, beN 2 n, d, by simp [encField, packBE_ok (show n < 256 ^ 2 by omega), Except.map], hd, by simp [beN_length, valMin, valMax], by simp [beN_length, valMax]⟩
    | _ => simp [looseVal, wfVal] at hl
  | u32 =>
    cases v with
    | nat n =>
      simp only [looseVal, wfVal, decide_eq_true_eq] at hl
      exact Or.inl ⟨rfl, beN 4 n, d, by simp [encField, packBE_ok (show n < 256 ^ 4 by omega), Except.map], hd, by simp [beN_length, valMin, valMax], by simp [beN_length, valMax]⟩
    | _ => simp [looseVal, wfVal] at hl
  | i32 =>
    cases v with
    | int i =>
      simp only [looseVal, wfVal, Bool.and_eq_true, decide_eq_true_eq] at hl
      exact Or.inl ⟨rfl, beN 4 (i % 4294967296).toNat, d, by simp [encField, packI32, hl.1, hl.2, Except.map], hd, by simp [beN_length, valMin, valMax], by simp [beN_length, valMax]⟩
    | _ => simp [looseVal, wfVal] at hl
  | u48 =>
    cases v with
    | nat n =>
      simp only [looseVal, wfVal, decide_eq_true_eq] at hl
      refine Or.inl ⟨rfl, (beN 8 n).drop 2, d, by simp [encField, packBE_ok (show n < 256 ^ 8 by omega), Except.map], hd, ?_⟩
      rw [beN8_drop2 n hl, beN_length]; simp [valMin, valMax]
    | _ => simp [looseVal, wfVal] at hl
  | raw w =>
    cases v with
    | bytes b => exact Or.inl ⟨rfl, b, d, by simp [encField], hd, by simp [valMin, valMax], by simp [valMax]⟩
    | _ => simp [looseVal, wfVal] at hl
  | name comp =>
    cases v with
    | bytes n =>
      simp only [looseVal] at hl
      rcases name_total n hl off comp d hd with ⟨h1, B, d', henc, hk, hlen⟩ | ⟨h1, herr⟩
      · left
        refine ⟨h1, ?_⟩
        cases comp with
        | true => exact ⟨B, d', by simp [encField, henc], hk, encodeNameAux_pos _ _ _ _ _ _ _ henc, hlen⟩
        | false => exact ⟨B, d, by simp [encField, henc, Except.map], hd, encodeNameAux_pos _ _ _ _ _ _ _ henc, hlen⟩
      · right
        refine ⟨h1, ?_⟩
        cases comp <;> simp [encField, herr, Except.map]
    | _ => simp [looseVal, wfVal] at hl
  | charstr =>
    cases v with
    | bytes s =>
      simp only [looseVal, wfVal, decide_eq_true_eq] at hl
      exact Or.inl ⟨rfl, UInt8.ofNat s.length :: s, d, by simp [encField, show ¬ s.length > 255 by omega], hd, by simp [valMin, valMax], by simp [valMax]⟩
    | _ => simp [looseVal, wfVal] at hl
  | bstr =>
    cases v with
    | bytes s =>
      simp only [looseVal, wfVal, decide_eq_true_eq] at hl
      exact Or.inl ⟨rfl, beN 1 s.length ++ s, d, by simp [encField, packBE_ok (show s.length < 256 ^ 1 by omega), Except.map], hd,
        by simp [beN_length, valMin, valMax]; omega, by simp [beN_length, valMax]; omega⟩
    | _ => simp [looseVal, wfVal] at hl
  | lp16 =>
    cases v with
    | bytes s =>
      simp only [looseVal, wfVal, decide_eq_true_eq] at hl
      exact Or.inl ⟨rfl, beN 2 s.length ++ s, d, by simp [encField, packBE_ok (show s.length < 256 ^ 2 by omega), Except.map], hd,
        by simp [beN_length, valMin, valMax]; omega, by simp [beN_length, valMax]; omega⟩
    | _ => simp [looseVal, wfVal] at hl
  | rest j =>
    cases v with
    | bytes b => exact Or.inl ⟨rfl, b, d, by simp [encField], hd, by simp [valMin, valMax], by simp [valMax]⟩
    | _ => simp [looseVal, wfVal] at hl
  | txts =>
    cases v with
    | strs l =>
      simp only [looseVal, wfVal, List.all_eq_true, decide_eq_true_eq] at hl
      obtain ⟨B, hB, hlen⟩ := encStrs_ok l hl
      exact Or.inl ⟨rfl, B, d, by simp [encField, hB, Except.map], hd, by simp [valMin, valMax, hlen], by simp [valMax, hlen]⟩
    | _ => simp [looseVal, wfVal] at hl
  | a6 =>
    cases v with
    | a6 p s pre =>
      simp only [looseVal, Bool.and_eq_true, decide_eq_true_eq] at hl
      obtain ⟨⟨⟨hp, hs16⟩, _⟩, hpre⟩ := hl
      have hsfx : (if a6bytes p ≠ 0 then lastBytes s (a6bytes p) else []).length ≤ 16 := by
        split
        · unfold lastBytes; split <;> simp <;> omega
        · simp
      have hE : encField .a6 (.a6 p s pre) off d =
          (if p ≠ 0 then
            match encodeName pre (off + 1 + (if a6bytes p ≠ 0 then lastBytes s (a6bytes p) else []).length) false d with
            | .error e => .error e
            | .ok (nb, _) => .ok (beN 1 p ++ (if a6bytes p ≠ 0 then lastBytes s (a6bytes p) else []) ++ nb, d)
           else .ok (beN 1 p ++ (if a6bytes p ≠ 0 then lastBytes s (a6bytes p) else []), d)) := by
        simp only [encField, packBE_ok (show p < 256 ^ 1 by omega)]
        rfl
      rw [hE]
      generalize (if a6bytes p ≠ 0 then lastBytes s (a6bytes p) else []) = sx at hsfx ⊢
      by_cases hp0 : p = 0
      · subst hp0
        left
        refine ⟨by simp [valLong], beN 1 0 ++ sx, d, by simp, hd, by simp [beN_length, valMin], ?_⟩
        simp [beN_length, valMax]; omega
      · simp only [hp0, if_false] at hpre
        rcases name_total pre hpre (off + 1 + sx.length) false d hd with ⟨h1, B, d', henc, _, hlen⟩ | ⟨h1, herr⟩
        · left
          refine ⟨by simp [valLong, h1], beN 1 p ++ sx ++ B, d, by simp [hp0, henc], hd, by simp [beN_length, valMin], ?_⟩
          simp [beN_length, valMax]; omega
        · right
          exact ⟨by simp [valLong, hp0, h1], by simp [hp0, herr]⟩
    | _ => simp [looseVal, wfVal] at hl

/-! ### field lists -/

def looseVals : List Kind → List Val → Bool
  | [], [] => true
  | k :: ks, v :: vs => looseVal k v && looseVals ks vs
  | _, _ => false

def valsLong : List Kind → List Val → Bool
  | k :: ks, v :: vs => valLong k v || valsLong ks vs
  | _, _ => false

/-- a syntactic bound on the size of an RDATA: names counted uncompressed (`len + 2`) -/
def valsMax : List Kind → List Val → Nat
  | k :: ks, v :: vs => valMax k v + valsMax ks vs
  | _, _ => 0

theorem wfVals_loose : ∀ (ks : List Kind) (vs : List Val), wfVals ks vs = true →
    looseVals ks vs = true ∧ valsLong ks vs = false := by
  intro ks
  induction ks with
  | nil => intro vs h; cases vs <;> simp_all [wfVals, looseVals, valsLong]
  | cons k ks ih =>
    intro vs h
    cases vs with
    | nil => simp [wfVals] at h
    | cons v vs =>
      simp only [wfVals, Bool.and_eq_true] at h
      obtain ⟨h1, h2⟩ := wfVal_loose h.1
      obtain ⟨h3, h4⟩ := ih vs h.2
      simp [looseVals, valsLong, h1, h2, h3, h4]

/-- lower bound on the size of an RDATA: names counted as one byte -/
def valsMin : List Kind → List Val → Nat
  | k :: ks, v :: vs => valMin k v + valsMin ks vs
  | _, _ => 0

/-- **An RDATA, exactly** -/
theorem fields_total : ∀ (ks : List Kind) (vs : List Val), looseVals ks vs = true → ∀ (off : Nat) (d : Dict), KeysWf d →
    (valsLong ks vs = false ∧ ∃ B d', encFields ks vs off d = .ok (B, d') ∧ KeysWf d' ∧ valsMin ks vs ≤ B.length ∧ B.length ≤ valsMax ks vs) ∨
    (valsLong ks vs = true ∧ encFields ks vs off d = .error .value) := by
  intro ks
  induction ks with
  | nil =>
    intro vs hl off d hd
    cases vs with
    | nil => exact Or.inl ⟨rfl, [], d, rfl, hd, by simp [valsMin], by simp⟩
    | cons _ _ => simp [looseVals] at hl
  | cons k ks ih =>
    intro vs hl off d hd
    cases vs with
    | nil => simp [looseVals] at hl
    | cons v vs =>
      simp only [looseVals, Bool.and_eq_true] at hl
      rcases field_total k v hl.1 off d hd with ⟨h1, B1, d1, he1, hk1, hm1, hl1⟩ | ⟨h1, herr⟩
      · rcases ih vs hl.2 (off + B1.length) d1 hk1 with ⟨h2, B2, d2, he2, hk2, hm2, hl2⟩ | ⟨h2, herr⟩
        · exact Or.inl ⟨by simp [valsLong, h1, h2], B1 ++ B2, d2, by simp [encFields_cons, he1, he2], hk2,
            by simp [valsMin]; omega, by simp [valsMax]; omega⟩
        · exact Or.inr ⟨by simp [valsLong, h2], by simp [encFields_cons, he1, herr]⟩
      · exact Or.inr ⟨by simp [valsLong, h1], by simp [encFields_cons, herr]⟩

/-! ### records and questions -/

/-- `wfRR` with the 63-byte bound on labels left out -/
def looseRR (r : RR) : Bool :=
  properName r.name && decide (r.type < 65536) && decide (r.cls < 65536) && decide (r.ttl < 4294967296) &&
  match r.payload with
  | none => false
  | some p => (p.unknown == (schema r.type).isNone) && looseVals (kindsOf r.type) p.vals

/-- the owner name or a name in the RDATA has a label over 63 bytes -/
def rrLong (r : RR) : Bool :=
  hasLong r.name || match r.payload with
    | none => false
    | some p => valsLong (kindsOf r.type) p.vals

/-- syntactic bound on the size of the record's RDATA (names counted uncompressed) -/
def rdataMax (r : RR) : Nat :=
  match r.payload with
  | none => 0
  | some p => valsMax (kindsOf r.type) p.vals

/-- lower bound on the size of the record's RDATA (every name counted as one byte; exact when the
    RDATA holds no name) -/
def rdataMin (r : RR) : Nat :=
  match r.payload with
  | none => 0
  | some p => valsMin (kindsOf r.type) p.vals

def looseQuery (q : Query) : Bool := properName q.name && decide (q.type < 65536) && decide (q.cls < 65536)

theorem wfRR_loose {r : RR} (h : wfRR r = true) : looseRR r = true ∧ rrLong r = false := by
  obtain ⟨name, type, cls, ttl, payload⟩ := r
  simp only [wfRR, Bool.and_eq_true, decide_eq_true_eq] at h
  obtain ⟨⟨⟨⟨hn, ht⟩, hc⟩, httl⟩, hp⟩ := h
  obtain ⟨hn1, hn2⟩ := (wfName_iff name).mp hn
  cases payload with
  | none => simp at hp
  | some p =>
    simp only [Bool.and_eq_true] at hp
    obtain ⟨h3, h4⟩ := wfVals_loose _ _ hp.2
    simp [looseRR, rrLong, hn1, hn2, ht, hc, httl, hp.1, h3, h4]

theorem wfQuery_loose {q : Query} (h : wfQuery q = true) : looseQuery q = true ∧ hasLong q.name = false := by
  simp only [wfQuery, Bool.and_eq_true, decide_eq_true_eq] at h
  obtain ⟨hn1, hn2⟩ := (wfName_iff q.name).mp h.1.1
  simp [looseQuery, hn1, hn2, h.1.2, h.2]

/-- the three ways an `encode` of records can end: accepted (no long label, no RDATA that is
    certainly too big; the dictionary keys stay well-formed), `ValueError` (a label over 63 bytes), `struct.error` (an RDATA of 64 KiB or more) -/
def Outcome (long : Bool) (big surelyBig : Prop) (res : Except Err (Bytes × Dict)) : Prop :=
  (long = false ∧ ¬ surelyBig ∧ ∃ B d', res = .ok (B, d') ∧ KeysWf d') ∨ (long = true ∧ res = .error .value) ∨
  (res = .error .struct ∧ big)

/-- **`RRHeader.encode`, exactly** -/
theorem rr_total (r : RR) (hl : looseRR r = true) (off : Nat) (d : Dict) (hd : KeysWf d) :
    Outcome (rrLong r) (65536 ≤ rdataMax r) (65536 ≤ rdataMin r) (encodeRR r off d) := by
  obtain ⟨name, type, cls, ttl, payload⟩ := r
  simp only [looseRR, Bool.and_eq_true, decide_eq_true_eq] at hl
  obtain ⟨⟨⟨⟨hn, ht⟩, hc⟩, httl⟩, hp⟩ := hl
  cases payload with
  | none => simp at hp
  | some p =>
    simp only [Bool.and_eq_true] at hp
    obtain ⟨hu, hv⟩ := hp
    simp only [encodeRR, rrLong, rdataMax, rdataMin, packBE_ok (show type < 256 ^ 2 by omega), packBE_ok (show cls < 256 ^ 2 by omega),
      packBE_ok (show ttl < 256 ^ 4 by omega), payloadKinds_wf hu]
    rcases name_total name hn off true d hd with ⟨h1, nb, d1, henc, hk1, _⟩ | ⟨h1, herr⟩
    · simp only [henc, h1, Bool.false_or]
      rcases fields_total _ _ hv (off + nb.length + 10) d1 hk1 with ⟨h2, pb, d2, he2, hk2, hm2, hl2⟩ | ⟨h2, herr⟩
      · simp only [he2, h2]
        by_cases hsz : pb.length < 65536
        · left
          exact ⟨rfl, by omega, nb ++ beN 2 type ++ beN 2 cls ++ beN 4 ttl ++ beN 2 pb.length ++ pb, d2,
            by simp [packBE_ok (show pb.length < 256 ^ 2 by omega)], hk2⟩
        · right; right
          exact ⟨by simp [packBE, show ¬ pb.length < 256 ^ 2 by omega], by omega⟩
      · right; left
        simp [herr, h2]
    · right; left
      simp [herr, h1]

theorem query_total (q : Query) (hl : looseQuery q = true) (off : Nat) (d : Dict) (hd : KeysWf d) :
    Outcome (hasLong q.name) False False (encodeQuery q off d) := by
  simp only [looseQuery, Bool.and_eq_true, decide_eq_true_eq] at hl
  obtain ⟨⟨hn, ht⟩, hc⟩ := hl
  simp only [encodeQuery, packBE_ok (show q.type < 256 ^ 2 by omega), packBE_ok (show q.cls < 256 ^ 2 by omega)]
  rcases name_total q.name hn off true d hd with ⟨h1, nb, d1, henc, hk1, _⟩ | ⟨h1, herr⟩
  · left; exact ⟨h1, not_false, nb ++ beN 2 q.type ++ beN 2 q.cls, d1, by simp [henc], hk1⟩
  · right; left; exact ⟨h1, by simp [herr]⟩

/-! ### sections -/

theorem queries_total : ∀ (qs : List Query), (∀ q ∈ qs, looseQuery q = true) → ∀ (off : Nat) (d : Dict), KeysWf d →
    Outcome (qs.any fun q => hasLong q.name) False False (encodeQueries qs off d) := by
  intro qs
  induction qs with
  | nil => intro _ off d hd; exact Or.inl ⟨rfl, not_false, [], d, rfl, hd⟩
  | cons q qs ih =>
    intro hl off d hd
    rcases query_total q (hl q (by simp)) off d hd with ⟨h1, _, B1, d1, he1, hk1⟩ | ⟨h1, herr⟩ | ⟨_, hf⟩
    · rcases ih (fun x hx => hl x (by simp [hx])) (off + B1.length) d1 hk1 with
        ⟨h2, _, B2, d2, he2, hk2⟩ | ⟨h2, herr⟩ | ⟨_, hf⟩
      · exact Or.inl ⟨by simp only [List.any_cons, h1, h2, Bool.or_self], not_false, B1 ++ B2, d2,
          by simp [encodeQueries, he1, he2], hk2⟩
      · exact Or.inr (Or.inl ⟨by simp only [List.any_cons, h2, Bool.or_true], by simp [encodeQueries, he1, herr]⟩)
      · exact hf.elim
    · exact Or.inr (Or.inl ⟨by simp only [List.any_cons, h1, Bool.true_or], by simp [encodeQueries, herr]⟩)
    · exact hf.elim

theorem rrs_total : ∀ (rs : List RR), (∀ r ∈ rs, looseRR r = true) → ∀ (off : Nat) (d : Dict), KeysWf d →
    Outcome (rs.any rrLong) (∃ r ∈ rs, 65536 ≤ rdataMax r) (∃ r ∈ rs, 65536 ≤ rdataMin r) (encodeRRs rs off d) := by
  intro rs
  induction rs with
  | nil => intro _ off d hd; exact Or.inl ⟨rfl, by simp, [], d, rfl, hd⟩
  | cons r rs ih =>
    intro hl off d hd
    rcases rr_total r (hl r (by simp)) off d hd with ⟨h1, hs1, B1, d1, he1, hk1⟩ | ⟨h1, herr⟩ | ⟨herr, hb⟩
    · rcases ih (fun x hx => hl x (by simp [hx])) (off + B1.length) d1 hk1 with
        ⟨h2, hs2, B2, d2, he2, hk2⟩ | ⟨h2, herr⟩ | ⟨herr, r', hr', hb⟩
      · refine Or.inl ⟨by simp only [List.any_cons, h1, h2, Bool.or_self], ?_, B1 ++ B2, d2,
          by simp [encodeRRs, he1, he2], hk2⟩
        rintro ⟨x, hx, hbx⟩
        rcases List.mem_cons.mp hx with rfl | hx
        · exact hs1 hbx
        · exact hs2 ⟨x, hx, hbx⟩
      · exact Or.inr (Or.inl ⟨by simp only [List.any_cons, h2, Bool.or_true], by simp [encodeRRs, he1, herr]⟩)
      · exact Or.inr (Or.inr ⟨by simp [encodeRRs, he1, herr], r', by simp [hr'], hb⟩)
    · exact Or.inr (Or.inl ⟨by simp only [List.any_cons, h1, Bool.true_or], by simp [encodeRRs, herr]⟩)
    · exact Or.inr (Or.inr ⟨by simp [encodeRRs, herr], r, by simp, hb⟩)

end TwistedProps.C32
