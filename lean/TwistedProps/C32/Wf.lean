import TwistedProps.C32.Name
/-! C32: decidable well-formedness ("supported types, in-range field values, names of 1..63-byte labels"). -/
namespace TwistedProps.C32
open Twisted.Py Twisted.Dns.Wire

/-- Python `name.split(b".")` -/
def splitDots : Bytes → List Bytes
  | [] => [[]]
  | c :: cs =>
    if c = 46 then [] :: splitDots cs
    else match splitDots cs with
      | [] => [[c]]
      | l :: ls => (c :: l) :: ls

theorem splitDots_ne_nil (n : Bytes) : splitDots n ≠ [] := by
  induction n with
  | nil => simp [splitDots]
  | cons c cs ih =>
    simp only [splitDots]
    split
    · simp
    · split <;> simp

theorem splitDots_spec (n : Bytes) : joinDots (splitDots n) = n ∧ DotFree (splitDots n) := by
  induction n with
  | nil => exact ⟨rfl, by intro l hl; simp [splitDots] at hl; simp [hl]⟩
  | cons c cs ih =>
    simp only [splitDots]
    split
    · rename_i hc
      subst hc
      refine ⟨?_, ?_⟩
      · cases h : splitDots cs with
        | nil => exact absurd h (splitDots_ne_nil cs)
        | cons m ms =>
          simp only [joinDots, List.nil_append]
          rw [← h, ih.1]
      · intro l hl
        rcases List.mem_cons.mp hl with rfl | hl
        · simp
        · exact ih.2 l hl
    · rename_i hc
      cases h : splitDots cs with
      | nil => exact absurd h (splitDots_ne_nil cs)
      | cons m ms =>
        simp only
        rw [h] at ih
        refine ⟨?_, ?_⟩
        · cases ms with
          | nil => simp only [joinDots] at ih ⊢; rw [ih.1]
          | cons m' ms' => simp only [joinDots, List.cons_append] at ih ⊢; rw [ih.1]
        · intro l hl
          rcases List.mem_cons.mp hl with rfl | hl
          · have := ih.2 m (by simp)
            intro hm
            rcases List.mem_cons.mp hm with h | h
            · exact hc h.symm
            · exact this h
          · exact ih.2 l (by simp [hl])

/-- the name is `b""` (root) or every `b"."`-separated label has 1..63 bytes -/
def wfName (n : Bytes) : Bool := n.isEmpty || (splitDots n).all fun l => decide (1 ≤ l.length) && decide (l.length ≤ 63)

theorem wfName_labels {n : Bytes} (h : wfName n = true) : ∃ ls, WfLabels ls ∧ n = joinDots ls := by
  unfold wfName at h
  rcases Bool.or_eq_true_iff.mp h with h | h
  · refine ⟨[], (fun l hl => by cases hl), ?_⟩
    simpa [joinDots] using h
  · refine ⟨splitDots n, ?_, (splitDots_spec n).1.symm⟩
    intro l hl
    have := List.all_eq_true.mp h l hl
    simp only [Bool.and_eq_true, decide_eq_true_eq] at this
    exact ⟨this.1, this.2, (splitDots_spec n).2 l hl⟩

/-- in-range value for a field kind -/
def wfVal : Kind → Val → Bool
  | .u8, .nat n => decide (n < 256)
  | .u16, .nat n => decide (n < 65536)
  | .u32, .nat n => decide (n < 4294967296)
  | .u48, .nat n => decide (n < 281474976710656)
  | .i32, .int i => decide (-2147483648 ≤ i) && decide (i < 2147483648)
  | .raw k, .bytes b => decide (b.length = k)
  | .name _, .bytes n => wfName n
  | .charstr, .bytes s => decide (s.length ≤ 255)
  | .bstr, .bytes s => decide (s.length ≤ 255)
  | .lp16, .bytes s => decide (s.length ≤ 65535)
  | .rest _, .bytes _ => true
  | .txts, .strs l => l.all fun s => decide (s.length ≤ 255)
  | .a6, .a6 p s pre =>
    decide (p ≤ 128) && decide (s.length = 16) && decide (s.take (16 - (128 - p + 7) / 8) = zeros (16 - (128 - p + 7) / 8))
      && (if p = 0 then pre.isEmpty else wfName pre)
  | _, _ => false

def wfVals : List Kind → List Val → Bool
  | [], [] => true
  | k :: ks, v :: vs => wfVal k v && wfVals ks vs
  | _, _ => false

end TwistedProps.C32
