import TwistedProps.C32.Records
/-! C32 lemmas: `RRHeader`, `Query`, the four sections. -/
namespace TwistedProps.C32
open Twisted.Py Twisted.Dns.Wire

/-- a record of a supported shape with in-range values: TYPE/CLASS 16 bits, TTL 32 bits, a payload
    whose class is the one `lookupRecordType` picks for the TYPE (`UnknownRecord` exactly for the
    TYPEs without a `Record_*` class) with in-range attribute values, owner name of 1..63-byte labels -/
def wfRR (r : RR) : Bool :=
  wfName r.name && decide (r.type < 65536) && decide (r.cls < 65536) && decide (r.ttl < 4294967296) &&
  match r.payload with
  | none => false
  | some p => (p.unknown == (schema r.type).isNone) && wfVals (kindsOf r.type) p.vals

def wfQuery (q : Query) : Bool := wfName q.name && decide (q.type < 65536) && decide (q.cls < 65536)

theorem payloadKinds_wf {t : Nat} {p : Payload} (h : (p.unknown == (schema t).isNone) = true) :
    payloadKinds t p = kindsOf t := by
  unfold payloadKinds kindsOf
  cases hs : schema t with
  | none => simp [hs] at h; simp [h]
  | some ks => simp [hs] at h; simp [h]

/-- **One resource record**: header and RDATA decode to the record that was encoded. -/
theorem rr_rt (r : RR) (hwf : wfRR r = true) (off : Nat) (d d' : Dict) (B M : Bytes)
    (henc : encodeRR r off d = .ok (B, d')) (hpl : Placed M off B) (hd : DictOK M off d) :
    ∃ p1 rdlen, decodeRRHead M off = .ok (⟨r.name, r.type, r.cls, r.ttl, rdlen⟩, p1) ∧
      decFields (kindsOf r.type) M p1 rdlen = .ok ((r.payload.map (·.vals)).getD [], off + B.length) ∧
      DictOK M (off + B.length) d' := by
  obtain ⟨name, type, cls, ttl, payload⟩ := r
  simp only [wfRR, Bool.and_eq_true, decide_eq_true_eq] at hwf
  obtain ⟨⟨⟨⟨hn, ht⟩, hc⟩, httl⟩, hp⟩ := hwf
  cases payload with
  | none => simp at hp
  | some p =>
    simp only [Bool.and_eq_true] at hp
    obtain ⟨hu, hv⟩ := hp
    obtain ⟨ls, hls, rfl⟩ := wfName_labels hn
    simp only [encodeRR] at henc
    cases hne : encodeName (joinDots ls) off true d with
    | error e => simp [hne] at henc
    | ok rn =>
      obtain ⟨nb, d1⟩ := rn
      simp only [hne, packBE_ok (show type < 256 ^ 2 by omega), packBE_ok (show cls < 256 ^ 2 by omega),
        packBE_ok (show ttl < 256 ^ 4 by omega), payloadKinds_wf hu] at henc
      cases hfe : encFields (kindsOf type) p.vals (off + nb.length + 10) d1 with
      | error e => simp [hfe] at henc
      | ok rf =>
        obtain ⟨pb, d2⟩ := rf
        simp only [hfe] at henc
        cases hrl : packBE 2 pb.length with
        | error e => simp [hrl] at henc
        | ok rl =>
          simp only [hrl] at henc
          cases henc
          obtain ⟨hrlt, rfl⟩ := packBE_inv hrl
          -- the pieces in the message
          have h0 : Placed M off (nb ++ (beN 2 type ++ (beN 2 cls ++ (beN 4 ttl ++ (beN 2 pb.length ++ pb))))) := by
            simpa [List.append_assoc] using hpl
          have hA := h0.append_left
          have h1 := h0.append_right
          have hB := h1.append_left
          have h2 := h1.append_right
          have hC := h2.append_left
          have h3 := h2.append_right
          have hD := h3.append_left
          have h4 := h3.append_right
          have hE := h4.append_left
          have hF := h4.append_right
          simp only [beN_length] at h2 h3 h4 hC hD hE hF
          obtain ⟨hdn, hd1⟩ := name_roundtrip ls hls off true d d1 nb M hne hA hd
          have hposF : off + nb.length + 2 + 2 + 4 + 2 = off + nb.length + 10 := by omega
          rw [hposF] at hF
          obtain ⟨hdf, hd2⟩ := fields_good (kindsOf type) 0 p.vals (off + nb.length + 10) d1 _ pb M pb.length
            (kindsOf_good type) hv hfe hF (hd1.mono (by omega)) (by omega)
          refine ⟨off + nb.length + 10, pb.length, ?_, ?_, ?_⟩
          · simp only [decodeRRHead, hdn, readBE_placed (show type < 256 ^ 2 by omega) hB,
              readBE_placed (show cls < 256 ^ 2 by omega) hC, readBE_placed (show ttl < 256 ^ 4 by omega) hD,
              readBE_placed hrlt hE]
          · simp only [Option.map_some, Option.getD_some, hdf, List.length_append, beN_length]
            congr 2; omega
          · simp only [List.length_append, beN_length]
            exact hd2.mono (by omega)

theorem query_rt (q : Query) (hwf : wfQuery q = true) (off : Nat) (d d' : Dict) (B M : Bytes)
    (henc : encodeQuery q off d = .ok (B, d')) (hpl : Placed M off B) (hd : DictOK M off d) :
    decodeQuery M off = .ok (q, off + B.length) ∧ DictOK M (off + B.length) d' := by
  obtain ⟨name, type, cls⟩ := q
  simp only [wfQuery, Bool.and_eq_true, decide_eq_true_eq] at hwf
  obtain ⟨⟨hn, ht⟩, hc⟩ := hwf
  obtain ⟨ls, hls, rfl⟩ := wfName_labels hn
  simp only [encodeQuery] at henc
  cases hne : encodeName (joinDots ls) off true d with
  | error e => simp [hne] at henc
  | ok rn =>
    obtain ⟨nb, d1⟩ := rn
    simp only [hne, packBE_ok (show type < 256 ^ 2 by omega), packBE_ok (show cls < 256 ^ 2 by omega)] at henc
    cases henc
    have h0 : Placed M off (nb ++ (beN 2 type ++ beN 2 cls)) := by simpa [List.append_assoc] using hpl
    have hA := h0.append_left
    have h1 := h0.append_right
    have hB := h1.append_left
    have hC := h1.append_right
    simp only [beN_length] at hC
    obtain ⟨hdn, hd1⟩ := name_roundtrip ls hls off true d d' nb M hne hA hd
    refine ⟨?_, ?_⟩
    · simp only [decodeQuery, hdn, readBE_placed (show type < 256 ^ 2 by omega) hB,
        readBE_placed (show cls < 256 ^ 2 by omega) hC, List.length_append, beN_length]
      congr 2
    · simp only [List.length_append, beN_length]
      exact hd1.mono (by omega)

/-- **A question section** -/
theorem queries_rt : ∀ (qs : List Query) (off : Nat) (d d' : Dict) (B M : Bytes),
    (∀ q ∈ qs, wfQuery q = true) → encodeQueries qs off d = .ok (B, d') → Placed M off B → DictOK M off d →
    decodeQueries qs.length M off = .ok (qs, off + B.length, false) ∧ DictOK M (off + B.length) d' := by
  intro qs
  induction qs with
  | nil =>
    intro off d d' B M _ henc _ hd
    simp only [encodeQueries] at henc
    cases henc
    simpa [decodeQueries] using hd
  | cons q qs ih =>
    intro off d d' B M hwf henc hpl hd
    simp only [encodeQueries] at henc
    cases h1 : encodeQuery q off d with
    | error e => simp [h1] at henc
    | ok r1 =>
      obtain ⟨b1, d1⟩ := r1
      simp only [h1] at henc
      cases h2 : encodeQueries qs (off + b1.length) d1 with
      | error e => simp [h2] at henc
      | ok r2 =>
        obtain ⟨b2, d2⟩ := r2
        simp only [h2] at henc
        cases henc
        obtain ⟨hq, hd1⟩ := query_rt q (hwf q (by simp)) off d d1 b1 M h1 hpl.append_left hd
        obtain ⟨hqs, hd2⟩ := ih (off + b1.length) d1 _ b2 M (fun x hx => hwf x (by simp [hx])) h2 hpl.append_right hd1
        simp only [List.length_cons, decodeQueries, hq, hqs, List.length_append, ← Nat.add_assoc]
        exact ⟨trivial, hd2⟩

/-- **A record section** (`parseRecords`) -/
theorem rrs_rt : ∀ (rs : List RR) (off : Nat) (d d' : Dict) (B M : Bytes),
    (∀ r ∈ rs, wfRR r = true) → encodeRRs rs off d = .ok (B, d') → Placed M off B → DictOK M off d →
    parseRecords rs.length M off = .ok (rs, off + B.length, false) ∧ DictOK M (off + B.length) d' := by
  intro rs
  induction rs with
  | nil =>
    intro off d d' B M _ henc _ hd
    simp only [encodeRRs] at henc
    cases henc
    simpa [parseRecords] using hd
  | cons r rs ih =>
    intro off d d' B M hwf henc hpl hd
    simp only [encodeRRs] at henc
    cases h1 : encodeRR r off d with
    | error e => simp [h1] at henc
    | ok r1 =>
      obtain ⟨b1, d1⟩ := r1
      simp only [h1] at henc
      cases h2 : encodeRRs rs (off + b1.length) d1 with
      | error e => simp [h2] at henc
      | ok r2 =>
        obtain ⟨b2, d2⟩ := r2
        simp only [h2] at henc
        cases henc
        have hwr := hwf r (by simp)
        obtain ⟨p1, rdlen, hh, hf, hd1⟩ := rr_rt r hwr off d d1 b1 M h1 hpl.append_left hd
        obtain ⟨hrs, hd2⟩ := ih (off + b1.length) d1 _ b2 M (fun x hx => hwf x (by simp [hx])) h2 hpl.append_right hd1
        -- the payload object the decoder builds is the original one
        have hpay : (some (⟨(schema r.type).isNone, (r.payload.map (·.vals)).getD []⟩ : Payload)) = r.payload := by
          simp only [wfRR, Bool.and_eq_true] at hwr
          cases hp : r.payload with
          | none => simp [hp] at hwr
          | some p =>
            simp only [hp, Bool.and_eq_true, beq_iff_eq] at hwr
            obtain ⟨u, vals⟩ := p
            simp only at hwr
            simp [← hwr.2.1]
        simp only [List.length_cons, parseRecords, hh, hf, hrs, List.length_append, ← Nat.add_assoc, hpay]
        exact ⟨trivial, hd2⟩

end TwistedProps.C32
