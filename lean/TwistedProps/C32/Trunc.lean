import TwistedProps.C32.Message
/-! C32 lemmas: decoding a *truncated* encoding.  A message that ends inside an item makes the
    decoder of that item raise `EOFError` (and nothing else); items that lie wholly before the cut
    decode as in the untruncated message (the round-trip lemmas, applied to the truncated message). -/
namespace TwistedProps.C32
open Twisted.Py Twisted.Dns.Wire

/-- the message `M` ends inside (or exactly after) the bytes `B` that start at `off`:
    `M = pre ++ B[:n]` with `len(pre) = off` -/
def CutAt (M : Bytes) (off : Nat) (B : Bytes) (n : Nat) : Prop := ∃ pre, M = pre ++ B.take n ∧ pre.length = off

theorem CutAt.length {M : Bytes} {off : Nat} {B : Bytes} {n : Nat} (h : CutAt M off B n) :
    M.length = off + min n B.length := by
  obtain ⟨pre, rfl, hl⟩ := h
  simp [hl]

theorem CutAt.placed {M : Bytes} {off : Nat} {B : Bytes} {n : Nat} (h : CutAt M off B n) (hn : B.length ≤ n) :
    Placed M off B := by
  obtain ⟨pre, rfl, hl⟩ := h
  exact ⟨pre, [], by simp [List.take_of_length_le hn], hl⟩

theorem CutAt.left {M : Bytes} {off : Nat} {b1 b2 : Bytes} {n : Nat} (h : CutAt M off (b1 ++ b2) n)
    (hn : n ≤ b1.length) : CutAt M off b1 n := by
  obtain ⟨pre, rfl, hl⟩ := h
  refine ⟨pre, ?_, hl⟩
  rw [List.take_append, show n - b1.length = 0 by omega]
  simp

theorem CutAt.right {M : Bytes} {off : Nat} {b1 b2 : Bytes} {n : Nat} (h : CutAt M off (b1 ++ b2) n)
    (hn : b1.length ≤ n) : Placed M off b1 ∧ CutAt M (off + b1.length) b2 (n - b1.length) := by
  obtain ⟨pre, rfl, hl⟩ := h
  rw [List.take_append, List.take_of_length_le hn]
  exact ⟨⟨pre, b2.take (n - b1.length), by simp, hl⟩, ⟨pre ++ b1, by simp, by simp [hl]⟩⟩

theorem CutAt.cons_right {M : Bytes} {off : Nat} {b : UInt8} {B : Bytes} {n : Nat} (h : CutAt M off (b :: B) n)
    (hn : 1 ≤ n) : Placed M off [b] ∧ CutAt M (off + 1) B (n - 1) := by
  have := CutAt.right (b1 := [b]) (b2 := B) (by simpa using h) (by simpa using hn)
  simpa using this

theorem CutAt.nil {M : Bytes} {off : Nat} {n : Nat} (h : CutAt M off [] n) : M.length = off := by
  have := h.length
  simpa using this

/-! ### reads that cross the end of the message -/

theorem readPrecisely_eof {M : Bytes} {pos l : Nat} (hp : pos ≤ M.length) (h : M.length < pos + l) :
    readPrecisely M pos l = .error .eof := by
  unfold readPrecisely
  rw [if_neg (by omega)]

theorem readBE_eof {M : Bytes} {pos w : Nat} (hp : pos ≤ M.length) (h : M.length < pos + w) :
    readBE M pos w = .error .eof := by
  simp [readBE, readPrecisely_eof hp h]

theorem readByte_eof {M : Bytes} {pos : Nat} (hp : pos ≤ M.length) (h : M.length < pos + 1) :
    readByte M pos = .error .eof := by
  simp [readByte, readPrecisely_eof hp h]

/-- one fixed-width big-endian field at the cut: either it is cut (`EOFError`) or it is read and the
    cut lies in what follows -/
theorem readBE_step {M : Bytes} {off w v n : Nat} {rest : Bytes} (hv : v < 256 ^ w)
    (h : CutAt M off (beN w v ++ rest) n) :
    (n < w ∧ readBE M off w = .error .eof) ∨
    (w ≤ n ∧ readBE M off w = .ok (v, off + w) ∧ CutAt M (off + w) rest (n - w)) := by
  rcases Nat.lt_or_ge n w with hn | hn
  · left
    have := (h.left (by rw [beN_length]; omega)).length
    rw [beN_length] at this
    exact ⟨hn, readBE_eof (by omega) (by omega)⟩
  · right
    have := h.right (by rw [beN_length]; exact hn)
    rw [beN_length] at this
    exact ⟨hn, readBE_placed hv this.1, this.2⟩

/-! ### `Name.decode` at the cut -/

theorem decodeNameLoop_at_end {M : Bytes} {pos : Nat} (h : M.length ≤ pos) (visited : List Nat) (acc : Bytes) (o : Nat) :
    decodeNameLoop M pos visited acc o = .error .eof := by
  rw [decodeNameLoop, dif_neg (by omega)]

theorem nextLabel_ne {name : Bytes} (h : name ≠ []) : (nextLabel name).1 ≠ [] := by
  unfold nextLabel
  split
  · split
    · assumption
    · exact h
  · exact h

/-- every offset stored in the dictionary fits a compression pointer -/
def DictLt (d : Dict) : Prop := ∀ k t, (k, t) ∈ d → t < 16384

theorem DictOK.dictLt {M : Bytes} {b : Nat} {d : Dict} (h : DictOK M b d) : DictLt d :=
  fun k t hm => (h k t hm).2.1

/-- **A name cut by the end of the message**: whatever `Name.encode` wrote (labels, a final zero or a
    compression pointer), a message that ends strictly inside those bytes makes `Name.decode` raise
    `EOFError` — for any name, not only well-formed ones. -/
theorem name_cut_aux : ∀ (fuel : Nat) (name : Bytes) (off : Nat) (comp : Bool) (d : Dict) (B : Bytes) (d' : Dict),
    encodeNameAux fuel name off comp d = .ok (B, d') → DictLt d →
    ∀ (M : Bytes) (n : Nat), n < B.length → CutAt M off B n →
    ∀ (visited : List Nat) (acc : Bytes) (o : Nat), decodeNameLoop M off visited acc o = .error .eof := by
  intro fuel
  induction fuel with
  | zero =>
    intro name off comp d B d' henc _ M n hn hcut visited acc o
    simp only [encodeNameAux] at henc
    cases henc
    have := hcut.length
    simp only [List.length_singleton] at hn this
    exact decodeNameLoop_at_end (by omega) _ _ _
  | succ fuel ih =>
    intro name off comp d B d' henc hd M n hn hcut visited acc o
    rw [encodeNameAux_succ] at henc
    by_cases hname : name = []
    · rw [if_pos hname] at henc
      cases henc
      have := hcut.length
      simp only [List.length_singleton] at hn this
      exact decodeNameLoop_at_end (by omega) _ _ _
    · rw [if_neg hname] at henc
      by_cases hn0 : n = 0
      · subst hn0
        have := hcut.length
        exact decodeNameLoop_at_end (by omega) _ _ _
      cases hlk : (if comp = true then List.lookup name d else none) with
      | some t =>
        rw [hlk] at henc
        simp only at henc
        cases henc
        have hcomp : comp = true := by cases comp <;> simp at hlk ⊢
        rw [hcomp] at hlk
        simp only [if_true] at hlk
        have ht14 := hd _ _ (lookup_mem hlk)
        rw [or_c000 t ht14] at hcut hn
        have hbytes : beN 2 (49152 + t) = [UInt8.ofNat (192 + t / 256), UInt8.ofNat (t % 256)] := by
          simp only [beN, List.nil_append, List.cons_append]
          congr 2
          · congr 1; omega
          · congr 1; omega
        rw [hbytes] at hcut hn
        simp only [List.length_cons, List.length_nil] at hn
        have hn1 : n = 1 := by omega
        subst hn1
        obtain ⟨hp, hc⟩ := hcut.cons_right (Nat.le_refl _)
        have hlen := hcut.length
        simp only [List.length_cons, List.length_nil] at hlen
        have hb0 : M.getD off 0 = UInt8.ofNat (192 + t / 256) := hp.getD
        have hn0' : (UInt8.ofNat (192 + t / 256)).toNat = 192 + t / 256 := by
          rw [UInt8.toNat_ofNat']; omega
        rw [decodeNameLoop]
        simp only [hb0, hn0']
        rw [dif_pos (by omega), if_neg (by omega), if_pos (by omega), if_neg (by omega)]
      | none =>
        rw [hlk] at henc
        simp only at henc
        generalize hd1 : (if comp = true ∧ off < maxPtr then (name, off) :: d else d) = d1 at henc
        have hd1lt : DictLt d1 := by
          intro k t hm
          rw [← hd1] at hm
          split at hm
          · rename_i hc
            rcases List.mem_cons.mp hm with h | h
            · cases h; exact hc.2
            · exact hd k t h
          · exact hd k t hm
        generalize hlab : (nextLabel name).1 = label at henc
        have hlne : label ≠ [] := hlab ▸ nextLabel_ne hname
        have hl1 : 1 ≤ label.length := by
          cases label with
          | nil => exact absurd rfl hlne
          | cons _ _ => simp
        by_cases h63 : label.length > 63
        · rw [if_pos h63] at henc; cases henc
        rw [if_neg h63] at henc
        have hnl : (UInt8.ofNat label.length).toNat = label.length := by
          rw [UInt8.toNat_ofNat']; omega
        -- both continuations write `len :: label ++ bs`
        have key : ∀ bs : Bytes, B = UInt8.ofNat label.length :: label ++ bs →
            (∀ (n' : Nat), n' < bs.length → CutAt M (off + 1 + label.length) bs n' →
              ∀ acc', decodeNameLoop M (off + 1 + label.length) visited acc' o = .error .eof) →
            decodeNameLoop M off visited acc o = .error .eof := by
          intro bs hB hrec
          subst hB
          have hcut' : CutAt M off ([UInt8.ofNat label.length] ++ (label ++ bs)) n := by simpa using hcut
          obtain ⟨hp, hc⟩ := hcut'.right (by simp; omega)
          simp only [List.length_singleton] at hc
          have hb0 : M.getD off 0 = UInt8.ofNat label.length := hp.getD
          have hlen := hcut.length
          simp only [List.length_cons, List.length_append] at hlen hn
          rw [decodeNameLoop]
          simp only [hb0, hnl]
          rw [dif_pos (by omega), if_neg (by omega), if_neg (by omega)]
          by_cases hin : n - 1 < label.length
          · rw [dif_neg (by omega)]
          · rw [dif_pos (by omega)]
            obtain ⟨_, hc2⟩ := hc.right (by omega)
            exact hrec (n - 1 - label.length) (by omega) hc2 _
        cases hrest : (nextLabel name).2 with
        | none =>
          rw [hrest] at henc
          simp only at henc
          cases henc
          refine key [0] rfl ?_
          intro n' hn' hc' acc'
          have := hc'.length
          simp only [List.length_singleton] at hn' this
          exact decodeNameLoop_at_end (by omega) _ _ _
        | some r =>
          rw [hrest] at henc
          simp only at henc
          cases hrec : encodeNameAux fuel r (off + 1 + label.length) comp d1 with
          | error e => rw [hrec] at henc; cases henc
          | ok res =>
            obtain ⟨bs, d2⟩ := res
            rw [hrec] at henc
            simp only at henc
            cases henc
            refine key bs rfl ?_
            intro n' hn' hc' acc'
            exact ih r _ comp d1 bs _ hrec hd1lt M n' hn' hc' visited acc' o

theorem name_cut {name : Bytes} {off : Nat} {comp : Bool} {d d' : Dict} {B M : Bytes} {n : Nat}
    (henc : encodeName name off comp d = .ok (B, d')) (hd : DictLt d) (hn : n < B.length) (hcut : CutAt M off B n) :
    decodeName M off = .error .eof :=
  name_cut_aux _ name off comp d B d' henc hd M n hn hcut [] [] 0

end TwistedProps.C32
