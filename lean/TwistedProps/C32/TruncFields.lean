import TwistedProps.C32.Trunc
/-! C32 lemmas: a record field / field list / record / question cut by the end of the message
    raises `EOFError`. -/
namespace TwistedProps.C32
open Twisted.Py Twisted.Dns.Wire

/-- a length-prefixed string (`Charstr`, HINFO, one TXT string) at the cut -/
theorem readStr8_cut {M : Bytes} {off n : Nat} {s : Bytes} (hs : s.length ≤ 255) (hn : n < 1 + s.length)
    (h : CutAt M off (UInt8.ofNat s.length :: s) n) : readStr8 M off = .error .eof := by
  have hlen := h.length
  simp only [List.length_cons] at hlen
  by_cases h0 : n = 0
  · subst h0
    simp [readStr8, readByte_eof (show off ≤ M.length by omega) (show M.length < off + 1 by omega)]
  · obtain ⟨hp, _⟩ := h.cons_right (by omega)
    have hnl : (UInt8.ofNat s.length).toNat = s.length := by rw [UInt8.toNat_ofNat']; omega
    simp [readStr8, readByte_placed hp, hnl, readPrecisely_eof (show off + 1 ≤ M.length by omega) (show M.length < off + 1 + s.length by omega)]

/-- fixed-width fields at the cut -/
theorem decField_width_eof {k : Kind} {w : Nat} (hw : width k = some w) {M : Bytes} {off rdlen : Nat}
    (hp : off ≤ M.length) (h : M.length < off + w) : decField k M off rdlen = .error .eof := by
  cases k <;> simp only [width, Option.some.injEq, reduceCtorEq] at hw <;> subst hw <;>
    simp [decField, readBE_eof hp h, readPrecisely_eof hp h, Except.map]

/-- the `Record_TXT` loop at the cut -/
theorem txt_cut : ∀ (l : List Bytes) (B : Bytes), (∀ s ∈ l, s.length ≤ 255) → encStrs l = .ok B →
    ∀ (fuel : Nat) (M : Bytes) (off n : Nat), n < B.length → CutAt M off B n → B.length ≤ fuel →
      txtLoop fuel B.length M off = .error .eof := by
  intro l
  induction l with
  | nil =>
    intro B _ henc fuel M off n hn _ _
    simp only [encStrs] at henc
    cases henc
    simp at hn
  | cons s l ih =>
    intro B hl henc fuel M off n hn hcut hf
    simp only [encStrs] at henc
    have hs : s.length ≤ 255 := hl s (by simp)
    rw [packBE_ok (by simpa using (by omega : s.length < 256))] at henc
    cases hr : encStrs l with
    | error e => simp [hr] at henc
    | ok r =>
      simp only [hr] at henc
      cases henc
      rw [beN_one] at hcut hf hn ⊢
      have hlen : ([UInt8.ofNat s.length] ++ s ++ r).length = 1 + s.length + r.length := by simp; omega
      rw [hlen] at hf hn ⊢
      cases fuel with
      | zero => omega
      | succ fuel =>
        have h1 : CutAt M off ((UInt8.ofNat s.length :: s) ++ r) n := by simpa using hcut
        rw [txtLoop, if_neg (by omega)]
        by_cases hin : n < 1 + s.length
        · rw [readStr8_cut hs hin (h1.left (by simp; omega))]
        · obtain ⟨hp, hc⟩ := h1.right (by simp; omega)
          simp only [List.length_cons] at hc
          rw [show off + (s.length + 1) = off + 1 + s.length by omega] at hc
          rw [readStr8_placed hs hp]
          simp only
          rw [show 1 + s.length + r.length - (s.length + 1) = r.length by omega]
          rw [ih r (fun x hx => hl x (by simp [hx])) hr fuel M _ (n - (s.length + 1)) (by omega) hc (by omega)]

/-- **One field at the cut**: the message ends strictly inside what `Record_X.encode` wrote for a
    field — `Record_X.decode` raises `EOFError` there. -/
theorem field_cut (k : Kind) (v : Val) (hwf : wfVal k v = true) (off : Nat) (d d' : Dict) (B M : Bytes) (rdlen n : Nat)
    (henc : encField k v off d = .ok (B, d')) (hn : n < B.length) (hcut : CutAt M off B n) (hd : DictLt d)
    (hrest : ∀ j, k = .rest j → (rdlen : Int) - j = B.length) (htxt : k = .txts → rdlen = B.length) :
    decField k M off rdlen = .error .eof := by
  have hlen := hcut.length
  rw [Nat.min_eq_left (by omega)] at hlen
  cases hw : width k with
  | some w =>
    have := width_len hw hwf henc
    exact decField_width_eof hw (by omega) (by omega)
  | none =>
  cases k with
  | u8 => simp [width] at hw
  | u16 => simp [width] at hw
  | u32 => simp [width] at hw
  | i32 => simp [width] at hw
  | u48 => simp [width] at hw
  | raw w => simp [width] at hw
  | name comp =>
    cases v with
    | bytes nm =>
      simp only [encField] at henc
      cases comp with
      | true =>
        simp only [if_true] at henc
        simp [decField, name_cut henc hd hn hcut, Except.map]
      | false =>
        simp only [Bool.false_eq_true, if_false] at henc
        cases hnm : encodeName nm off false d with
        | error e => simp [hnm, Except.map] at henc
        | ok r =>
          simp only [hnm, Except.map] at henc
          cases henc
          simp [decField, name_cut hnm hd hn hcut, Except.map]
    | _ => simp [wfVal] at hwf
  | charstr =>
    cases v with
    | bytes s =>
      simp only [wfVal, decide_eq_true_eq] at hwf
      simp only [encField, if_neg (show ¬ s.length > 255 by omega)] at henc
      cases henc
      simp only [List.length_cons] at hn
      simp [decField, readStr8_cut hwf (by omega) hcut, Except.map]
    | _ => simp [wfVal] at hwf
  | bstr =>
    cases v with
    | bytes s =>
      simp only [wfVal, decide_eq_true_eq] at hwf
      simp only [encField, packBE_ok (show s.length < 256 ^ 1 by omega), Except.map, beN_one] at henc
      cases henc
      have hcut' : CutAt M off (UInt8.ofNat s.length :: s) n := by simpa using hcut
      simp only [List.length_append, List.length_singleton] at hn
      simp [decField, readStr8_cut hwf (by omega) hcut', Except.map]
    | _ => simp [wfVal] at hwf
  | lp16 =>
    cases v with
    | bytes s =>
      simp only [wfVal, decide_eq_true_eq] at hwf
      simp only [encField, packBE_ok (show s.length < 256 ^ 2 by omega), Except.map] at henc
      cases henc
      simp only [List.length_append, beN_length] at hn hlen
      rcases readBE_step (show s.length < 256 ^ 2 by omega) hcut with ⟨_, h⟩ | ⟨_, h, _⟩
      · simp [decField, h]
      · simp [decField, h, readPrecisely_eof (show off + 2 ≤ M.length by omega) (show M.length < off + 2 + s.length by omega), Except.map]
    | _ => simp [wfVal] at hwf
  | rest j =>
    cases v with
    | bytes b =>
      simp only [encField] at henc
      cases henc
      have hr := hrest j rfl
      have hnn : ¬ ((rdlen : Int) - j < 0) := by omega
      have hto : ((rdlen : Int) - j).toNat = B.length := by omega
      simp [decField, readPreciselyInt, hnn, hto, readPrecisely_eof (show off ≤ M.length by omega) (show M.length < off + B.length by omega), Except.map]
    | _ => simp [wfVal] at hwf
  | txts =>
    cases v with
    | strs l =>
      simp only [wfVal, List.all_eq_true, decide_eq_true_eq] at hwf
      simp only [encField] at henc
      cases he : encStrs l with
      | error e => simp [he, Except.map] at henc
      | ok r =>
        simp only [he, Except.map] at henc
        cases henc
        have hr := htxt rfl
        subst hr
        simp [decField, txt_cut l B hwf he B.length M off n hn hcut (Nat.le_refl _), Except.map]
    | _ => simp [wfVal] at hwf
  | a6 =>
    cases v with
    | a6 p s pre =>
      simp only [wfVal, Bool.and_eq_true, decide_eq_true_eq] at hwf
      obtain ⟨⟨⟨hp, hs16⟩, hz⟩, hpre⟩ := hwf
      generalize hk : (128 - p + 7) / 8 = kk at hz
      have hk16 : kk ≤ 16 := by omega
      have ha6 : a6bytes p = (kk : Int) := by simp [a6bytes, hp, hk]
      have hsfx : (if a6bytes p ≠ 0 then lastBytes s (a6bytes p) else []) = s.drop (16 - kk) := by
        rw [ha6]
        by_cases h0 : kk = 0
        · subst h0; simp [hs16.symm]
        · have : ¬ ((kk : Int) = 0) := by omega
          simp only [ne_eq, this, not_false_eq_true, if_true, lastBytes]
          rw [if_neg (by omega), hs16]
          congr 1
      have hsl : (s.drop (16 - kk)).length = kk := by simp [hs16]; omega
      simp only [encField, packBE_ok (show p < 256 ^ 1 by omega), hsfx] at henc
      generalize s.drop (16 - kk) = sx at henc hsl
      -- the bytes are `[p] ++ sx ++ (prefix name, when p ≠ 0)`
      have main : ∀ nb : Bytes, B = beN 1 p ++ (sx ++ nb) →
          (∀ n', n' < nb.length → CutAt M (off + 1 + kk) nb n' → p ≠ 0 ∧ decodeName M (off + 1 + kk) = .error .eof) →
          decField .a6 M off rdlen = .error .eof := by
        intro nb hB hname
        subst hB
        simp only [List.length_append, beN_length, hsl] at hn hlen
        rcases readBE_step (show p < 256 ^ 1 by omega) hcut with ⟨_, h⟩ | ⟨h1, h, hc⟩
        · simp [decField, h]
        · simp only [decField, h, ha6]
          by_cases h0 : kk = 0
          · subst h0
            have hsx : sx = [] := List.length_eq_zero_iff.mp hsl
            subst hsx
            obtain ⟨hp0, he⟩ := hname (n - 1) (by omega) (by simpa using hc)
            simp only [Nat.add_zero] at he
            simp [hp0, he, Except.map]
          · have hne : ¬ ((kk : Int) = 0) := by omega
            have hnn : ¬ ((kk : Int) < 0) := by omega
            simp only [ne_eq, hne, not_false_eq_true, if_true, readPreciselyInt, hnn, if_false, Int.toNat_natCast]
            by_cases hin : n - 1 < kk
            · simp [readPrecisely_eof (show off + 1 ≤ M.length by omega) (show M.length < off + 1 + kk by omega), Except.map]
            · obtain ⟨hps, hc2⟩ := hc.right (by omega)
              have hrd := readPrecisely_placed hps
              rw [hsl] at hrd hc2
              obtain ⟨hp0, he⟩ := hname (n - 1 - kk) (by omega) hc2
              simp [hrd, Except.map, hp0, he]
      by_cases hp0 : p = 0
      · subst hp0
        simp only [ne_eq, not_true_eq_false, if_false] at henc
        cases henc
        refine main [] (by simp) ?_
        intro n' hn' _
        simp at hn'
      · simp only [ne_eq, hp0, not_false_eq_true, if_true] at henc
        cases hnm : encodeName pre (off + 1 + sx.length) false d with
        | error e => rw [hnm] at henc; cases henc
        | ok r =>
          rw [hnm] at henc
          simp only at henc
          cases henc
          rw [hsl] at hnm
          refine main r.1 (by simp) ?_
          intro n' hn' hc'
          exact ⟨hp0, name_cut hnm hd hn' hc'⟩
    | _ => simp [wfVal] at hwf

/-! ### field lists -/

theorem goodFrom_of_free : ∀ (ks : List Kind) (c : Nat), ks.all lenFreeK = true → goodFrom c ks = true := by
  intro ks
  induction ks with
  | nil => intro c _; rfl
  | cons k ks ih =>
    intro c h
    have h' := h
    simp only [List.all_cons, Bool.and_eq_true] at h'
    cases k <;> simp_all [goodFrom, width, lenFreeK]

/-- what `goodFrom` says about the first field: an RDLENGTH-dependent field is the last one and the
    fixed widths before it are what it subtracts -/
theorem good_head {c : Nat} {k : Kind} {ks : List Kind} (hg : goodFrom c (k :: ks) = true) :
    (∀ j, k = .rest j → ks = [] ∧ j = c) ∧ (k = .txts → ks = [] ∧ c = 0) := by
  constructor
  · intro j hj; subst hj; simpa [goodFrom] using hg
  · intro hj; subst hj; simpa [goodFrom] using hg

theorem good_tail {c : Nat} {k : Kind} {ks : List Kind} (hg : goodFrom c (k :: ks) = true) {v : Val}
    (hwf : wfVal k v = true) {off : Nat} {d d1 : Dict} {b1 : Bytes} (henc : encField k v off d = .ok (b1, d1)) :
    goodFrom (c + b1.length) ks = true := by
  cases hw : width k with
  | some w =>
    rw [width_len hw hwf henc]
    cases k <;> simp only [width, reduceCtorEq] at hw <;> simpa [goodFrom, width, hw] using hg
  | none =>
    by_cases hfree : (k :: ks).all lenFreeK = true
    · simp only [List.all_cons, Bool.and_eq_true] at hfree
      exact goodFrom_of_free ks _ hfree.2
    · have : ks = [] := by
        cases k <;> simp only [width, reduceCtorEq] at hw <;> simp_all [goodFrom, width, lenFreeK]
      subst this
      rfl

theorem encFields_nil_inv {vs : List Val} {off : Nat} {d d' : Dict} {B : Bytes}
    (h : encFields [] vs off d = .ok (B, d')) : B = [] := by
  cases vs with
  | nil => simp only [encFields] at h; cases h; rfl
  | cons _ _ => simp [encFields] at h

theorem decFields_head_err {k : Kind} {ks : List Kind} {M : Bytes} {off rdlen : Nat} {e : Err}
    (h : decField k M off rdlen = .error e) : decFields (k :: ks) M off rdlen = .error e := by
  simp [decFields, h]

theorem decFields_tail_err {k : Kind} {ks : List Kind} {M : Bytes} {off rdlen : Nat} {v : Val} {p : Nat} {e : Err}
    (h1 : decField k M off rdlen = .ok (v, p)) (h2 : decFields ks M p rdlen = .error e) :
    decFields (k :: ks) M off rdlen = .error e := by
  simp [decFields, h1, h2]

/-- **RDATA at the cut**: the message ends strictly inside the RDATA of a record — its `decode`
    raises `EOFError` (fields before the cut are read as written, the field at the cut raises). -/
theorem fields_cut : ∀ (ks : List Kind) (c : Nat) (vs : List Val) (off : Nat) (d d' : Dict) (B M : Bytes) (rdlen n : Nat),
    goodFrom c ks = true → wfVals ks vs = true → encFields ks vs off d = .ok (B, d') → n < B.length → CutAt M off B n →
    DictOK M off d → rdlen = c + B.length → decFields ks M off rdlen = .error .eof := by
  intro ks
  induction ks with
  | nil =>
    intro c vs off d d' B M rdlen n _ _ henc hn _ _ _
    rw [encFields_nil_inv henc] at hn
    simp at hn
  | cons k ks ih =>
    intro c vs off d d' B M rdlen n hg hwf henc hn hcut hd hr
    obtain ⟨v, vs', b1, d1, b2, rfl, hwv, hwvs, he1, he2, rfl⟩ := fields_step hwf henc
    obtain ⟨hgr, hgt⟩ := good_head hg
    have hrest : ∀ j, k = .rest j → (rdlen : Int) - j = b1.length := by
      intro j hj
      obtain ⟨hks, hjc⟩ := hgr j hj
      subst hks
      rw [encFields_nil_inv he2] at hr
      simp only [List.append_nil] at hr
      omega
    have htxt : k = .txts → rdlen = b1.length := by
      intro hj
      obtain ⟨hks, hjc⟩ := hgt hj
      subst hks
      rw [encFields_nil_inv he2] at hr
      simp only [List.append_nil] at hr
      omega
    rw [List.length_append] at hn hr
    by_cases hin : n < b1.length
    · exact decFields_head_err
        (field_cut k v hwv off d d1 b1 M rdlen n he1 hin (hcut.left (by omega)) hd.dictLt hrest htxt)
    · obtain ⟨hp, hc⟩ := hcut.right (by omega)
      obtain ⟨h1, hd1⟩ := field_rt k v hwv off d d1 b1 M rdlen he1 hp hd hrest htxt
      exact decFields_tail_err h1
        (ih (c + b1.length) vs' (off + b1.length) d1 d' b2 M rdlen (n - b1.length) (good_tail hg hwv he1) hwvs he2
          (by omega) hc hd1 (by omega))

end TwistedProps.C32
