import TwistedModel.Dns.Wire
/-! C32 lemmas: byte placement, fixed-width integers, reading primitives. -/
namespace TwistedProps.C32
open Twisted.Py Twisted.Dns.Wire

/-- the bytes `B` sit in the message `M` at offset `off` -/
def Placed (M : Bytes) (off : Nat) (B : Bytes) : Prop :=
  ∃ pre post, M = pre ++ B ++ post ∧ pre.length = off

theorem Placed.append_left {M : Bytes} {off : Nat} {B1 B2 : Bytes} (h : Placed M off (B1 ++ B2)) :
    Placed M off B1 := by
  obtain ⟨pre, post, rfl, hl⟩ := h
  exact ⟨pre, B2 ++ post, by simp, hl⟩

theorem Placed.append_right {M : Bytes} {off : Nat} {B1 B2 : Bytes} (h : Placed M off (B1 ++ B2)) :
    Placed M (off + B1.length) B2 := by
  obtain ⟨pre, post, rfl, hl⟩ := h
  exact ⟨pre ++ B1, post, by simp, by simp [hl]⟩

theorem Placed.cons_right {M : Bytes} {off : Nat} {b : UInt8} {B : Bytes} (h : Placed M off (b :: B)) :
    Placed M (off + 1) B := by
  have := Placed.append_right (B1 := [b]) (B2 := B) (by simpa using h)
  simpa using this

theorem Placed.length_le {M : Bytes} {off : Nat} {B : Bytes} (h : Placed M off B) :
    off + B.length ≤ M.length := by
  obtain ⟨pre, post, rfl, hl⟩ := h
  simp; omega

theorem Placed.slice {M : Bytes} {off : Nat} {B : Bytes} (h : Placed M off B) :
    slice M off B.length = B := by
  obtain ⟨pre, post, rfl, hl⟩ := h
  subst hl
  simp [Twisted.Dns.Wire.slice, List.append_assoc]

theorem Placed.getD {M : Bytes} {off : Nat} {b : UInt8} {B : Bytes} (h : Placed M off (b :: B)) :
    M.getD off 0 = b := by
  obtain ⟨pre, post, rfl, hl⟩ := h
  subst hl
  simp [List.getD_eq_getElem?_getD]

theorem Placed.getElem? {M : Bytes} {off : Nat} {b : UInt8} {B : Bytes} (h : Placed M off (b :: B)) :
    M[off]? = some b := by
  obtain ⟨pre, post, rfl, hl⟩ := h
  subst hl
  simp

theorem Placed.nil_iff {M : Bytes} {off : Nat} : Placed M off [] ↔ off ≤ M.length := by
  constructor
  · intro h; simpa using h.length_le
  · intro h
    exact ⟨M.take off, M.drop off, by simp, by simp [h]⟩

theorem readPrecisely_placed {M : Bytes} {off : Nat} {B : Bytes} (h : Placed M off B) :
    readPrecisely M off B.length = .ok (B, off + B.length) := by
  have := h.length_le
  unfold readPrecisely
  rw [if_pos (by omega), h.slice]

theorem readPrecisely_length {M : Bytes} {pos l : Nat} {b : Bytes} {p : Nat}
    (h : readPrecisely M pos l = .ok (b, p)) : b.length = l ∧ p = pos + l := by
  unfold readPrecisely at h
  split at h
  · cases h
    simp [slice]; omega
  · cases h

/-! ### fixed-width big-endian -/

theorem beN_length (w v : Nat) : (beN w v).length = w := by
  induction w generalizing v with
  | zero => simp [beN]
  | succ w ih => simp [beN, ih]

theorem foldl_be (acc : Nat) (b : Bytes) :
    b.foldl (fun acc x => acc * 256 + x.toNat) acc = acc * 256 ^ b.length + beToNat b := by
  induction b generalizing acc with
  | nil => simp [beToNat]
  | cons x b ih =>
    simp only [List.foldl_cons, beToNat, List.length_cons]
    rw [ih, ih (0 * 256 + x.toNat), Nat.pow_succ]
    simp only [beToNat, Nat.zero_mul, Nat.zero_add, Nat.add_mul]
    rw [Nat.mul_assoc, Nat.mul_comm 256, Nat.add_assoc]

theorem beToNat_append (a b : Bytes) : beToNat (a ++ b) = beToNat a * 256 ^ b.length + beToNat b := by
  rw [beToNat, List.foldl_append, foldl_be]
  rfl

theorem beToNat_beN (w v : Nat) (h : v < 256 ^ w) : beToNat (beN w v) = v := by
  induction w generalizing v with
  | zero => simp at h; subst h; simp [beN, beToNat]
  | succ w ih =>
    have h1 : ∀ (l : Bytes) (y : UInt8), beToNat (l ++ [y]) = beToNat l * 256 + y.toNat := by
      intro l y; simp [beToNat, List.foldl_append]
    rw [beN, h1, ih (v / 256) (by rw [Nat.pow_succ] at h; omega), UInt8.toNat_ofNat']
    omega

theorem beN_add (a b v : Nat) : beN (a + b) v = beN a (v / 256 ^ b) ++ beN b v := by
  induction b generalizing v with
  | zero => simp [beN]
  | succ b ih =>
    rw [← Nat.add_assoc, beN, beN, ih, List.append_assoc]
    congr 2
    rw [Nat.div_div_eq_div_mul, Nat.pow_succ, Nat.mul_comm]

theorem packBE_ok {w v : Nat} (h : v < 256 ^ w) : packBE w v = .ok (beN w v) := by
  simp [packBE, h]

theorem packBE_inv {w v : Nat} {b : Bytes} (h : packBE w v = .ok b) : v < 256 ^ w ∧ b = beN w v := by
  unfold packBE at h
  split at h
  · cases h; exact ⟨by assumption, rfl⟩
  · cases h

/-- `struct.unpack` of what `struct.pack` wrote, read from the message -/
theorem readBE_placed {M : Bytes} {off w v : Nat} (hv : v < 256 ^ w) (h : Placed M off (beN w v)) :
    readBE M off w = .ok (v, off + w) := by
  have := readPrecisely_placed h
  rw [beN_length] at this
  simp [readBE, this, unpackBE, beN_length, beToNat_beN w v hv]

theorem or_c000 (t : Nat) (h : t < 16384) : 49152 ||| t = 49152 + t := by
  have := Nat.shiftLeft_add_eq_or_of_lt (a := 3) (i := 14) (b := t) (by simpa using h)
  simpa using this.symm

end TwistedProps.C32
