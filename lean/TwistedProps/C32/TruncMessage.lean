import TwistedProps.C32.TruncFields
/-! C32 lemmas: a resource record / question / section cut by the end of the message. -/
namespace TwistedProps.C32
open Twisted.Py Twisted.Dns.Wire

/-- a name followed by more bytes, at the cut: either the name is cut (`EOFError`) or it is read back
    and the cut lies in what follows -/
theorem name_step (ls : List Bytes) (hwf : WfLabels ls) {off : Nat} {comp : Bool} {d d' : Dict} {nb rest M : Bytes} {n : Nat}
    (henc : encodeName (joinDots ls) off comp d = .ok (nb, d')) (hcut : CutAt M off (nb ++ rest) n) (hd : DictOK M off d) :
    (n < nb.length ∧ decodeName M off = .error .eof) ∨
    (nb.length ≤ n ∧ decodeName M off = .ok (joinDots ls, off + nb.length) ∧ DictOK M (off + nb.length) d' ∧
      CutAt M (off + nb.length) rest (n - nb.length)) := by
  rcases Nat.lt_or_ge n nb.length with hn | hn
  · exact Or.inl ⟨hn, name_cut henc hd.dictLt hn (hcut.left (by omega))⟩
  · obtain ⟨hp, hc⟩ := hcut.right hn
    obtain ⟨h1, h2⟩ := name_roundtrip ls hwf off comp d d' nb M henc hp hd
    exact Or.inr ⟨hn, h1, h2, hc⟩

/-- **A resource record at the cut**: `RRHeader.decode` raises `EOFError`, or it succeeds (with the
    TYPE and RDLENGTH that were written) and the payload's `decode` raises `EOFError`. -/
theorem rr_cut (r : RR) (hwf : wfRR r = true) (off : Nat) (d d' : Dict) (B M : Bytes) (n : Nat)
    (henc : encodeRR r off d = .ok (B, d')) (hn : n < B.length) (hcut : CutAt M off B n) (hd : DictOK M off d) :
    decodeRRHead M off = .error .eof ∨
    ∃ h p1, decodeRRHead M off = .ok (h, p1) ∧ h.type = r.type ∧
      decFields (kindsOf r.type) M p1 h.rdlength = .error .eof := by
  obtain ⟨name, type, cls, ttl, payload⟩ := r
  simp only [wfRR, Bool.and_eq_true, decide_eq_true_eq] at hwf
  obtain ⟨⟨⟨⟨hnm, ht⟩, hc⟩, httl⟩, hp⟩ := hwf
  cases payload with
  | none => simp at hp
  | some p =>
    simp only [Bool.and_eq_true] at hp
    obtain ⟨hu, hv⟩ := hp
    obtain ⟨ls, hls, rfl⟩ := wfName_labels hnm
    simp only [encodeRR] at henc
    cases hne : encodeName (joinDots ls) off true d with
    | error e => simp [hne] at henc
    | ok rn =>
      obtain ⟨nb, d1⟩ := rn
      simp only [hne, packBE_ok (show type < 256 ^ 2 by omega), packBE_ok (show cls < 256 ^ 2 by omega),
        packBE_ok (show ttl < 256 ^ 4 by omega), payloadKinds_wf hu] at henc
      cases hfe : encFields (kindsOf type) p.vals (off + nb.length + 10) d1 with
      | error e => simp [hfe] at henc
      | ok rf =>
        obtain ⟨pb, d2⟩ := rf
        simp only [hfe] at henc
        cases hrl : packBE 2 pb.length with
        | error e => simp [hrl] at henc
        | ok rl =>
          simp only [hrl] at henc
          cases henc
          obtain ⟨hrlt, rfl⟩ := packBE_inv hrl
          have h0 : CutAt M off (nb ++ (beN 2 type ++ (beN 2 cls ++ (beN 4 ttl ++ (beN 2 pb.length ++ pb))))) n := by
            simpa [List.append_assoc] using hcut
          simp only [List.length_append, beN_length] at hn
          rcases name_step ls hls hne h0 hd with ⟨_, h⟩ | ⟨_, hA, hd1, h1⟩
          · left; simp [decodeRRHead, h]
          rcases readBE_step (show type < 256 ^ 2 by omega) h1 with ⟨_, h⟩ | ⟨_, hB, h2⟩
          · left; simp [decodeRRHead, hA, h]
          rcases readBE_step (show cls < 256 ^ 2 by omega) h2 with ⟨_, h⟩ | ⟨_, hC, h3⟩
          · left; simp [decodeRRHead, hA, hB, h]
          rcases readBE_step (show ttl < 256 ^ 4 by omega) h3 with ⟨_, h⟩ | ⟨_, hD, h4⟩
          · left; simp [decodeRRHead, hA, hB, hC, h]
          rcases readBE_step hrlt h4 with ⟨_, h⟩ | ⟨_, hE, h5⟩
          · left; simp [decodeRRHead, hA, hB, hC, hD, h]
          right
          have hpos : off + nb.length + 2 + 2 + 4 + 2 = off + nb.length + 10 := by omega
          rw [hpos] at h5 hE
          refine ⟨⟨joinDots ls, type, cls, ttl, pb.length⟩, off + nb.length + 10, ?_, rfl, ?_⟩
          · simp only [decodeRRHead, hA, hB, hC, hD, hE]
          · exact fields_cut (kindsOf type) 0 p.vals (off + nb.length + 10) d1 _ pb M pb.length
              (n - nb.length - 2 - 2 - 4 - 2) (kindsOf_good type) hv hfe (by omega) h5 (hd1.mono (by omega)) (by omega)

/-- **A question at the cut**: `Query.decode` raises `EOFError`. -/
theorem query_cut (q : Query) (hwf : wfQuery q = true) (off : Nat) (d d' : Dict) (B M : Bytes) (n : Nat)
    (henc : encodeQuery q off d = .ok (B, d')) (hn : n < B.length) (hcut : CutAt M off B n) (hd : DictOK M off d) :
    decodeQuery M off = .error .eof := by
  obtain ⟨name, type, cls⟩ := q
  simp only [wfQuery, Bool.and_eq_true, decide_eq_true_eq] at hwf
  obtain ⟨⟨hnm, ht⟩, hc⟩ := hwf
  obtain ⟨ls, hls, rfl⟩ := wfName_labels hnm
  simp only [encodeQuery] at henc
  cases hne : encodeName (joinDots ls) off true d with
  | error e => simp [hne] at henc
  | ok rn =>
    obtain ⟨nb, d1⟩ := rn
    simp only [hne, packBE_ok (show type < 256 ^ 2 by omega), packBE_ok (show cls < 256 ^ 2 by omega)] at henc
    cases henc
    have h0 : CutAt M off (nb ++ (beN 2 type ++ (beN 2 cls ++ []))) n := by simpa [List.append_assoc] using hcut
    simp only [List.length_append, beN_length] at hn
    rcases name_step ls hls hne h0 hd with ⟨_, h⟩ | ⟨_, hA, hd1, h1⟩
    · simp [decodeQuery, h]
    rcases readBE_step (show type < 256 ^ 2 by omega) h1 with ⟨_, h⟩ | ⟨_, hB, h2⟩
    · simp [decodeQuery, hA, h]
    rcases readBE_step (show cls < 256 ^ 2 by omega) h2 with ⟨_, h⟩ | ⟨_, hC, h3⟩
    · simp [decodeQuery, hA, hB, h]
    omega

/-- **A question section cut by the end of the message**: the questions wholly before the cut are
    read back, then `Query.decode` raises `EOFError`, which `Message.decode` catches. -/
theorem queries_trunc : ∀ (qs : List Query) (off : Nat) (d d' : Dict) (B M : Bytes) (n : Nat),
    (∀ q ∈ qs, wfQuery q = true) → encodeQueries qs off d = .ok (B, d') → n < B.length → CutAt M off B n → DictOK M off d →
    ∃ k p, k < qs.length ∧ decodeQueries qs.length M off = .ok (qs.take k, p, true) := by
  intro qs
  induction qs with
  | nil =>
    intro off d d' B M n _ henc hn _ _
    simp only [encodeQueries] at henc
    cases henc
    simp at hn
  | cons q qs ih =>
    intro off d d' B M n hwf henc hn hcut hd
    simp only [encodeQueries] at henc
    cases h1 : encodeQuery q off d with
    | error e => simp [h1] at henc
    | ok r1 =>
      obtain ⟨b1, d1⟩ := r1
      simp only [h1] at henc
      cases h2 : encodeQueries qs (off + b1.length) d1 with
      | error e => simp [h2] at henc
      | ok r2 =>
        obtain ⟨b2, d2⟩ := r2
        simp only [h2] at henc
        cases henc
        rw [List.length_append] at hn
        by_cases hin : n < b1.length
        · have := query_cut q (hwf q (by simp)) off d d1 b1 M n h1 hin (hcut.left (by omega)) hd
          exact ⟨0, off, by simp, by simp [decodeQueries, this]⟩
        · obtain ⟨hp, hc⟩ := hcut.right (by omega)
          obtain ⟨hq, hd1⟩ := query_rt q (hwf q (by simp)) off d d1 b1 M h1 hp hd
          obtain ⟨k, p, hk, hdec⟩ := ih (off + b1.length) d1 d' b2 M (n - b1.length)
            (fun x hx => hwf x (by simp [hx])) h2 (by omega) hc hd1
          exact ⟨k + 1, p, by simp; omega, by simp [decodeQueries, hq, hdec]⟩

/-- **A record section cut by the end of the message** (`parseRecords`): the records wholly before
    the cut are read back, then the header's or the payload's `decode` raises `EOFError`, which
    `parseRecords` catches. -/
theorem rrs_trunc : ∀ (rs : List RR) (off : Nat) (d d' : Dict) (B M : Bytes) (n : Nat),
    (∀ r ∈ rs, wfRR r = true) → encodeRRs rs off d = .ok (B, d') → n < B.length → CutAt M off B n → DictOK M off d →
    ∃ k p, k < rs.length ∧ parseRecords rs.length M off = .ok (rs.take k, p, true) := by
  intro rs
  induction rs with
  | nil =>
    intro off d d' B M n _ henc hn _ _
    simp only [encodeRRs] at henc
    cases henc
    simp at hn
  | cons r rs ih =>
    intro off d d' B M n hwf henc hn hcut hd
    simp only [encodeRRs] at henc
    cases h1 : encodeRR r off d with
    | error e => simp [h1] at henc
    | ok r1 =>
      obtain ⟨b1, d1⟩ := r1
      simp only [h1] at henc
      cases h2 : encodeRRs rs (off + b1.length) d1 with
      | error e => simp [h2] at henc
      | ok r2 =>
        obtain ⟨b2, d2⟩ := r2
        simp only [h2] at henc
        cases henc
        rw [List.length_append] at hn
        have hwr := hwf r (by simp)
        by_cases hin : n < b1.length
        · refine ⟨0, off, by simp, ?_⟩
          rcases rr_cut r hwr off d d1 b1 M n h1 hin (hcut.left (by omega)) hd with h | ⟨h, p1, hh, hty, hf⟩
          · simp [parseRecords, h]
          · simp [parseRecords, hh, hty, hf]
        · obtain ⟨hp, hc⟩ := hcut.right (by omega)
          obtain ⟨p1, rdlen, hh, hf, hd1⟩ := rr_rt r hwr off d d1 b1 M h1 hp hd
          have hpay : (some (⟨(schema r.type).isNone, (r.payload.map (·.vals)).getD []⟩ : Payload)) = r.payload := by
            simp only [wfRR, Bool.and_eq_true] at hwr
            cases hp : r.payload with
            | none => simp [hp] at hwr
            | some p =>
              simp only [hp, Bool.and_eq_true, beq_iff_eq] at hwr
              obtain ⟨u, vals⟩ := p
              simp only at hwr
              simp [← hwr.2.1]
          obtain ⟨k, p, hk, hdec⟩ := ih (off + b1.length) d1 d' b2 M (n - b1.length)
            (fun x hx => hwf x (by simp [hx])) h2 (by omega) hc hd1
          refine ⟨k + 1, p, by simp; omega, ?_⟩
          simp only [List.length_cons, parseRecords, hh, hf, hdec, hpay, List.take_succ_cons]

end TwistedProps.C32
