import TwistedProps.C32.Name
/-!
C32 lemmas: *which* offsets `Name.encode` records in the compression dictionary.

A compression pointer is `0xC000 | offset` with a 14-bit offset, so a suffix of a name may be
recorded only when **its own** offset is below 2^14 — not the offset at which the name starts.  A
name that straddles offset 2^14 of the message (it starts below, a later label starts at or after
it) has its first suffixes recorded and the later ones not.  `recorded_entries` says exactly what
the new entries are (suffix `i` of the name at the offset of label `i`, only when that offset is
below 2^14); `straddling_suffix_not_recorded` is the consequence for a suffix at or beyond 2^14;
`later_use_round_trip` is the round trip of a second name written with the dictionary the first
left behind (any offsets, so in particular a later use of a suffix of a straddling name).
-/
namespace TwistedProps.C32
open Twisted.Py Twisted.Dns.Wire

/-- offset, relative to the start of the name, of label `i` when the labels before it are written in full -/
def labelOff : List Bytes → Nat → Nat
  | [], _ => 0
  | _ :: _, 0 => 0
  | l :: rest, i + 1 => 1 + l.length + labelOff rest i

theorem lookup_append_of_not_key (pre d : Dict) (k : Bytes) (h : ∀ t, (k, t) ∉ pre) :
    (pre ++ d).lookup k = d.lookup k := by
  induction pre with
  | nil => rfl
  | cons e pre ih =>
    obtain ⟨k', t'⟩ := e
    have hne : (k == k') = false := by
      apply Bool.eq_false_iff.mpr
      intro heq
      have : k = k' := by simpa using heq
      subst this
      exact h t' (by simp)
    rw [List.cons_append, List.lookup_cons, hne]
    exact ih (fun t hm => h t (List.mem_cons_of_mem _ hm))

/-- **What `Name.encode` records.**  For a name of 1..63-byte labels written at offset `off` (any
    dictionary, with or without compression): the dictionary afterwards is the old one with new
    entries in front, and every new entry is *suffix `i` of the name ↦ the offset of label `i`*,
    recorded only when **that** offset is below 2^14 (and only when compressing). -/
theorem recorded_entries_aux (ls : List Bytes) (hwf : WfLabels ls) :
    ∀ (fuel off : Nat) (comp : Bool) (d : Dict) (B : Bytes) (d' : Dict), (joinDots ls).length < fuel →
      encodeNameAux fuel (joinDots ls) off comp d = .ok (B, d') →
      ∃ pre, d' = pre ++ d ∧ ∀ k t, (k, t) ∈ pre →
        comp = true ∧ ∃ i, i < ls.length ∧ k = joinDots (ls.drop i) ∧ t = off + labelOff ls i ∧ t < 16384 := by
  induction ls with
  | nil =>
    intro fuel off comp d B d' hf henc
    cases fuel with
    | zero => simp at hf
    | succ fuel =>
      rw [encodeNameAux_succ] at henc
      simp only [joinDots, if_true] at henc
      cases henc
      exact ⟨[], rfl, fun k t h => by cases h⟩
  | cons l rest ih =>
    intro fuel off comp d B d' hf henc
    have hl : WfLabel l := hwf l (by simp)
    have hlne : l ≠ [] := by intro e; have := hl.1; simp [e] at this
    have hname : joinDots (l :: rest) ≠ [] := joinDots_cons_ne_nil hlne
    cases fuel with
    | zero => simp at hf
    | succ fuel =>
      rw [encodeNameAux_succ, if_neg hname] at henc
      cases hlk : (if comp = true then List.lookup (joinDots (l :: rest)) d else none) with
      | some t =>
        rw [hlk] at henc
        simp only at henc
        cases henc
        exact ⟨[], rfl, fun k t h => by cases h⟩
      | none =>
        rw [hlk] at henc
        simp only at henc
        -- the entry recorded for the whole name: only when its offset fits a pointer
        have hd1 : ∃ p1, (if comp = true ∧ off < maxPtr then (joinDots (l :: rest), off) :: d else d) = p1 ++ d ∧
            ∀ k t, (k, t) ∈ p1 → comp = true ∧ k = joinDots (l :: rest) ∧ t = off ∧ t < 16384 := by
          by_cases hc : comp = true ∧ off < maxPtr
          · rw [if_pos hc]
            refine ⟨[(joinDots (l :: rest), off)], rfl, fun k t hm => ?_⟩
            simp only [List.mem_singleton, Prod.mk.injEq] at hm
            exact ⟨hc.1, hm.1, hm.2, by rw [hm.2]; exact hc.2⟩
          · rw [if_neg hc]
            exact ⟨[], rfl, fun k t hm => by cases hm⟩
        obtain ⟨p1, hp1, hp1m⟩ := hd1
        rw [hp1] at henc
        cases rest with
        | nil =>
          rw [nextLabel_last hl] at henc
          simp only at henc
          rw [if_neg (by have := hl.2.1; omega)] at henc
          cases henc
          refine ⟨p1, rfl, fun k t hm => ?_⟩
          obtain ⟨hc, hk, ht, h14⟩ := hp1m k t hm
          exact ⟨hc, 0, by simp, by simpa using hk, by simpa [labelOff] using ht, h14⟩
        | cons m rest' =>
          rw [nextLabel_more hl] at henc
          simp only at henc
          rw [if_neg (by have := hl.2.1; omega)] at henc
          cases hrec : encodeNameAux fuel (joinDots (m :: rest')) (off + 1 + l.length) comp (p1 ++ d) with
          | error e => rw [hrec] at henc; cases henc
          | ok r =>
            obtain ⟨bs, d2⟩ := r
            rw [hrec] at henc
            simp only at henc
            cases henc
            have hjl := joinDots_length_cons l m rest'
            obtain ⟨p2, hp2, hp2m⟩ := ih (wfLabels_tail hwf) fuel (off + 1 + l.length) comp (p1 ++ d) bs _
              (by omega) hrec
            refine ⟨p2 ++ p1, by rw [hp2, List.append_assoc], fun k t hm => ?_⟩
            rcases List.mem_append.mp hm with h | h
            · obtain ⟨hc, i, hi, hk, ht, h14⟩ := hp2m k t h
              refine ⟨hc, i + 1, by simpa using hi, by simpa using hk, ?_, h14⟩
              rw [ht]
              simp only [labelOff]
              omega
            · obtain ⟨hc, hk, ht, h14⟩ := hp1m k t h
              exact ⟨hc, 0, by simp, by simpa using hk, by simpa [labelOff] using ht, h14⟩

theorem recorded_entries (ls : List Bytes) (hwf : WfLabels ls) (off : Nat) (comp : Bool) (d : Dict) (B : Bytes) (d' : Dict)
    (henc : encodeName (joinDots ls) off comp d = .ok (B, d')) :
    ∃ pre, d' = pre ++ d ∧ ∀ k t, (k, t) ∈ pre →
      comp = true ∧ ∃ i, i < ls.length ∧ k = joinDots (ls.drop i) ∧ t = off + labelOff ls i ∧ t < 16384 :=
  recorded_entries_aux ls hwf _ off comp d B d' (Nat.lt_succ_self _) henc

theorem wfLabels_drop {ls : List Bytes} (h : WfLabels ls) (i : Nat) : WfLabels (ls.drop i) :=
  fun x hx => h x (List.mem_of_mem_drop hx)

/-- different suffixes of a name of proper labels are different dictionary keys -/
theorem suffix_key_inj {ls : List Bytes} (hwf : WfLabels ls) {i j : Nat} (hi : i < ls.length) (hj : j < ls.length)
    (h : joinDots (ls.drop i) = joinDots (ls.drop j)) : i = j := by
  have hne : ∀ n, n < ls.length → ls.drop n ≠ [] := by
    intro n hn e
    have := congrArg List.length e
    simp only [List.length_drop, List.length_nil] at this
    omega
  have := joinDots_inj (wfLabels_drop hwf i) (wfLabels_drop hwf j) (hne i hi) (hne j hj) h
  have := congrArg List.length this
  simp only [List.length_drop] at this
  omega

/-- **A suffix that starts at or beyond offset 2^14 is not recorded** — also when the name itself
    starts below 2^14 (a name straddling the limit): the dictionary's answer for that suffix is
    what it was before the name was written, so a later use of the suffix is never written as a
    pointer to this occurrence. -/
theorem straddling_suffix_not_recorded (ls : List Bytes) (hwf : WfLabels ls) (off : Nat) (comp : Bool) (d : Dict)
    (B : Bytes) (d' : Dict) (henc : encodeName (joinDots ls) off comp d = .ok (B, d'))
    (i : Nat) (hi : i < ls.length) (hbig : 16384 ≤ off + labelOff ls i) :
    d'.lookup (joinDots (ls.drop i)) = d.lookup (joinDots (ls.drop i)) := by
  obtain ⟨pre, hpre, hm⟩ := recorded_entries ls hwf off comp d B d' henc
  rw [hpre]
  apply lookup_append_of_not_key
  intro t hmem
  obtain ⟨_, j, hj, hk, ht, h14⟩ := hm _ _ hmem
  have := suffix_key_inj hwf hi hj hk
  subst this
  omega

/-- every offset in the dictionary fits a compression pointer, before ⇒ after (no hypothesis about
    the message the bytes end up in) -/
theorem recorded_offsets_fit_pointer (ls : List Bytes) (hwf : WfLabels ls) (off : Nat) (comp : Bool) (d : Dict)
    (B : Bytes) (d' : Dict) (henc : encodeName (joinDots ls) off comp d = .ok (B, d'))
    (hd : ∀ k t, (k, t) ∈ d → t < 16384) : ∀ k t, (k, t) ∈ d' → t < 16384 := by
  obtain ⟨pre, hpre, hm⟩ := recorded_entries ls hwf off comp d B d' henc
  intro k t hmem
  rw [hpre] at hmem
  rcases List.mem_append.mp hmem with h | h
  · obtain ⟨_, _, _, _, _, h14⟩ := hm k t h
    exact h14
  · exact hd k t h

/-- **Two names, one dictionary**: a name written at `off1`, then — anywhere later in the message — a
    second name written with the dictionary the first left behind (for instance a suffix of the
    first, which may or may not have been recorded): both are read back by `Name.decode`.  No
    condition on the offsets: the first name may lie below, across or beyond offset 2^14. -/
theorem later_use_round_trip (ls1 ls2 : List Bytes) (hwf1 : WfLabels ls1) (hwf2 : WfLabels ls2)
    (off1 off2 : Nat) (c1 c2 : Bool) (d d1 d2 : Dict) (B1 B2 M : Bytes)
    (h1 : encodeName (joinDots ls1) off1 c1 d = .ok (B1, d1)) (h2 : encodeName (joinDots ls2) off2 c2 d1 = .ok (B2, d2))
    (hlater : off1 + B1.length ≤ off2) (hp1 : Placed M off1 B1) (hp2 : Placed M off2 B2) (hd : DictOK M off1 d) :
    decodeName M off1 = .ok (joinDots ls1, off1 + B1.length) ∧
    decodeName M off2 = .ok (joinDots ls2, off2 + B2.length) ∧ DictOK M (off2 + B2.length) d2 := by
  obtain ⟨r1, k1⟩ := name_roundtrip ls1 hwf1 off1 c1 d d1 B1 M h1 hp1 hd
  obtain ⟨r2, k2⟩ := name_roundtrip ls2 hwf2 off2 c2 d1 d2 B2 M h2 hp2 (k1.mono hlater)
  exact ⟨r1, r2, k2⟩

/-! ### the exact dictionary after a fresh name -/

/-- the dictionary after a name none of whose suffixes was in it: suffix `i` at the offset of label
    `i`, for exactly the labels that start below 2^14 -/
def recorded : List Bytes → Nat → Dict → Dict
  | [], _, d => d
  | l :: rest, off, d =>
    recorded rest (off + 1 + l.length) (if off < maxPtr then (joinDots (l :: rest), off) :: d else d)

/-- a name written in full: length octet + label, …, the zero octet -/
def fullName : List Bytes → Bytes
  | [] => [0]
  | l :: rest => UInt8.ofNat l.length :: l ++ fullName rest

theorem fresh_name_encoding_aux (ls : List Bytes) (hwf : WfLabels ls) :
    ∀ (fuel off : Nat) (d : Dict), (joinDots ls).length < fuel →
      (∀ i, i < ls.length → d.lookup (joinDots (ls.drop i)) = none) →
      encodeNameAux fuel (joinDots ls) off true d = .ok (fullName ls, recorded ls off d) := by
  induction ls with
  | nil =>
    intro fuel off d hf _
    cases fuel with
    | zero => simp at hf
    | succ fuel => rw [encodeNameAux_succ]; simp [joinDots, fullName, recorded]
  | cons l rest ih =>
    intro fuel off d hf hfresh
    have hl : WfLabel l := hwf l (by simp)
    have hlne : l ≠ [] := by intro e; have := hl.1; simp [e] at this
    have hname : joinDots (l :: rest) ≠ [] := joinDots_cons_ne_nil hlne
    cases fuel with
    | zero => simp at hf
    | succ fuel =>
      have h0 : List.lookup (joinDots (l :: rest)) d = none := by simpa using hfresh 0 (by simp)
      rw [encodeNameAux_succ, if_neg hname]
      simp only [if_true, h0, true_and]
      generalize hd1 : (if off < maxPtr then (joinDots (l :: rest), off) :: d else d) = d1
      have hfresh1 : ∀ i, i < rest.length → d1.lookup (joinDots (rest.drop i)) = none := by
        intro i hi
        have hd := hfresh (i + 1) (by simpa using hi)
        simp only [List.drop_succ_cons] at hd
        rw [← hd1]
        split
        · have hne : (joinDots (rest.drop i) == joinDots (l :: rest)) = false := by
            apply Bool.eq_false_iff.mpr
            intro heq
            have heq' : joinDots ((l :: rest).drop (i + 1)) = joinDots ((l :: rest).drop 0) := by simpa using heq
            have := suffix_key_inj hwf (by simpa using hi) (by simp) heq'
            omega
          rw [List.lookup_cons, hne]
          exact hd
        · exact hd
      cases rest with
      | nil =>
        rw [nextLabel_last hl]
        simp only
        rw [if_neg (by have := hl.2.1; omega)]
        simp [fullName, recorded, hd1]
      | cons m rest' =>
        rw [nextLabel_more hl]
        simp only
        rw [if_neg (by have := hl.2.1; omega)]
        have hjl := joinDots_length_cons l m rest'
        rw [ih (wfLabels_tail hwf) fuel (off + 1 + l.length) d1 (by omega) hfresh1]
        simp [fullName, recorded, hd1]


theorem recorded_superset (ls : List Bytes) : ∀ (off : Nat) (d : Dict) (e : Bytes × Nat), e ∈ d → e ∈ recorded ls off d := by
  induction ls with
  | nil => intro off d e h; exact h
  | cons l rest ih =>
    intro off d e h
    simp only [recorded]
    apply ih
    split
    · exact List.mem_cons_of_mem _ h
    · exact h

/-- … and nothing is forgotten: every suffix whose own offset is below 2^14 is recorded -/
theorem recorded_complete (ls : List Bytes) : ∀ (off : Nat) (d : Dict) (i : Nat), i < ls.length →
    off + labelOff ls i < 16384 → (joinDots (ls.drop i), off + labelOff ls i) ∈ recorded ls off d := by
  induction ls with
  | nil => intro off d i hi; simp at hi
  | cons l rest ih =>
    intro off d i hi h14
    cases i with
    | zero =>
      simp only [recorded, labelOff, Nat.add_zero, List.drop_zero] at h14 ⊢
      apply recorded_superset
      rw [if_pos (by simpa [maxPtr] using h14)]
      exact List.mem_cons_self
    | succ i =>
      simp only [recorded, labelOff, List.drop_succ_cons] at h14 ⊢
      have := ih (off + 1 + l.length) (if off < maxPtr then (joinDots (l :: rest), off) :: d else d) i
        (by simpa using hi) (by omega)
      rw [show off + (1 + l.length + labelOff rest i) = off + 1 + l.length + labelOff rest i by omega]
      exact this

/-- **`Name.encode` of a name none of whose suffixes is in the dictionary, exactly**: the name is
    written in full and the dictionary gains suffix `i` ↦ offset of label `i` for exactly the labels
    that start below 2^14 (`recorded`, `recorded_complete`, `recorded_entries`) — each suffix is
    judged by its own offset. -/
theorem fresh_name_encoding (ls : List Bytes) (hwf : WfLabels ls) (off : Nat) (d : Dict)
    (hfresh : ∀ i, i < ls.length → d.lookup (joinDots (ls.drop i)) = none) :
    encodeName (joinDots ls) off true d = .ok (fullName ls, recorded ls off d) :=
  fresh_name_encoding_aux ls hwf _ off d (Nat.lt_succ_self _) hfresh

end TwistedProps.C32
