import TwistedModel.Inline.Driver
import TwistedProps.C05.Sem
/-!
C05, part B: the transcribed `_inlineCallbacks` driver (Inline/Driver.lean), under ANY schedule of
fire/cancel events, resumes the generators with exactly the outcomes the reference driver `feed`
hands them, in the same order — stated as an invariant that relates every reachable state to
`feed σ (gen p)` for every `σ` that agrees with the outcomes delivered so far.
-/
namespace TwistedProps.C05
open Twisted.Inline Twisted.Inline.Driver

abbrev FR := Option (Outcome × Nat) × List Entry

def bindR (x : FR) (f : Outcome → Nat → List Entry → FR) : FR :=
  match x with
  | (none, l) => (none, l)
  | (some (o, n), l) => f o n l

@[simp] theorem bindR_none (l) (f) : bindR (none, l) f = (none, l) := rfl
@[simp] theorem bindR_some (o n l) (f) : bindR (some (o, n), l) f = f o n l := rfl

theorem bindR_assoc (x : FR) (f g) :
    bindR (bindR x f) g = bindR x (fun o n l => bindR (f o n l) g) := by
  rcases x with ⟨_ | ⟨o, n⟩, l⟩ <;> rfl

theorem bindR_pure (x : FR) : bindR x (fun o n l => (some (o, n), l)) = x := by
  rcases x with ⟨_ | ⟨o, n⟩, l⟩ <;> rfl

theorem feed_call (σ) (inner : Gen) (k) (n l) :
    feed σ (.call inner k) n l = bindR (feed σ inner n l) (fun o n' l' => feed σ (k o) n' l') := by
  rw [feed]
  rcases feed σ inner n l with ⟨_ | ⟨o, n'⟩, l'⟩ <;> rfl

/-- the reference driver on a stack of suspended activations (innermost first) resumed with `o` -/
def feedStack (σ : Nat → Option Outcome) : List (Outcome → Gen) → Outcome → Nat → List Entry → FR
  | [], o, n, l => (some (o, n), l)
  | f :: rest, o, n, l => bindR (feed σ (f o) n l) (feedStack σ rest)

theorem feedStack_append (σ) (fs gs : List (Outcome → Gen)) (o n l) :
    feedStack σ (fs ++ gs) o n l = bindR (feedStack σ fs o n l) (feedStack σ gs) := by
  induction fs generalizing o n l with
  | nil => rfl
  | cons f fs ih =>
    simp only [List.cons_append, feedStack, bindR_assoc]
    congr 1
    funext o' n' l'
    exact ih o' n' l'

/-- what the reference driver does from a state that waits for Deferred `n - 1` -/
def resumeSpec (σ : Nat → Option Outcome) (fs : List (Outcome → Gen)) (n : Nat) (l : List Entry) : FR :=
  match σ (n - 1) with
  | none => (none, l)
  | some o => feedStack σ fs o n l

theorem resumeSpec_append (σ) (fs gs) (n l) :
    resumeSpec σ (fs ++ gs) n l = bindR (resumeSpec σ fs n l) (feedStack σ gs) := by
  unfold resumeSpec
  cases σ (n - 1) with
  | none => rfl
  | some o => exact feedStack_append σ fs gs o n l

/-- `σ` agrees with every outcome delivered so far -/
def Agrees (s : State) (σ : Nat → Option Outcome) : Prop :=
  ∀ i o, (s.ds i).delivered = some o → σ i = some o

/-- consistency of the awaited Deferreds -/
structure WFD (s : State) : Prop where
  called : ∀ i, (s.ds i).called = (s.ds i).delivered.isSome
  result : ∀ i, (s.ds i).result = none ∨ (s.ds i).result.map Res.outcome = (s.ds i).delivered
  fresh : ∀ i, s.next ≤ i → (s.ds i).result.map Res.outcome = (s.ds i).delivered

/-- the function waits: for Deferred `next - 1`, which has not fired -/
structure Waiting (s : State) : Prop where
  pos : 0 < s.next
  on : s.waitingOn = some (s.next - 1)
  unfired : (s.ds (s.next - 1)).called = false

/-- fields of the awaited Deferreds that `runGen`/`unwind` never touch -/
def SameD (s s' : State) : Prop :=
  ∀ i, (s'.ds i).delivered = (s.ds i).delivered ∧ (s'.ds i).called = (s.ds i).called ∧
       (s'.ds i).cancelCalls = (s.ds i).cancelCalls ∧ (s'.ds i).canc = (s.ds i).canc ∧
       (s'.ds i).suppress = (s.ds i).suppress

theorem SameD.refl (s : State) : SameD s s := fun _ => ⟨rfl, rfl, rfl, rfl, rfl⟩

theorem SameD.trans {a b c : State} (h1 : SameD a b) (h2 : SameD b c) : SameD a c := by
  intro i
  obtain ⟨x1, x2, x3, x4, x5⟩ := h1 i
  obtain ⟨y1, y2, y3, y4, y5⟩ := h2 i
  exact ⟨y1.trans x1, y2.trans x2, y3.trans x3, y4.trans x4, y5.trans x5⟩

theorem Agrees.of_sameD {s s' : State} {σ} (h : SameD s s') : Agrees s' σ ↔ Agrees s σ := by
  constructor
  · intro a i o hd; exact a i o ((h i).1 ▸ hd)
  · intro a i o hd; exact a i o ((h i).1 ▸ hd)

/-- what `runGen` guarantees -/
structure RunOk (σ : Nat → Option Outcome) (g : Gen) (s s' : State) (r : Susp) : Prop where
  wfd : WFD s'
  same : SameD s s'
  final : s'.final = s.final
  stack : s'.stack = s.stack
  spec : match r with
    | .finished o => feed σ g s.next s.log = (some (o, s'.next), s'.log)
    | .suspended fs => fs ≠ [] ∧ Waiting s' ∧ feed σ g s.next s.log = resumeSpec σ fs s'.next s'.log

theorem runGen_ok (σ : Nat → Option Outcome) (g : Gen) :
    ∀ s, WFD s → Agrees s σ → RunOk σ g s (runGen g s).1 (runGen g s).2 := by
  induction g with
  | done o =>
    intro s w _
    exact ⟨w, SameD.refl s, rfl, rfl, by simp [runGen, feed]⟩
  | emit e g ih =>
    intro s w a
    have w' : WFD (s.emit e) := ⟨w.called, w.result, w.fresh⟩
    have h := ih (s.emit e) w' a
    simp only [runGen]
    refine ⟨h.wfd, h.same, h.final, h.stack, ?_⟩
    have hs := h.spec
    simp only [feed]
    exact hs
  | yieldv v k ih =>
    intro s w a
    have h := ih v s w a
    simp only [runGen]
    exact ⟨h.wfd, h.same, h.final, h.stack, by simpa [feed] using h.spec⟩
  | await k ih =>
    intro s w a
    simp only [runGen]
    rcases hr : (s.ds s.next).result with _ | r
    · -- suspend
      simp only
      have hdel : (s.ds s.next).delivered = none := by
        have := w.fresh s.next (Nat.le_refl _); rw [hr] at this; exact this.symm
      have hcal : (s.ds s.next).called = false := by rw [w.called, hdel]; rfl
      refine ⟨⟨w.called, w.result, fun i hi => w.fresh i (by simp at hi; omega)⟩, SameD.refl s, rfl, rfl, ?_⟩
      refine ⟨by simp, ⟨by simp, by simp, by simpa using hcal⟩, ?_⟩
      simp only [feed, resumeSpec, Nat.add_sub_cancel]
      cases σ s.next with
      | none => rfl
      | some o =>
        simp only [feedStack]
        rw [bindR_pure]
    · -- the Deferred already has a result
      simp only
      have hdel : (s.ds s.next).delivered = some r.outcome := by
        have := w.fresh s.next (Nat.le_refl _); rw [hr] at this; exact this.symm
      have hσ : σ s.next = some r.outcome := a _ _ hdel
      let s1 : State := { (s.setD s.next { s.ds s.next with result := none }) with next := s.next + 1 }
      have hsame : SameD s s1 := by
        intro i
        by_cases hi : i = s.next
        · subst hi; simp [s1, State.setD]
        · simp [s1, State.setD, hi]
      have w1 : WFD s1 := by
        refine ⟨fun i => ?_, fun i => ?_, fun i hi => ?_⟩
        · rw [(hsame i).2.1, (hsame i).1]; exact w.called i
        · by_cases h : i = s.next
          · left; subst h; simp [s1, State.setD]
          · have : s1.ds i = s.ds i := by simp [s1, State.setD, h]
            rw [this]; exact w.result i
        · have hne : i ≠ s.next := by simp [s1] at hi; omega
          have : s1.ds i = s.ds i := by simp [s1, State.setD, hne]
          rw [this]; exact w.fresh i (by simp [s1] at hi; omega)
      have h := ih r.outcome s1 w1 ((Agrees.of_sameD hsame).mpr a)
      refine ⟨h.wfd, hsame.trans h.same, h.final, h.stack, ?_⟩
      have hs := h.spec
      simp only [feed, hσ]
      exact hs
  | awaitC k ih =>
    -- `Deferred.__iter__`: same reference behaviour; the Deferred keeps its result
    intro s w a
    simp only [runGen]
    rcases hr : (s.ds s.next).result with _ | r
    · simp only
      have hdel : (s.ds s.next).delivered = none := by
        have := w.fresh s.next (Nat.le_refl _); rw [hr] at this; exact this.symm
      have hcal : (s.ds s.next).called = false := by rw [w.called, hdel]; rfl
      refine ⟨⟨w.called, w.result, fun i hi => w.fresh i (by simp at hi; omega)⟩, SameD.refl s, rfl, rfl, ?_⟩
      refine ⟨by simp, ⟨by simp, by simp, by simpa using hcal⟩, ?_⟩
      simp only [feed, resumeSpec, Nat.add_sub_cancel]
      cases σ s.next with
      | none => rfl
      | some o =>
        simp only [feedStack]
        rw [bindR_pure]
    · simp only
      have hdel : (s.ds s.next).delivered = some r.outcome := by
        have := w.fresh s.next (Nat.le_refl _); rw [hr] at this; exact this.symm
      have hσ : σ s.next = some r.outcome := a _ _ hdel
      let s1 : State := { s with next := s.next + 1 }
      have hsame : SameD s s1 := fun _ => ⟨rfl, rfl, rfl, rfl, rfl⟩
      have w1 : WFD s1 := ⟨w.called, w.result, fun i hi => w.fresh i (by simp [s1] at hi; omega)⟩
      have h := ih r.outcome s1 w1 ((Agrees.of_sameD hsame).mpr a)
      refine ⟨h.wfd, hsame.trans h.same, h.final, h.stack, ?_⟩
      have hs := h.spec
      simp only [feed, hσ]
      exact hs
  | call inner k ihi ihk =>
    intro s w a
    simp only [runGen]
    have hi := ihi s w a
    rcases hrun : runGen inner s with ⟨s', r⟩
    rw [hrun] at hi
    cases r with
    | finished o =>
      simp only
      have a' : Agrees s' σ := (Agrees.of_sameD hi.same).mpr a
      have hk := ihk o s' hi.wfd a'
      refine ⟨hk.wfd, hi.same.trans hk.same, hk.final.trans hi.final, hk.stack.trans hi.stack, ?_⟩
      have h1 := hi.spec
      have h2 := hk.spec
      simp only at h1
      rw [feed_call, h1, bindR_some]
      exact h2
    | suspended fs =>
      simp only
      refine ⟨hi.wfd, hi.same, hi.final, hi.stack, ?_⟩
      obtain ⟨hne, hw, hf⟩ := hi.spec
      refine ⟨by simp [hne], hw, ?_⟩
      rw [feed_call, hf, resumeSpec_append]
      congr 1
      funext o n l
      simp only [feedStack]
      rw [bindR_pure]

/-- what `unwind` guarantees: either everything finished and the returned Deferred fired once more,
    or some activation waits again -/
structure UnwindOk (σ : Nat → Option Outcome) (fs : List (Outcome → Gen)) (o : Outcome) (s s' : State) : Prop where
  wfd : WFD s'
  same : SameD s s'
  spec : (s'.stack = [] ∧ ∃ c n', s'.final = s.final ++ [c] ∧ feedStack σ fs o s.next s.log = (some (c, n'), s'.log))
       ∨ (s'.stack ≠ [] ∧ s'.final = s.final ∧ Waiting s' ∧
            feedStack σ fs o s.next s.log = resumeSpec σ s'.stack s'.next s'.log)

theorem unwind_ok (σ : Nat → Option Outcome) (fs : List (Outcome → Gen)) :
    ∀ o s, WFD s → Agrees s σ → UnwindOk σ fs o s (unwind fs o s) := by
  induction fs with
  | nil =>
    intro o s w _
    refine ⟨⟨w.called, w.result, w.fresh⟩, SameD.refl s, Or.inl ⟨rfl, o, s.next, rfl, rfl⟩⟩
  | cons f rest ih =>
    intro o s w a
    have h := runGen_ok σ (f o) s w a
    simp only [unwind]
    rcases hrun : runGen (f o) s with ⟨s1, r⟩
    rw [hrun] at h
    cases r with
    | finished o' =>
      simp only
      have a1 : Agrees s1 σ := (Agrees.of_sameD h.same).mpr a
      have h2 := ih o' s1 h.wfd a1
      have hs := h.spec
      simp only at hs
      refine ⟨h2.wfd, h.same.trans h2.same, ?_⟩
      simp only [feedStack, hs, bindR_some, ← h.final]
      exact h2.spec
    | suspended gs =>
      simp only
      obtain ⟨hne, hw, hf⟩ := h.spec
      refine ⟨⟨h.wfd.called, h.wfd.result, h.wfd.fresh⟩, h.same, Or.inr ⟨by simp [hne], h.final, ⟨hw.pos, hw.on, hw.unfired⟩, ?_⟩⟩
      simp only [feedStack, hf]
      exact (resumeSpec_append σ gs rest s1.next s1.log).symm

/-- **The simulation invariant** of a started run of program `p`. -/
structure Inv (coro : Bool) (p : Stmt) (s : State) : Prop where
  wfd : WFD s
  waiting : s.stack ≠ [] → Waiting s
  spec : ∀ σ, Agrees s σ →
    (s.stack = [] → ∃ c n', s.final = [c] ∧ feed σ (gen coro p) 0 [] = (some (c, n'), s.log)) ∧
    (s.stack ≠ [] → s.final = [] ∧ feed σ (gen coro p) 0 [] = resumeSpec σ s.stack s.next s.log)

/-- before the function is called: Deferreds may have been fired, nothing else happened -/
structure PreInv (s : State) : Prop where
  wfd : WFD s
  next : s.next = 0
  stack : s.stack = []
  final : s.final = []
  log : s.log = []

theorem agrees_self (s : State) : Agrees s (fun i => (s.ds i).delivered) := fun _ _ h => h

/-- resuming a stack whose reference behaviour is the rest of the program re-establishes `Inv` -/
theorem inv_of_unwind (coro : Bool) (p : Stmt) (s0 : State) (fs : List (Outcome → Gen)) (o : Outcome)
    (w0 : WFD s0) (hfin : s0.final = [])
    (hspec : ∀ σ, Agrees s0 σ → feed σ (gen coro p) 0 [] = feedStack σ fs o s0.next s0.log) :
    Inv coro p (unwind fs o s0) := by
  have u0 := unwind_ok _ fs o s0 w0 (agrees_self s0)
  refine ⟨u0.wfd, ?_, ?_⟩
  · intro hne
    rcases u0.spec with ⟨hst, _⟩ | ⟨_, _, hw, _⟩
    · exact absurd hst hne
    · exact hw
  · intro σ a'
    have a0 : Agrees s0 σ := (Agrees.of_sameD u0.same).mp a'
    have u := unwind_ok σ fs o s0 w0 a0
    rcases u.spec with ⟨hst, c, n', hf, he⟩ | ⟨hne, hf, _, he⟩
    · exact ⟨fun _ => ⟨c, n', by rw [hf, hfin]; rfl, (hspec σ a0).trans he⟩, fun hne => absurd hst hne⟩
    · exact ⟨fun hst => absurd hst hne, fun _ => ⟨hf.trans hfin, (hspec σ a0).trans he⟩⟩

theorem start_inv (coro : Bool) (p : Stmt) (s : State) (h : PreInv s) : Inv coro p (start coro p s) := by
  have w : WFD (s.mark .start) := ⟨h.wfd.called, h.wfd.result, h.wfd.fresh⟩
  refine inv_of_unwind coro p (s.mark .start) _ _ w h.final ?_
  intro σ _
  have hn : (s.mark .start).next = 0 := h.next
  have hl : (s.mark .start).log = [] := h.log
  rw [hn, hl]
  simp only [feedStack]
  rw [bindR_pure]

/-! ### events preserve the invariant -/

@[simp] theorem setD_ds (s : State) (i : Nat) (d : AwD) (j : Nat) :
    (s.setD i d).ds j = if j = i then d else s.ds j := rfl
@[simp] theorem setD_next (s : State) (i d) : (s.setD i d).next = s.next := rfl
@[simp] theorem setD_stack (s : State) (i d) : (s.setD i d).stack = s.stack := rfl
@[simp] theorem setD_waitingOn (s : State) (i d) : (s.setD i d).waitingOn = s.waitingOn := rfl
@[simp] theorem setD_final (s : State) (i d) : (s.setD i d).final = s.final := rfl
@[simp] theorem setD_log (s : State) (i d) : (s.setD i d).log = s.log := rfl
@[simp] theorem mark_ds (s : State) (t) : (s.mark t).ds = s.ds := rfl
@[simp] theorem mark_next (s : State) (t) : (s.mark t).next = s.next := rfl
@[simp] theorem mark_stack (s : State) (t) : (s.mark t).stack = s.stack := rfl
@[simp] theorem mark_waitingOn (s : State) (t) : (s.mark t).waitingOn = s.waitingOn := rfl
@[simp] theorem mark_final (s : State) (t) : (s.mark t).final = s.final := rfl
@[simp] theorem mark_log (s : State) (t) : (s.mark t).log = s.log := rfl

/-- two states that differ only in fields the invariant does not read (`tl`, `suppress`, `canc`, `cancelCalls`) -/
structure FlagEq (s s' : State) : Prop where
  next : s'.next = s.next
  stack : s'.stack = s.stack
  waitingOn : s'.waitingOn = s.waitingOn
  final : s'.final = s.final
  log : s'.log = s.log
  ds : ∀ i, (s'.ds i).called = (s.ds i).called ∧ (s'.ds i).result = (s.ds i).result ∧
            (s'.ds i).delivered = (s.ds i).delivered

theorem FlagEq.wfd {s s' : State} (h : FlagEq s s') (w : WFD s) : WFD s' := by
  refine ⟨fun i => ?_, fun i => ?_, fun i hi => ?_⟩
  · rw [(h.ds i).1, (h.ds i).2.2]; exact w.called i
  · rw [(h.ds i).2.1, (h.ds i).2.2]; exact w.result i
  · rw [(h.ds i).2.1, (h.ds i).2.2]; exact w.fresh i (h.next ▸ hi)

theorem FlagEq.agrees {s s' : State} (h : FlagEq s s') {σ} : Agrees s' σ ↔ Agrees s σ := by
  constructor
  · intro a i o hd; exact a i o ((h.ds i).2.2 ▸ hd)
  · intro a i o hd; exact a i o ((h.ds i).2.2 ▸ hd)

theorem FlagEq.inv {coro : Bool} {p : Stmt} {s s' : State} (h : FlagEq s s') (v : Inv coro p s) : Inv coro p s' := by
  refine ⟨h.wfd v.wfd, ?_, ?_⟩
  · intro hne
    have hw := v.waiting (h.stack ▸ hne)
    exact ⟨h.next ▸ hw.pos, by rw [h.waitingOn, h.next]; exact hw.on, by rw [h.next, (h.ds _).1]; exact hw.unfired⟩
  · intro σ a
    have := v.spec σ (h.agrees.mp a)
    rw [h.stack, h.final, h.log, h.next]
    exact this

theorem FlagEq.preInv {s s' : State} (h : FlagEq s s') (v : PreInv s) : PreInv s' :=
  ⟨h.wfd v.wfd, h.next.trans v.next, h.stack.trans v.stack, h.final.trans v.final, h.log.trans v.log⟩

theorem flagEq_mark (s : State) (t : Tl) : FlagEq s (s.mark t) :=
  ⟨rfl, rfl, rfl, rfl, rfl, fun _ => ⟨rfl, rfl, rfl⟩⟩

theorem flagEq_setD (s : State) (i : Nat) (d : AwD) (h1 : d.called = (s.ds i).called)
    (h2 : d.result = (s.ds i).result) (h3 : d.delivered = (s.ds i).delivered) : FlagEq s (s.setD i d) := by
  refine ⟨rfl, rfl, rfl, rfl, rfl, fun j => ?_⟩
  by_cases hj : j = i
  · subst hj; simp [h1, h2, h3]
  · simp [hj]

/-- the Deferred `i` as `_startRunCallbacks` leaves it -/
def firedD (d : AwD) (o : Outcome) (r : Option Res) : AwD :=
  { d with called := true, canc := .none, delivered := some o, result := r }

theorem fire_eq (s : State) (i : Nat) (x : Res) :
    (fire s i x).1 =
      if (s.ds i).called then
        (if (s.ds i).suppress then s.setD i { s.ds i with suppress := false } else s)
      else if !s.stack.isEmpty && s.waitingOn == some i then
        unwind s.stack x.outcome (s.setD i (firedD (s.ds i) x.outcome none))
      else s.setD i (firedD (s.ds i) x.outcome (some x)) := by
  unfold fire firedD
  by_cases h1 : (s.ds i).called = true
  · by_cases h2 : (s.ds i).suppress = true <;> simp [h1, h2]
  · by_cases h3 : (!s.stack.isEmpty && s.waitingOn == some i) = true <;> simp [h1, h3]

theorem wfd_fired (s : State) (w : WFD s) (i : Nat) (o : Outcome) (r : Option Res)
    (hr : r = none ∨ r.map Res.outcome = some o) (hfresh : s.next ≤ i → r.map Res.outcome = some o) :
    WFD (s.setD i (firedD (s.ds i) o r)) := by
  refine ⟨fun j => ?_, fun j => ?_, fun j hj => ?_⟩
  · by_cases h : j = i
    · subst h; simp [firedD]
    · simp [h, w.called j]
  · by_cases h : j = i
    · subst h; rcases hr with hr | hr <;> simp [firedD, hr]
    · simp [h, w.result j]
  · by_cases h : j = i
    · subst h; simp [firedD, hfresh hj]
    · simp [h]; exact w.fresh j hj

theorem agrees_fired (s : State) (w : WFD s) (i : Nat) (o : Outcome) (r) (hc : (s.ds i).called = false) {σ}
    (a : Agrees (s.setD i (firedD (s.ds i) o r)) σ) : σ i = some o ∧ Agrees s σ := by
  refine ⟨a i o (by simp [firedD]), fun j x hd => ?_⟩
  have hne : j ≠ i := by
    intro h; subst h
    have := w.called j; rw [hc, hd] at this; simp at this
  exact a j x (by simp [hne, hd])

theorem fire_inv (coro : Bool) (p : Stmt) (s : State) (v : Inv coro p s) (i : Nat) (x : Res) : Inv coro p (fire s i x).1 := by
  rw [fire_eq]
  generalize ho : x.outcome = o
  by_cases h1 : (s.ds i).called = true
  · rw [if_pos h1]
    by_cases h2 : (s.ds i).suppress = true
    · rw [if_pos h2]; exact (flagEq_setD s i { s.ds i with suppress := false } rfl rfl rfl).inv v
    · rw [if_neg h2]; exact v
  · have hc : (s.ds i).called = false := by simpa using h1
    rw [if_neg h1]
    by_cases h3 : (!s.stack.isEmpty && s.waitingOn == some i) = true
    · rw [if_pos h3]
      have hne : s.stack ≠ [] := by intro h; simp [h] at h3
      have hon : s.waitingOn = some i := by simp at h3; exact h3.2
      have hw := v.waiting hne
      have hi : i = s.next - 1 := by have := hw.on; rw [hon] at this; exact Option.some.inj this
      have hfin : s.final = [] := ((v.spec _ (agrees_self s)).2 hne).1
      refine inv_of_unwind coro p _ s.stack o (wfd_fired s v.wfd i o none (Or.inl rfl) ?_) hfin ?_
      · intro hle; have := hw.pos; omega
      · intro σ a
        obtain ⟨hσ, a0⟩ := agrees_fired s v.wfd i o none hc a
        have := ((v.spec σ a0).2 hne).2
        rw [this, resumeSpec, ← hi, hσ]
        rfl
    · rw [if_neg h3]
      have hw1 : WFD (s.setD i (firedD (s.ds i) o (some x))) :=
        wfd_fired s v.wfd i o (some x) (Or.inr (by simp [ho])) (fun _ => by simp [ho])
      refine ⟨hw1, ?_, ?_⟩
      · intro hne
        have hne' : s.stack ≠ [] := hne
        have hw := v.waiting hne'
        have hi : i ≠ s.next - 1 := by
          intro h
          apply h3
          have : s.waitingOn = some i := by rw [h]; exact hw.on
          cases hs : s.stack with
          | nil => exact absurd hs hne'
          | cons a b => simp [this]
        refine ⟨hw.pos, hw.on, ?_⟩
        have : (s.next - 1 = i) = False := eq_false (fun h => hi h.symm)
        simp only [setD_next, setD_ds, this, if_false]
        exact hw.unfired
      · intro σ a
        obtain ⟨_, a0⟩ := agrees_fired s v.wfd i o (some x) hc a
        exact v.spec σ a0

theorem fire_preInv (s : State) (v : PreInv s) (i : Nat) (x : Res) : PreInv (fire s i x).1 := by
  rw [fire_eq]
  have hst : s.stack.isEmpty = true := by rw [v.stack]; rfl
  by_cases h1 : (s.ds i).called = true
  · rw [if_pos h1]
    by_cases h2 : (s.ds i).suppress = true
    · rw [if_pos h2]; exact (flagEq_setD s i { s.ds i with suppress := false } rfl rfl rfl).preInv v
    · rw [if_neg h2]; exact v
  · rw [if_neg h1]
    simp only [hst, Bool.not_true, Bool.false_and, Bool.false_eq_true, if_false]
    exact ⟨wfd_fired s v.wfd i x.outcome (some x) (Or.inr rfl) (fun _ => rfl), v.next, v.stack, v.final, v.log⟩

/-- what one `callback`/`errback` on awaited Deferred `i` does to the observation fields of all awaited Deferreds -/
structure FireFacts (s s' : State) (i : Nat) (o : Outcome) : Prop where
  cancelCalls : ∀ j, (s'.ds j).cancelCalls = (s.ds j).cancelCalls
  others : ∀ j, j ≠ i → (s'.ds j).delivered = (s.ds j).delivered ∧ (s'.ds j).called = (s.ds j).called
  accepted : (s.ds i).called = false → (s'.ds i).called = true ∧ (s'.ds i).delivered = some o
  refused : (s.ds i).called = true → (s'.ds i).called = true ∧ (s'.ds i).delivered = (s.ds i).delivered

theorem fire_facts (s : State) (w : WFD s) (i : Nat)
    (hi : (!s.stack.isEmpty && s.waitingOn == some i) = true → s.next ≤ i → False)
    (x : Res) : FireFacts s (fire s i x).1 i x.outcome := by
  rw [fire_eq]
  generalize x.outcome = o
  by_cases h1 : (s.ds i).called = true
  · rw [if_pos h1]
    by_cases h2 : (s.ds i).suppress = true
    · rw [if_pos h2]
      refine ⟨fun j => ?_, fun j hj => by simp [hj], fun h => by simp [h] at h1, fun _ => by simp [h1]⟩
      by_cases hj : j = i
      · subst hj; simp
      · simp [hj]
    · rw [if_neg h2]
      exact ⟨fun _ => rfl, fun _ _ => ⟨rfl, rfl⟩, fun h => by simp [h] at h1, fun h => ⟨h, rfl⟩⟩
  · rw [if_neg h1]
    have key : ∀ r, FireFacts s (s.setD i (firedD (s.ds i) o r)) i o := by
      intro r
      refine ⟨fun j => ?_, fun j hj => by simp [hj], fun _ => by simp [firedD], fun h => absurd h h1⟩
      by_cases hj : j = i
      · subst hj; simp [firedD]
      · simp [hj]
    by_cases h3 : (!s.stack.isEmpty && s.waitingOn == some i) = true
    · rw [if_pos h3]
      have k := key none
      have w1 : WFD (s.setD i (firedD (s.ds i) o none)) :=
        wfd_fired s w i o none (Or.inl rfl) (fun hle => absurd (hi h3 hle) id)
      have u := (unwind_ok _ s.stack o _ w1 (agrees_self _)).same
      refine ⟨fun j => ((u j).2.2.1).trans (k.cancelCalls j), fun j hj => ?_, fun h => ?_, fun h => absurd h h1⟩
      · exact ⟨((u j).1).trans (k.others j hj).1, ((u j).2.1).trans (k.others j hj).2⟩
      · exact ⟨((u i).2.1).trans (k.accepted h).1, ((u i).1).trans (k.accepted h).2⟩
    · rw [if_neg h3]
      exact key (some x)

/-- under the invariant the side condition of `fire_facts` holds -/
theorem Inv.hooked_lt {coro : Bool} {p : Stmt} {s : State} (v : Inv coro p s) (i : Nat)
    (h : (!s.stack.isEmpty && s.waitingOn == some i) = true) : s.next ≤ i → False := by
  have hne : s.stack ≠ [] := by intro h'; simp [h'] at h
  have hon : s.waitingOn = some i := by simp at h; exact h.2
  have hw := v.waiting hne
  have : i = s.next - 1 := by have := hw.on; rw [hon] at this; exact Option.some.inj this
  have := hw.pos
  omega

theorem bumpCancel_flagEq (s : State) (i : Nat) : FlagEq s (bumpCancel s i) :=
  flagEq_setD s i { s.ds i with cancelCalls := (s.ds i).cancelCalls + 1 } rfl rfl rfl

theorem callCanceller_inv (coro : Bool) (p : Stmt) (s : State) (v : Inv coro p s) (i : Nat) : Inv coro p (callCanceller s i) := by
  unfold callCanceller
  split
  · exact (flagEq_setD s i { s.ds i with suppress := true } rfl rfl rfl).inv v
  · exact v
  · exact fire_inv coro p s v i _
  · exact fire_inv coro p s v i _

theorem cancelD_inv (coro : Bool) (p : Stmt) (s : State) (v : Inv coro p s) (i : Nat) : Inv coro p (cancelD s i) := by
  unfold cancelD
  have v0 := (bumpCancel_flagEq s i).inv v
  simp only
  split
  · exact v0
  · have v1 := callCanceller_inv coro p _ v0 i
    split
    · exact fire_inv coro p _ v1 i _
    · exact v1

theorem cancel_inv (coro : Bool) (p : Stmt) (s : State) (v : Inv coro p s) : Inv coro p (cancel s) := by
  unfold cancel
  split
  · exact v
  · split
    · exact cancelD_inv coro p s v _
    · exact v

theorem step_inv (coro : Bool) (p : Stmt) (s : State) (v : Inv coro p s) (e : Event) : Inv coro p (step s e) := by
  cases e with
  | fire i o =>
    have v1 := fire_inv coro p _ ((flagEq_mark s (.fire i)).inv v) i o
    simp only [step]
    split
    · rename_i s' h; rw [h] at v1; exact (flagEq_mark s' .already).inv v1
    · rename_i s' h; rw [h] at v1; exact v1
  | cancel => exact cancel_inv coro p _ ((flagEq_mark s .cancel).inv v)

theorem step_preInv (s : State) (v : PreInv s) (e : Event) : PreInv (step s e) := by
  cases e with
  | fire i o =>
    have v1 := fire_preInv _ ((flagEq_mark s (.fire i)).preInv v) i o
    simp only [step]
    split
    · rename_i s' h; rw [h] at v1; exact (flagEq_mark s' .already).preInv v1
    · rename_i s' h; rw [h] at v1; exact v1
  | cancel =>
    have v1 := (flagEq_mark s .cancel).preInv v
    simp only [step, cancel]
    have : (s.mark .cancel).stack.isEmpty = true := by rw [v1.stack]; rfl
    rw [if_pos this]; exact v1

theorem foldl_inv (coro : Bool) (p : Stmt) (es : List Event) : ∀ s, Inv coro p s → Inv coro p (es.foldl step s) := by
  induction es with
  | nil => intro s v; exact v
  | cons e es ih => intro s v; exact ih _ (step_inv coro p s v e)

theorem foldl_preInv (es : List Event) : ∀ s, PreInv s → PreInv (es.foldl step s) := by
  induction es with
  | nil => intro s v; exact v
  | cons e es ih => intro s v; exact ih _ (step_preInv s v e)

theorem init_preInv (specs : List Canc) : PreInv (init specs) :=
  ⟨⟨fun _ => rfl, fun _ => Or.inl rfl, fun _ _ => rfl⟩, rfl, rfl, rfl, rfl⟩

/-- every state of every run satisfies the invariant -/
theorem run_inv (coro : Bool) (p : Stmt) (specs : List Canc) (pre post : List Event) : Inv coro p (run coro p specs pre post) :=
  foldl_inv coro p post _ (start_inv coro p _ (foldl_preInv pre _ (init_preInv specs)))

/-! ### what `cancel()` does to the awaited Deferreds -/

/-- the outcome an unfired Deferred with canceller `c` gets from `cancel()` -/
def cancelOutcome : Canc → Outcome
  | .none => .exc .cancelled
  | .noop => .exc .cancelled
  | .firesOk v => .val v
  | .firesErr _ e => .exc e

structure CancelFacts (s s' : State) (i : Nat) : Prop where
  hit : (s'.ds i).cancelCalls = (s.ds i).cancelCalls + 1
  others : ∀ j, j ≠ i → (s'.ds j).cancelCalls = (s.ds j).cancelCalls ∧ (s'.ds j).delivered = (s.ds j).delivered
  fired : (s'.ds i).called = true
  outcome : (s'.ds i).delivered = some (cancelOutcome (s.ds i).canc)

theorem cancelD_facts (coro : Bool) (p : Stmt) (s : State) (v : Inv coro p s) (i : Nat) (hc : (s.ds i).called = false) :
    CancelFacts s (cancelD s i) i := by
  have f0 := bumpCancel_flagEq s i
  have v0 := f0.inv v
  have b_i : (bumpCancel s i).ds i = { s.ds i with cancelCalls := (s.ds i).cancelCalls + 1 } := by
    simp [bumpCancel]
  have b_j : ∀ j, j ≠ i → (bumpCancel s i).ds j = s.ds j := by
    intro j hj; simp [bumpCancel, hj]
  have hc0 : ((bumpCancel s i).ds i).called = false := by rw [b_i]; exact hc
  unfold cancelD
  simp only [hc0, Bool.false_eq_true, if_false]
  have ff := fun (t : State) (vt : Inv coro p t) (o : Res) => fire_facts t vt.wfd i (vt.hooked_lt i) o
  cases hcanc : (s.ds i).canc with
  | none =>
    have hcc : callCanceller (bumpCancel s i) i
        = (bumpCancel s i).setD i { (bumpCancel s i).ds i with suppress := true } := by
      unfold callCanceller; rw [b_i]; simp [hcanc]
    have f1 : FlagEq (bumpCancel s i) (callCanceller (bumpCancel s i) i) := by
      rw [hcc]; exact flagEq_setD _ i _ rfl rfl rfl
    have v1 := f1.inv v0
    have hc1 : ((callCanceller (bumpCancel s i) i).ds i).called = false := by rw [(f1.ds i).1]; exact hc0
    have k := ff _ v1 (.fail .plain .cancelled)
    simp only [hc1, Bool.not_false, if_true]
    have hcc_i : ((callCanceller (bumpCancel s i) i).ds i).cancelCalls = (s.ds i).cancelCalls + 1 := by
      rw [hcc]; simp [b_i]
    have hcc_j : ∀ j, j ≠ i → (callCanceller (bumpCancel s i) i).ds j = s.ds j := by
      intro j hj; rw [hcc]; simp [hj, b_j j hj]
    refine ⟨(k.cancelCalls i).trans hcc_i, fun j hj => ?_, (k.accepted hc1).1, by rw [hcanc]; exact (k.accepted hc1).2⟩
    exact ⟨(k.cancelCalls j).trans (by rw [hcc_j j hj]), ((k.others j hj).1).trans (by rw [hcc_j j hj])⟩
  | noop =>
    have hcc : callCanceller (bumpCancel s i) i = bumpCancel s i := by
      unfold callCanceller; rw [b_i]; simp [hcanc]
    rw [hcc]
    have k := ff _ v0 (.fail .plain .cancelled)
    simp only [hc0, Bool.not_false, if_true]
    refine ⟨(k.cancelCalls i).trans (by rw [b_i]), fun j hj => ?_, (k.accepted hc0).1, by rw [hcanc]; exact (k.accepted hc0).2⟩
    exact ⟨(k.cancelCalls j).trans (by rw [b_j j hj]), ((k.others j hj).1).trans (by rw [b_j j hj])⟩
  | firesOk x =>
    have hcc : callCanceller (bumpCancel s i) i = (fire (bumpCancel s i) i (.ok x)).1 := by
      unfold callCanceller; rw [b_i]; simp [hcanc]
    rw [hcc]
    have k := ff _ v0 (.ok x)
    have hc1 := (k.accepted hc0).1
    simp only [hc1, Bool.not_true, Bool.false_eq_true, if_false]
    refine ⟨(k.cancelCalls i).trans (by rw [b_i]), fun j hj => ?_, hc1, by rw [hcanc]; exact (k.accepted hc0).2⟩
    exact ⟨(k.cancelCalls j).trans (by rw [b_j j hj]), ((k.others j hj).1).trans (by rw [b_j j hj])⟩
  | firesErr c x =>
    have hcc : callCanceller (bumpCancel s i) i = (fire (bumpCancel s i) i (.fail c x)).1 := by
      unfold callCanceller; rw [b_i]; simp [hcanc]
    rw [hcc]
    have k := ff _ v0 (.fail c x)
    have hc1 := (k.accepted hc0).1
    simp only [hc1, Bool.not_true, Bool.false_eq_true, if_false]
    refine ⟨(k.cancelCalls i).trans (by rw [b_i]), fun j hj => ?_, hc1, by rw [hcanc]; exact (k.accepted hc0).2⟩
    exact ⟨(k.cancelCalls j).trans (by rw [b_j j hj]), ((k.others j hj).1).trans (by rw [b_j j hj])⟩

end TwistedProps.C05
