import TwistedModel.Inline.Sync
import TwistedModel.Inline.Machine
/-!
C05, part A: the resumable (generator) semantics `denote`, driven by handing every `await` the
outcome of the next Deferred at once (`feed`), computes exactly what the synchronous big-step
evaluator `Sync.eval` computes — same log, same completion, same number of Deferreds consumed.
-/
namespace TwistedProps.C05
open Twisted.Inline

/-- Reference driver: resume the generator immediately with `σ i` at the i-th await; a nested
    generator is run to its end first.  `none` = blocked at a Deferred that never gets an outcome. -/
def feed (σ : Nat → Option Outcome) : Gen → Nat → List Entry → Option (Outcome × Nat) × List Entry
  | .done o, n, l => (some (o, n), l)
  | .await k, n, l =>
    match σ n with
    | none => (none, l)
    | some o => feed σ (k o) (n + 1) l
  | .awaitC k, n, l =>
    match σ n with
    | none => (none, l)
    | some o => feed σ (k o) (n + 1) l
  | .yieldv v k, n, l => feed σ (k v) n l
  | .emit e g, n, l => feed σ g n (l ++ [e])
  | .call inner k, n, l =>
    match feed σ inner n l with
    | (none, l') => (none, l')
    | (some (o, n'), l') => feed σ (k o) n' l'

/-- what `feed` must do after a statement whose synchronous evaluation gave `r` -/
def after (σ : Nat → Option Outcome) (κ : Kont) (r : Sync.R) : Option (Outcome × Nat) × List Entry :=
  match r with
  | (none, w) => (none, w.log)
  | (some (c, acc), w) => feed σ (κ c acc) w.next w.log

theorem loop_sound (σ : Nat → Option Outcome) (coro : Bool) (body : Stmt)
    (ih : ∀ acc κ n l, feed σ (denote coro body acc κ) n l = after σ κ (Sync.eval σ body acc ⟨n, l⟩))
    (k : Nat) : ∀ acc κ n l,
    feed σ (loopG (denote coro body) k acc κ) n l = after σ κ (Sync.loopS (Sync.eval σ body) k acc ⟨n, l⟩) := by
  induction k with
  | zero => intro acc κ n l; simp [loopG, Sync.loopS, after]
  | succ k ihk =>
    intro acc κ n l
    rw [loopG, ih, Sync.loopS]
    rcases h : Sync.eval σ body acc ⟨n, l⟩ with ⟨_ | ⟨c, acc'⟩, w⟩
    · simp [after]
    · cases c <;> simp [after, ihk]

/-- **Part A** (all statements, all continuations). -/
theorem denote_sound (σ : Nat → Option Outcome) (s : Stmt) : ∀ coro acc κ n l,
    feed σ (denote coro s acc κ) n l = after σ κ (Sync.eval σ s acc ⟨n, l⟩) := by
  induction s with
  | skip => intro coro acc κ n l; simp [denote, Sync.eval, after]
  | await =>
    intro coro acc κ n l
    cases coro <;>
    · simp only [denote, Sync.eval, feed, Bool.false_eq_true, if_false, if_true]
      rcases h : σ n with _ | o
      · simp [after]
      · cases o <;> simp [after, deliver]
  | yieldv e => intro coro acc κ n l; simp [denote, Sync.eval, after, feed]
  | set e => intro coro acc κ n l; simp [denote, Sync.eval, after]
  | mark m => intro coro acc κ n l; simp [denote, Sync.eval, after, feed]
  | seq a b iha ihb =>
    intro coro acc κ n l
    rw [denote, iha, Sync.eval]
    rcases h : Sync.eval σ a acc ⟨n, l⟩ with ⟨_ | ⟨c, acc'⟩, w⟩
    · simp [after]
    · cases c <;> simp [after, ihb]
  | tryExcept body cf hd ihb ihh =>
    intro coro acc κ n l
    rw [denote, ihb, Sync.eval]
    rcases h : Sync.eval σ body acc ⟨n, l⟩ with ⟨_ | ⟨c, acc'⟩, w⟩
    · simp [after]
    · cases c with
      | normal => simp [after]
      | ret v => simp [after]
      | raise e =>
        by_cases hc : cf.catches e = true
        · simp [after, hc, ihh]
        · simp [after, hc]
  | tryFinally body fin ihb ihf =>
    intro coro acc κ n l
    rw [denote, ihb, Sync.eval]
    rcases h : Sync.eval σ body acc ⟨n, l⟩ with ⟨_ | ⟨c, acc'⟩, w⟩
    · simp [after]
    · simp only [after]
      rw [ihf]
      rcases h2 : Sync.eval σ fin acc' w with ⟨_ | ⟨c2, acc''⟩, w2⟩
      · simp [after]
      · cases c2 <;> simp [after]
  | loop k body ih => intro coro acc κ n l; rw [denote, Sync.eval]; exact loop_sound σ coro body (ih coro) k acc κ n l
  | ret e => intro coro acc κ n l; simp [denote, Sync.eval, after]
  | raise m => intro coro acc κ n l; simp [denote, Sync.eval, after]
  | raiseB m => intro coro acc κ n l; simp [denote, Sync.eval, after]
  | ifLt m a b iha ihb =>
    intro coro acc κ n l
    by_cases h : acc < m
    · simp [denote, Sync.eval, h, iha]
    · simp [denote, Sync.eval, h, ihb]
  | call w ic p ih =>
    intro coro acc κ n l
    cases w with
    | true =>
      rw [denote, feed, ih, Sync.eval]
      rcases h : Sync.eval σ p 0 ⟨n, l⟩ with ⟨_ | ⟨c, acc'⟩, w'⟩
      · simp [after]
      · simp only [after, feed]
        cases hf : finish c acc' <;> simp [deliver]
    | false =>
      rw [denote, ih, Sync.eval]
      rcases h : Sync.eval σ p 0 ⟨n, l⟩ with ⟨_ | ⟨c, acc'⟩, w'⟩
      · simp [after]
      · simp only [after, feed]
        cases hf : finish c acc' <;> simp [deliver]

/-- the generator object of a whole function, fed immediately = the synchronous run -/
theorem gen_sound (σ : Nat → Option Outcome) (coro : Bool) (p : Stmt) :
    ((feed σ (gen coro p) 0 []).1.map (·.1), (feed σ (gen coro p) 0 []).2) = Sync.run σ p := by
  unfold gen Sync.run
  rw [denote_sound]
  rcases h : Sync.eval σ p 0 ⟨0, []⟩ with ⟨_ | ⟨c, acc'⟩, w⟩
  · have : Sync.eval σ p 0 {} = (none, w) := h
    simp [after]
  · have : Sync.eval σ p 0 {} = (some (c, acc'), w) := h
    simp [after, feed]

end TwistedProps.C05
