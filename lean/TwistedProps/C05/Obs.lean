import TwistedProps.C05.Sim
/-!
C05, part C: WHERE the function observes the outcome of a cancelled Deferred — at the very await it
was suspended at, as the first thing it logs after the `cancel()`.

`Good g`: every `await` node of the generator logs the outcome it is resumed with before doing
anything else.  All generators produced by `denote` are `Good` (that is how `Stmt.await` is
compiled: `try: _r = yield nextD() except …: logexc; raise else: logval`).
-/
namespace TwistedProps.C05
open Twisted.Inline Twisted.Inline.Driver

/-- a resumption that first logs the outcome it is resumed with -/
def AwaitFrame (f : Outcome → Gen) : Prop := ∀ o, ∃ g', f o = .emit (.aw o) g'

inductive Good : Gen → Prop
  | done (o) : Good (.done o)
  | await (k) : (∀ o, Good (k o)) → AwaitFrame k → Good (.await k)
  | awaitC (k) : (∀ o, Good (k o)) → AwaitFrame k → Good (.awaitC k)
  | yieldv (v k) : (∀ x, Good (k x)) → Good (.yieldv v k)
  | emit (e g) : Good g → Good (.emit e g)
  | call (inner k) : Good inner → (∀ o, Good (k o)) → Good (.call inner k)

def GoodK (κ : Kont) : Prop := ∀ c acc, Good (κ c acc)

theorem deliver_good {κ : Kont} (h : GoodK κ) (o : Outcome) (acc : Nat) : Good (deliver o acc κ) := by
  cases o <;> exact h _ _

theorem loopG_good (body : Nat → Kont → Gen) (hb : ∀ acc κ, GoodK κ → Good (body acc κ)) :
    ∀ k acc κ, GoodK κ → Good (loopG body k acc κ) := by
  intro k
  induction k with
  | zero => intro acc κ h; exact h _ _
  | succ k ih =>
    intro acc κ h
    rw [loopG]
    apply hb
    intro c acc'
    cases c
    · exact ih acc' κ h
    · exact h _ _
    · exact h _ _

theorem denote_good (s : Stmt) : ∀ coro acc κ, GoodK κ → Good (denote coro s acc κ) := by
  induction s with
  | skip => intro coro acc κ h; exact h _ _
  | await =>
    intro coro acc κ h
    cases coro
    · exact .await _ (fun o => .emit _ _ (deliver_good h o acc)) (fun o => ⟨_, rfl⟩)
    · exact .awaitC _ (fun o => .emit _ _ (deliver_good h o acc)) (fun o => ⟨_, rfl⟩)
  | yieldv e => intro coro acc κ h; exact .yieldv _ _ (fun x => .emit _ _ (h _ _))
  | set e => intro coro acc κ h; exact h _ _
  | mark m => intro coro acc κ h; exact .emit _ _ (h _ _)
  | seq a b iha ihb =>
    intro coro acc κ h
    rw [denote]; apply iha
    intro c acc'
    cases c
    · exact ihb coro acc' κ h
    · exact h _ _
    · exact h _ _
  | tryExcept body cf hd ihb ihh =>
    intro coro acc κ h
    rw [denote]; apply ihb
    intro c acc'
    cases c with
    | normal => exact h _ _
    | ret v => exact h _ _
    | raise e =>
      simp only
      split
      · exact ihh coro _ κ h
      · exact h _ _
  | tryFinally body fin ihb ihf =>
    intro coro acc κ h
    rw [denote]; apply ihb
    intro c acc'
    apply ihf
    intro c2 acc''
    cases c2 <;> exact h _ _
  | loop k body ih => intro coro acc κ h; rw [denote]; exact loopG_good _ (ih coro) k acc κ h
  | ret e => intro coro acc κ h; exact h _ _
  | raise m => intro coro acc κ h; exact h _ _
  | raiseB m => intro coro acc κ h; exact h _ _
  | ifLt m a b iha ihb =>
    intro coro acc κ h
    rw [denote]
    split
    · exact iha coro acc κ h
    · exact ihb coro acc κ h
  | call w ic p ih =>
    intro coro acc κ h
    cases w with
    | true =>
      rw [denote]
      exact .call _ _ (ih ic 0 _ (fun c acc' => .done _)) (fun o => .emit _ _ (deliver_good h o acc))
    | false =>
      rw [denote]
      exact ih coro 0 _ (fun c acc' => .emit _ _ (deliver_good h _ acc))

theorem gen_good (coro : Bool) (p : Stmt) : Good (gen coro p) := denote_good p coro 0 _ (fun _ _ => .done _)

def GoodFrames (fs : List (Outcome → Gen)) : Prop := ∀ f, f ∈ fs → ∀ o, Good (f o)
def HeadAwait (fs : List (Outcome → Gen)) : Prop := ∀ f rest, fs = f :: rest → AwaitFrame f

/-- the log only grows -/
def LogExt (s s' : State) : Prop := ∃ rest, s'.log = s.log ++ rest

theorem LogExt.refl (s : State) : LogExt s s := ⟨[], by simp⟩
theorem LogExt.trans {a b c : State} (h1 : LogExt a b) (h2 : LogExt b c) : LogExt a c := by
  obtain ⟨r1, e1⟩ := h1; obtain ⟨r2, e2⟩ := h2
  exact ⟨r1 ++ r2, by rw [e2, e1, List.append_assoc]⟩

theorem runGen_good {g : Gen} (hg : Good g) : ∀ s,
    LogExt s (runGen g s).1 ∧
    (∀ fs, (runGen g s).2 = .suspended fs → fs ≠ [] ∧ GoodFrames fs ∧ HeadAwait fs) := by
  induction hg with
  | done o => intro s; exact ⟨LogExt.refl s, fun fs h => by simp [runGen] at h⟩
  | await k hk ha ih =>
    intro s
    simp only [runGen]
    split
    · rename_i o _
      obtain ⟨l, r⟩ := ih o.outcome { (s.setD s.next { s.ds s.next with result := none }) with next := s.next + 1 }
      exact ⟨l, r⟩
    · refine ⟨LogExt.refl s, fun fs h => ?_⟩
      simp only [Susp.suspended.injEq] at h
      subst h
      refine ⟨by simp, fun f hf o => ?_, fun f rest h => ?_⟩
      · simp at hf; subst hf; exact hk o
      · simp at h; rw [← h.1]; exact ha
  | awaitC k hk ha ih =>
    intro s
    simp only [runGen]
    split
    · rename_i o _
      obtain ⟨l, r⟩ := ih o.outcome { s with next := s.next + 1 }
      exact ⟨l, r⟩
    · refine ⟨LogExt.refl s, fun fs h => ?_⟩
      simp only [Susp.suspended.injEq] at h
      subst h
      refine ⟨by simp, fun f hf o => ?_, fun f rest h => ?_⟩
      · simp at hf; subst hf; exact hk o
      · simp at h; rw [← h.1]; exact ha
  | yieldv v k hk ih => intro s; simp only [runGen]; exact ih v s
  | emit e g hg ih =>
    intro s
    simp only [runGen]
    obtain ⟨l, r⟩ := ih (s.emit e)
    refine ⟨LogExt.trans ⟨[e], rfl⟩ l, r⟩
  | call inner k hi hk ihi ihk =>
    intro s
    simp only [runGen]
    obtain ⟨l1, r1⟩ := ihi s
    rcases hrun : runGen inner s with ⟨s', r⟩
    rw [hrun] at l1 r1
    cases r with
    | finished o =>
      simp only
      obtain ⟨l2, r2⟩ := ihk o s'
      exact ⟨l1.trans l2, r2⟩
    | suspended fs =>
      simp only
      obtain ⟨hne, hgf, hha⟩ := r1 fs rfl
      refine ⟨l1, fun gs h => ?_⟩
      simp only [Susp.suspended.injEq] at h
      subst h
      refine ⟨by simp [hne], fun f hf o => ?_, fun f rest h => ?_⟩
      · rcases List.mem_append.mp hf with hf | hf
        · exact hgf f hf o
        · simp at hf; subst hf; exact hk o
      · cases fs with
        | nil => exact absurd rfl hne
        | cons a b => simp at h; rw [← h.1]; exact hha a b rfl

theorem unwind_good (fs : List (Outcome → Gen)) : GoodFrames fs → ∀ o s,
    LogExt s (unwind fs o s) ∧ GoodFrames (unwind fs o s).stack ∧ HeadAwait (unwind fs o s).stack := by
  induction fs with
  | nil =>
    intro _ o s
    exact ⟨LogExt.refl s, fun f hf => by simp [unwind] at hf, fun f rest h => by simp [unwind] at h⟩
  | cons f rest ih =>
    intro hg o s
    have hrest : GoodFrames rest := fun g hgm => hg g (List.mem_cons_of_mem _ hgm)
    obtain ⟨l1, r1⟩ := runGen_good (hg f (List.mem_cons_self) o) s
    simp only [unwind]
    rcases hrun : runGen (f o) s with ⟨s1, r⟩
    rw [hrun] at l1 r1
    cases r with
    | finished o' =>
      simp only
      obtain ⟨l2, g2, h2⟩ := ih hrest o' s1
      exact ⟨l1.trans l2, g2, h2⟩
    | suspended gs =>
      simp only
      obtain ⟨hne, hgf, hha⟩ := r1 gs rfl
      refine ⟨l1, fun g hgm o => ?_, fun g tl h => ?_⟩
      · rcases List.mem_append.mp hgm with h | h
        · exact hgf g h o
        · exact hrest g h o
      · cases gs with
        | nil => exact absurd rfl hne
        | cons a b => simp at h; rw [← h.1]; exact hha a b rfl

/-- resuming a stack whose innermost frame is an await: the first new log entry is that outcome -/
theorem unwind_head_logs (f : Outcome → Gen) (rest : List (Outcome → Gen)) (hf : AwaitFrame f)
    (hg : GoodFrames (f :: rest)) (o : Outcome) (s : State) :
    ∃ more, (unwind (f :: rest) o s).log = s.log ++ .aw o :: more := by
  obtain ⟨g', hfo⟩ := hf o
  have hgood : Good g' := by
    have := hg f (List.mem_cons_self) o
    rw [hfo] at this
    cases this with
    | emit _ _ h => exact h
  have hrest : GoodFrames rest := fun g hgm => hg g (List.mem_cons_of_mem _ hgm)
  simp only [unwind, hfo, runGen]
  obtain ⟨⟨m1, e1⟩, _⟩ := runGen_good hgood (s.emit (.aw o))
  rcases hrun : runGen g' (s.emit (.aw o)) with ⟨s1, r⟩
  rw [hrun] at e1
  cases r with
  | finished o' =>
    simp only
    obtain ⟨⟨m2, e2⟩, _⟩ := unwind_good rest hrest o' s1
    exact ⟨m1 ++ m2, by rw [e2, e1]; simp [State.emit]⟩
  | suspended gs =>
    simp only
    exact ⟨m1, by rw [e1]; simp [State.emit]⟩

/-- the stack of suspended activations consists of `Good` resumptions, the innermost an await -/
structure GS (s : State) : Prop where
  frames : GoodFrames s.stack
  head : HeadAwait s.stack

theorem GS.of_stack_eq {s s' : State} (g : GS s) (h : s'.stack = s.stack) : GS s' :=
  ⟨h ▸ g.frames, h ▸ g.head⟩

theorem GS.of_nil {s : State} (h : s.stack = []) : GS s :=
  ⟨fun f hf => by rw [h] at hf; simp at hf, fun f rest hh => by rw [h] at hh; simp at hh⟩

theorem fire_gs (s : State) (g : GS s) (i : Nat) (x : Res) : GS (fire s i x).1 := by
  rw [fire_eq]
  generalize x.outcome = o
  split
  · split
    · exact g.of_stack_eq rfl
    · exact g
  · split
    · have := unwind_good s.stack g.frames o (s.setD i (firedD (s.ds i) o none))
      exact ⟨this.2.1, this.2.2⟩
    · exact g.of_stack_eq rfl

theorem callCanceller_gs (s : State) (g : GS s) (i : Nat) : GS (callCanceller s i) := by
  unfold callCanceller
  split
  · exact g.of_stack_eq rfl
  · exact g
  · exact fire_gs s g i _
  · exact fire_gs s g i _

theorem cancelD_gs (s : State) (g : GS s) (i : Nat) : GS (cancelD s i) := by
  unfold cancelD
  have g0 : GS (bumpCancel s i) := g.of_stack_eq rfl
  simp only
  split
  · exact g0
  · split
    · exact fire_gs _ (callCanceller_gs _ g0 i) i _
    · exact callCanceller_gs _ g0 i

theorem step_gs (s : State) (g : GS s) (e : Event) : GS (step s e) := by
  cases e with
  | fire i o =>
    have g1 := fire_gs (s.mark (.fire i)) (g.of_stack_eq rfl) i o
    simp only [step]
    split
    · rename_i s' h; rw [h] at g1; exact g1.of_stack_eq rfl
    · rename_i s' h; rw [h] at g1; exact g1
  | cancel =>
    simp only [step, cancel]
    have g0 : GS (s.mark .cancel) := g.of_stack_eq rfl
    split
    · exact g0
    · split
      · exact cancelD_gs _ g0 _
      · exact g0

theorem foldl_gs (es : List Event) : ∀ s, GS s → GS (es.foldl step s) := by
  induction es with
  | nil => intro s g; exact g
  | cons e es ih => intro s g; exact ih _ (step_gs s g e)

theorem run_gs (coro : Bool) (p : Stmt) (specs : List Canc) (pre post : List Event) : GS (run coro p specs pre post) := by
  refine foldl_gs post _ ?_
  have hg : GoodFrames [fun _ => gen coro p] := by
    intro f hf o; simp at hf; subst hf; exact gen_good coro p
  have := unwind_good [fun _ => gen coro p] hg (.val 0) ((pre.foldl step (init specs)).mark .start)
  exact ⟨this.2.1, this.2.2⟩

/-- a fire that is accepted by the Deferred the function waits for: the function logs that outcome first -/
theorem fire_hooked_log (s : State) (g : GS s) (i : Nat) (x : Res) (hc : (s.ds i).called = false)
    (hne : s.stack ≠ []) (hon : s.waitingOn = some i) :
    ∃ more, (fire s i x).1.log = s.log ++ .aw x.outcome :: more := by
  rw [fire_eq]
  generalize x.outcome = o
  have h1 : ¬ ((s.ds i).called = true) := by simp [hc]
  rw [if_neg h1]
  have h3 : (!s.stack.isEmpty && s.waitingOn == some i) = true := by
    cases h : s.stack with
    | nil => exact absurd h hne
    | cons a b => simp [hon]
  rw [if_pos h3]
  cases h : s.stack with
  | nil => exact absurd h hne
  | cons f rest =>
    have hf : AwaitFrame f := g.head f rest h
    have hg : GoodFrames (f :: rest) := h ▸ g.frames
    exact unwind_head_logs f rest hf hg o _

/-- `cancel()` on the awaited, unfired Deferred: the first thing the function logs afterwards is the
    outcome that Deferred got -/
theorem cancelD_log (coro : Bool) (p : Stmt) (s : State) (v : Inv coro p s) (g : GS s) (i : Nat) (hc : (s.ds i).called = false)
    (hne : s.stack ≠ []) (hon : s.waitingOn = some i) :
    ∃ more, (cancelD s i).log = s.log ++ .aw (cancelOutcome (s.ds i).canc) :: more := by
  have f0 := bumpCancel_flagEq s i
  have v0 := f0.inv v
  have g0 : GS (bumpCancel s i) := g.of_stack_eq rfl
  have b_i : (bumpCancel s i).ds i = { s.ds i with cancelCalls := (s.ds i).cancelCalls + 1 } := by
    simp [bumpCancel]
  have hc0 : ((bumpCancel s i).ds i).called = false := by rw [b_i]; exact hc
  have hl0 : (bumpCancel s i).log = s.log := rfl
  unfold cancelD
  simp only [hc0, Bool.false_eq_true, if_false]
  cases hcanc : (s.ds i).canc with
  | none =>
    have hcc : callCanceller (bumpCancel s i) i
        = (bumpCancel s i).setD i { (bumpCancel s i).ds i with suppress := true } := by
      unfold callCanceller; rw [b_i]; simp [hcanc]
    have f1 : FlagEq (bumpCancel s i) (callCanceller (bumpCancel s i) i) := by
      rw [hcc]; exact flagEq_setD _ i _ rfl rfl rfl
    have hc1 : ((callCanceller (bumpCancel s i) i).ds i).called = false := by rw [(f1.ds i).1]; exact hc0
    simp only [hc1, Bool.not_false, if_true]
    have := fire_hooked_log _ (g0.of_stack_eq f1.stack) i (.fail .plain .cancelled) hc1
      (by rw [f1.stack]; exact hne) (by rw [f1.waitingOn]; exact hon)
    rw [f1.log, hl0] at this
    exact this
  | noop =>
    have hcc : callCanceller (bumpCancel s i) i = bumpCancel s i := by
      unfold callCanceller; rw [b_i]; simp [hcanc]
    rw [hcc]
    simp only [hc0, Bool.not_false, if_true]
    exact fire_hooked_log _ g0 i (.fail .plain .cancelled) hc0 hne hon
  | firesOk x =>
    have hcc : callCanceller (bumpCancel s i) i = (fire (bumpCancel s i) i (.ok x)).1 := by
      unfold callCanceller; rw [b_i]; simp [hcanc]
    rw [hcc]
    have k := fire_facts _ v0.wfd i (v0.hooked_lt i) (.ok x)
    simp only [(k.accepted hc0).1, Bool.not_true, Bool.false_eq_true, if_false]
    exact fire_hooked_log _ g0 i (.ok x) hc0 hne hon
  | firesErr c x =>
    have hcc : callCanceller (bumpCancel s i) i = (fire (bumpCancel s i) i (.fail c x)).1 := by
      unfold callCanceller; rw [b_i]; simp [hcanc]
    rw [hcc]
    have k := fire_facts _ v0.wfd i (v0.hooked_lt i) (.fail c x)
    simp only [(k.accepted hc0).1, Bool.not_true, Bool.false_eq_true, if_false]
    exact fire_hooked_log _ g0 i (.fail c x) hc0 hne hon

end TwistedProps.C05
