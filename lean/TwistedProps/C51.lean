import TwistedProps.C51.Recovery
/-!
C51 — DirDBM survives a crash at any point.

For any sequence of set, replace and delete operations and a process crash at any point during
them (or during the recovery performed when the database is reopened), reopening the database
yields every key with the value of its last completed operation, and the interrupted operation's
key with either its old or its new value.  No partial value or stray file is ever visible as data.

Vocabulary (`TwistedProps/C51/Defs.lean`): `view fs k` = `db[k]`; `Clean fs` = every file is the
encoding of a key; `finalState cuts S` = the directory after reopenings killed at `cuts` inside
recovery followed by one reopening that completes; `crashAt tr c p fs` (`Fs/Sim.lean`) = `c`
primitives of the trace done, `p` bytes of an interrupted write.  `WF` = no name listed twice.
The model follows the repaired `_encode` (the empty key is stored as `_`; before the fix it named
the database directory itself — witness in `harness/corpus/C51`).
-/
namespace TwistedProps.C51
open Twisted.Fs Twisted.Fs.DirDbm TwistedProps.C52 Twisted.Fs.B64

/-- **Key encoding is injective** (`base64.encodebytes` chunking + the two replaces + the empty-key rule). -/
theorem key_encoding_injective (k k' : Bytes) (h : encodeKey k = encodeKey k') : k = k' :=
  encodeKey_inj k k' h

/-- **No encoded key contains `.`**, so a key file is never mistaken for a `.new`/`.rpl` leftover and
    `f[:-4]` of a leftover is the key file it belongs to. -/
theorem key_encoding_dot_free (k : Bytes) : (46 : UInt8) ∉ encodeKey k := encodeKey_no_dot k

/-- **delete, every crash point, every nested recovery crash** -/
theorem del_final (fs0 : Fs) (hcl : Clean fs0) (k : Bytes) (c p : Nat) (cuts : List (Nat × Nat)) :
    let F := finalState cuts (crashAt (opTrace fs0 (.del k)) c p fs0)
    (∀ m, get F m = get fs0 m) ∨ (∀ m, get F m = if m = encodeKey k then none else get fs0 m) := by
  intro F
  cases hex : exists_ fs0 (encodeKey k) with
  | false =>
    have : opTrace fs0 (.del k) = [] := by simp [opTrace, delTrace, hex]
    left; intro m; show get (finalState _ _) m = _
    rw [this, crashAt_nil, final_clean hcl]
  | true =>
    have ht : opTrace fs0 (.del k) = [.remove (encodeKey k)] := by simp [opTrace, delTrace, hex]
    rcases crashAt_single (.remove (encodeKey k)) (by intro n d h; cases h) c p fs0 with h | h
    · left; intro m; show get (finalState _ _) m = _
      rw [ht, h, final_clean hcl]
    · have hg : ∀ m, get (run [Prim.remove (encodeKey k)] fs0) m = if m = encodeKey k then none else get fs0 m := by
        intro m; simp [get_apply_remove]
      have hc : Clean (run [Prim.remove (encodeKey k)] fs0) := fun m hm => by
        rw [hg m] at hm
        by_cases hb : m = encodeKey k
        · simp [hb] at hm
        · exact hcl m (by simpa [hb] using hm)
      right; intro m; show get (finalState _ _) m = _
      rw [ht, h, final_clean hc, hg m]

def keyOf : Op → Bytes
  | .set k _ => k
  | .del k => k

/-- what the operation makes `db[key]` read once it has completed -/
def newVal : Op → Option Bytes
  | .set _ v => some v
  | .del _ => none

/-- dictionary semantics of an operation -/
def applyOp (d : Bytes → Option Bytes) (op : Op) : Bytes → Option Bytes :=
  fun key => if key = keyOf op then newVal op else d key

theorem op_final (fs0 : Fs) (hwf : WF fs0) (hcl : Clean fs0) (op : Op) (c p : Nat) (cuts : List (Nat × Nat)) :
    let F := finalState cuts (crashAt (opTrace fs0 op) c p fs0)
    (∀ m, get F m = get fs0 m) ∨
    (∀ m, get F m = if m = encodeKey (keyOf op) then newVal op else get fs0 m) := by
  cases op with
  | set k v => exact set_final fs0 hwf hcl k v c p cuts
  | del k => exact del_final fs0 hcl k c p cuts

theorem WF_reopenCrashes {fs : Fs} (h : WF fs) (cuts : List (Nat × Nat)) : WF (reopenCrashes cuts fs) := by
  induction cuts generalizing fs with
  | nil => exact h
  | cons cp rest ih => exact ih (WF_crashAt h _ _ _)

theorem WF_finalState {fs : Fs} (h : WF fs) (cuts : List (Nat × Nat)) : WF (finalState cuts fs) :=
  WF_run (WF_reopenCrashes h cuts) _

/-- **C51, one interrupted operation.**  From any clean database state, for every operation, every
    crash point `(c, p)` inside it (partial writes of every length), and every sequence `cuts` of
    reopenings that are themselves killed inside recovery, the reopening that completes yields:
    every other key exactly as before; the interrupted key with its old or its new value (never
    anything else — no partial value); and a directory in which every file is the encoding of a
    key (no stray file visible as data), well-formed again, so the statement applies to whatever
    happens next. -/
theorem crash_consistent (fs0 : Fs) (hwf : WF fs0) (hcl : Clean fs0) (op : Op) (c p : Nat)
    (cuts : List (Nat × Nat)) :
    let F := finalState cuts (crashAt (opTrace fs0 op) c p fs0)
    (∀ key, key ≠ keyOf op → view F key = view fs0 key) ∧
    (view F (keyOf op) = view fs0 (keyOf op) ∨ view F (keyOf op) = newVal op) ∧
    Clean F ∧ WF F := by
  intro F
  have hF := op_final fs0 hwf hcl op c p cuts
  have hne : ∀ key, key ≠ keyOf op → ¬ encodeKey key = encodeKey (keyOf op) :=
    fun key hk h => hk (encodeKey_inj _ _ h)
  refine ⟨?_, ?_, ?_, WF_finalState (WF_crashAt hwf _ _ _) cuts⟩
  · intro key hk
    rcases hF with h | h
    · exact h _
    · show get F _ = _; rw [h]; simp [hne key hk, view]
  · rcases hF with h | h
    · left; exact h _
    · right; show get F _ = _; rw [h]; simp
  · intro m hm
    rcases hF with h | h
    · exact hcl m (by rw [← h m]; exact hm)
    · rw [h m] at hm
      by_cases hb : m = encodeKey (keyOf op)
      · exact ⟨_, hb⟩
      · exact hcl m (by simpa [hb] using hm)

/-- an operation that is not interrupted does what a dictionary does -/
theorem op_complete (fs0 : Fs) (hwf : WF fs0) (hcl : Clean fs0) (op : Op) :
    (∀ key, view (run (opTrace fs0 op) fs0) key = applyOp (view fs0) op key) ∧
    Clean (run (opTrace fs0 op) fs0) ∧ WF (run (opTrace fs0 op) fs0) := by
  have hg : ∀ m, get (run (opTrace fs0 op) fs0) m =
      if m = encodeKey (keyOf op) then newVal op else get fs0 m := by
    cases op with
    | del k =>
      intro m
      cases hex : exists_ fs0 (encodeKey k) with
      | false =>
        have hn : get fs0 (encodeKey k) = none := by
          simp only [exists_] at hex
          cases h : get fs0 (encodeKey k) with
          | none => rfl
          | some x => simp [h] at hex
        simp only [opTrace, delTrace, hex, keyOf, newVal]
        by_cases hb : m = encodeKey k <;> simp [hb, hn]
      | true =>
        simp only [opTrace, delTrace, hex, keyOf, newVal, if_true, Option.getD_some, run_cons, run_nil, get_apply_remove]
        by_cases hb : m = encodeKey k <;> simp [hb]
    | set k v =>
      intro m
      have hkey : IsKey (encodeKey k) := ⟨k, rfl⟩
      have hr_ne : encodeKey k ++ extRpl ≠ encodeKey k := fun h => key_ne_stray hkey dot_in_rpl h.symm
      have hr0 : get fs0 (encodeKey k ++ extRpl) = none := by
        cases h : get fs0 (encodeKey k ++ extRpl) with
        | none => rfl
        | some x => exact absurd rfl (key_ne_stray (hcl _ (by rw [h]; rfl)) dot_in_rpl)
      have hn0 : get fs0 (encodeKey k ++ extNew) = none := by
        cases h : get fs0 (encodeKey k ++ extNew) with
        | none => rfl
        | some x => exact absurd rfl (key_ne_stray (hcl _ (by rw [h]; rfl)) dot_in_new)
      cases hex : exists_ fs0 (encodeKey k) with
      | true =>
        have h4 := rpl_crash_shapes fs0 (encodeKey k) v ((rplTrace (encodeKey k) v).length) 0 hr_ne
        simp only at h4
        rw [crashAt_ge _ _ _ _ (Nat.le_refl _)] at h4
        simp only [opTrace, setTrace_old hex, keyOf, newVal]
        -- the completed run is the last shape: compute it directly
        by_cases hc : v = []
        · subst hc
          simp [rplTrace, writeP, get_apply_create, get_apply_remove, get_apply_rename, hr_ne]
          by_cases h1 : m = encodeKey k <;> by_cases h2 : m = encodeKey k ++ extRpl <;> simp_all
        · have hw : writeP (encodeKey k ++ extRpl) v = [.write (encodeKey k ++ extRpl) v] := by
            cases v with
            | nil => exact absurd rfl hc
            | cons x xs => simp [writeP]
          simp [rplTrace, hw, get_apply_create, get_apply_write, get_apply_remove, get_apply_rename, hr_ne]
          by_cases h1 : m = encodeKey k <;> by_cases h2 : m = encodeKey k ++ extRpl <;> simp_all
      | false =>
        simp only [opTrace, setTrace_new hex, keyOf, newVal]
        have hne : encodeKey k ++ extNew ≠ encodeKey k := fun h => key_ne_stray hkey dot_in_new h.symm
        by_cases hb : m = encodeKey k
        · rw [hb]; simp [(replace_complete fs0 _ _ v hne).1]
        · by_cases hm : m = encodeKey k ++ extNew
          · rw [hm]; simp [(replace_complete fs0 _ _ v hne).2, hne, hn0]
          · have := replace_others_untouched fs0 (encodeKey k ++ extNew) (encodeKey k) v
              ((replaceTrace (encodeKey k ++ extNew) (encodeKey k) v).length) 0 m hb hm
            rw [crashAt_ge _ _ _ _ (Nat.le_refl _)] at this
            simp [this, hb]
  refine ⟨?_, ?_, WF_run hwf _⟩
  · intro key
    show get _ _ = _
    rw [hg]
    by_cases hk : key = keyOf op
    · simp [applyOp, hk]
    · have : ¬ encodeKey key = encodeKey (keyOf op) := fun h => hk (encodeKey_inj _ _ h)
      simp [applyOp, hk, this, view]
  · intro m hm
    rw [hg m] at hm
    by_cases hb : m = encodeKey (keyOf op)
    · exact ⟨_, hb⟩
    · exact hcl m (by simpa [hb] using hm)

/-- a history of completed operations -/
def runOps (fs : Fs) (ops : List Op) : Fs := ops.foldl (fun fs op => run (opTrace fs op) fs) fs

theorem runOps_spec (fs0 : Fs) (hwf : WF fs0) (hcl : Clean fs0) (ops : List Op) :
    (∀ key, view (runOps fs0 ops) key = ops.foldl applyOp (view fs0) key) ∧
    Clean (runOps fs0 ops) ∧ WF (runOps fs0 ops) := by
  induction ops generalizing fs0 with
  | nil => exact ⟨fun _ => rfl, hcl, hwf⟩
  | cons op rest ih =>
    obtain ⟨h1, h2, h3⟩ := op_complete fs0 hwf hcl op
    obtain ⟨g1, g2, g3⟩ := ih (run (opTrace fs0 op) fs0) h3 h2
    refine ⟨?_, g2, g3⟩
    intro key
    show view (runOps (run (opTrace fs0 op) fs0) rest) key = List.foldl applyOp (applyOp (view fs0) op) rest key
    rw [g1 key]
    have : view (run (opTrace fs0 op) fs0) = applyOp (view fs0) op := funext h1
    rw [this]

/-- **C51, headline.**  For any sequence `ops` of set, replace and delete operations that completed
    (from any clean database, e.g. the empty directory), an operation `op` killed at any point
    `(c, p)`, and any number of reopenings killed inside recovery (`cuts`): the reopening that
    completes yields every key with the value of its last completed operation
    (`ops.foldl applyOp …`), except the interrupted operation's key, which has that (old) value or
    the new one; and nothing but key files is in the directory. -/
theorem history_crash_consistent (fs0 : Fs) (hwf : WF fs0) (hcl : Clean fs0) (ops : List Op) (op : Op)
    (c p : Nat) (cuts : List (Nat × Nat)) :
    let fsn := runOps fs0 ops
    let F := finalState cuts (crashAt (opTrace fsn op) c p fsn)
    let last := ops.foldl applyOp (view fs0)
    (∀ key, key ≠ keyOf op → view F key = last key) ∧
    (view F (keyOf op) = last (keyOf op) ∨ view F (keyOf op) = newVal op) ∧
    Clean F ∧ WF F := by
  intro fsn F last
  obtain ⟨h1, h2, h3⟩ := runOps_spec fs0 hwf hcl ops
  obtain ⟨g1, g2, g3, g4⟩ := crash_consistent fsn h3 h2 op c p cuts
  refine ⟨fun key hk => ?_, ?_, g3, g4⟩
  · show view F key = List.foldl applyOp (view fs0) ops key
    rw [← h1 key]; exact g1 key hk
  · show view F (keyOf op) = List.foldl applyOp (view fs0) ops (keyOf op) ∨ _
    rw [← h1 (keyOf op)]; exact g2

/-- recovery is idempotent on every state a crash can leave (and on its own crash states) -/
theorem recovery_idempotent (fs0 : Fs) (hwf : WF fs0) (hcl : Clean fs0) (op : Op) (c p : Nat)
    (cuts : List (Nat × Nat)) :
    let F := finalState cuts (crashAt (opTrace fs0 op) c p fs0)
    recover F = F ∧ recoverTrace F = [] := by
  intro F
  have := (crash_consistent fs0 hwf hcl op c p cuts).2.2.1
  exact ⟨recover_clean this, recoverTrace_clean this⟩

/-- one "generation": completed operations, one operation killed at `(c, p)`, reopenings killed inside
    recovery at `cuts`, one reopening that completes -/
structure Gen where
  ops : List Op
  op : Op
  c : Nat
  p : Nat
  cuts : List (Nat × Nat)

def runGen (fs : Fs) (g : Gen) : Fs :=
  finalState g.cuts (crashAt (opTrace (runOps fs g.ops) g.op) g.c g.p (runOps fs g.ops))

/-- any number of crash-and-recover generations: the database is clean and well-formed after each of
    them, so `history_crash_consistent` describes every generation relative to the state it started in -/
theorem generations_invariant (fs0 : Fs) (hwf : WF fs0) (hcl : Clean fs0) (gs : List Gen) :
    Clean (gs.foldl runGen fs0) ∧ WF (gs.foldl runGen fs0) := by
  induction gs generalizing fs0 with
  | nil => exact ⟨hcl, hwf⟩
  | cons g rest ih =>
    obtain ⟨_, _, h3, h4⟩ := history_crash_consistent fs0 hwf hcl g.ops g.op g.c g.p g.cuts
    exact ih _ h4 h3

/-- the empty directory is a clean, well-formed database: the theorems apply from the start -/
theorem empty_clean : WF [] ∧ Clean [] := ⟨List.nodup_nil, fun m hm => by simp at hm⟩

/-! ### non-vacuity -/

theorem enc_k : encodeKey [107] = [97, 119, 61, 61, 95] := by
  have h : encodebytes [107] = [97, 119, 61, 61, 10] := by
    rw [encodebytes_ne _ (by simp)]
    simp [encodebytes_nil, b64, ch, digit]
  simp [encodeKey, h, subst]

/-- the empty key is stored under `_` (the repaired `_encode`) -/
example : encodeKey [] = [95] := by simp [encodeKey, encodebytes_nil, subst]

/-- `db = {k: 1}`; `db[k] = 23` killed in the middle of writing `aw==_.rpl`, then two reopenings killed
    before their first primitive: the old value; killed after `remove(old)`: recovery renames the
    `.rpl` into place — the new value -/
example :
    let fs0 : Fs := [([97, 119, 61, 61, 95], [1])]
    view (finalState [(0, 0), (0, 0)] (crashAt (opTrace fs0 (.set [107] [2, 3])) 1 1 fs0)) [107] = some [1] ∧
    view (finalState [(0, 0)] (crashAt (opTrace fs0 (.set [107] [2, 3])) 3 0 fs0)) [107] = some [2, 3] := by
  simp only [view, opTrace, setTrace, enc_k]
  decide

end TwistedProps.C51
