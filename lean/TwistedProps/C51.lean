import TwistedProps.C51.Recovery
import TwistedProps.C51.More
/-!
C51 — DirDBM survives a crash at any point.

For any sequence of set, replace and delete operations and a process crash at any point during
them (or during the recovery performed when the database is reopened), reopening the database
yields every key with the value of its last completed operation, and the interrupted operation's
key with either its old or its new value.  No partial value or stray file is ever visible as data.

Vocabulary (`TwistedProps/C51/Defs.lean`): `view fs k` = `db[k]`; `Clean fs` = every file is the
encoding of a key; `finalState cuts S` = the directory after reopenings killed at `cuts` inside
recovery followed by one reopening that completes; `crashAt tr c p fs` (`Fs/Sim.lean`) = `c`
primitives of the trace done, `p` bytes of an interrupted write.  `WF` = no name listed twice.
The model follows the repaired `_encode` (the empty key is stored as `_`; before the fix it named
the database directory itself — witness in `harness/corpus/C51`) and the repaired recovery (the directory
part of its glob patterns is escaped: the name of the directory plays no role).

Beyond the statement's set/replace/delete: a `__setitem__` whose write fails with an exception while the
process lives on (`failed_set_*`, `history_with_failures_*`: a failed set is not a completed operation and
leaves nothing behind that a later crash could promote), and the other mutating entry points, which are
sets and deletes (`setdefault_*`, `update_*`, `clear_*`).
-/
namespace TwistedProps.C51
open Twisted.Fs Twisted.Fs.DirDbm TwistedProps.C52 Twisted.Fs.B64

/-- **Key encoding is injective** (`base64.encodebytes` chunking + the two replaces + the empty-key rule). -/
theorem key_encoding_injective (k k' : Bytes) (h : encodeKey k = encodeKey k') : k = k' :=
  encodeKey_inj k k' h

/-- **No encoded key contains `.`**, so a key file is never mistaken for a `.new`/`.rpl` leftover and
    `f[:-4]` of a leftover is the key file it belongs to. -/
theorem key_encoding_dot_free (k : Bytes) : (46 : UInt8) ∉ encodeKey k := encodeKey_no_dot k

/-- **delete, every crash point, every nested recovery crash** -/
theorem del_final (fs0 : Fs) (hcl : Clean fs0) (k : Bytes) (c p : Nat) (cuts : List (Nat × Nat)) :
    let F := finalState cuts (crashAt (opTrace fs0 (.del k)) c p fs0)
    (∀ m, get F m = get fs0 m) ∨ (∀ m, get F m = if m = encodeKey k then none else get fs0 m) := by
  intro F
  cases hex : exists_ fs0 (encodeKey k) with
  | false =>
    have : opTrace fs0 (.del k) = [] := by simp [opTrace, delTrace, hex]
    left; intro m; show get (finalState _ _) m = _
    rw [this, crashAt_nil, final_clean hcl]
  | true =>
    have ht : opTrace fs0 (.del k) = [.remove (encodeKey k)] := by simp [opTrace, delTrace, hex]
    rcases crashAt_single (.remove (encodeKey k)) (by intro n d h; cases h) c p fs0 with h | h
    · left; intro m; show get (finalState _ _) m = _
      rw [ht, h, final_clean hcl]
    · have hg : ∀ m, get (run [Prim.remove (encodeKey k)] fs0) m = if m = encodeKey k then none else get fs0 m := by
        intro m; simp [get_apply_remove]
      have hc : Clean (run [Prim.remove (encodeKey k)] fs0) := fun m hm => by
        rw [hg m] at hm
        by_cases hb : m = encodeKey k
        · simp [hb] at hm
        · exact hcl m (by simpa [hb] using hm)
      right; intro m; show get (finalState _ _) m = _
      rw [ht, h, final_clean hc, hg m]

def keyOf : Op → Bytes
  | .set k _ => k
  | .del k => k

/-- what the operation makes `db[key]` read once it has completed -/
def newVal : Op → Option Bytes
  | .set _ v => some v
  | .del _ => none

/-- dictionary semantics of an operation -/
def applyOp (d : Bytes → Option Bytes) (op : Op) : Bytes → Option Bytes :=
  fun key => if key = keyOf op then newVal op else d key

theorem op_final (fs0 : Fs) (hwf : WF fs0) (hcl : Clean fs0) (op : Op) (c p : Nat) (cuts : List (Nat × Nat)) :
    let F := finalState cuts (crashAt (opTrace fs0 op) c p fs0)
    (∀ m, get F m = get fs0 m) ∨
    (∀ m, get F m = if m = encodeKey (keyOf op) then newVal op else get fs0 m) := by
  cases op with
  | set k v => exact set_final fs0 hwf hcl k v c p cuts
  | del k => exact del_final fs0 hcl k c p cuts

theorem WF_reopenCrashes {fs : Fs} (h : WF fs) (cuts : List (Nat × Nat)) : WF (reopenCrashes cuts fs) := by
  induction cuts generalizing fs with
  | nil => exact h
  | cons cp rest ih => exact ih (WF_crashAt h _ _ _)

theorem WF_finalState {fs : Fs} (h : WF fs) (cuts : List (Nat × Nat)) : WF (finalState cuts fs) :=
  WF_run (WF_reopenCrashes h cuts) _

/-- **C51, one interrupted operation.**  From any clean database state, for every operation, every
    crash point `(c, p)` inside it (partial writes of every length), and every sequence `cuts` of
    reopenings that are themselves killed inside recovery, the reopening that completes yields:
    every other key exactly as before; the interrupted key with its old or its new value (never
    anything else — no partial value); and a directory in which every file is the encoding of a
    key (no stray file visible as data), well-formed again, so the statement applies to whatever
    happens next. -/
theorem crash_consistent (fs0 : Fs) (hwf : WF fs0) (hcl : Clean fs0) (op : Op) (c p : Nat)
    (cuts : List (Nat × Nat)) :
    let F := finalState cuts (crashAt (opTrace fs0 op) c p fs0)
    (∀ key, key ≠ keyOf op → view F key = view fs0 key) ∧
    (view F (keyOf op) = view fs0 (keyOf op) ∨ view F (keyOf op) = newVal op) ∧
    Clean F ∧ WF F := by
  intro F
  have hF := op_final fs0 hwf hcl op c p cuts
  have hne : ∀ key, key ≠ keyOf op → ¬ encodeKey key = encodeKey (keyOf op) :=
    fun key hk h => hk (encodeKey_inj _ _ h)
  refine ⟨?_, ?_, ?_, WF_finalState (WF_crashAt hwf _ _ _) cuts⟩
  · intro key hk
    rcases hF with h | h
    · exact h _
    · show get F _ = _; rw [h]; simp [hne key hk, view]
  · rcases hF with h | h
    · left; exact h _
    · right; show get F _ = _; rw [h]; simp
  · intro m hm
    rcases hF with h | h
    · exact hcl m (by rw [← h m]; exact hm)
    · rw [h m] at hm
      by_cases hb : m = encodeKey (keyOf op)
      · exact ⟨_, hb⟩
      · exact hcl m (by simpa [hb] using hm)

/-- an operation that is not interrupted does what a dictionary does -/
theorem op_complete (fs0 : Fs) (hwf : WF fs0) (hcl : Clean fs0) (op : Op) :
    (∀ key, view (run (opTrace fs0 op) fs0) key = applyOp (view fs0) op key) ∧
    Clean (run (opTrace fs0 op) fs0) ∧ WF (run (opTrace fs0 op) fs0) := by
  have hg : ∀ m, get (run (opTrace fs0 op) fs0) m =
      if m = encodeKey (keyOf op) then newVal op else get fs0 m := by
    cases op with
    | del k =>
      intro m
      cases hex : exists_ fs0 (encodeKey k) with
      | false =>
        have hn : get fs0 (encodeKey k) = none := by
          simp only [exists_] at hex
          cases h : get fs0 (encodeKey k) with
          | none => rfl
          | some x => simp [h] at hex
        simp only [opTrace, delTrace, hex, keyOf, newVal]
        by_cases hb : m = encodeKey k <;> simp [hb, hn]
      | true =>
        simp only [opTrace, delTrace, hex, keyOf, newVal, if_true, Option.getD_some, run_cons, run_nil, get_apply_remove]
        by_cases hb : m = encodeKey k <;> simp [hb]
    | set k v =>
      intro m
      have hkey : IsKey (encodeKey k) := ⟨k, rfl⟩
      have hr_ne : encodeKey k ++ extRpl ≠ encodeKey k := fun h => key_ne_stray hkey dot_in_rpl h.symm
      have hr0 : get fs0 (encodeKey k ++ extRpl) = none := by
        cases h : get fs0 (encodeKey k ++ extRpl) with
        | none => rfl
        | some x => exact absurd rfl (key_ne_stray (hcl _ (by rw [h]; rfl)) dot_in_rpl)
      have hn0 : get fs0 (encodeKey k ++ extNew) = none := by
        cases h : get fs0 (encodeKey k ++ extNew) with
        | none => rfl
        | some x => exact absurd rfl (key_ne_stray (hcl _ (by rw [h]; rfl)) dot_in_new)
      cases hex : exists_ fs0 (encodeKey k) with
      | true =>
        have h4 := rpl_crash_shapes fs0 (encodeKey k) v ((rplTrace (encodeKey k) v).length) 0 hr_ne
        simp only at h4
        rw [crashAt_ge _ _ _ _ (Nat.le_refl _)] at h4
        simp only [opTrace, setTrace_old hex, keyOf, newVal]
        -- the completed run is the last shape: compute it directly
        by_cases hc : v = []
        · subst hc
          simp [rplTrace, writeP, get_apply_create, get_apply_remove, get_apply_rename, hr_ne]
          by_cases h1 : m = encodeKey k <;> by_cases h2 : m = encodeKey k ++ extRpl <;> simp_all
        · have hw : writeP (encodeKey k ++ extRpl) v = [.write (encodeKey k ++ extRpl) v] := by
            cases v with
            | nil => exact absurd rfl hc
            | cons x xs => simp [writeP]
          simp [rplTrace, hw, get_apply_create, get_apply_write, get_apply_remove, get_apply_rename, hr_ne]
          by_cases h1 : m = encodeKey k <;> by_cases h2 : m = encodeKey k ++ extRpl <;> simp_all
      | false =>
        simp only [opTrace, setTrace_new hex, keyOf, newVal]
        have hne : encodeKey k ++ extNew ≠ encodeKey k := fun h => key_ne_stray hkey dot_in_new h.symm
        by_cases hb : m = encodeKey k
        · rw [hb]; simp [(replace_complete fs0 _ _ v hne).1]
        · by_cases hm : m = encodeKey k ++ extNew
          · rw [hm]; simp [(replace_complete fs0 _ _ v hne).2, hne, hn0]
          · have := replace_others_untouched fs0 (encodeKey k ++ extNew) (encodeKey k) v
              ((replaceTrace (encodeKey k ++ extNew) (encodeKey k) v).length) 0 m hb hm
            rw [crashAt_ge _ _ _ _ (Nat.le_refl _)] at this
            simp [this, hb]
  refine ⟨?_, ?_, WF_run hwf _⟩
  · intro key
    show get _ _ = _
    rw [hg]
    by_cases hk : key = keyOf op
    · simp [applyOp, hk]
    · have : ¬ encodeKey key = encodeKey (keyOf op) := fun h => hk (encodeKey_inj _ _ h)
      simp [applyOp, hk, this, view]
  · intro m hm
    rw [hg m] at hm
    by_cases hb : m = encodeKey (keyOf op)
    · exact ⟨_, hb⟩
    · exact hcl m (by simpa [hb] using hm)

/-- a history of completed operations -/
def runOps (fs : Fs) (ops : List Op) : Fs := ops.foldl (fun fs op => run (opTrace fs op) fs) fs

theorem runOps_spec (fs0 : Fs) (hwf : WF fs0) (hcl : Clean fs0) (ops : List Op) :
    (∀ key, view (runOps fs0 ops) key = ops.foldl applyOp (view fs0) key) ∧
    Clean (runOps fs0 ops) ∧ WF (runOps fs0 ops) := by
  induction ops generalizing fs0 with
  | nil => exact ⟨fun _ => rfl, hcl, hwf⟩
  | cons op rest ih =>
    obtain ⟨h1, h2, h3⟩ := op_complete fs0 hwf hcl op
    obtain ⟨g1, g2, g3⟩ := ih (run (opTrace fs0 op) fs0) h3 h2
    refine ⟨?_, g2, g3⟩
    intro key
    show view (runOps (run (opTrace fs0 op) fs0) rest) key = List.foldl applyOp (applyOp (view fs0) op) rest key
    rw [g1 key]
    have : view (run (opTrace fs0 op) fs0) = applyOp (view fs0) op := funext h1
    rw [this]

/-- **C51, headline.**  For any sequence `ops` of set, replace and delete operations that completed
    (from any clean database, e.g. the empty directory), an operation `op` killed at any point
    `(c, p)`, and any number of reopenings killed inside recovery (`cuts`): the reopening that
    completes yields every key with the value of its last completed operation
    (`ops.foldl applyOp …`), except the interrupted operation's key, which has that (old) value or
    the new one; and nothing but key files is in the directory. -/
theorem history_crash_consistent (fs0 : Fs) (hwf : WF fs0) (hcl : Clean fs0) (ops : List Op) (op : Op)
    (c p : Nat) (cuts : List (Nat × Nat)) :
    let fsn := runOps fs0 ops
    let F := finalState cuts (crashAt (opTrace fsn op) c p fsn)
    let last := ops.foldl applyOp (view fs0)
    (∀ key, key ≠ keyOf op → view F key = last key) ∧
    (view F (keyOf op) = last (keyOf op) ∨ view F (keyOf op) = newVal op) ∧
    Clean F ∧ WF F := by
  intro fsn F last
  obtain ⟨h1, h2, h3⟩ := runOps_spec fs0 hwf hcl ops
  obtain ⟨g1, g2, g3, g4⟩ := crash_consistent fsn h3 h2 op c p cuts
  refine ⟨fun key hk => ?_, ?_, g3, g4⟩
  · show view F key = List.foldl applyOp (view fs0) ops key
    rw [← h1 key]; exact g1 key hk
  · show view F (keyOf op) = List.foldl applyOp (view fs0) ops (keyOf op) ∨ _
    rw [← h1 (keyOf op)]; exact g2

/-- recovery is idempotent on every state a crash can leave (and on its own crash states) -/
theorem recovery_idempotent (fs0 : Fs) (hwf : WF fs0) (hcl : Clean fs0) (op : Op) (c p : Nat)
    (cuts : List (Nat × Nat)) :
    let F := finalState cuts (crashAt (opTrace fs0 op) c p fs0)
    recover F = F ∧ recoverTrace F = [] := by
  intro F
  have := (crash_consistent fs0 hwf hcl op c p cuts).2.2.1
  exact ⟨recover_clean this, recoverTrace_clean this⟩

/-- one "generation": completed operations, one operation killed at `(c, p)`, reopenings killed inside
    recovery at `cuts`, one reopening that completes -/
structure Gen where
  ops : List Op
  op : Op
  c : Nat
  p : Nat
  cuts : List (Nat × Nat)

def runGen (fs : Fs) (g : Gen) : Fs :=
  finalState g.cuts (crashAt (opTrace (runOps fs g.ops) g.op) g.c g.p (runOps fs g.ops))

/-- any number of crash-and-recover generations: the database is clean and well-formed after each of
    them, so `history_crash_consistent` describes every generation relative to the state it started in -/
theorem generations_invariant (fs0 : Fs) (hwf : WF fs0) (hcl : Clean fs0) (gs : List Gen) :
    Clean (gs.foldl runGen fs0) ∧ WF (gs.foldl runGen fs0) := by
  induction gs generalizing fs0 with
  | nil => exact ⟨hcl, hwf⟩
  | cons g rest ih =>
    obtain ⟨_, _, h3, h4⟩ := history_crash_consistent fs0 hwf hcl g.ops g.op g.c g.p g.cuts
    exact ih _ h4 h3

/-- the empty directory is a clean, well-formed database: the theorems apply from the start -/
theorem empty_clean : WF [] ∧ Clean [] := ⟨List.nodup_nil, fun m hm => by simp at hm⟩

/-! ### non-vacuity -/

theorem enc_k : encodeKey [107] = [97, 119, 61, 61, 95] := by
  have h : encodebytes [107] = [97, 119, 61, 61, 10] := by
    rw [encodebytes_ne _ (by simp)]
    simp [encodebytes_nil, b64, ch, digit]
  simp [encodeKey, h, subst]

/-- the empty key is stored under `_` (the repaired `_encode`) -/
example : encodeKey [] = [95] := by simp [encodeKey, encodebytes_nil, subst]

/-- `db = {k: 1}`; `db[k] = 23` killed in the middle of writing `aw==_.rpl`, then two reopenings killed
    before their first primitive: the old value; killed after `remove(old)`: recovery renames the
    `.rpl` into place — the new value -/
example :
    let fs0 : Fs := [([97, 119, 61, 61, 95], [1])]
    view (finalState [(0, 0), (0, 0)] (crashAt (opTrace fs0 (.set [107] [2, 3])) 1 1 fs0)) [107] = some [1] ∧
    view (finalState [(0, 0)] (crashAt (opTrace fs0 (.set [107] [2, 3])) 3 0 fs0)) [107] = some [2, 3] := by
  simp only [view, opTrace, setTrace, enc_k]
  decide

/-! ### a `__setitem__` whose write fails with an exception (the process lives on) -/

/-- **a failing set, killed anywhere inside it (its handler included) or not at all**: after the reopening
    that completes (nested recovery crashes `cuts`), every key reads what it read before the failing set —
    the key of the failing set too (never a partial value) — and only key files are in the directory. -/
theorem failed_set_crash_consistent (fs0 : Fs) (hwf : WF fs0) (hcl : Clean fs0) (k v : Bytes) (n c p : Nat)
    (cuts : List (Nat × Nat)) :
    let F := finalState cuts (crashAt (setFailTrace fs0 k v n) c p fs0)
    (∀ key, view F key = view fs0 key) ∧ Clean F ∧ WF F := by
  intro F
  have h := set_fail_final fs0 hwf hcl k v n c p cuts
  exact ⟨fun key => h _, fun m hm => hcl m (by rw [← h m]; exact hm),
    WF_finalState (WF_crashAt hwf _ _ _) cuts⟩

/-- **a failing set that ran to its end** (the caller got the exception, the process goes on): the database is
    what it was — no stray file is left behind for a later crash to promote. -/
theorem failed_set_complete (fs0 : Fs) (hwf : WF fs0) (hcl : Clean fs0) (k v : Bytes) (n : Nat) :
    (∀ key, view (run (setFailTrace fs0 k v n) fs0) key = view fs0 key) ∧
    Clean (run (setFailTrace fs0 k v n) fs0) ∧ WF (run (setFailTrace fs0 k v n) fs0) := by
  obtain ⟨h1, h2, h3⟩ := set_fail_restores fs0 hwf hcl k v n
  exact ⟨fun key => h1 _, h3, h2⟩

/-- a step of a history inside one process: an operation that completed, or a set whose write failed after
    `n` bytes and whose handler ran -/
inductive Step where
  | done (op : Op)
  | failed (k v : Bytes) (n : Nat)

def stepTrace (fs : Fs) : Step → List Prim
  | .done op => opTrace fs op
  | .failed k v n => setFailTrace fs k v n

/-- dictionary semantics: a failed set is not a completed operation -/
def applyStep (d : Bytes → Option Bytes) : Step → Bytes → Option Bytes
  | .done op => applyOp d op
  | .failed _ _ _ => d

def runSteps (fs : Fs) (steps : List Step) : Fs := steps.foldl (fun fs s => run (stepTrace fs s) fs) fs

theorem runSteps_spec (fs0 : Fs) (hwf : WF fs0) (hcl : Clean fs0) (steps : List Step) :
    (∀ key, view (runSteps fs0 steps) key = steps.foldl applyStep (view fs0) key) ∧
    Clean (runSteps fs0 steps) ∧ WF (runSteps fs0 steps) := by
  induction steps generalizing fs0 with
  | nil => exact ⟨fun _ => rfl, hcl, hwf⟩
  | cons s rest ih =>
    have hs : (∀ key, view (run (stepTrace fs0 s) fs0) key = applyStep (view fs0) s key) ∧
        Clean (run (stepTrace fs0 s) fs0) ∧ WF (run (stepTrace fs0 s) fs0) := by
      cases s with
      | done op => exact op_complete fs0 hwf hcl op
      | failed k v n => exact failed_set_complete fs0 hwf hcl k v n
    obtain ⟨h1, h2, h3⟩ := hs
    obtain ⟨g1, g2, g3⟩ := ih (run (stepTrace fs0 s) fs0) h3 h2
    refine ⟨?_, g2, g3⟩
    intro key
    show view (runSteps (run (stepTrace fs0 s) fs0) rest) key = List.foldl applyStep (applyStep (view fs0) s) rest key
    rw [g1 key]
    have : view (run (stepTrace fs0 s) fs0) = applyStep (view fs0) s := funext h1
    rw [this]

/-- **C51 with failing writes in the history.**  `history_crash_consistent` where the steps before the crash
    are completed operations *and sets whose write failed with an exception* (in any order): the interrupted
    step may be an operation (old or new value for its key) … -/
theorem history_with_failures_crash_consistent (fs0 : Fs) (hwf : WF fs0) (hcl : Clean fs0) (steps : List Step)
    (op : Op) (c p : Nat) (cuts : List (Nat × Nat)) :
    let fsn := runSteps fs0 steps
    let F := finalState cuts (crashAt (opTrace fsn op) c p fsn)
    let last := steps.foldl applyStep (view fs0)
    (∀ key, key ≠ keyOf op → view F key = last key) ∧
    (view F (keyOf op) = last (keyOf op) ∨ view F (keyOf op) = newVal op) ∧
    Clean F ∧ WF F := by
  intro fsn F last
  obtain ⟨h1, h2, h3⟩ := runSteps_spec fs0 hwf hcl steps
  obtain ⟨g1, g2, g3, g4⟩ := crash_consistent fsn h3 h2 op c p cuts
  refine ⟨fun key hk => ?_, ?_, g3, g4⟩
  · show view F key = List.foldl applyStep (view fs0) steps key
    rw [← h1 key]; exact g1 key hk
  · show view F (keyOf op) = List.foldl applyStep (view fs0) steps (keyOf op) ∨ _
    rw [← h1 (keyOf op)]; exact g2

/-- … or a failing set killed inside itself or its handler: every key has the value of its last completed
    operation -/
theorem history_with_failures_failing_set_killed (fs0 : Fs) (hwf : WF fs0) (hcl : Clean fs0) (steps : List Step)
    (k v : Bytes) (n c p : Nat) (cuts : List (Nat × Nat)) :
    let fsn := runSteps fs0 steps
    let F := finalState cuts (crashAt (setFailTrace fsn k v n) c p fsn)
    (∀ key, view F key = steps.foldl applyStep (view fs0) key) ∧ Clean F ∧ WF F := by
  intro fsn F
  obtain ⟨h1, h2, h3⟩ := runSteps_spec fs0 hwf hcl steps
  obtain ⟨g1, g2, g3⟩ := failed_set_crash_consistent fsn h3 h2 k v n c p cuts
  exact ⟨fun key => by rw [← h1 key]; exact g1 key, g2, g3⟩

/-! ### `setdefault`, `update`, `clear` are sets and deletes -/

/-- `setdefault(k, v)` performs no primitive when the key is present and is `db[k] = v` otherwise -/
theorem setdefault_is_set (fs : Fs) (k v : Bytes) :
    ((view fs k).isSome = true ∧ setdefaultTrace fs k v = []) ∨
    (view fs k = none ∧ setdefaultTrace fs k v = opTrace fs (.set k v)) := by
  cases h : get fs (encodeKey k) with
  | none => right; simp [view, setdefaultTrace, exists_, h, opTrace]
  | some x => left; simp [view, setdefaultTrace, exists_, h]

/-- **`setdefault` killed at any point**: the key keeps its value, or (if it was absent) has the default;
    every other key is untouched; only key files remain -/
theorem setdefault_crash_consistent (fs0 : Fs) (hwf : WF fs0) (hcl : Clean fs0) (k v : Bytes) (c p : Nat)
    (cuts : List (Nat × Nat)) :
    let F := finalState cuts (crashAt (setdefaultTrace fs0 k v) c p fs0)
    (∀ key, key ≠ k → view F key = view fs0 key) ∧
    (view F k = view fs0 k ∨ (view fs0 k = none ∧ view F k = some v)) ∧ Clean F ∧ WF F := by
  intro F
  rcases setdefault_is_set fs0 k v with ⟨_, ht⟩ | ⟨hn, ht⟩
  · have hF : F = fs0 := by
      show finalState cuts (crashAt (setdefaultTrace fs0 k v) c p fs0) = fs0
      rw [ht, crashAt_nil, final_clean hcl]
    rw [hF]
    exact ⟨fun _ _ => rfl, Or.inl rfl, hcl, hwf⟩
  · have hF : F = finalState cuts (crashAt (opTrace fs0 (.set k v)) c p fs0) := by
      show finalState cuts (crashAt (setdefaultTrace fs0 k v) c p fs0) = _
      rw [ht]
    obtain ⟨g1, g2, g3, g4⟩ := crash_consistent fs0 hwf hcl (.set k v) c p cuts
    rw [hF]
    refine ⟨g1, ?_, g3, g4⟩
    rcases g2 with g | g
    · exact Or.inl g
    · exact Or.inr ⟨hn, g⟩

/-- `update(d)` run to its end is the history of its sets -/
theorem update_is_sets (fs : Fs) (kvs : List (Bytes × Bytes)) :
    run (updateTrace fs kvs) fs = runOps fs (kvs.map fun kv => Op.set kv.1 kv.2) := by
  induction kvs generalizing fs with
  | nil => rfl
  | cons kv rest ih =>
    obtain ⟨k, v⟩ := kv
    show run (setTrace fs k v ++ updateTrace (run (setTrace fs k v) fs) rest) fs = _
    rw [run_append, ih]
    rfl

theorem crashAt_append (a b : List Prim) (c p : Nat) (fs : Fs) :
    crashAt (a ++ b) c p fs = if c < a.length then crashAt a c p fs else crashAt b (c - a.length) p (run a fs) := by
  by_cases h : c < a.length
  · simp only [h, if_true, crashAt]
    have h1 : (a ++ b).take c = a.take c := by
      rw [List.take_append_of_le_length (Nat.le_of_lt h)]
    have h2 : (a ++ b).drop c = a.drop c ++ b := by
      rw [List.drop_append_of_le_length (Nat.le_of_lt h)]
    rw [h1, h2]
    cases hd : a.drop c with
    | nil => exact absurd (List.drop_eq_nil_iff.mp hd) (by omega)
    | cons x xs => rw [List.cons_append]; cases x <;> rfl
  · simp only [h, if_false, crashAt]
    have hle : a.length ≤ c := Nat.le_of_not_lt h
    have h1 : (a ++ b).take c = a ++ b.take (c - a.length) := by
      rw [List.take_append, List.take_of_length_le hle]
    have h2 : (a ++ b).drop c = b.drop (c - a.length) := by
      rw [List.drop_append, List.drop_of_length_le hle, List.nil_append]
    rw [h1, h2, run_append]

/-- **`update` killed at any point** is a history of completed sets followed by one set killed at some point
    (or nothing killed at all): `history_crash_consistent` applies to it -/
theorem update_cut_is_set_cut (fs : Fs) (kvs : List (Bytes × Bytes)) (c p : Nat) :
    crashAt (updateTrace fs kvs) c p fs = run (updateTrace fs kvs) fs ∨
    ∃ done k v rest c', kvs = done ++ (k, v) :: rest ∧
      crashAt (updateTrace fs kvs) c p fs =
        crashAt (opTrace (runOps fs (done.map fun kv => Op.set kv.1 kv.2)) (.set k v)) c' p
          (runOps fs (done.map fun kv => Op.set kv.1 kv.2)) := by
  induction kvs generalizing fs c with
  | nil => left; simp [updateTrace, crashAt_nil]
  | cons kv rest ih =>
    obtain ⟨k, v⟩ := kv
    have hcut : crashAt (updateTrace fs ((k, v) :: rest)) c p fs =
        if c < (setTrace fs k v).length then crashAt (setTrace fs k v) c p fs
        else crashAt (updateTrace (run (setTrace fs k v) fs) rest) (c - (setTrace fs k v).length) p
          (run (setTrace fs k v) fs) := by
      show crashAt (setTrace fs k v ++ updateTrace (run (setTrace fs k v) fs) rest) c p fs = _
      exact crashAt_append _ _ _ _ _
    have hrun : run (updateTrace fs ((k, v) :: rest)) fs =
        run (updateTrace (run (setTrace fs k v) fs) rest) (run (setTrace fs k v) fs) := by
      show run (setTrace fs k v ++ updateTrace (run (setTrace fs k v) fs) rest) fs = _
      rw [run_append]
    rw [hcut, hrun]
    by_cases h : c < (setTrace fs k v).length
    · right
      exact ⟨[], k, v, rest, c, rfl, by simp [h, runOps, opTrace]⟩
    · simp only [h, if_false]
      rcases ih (run (setTrace fs k v) fs) (c - (setTrace fs k v).length) with h1 | ⟨done, k', v', rest', c', he, h1⟩
      · left; exact h1
      · right
        refine ⟨(k, v) :: done, k', v', rest', c', by rw [he]; rfl, ?_⟩
        rw [h1]
        rfl

theorem mem_insertName (n x : Name) (l : List Name) : x ∈ insertName n l ↔ x = n ∨ x ∈ l := by
  induction l with
  | nil => simp [insertName]
  | cons m rest ih =>
    simp only [insertName]
    split
    · simp
    · simp only [List.mem_cons, ih]
      constructor
      · rintro (h | h | h)
        · exact Or.inr (Or.inl h)
        · exact Or.inl h
        · exact Or.inr (Or.inr h)
      · rintro (h | h | h)
        · exact Or.inr (Or.inl h)
        · exact Or.inl h
        · exact Or.inr (Or.inr h)

theorem mem_sortNames (x : Name) (l : List Name) : x ∈ sortNames l ↔ x ∈ l := by
  induction l with
  | nil => simp [sortNames]
  | cons m rest ih => simp [sortNames, mem_insertName, ih]

theorem get_run_removes (ns : List Name) (fs : Fs) (m : Name) :
    get (run (ns.map Prim.remove) fs) m = if m ∈ ns then none else get fs m := by
  induction ns generalizing fs with
  | nil => simp
  | cons n rest ih =>
    simp only [List.map_cons, run_cons, ih, get_apply_remove, List.mem_cons]
    by_cases h1 : m ∈ rest <;> by_cases h2 : m = n <;> simp [h1, h2]

theorem crashAt_removes (ns : List Name) (c p : Nat) (fs : Fs) :
    crashAt (ns.map Prim.remove) c p fs = run ((ns.take c).map Prim.remove) fs := by
  simp only [crashAt, ← List.map_take, ← List.map_drop]
  cases ns.drop c with
  | nil => rfl
  | cons x xs => rfl

/-- **`clear()` killed at any point** (it is one `__delitem__` per entry): every key keeps its value or is
    gone, nothing else appears; run to its end, every key is gone -/
theorem clear_crash_consistent (fs0 : Fs) (hwf : WF fs0) (hcl : Clean fs0) (c p : Nat) (cuts : List (Nat × Nat)) :
    let F := finalState cuts (crashAt (clearTrace fs0) c p fs0)
    (∀ key, view F key = view fs0 key ∨ view F key = none) ∧ Clean F ∧ WF F := by
  intro F
  have hg : ∀ m, get (crashAt (clearTrace fs0) c p fs0) m = get fs0 m ∨ get (crashAt (clearTrace fs0) c p fs0) m = none := by
    intro m
    rw [clearTrace, crashAt_removes, get_run_removes]
    by_cases h : m ∈ (sortNames (names fs0)).take c <;> simp [h]
  have hc : Clean (crashAt (clearTrace fs0) c p fs0) := fun m hm => by
    rcases hg m with h | h
    · exact hcl m (by rw [← h]; exact hm)
    · rw [h] at hm; simp at hm
  have hF : F = crashAt (clearTrace fs0) c p fs0 := final_clean hc cuts
  rw [hF]
  exact ⟨fun key => hg _, hc, WF_crashAt hwf _ _ _⟩

theorem clear_complete (fs0 : Fs) (key : Bytes) : view (run (clearTrace fs0) fs0) key = none := by
  show get (run (clearTrace fs0) fs0) (encodeKey key) = none
  rw [clearTrace, get_run_removes]
  by_cases h : encodeKey key ∈ sortNames (names fs0)
  · simp [h]
  · simp only [h, if_false]
    rw [mem_sortNames, mem_names_iff] at h
    cases hh : get fs0 (encodeKey key) with
    | none => rfl
    | some x => simp [hh] at h

/-! ### non-vacuity of the theorems above -/

/-- `db = {k: 1}`; `db[k] = 23` whose write raises after 1 byte: killed after the partial write and before the
    handler's `remove` — the reopened database has the old value and only the key file; run to its end — the same -/
example :
    let fs0 : Fs := [([97, 119, 61, 61, 95], [1])]
    view (finalState [(0, 0)] (crashAt (setFailTrace fs0 [107] [2, 3] 1) 2 0 fs0)) [107] = some [1] ∧
    names (finalState [(0, 0)] (crashAt (setFailTrace fs0 [107] [2, 3] 1) 2 0 fs0)) = [[97, 119, 61, 61, 95]] ∧
    get (crashAt (setFailTrace fs0 [107] [2, 3] 1) 2 0 fs0) [97, 119, 61, 61, 95, 46, 114, 112, 108] = some [2] ∧
    view (run (setFailTrace fs0 [107] [2, 3] 1) fs0) [107] = some [1] := by
  simp only [view, setFailTrace, tmpName, enc_k]
  decide

/-- `setdefault` on a present key does nothing; on an absent key it is a set (killed before the rename: absent) -/
example :
    let fs0 : Fs := [([97, 119, 61, 61, 95], [1])]
    setdefaultTrace fs0 [107] [5] = [] ∧
    view (run (setdefaultTrace [] [107] [5]) []) [107] = some [5] ∧
    view (finalState [] (crashAt (setdefaultTrace [] [107] [5]) 2 0 [])) [107] = none := by
  simp only [view, setdefaultTrace, setTrace, enc_k]
  decide

/-- `update({k: 1})` then `update` … here one `update` with the key twice: killed inside the second set after
    `remove(old)` — the new value; before it — the old one; `clear()` removes the entry -/
example :
    view (finalState [] (crashAt (updateTrace [] [([107], [1]), ([107], [2])]) 6 0 [])) [107] = some [2] ∧
    view (finalState [] (crashAt (updateTrace [] [([107], [1]), ([107], [2])]) 5 0 [])) [107] = some [1] ∧
    view (run (clearTrace [([97, 119, 61, 61, 95], [1])]) [([97, 119, 61, 61, 95], [1])]) [107] = none := by
  simp only [view, updateTrace, setTrace, clearTrace, enc_k]
  decide

end TwistedProps.C51
