import TwistedModel.Http.Client
import TwistedProps.C23.Body
import TwistedProps.C23.Control
import TwistedProps.C23.Data
import TwistedProps.C23.Split
/-!
# C23 — the HTTP/1.1 client completes every request exactly once, with the exact body

Model: `TwistedModel/Http/Client.lean` (`HTTPParser`/`HTTPClientParser`, `Response`, `HTTP11ClientProtocol`,
as repaired by the C23 fix), decoders: the C22 models.

FULL STATEMENT (the target; the exactly-once part is proved in full, the rest in part):

  for every request mode `h p a d`, every event script `evs` (deliveries of arbitrary bytes in arbitrary
  segmentation, deliverBody / abort / cancel / request-written / request-failed at arbitrary positions)
  containing the loss of the connection,
      `(run (init h p a d) evs).fires.length = 1`,
  the single firing is `.response` iff the bytes delivered before the loss contain a complete head, the body
  protocol's `delivered` equals the decoder's output (= the body bytes received, by the C22 theorems
  `decode_encode`, `identity_decoder_exact`) and `lost` has exactly one element once `deliverBody` was called:
  `.done` for a complete body, `.potentialDataLoss` for a close-delimited one, `.failed _` for a truncated one.

WHAT IS PROVED (all for unbounded inputs, by induction / invariants):

* `request_deferred_fires_once` — EXACTLY ONCE, IN FULL GENERALITY: for every request mode and EVERY event script
  (deliveries of arbitrary bytes — any response stream, well-formed or not, in any segmentation — interleaved in
  any way with deliverBody / abort / cancel / request-written / request-failed) that contains the loss of the
  connection (any truncation point), `fires.length = 1`; `request_deferred_fires_at_most_once`: `≤ 1` for every
  script without the loss.  Structure of the proof (this is what the flat 30-field record needed):
    - `TwistedProps/C23/Abs.lean`: the control abstraction `K` (protocol state, parser attached, the two
      Deferreds, kind of decoder, parser DONE, Response state, 4 flags), the projection `proj : S → K`, a small
      copy `…K` of every operation on `K`, and one homomorphism lemma per operation (`proj_fireResp`,
      `proj_disconnectParser`, `proj_finishResponse`, `proj_allHeadersReceived`, `proj_connectionLost`, …);
    - `TwistedProps/C23/Inv.lean`: the invariant `InvK` on `K` and its preservation by every `…K` operation (case
      analysis over `K` only, `fireFinK`/`bodyFinishedK` kept folded behind field lemmas);
    - `TwistedProps/C23/Data.lean`: the `dataReceived` path: `good_lineReceived`, `good_rawDataReceived` (any
      decoder result of the C22 decoder models, raise included), `good_lrLoop` (induction over the buffer),
      `inv_dataReceived`.
* `control_only_fires_once_never_response` (the former partial theorem) — on a connection that delivered no
  response byte the single firing is never `.response`.
* `body_delivered_eq_body_received`, `body_connectionLost_once_with_right_reason` — the `Response` body state
  machine: whatever the decoder emitted before/after `deliverBody` reaches the body protocol exactly, in order,
  once; `connectionLost` is called exactly once with exactly the reason given to `_bodyDataFinished`
  (`ResponseDone` when none), whether `deliverBody` comes before or after the end of the body; nothing is
  accepted after the end.

STILL MISSING for the full statement (tie + oracle only): (1) WHICH value the single firing has — `.response` iff the
bytes delivered before the loss contain a complete, well-formed head.  The splitting lemma for the line loop IS
proved (`TwistedProps/C23/Split.lean`: `lrLoop_line` — `lrLoop s (line ++ 10 :: rest)` = `lineReceived s line` then
`lrLoop … rest`; `lrLoop_partial` — a trailing partial line is buffered unchanged; both under the documented limit of
16384 bytes per line); what is missing is its iteration over the head lines (a pure scan of the head that is
independent of the segmentation) and the evaluation of `allHeadersReceived` on its result; (2) the link from the wire to the arguments of
the Response-layer theorems: that the pieces handed to `_bodyDataReceived` are exactly the `data` increments of the
C22 decoder run over the body bytes received (then `decode_encode` / `identity_decoder_exact` /
`data_loss_on_truncation` of `TwistedProps/C22.lean` give "= the body", and the reason given to
`_bodyDataFinished` is `ResponseDone` / `PotentialDataLoss` / `ResponseFailed([reason, _DataLoss])` by
`parserConnectionLost`).
-/
namespace TwistedProps.C23
open Twisted.Http.Client
open Twisted.Http.Chunked (Bytes)

def isControl : Event → Bool
  | .data _ => false
  | _ => true

theorem step_noData (s : S) (e : Event) (he : isControl e = true) (h : NoData s) :
    NoData (step s e) ∧ (s.cstate = .connectionLost → (step s e).cstate = .connectionLost) ∧
      (∀ r, e = .lost r → (step s e).cstate = .connectionLost) := by
  cases e with
  | data b => simp [isControl] at he
  | lost r =>
    have := lost_noData s r h
    exact ⟨this.1, fun _ => this.2, fun _ _ => this.2⟩
  | deliver =>
    simp only [step, deliver_noData s h]
    exact ⟨h, fun x => x, by intro r hr; cases hr⟩
  | written =>
    have := written_noData s h
    exact ⟨this.1, this.2, by intro r hr; cases hr⟩
  | writeFailed =>
    have := writeFailed_noData s .boom h
    exact ⟨this.1, this.2, by intro r hr; cases hr⟩
  | abort =>
    have := abort_noData s h
    exact ⟨this.1, this.2, by intro r hr; cases hr⟩
  | cancel =>
    have := cancel_noData s h
    exact ⟨this.1, this.2, by intro r hr; cases hr⟩

theorem run_noData : ∀ (evs : List Event) (s : S), NoData s → (∀ e ∈ evs, isControl e = true) →
    NoData (run s evs) ∧ ((s.cstate = .connectionLost ∨ ∃ r, Event.lost r ∈ evs) → (run s evs).cstate = .connectionLost) := by
  intro evs
  induction evs with
  | nil => intro s h _; exact ⟨h, by intro hh; rcases hh with hh | ⟨r, hr⟩; exact hh; simp at hr⟩
  | cons e evs ih =>
    intro s h hc
    obtain ⟨h1, h2, h3⟩ := step_noData s e (hc e (by simp)) h
    obtain ⟨i1, i2⟩ := ih (step s e) h1 (fun e' he' => hc e' (by simp [he']))
    refine ⟨by simpa [run] using i1, ?_⟩
    intro hh
    have : (step s e).cstate = .connectionLost ∨ ∃ r, Event.lost r ∈ evs := by
      rcases hh with hh | ⟨r, hr⟩
      · exact Or.inl (h2 hh)
      · simp only [List.mem_cons] at hr
        rcases hr with hr | hr
        · exact Or.inl (h3 r hr.symm)
        · exact Or.inr ⟨r, hr⟩
    simpa [run] using i2 this

theorem noData_lost_fired (s : S) (h : NoData s) (hc : s.cstate = .connectionLost) : s.fires.length = 1 := by
  obtain ⟨_, _, _, f1, f2, f3, _, _, _⟩ := h
  cases hch : s.chained
  · rcases f2 hch with ⟨h2, _⟩ | ⟨_, h2⟩
    · simp [hc] at h2
    · exact h2
  · cases hr : s.respD with
    | none => have := (f3 hr (Or.inl hch)).2; simp [hc] at this
    | some f => simp [f1 hch, hr]

/-- **Exactly once, control part** (partial: scripts without `dataReceived`).  Whatever the request mode and
    whatever the order and number of abort / cancel / written / failed / deliverBody events around the loss of
    the connection, the request Deferred fires exactly once, and not with a response. -/
theorem control_only_fires_once_never_response (h p a d : Bool) (evs : List Event)
    (hctl : ∀ e ∈ evs, isControl e = true) (hlost : ∃ r, Event.lost r ∈ evs) :
    (run (Twisted.Http.Client.init h p a d) evs).fires.length = 1 ∧
      Fire.response ∉ (run (Twisted.Http.Client.init h p a d) evs).fires := by
  obtain ⟨i1, i2⟩ := run_noData evs _ (noData_init h p a d) hctl
  exact ⟨noData_lost_fired _ i1 (i2 (Or.inr hlost)), i1.nr⟩

/-- without the loss of the connection: at most once -/
theorem control_only_fires_at_most_once (h p a d : Bool) (evs : List Event)
    (hctl : ∀ e ∈ evs, isControl e = true) :
    (run (Twisted.Http.Client.init h p a d) evs).fires.length ≤ 1 := by
  obtain ⟨⟨_, _, _, f1, f2, _, _, _, _⟩, _⟩ := run_noData evs _ (noData_init h p a d) hctl
  cases hch : (run (Twisted.Http.Client.init h p a d) evs).chained
  · rcases f2 hch with ⟨_, h2, _⟩ | ⟨_, h2⟩
    · simp [h2]
    · omega
  · rw [f1 hch]; cases (run (Twisted.Http.Client.init h p a d) evs).respD <;> simp

/-- non-vacuity: request body still being written, `abort()`, writing fails, the connection is lost, a late
    `cancel()` — one firing, `ResponseNeverReceived([ConnectionAborted])` (a witness of the unchanged tree) -/
example : (run (Twisted.Http.Client.init false true true true)
    [.abort, .writeFailed, .lost .connectionDone, .cancel]).fires = [.neverReceived [.connectionAborted]] := by
  decide

example : (run (Twisted.Http.Client.init false false false false) [.cancel, .deliver, .lost .connectionLost]).fires =
    [.neverReceived [.cancelled]] := by decide

/-! ### exactly once, for EVERY event script (data included) -/

theorem inv_init (h p a d : Bool) : InvK (proj (Twisted.Http.Client.init h p a d)) := by
  constructor <;> cases a <;> simp [Twisted.Http.Client.init, proj, dkOf]

/-- every event preserves the invariant and only appends to the firings of the request Deferred -/
theorem inv_step (s : S) (e : Event) (h : InvK (proj s)) :
    InvK (proj (step s e)) ∧ s.fires <+: (step s e).fires := by
  cases e with
  | data b => exact inv_dataReceived s b h
  | lost r =>
    have := (inv_connectionLost _ r h).1
    rw [← proj_connectionLost] at this
    exact this
  | deliver => have := inv_deliver _ h; rw [← proj_deliver] at this; exact this
  | written => have := inv_written _ h; rw [← proj_written] at this; exact this
  | writeFailed => have := inv_writeFailed _ .boom h; rw [← proj_writeFailed] at this; exact this
  | abort => have := inv_abort _ h; rw [← proj_abort] at this; exact this
  | cancel => have := inv_cancel _ h; rw [← proj_cancel] at this; exact this

theorem inv_run : ∀ (evs : List Event) (s : S), InvK (proj s) →
    InvK (proj (run s evs)) ∧ s.fires <+: (run s evs).fires := by
  intro evs
  induction evs with
  | nil => intro s h; exact ⟨h, List.prefix_refl _⟩
  | cons e evs ih =>
    intro s h
    obtain ⟨h1, p1⟩ := inv_step s e h
    obtain ⟨h2, p2⟩ := ih (step s e) h1
    exact ⟨by simpa [run] using h2, by simpa [run] using p1.trans p2⟩

/-- the invariant bounds the number of firings -/
theorem inv_fires_le (s : S) (h : InvK (proj s)) : s.fires.length ≤ 1 := by
  cases hch : s.chained
  · rcases h.b hch with ⟨_, h2⟩ | ⟨_, h2, _⟩
    · have : s.fires = [] := h2
      simp [this]
    · have : s.fires.length = 1 := h2
      omega
  · have : s.fires = s.respD.toList := h.a hch
    rw [this]; cases s.respD <;> simp

/-- once fired, always fired exactly once -/
theorem fired_persists (evs : List Event) (s : S) (h : InvK (proj s)) (hf : s.fires.length = 1) :
    (run s evs).fires.length = 1 := by
  obtain ⟨h1, p1⟩ := inv_run evs s h
  have := inv_fires_le _ h1
  have := p1.length_le
  omega

/-- **The request Deferred fires exactly once** — for every request mode, EVERY event script: deliveries of
    arbitrary bytes (well-formed or not) in arbitrary segmentation, `deliverBody`, `abort()`, `cancel()`, request
    written / failed, in any order and number — as soon as the script contains the loss of the connection (at any
    position: every truncation point of every response).  Proof: the invariant `InvK` over the control projection
    `proj` of the state is preserved by every event, `dataReceived` included (`TwistedProps/C23/Data.lean`:
    `lrLoop` → `lineReceived` → `allHeadersReceived` / `rawDataReceived` → `_finished` → `_finishResponse`), and
    `connectionLost` fires whatever had not fired. -/
theorem request_deferred_fires_once (h p a d : Bool) (evs : List Event) (hlost : ∃ r, Event.lost r ∈ evs) :
    (run (Twisted.Http.Client.init h p a d) evs).fires.length = 1 := by
  suffices H : ∀ (evs : List Event) (s : S), InvK (proj s) → (∃ r, Event.lost r ∈ evs) → (run s evs).fires.length = 1 from
    H evs _ (inv_init h p a d) hlost
  intro evs
  induction evs with
  | nil => intro s _ hl; obtain ⟨r, hr⟩ := hl; simp at hr
  | cons e evs ih =>
    intro s hs hl
    obtain ⟨h1, _⟩ := inv_step s e hs
    obtain ⟨r, hr⟩ := hl
    simp only [List.mem_cons] at hr
    rcases hr with hr | hr
    · subst hr
      have hf : (step s (.lost r)).fires.length = 1 := by
        have := (inv_connectionLost _ r hs).2
        rw [← proj_connectionLost] at this
        exact this
      simpa [run] using fired_persists evs _ h1 hf
    · simpa [run] using ih (step s e) h1 ⟨r, hr⟩

/-- without the loss of the connection: at most once, for every event script -/
theorem request_deferred_fires_at_most_once (h p a d : Bool) (evs : List Event) :
    (run (Twisted.Http.Client.init h p a d) evs).fires.length ≤ 1 :=
  inv_fires_le _ (inv_run evs _ (inv_init h p a d)).1

/-- non-vacuity: "HTTP/1.1 200 OK\r\nContent-Length: 3\r\n\r\nab" in two pieces cut inside the header name, then the
    connection is lost inside the body: one firing, the response; the body protocol gets "ab" and one failure -/
example :
    let s := run (Twisted.Http.Client.init false false false true)
      [.data [72, 84, 84, 80, 47, 49, 46, 49, 32, 50, 48, 48, 32, 79, 75, 13, 10, 67, 111, 110, 116],
       .data [101, 110, 116, 45, 76, 101, 110, 103, 116, 104, 58, 32, 51, 13, 10, 13, 10, 97, 98],
       .lost .connectionDone]
    s.fires = [.response] ∧ s.delivered = [97, 98] ∧ s.lost = [.failed [.connectionDone, .dataLoss]] := by
  decide +kernel

/-- non-vacuity: the connection is lost inside the header block: one firing, `ResponseFailed([ConnectionDone])` -/
example :
    (run (Twisted.Http.Client.init false false false true)
      [.data [72, 84, 84, 80, 47, 49, 46, 49, 32, 50, 48, 48, 32, 79, 75, 13, 10, 67, 111], .lost .connectionDone]).fires =
    [.responseFailed [.connectionDone]] := by
  decide +kernel

/-- **The body delivered equals the body received** (Response layer): the pieces `ds1` the decoder emitted before
    `deliverBody` and the pieces `ds2` emitted after it reach the body protocol as exactly `ds1 ++ ds2`,
    after exactly one `makeConnection`; if `deliverBody` comes only after the end of the body, everything
    emitted (`ds`) is handed over at that moment. -/
theorem body_delivered_eq_body_received (s : S) (hs : Fresh s) (ds1 ds2 ds : List Bytes) (r : Option BodyEnd) :
    ((bodyFinished (feedBody (deliverBody (feedBody s ds1)) ds2) r).state.delivered = ds1.flatten ++ ds2.flatten ∧
     (bodyFinished (feedBody (deliverBody (feedBody s ds1)) ds2) r).state.made = 1) ∧
    ((deliverBody (bodyFinished (feedBody s ds) r).state).delivered = ds.flatten ∧
     (deliverBody (bodyFinished (feedBody s ds) r).state).made = 1) := by
  have a := body_deliver_then_finish s hs ds1 ds2 r
  have b := body_finish_then_deliver s hs ds r
  exact ⟨⟨a.1, a.2.2.1⟩, ⟨b.1, b.2.2.1⟩⟩

/-- **connectionLost exactly once, with the reason the parser determined** (Response layer): in both orders
    of `deliverBody` and the end of the body the body protocol's `connectionLost` log is exactly `[reason]`
    (`ResponseDone` when `_bodyDataFinished()` had no argument), the Response is `FINISHED`, and afterwards a
    second end or more data raise without changing anything; without `deliverBody` it is never called. -/
theorem body_connectionLost_once_with_right_reason (s : S) (hs : Fresh s) (ds1 ds2 ds : List Bytes)
    (r : Option BodyEnd) (d : Bytes) (r' : Option BodyEnd) :
    let s1 := (bodyFinished (feedBody (deliverBody (feedBody s ds1)) ds2) r).state
    let s2 := deliverBody (bodyFinished (feedBody s ds) r).state
    let s3 := (bodyFinished (feedBody s ds) r).state
    (s1.lost = [r.getD .done] ∧ s1.rstate = .finished ∧ (bodyData s1 d).state = s1 ∧ (bodyFinished s1 r').state = s1) ∧
    (s2.lost = [r.getD .done] ∧ s2.rstate = .finished ∧ (bodyData s2 d).state = s2 ∧ (bodyFinished s2 r').state = s2) ∧
    (s3.lost = [] ∧ s3.made = 0) := by
  have a := body_deliver_then_finish s hs ds1 ds2 r
  have b := body_finish_then_deliver s hs ds r
  have c := body_never_delivered s hs ds r
  simp only at a b c ⊢
  exact ⟨⟨a.2.1, a.2.2.2, body_after_finish _ (Or.inr a.2.2.2) d r'⟩,
         ⟨b.2.1, b.2.2.2, body_after_finish _ (Or.inr b.2.2.2) d r'⟩, ⟨c.2.1, c.2.2.1⟩⟩

/-- non-vacuity: `Fresh` holds right after `request()`; "ab" buffered, deliverBody, "c", truncated body -/
example : Fresh (Twisted.Http.Client.init false false false true) := ⟨rfl, rfl, rfl, rfl, rfl⟩

example :
    let s := (bodyFinished (feedBody (deliverBody (feedBody (Twisted.Http.Client.init false false false false) [[97], [98]])) [[99]])
      (some (.failed [.connectionDone, .dataLoss]))).state
    s.delivered = [97, 98, 99] ∧ s.lost = [.failed [.connectionDone, .dataLoss]] := by decide

end TwistedProps.C23
