import TwistedModel.Http.Client
import TwistedProps.C23.Body
import TwistedProps.C23.Control
import TwistedProps.C23.Data
import TwistedProps.C23.Split
import TwistedProps.C23.Traces
/-!
# C23 — the HTTP/1.1 client completes every request exactly once, with the exact body

Model: `TwistedModel/Http/Client.lean` (`HTTPParser`/`HTTPClientParser`, `Response`, `HTTP11ClientProtocol`,
as repaired by the C23 fix), decoders: the C22 models.

FULL STATEMENT (the target; exactly-once is proved for every script, which-value and the body for every response stream
on a written request — see STILL MISSING):

  for every request mode `h p a d`, every event script `evs` (deliveries of arbitrary bytes in arbitrary
  segmentation, deliverBody / abort / cancel / request-written / request-failed at arbitrary positions)
  containing the loss of the connection,
      `(run (init h p a d) evs).fires.length = 1`,
  the single firing is `.response` iff the bytes delivered before the loss contain a complete head, the body
  protocol's `delivered` equals the decoder's output (= the body bytes received, by the C22 theorems
  `decode_encode`, `identity_decoder_exact`) and `lost` has exactly one element once `deliverBody` was called:
  `.done` for a complete body, `.potentialDataLoss` for a close-delimited one, `.failed _` for a truncated one.

WHAT IS PROVED (all for unbounded inputs, by induction / invariants):

* `request_deferred_fires_once` — EXACTLY ONCE, IN FULL GENERALITY: for every request mode and EVERY event script
  (deliveries of arbitrary bytes — any response stream, well-formed or not, in any segmentation — interleaved in
  any way with deliverBody / abort / cancel / request-written / request-failed) that contains the loss of the
  connection (any truncation point), `fires.length = 1`; `request_deferred_fires_at_most_once`: `≤ 1` for every
  script without the loss.  Structure of the proof (this is what the flat 30-field record needed):
    - `TwistedProps/C23/Abs.lean`: the control abstraction `K` (protocol state, parser attached, the two
      Deferreds, kind of decoder, parser DONE, Response state, 4 flags), the projection `proj : S → K`, a small
      copy `…K` of every operation on `K`, and one homomorphism lemma per operation (`proj_fireResp`,
      `proj_disconnectParser`, `proj_finishResponse`, `proj_allHeadersReceived`, `proj_connectionLost`, …);
    - `TwistedProps/C23/Inv.lean`: the invariant `InvK` on `K` and its preservation by every `…K` operation (case
      analysis over `K` only, `fireFinK`/`bodyFinishedK` kept folded behind field lemmas);
    - `TwistedProps/C23/Data.lean`: the `dataReceived` path: `good_lineReceived`, `good_rawDataReceived` (any
      decoder result of the C22 decoder models, raise included), `good_lrLoop` (induction over the buffer),
      `inv_dataReceived`.
* `control_only_fires_once_never_response` (the former partial theorem) — on a connection that delivered no
  response byte the single firing is never `.response`.
* `body_delivered_eq_body_received`, `body_connectionLost_once_with_right_reason` — the `Response` body state
  machine: whatever the decoder emitted before/after `deliverBody` reaches the body protocol exactly, in order,
  once; `connectionLost` is called exactly once with exactly the reason given to `_bodyDataFinished`
  (`ResponseDone` when none), whether `deliverBody` comes before or after the end of the body; nothing is
  accepted after the end.

* WHICH VALUE FIRES — `request_fires_response_iff_head_complete`: for every request mode with the request already
  written, every script of deliveries (ANY bytes, ANY segmentation, empty deliveries included) and `deliverBody` calls,
  then the loss with reason `r`, then late `deliverBody` calls: the single firing is the response IFF the bytes received
  contain a complete well-formed head of a final response (1xx heads skipped) by the parser's own rules; otherwise
  `ResponseFailed([e])` with the class `e` the parser raises on the malformed head, or — head incomplete —
  `ResponseNeverReceived([r])` (nothing ever delivered) / `ResponseFailed([r])`.  "Contains a complete head" is the PURE,
  segmentation-independent scan `scan` of `TwistedProps/C23/Head.lean` (`scan_append`: scanning `a ++ b` = scanning `a`
  and going on with `b`; `lrLoop_scan`: the model's line loop — `lrLoop_line`/`lrLoop_partial` iterated over the head
  lines — computes exactly it, `allHeadersReceived` evaluated on the result by `head_noBody` / `head_body`).
* WIRE → DECODER → BODY PROTOCOL — `body_whole_stream` (the pieces given to `_bodyDataReceived` are exactly the `data`
  increments of the C22 decoder run over a segmentation of exactly the bytes after the head: `BodyRun.lean`
  `body_run`, `Traces.lean` `decRun_chunked_feed` = the C22 `feed`), and per framing, for every response, segmentation
  and truncation point, `deliverBody` before, during, after the body or after the loss or never:
    - `body_whole_stream_no_body` (HEAD/204/304/`Content-Length: 0`): nothing, `ResponseDone`;
    - `body_whole_stream_content_length`: exactly the first `n` bytes received after the head; `ResponseDone` iff at
      least `n` arrived, else `ResponseFailed([r, _DataLoss])`;
    - `body_whole_stream_until_close`: exactly the bytes received after the head; `PotentialDataLoss`;
    - `body_whole_stream_chunked` (through C22 `decode_encode`): exactly the chunk data; `ResponseDone`;
    - `body_whole_stream_chunked_truncated` (through C22 `data_loss_on_truncation`): exactly what the C22 decoder has
      emitted on the received prefix; `ResponseFailed([r, _DataLoss])`;
  each with: exactly one `makeConnection`, exactly one `connectionLost`, and nothing at all if `deliverBody` is never
  called (`Observed`).

STILL MISSING for the full statement (tie + oracle only): (1) the which-value / whole-stream theorems are for a request
that has been written (`async = false`) and scripts whose events before the loss are deliveries and `deliverBody`;
with `abort()` / `cancel()` / request-written / request-failed interleaved among the deliveries, or the request still
being transmitted, only exactly-once (`request_deferred_fires_once`) and `control_only_fires_once_never_response` are
proved; (2) head lines longer than `MAX_LENGTH` (16384) are excluded by hypothesis (documented limit; the effect then
depends on the segmentation); (3) for a TRUNCATED chunked body the bytes delivered are characterised as the C22 decoder's
output on the received prefix, not further as "the chunk data contained in the prefix" (C22 has no theorem about the
partial output), and a MALFORMED chunked body is covered only by the generic `body_whole_stream` (end = what
`connectionLost` dictates for the decoder's exception).
-/
namespace TwistedProps.C23
open Twisted.Http.Client
open Twisted.Http.Chunked (Bytes Ident)

def isControl : Event → Bool
  | .data _ => false
  | _ => true

theorem step_noData (s : S) (e : Event) (he : isControl e = true) (h : NoData s) :
    NoData (step s e) ∧ (s.cstate = .connectionLost → (step s e).cstate = .connectionLost) ∧
      (∀ r, e = .lost r → (step s e).cstate = .connectionLost) := by
  cases e with
  | data b => simp [isControl] at he
  | lost r =>
    have := lost_noData s r h
    exact ⟨this.1, fun _ => this.2, fun _ _ => this.2⟩
  | deliver =>
    simp only [step, deliver_noData s h]
    exact ⟨h, fun x => x, by intro r hr; cases hr⟩
  | written =>
    have := written_noData s h
    exact ⟨this.1, this.2, by intro r hr; cases hr⟩
  | writeFailed =>
    have := writeFailed_noData s .boom h
    exact ⟨this.1, this.2, by intro r hr; cases hr⟩
  | abort =>
    have := abort_noData s h
    exact ⟨this.1, this.2, by intro r hr; cases hr⟩
  | cancel =>
    have := cancel_noData s h
    exact ⟨this.1, this.2, by intro r hr; cases hr⟩

theorem run_noData : ∀ (evs : List Event) (s : S), NoData s → (∀ e ∈ evs, isControl e = true) →
    NoData (run s evs) ∧ ((s.cstate = .connectionLost ∨ ∃ r, Event.lost r ∈ evs) → (run s evs).cstate = .connectionLost) := by
  intro evs
  induction evs with
  | nil => intro s h _; exact ⟨h, by intro hh; rcases hh with hh | ⟨r, hr⟩; exact hh; simp at hr⟩
  | cons e evs ih =>
    intro s h hc
    obtain ⟨h1, h2, h3⟩ := step_noData s e (hc e (by simp)) h
    obtain ⟨i1, i2⟩ := ih (step s e) h1 (fun e' he' => hc e' (by simp [he']))
    refine ⟨by simpa [run] using i1, ?_⟩
    intro hh
    have : (step s e).cstate = .connectionLost ∨ ∃ r, Event.lost r ∈ evs := by
      rcases hh with hh | ⟨r, hr⟩
      · exact Or.inl (h2 hh)
      · simp only [List.mem_cons] at hr
        rcases hr with hr | hr
        · exact Or.inl (h3 r hr.symm)
        · exact Or.inr ⟨r, hr⟩
    simpa [run] using i2 this

theorem noData_lost_fired (s : S) (h : NoData s) (hc : s.cstate = .connectionLost) : s.fires.length = 1 := by
  obtain ⟨_, _, _, f1, f2, f3, _, _, _⟩ := h
  cases hch : s.chained
  · rcases f2 hch with ⟨h2, _⟩ | ⟨_, h2⟩
    · simp [hc] at h2
    · exact h2
  · cases hr : s.respD with
    | none => have := (f3 hr (Or.inl hch)).2; simp [hc] at this
    | some f => simp [f1 hch, hr]

/-- **Exactly once, control part** (partial: scripts without `dataReceived`).  Whatever the request mode and
    whatever the order and number of abort / cancel / written / failed / deliverBody events around the loss of
    the connection, the request Deferred fires exactly once, and not with a response. -/
theorem control_only_fires_once_never_response (h p a d : Bool) (evs : List Event)
    (hctl : ∀ e ∈ evs, isControl e = true) (hlost : ∃ r, Event.lost r ∈ evs) :
    (run (Twisted.Http.Client.init h p a d) evs).fires.length = 1 ∧
      Fire.response ∉ (run (Twisted.Http.Client.init h p a d) evs).fires := by
  obtain ⟨i1, i2⟩ := run_noData evs _ (noData_init h p a d) hctl
  exact ⟨noData_lost_fired _ i1 (i2 (Or.inr hlost)), i1.nr⟩

/-- without the loss of the connection: at most once -/
theorem control_only_fires_at_most_once (h p a d : Bool) (evs : List Event)
    (hctl : ∀ e ∈ evs, isControl e = true) :
    (run (Twisted.Http.Client.init h p a d) evs).fires.length ≤ 1 := by
  obtain ⟨⟨_, _, _, f1, f2, _, _, _, _⟩, _⟩ := run_noData evs _ (noData_init h p a d) hctl
  cases hch : (run (Twisted.Http.Client.init h p a d) evs).chained
  · rcases f2 hch with ⟨_, h2, _⟩ | ⟨_, h2⟩
    · simp [h2]
    · omega
  · rw [f1 hch]; cases (run (Twisted.Http.Client.init h p a d) evs).respD <;> simp

/-- non-vacuity: request body still being written, `abort()`, writing fails, the connection is lost, a late
    `cancel()` — one firing, `ResponseNeverReceived([ConnectionAborted])` (a witness of the unchanged tree) -/
example : (run (Twisted.Http.Client.init false true true true)
    [.abort, .writeFailed, .lost .connectionDone, .cancel]).fires = [.neverReceived [.connectionAborted]] := by
  decide

example : (run (Twisted.Http.Client.init false false false false) [.cancel, .deliver, .lost .connectionLost]).fires =
    [.neverReceived [.cancelled]] := by decide

/-! ### exactly once, for EVERY event script (data included) -/

theorem inv_init (h p a d : Bool) : InvK (proj (Twisted.Http.Client.init h p a d)) := by
  constructor <;> cases a <;> simp [Twisted.Http.Client.init, proj, dkOf]

/-- every event preserves the invariant and only appends to the firings of the request Deferred -/
theorem inv_step (s : S) (e : Event) (h : InvK (proj s)) :
    InvK (proj (step s e)) ∧ s.fires <+: (step s e).fires := by
  cases e with
  | data b => exact inv_dataReceived s b h
  | lost r =>
    have := (inv_connectionLost _ r h).1
    rw [← proj_connectionLost] at this
    exact this
  | deliver => have := inv_deliver _ h; rw [← proj_deliver] at this; exact this
  | written => have := inv_written _ h; rw [← proj_written] at this; exact this
  | writeFailed => have := inv_writeFailed _ .boom h; rw [← proj_writeFailed] at this; exact this
  | abort => have := inv_abort _ h; rw [← proj_abort] at this; exact this
  | cancel => have := inv_cancel _ h; rw [← proj_cancel] at this; exact this

theorem inv_run : ∀ (evs : List Event) (s : S), InvK (proj s) →
    InvK (proj (run s evs)) ∧ s.fires <+: (run s evs).fires := by
  intro evs
  induction evs with
  | nil => intro s h; exact ⟨h, List.prefix_refl _⟩
  | cons e evs ih =>
    intro s h
    obtain ⟨h1, p1⟩ := inv_step s e h
    obtain ⟨h2, p2⟩ := ih (step s e) h1
    exact ⟨by simpa [run] using h2, by simpa [run] using p1.trans p2⟩

/-- the invariant bounds the number of firings -/
theorem inv_fires_le (s : S) (h : InvK (proj s)) : s.fires.length ≤ 1 := by
  cases hch : s.chained
  · rcases h.b hch with ⟨_, h2⟩ | ⟨_, h2, _⟩
    · have : s.fires = [] := h2
      simp [this]
    · have : s.fires.length = 1 := h2
      omega
  · have : s.fires = s.respD.toList := h.a hch
    rw [this]; cases s.respD <;> simp

/-- once fired, always fired exactly once -/
theorem fired_persists (evs : List Event) (s : S) (h : InvK (proj s)) (hf : s.fires.length = 1) :
    (run s evs).fires.length = 1 := by
  obtain ⟨h1, p1⟩ := inv_run evs s h
  have := inv_fires_le _ h1
  have := p1.length_le
  omega

/-- **The request Deferred fires exactly once** — for every request mode, EVERY event script: deliveries of
    arbitrary bytes (well-formed or not) in arbitrary segmentation, `deliverBody`, `abort()`, `cancel()`, request
    written / failed, in any order and number — as soon as the script contains the loss of the connection (at any
    position: every truncation point of every response).  Proof: the invariant `InvK` over the control projection
    `proj` of the state is preserved by every event, `dataReceived` included (`TwistedProps/C23/Data.lean`:
    `lrLoop` → `lineReceived` → `allHeadersReceived` / `rawDataReceived` → `_finished` → `_finishResponse`), and
    `connectionLost` fires whatever had not fired. -/
theorem request_deferred_fires_once (h p a d : Bool) (evs : List Event) (hlost : ∃ r, Event.lost r ∈ evs) :
    (run (Twisted.Http.Client.init h p a d) evs).fires.length = 1 := by
  suffices H : ∀ (evs : List Event) (s : S), InvK (proj s) → (∃ r, Event.lost r ∈ evs) → (run s evs).fires.length = 1 from
    H evs _ (inv_init h p a d) hlost
  intro evs
  induction evs with
  | nil => intro s _ hl; obtain ⟨r, hr⟩ := hl; simp at hr
  | cons e evs ih =>
    intro s hs hl
    obtain ⟨h1, _⟩ := inv_step s e hs
    obtain ⟨r, hr⟩ := hl
    simp only [List.mem_cons] at hr
    rcases hr with hr | hr
    · subst hr
      have hf : (step s (.lost r)).fires.length = 1 := by
        have := (inv_connectionLost _ r hs).2
        rw [← proj_connectionLost] at this
        exact this
      simpa [run] using fired_persists evs _ h1 hf
    · simpa [run] using ih (step s e) h1 ⟨r, hr⟩

/-! #### the same when the application's quiescent callback raises (mutation audit: `harness/mutants/C23` m12)

`_finishResponse_WAITING` runs the quiescent callback under `failuresHandled`; when it raises the protocol logs the
failure and calls `transport.loseConnection()`, then disconnects the parser as usual (`S.qRaises`, `initQ`).  The
control projection does not see the difference, so the invariant and the theorem carry over. -/

theorem initQ_false (h p a d : Bool) : Twisted.Http.Client.initQ h p a d false = Twisted.Http.Client.init h p a d := rfl

theorem inv_initQ (h p a d q : Bool) : InvK (proj (Twisted.Http.Client.initQ h p a d q)) := by
  have e : proj (Twisted.Http.Client.initQ h p a d q) = proj (Twisted.Http.Client.init h p a d) := rfl
  rw [e]; exact inv_init h p a d

/-- **exactly once, whether or not the quiescent callback raises**: `request_deferred_fires_once` over the enlarged
    space of initial states `initQ h p a d q` (`q = false` is `init h p a d`). -/
theorem request_deferred_fires_once_quiescent_raises (h p a d q : Bool) (evs : List Event)
    (hlost : ∃ r, Event.lost r ∈ evs) :
    (run (Twisted.Http.Client.initQ h p a d q) evs).fires.length = 1 := by
  suffices H : ∀ (evs : List Event) (s : S), InvK (proj s) → (∃ r, Event.lost r ∈ evs) → (run s evs).fires.length = 1 from
    H evs _ (inv_initQ h p a d q) hlost
  intro evs
  induction evs with
  | nil => intro s _ hl; obtain ⟨r, hr⟩ := hl; simp at hr
  | cons e evs ih =>
    intro s hs hl
    obtain ⟨h1, _⟩ := inv_step s e hs
    obtain ⟨r, hr⟩ := hl
    simp only [List.mem_cons] at hr
    rcases hr with hr | hr
    · subst hr
      have hf : (step s (.lost r)).fires.length = 1 := by
        have := (inv_connectionLost _ r hs).2
        rw [← proj_connectionLost] at this
        exact this
      simpa [run] using fired_persists evs _ h1 hf
    · simpa [run] using ih (step s e) h1 ⟨r, hr⟩

theorem request_deferred_fires_at_most_once_quiescent_raises (h p a d q : Bool) (evs : List Event) :
    (run (Twisted.Http.Client.initQ h p a d q) evs).fires.length ≤ 1 :=
  inv_fires_le _ (inv_run evs _ (inv_initQ h p a d q)).1

/-- non-vacuity: "HTTP/1.1 204 N\r\n\r\n" on a persistent connection whose quiescent callback raises: the callback was
    called once, the connection is being closed, and the request Deferred fired once, with the response -/
example :
    let s := run (Twisted.Http.Client.initQ false true false true true) [.data [72, 84, 84, 80, 47, 49, 46, 49, 32, 50, 48, 52, 32, 78, 13, 10, 13, 10], .lost .connectionDone]
    s.fires = [.response] ∧ s.quiet = 1 ∧ s.disconnecting = true ∧ s.lost = [.done] := by
  decide +kernel

/-- without the loss of the connection: at most once, for every event script -/
theorem request_deferred_fires_at_most_once (h p a d : Bool) (evs : List Event) :
    (run (Twisted.Http.Client.init h p a d) evs).fires.length ≤ 1 :=
  inv_fires_le _ (inv_run evs _ (inv_init h p a d)).1

/-- non-vacuity: "HTTP/1.1 200 OK\r\nContent-Length: 3\r\n\r\nab" in two pieces cut inside the header name, then the
    connection is lost inside the body: one firing, the response; the body protocol gets "ab" and one failure -/
example :
    let s := run (Twisted.Http.Client.init false false false true)
      [.data [72, 84, 84, 80, 47, 49, 46, 49, 32, 50, 48, 48, 32, 79, 75, 13, 10, 67, 111, 110, 116],
       .data [101, 110, 116, 45, 76, 101, 110, 103, 116, 104, 58, 32, 51, 13, 10, 13, 10, 97, 98],
       .lost .connectionDone]
    s.fires = [.response] ∧ s.delivered = [97, 98] ∧ s.lost = [.failed [.connectionDone, .dataLoss]] := by
  decide +kernel

/-- non-vacuity: the connection is lost inside the header block: one firing, `ResponseFailed([ConnectionDone])` -/
example :
    (run (Twisted.Http.Client.init false false false true)
      [.data [72, 84, 84, 80, 47, 49, 46, 49, 32, 50, 48, 48, 32, 79, 75, 13, 10, 67, 111], .lost .connectionDone]).fires =
    [.responseFailed [.connectionDone]] := by
  decide +kernel

/-- **The body delivered equals the body received** (Response layer): the pieces `ds1` the decoder emitted before
    `deliverBody` and the pieces `ds2` emitted after it reach the body protocol as exactly `ds1 ++ ds2`,
    after exactly one `makeConnection`; if `deliverBody` comes only after the end of the body, everything
    emitted (`ds`) is handed over at that moment. -/
theorem body_delivered_eq_body_received (s : S) (hs : Fresh s) (ds1 ds2 ds : List Bytes) (r : Option BodyEnd) :
    ((bodyFinished (feedBody (deliverBody (feedBody s ds1)) ds2) r).state.delivered = ds1.flatten ++ ds2.flatten ∧
     (bodyFinished (feedBody (deliverBody (feedBody s ds1)) ds2) r).state.made = 1) ∧
    ((deliverBody (bodyFinished (feedBody s ds) r).state).delivered = ds.flatten ∧
     (deliverBody (bodyFinished (feedBody s ds) r).state).made = 1) := by
  have a := body_deliver_then_finish s hs ds1 ds2 r
  have b := body_finish_then_deliver s hs ds r
  exact ⟨⟨a.1, a.2.2.1⟩, ⟨b.1, b.2.2.1⟩⟩

/-- **connectionLost exactly once, with the reason the parser determined** (Response layer): in both orders
    of `deliverBody` and the end of the body the body protocol's `connectionLost` log is exactly `[reason]`
    (`ResponseDone` when `_bodyDataFinished()` had no argument), the Response is `FINISHED`, and afterwards a
    second end or more data raise without changing anything; without `deliverBody` it is never called. -/
theorem body_connectionLost_once_with_right_reason (s : S) (hs : Fresh s) (ds1 ds2 ds : List Bytes)
    (r : Option BodyEnd) (d : Bytes) (r' : Option BodyEnd) :
    let s1 := (bodyFinished (feedBody (deliverBody (feedBody s ds1)) ds2) r).state
    let s2 := deliverBody (bodyFinished (feedBody s ds) r).state
    let s3 := (bodyFinished (feedBody s ds) r).state
    (s1.lost = [r.getD .done] ∧ s1.rstate = .finished ∧ (bodyData s1 d).state = s1 ∧ (bodyFinished s1 r').state = s1) ∧
    (s2.lost = [r.getD .done] ∧ s2.rstate = .finished ∧ (bodyData s2 d).state = s2 ∧ (bodyFinished s2 r').state = s2) ∧
    (s3.lost = [] ∧ s3.made = 0) := by
  have a := body_deliver_then_finish s hs ds1 ds2 r
  have b := body_finish_then_deliver s hs ds r
  have c := body_never_delivered s hs ds r
  simp only at a b c ⊢
  exact ⟨⟨a.2.1, a.2.2.2, body_after_finish _ (Or.inr a.2.2.2) d r'⟩,
         ⟨b.2.1, b.2.2.2, body_after_finish _ (Or.inr b.2.2.2) d r'⟩, ⟨c.2.1, c.2.2.1⟩⟩

/-- non-vacuity: `Fresh` holds right after `request()`; "ab" buffered, deliverBody, "c", truncated body -/
example : Fresh (Twisted.Http.Client.init false false false true) := ⟨rfl, rfl, rfl, rfl, rfl⟩

example :
    let s := (bodyFinished (feedBody (deliverBody (feedBody (Twisted.Http.Client.init false false false false) [[97], [98]])) [[99]])
      (some (.failed [.connectionDone, .dataLoss]))).state
    s.delivered = [97, 98, 99] ∧ s.lost = [.failed [.connectionDone, .dataLoss]] := by decide

/-! ### whole-stream theorems: WHICH value fires, and the wire → decoder → body protocol link

Scripts: any deliveries (arbitrary bytes, arbitrary segmentation, empty deliveries included) interleaved with
`deliverBody` calls (`evs`), then the loss of the connection with `r`, then possibly late `deliverBody` calls
(`post`); request already written (`async = false`).  `W = (payloads evs).flatten` is everything received.
`scan isHead hs0 W` (`TwistedProps/C23/Head.lean`) is the pure, segmentation-independent reading of `W` by the
parser's own rules (`scan_append`); `lrLoop_scan` shows the model's line loop computes it. -/

/-- the value the request Deferred fires with, from the scan of everything received -/
def firingOf (o : HeadOut) (noData : Bool) (r : Exc) : Fire :=
  match o with
  | .final _ _ _ _ _ => .response
  | .bad e => .responseFailed [e]
  | _ => if noData then .neverReceived [r] else .responseFailed [r]

/-- **WHICH value fires.**  For every request mode, every script of deliveries (any bytes, any segmentation) and
    `deliverBody` calls, the loss of the connection with reason `r` and later `deliverBody` calls — no head line
    longer than `MAX_LENGTH` — the request Deferred has fired exactly once, with:
    the response iff the bytes received contain a complete well-formed head of a final response (1xx heads
    skipped) by the parser's own rules; `ResponseFailed([e])` if the head is malformed (`e` = the class the parser
    raises: `ParseError`, `BadResponseVersion`, `ValueError`, `KeyError`, …); otherwise (head incomplete)
    `ResponseNeverReceived([r])` if nothing was ever delivered and `ResponseFailed([r])` if something was. -/
theorem request_fires_response_iff_head_complete (h p d : Bool) (evs post : List Event) (r : Exc)
    (hdd : ∀ e ∈ evs, isDD e = true) (hpost : ∀ e ∈ post, e = .deliver)
    (hlen : scan h hs0 (payloads evs).flatten ≠ .tooLong) :
    (run (Twisted.Http.Client.init h p false d) (evs ++ .lost r :: post)).fires =
      [firingOf (scan h hs0 (payloads evs).flatten) (payloads evs).isEmpty r] ∧
    ((run (Twisted.Http.Client.init h p false d) (evs ++ .lost r :: post)).fires = [.response] ↔
      ∃ code ph conn fr rest, scan h hs0 (payloads evs).flatten = .final code ph conn fr rest) := by
  have hw := whole_run h p d evs post r hdd hpost
  cases hX : scan h hs0 (payloads evs).flatten with
  | tooLong => exact absurd hX hlen
  | more hs' tail' =>
    rw [hX] at hw
    simp only [WholePost] at hw
    refine ⟨by rw [hw]; rfl, ?_⟩
    rw [hw]
    constructor
    · intro hc; cases hn : (payloads evs).isEmpty <;> simp [hn] at hc
    · intro ⟨_, _, _, _, _, hc⟩; cases hc
  | bad e =>
    rw [hX] at hw
    simp only [WholePost] at hw
    refine ⟨by rw [hw]; rfl, ?_⟩
    rw [hw]
    constructor
    · intro hc; simp at hc
    · intro ⟨_, _, _, _, _, hc⟩; cases hc
  | final code ph conn fr rest =>
    rw [hX] at hw
    simp only [WholePost] at hw
    exact ⟨by rw [hw.1]; rfl, fun _ => ⟨code, ph, conn, fr, rest, rfl⟩, fun _ => hw.1⟩

/-- **The body protocol, whole stream, in terms of the decoder run.**  If the bytes received contain a complete head
    whose framing announces a body handled by decoder `D` (chunked / Content-Length / until close), then for some
    segmentation `bs` of exactly the bytes `rest` that follow the head, the body protocol has seen (if `deliverBody`
    was ever called — which it was if the callback calls it or a `deliverBody` follows the loss — and nothing
    otherwise): one `makeConnection`, exactly the bytes the decoder emitted on `bs`, and exactly one `connectionLost`:
    `ResponseDone` if the decoder finished, what `noMoreData()` dictates for the reason `r` if it was still live,
    the decoder's own failure if it raised. -/
theorem body_whole_stream (h p d : Bool) (evs post : List Event) (r : Exc)
    (hdd : ∀ e ∈ evs, isDD e = true) (hpost : ∀ e ∈ post, e = .deliver)
    (code : Int) (ph : Option Bytes) (conn : List (Bytes × Bytes)) (D : Decoder) (rest : Bytes)
    (hX : scan h hs0 (payloads evs).flatten = .final code ph conn (.body D) rest) :
    let sF := run (Twisted.Http.Client.init h p false d) (evs ++ .lost r :: post)
    sF.fires = [.response] ∧ ((d = true ∨ Event.deliver ∈ post) → sF.appDelivered = true) ∧
      ∃ bs, bs.flatten = rest ∧ Observed sF (decRun D [] bs).body ((decRun D [] bs).bodyEnd r) := by
  have hw := whole_run h p d evs post r hdd hpost
  rw [hX] at hw
  exact hw

/-- HEAD / 204 / 304 / `Content-Length: 0`: the body is empty and complete: `ResponseDone` -/
theorem body_whole_stream_no_body (h p d : Bool) (evs post : List Event) (r : Exc)
    (hdd : ∀ e ∈ evs, isDD e = true) (hpost : ∀ e ∈ post, e = .deliver)
    (code : Int) (ph : Option Bytes) (conn : List (Bytes × Bytes)) (rest : Bytes)
    (hX : scan h hs0 (payloads evs).flatten = .final code ph conn .noBody rest) :
    let sF := run (Twisted.Http.Client.init h p false d) (evs ++ .lost r :: post)
    sF.fires = [.response] ∧ ((d = true ∨ Event.deliver ∈ post) → sF.appDelivered = true) ∧
      Observed sF [] .done := by
  have hw := whole_run h p d evs post r hdd hpost
  rw [hX] at hw
  exact hw

/-- **Content-Length body, whole stream** (`body_delivered_eq_body_received` + `body_connectionLost_once_with_right_reason`
    for every response, segmentation and truncation point): with `Content-Length: n`, the body protocol gets exactly
    the first `n` of the bytes received after the head, and `connectionLost` exactly once: `ResponseDone` if at least
    `n` arrived, `ResponseFailed([r, _DataLoss])` if the connection was lost before. -/
theorem body_whole_stream_content_length (h p d : Bool) (evs post : List Event) (r : Exc)
    (hdd : ∀ e ∈ evs, isDD e = true) (hpost : ∀ e ∈ post, e = .deliver)
    (code : Int) (ph : Option Bytes) (conn : List (Bytes × Bytes)) (n : Nat) (rest : Bytes)
    (hX : scan h hs0 (payloads evs).flatten = .final code ph conn (.body (.ident (Ident.init (some n)))) rest) :
    let sF := run (Twisted.Http.Client.init h p false d) (evs ++ .lost r :: post)
    sF.fires = [.response] ∧ ((d = true ∨ Event.deliver ∈ post) → sF.appDelivered = true) ∧
      Observed sF (rest.take n) (if n ≤ rest.length then .done else .failed [r, .dataLoss]) := by
  obtain ⟨h1, h2, bs, hbs, hobs⟩ := body_whole_stream h p d evs post r hdd hpost code ph conn _ rest hX
  have hlive := framing_body_live h code conn _ (scan_final_framing h hs0 _ code ph conn _ rest hX).1
  obtain ⟨c1, c2⟩ := decRun_ident_len bs (Ident.init (some n)) n [] r rfl rfl (fun e => hlive.2 (by rw [e]; rfl))
  rw [c1, c2, hbs] at hobs
  exact ⟨h1, h2, by simpa using hobs⟩

/-- **close-delimited body, whole stream**: no Content-Length, no chunked coding: the body protocol gets exactly the
    bytes received after the head, and `connectionLost(PotentialDataLoss)` exactly once. -/
theorem body_whole_stream_until_close (h p d : Bool) (evs post : List Event) (r : Exc)
    (hdd : ∀ e ∈ evs, isDD e = true) (hpost : ∀ e ∈ post, e = .deliver)
    (code : Int) (ph : Option Bytes) (conn : List (Bytes × Bytes)) (rest : Bytes)
    (hX : scan h hs0 (payloads evs).flatten = .final code ph conn (.body (.ident (Ident.init none))) rest) :
    let sF := run (Twisted.Http.Client.init h p false d) (evs ++ .lost r :: post)
    sF.fires = [.response] ∧ ((d = true ∨ Event.deliver ∈ post) → sF.appDelivered = true) ∧
      Observed sF rest .potentialDataLoss := by
  obtain ⟨h1, h2, bs, hbs, hobs⟩ := body_whole_stream h p d evs post r hdd hpost code ph conn _ rest hX
  obtain ⟨c1, c2⟩ := decRun_ident_close bs (Ident.init none) [] r rfl rfl
  rw [c1, c2, hbs] at hobs
  exact ⟨h1, h2, by simpa using hobs⟩

/-- **chunked body, complete, whole stream** (through C22 `decode_encode`): if what follows the head is a well-formed
    chunked encoding (C22's preconditions) followed by anything, the body protocol gets exactly the chunk data and
    `connectionLost(ResponseDone)` exactly once — whatever the segmentation of the whole stream. -/
theorem body_whole_stream_chunked (h p d : Bool) (evs post : List Event) (r : Exc)
    (hdd : ∀ e ∈ evs, isDD e = true) (hpost : ∀ e ∈ post, e = .deliver)
    (code : Int) (ph : Option Bytes) (conn : List (Bytes × Bytes)) (rest : Bytes)
    (chunks : List C22.Chunk) (last : Bytes) (trailers : List Bytes) (extra : Bytes)
    (hc : ∀ c ∈ chunks, c.wf) (hl : C22.lineOK last 0) (ht : ∀ t ∈ trailers, C22.trailerOK t)
    (hT : C22.trailerSize trailers ≤ Twisted.Http.Chunked.maxTrailerHeadersSize)
    (hX : scan h hs0 (payloads evs).flatten = .final code ph conn (.body (.chunked Twisted.Http.Chunked.init)) rest)
    (hrest : rest = C22.encode chunks last trailers ++ extra) :
    let sF := run (Twisted.Http.Client.init h p false d) (evs ++ .lost r :: post)
    sF.fires = [.response] ∧ ((d = true ∨ Event.deliver ∈ post) → sF.appDelivered = true) ∧
      Observed sF (C22.body chunks) .done := by
  obtain ⟨h1, h2, bs, hbs, hobs⟩ := body_whole_stream h p d evs post r hdd hpost code ph conn _ rest hX
  obtain ⟨c1, c2⟩ := decRun_chunked_complete chunks last trailers extra bs r hc hl ht hT (hbs.trans hrest)
  rw [c1, c2] at hobs
  exact ⟨h1, h2, hobs⟩

/-- **chunked body, truncated, whole stream** (through C22 `data_loss_on_truncation`): if what follows the head is a
    proper prefix `p` of a well-formed chunked encoding, the body protocol gets exactly what the C22 decoder has emitted
    on the bytes received (`dd.data`, `dd` = the decoder after a run over `p`, unfinished, `noMoreData()` = `_DataLoss`)
    and `connectionLost(ResponseFailed([r, _DataLoss]))` exactly once. -/
theorem body_whole_stream_chunked_truncated (h p d : Bool) (evs post : List Event) (r : Exc)
    (hdd : ∀ e ∈ evs, isDD e = true) (hpost : ∀ e ∈ post, e = .deliver)
    (code : Int) (ph : Option Bytes) (conn : List (Bytes × Bytes)) (rest : Bytes)
    (chunks : List C22.Chunk) (last : Bytes) (trailers : List Bytes) (q : Bytes)
    (hc : ∀ c ∈ chunks, c.wf) (hl : C22.lineOK last 0) (ht : ∀ t ∈ trailers, C22.trailerOK t)
    (hT : C22.trailerSize trailers ≤ Twisted.Http.Chunked.maxTrailerHeadersSize)
    (hX : scan h hs0 (payloads evs).flatten = .final code ph conn (.body (.chunked Twisted.Http.Chunked.init)) rest)
    (hpq : rest ++ q = C22.encode chunks last trailers) (hq : q ≠ []) :
    let sF := run (Twisted.Http.Client.init h p false d) (evs ++ .lost r :: post)
    sF.fires = [.response] ∧ ((d = true ∨ Event.deliver ∈ post) → sF.appDelivered = true) ∧
      ∃ cs dd, cs.flatten = rest ∧ Twisted.Http.Chunked.feedAll Twisted.Http.Chunked.init cs = .ok dd ∧
        dd.state ≠ .finished ∧ Twisted.Http.Chunked.noMoreData dd = .error (.dataLoss, dd) ∧
        Observed sF dd.data (.failed [r, .dataLoss]) := by
  obtain ⟨h1, h2, bs, hbs, hobs⟩ := body_whole_stream h p d evs post r hdd hpost code ph conn _ rest hX
  obtain ⟨dd, d1, d2, d3, c1, c2⟩ := decRun_chunked_truncated chunks last trailers rest q bs r hc hl ht hT hpq hq hbs
  rw [c1, c2] at hobs
  exact ⟨h1, h2, _, dd, by rw [flatten_filter_ne]; exact hbs, d1, d2, d3, hobs⟩

/-! ### non-vacuity of the whole-stream theorems -/

/-- "HTTP/1.1 200 OK\r\nContent-Length: 3\r\n\r\nab" -/
def exCL : Bytes := [72, 84, 84, 80, 47, 49, 46, 49, 32, 50, 48, 48, 32, 79, 75, 13, 10, 67, 111, 110, 116,
  101, 110, 116, 45, 76, 101, 110, 103, 116, 104, 58, 32, 51, 13, 10, 13, 10, 97, 98]

/-- the stream cut inside the header name, `deliverBody` only after the loss: through
    `body_whole_stream_content_length` — the response, "ab", one `ResponseFailed([ConnectionDone, _DataLoss])` -/
example :
    let sF := run (Twisted.Http.Client.init false false false false)
      ([.data (exCL.take 21), .data (exCL.drop 21)] ++ .lost .connectionDone :: [.deliver])
    sF.fires = [.response] ∧ sF.delivered = [97, 98] ∧ sF.lost = [.failed [.connectionDone, .dataLoss]] ∧ sF.made = 1 := by
  have hX : scan false hs0 (payloads [.data (exCL.take 21), .data (exCL.drop 21)]).flatten =
      .final 200 (some [67, 111, 110, 116, 101, 110, 116, 45, 76, 101, 110, 103, 116, 104, 58, 32, 51])
        [(NAME_CL, [51])] (.body (.ident (Ident.init (some 3)))) [97, 98] := by decide +kernel
  obtain ⟨h1, h2, h3⟩ := body_whole_stream_content_length false false false _ [.deliver] .connectionDone
    (by simp [isDD]) (by simp) _ _ _ 3 _ hX
  obtain ⟨o1, o2, o3⟩ := h3.1 (h2 (Or.inr (by simp)))
  exact ⟨h1, o1, by simpa using o2, o3⟩

/-- "HTTP/1.1 200 OK\nTransfer-Encoding: chunked\n\n3\r\nabc\r\n0\r\n\r\n" (bare-LF head), byte-split in the size line,
    the callback calls `deliverBody`: through `body_whole_stream_chunked` — "abc" and one `ResponseDone` -/
example :
    let sF := run (Twisted.Http.Client.init false true false true)
      ([.data [72,84,84,80,47,49,46,49,32,50,48,48,32,79,75,10,84,114,97,110,115,102,101,114,45,69,110,99,111,100,105,110,
          103,58,32,99,104,117,110,107,101,100,10,10,51], .deliver, .data [], .data [13,10,97,98,99,13,10,48,13,10,13,10]]
        ++ .lost .connectionDone :: [])
    sF.fires = [.response] ∧ sF.delivered = [97, 98, 99] ∧ sF.lost = [.done] ∧ sF.made = 1 := by
  have hX : scan false hs0 (payloads [.data [72,84,84,80,47,49,46,49,32,50,48,48,32,79,75,10,84,114,97,110,115,102,101,114,
      45,69,110,99,111,100,105,110,103,58,32,99,104,117,110,107,101,100,10,10,51], .deliver, .data [],
      .data [13,10,97,98,99,13,10,48,13,10,13,10]]).flatten =
      .final 200 (some [84, 114, 97, 110, 115, 102, 101, 114, 45, 69, 110, 99, 111, 100, 105, 110, 103, 58, 32, 99, 104,
        117, 110, 107, 101, 100]) [(NAME_TE, CHUNKED)] (.body (.chunked Twisted.Http.Chunked.init))
        [51, 13, 10, 97, 98, 99, 13, 10, 48, 13, 10, 13, 10] := by decide +kernel
  obtain ⟨h1, h2, h3⟩ := body_whole_stream_chunked false true true _ [] .connectionDone
    (by simp [isDD]) (by simp) _ _ _ _ [⟨[51], [97, 98, 99]⟩] [48] [] []
    (by intro c hc; simp at hc; subst hc; exact ⟨⟨by decide, by decide, by decide, by decide⟩, by decide⟩)
    ⟨by decide, by decide, by decide, by decide⟩ (by simp) (by decide) hX (by decide)
  obtain ⟨o1, o2, o3⟩ := h3.1 (h2 (Or.inl rfl))
  exact ⟨h1, by simpa [C22.body] using o1, o2, o3⟩

/-- "HTTP/1.1 100 Continue\r\n\r\nHTTP/1.0 200 OK\r\n\r\nxyz": the interim head is skipped, the body is close-delimited -/
example : scan false hs0 [72,84,84,80,47,49,46,49,32,49,48,48,32,67,111,110,116,105,110,117,101,13,10,13,10,
    72,84,84,80,47,49,46,48,32,50,48,48,32,79,75,13,10,13,10,120,121,122] =
    .final 200 none [] (.body (.ident (Ident.init none))) [120, 121, 122] := by decide +kernel

/-- "HTTP/1.1 x\r\n": malformed, `ParseError`; through `request_fires_response_iff_head_complete`:
    `ResponseFailed([ParseError])`, and never the response -/
example : (run (Twisted.Http.Client.init false false false true)
    ([.data [72,84,84,80,47,49,46,49,32,120,13,10]] ++ .lost .connectionLost :: [])).fires = [.responseFailed [.parseError]] := by
  have h := (request_fires_response_iff_head_complete false false true [.data [72,84,84,80,47,49,46,49,32,120,13,10]] []
    .connectionLost (by simp [isDD]) (by simp) (by decide +kernel)).1
  rw [h]
  decide +kernel

end TwistedProps.C23
