import TwistedModel.Http.Client
import TwistedProps.C23.Body
import TwistedProps.C23.Control
/-!
# C23 — the HTTP/1.1 client completes every request exactly once, with the exact body

Model: `TwistedModel/Http/Client.lean` (`HTTPParser`/`HTTPClientParser`, `Response`, `HTTP11ClientProtocol`,
as repaired by the C23 fix), decoders: the C22 models.

FULL STATEMENT (the target; NOT all of it is proved here):

  for every request mode `h p a d`, every event script `evs` (deliveries of arbitrary bytes in arbitrary
  segmentation, deliverBody / abort / cancel / request-written / request-failed at arbitrary positions)
  containing the loss of the connection,
      `(run (init h p a d) evs).fires.length = 1`,
  the single firing is `.response` iff the bytes delivered before the loss contain a complete head, the body
  protocol's `delivered` equals the decoder's output (= the body bytes received, by the C22 theorems
  `decode_encode`, `identity_decoder_exact`) and `lost` has exactly one element once `deliverBody` was called:
  `.done` for a complete body, `.potentialDataLoss` for a close-delimited one, `.failed _` for a truncated one.

WHAT IS PROVED (all for unbounded inputs, by induction / invariants):

* `request_deferred_fires_once_partial` — the exactly-once claim for every script of CONTROL events (loss,
  abort, cancel, request written, request failed, deliverBody, in any order and number) on a connection that
  delivered no response byte; the firing is never `.response`.  This is the part of the protocol state
  machine in which the three defects of the unchanged tree lived (ABORTING, TRANSMITTING).
* `body_delivered_eq_body_received`, `body_connectionLost_once_with_right_reason` — the `Response` body state
  machine: whatever the decoder emitted before/after `deliverBody` reaches the body protocol exactly, in
  order, once; `connectionLost` is called exactly once with exactly the reason given to `_bodyDataFinished`
  (`ResponseDone` when none), whether `deliverBody` comes before or after the end of the body; nothing is
  accepted after the end.

MISSING for the full statement: preservation of the control invariant by `dataReceived` (the `lrLoop` /
`lineReceived` / `allHeadersReceived` / `rawDataReceived` path: the invariant is `Inv` = `NoData` without
its first three fields plus "respD fired ∧ parser attached → past the head"), and the characterisation of
"complete head" / "decoder output = body" through the line loop for every segmentation.  On that path the
claim is supported only by the tie and the oracle (every truncation point × segmentation on the real code),
not by a proof.
-/
namespace TwistedProps.C23
open Twisted.Http.Client
open Twisted.Http.Chunked (Bytes)

def isControl : Event → Bool
  | .data _ => false
  | _ => true

theorem step_noData (s : S) (e : Event) (he : isControl e = true) (h : NoData s) :
    NoData (step s e) ∧ (s.cstate = .connectionLost → (step s e).cstate = .connectionLost) ∧
      (∀ r, e = .lost r → (step s e).cstate = .connectionLost) := by
  cases e with
  | data b => simp [isControl] at he
  | lost r =>
    have := lost_noData s r h
    exact ⟨this.1, fun _ => this.2, fun _ _ => this.2⟩
  | deliver =>
    simp only [step, deliver_noData s h]
    exact ⟨h, fun x => x, by intro r hr; cases hr⟩
  | written =>
    have := written_noData s h
    exact ⟨this.1, this.2, by intro r hr; cases hr⟩
  | writeFailed =>
    have := writeFailed_noData s .boom h
    exact ⟨this.1, this.2, by intro r hr; cases hr⟩
  | abort =>
    have := abort_noData s h
    exact ⟨this.1, this.2, by intro r hr; cases hr⟩
  | cancel =>
    have := cancel_noData s h
    exact ⟨this.1, this.2, by intro r hr; cases hr⟩

theorem run_noData : ∀ (evs : List Event) (s : S), NoData s → (∀ e ∈ evs, isControl e = true) →
    NoData (run s evs) ∧ ((s.cstate = .connectionLost ∨ ∃ r, Event.lost r ∈ evs) → (run s evs).cstate = .connectionLost) := by
  intro evs
  induction evs with
  | nil => intro s h _; exact ⟨h, by intro hh; rcases hh with hh | ⟨r, hr⟩; exact hh; simp at hr⟩
  | cons e evs ih =>
    intro s h hc
    obtain ⟨h1, h2, h3⟩ := step_noData s e (hc e (by simp)) h
    obtain ⟨i1, i2⟩ := ih (step s e) h1 (fun e' he' => hc e' (by simp [he']))
    refine ⟨by simpa [run] using i1, ?_⟩
    intro hh
    have : (step s e).cstate = .connectionLost ∨ ∃ r, Event.lost r ∈ evs := by
      rcases hh with hh | ⟨r, hr⟩
      · exact Or.inl (h2 hh)
      · simp only [List.mem_cons] at hr
        rcases hr with hr | hr
        · exact Or.inl (h3 r hr.symm)
        · exact Or.inr ⟨r, hr⟩
    simpa [run] using i2 this

theorem noData_lost_fired (s : S) (h : NoData s) (hc : s.cstate = .connectionLost) : s.fires.length = 1 := by
  obtain ⟨_, _, _, f1, f2, f3, _, _, _⟩ := h
  cases hch : s.chained
  · rcases f2 hch with ⟨h2, _⟩ | ⟨_, h2⟩
    · simp [hc] at h2
    · exact h2
  · cases hr : s.respD with
    | none => have := (f3 hr (Or.inl hch)).2; simp [hc] at this
    | some f => simp [f1 hch, hr]

/-- **Exactly once, control part** (partial: scripts without `dataReceived`).  Whatever the request mode and
    whatever the order and number of abort / cancel / written / failed / deliverBody events around the loss of
    the connection, the request Deferred fires exactly once, and not with a response. -/
theorem request_deferred_fires_once_partial (h p a d : Bool) (evs : List Event)
    (hctl : ∀ e ∈ evs, isControl e = true) (hlost : ∃ r, Event.lost r ∈ evs) :
    (run (Twisted.Http.Client.init h p a d) evs).fires.length = 1 ∧
      Fire.response ∉ (run (Twisted.Http.Client.init h p a d) evs).fires := by
  obtain ⟨i1, i2⟩ := run_noData evs _ (noData_init h p a d) hctl
  exact ⟨noData_lost_fired _ i1 (i2 (Or.inr hlost)), i1.nr⟩

/-- without the loss of the connection: at most once -/
theorem request_deferred_fires_at_most_once_partial (h p a d : Bool) (evs : List Event)
    (hctl : ∀ e ∈ evs, isControl e = true) :
    (run (Twisted.Http.Client.init h p a d) evs).fires.length ≤ 1 := by
  obtain ⟨⟨_, _, _, f1, f2, _, _, _, _⟩, _⟩ := run_noData evs _ (noData_init h p a d) hctl
  cases hch : (run (Twisted.Http.Client.init h p a d) evs).chained
  · rcases f2 hch with ⟨_, h2, _⟩ | ⟨_, h2⟩
    · simp [h2]
    · omega
  · rw [f1 hch]; cases (run (Twisted.Http.Client.init h p a d) evs).respD <;> simp

/-- non-vacuity: request body still being written, `abort()`, writing fails, the connection is lost, a late
    `cancel()` — one firing, `ResponseNeverReceived([ConnectionAborted])` (a witness of the unchanged tree) -/
example : (run (Twisted.Http.Client.init false true true true)
    [.abort, .writeFailed, .lost .connectionDone, .cancel]).fires = [.neverReceived [.connectionAborted]] := by
  decide

example : (run (Twisted.Http.Client.init false false false false) [.cancel, .deliver, .lost .connectionLost]).fires =
    [.neverReceived [.cancelled]] := by decide

/-- **The body delivered equals the body received** (Response layer): the pieces `ds1` the decoder emitted before
    `deliverBody` and the pieces `ds2` emitted after it reach the body protocol as exactly `ds1 ++ ds2`,
    after exactly one `makeConnection`; if `deliverBody` comes only after the end of the body, everything
    emitted (`ds`) is handed over at that moment. -/
theorem body_delivered_eq_body_received (s : S) (hs : Fresh s) (ds1 ds2 ds : List Bytes) (r : Option BodyEnd) :
    ((bodyFinished (feedBody (deliverBody (feedBody s ds1)) ds2) r).state.delivered = ds1.flatten ++ ds2.flatten ∧
     (bodyFinished (feedBody (deliverBody (feedBody s ds1)) ds2) r).state.made = 1) ∧
    ((deliverBody (bodyFinished (feedBody s ds) r).state).delivered = ds.flatten ∧
     (deliverBody (bodyFinished (feedBody s ds) r).state).made = 1) := by
  have a := body_deliver_then_finish s hs ds1 ds2 r
  have b := body_finish_then_deliver s hs ds r
  exact ⟨⟨a.1, a.2.2.1⟩, ⟨b.1, b.2.2.1⟩⟩

/-- **connectionLost exactly once, with the reason the parser determined** (Response layer): in both orders
    of `deliverBody` and the end of the body the body protocol's `connectionLost` log is exactly `[reason]`
    (`ResponseDone` when `_bodyDataFinished()` had no argument), the Response is `FINISHED`, and afterwards a
    second end or more data raise without changing anything; without `deliverBody` it is never called. -/
theorem body_connectionLost_once_with_right_reason (s : S) (hs : Fresh s) (ds1 ds2 ds : List Bytes)
    (r : Option BodyEnd) (d : Bytes) (r' : Option BodyEnd) :
    let s1 := (bodyFinished (feedBody (deliverBody (feedBody s ds1)) ds2) r).state
    let s2 := deliverBody (bodyFinished (feedBody s ds) r).state
    let s3 := (bodyFinished (feedBody s ds) r).state
    (s1.lost = [r.getD .done] ∧ s1.rstate = .finished ∧ (bodyData s1 d).state = s1 ∧ (bodyFinished s1 r').state = s1) ∧
    (s2.lost = [r.getD .done] ∧ s2.rstate = .finished ∧ (bodyData s2 d).state = s2 ∧ (bodyFinished s2 r').state = s2) ∧
    (s3.lost = [] ∧ s3.made = 0) := by
  have a := body_deliver_then_finish s hs ds1 ds2 r
  have b := body_finish_then_deliver s hs ds r
  have c := body_never_delivered s hs ds r
  simp only at a b c ⊢
  exact ⟨⟨a.2.1, a.2.2.2, body_after_finish _ (Or.inr a.2.2.2) d r'⟩,
         ⟨b.2.1, b.2.2.2, body_after_finish _ (Or.inr b.2.2.2) d r'⟩, ⟨c.2.1, c.2.2.1⟩⟩

/-- non-vacuity: `Fresh` holds right after `request()`; "ab" buffered, deliverBody, "c", truncated body -/
example : Fresh (Twisted.Http.Client.init false false false true) := ⟨rfl, rfl, rfl, rfl, rfl⟩

example :
    let s := (bodyFinished (feedBody (deliverBody (feedBody (Twisted.Http.Client.init false false false false) [[97], [98]])) [[99]])
      (some (.failed [.connectionDone, .dataLoss]))).state
    s.delivered = [97, 98, 99] ∧ s.lost = [.failed [.connectionDone, .dataLoss]] := by decide

end TwistedProps.C23
