import TwistedProps.C36.Lemmas
import TwistedProps.C36.Pair
import TwistedProps.C36.Pair2
/-!
C36 — SSH channels respect flow control and flush before closing.

Model: `TwistedModel/Ssh/Channel.lean` (one channel endpoint `Chan` with `step`, histories `run`; two
endpoints joined by FIFO queues `Pair` with `pstep` / `prun`).  The model follows the repaired code
(twisted commit "fix: SSHChannel flushes every buffered extended-data entry before a pending close; a
1-byte local window is replenished").

Headline theorems (all for every history — no bound on length, sizes, windows):
* `sent_never_exceeds_window_or_maxpacket` — bytes sent ≤ window granted; every packet ≤ remoteMaxPacket;
* `each_stream_in_order`, `each_stream_complete_in_order_given_window` — per stream (normal data, each
  extended type): packets sent ++ buffer = bytes written, in order; an adjust covering the buffered bytes
  sends everything;
* `close_after_all_buffered_sent` — a CLOSE that is not the refusal of an oversized packet comes after
  every written byte of every stream, is the last packet, and nothing is ever sent after it
  (`refusal_closes_without_flushing_counterexample` shows why the refusal path is excluded);
* `conforming_peer_never_refused` — over a FIFO pair, with any application behaviour on both sides and
  any delivery order, no packet is ever answered with the "too much data" close;
* `receiver_window_replenished` — while the channel is open the local window is never left at 0;
* `writeSequence_is_one_write_of_the_pieces_in_order`, `writeSequence_never_exceeds_window_or_maxpacket` —
  `writeSequence` is one `write` of the joined pieces (so all of the above covers it).

End to end, over the FIFO pair started by the open handshake (any windows, maximum packets ≥ 1), for every
conforming history (any application calls on both sides, any delivery order) — lemmas in `C36/Pair.lean`:
* `nothing_follows_close_no_packet_for_removed_channel` — a CLOSE in a queue is its last packet and the only
  CLOSE, a removed channel has an empty incoming queue for ever, and no delivery ever raises `KeyError`;
* `delivered_is_in_order_prefix_of_written` — per stream and direction, the bytes handed to `dataReceived` /
  `extReceived` are a prefix of the bytes written on the other side, in order;
* `delivered_in_flight_buffered_is_written` — while the sender has not closed: delivered ++ in flight ++
  still buffered = written, exactly, per stream;
* `delivered_in_flight_buffered_is_written_before_close`, `closed_and_drained_everything_written_before_close_was_received`
  — the same accounting at every moment, also after the sender's CLOSE, against the bytes written before that
  CLOSE (`wroteOpen`); once a closed side's queue has drained the peer has received all of them;
* `quiescent_everything_written_was_received` — windows ≥ 1, both queues empty, neither side closing ⇒
  every stream was received completely and all four buffers are empty (uses exact credit conservation
  `sender window + in flight + announced adjusts = receiver window`, "data is buffered only when the window is
  used up", and `receiver_window_replenished`).
-/
namespace TwistedProps.C36
open Twisted.Ssh.Channel

/-- **Flow control, sender side.**  For every starting state and every history of calls and incoming
packets: the bytes of all DATA / EXTENDED_DATA packets sent, plus the window the channel still believes
it has, never exceed the initial window plus the WINDOW_ADJUSTs received (so at no point was more sent
than had been granted — the statement holds for every history, hence for every prefix of one), and
every such packet is at most `remoteMaxPacket` long. -/
theorem sent_never_exceeds_window_or_maxpacket (ins : List In) : ∀ c : Chan,
    lenSum (sentMsgs (run c ins).2) + (run c ins).1.rwl ≤ c.rwl + adjIn ins ∧
    ∀ m ∈ sentMsgs (run c ins).2, mLen m ≤ c.rmp := by
  induction ins with
  | nil => intro c; simp [run, adjIn]
  | cons i is ih =>
    intro c
    have g := gfacts_step c i
    have h := ih (step c i).1
    simp only [run, sentMsgs_append, lenSum_append, adjIn, List.map_cons, List.sum_cons]
    constructor
    · have := g.window; have := h.1; simp only [adjIn] at this; omega
    · intro m hm
      rcases List.mem_append.mp hm with hm | hm
      · exact g.maxpkt m hm
      · have := h.2 m hm; rw [g.rmp] at this; exact this

example :
    let r := run (fresh 5 2 8 8) [.write [1, 2, 3, 4, 5, 6, 7], .recv (.adjust 1), .writeExt 1 [8], .recv (.adjust 3)]
    sentMsgs r.2 = [.data [1, 2], .data [3, 4], .data [5], .data [6], .data [7], .ext 1 [8]] ∧ r.1.rwl = 1 := by
  decide

/-- **A conforming peer is never refused.**  Two channel endpoints after the open handshake (any local
windows and maximum packet sizes), joined by FIFO queues: whatever the two applications write, whenever
they ask to close and in whatever order the queued packets are delivered, no DATA / EXTENDED_DATA packet
is ever answered with the "too much data" close. -/
theorem conforming_peer_never_refused (lwA lmpA lwB lmpB : Nat) (ops : List POp)
    (hops : ∀ o ∈ ops, Conforming o) :
    ∀ x ∈ (prun (Pair.init lwA lmpA lwB lmpB) ops).2, x.2 ≠ Out.refused := by
  suffices h : ∀ (ops : List POp) (p : Pair), PInv p → (∀ o ∈ ops, Conforming o) →
      ∀ x ∈ (prun p ops).2, x.2 ≠ Out.refused from h ops _ (pinv_init ..) hops
  intro ops
  induction ops with
  | nil => intro p _ _ x hx; simp [prun] at hx
  | cons o os ih =>
    intro p hp hc x hx
    have h1 := pinv_pstep p o (hc o List.mem_cons_self) hp
    simp only [prun] at hx
    rcases List.mem_append.mp hx with hx | hx
    · exact h1.2 x hx
    · exact ih _ h1.1 (fun o' ho' => hc o' (List.mem_cons_of_mem _ ho')) x hx

/-- without the hypothesis the conclusion fails: a packet handed in beyond the window is refused -/
example : (Side.A, Out.refused) ∈ (prun (Pair.init 4 2 4 2) [.act .A (.recv (.data [1, 2, 3]))]).2 := by decide

example :
    (prun (Pair.init 2 1 3 2) [.act .A (.write [1, 2, 3, 4, 5]), .deliver .B, .deliver .B, .deliver .A, .deliver .B]).2
      = [(.A, .send (.data [1, 2])), (.A, .send (.data [3])), (.B, .gotData [1, 2]),
         (.B, .send (.adjust 3)), (.B, .gotData [3]), (.A, .send (.data [4, 5])), (.B, .gotData [4, 5])] := by
  decide

/-- **Each stream is complete and in order.**  From a channel with empty buffers, after any history
that leaves the channel open (no CLOSE sent yet): the DATA packets sent, concatenated, followed by what
is still in `buf`, are exactly the bytes written with `write`, in order; and for every extended type
`t`, the EXTENDED_DATA packets of type `t`, concatenated, followed by the `extBuf` entries of type `t`,
are exactly what was written with `writeExtended(t, …)`.  Nothing is lost, duplicated or reordered
within a stream. -/
theorem each_stream_in_order (c : Chan) (ins : List In) (hb : c.buf = []) (he : c.extBuf = [])
    (hr : 1 ≤ c.rmp) (hopen : (run c ins).1.localClosed = false) :
    dataCat (sentMsgs (run c ins).2) ++ (run c ins).1.buf = dataIn ins ∧
    ∀ t, extCat t (sentMsgs (run c ins).2) ++ extOf t (run c ins).1.extBuf = extIn t ins := by
  have := streams_run ins c hr hopen
  unfold Streams at this
  simpa [hb, he] using this

/-- **… and delivered completely once enough window is granted.**  After any history that leaves the
channel open, a WINDOW_ADJUST that (together with the window left) covers the buffered bytes makes the
channel send everything: all packets sent so far, concatenated per stream, are exactly what was
written to that stream, and both buffers are empty. -/
theorem each_stream_complete_in_order_given_window (c : Chan) (ins : List In) (n : Nat)
    (hb : c.buf = []) (he : c.extBuf = []) (hg : c.gone = false) (hr : 1 ≤ c.rmp)
    (hopen : (run c ins).1.localClosed = false)
    (hwin : (run c ins).1.buf.length + extBytes (run c ins).1.extBuf ≤ (run c ins).1.rwl + n) :
    let last := step (run c ins).1 (.recv (.adjust n))
    dataCat (sentMsgs ((run c ins).2 ++ last.2)) = dataIn ins ∧
    (∀ t, extCat t (sentMsgs ((run c ins).2 ++ last.2)) = extIn t ins) ∧
    last.1.buf = [] ∧ last.1.extBuf = [] := by
  intro last
  have hgone : (run c ins).1.gone = false := by
    cases h : (run c ins).1.gone
    · rfl
    · have := run_wf ins c (by intro h'; rw [hg] at h'; exact absurd h' (by simp)) h
      rw [this] at hopen; exact absurd hopen (by simp)
  have hlast : last = addWindowBytes (run c ins).1 n := by
    show step _ _ = _; simp [step, hgone]
  have h1 := each_stream_in_order c ins hb he hr hopen
  have h2 := streams_addWindow (run c ins).1 n hopen (by rw [run_rmp]; exact hr)
  have h3 := addWindow_all (run c ins).1 n hwin
  rw [← hlast] at h2 h3
  unfold Streams at h2
  rw [h3.1, h3.2] at h2
  refine ⟨?_, ?_, h3.1, h3.2⟩
  · have := h2.1; simp only [List.append_nil] at this
    rw [sentMsgs_append, dataCat_append, this, h1.1]
  · intro t
    have := h2.2 t; simp only [List.append_nil, extOf_nil] at this
    rw [sentMsgs_append, extCat_append, this, h1.2 t]

example :
    let c := fresh 2 2 8 8
    let ins := [In.write [1, 2, 3], .writeExt 1 [4, 5], .writeExt 2 [6], .write [7]]
    (run c ins).1.buf = [3, 7] ∧ (run c ins).1.extBuf = [(1, [4, 5]), (2, [6])] ∧
    sentMsgs (step (run c ins).1 (.recv (.adjust 5))).2 = [.data [3, 7], .ext 1 [4, 5], .ext 2 [6]] := by decide

/-- **A requested close is sent only after all buffered data has been sent.**  Start from a channel with
empty buffers, let any history `ins` leave it open, and let the next call `i` (any call or incoming
packet other than a DATA / EXTENDED_DATA packet that violates the local window or packet size — that is
the refusal path, which closes without flushing) send CLOSE.  Then, counting that call's packets too,
every stream has been sent completely and in order (nothing is left in `buf` / `extBuf`), the CLOSE is
the very last packet, it is the only CLOSE, and whatever is called or received afterwards, the channel
never sends another packet. -/
theorem close_after_all_buffered_sent (c : Chan) (ins : List In) (i : In) (later : List In)
    (hb : c.buf = []) (he : c.extBuf = []) (hr : 1 ≤ c.rmp)
    (hopen : (run c ins).1.localClosed = false) (hfit : Fits (run c ins).1 i)
    (hclose : Msg.close ∈ sentMsgs (step (run c ins).1 i).2) :
    let all := sentMsgs (run c (ins ++ [i])).2
    dataCat all = dataIn (ins ++ [i]) ∧ (∀ t, extCat t all = extIn t (ins ++ [i])) ∧
    (run c (ins ++ [i])).1.buf = [] ∧ (run c (ins ++ [i])).1.extBuf = [] ∧
    (∃ ms, all = ms ++ [Msg.close] ∧ Msg.close ∉ ms) ∧
    sentMsgs (run (run c (ins ++ [i])).1 later).2 = [] := by
  intro all
  have hrun : run c (ins ++ [i]) = ((step (run c ins).1 i).1, (run c ins).2 ++ (step (run c ins).1 i).2) := by
    rw [run_append]; simp [run]
  obtain ⟨hb', he', ms, hms, hnot⟩ := closeok_step _ i hfit hclose
  have h1 := each_stream_in_order c ins hb he hr hopen
  have h2 := streams_step (run c ins).1 i hopen (by rw [run_rmp]; exact hr)
  unfold Streams at h2
  rw [hb', he'] at h2
  have hall : all = sentMsgs (run c ins).2 ++ sentMsgs (step (run c ins).1 i).2 := by
    show sentMsgs (run c (ins ++ [i])).2 = _; rw [hrun, sentMsgs_append]
  refine ⟨?_, ?_, by rw [hrun]; exact hb', by rw [hrun]; exact he', ?_, ?_⟩
  · have := h2.1; simp only [List.append_nil] at this
    rw [hall, dataCat_append, this, ← List.append_assoc, h1.1]; simp [dataIn]
  · intro t
    have := h2.2 t; simp only [List.append_nil, extOf_nil] at this
    rw [hall, extCat_append, this, ← List.append_assoc, h1.2 t]; simp [extIn]
  · refine ⟨sentMsgs (run c ins).2 ++ ms, by rw [hall, hms, List.append_assoc], ?_⟩
    simp only [List.mem_append, not_or]
    exact ⟨run_open_noclose ins c hopen, hnot⟩
  · apply run_after
    rw [hrun]; exact (gfacts_step _ i).closes hclose

example :
    let c := fresh 1 4 8 8
    let ins := [In.writeExt 1 [1, 2, 3], .writeExt 2 [4, 5], .write [6], .lose]
    (run c ins).1.localClosed = false ∧ sentMsgs (run c ins).2 = [.ext 1 [1]] ∧
    sentMsgs (step (run c ins).1 (.recv (.adjust 9))).2 = [.data [6], .ext 1 [2, 3], .ext 2 [4, 5], .close] := by
  decide

/-- the refusal path is excluded for a reason: it closes with data still buffered -/
theorem refusal_closes_without_flushing_counterexample :
    let c := (run (fresh 1 4 2 8) [.write [1, 2, 3]]).1
    c.buf = [2, 3] ∧ ¬ Fits c (.recv (.data [9, 9, 9])) ∧
    sentMsgs (step c (.recv (.data [9, 9, 9]))).2 = [.close] := by decide

/-- **The receiver replenishes its advertised window.**  For every local window size from 1 byte up and
every history that leaves the channel open, the local window is never left at zero (and never above its
size): the peer can always send again.  (Before the repair this failed for a window of 1 byte:
`0 < 1 // 2` is false, the window stayed at 0 for ever.) -/
theorem receiver_window_replenished (ins : List In) : ∀ c : Chan, 0 < c.lwl ∧ c.lwl ≤ c.lwSize →
    (run c ins).1.localClosed = false → 0 < (run c ins).1.lwl ∧ (run c ins).1.lwl ≤ (run c ins).1.lwSize := by
  induction ins with
  | nil => intro c h _; exact h
  | cons i is ih =>
    intro c h hf
    simp only [run] at hf ⊢
    have h1 : (step c i).1.localClosed = false := by
      cases h' : (step c i).1.localClosed
      · rfl
      · rw [run_mono is _ h'] at hf; exact absurd hf (by simp)
    exact ih _ (step_lwl_pos c i h h1) hf

example : (run (fresh 8 8 1 1) [.recv (.data [7])]).2 = [.send (.adjust 1), .gotData [7]] ∧
    (run (fresh 8 8 1 1) [.recv (.data [7])]).1.lwl = 1 := by decide

/-! ### end to end over the connected pair -/

/-- **Nothing follows a CLOSE in a queue, and no packet reaches a removed channel.**  Two endpoints after
the open handshake (any windows, maximum packets ≥ 1) joined by FIFO queues; any application calls on both
sides, any delivery order.  At every moment: if a CLOSE is queued (in either direction) it is the last
packet of that queue and the only CLOSE in it; a channel that has been removed from `conn.channels` has
nothing queued towards it (and, its peer having closed, never will); and no delivery ever raised
`KeyError` for a missing channel. -/
theorem nothing_follows_close_no_packet_for_removed_channel (lwA lmpA lwB lmpB : Nat) (hA : 1 ≤ lmpA) (hB : 1 ≤ lmpB)
    (ops : List POp) (hops : ∀ o ∈ ops, Conforming o) :
    let r := prun (Pair.init lwA lmpA lwB lmpB) ops
    (Msg.close ∈ r.1.qab → ∃ q, r.1.qab = q ++ [Msg.close] ∧ Msg.close ∉ q) ∧
    (Msg.close ∈ r.1.qba → ∃ q, r.1.qba = q ++ [Msg.close] ∧ Msg.close ∉ q) ∧
    (r.1.a.gone = true → r.1.qba = []) ∧ (r.1.b.gone = true → r.1.qab = []) ∧
    ∀ x ∈ r.2, x.2 ≠ Out.keyError := by
  intro r
  obtain ⟨⟨⟨hab, hba⟩, _, _⟩, hk⟩ := plinks_run lwA lmpA lwB lmpB hA hB ops hops
  refine ⟨half_close_last hab, half_close_last hba, ?_, ?_, hk⟩
  · intro hg
    cases hq : r.1.qba with
    | nil => rfl
    | cons m q => have := half_live hba (by rw [hq]; simp); rw [this] at hg; exact absurd hg (by simp)
  · intro hg
    cases hq : r.1.qab with
    | nil => rfl
    | cons m q => have := half_live hab (by rw [hq]; simp); rw [this] at hg; exact absurd hg (by simp)

example :
    let r := prun (Pair.init 4 2 4 2) [.act .A (.write [1, 2, 3]), .act .A .lose, .act .B (.write [9]), .deliver .B]
    r.1.qab = [.data [3], .close] ∧ r.1.qba = [.data [9]] ∧ r.1.a.localClosed = true := by decide

/-- the hypothesis matters: a packet handed in out of band after both sides closed meets a removed channel -/
example : (Side.A, Out.keyError) ∈
    (prun (Pair.init 4 2 4 2) [.act .A .lose, .deliver .B, .deliver .A, .act .A (.recv (.adjust 1))]).2 := by decide

/-- **Delivery is in order and never invents bytes.**  Same setting.  For each direction and each stream
(normal data; every extended type `t`): the bytes handed to the receiving application (`dataReceived` /
`extReceived(t, …)`), concatenated in the order of the calls, are a prefix of the bytes the sending
application passed to `write` / `writeExtended(t, …)`, concatenated in the order of the calls. -/
theorem delivered_is_in_order_prefix_of_written (lwA lmpA lwB lmpB : Nat) (hA : 1 ≤ lmpA) (hB : 1 ≤ lmpB)
    (ops : List POp) (hops : ∀ o ∈ ops, Conforming o) :
    let r := prun (Pair.init lwA lmpA lwB lmpB) ops
    gotD .B r.2 <+: wrote .A ops ∧ (∀ t, gotE .B t r.2 <+: wroteExt .A t ops) ∧
    gotD .A r.2 <+: wrote .B ops ∧ (∀ t, gotE .A t r.2 <+: wroteExt .B t ops) := by
  intro r
  obtain ⟨⟨_, lab, lba⟩, _⟩ := plinks_run lwA lmpA lwB lmpB hA hB ops hops
  exact ⟨lab.prefix.1, lab.prefix.2, lba.prefix.1, lba.prefix.2⟩

/-- **Exact accounting while the sender has not closed.**  Same setting.  While a side has not sent its
CLOSE, for each of its streams: the bytes already handed to the peer's application, followed by the bytes of
the packets still in the queue, followed by the bytes still in the sender's `buf` / `extBuf`, are exactly the
bytes written — nothing lost, duplicated or reordered anywhere between `write` and `dataReceived`. -/
theorem delivered_in_flight_buffered_is_written (lwA lmpA lwB lmpB : Nat) (hA : 1 ≤ lmpA) (hB : 1 ≤ lmpB)
    (ops : List POp) (hops : ∀ o ∈ ops, Conforming o) :
    let r := prun (Pair.init lwA lmpA lwB lmpB) ops
    (r.1.a.localClosed = false →
      gotD .B r.2 ++ dataCat r.1.qab ++ r.1.a.buf = wrote .A ops ∧
      ∀ t, gotE .B t r.2 ++ extCat t r.1.qab ++ extOf t r.1.a.extBuf = wroteExt .A t ops) ∧
    (r.1.b.localClosed = false →
      gotD .A r.2 ++ dataCat r.1.qba ++ r.1.b.buf = wrote .B ops ∧
      ∀ t, gotE .A t r.2 ++ extCat t r.1.qba ++ extOf t r.1.b.extBuf = wroteExt .B t ops) := by
  intro r
  obtain ⟨⟨_, lab, lba⟩, _⟩ := plinks_run lwA lmpA lwB lmpB hA hB ops hops
  exact ⟨lab.exact, lba.exact⟩

example :
    let ops := [POp.act .A (.write [1, 2, 3, 4, 5]), .act .A (.writeExt 1 [6, 7]), .act .A (.write [8]), .deliver .B]
    let r := prun (Pair.init 2 1 3 2) ops
    gotD .B r.2 = [1, 2] ∧ r.1.qab = [.data [3]] ∧ r.1.a.buf = [4, 5, 8] ∧ r.1.a.extBuf = [(1, [6, 7])] ∧
    wrote .A ops = [1, 2, 3, 4, 5, 8] ∧ wroteExt .A 1 ops = [6, 7] ∧ gotE .B 1 r.2 = [] := by decide

/-- **At quiescence everything written has been received.**  Same setting with local windows ≥ 1.  Whenever
both queues are empty and neither side is closing (no `loseConnection`, no CLOSE received), every stream in
both directions has been handed to the peer's application completely and in order, and nothing is left in any
buffer: a sender can never be stuck with buffered data while the connection is idle (the receiver always
re-opens its window, and the window accounting of the two sides agrees exactly). -/
theorem quiescent_everything_written_was_received (lwA lmpA lwB lmpB : Nat)
    (hwA : 1 ≤ lwA) (hA : 1 ≤ lmpA) (hwB : 1 ≤ lwB) (hB : 1 ≤ lmpB)
    (ops : List POp) (hops : ∀ o ∈ ops, Conforming o) :
    let r := prun (Pair.init lwA lmpA lwB lmpB) ops
    r.1.qab = [] → r.1.qba = [] → r.1.a.closing = false → r.1.b.closing = false →
    gotD .B r.2 = wrote .A ops ∧ (∀ t, gotE .B t r.2 = wroteExt .A t ops) ∧
    gotD .A r.2 = wrote .B ops ∧ (∀ t, gotE .A t r.2 = wroteExt .B t ops) ∧
    r.1.a.buf = [] ∧ r.1.a.extBuf = [] ∧ r.1.b.buf = [] ∧ r.1.b.extBuf = [] := by
  intro r hqab hqba hca hcb
  obtain ⟨⟨⟨hab, hba⟩, lab, lba⟩, _⟩ := plinks_run lwA lmpA lwB lmpB hA hB ops hops
  have hsz := prun_lwSize ops (Pair.init lwA lmpA lwB lmpB)
  have hoa := k_open hab.k hca
  have hob := k_open hba.k hcb
  change Half r.1.a r.1.b r.1.qab r.1.qba at hab
  change Half r.1.b r.1.a r.1.qba r.1.qab at hba
  rw [hqab, hqba] at hab hba
  obtain ⟨ea1, ea2⟩ := half_quiescent hab (by rw [hsz.2]; exact hwB) hoa hob
  obtain ⟨eb1, eb2⟩ := half_quiescent hba (by rw [hsz.1]; exact hwA) hob hoa
  have xa := lab.exact hoa
  have xb := lba.exact hob
  change _ ++ dataCat r.1.qab ++ r.1.a.buf = _ ∧ ∀ t, _ ++ extCat t r.1.qab ++ extOf t r.1.a.extBuf = _ at xa
  change _ ++ dataCat r.1.qba ++ r.1.b.buf = _ ∧ ∀ t, _ ++ extCat t r.1.qba ++ extOf t r.1.b.extBuf = _ at xb
  rw [hqab, ea1, ea2] at xa
  rw [hqba, eb1, eb2] at xb
  refine ⟨by simpa using xa.1, fun t => by simpa using xa.2 t, by simpa using xb.1, fun t => by simpa using xb.2 t,
    ea1, ea2, eb1, eb2⟩

example :
    let ops := [POp.act .A (.write [1, 2, 3, 4, 5]), .act .B (.writeExt 7 [9, 8]), .deliver .B, .deliver .B, .deliver .A,
      .deliver .A, .deliver .B, .deliver .A, .deliver .B]
    let r := prun (Pair.init 2 1 3 2) ops
    r.1.qab = [] ∧ r.1.qba = [] ∧ r.1.a.closing = false ∧ r.1.b.closing = false ∧
    gotD .B r.2 = [1, 2, 3, 4, 5] ∧ gotE .A 7 r.2 = [9, 8] := by decide

/-- without "queues empty" the conclusion fails (data still in flight / buffered behind a closed window) -/
example :
    let ops := [POp.act .A (.write [1, 2, 3, 4, 5]), .deliver .B]
    let r := prun (Pair.init 2 1 3 2) ops
    r.1.a.closing = false ∧ r.1.b.closing = false ∧ gotD .B r.2 ≠ wrote .A ops := by decide

/-- **Exact accounting, also after the sender's close.**  Same setting.  At every moment, for each direction
and stream: the bytes handed to the receiving application, followed by the bytes in flight, followed by the
sender's buffer (if it has not sent its CLOSE; nothing otherwise), are exactly the bytes the sending
application wrote before the sender's CLOSE was sent (`wroteOpen` / `wroteExtOpen`; what is written after
one's own CLOSE is dropped by `conn.sendData`).  In particular a (non-refusal) CLOSE never overtakes or
drops a byte written before it. -/
theorem delivered_in_flight_buffered_is_written_before_close (lwA lmpA lwB lmpB : Nat) (hA : 1 ≤ lmpA) (hB : 1 ≤ lmpB)
    (ops : List POp) (hops : ∀ o ∈ ops, Conforming o) :
    let p0 := Pair.init lwA lmpA lwB lmpB
    let r := prun p0 ops
    (gotD .B r.2 ++ dataCat r.1.qab ++ (if r.1.a.localClosed then [] else r.1.a.buf) = wroteOpen .A p0 ops ∧
      ∀ t, gotE .B t r.2 ++ extCat t r.1.qab ++ (if r.1.a.localClosed then [] else extOf t r.1.a.extBuf)
        = wroteExtOpen .A t p0 ops) ∧
    (gotD .A r.2 ++ dataCat r.1.qba ++ (if r.1.b.localClosed then [] else r.1.b.buf) = wroteOpen .B p0 ops ∧
      ∀ t, gotE .A t r.2 ++ extCat t r.1.qba ++ (if r.1.b.localClosed then [] else extOf t r.1.b.extBuf)
        = wroteExtOpen .B t p0 ops) := by
  intro p0 r
  obtain ⟨_, lab, lba⟩ := plinks2_run lwA lmpA lwB lmpB hA hB ops hops
  exact ⟨lab, lba⟩

/-- **After a close, once the queue has drained, everything written before the close was received.** -/
theorem closed_and_drained_everything_written_before_close_was_received (lwA lmpA lwB lmpB : Nat)
    (hA : 1 ≤ lmpA) (hB : 1 ≤ lmpB) (ops : List POp) (hops : ∀ o ∈ ops, Conforming o) :
    let p0 := Pair.init lwA lmpA lwB lmpB
    let r := prun p0 ops
    (r.1.a.localClosed = true → r.1.qab = [] →
      gotD .B r.2 = wroteOpen .A p0 ops ∧ ∀ t, gotE .B t r.2 = wroteExtOpen .A t p0 ops) ∧
    (r.1.b.localClosed = true → r.1.qba = [] →
      gotD .A r.2 = wroteOpen .B p0 ops ∧ ∀ t, gotE .A t r.2 = wroteExtOpen .B t p0 ops) := by
  intro p0 r
  obtain ⟨h1, h2⟩ := delivered_in_flight_buffered_is_written_before_close lwA lmpA lwB lmpB hA hB ops hops
  constructor
  · intro hc hq
    have e1 := h1.1
    have e2 := h1.2
    change _ ++ dataCat r.1.qab ++ (if r.1.a.localClosed then _ else _) = _ at e1
    change ∀ t, _ ++ extCat t r.1.qab ++ (if r.1.a.localClosed then _ else _) = _ at e2
    rw [hc, hq] at e1 e2
    exact ⟨by simpa using e1, fun t => by simpa using e2 t⟩
  · intro hc hq
    have e1 := h2.1
    have e2 := h2.2
    change _ ++ dataCat r.1.qba ++ (if r.1.b.localClosed then _ else _) = _ at e1
    change ∀ t, _ ++ extCat t r.1.qba ++ (if r.1.b.localClosed then _ else _) = _ at e2
    rw [hc, hq] at e1 e2
    exact ⟨by simpa using e1, fun t => by simpa using e2 t⟩

example :
    let p0 := Pair.init 4 2 4 2
    let ops := [POp.act .A (.write [1, 2, 3]), .act .A (.writeExt 1 [4]), .act .A .lose, .act .A (.write [9]),
      .deliver .B, .deliver .B, .deliver .B, .deliver .B]
    let r := prun p0 ops
    r.1.a.localClosed = true ∧ r.1.qab = [] ∧ gotD .B r.2 = [1, 2, 3] ∧ gotE .B 1 r.2 = [4] ∧
    wroteOpen .A p0 ops = [1, 2, 3] ∧ wrote .A ops = [1, 2, 3, 9] := by decide

/-! ### `writeSequence`

`SSHChannel.writeSequence(pieces)` is `self.write(b"".join(pieces))`: whatever iterable the pieces come in (list,
tuple, one-shot generator — the tie runs all three), it is ONE `write` of the pieces in order.  The driver maps a
`writeSequence` call of a history to `In.write (joinPieces ds)`, so every theorem above, being about all
histories of `In`, covers histories with `writeSequence` calls; the two statements below make that explicit. -/

theorem writeSequence_is_one_write_of_the_pieces_in_order (c : Chan) (ds : List Bytes) :
    writeSequence c ds = step c (.write (joinPieces ds)) ∧ joinPieces ds = ds.flatten := by
  refine ⟨rfl, ?_⟩
  induction ds with
  | nil => rfl
  | cons d ds ih => simp [joinPieces, ih]

theorem writeSequence_never_exceeds_window_or_maxpacket (c : Chan) (ds : List Bytes) :
    lenSum (sentMsgs (writeSequence c ds).2) + (writeSequence c ds).1.rwl ≤ c.rwl ∧
    ∀ m ∈ sentMsgs (writeSequence c ds).2, mLen m ≤ c.rmp := by
  have h := sent_never_exceeds_window_or_maxpacket [.write (joinPieces ds)] c
  simpa [run, adjIn, adjIn1, writeSequence, step] using h

example :
    sentMsgs (writeSequence (fresh 100 4 8 8) [[1, 2], [], [3, 4, 5, 6, 7, 8, 9, 10, 11, 12]]).2 =
      [.data [1, 2, 3, 4], .data [5, 6, 7, 8], .data [9, 10, 11, 12]] := by decide
end TwistedProps.C36
