import TwistedProps.C54.Seg
import TwistedProps.C26.FilePath
/-!
Lemmas for C54 at the `FilePath` level: the utf-8 encoding of a plain segment is a clean
component, `child` of a clean name succeeds and appends exactly that name, hence
`descendant` of clean names is `root + names`.
-/
namespace TwistedProps.C54
open Twisted.Fs.Path Twisted.Fs.Ftp TwistedProps.C26

theorem forall_uint8 (P : UInt8 → Prop) (h : ∀ i : Fin 256, P (UInt8.ofNat i.val)) : ∀ b, P b := by
  intro b
  have := h ⟨b.toNat, UInt8.toNat_lt b⟩
  simpa using this

/-- utf-8 of a latin-1 character: itself below 0x80, otherwise two bytes ≥ 0x80 -/
theorem encByte_spec : ∀ b : UInt8,
    (b < 0x80 ∧ encByte b = [b]) ∨ ((encByte b).length = 2 ∧ ∀ x ∈ encByte b, (0x80 : UInt8) ≤ x) := by
  apply forall_uint8
  decide +kernel

theorem encByte_ne_nil (b : UInt8) : encByte b ≠ [] := by
  rcases encByte_spec b with ⟨_, e⟩ | ⟨e, _⟩
  · rw [e]; simp
  · intro h; rw [h] at e; simp at e

/-- a byte below 0x80 occurs in the encoding iff it is the character -/
theorem mem_encByte_low (b x : UInt8) (hx : x < 0x80) : x ∈ encByte b ↔ x = b := by
  rcases encByte_spec b with ⟨_, e⟩ | ⟨_, e⟩
  · rw [e]; simp
  · constructor
    · intro h
      have := e x h
      exfalso
      exact absurd hx (by simpa [UInt8.not_lt] using this)
    · intro h
      subst h
      exfalso
      unfold encByte at e
      rw [if_pos hx] at e
      have := e x (by simp)
      exact absurd hx (by simpa [UInt8.not_lt] using this)

theorem encSeg_nil : encSeg [] = [] := rfl

theorem encSeg_cons (b : UInt8) (s : Seg) : encSeg (b :: s) = encByte b ++ encSeg s := by
  simp [encSeg]

theorem mem_encSeg_low (s : Seg) (x : UInt8) (hx : x < 0x80) : x ∈ encSeg s ↔ x ∈ s := by
  induction s with
  | nil => simp [encSeg_nil]
  | cons b s ih =>
    rw [encSeg_cons, List.mem_append, ih, mem_encByte_low b x hx]
    simp

theorem encSeg_eq_nil (s : Seg) (h : encSeg s = []) : s = [] := by
  cases s with
  | nil => rfl
  | cons b s =>
    rw [encSeg_cons] at h
    exact absurd (List.append_eq_nil_iff.mp h).1 (encByte_ne_nil b)

/-- if the encoding consists of bytes below 0x80 only, it is the text itself -/
theorem encSeg_low (s : Seg) (h : ∀ x ∈ encSeg s, x < 0x80) : encSeg s = s := by
  induction s with
  | nil => rfl
  | cons b s ih =>
    rw [encSeg_cons] at h ⊢
    rcases encByte_spec b with ⟨_, e⟩ | ⟨e1, e2⟩
    · rw [e] at h ⊢
      rw [ih (fun x hx => h x (by simp [hx]))]
      rfl
    · exfalso
      cases hb : encByte b with
      | nil => rw [hb] at e1; simp at e1
      | cons y ys =>
        have h1 := h y (by rw [hb]; simp)
        have h2 := e2 y (by rw [hb]; simp)
        exact absurd h1 (by simpa [UInt8.not_lt] using h2)

theorem encSeg_plain (s : Seg) (h : Plain s) : CleanC (encSeg s) ∧ (0 : UInt8) ∉ encSeg s := by
  obtain ⟨h1, h2, h3, h4, h5⟩ := h
  have low (t : Bytes) (ht : ∀ x ∈ t, x < (0x80 : UInt8)) (e : encSeg s = t) : s = t := by
    have := encSeg_low s (by rw [e]; exact ht)
    rw [← this, e]
  refine ⟨⟨fun e => h1 (encSeg_eq_nil s e), ?_, ?_, ?_⟩, ?_⟩
  · rw [mem_encSeg_low s slash (by decide)]; exact h4
  · intro e
    exact h2 (low [dot] (by decide) e)
  · intro e
    exact h3 (low [dot, dot] (by decide) e)
  · rw [mem_encSeg_low s 0 (by decide)]; exact h5

theorem encSegs_clean (segs : List Seg) (h : PlainL segs) : Clean (segs.map encSeg) := by
  intro c hc
  simp only [List.mem_map] at hc
  obtain ⟨s, hs, rfl⟩ := hc
  exact (encSeg_plain s (h s hs)).1

/-! ### `child` of a clean name -/

theorem initialSlashes_rel (p : Bytes) (h : p.head? ≠ some slash) : initialSlashes p = 0 := by
  match p with
  | [] => rfl
  | [a] =>
    have : a ≠ slash := by intro e; simp [e] at h
    simp [initialSlashes, this]
  | [a, b] =>
    have : a ≠ slash := by intro e; simp [e] at h
    simp [initialSlashes, this]
  | a :: b :: c :: r =>
    have : a ≠ slash := by intro e; simp [e] at h
    simp [initialSlashes, this]

theorem normpath_cleanC (c : Bytes) (h : CleanC c) : normpath c = c := by
  have hs := splitSlash_noslash c h.2.1
  have hi := initialSlashes_rel c (head_of_noslash c h.2.1)
  have hn := normStep_clean 0 [] c h
  unfold normpath
  simp [h.1, hi, hs, hn, render, joinSlash]

theorem render_prefix_snoc (init : Nat) (comps : List Bytes) (c : Bytes) :
    render init comps <+: render init (comps ++ [c]) := by
  unfold render
  by_cases hne : comps = []
  · subst hne
    simp [joinSlash]
  · rw [joinSlash_snoc comps c hne]
    exact ⟨slash :: c, by simp⟩

/-- `FilePath.child(name)` for a clean name: no `InsecurePath`, exactly one more component -/
theorem child_clean (cwd our name : Bytes) (init : Nat) (comps : List Bytes)
    (hs : Struct our init comps) (hc : CleanC name) :
    child cwd our name = some (render init (comps ++ [name])) := by
  obtain ⟨hi, hcl, rfl⟩ := hs
  have hcl' : Clean (comps ++ [name]) := by
    apply clean_append _ _ hcl
    intro x hx
    simp only [List.mem_singleton] at hx
    subst hx; exact hc
  unfold child
  simp only
  rw [normpath_cleanC name hc, if_neg hc.2.1]
  have hhead := joinPath_render_head init hi comps hcl name (head_of_noslash _ hc.2.1)
  rw [abspath_abs _ _ hhead, normpath_join_single init hi comps hcl name hc.2.1,
    normStep_clean init comps name hc]
  have : startsWith (render init (comps ++ [name])) (render init comps) = true := by
    unfold startsWith
    exact List.isPrefixOf_iff_prefix.mpr (render_prefix_snoc init comps name)
  rw [if_pos this, mk_render cwd init hi _ hcl']

theorem struct_snoc (our : Bytes) (init : Nat) (comps : List Bytes) (name : Bytes)
    (hs : Struct our init comps) (hc : CleanC name) :
    Struct (render init (comps ++ [name])) init (comps ++ [name]) := by
  refine ⟨hs.1, ?_, rfl⟩
  apply clean_append _ _ hs.2.1
  intro x hx
  simp only [List.mem_singleton] at hx
  subst hx; exact hc

/-- `descendant` of clean names: the root's components followed by the names -/
theorem descendant_clean (cwd : Bytes) (names : List Bytes) : ∀ (our : Bytes) (init : Nat) (comps : List Bytes),
    Struct our init comps → Clean names →
    descendant cwd our names = some (render init (comps ++ names)) := by
  induction names with
  | nil =>
    intro our init comps hs _
    simp only [descendant, List.append_nil]
    rw [hs.2.2]
  | cons n ns ih =>
    intro our init comps hs hcl
    have hn : CleanC n := hcl n (by simp)
    simp only [descendant]
    rw [child_clean cwd our n init comps hs hn]
    simp only
    rw [ih _ init (comps ++ [n]) (struct_snoc our init comps n hs hn) (fun c hc => hcl c (by simp [hc]))]
    simp

/-! ### `toSegments` against `posixpath.normpath` -/

theorem plain_cleanC (s : Seg) (h : Plain s) : CleanC s := ⟨h.1, h.2.2.2.1, h.2.1, h.2.2.1⟩

theorem plainL_clean (l : List Seg) (h : PlainL l) : Clean l := fun c hc => plain_cleanC c (h c hc)

/-- on a clean stack, one iteration of `toSegments` (when it does not raise) is one iteration of `normpath` -/
theorem segStep_normStep (init : Nat) (hi : init ≠ 0) (acc acc' : List Seg) (hacc : Clean acc) (s : Seg)
    (h : segStep acc s = some acc') : normStep init acc s = acc' := by
  unfold segStep at h
  unfold normStep
  by_cases h1 : s = [dot] ∨ s = []
  · rw [if_pos h1] at h
    rw [if_pos (by rcases h1 with e | e; exact Or.inr e; exact Or.inl e)]
    simpa using h
  · rw [if_neg h1] at h
    rw [if_neg (by intro e; rcases e with e | e; exact h1 (Or.inr e); exact h1 (Or.inl e))]
    by_cases h2 : s = [dot, dot]
    · rw [if_pos h2] at h
      by_cases h3 : acc ≠ []
      · rw [if_pos h3] at h
        have hlast : acc.getLast? ≠ some [dot, dot] := by
          intro e
          exact (hacc _ (List.mem_of_getLast? e)).2.2.2 rfl
        have : ¬ (s ≠ [dot, dot] ∨ (init = 0 ∧ acc = []) ∨ acc.getLast? = some [dot, dot]) := by
          intro hh
          rcases hh with hh | hh | hh
          · exact hh h2
          · exact hi hh.1
          · exact hlast hh
        rw [if_neg this]
        simpa using h
      · rw [if_neg h3] at h; simp at h
    · rw [if_neg h2] at h
      rw [if_pos (Or.inl h2)]
      by_cases h3 : (0 : UInt8) ∈ s ∨ slash ∈ s
      · rw [if_pos h3] at h; simp at h
      · rw [if_neg h3] at h
        simpa using h

theorem segLoop_foldl (init : Nat) (hi : init ≠ 0) (pieces : List Seg) : ∀ (acc r : List Seg), PlainL acc →
    segLoop acc pieces = some r → pieces.foldl (normStep init) acc = r := by
  induction pieces with
  | nil => intro acc r _ h; simpa [segLoop] using h
  | cons s rest ih =>
    intro acc r hacc h
    rw [segLoop_cons] at h
    cases hs : segStep acc s with
    | none => rw [hs] at h; simp at h
    | some mid =>
      rw [hs] at h
      simp only [List.foldl_cons]
      rw [segStep_normStep init hi acc mid (plainL_clean acc hacc) s hs]
      exact ih mid r (segStep_plain acc mid s hacc hs) h

end TwistedProps.C54
