import TwistedProps.C54.Path
/-!
Lemmas for C54 at the session level: what one command line can hand to the shell (`OutOK`), and
that the working directory stays plain.
-/
namespace TwistedProps.C54
open Twisted.Fs.Path Twisted.Fs.Ftp TwistedProps.C26

/-- what a step may hand to the filesystem: results of `shell._path` on *plain* segment lists, and
    `child`ren of such a result; `insecure` only if one of those calls raised -/
def OutOK (cfg : Conf) (entries : Option (List Bytes)) (o : Out) : Prop :=
  (∀ t ∈ o.targets, ∃ segs, PlainL segs ∧ pathOf cfg o.shell segs = some t) ∧
  (∀ c ∈ o.children, ∃ t ∈ o.targets, ∃ e, child cfg.procCwd t e = some c) ∧
  (o.insecure = true → (∃ segs, PlainL segs ∧ pathOf cfg o.shell segs = none) ∨
    (∃ es t, entries = some es ∧ t ∈ o.targets ∧ childrenOf cfg t es = none))

theorem ok_none (cfg : Conf) (en : Option (List Bytes)) (sh : Shell) : OutOK cfg en (Out.none sh) := by
  refine ⟨?_, ?_, ?_⟩ <;> simp [Out.none]

theorem ok_touch (cfg : Conf) (en : Option (List Bytes)) (sh : Shell) (segs : List Seg) (h : PlainL segs) :
    OutOK cfg en (touch cfg sh segs) := by
  unfold touch
  cases hp : pathOf cfg sh segs with
  | none =>
    refine ⟨by simp, by simp, ?_⟩
    intro _
    exact Or.inl ⟨segs, h, hp⟩
  | some p =>
    refine ⟨?_, by simp, by simp⟩
    intro t ht
    simp only [List.mem_singleton] at ht
    subst ht
    exact ⟨segs, h, hp⟩

theorem ok_touchUserOnly (cfg : Conf) (en : Option (List Bytes)) (sh : Shell) (segs : List Seg) (h : PlainL segs) :
    OutOK cfg en (touchUserOnly cfg sh segs) := by
  unfold touchUserOnly
  cases sh with
  | anon => exact ok_none cfg en _
  | user => exact ok_touch cfg en _ segs h

theorem childrenOf_mem (cfg : Conf) (p : Bytes) (es : List Bytes) : ∀ cs, childrenOf cfg p es = some cs →
    ∀ c ∈ cs, ∃ e, child cfg.procCwd p e = some c := by
  induction es with
  | nil =>
    intro cs h c hc
    simp only [childrenOf, Option.some.injEq] at h
    subst h; simp at hc
  | cons e rest ih =>
    intro cs h c hc
    simp only [childrenOf] at h
    cases h1 : child cfg.procCwd p e with
    | none => rw [h1] at h; simp at h
    | some x =>
      rw [h1] at h
      simp only at h
      cases h2 : childrenOf cfg p rest with
      | none => rw [h2] at h; simp at h
      | some xs =>
        rw [h2] at h
        simp only [Option.some.injEq] at h
        subst h
        simp only [List.mem_cons] at hc
        rcases hc with rfl | hc
        · exact ⟨e, h1⟩
        · exact ih xs h2 c hc

/-- listing a directory whose entries are real names: every `child` call succeeds -/
theorem childrenOf_clean (cfg : Conf) (p : Bytes) (init : Nat) (comps : List Bytes) (hs : Struct p init comps)
    (es : List Bytes) (h : ∀ e ∈ es, CleanC e) : childrenOf cfg p es ≠ none := by
  induction es with
  | nil => simp [childrenOf]
  | cons e rest ih =>
    simp only [childrenOf]
    rw [child_clean cfg.procCwd p e init comps hs (h e (by simp))]
    simp only
    cases hc : childrenOf cfg p rest with
    | none => exact absurd hc (ih (fun x hx => h x (by simp [hx])))
    | some cs => simp

theorem ok_list (cfg : Conf) (sh : Shell) (segs : List Seg) (en : Option (List Bytes)) (h : PlainL segs) :
    OutOK cfg en (listWithKeys cfg sh segs en) := by
  unfold listWithKeys
  cases hp : pathOf cfg sh segs with
  | none =>
    refine ⟨by simp, by simp, ?_⟩
    intro _
    exact Or.inl ⟨segs, h, hp⟩
  | some p =>
    have ht : ∀ t ∈ [p], ∃ segs, PlainL segs ∧ pathOf cfg sh segs = some t := by
      intro t ht
      simp only [List.mem_singleton] at ht
      subst ht
      exact ⟨segs, h, hp⟩
    cases en with
    | none => exact ⟨ht, by simp, by simp⟩
    | some es =>
      simp only
      cases hc : childrenOf cfg p es with
      | none =>
        refine ⟨ht, by simp, ?_⟩
        intro _
        exact Or.inr ⟨es, p, rfl, by simp, hc⟩
      | some cs =>
        refine ⟨ht, ?_, by simp⟩
        intro c hcm
        exact ⟨p, by simp, childrenOf_mem cfg p es cs hc c hcm⟩

theorem ok_rename (cfg : Conf) (en : Option (List Bytes)) (sh : Shell) (a b : List Seg) (ha : PlainL a) (hb : PlainL b) :
    OutOK cfg en (rename cfg sh a b) := by
  unfold rename
  cases sh with
  | anon => exact ok_none cfg en _
  | user =>
    simp only
    cases h1 : pathOf cfg Shell.user a with
    | none =>
      refine ⟨by simp, by simp, ?_⟩
      intro _
      exact Or.inl ⟨a, ha, h1⟩
    | some fp =>
      simp only
      cases h2 : pathOf cfg Shell.user b with
      | none =>
        refine ⟨?_, by simp, ?_⟩
        · intro t ht
          simp only [List.mem_singleton] at ht
          subst ht
          exact ⟨a, ha, h1⟩
        · intro _
          exact Or.inl ⟨b, hb, h2⟩
      | some tp =>
        refine ⟨?_, by simp, by simp⟩
        intro t ht
        simp only [List.mem_cons, List.not_mem_nil, or_false] at ht
        rcases ht with rfl | rfl
        · exact ⟨a, ha, h1⟩
        · exact ⟨b, hb, h2⟩

/-- the result of a step: working directory still plain, output as described -/
def StepOK (cfg : Conf) (env : Env) (r : State × Out) : Prop :=
  PlainL r.1.cwd ∧ OutOK cfg env.entries r.2

theorem ok_nothing (cfg : Conf) (env : Env) (s : State) (h : PlainL s.cwd) (sh : Shell) :
    StepOK cfg env (s, Out.none sh) := ⟨h, ok_none cfg _ sh⟩

/-- `withSegs`: a continuation that is fine on plain segments is fine after `toSegments` -/
theorem ok_withSegs (cfg : Conf) (env : Env) (s : State) (h : PlainL s.cwd) (path : Bytes)
    (k : List Seg → State × Out) (hk : ∀ segs, PlainL segs → StepOK cfg env (k segs)) :
    StepOK cfg env (match toSegments s.cwd path with
      | Option.none => (s, Out.none s.shell)
      | some segs => k segs) := by
  cases ht : toSegments s.cwd path with
  | none => exact ok_nothing cfg env s h _
  | some segs => exact hk segs (toSegments_plainL s.cwd path segs h ht)

theorem authedCmd_ok (cfg : Conf) (env : Env) (s : State) (cmd : Bytes) (arg : Option Bytes) (h : PlainL s.cwd) :
    StepOK cfg env (authedCmd cfg env s cmd arg) := by
  have hn := ok_nothing cfg env s h s.shell
  unfold authedCmd
  simp only
  split
  · -- USER
    split
    · split
      · exact hn
      · exact ⟨h, ok_none cfg _ _⟩
    · exact hn
  split
  · -- CWD / CDUP
    split
    · exact hn
    · apply ok_withSegs cfg env s h
      intro segs hs
      refine ⟨?_, ok_touch cfg _ _ segs hs⟩
      split
      · exact hs
      · exact h
  split
  · -- LIST
    split
    · exact hn
    · apply ok_withSegs cfg env s h
      intro segs hs
      exact ⟨h, ok_list cfg _ segs _ hs⟩
  split
  · -- NLST
    split
    · exact hn
    · split
      · exact hn
      · apply ok_withSegs cfg env s h
        intro segs hs
        refine ⟨h, ok_touch cfg _ _ _ ?_⟩
        split
        · exact plainL_dropLast segs hs
        · exact hs
  split
  · -- RETR
    split
    · exact hn
    · split
      · exact hn
      · apply ok_withSegs cfg env s h
        intro segs hs
        exact ⟨h, ok_touch cfg _ _ segs hs⟩
  split
  · -- STOR
    split
    · exact hn
    · split
      · exact hn
      · apply ok_withSegs cfg env s h
        intro segs hs
        exact ⟨h, ok_touchUserOnly cfg _ _ segs hs⟩
  split
  · -- SIZE / MDTM
    split
    · exact hn
    · apply ok_withSegs cfg env s h
      intro segs hs
      exact ⟨h, ok_touch cfg _ _ segs hs⟩
  split
  · -- MKD / RMD / DELE
    split
    · exact hn
    · apply ok_withSegs cfg env s h
      intro segs hs
      exact ⟨h, ok_touchUserOnly cfg _ _ segs hs⟩
  split
  · -- RNFR
    split
    · exact hn
    · exact ⟨h, ok_none cfg _ _⟩
  exact hn

theorem step_ok (cfg : Conf) (env : Env) (s : State) (line : Bytes) (h : PlainL s.cwd) :
    StepOK cfg env (step cfg env s line) := by
  have hn := ok_nothing cfg env s h s.shell
  unfold step
  simp only
  split
  · exact hn
  split
  · exact hn
  split
  · -- QUIT
    refine ⟨?_, ok_none cfg _ _⟩
    split
    · exact h
    · exact h
  split
  · -- unauth
    split
    · split
      · split
        · exact hn
        · exact ⟨h, ok_none cfg _ _⟩
      · exact hn
    · exact hn
  · -- inauth
    split
    · split
      · exact hn
      · split
        · exact ⟨plainL_nil, ok_none cfg _ _⟩
        · exact ⟨h, ok_none cfg _ _⟩
    · exact hn
  · exact authedCmd_ok cfg env s _ _ h
  · -- renaming
    split
    · split
      · exact hn
      · cases h1 : toSegments s.cwd s.fromName with
        | none => exact ⟨h, ok_none cfg _ _⟩
        | some a =>
          simp only
          cases h2 : toSegments s.cwd _ with
          | none => exact ⟨h, ok_none cfg _ _⟩
          | some b =>
            exact ⟨h, ok_rename cfg _ _ a b (toSegments_plainL _ _ a h h1) (toSegments_plainL _ _ b h h2)⟩
    · exact hn

theorem run_cons (cfg : Conf) (s : State) (env : Env) (line : Bytes) (rest : List (Env × Bytes)) :
    run cfg s ((env, line) :: rest) = step cfg env s line :: run cfg (step cfg env s line).1 rest := rfl

/-- every record of a session: the environment of that step, and `StepOK` -/
theorem run_ok (cfg : Conf) (inputs : List (Env × Bytes)) : ∀ (s : State), PlainL s.cwd →
    ∀ r ∈ run cfg s inputs, ∃ env, (∃ line, (env, line) ∈ inputs) ∧ StepOK cfg env r := by
  induction inputs with
  | nil => intro s _ r hr; simp [run] at hr
  | cons x rest ih =>
    intro s hs r hr
    obtain ⟨env, line⟩ := x
    rw [run_cons] at hr
    simp only [List.mem_cons] at hr
    have hstep := step_ok cfg env s line hs
    rcases hr with rfl | hr
    · exact ⟨env, ⟨line, by simp⟩, hstep⟩
    · obtain ⟨env', ⟨line', hm⟩, hok⟩ := ih _ hstep.1 r hr
      exact ⟨env', ⟨line', by simp [hm]⟩, hok⟩

end TwistedProps.C54
