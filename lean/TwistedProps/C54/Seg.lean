import TwistedModel.Fs.Ftp
/-!
Lemmas for C54 about `toSegments`: the loop invariant "every segment is plain".
-/
namespace TwistedProps.C54
open Twisted.Fs.Path Twisted.Fs.Ftp

/-- a plain path segment: a real name — not empty, not `.`, not `..`, no `/`, no NUL -/
def Plain (s : Seg) : Prop := s ≠ [] ∧ s ≠ [dot] ∧ s ≠ [dot, dot] ∧ slash ∉ s ∧ (0 : UInt8) ∉ s

instance (s : Seg) : Decidable (Plain s) := by unfold Plain; infer_instance

def PlainL (segs : List Seg) : Prop := ∀ s ∈ segs, Plain s

instance (segs : List Seg) : Decidable (PlainL segs) := by unfold PlainL; infer_instance

theorem plainL_nil : PlainL [] := by intro s hs; simp at hs

theorem plainL_dropLast (segs : List Seg) (h : PlainL segs) : PlainL segs.dropLast :=
  fun s hs => h s (List.dropLast_subset _ hs)

theorem plainL_snoc (segs : List Seg) (s : Seg) (h : PlainL segs) (hs : Plain s) : PlainL (segs ++ [s]) := by
  intro x hx
  simp only [List.mem_append, List.mem_singleton] at hx
  rcases hx with hx | rfl
  · exact h x hx
  · exact hs

theorem segStep_plain (segs segs' : List Seg) (s : Seg) (h : PlainL segs)
    (e : segStep segs s = some segs') : PlainL segs' := by
  unfold segStep at e
  by_cases h1 : s = [dot] ∨ s = []
  · rw [if_pos h1] at e
    simp only [Option.some.injEq] at e
    subst e; exact h
  · rw [if_neg h1] at e
    by_cases h2 : s = [dot, dot]
    · rw [if_pos h2] at e
      by_cases h3 : segs ≠ []
      · rw [if_pos h3] at e
        simp only [Option.some.injEq] at e
        subst e; exact plainL_dropLast segs h
      · rw [if_neg h3] at e; simp at e
    · rw [if_neg h2] at e
      by_cases h3 : (0 : UInt8) ∈ s ∨ slash ∈ s
      · rw [if_pos h3] at e; simp at e
      · rw [if_neg h3] at e
        simp only [Option.some.injEq] at e
        subst e
        apply plainL_snoc segs s h
        exact ⟨fun x => h1 (Or.inr x), fun x => h1 (Or.inl x), h2, fun x => h3 (Or.inr x), fun x => h3 (Or.inl x)⟩

theorem segLoop_cons (segs : List Seg) (s : Seg) (rest : List Seg) :
    segLoop segs (s :: rest) = match segStep segs s with
      | none => none
      | some segs' => segLoop segs' rest := by
  rfl

theorem segLoop_plain (pieces : List Seg) : ∀ (segs segs' : List Seg), PlainL segs →
    segLoop segs pieces = some segs' → PlainL segs' := by
  induction pieces with
  | nil =>
    intro segs segs' h e
    simp only [segLoop, Option.some.injEq] at e
    subst e; exact h
  | cons s rest ih =>
    intro segs segs' h e
    rw [segLoop_cons] at e
    cases hs : segStep segs s with
    | none => rw [hs] at e; simp at e
    | some mid =>
      rw [hs] at e
      exact ih mid segs' (segStep_plain segs mid s h hs) e

theorem segLoop_append (a b : List Seg) : ∀ segs, segLoop segs (a ++ b) = match segLoop segs a with
    | none => none
    | some m => segLoop m b := by
  induction a with
  | nil => intro segs; simp [segLoop]
  | cons x xs ih =>
    intro segs
    simp only [List.cons_append, segLoop_cons]
    cases segStep segs x with
    | none => rfl
    | some m => exact ih m

theorem toSegments_plainL (cwd : List Seg) (path : Bytes) (segs : List Seg) (h : PlainL cwd)
    (e : toSegments cwd path = some segs) : PlainL segs := by
  unfold toSegments at e
  by_cases ha : path.head? = some slash
  · rw [if_pos ha] at e
    exact segLoop_plain _ [] segs plainL_nil e
  · rw [if_neg ha] at e
    exact segLoop_plain _ cwd segs h e

/-- the stack depth: `..` on an empty stack is refused, so the loop never leaves the root -/
theorem segStep_dotdot_root : segStep [] [dot, dot] = none := by decide

/-- an absolute path does not look at the working directory -/
theorem toSegments_abs (cwd cwd' : List Seg) (path : Bytes) (h : path.head? = some slash) :
    toSegments cwd path = toSegments cwd' path := by
  simp [toSegments, h]

end TwistedProps.C54
