import TwistedModel.Fs.Ftp
import Generated.Ftp
/-!
C54 — `ftp.toSegments`, regenerated from `src/twisted/protocols/ftp.py` by `harness/py2lean.py` on every
run (`lean/Generated/Ftp.lean`), proved equal to the hand model's `toSegments` (`TwistedModel/Fs/Ftp.lean`).

The translator turns the `for s in path.split("/")` loop into `List.foldlM` (in `Option`, `none` = the
`raise InvalidPath`) of the generated loop body `toSegmentsStep`; `path.split("/")` is the translator's fixed
`pySplit 47`.  Here: `pySplit 47 = splitSlash`, `toSegmentsStep = segStep`, the fold = `segLoop`, and the
initialisation `path.startswith("/")` = the model's `path.head? = some slash`.  Text is `List UInt8`
(latin-1 code points: the command channel's decoding), as in the model.
-/
namespace TwistedProps.C54
open Twisted.Fs.Path Twisted.Fs.Ftp

/-- generated `str.split("/")` = the model's `splitSlash` -/
theorem gen_pySplit_eq (p : Bytes) : Generated.Ftp.pySplit 47 p = splitSlash p := by
  induction p with
  | nil => rfl
  | cons c cs ih =>
    simp only [Generated.Ftp.pySplit, splitSlash, split1, slash] at *
    by_cases h : c = 47
    · simp [h, ih]
    · simp [h, ih]

/-- generated loop body = the model's `segStep` (same case analysis, same order of tests) -/
theorem gen_segStep_eq (segs : List Seg) (s : Seg) : Generated.Ftp.toSegmentsStep segs s = segStep segs s := by
  unfold Generated.Ftp.toSegmentsStep segStep
  by_cases h1 : (s = [46] ∨ s = [])
  · have h1' : s = [dot] ∨ s = [] := h1
    rw [if_pos h1, if_pos h1']
  · have h1' : ¬ (s = [dot] ∨ s = []) := h1
    rw [if_neg h1, if_neg h1']
    by_cases h2 : s = [46, 46]
    · have h2' : s = [dot, dot] := h2
      rw [if_pos h2, if_pos h2']
    · have h2' : ¬ s = [dot, dot] := h2
      rw [if_neg h2, if_neg h2']
      by_cases h4 : ((0 : UInt8) ∈ s ∨ (47 : UInt8) ∈ s)
      · have h4' : (0 : UInt8) ∈ s ∨ slash ∈ s := h4
        rw [if_pos h4, if_pos h4']
      · have h4' : ¬ ((0 : UInt8) ∈ s ∨ slash ∈ s) := h4
        rw [if_neg h4, if_neg h4']

/-- the fold of the generated step = the model's explicit loop -/
theorem gen_fold_eq_segLoop (segs : List Seg) (l : List Seg) :
    List.foldlM Generated.Ftp.toSegmentsStep segs l = segLoop segs l := by
  induction l generalizing segs with
  | nil => rfl
  | cons s rest ih =>
    simp only [List.foldlM_cons, segLoop, gen_segStep_eq]
    cases segStep segs s with
    | none => rfl
    | some segs' => exact ih segs'

/-- generated `toSegments` = the model's, for every working directory and path -/
theorem gen_toSegments_eq (cwd : List Seg) (path : Bytes) :
    Generated.Ftp.toSegments cwd path = toSegments cwd path := by
  simp only [Generated.Ftp.toSegments, toSegments, gen_fold_eq_segLoop, gen_pySplit_eq]
  cases path with
  | nil => rfl
  | cons c cs =>
    by_cases h : c = 47
    · simp [h, slash]
    · have h' : ¬ (47 : UInt8) = c := fun e => h e.symm
      simp [h, h', slash]

end TwistedProps.C54
