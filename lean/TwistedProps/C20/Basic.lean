import TwistedModel.Http.Response
import TwistedModel.Http.Rfc9112
/-!
C20 lemmas, part 1: byte-level facts — `sanitize` / `fieldContent` never let a line break or
NUL/VT/FF through; header names: `canonical` keeps a token a token, keeps its lower-case
reading, and depends only on it.
-/
namespace TwistedProps.C20
open Twisted.Http.Response
open Twisted.Http (Rfc9112.okByte Rfc9112.isToken Rfc9112.isTchar)

theorem forall_uint8 (P : UInt8 → Prop) (h : ∀ i : Fin 256, P (UInt8.ofNat i.val)) : ∀ c, P c := by
  intro c
  have := h ⟨c.toNat, UInt8.toNat_lt c⟩
  simpa using this

/-! ### sanitize -/

theorem sanAux_noBreak (b : Bytes) : ∀ (p q : Bool), ∀ c ∈ sanAux p q b, c ≠ CR ∧ c ≠ LF := by
  induction b with
  | nil => intro p q c hc; simp [sanAux] at hc
  | cons x rest ih =>
    intro p q c hc
    unfold sanAux at hc
    split at hc
    · exact ih _ _ c hc
    · split at hc
      · rcases List.mem_append.mp hc with h | h
        · cases p <;> simp at h; subst h; decide
        · exact ih _ _ c h
      · split at hc
        · rcases List.mem_append.mp hc with h | h
          · cases p <;> simp at h; subst h; decide
          · exact ih _ _ c h
        · rename_i h1 h2 h3
          rcases List.mem_append.mp hc with h | h
          · cases p <;> simp at h; subst h; decide
          · rcases List.mem_cons.mp h with h | h
            · subst h; exact ⟨h2, h3⟩
            · exact ih _ _ c h

/-- the stored form of a value contains no CR and no LF, whatever the value -/
theorem sanitize_noBreak (b : Bytes) : ∀ c ∈ sanitize b, c ≠ CR ∧ c ≠ LF := sanAux_noBreak b false false

theorem sanAux_id (b : Bytes) (h : ∀ c ∈ b, c ≠ CR ∧ c ≠ LF) : sanAux false false b = b := by
  induction b with
  | nil => simp [sanAux]
  | cons x rest ih =>
    have hx := h x (by simp)
    have := ih (fun c hc => h c (by simp [hc]))
    unfold sanAux
    simp [hx.1, hx.2, this]

/-- a value without line breaks is stored as it is -/
theorem sanitize_id (b : Bytes) (h : ∀ c ∈ b, c ≠ CR ∧ c ≠ LF) : sanitize b = b := sanAux_id b h

theorem okByte_iff : ∀ c : UInt8, Rfc9112.okByte c = true ↔ (c ≠ CR ∧ c ≠ LF ∧ isCtlSpace c = false) := by
  apply forall_uint8; decide +kernel

/-- what is written for a reason phrase or value contains only bytes every reader accepts -/
theorem fieldContent_ok (b : Bytes) : ∀ c ∈ fieldContent b, Rfc9112.okByte c = true := by
  intro c hc
  unfold fieldContent at hc
  obtain ⟨x, hx, rfl⟩ := List.mem_map.mp hc
  have hb := sanitize_noBreak b x hx
  by_cases hs : isCtlSpace x = true
  · simp [hs]; decide
  · simp only [hs]
    exact (okByte_iff x).2 ⟨hb.1, hb.2, by simpa using hs⟩

theorem fieldContent_all_ok (b : Bytes) : (fieldContent b).all Rfc9112.okByte = true :=
  List.all_eq_true.2 (fieldContent_ok b)

theorem okByte_ne_LF : ∀ c : UInt8, Rfc9112.okByte c = true → c ≠ 10 := by
  apply forall_uint8; decide +kernel

theorem fieldContent_noLF (b : Bytes) : (10 : UInt8) ∉ fieldContent b :=
  fun h => okByte_ne_LF _ (fieldContent_ok b _ h) rfl

/-- a value without line breaks and without NUL/VT/FF is written as it is -/
theorem fieldContent_id (b : Bytes) (h : ∀ c ∈ b, Rfc9112.okByte c = true) : fieldContent b = b := by
  have h1 : sanitize b = b := sanitize_id b fun c hc => by
    have := (okByte_iff c).1 (h c hc); exact ⟨this.1, this.2.1⟩
  unfold fieldContent
  rw [h1]
  conv => rhs; rw [← List.map_id b]
  apply List.map_congr_left
  intro c hc
  have := ((okByte_iff c).1 (h c hc)).2.2
  simp [this]

/-! ### names -/

theorem isTchar_same : Rfc9112.isTchar = isTchar := rfl
theorem isToken_same : Rfc9112.isToken = isToken := rfl
theorem lower_same : Twisted.Http.Rfc9112.lower = lower := rfl

theorem tchar_upper : ∀ c : UInt8, isTchar c = true → isTchar (upper c) = true := by
  apply forall_uint8; decide +kernel
theorem tchar_lower : ∀ c : UInt8, isTchar c = true → isTchar (lower c) = true := by
  apply forall_uint8; decide +kernel
theorem tchar_ne_colon : ∀ c : UInt8, isTchar c = true → c ≠ 58 := by
  apply forall_uint8; decide +kernel
theorem tchar_ne_LF : ∀ c : UInt8, isTchar c = true → c ≠ 10 := by
  apply forall_uint8; decide +kernel
theorem lower_upper : ∀ c : UInt8, lower (upper c) = lower c := by
  apply forall_uint8; decide +kernel
theorem lower_lower : ∀ c : UInt8, lower (lower c) = lower c := by
  apply forall_uint8; decide +kernel
theorem upper_lower : ∀ c : UInt8, upper (lower c) = upper c := by
  apply forall_uint8; decide +kernel
theorem lower_dash : ∀ c : UInt8, (lower c = 45) = (c = 45) := by
  apply forall_uint8; decide +kernel

theorem capAux_tchar (b : Bytes) : ∀ s, b.all isTchar = true → (capAux s b).all isTchar = true := by
  induction b with
  | nil => intro s _; simp [capAux]
  | cons c rest ih =>
    intro s h
    simp only [List.all_cons, Bool.and_eq_true] at h
    unfold capAux
    split
    · simp [h.1, ih true h.2]
    · cases s <;> simp [tchar_upper c h.1, tchar_lower c h.1, ih false h.2]

theorem capAux_ne_nil (b : Bytes) (s : Bool) (h : b ≠ []) : capAux s b ≠ [] := by
  cases b with
  | nil => exact absurd rfl h
  | cons c rest => unfold capAux; split <;> simp

theorem capAux_lower (b : Bytes) : ∀ s, (capAux s b).map lower = b.map lower := by
  induction b with
  | nil => intro s; simp [capAux]
  | cons c rest ih =>
    intro s
    unfold capAux
    split
    · simp [ih true]
    · cases s <;> simp [lower_upper, lower_lower, ih false]

theorem capAux_of_lower (b : Bytes) : ∀ s, capAux s (b.map lower) = capAux s b := by
  induction b with
  | nil => intro s; simp [capAux]
  | cons c rest ih =>
    intro s
    simp only [List.map_cons]
    unfold capAux
    simp only [lower_dash, upper_lower, lower_lower, ih]
    by_cases hc : c = 45
    · subst hc; simp; decide
    · simp [hc]

theorem caseMappings_token : ∀ p ∈ caseMappings, isToken p.2 = true ∧ p.2.map lower = p.1.map lower := by
  decide

theorem canonical_cases (n : Bytes) :
    canonical n = capAux true n ∨ ∃ p ∈ caseMappings, p.1 = capAux true n ∧ canonical n = p.2 := by
  unfold canonical
  simp only
  split
  · rename_i p hp
    right
    refine ⟨p, List.mem_of_find?_eq_some hp, ?_, rfl⟩
    have := List.find?_some hp
    simpa using this
  · left; rfl

/-- the canonical form of a token is a token -/
theorem canonical_token (n : Bytes) (h : isToken n = true) : isToken (canonical n) = true := by
  unfold isToken at h
  simp only [Bool.and_eq_true, Bool.not_eq_true', List.isEmpty_eq_false_iff] at h
  rcases canonical_cases n with h1 | ⟨p, hp, _, h2⟩
  · rw [h1]; unfold isToken
    simp [capAux_tchar n true h.1, capAux_ne_nil n true h.2]
  · rw [h2]; exact (caseMappings_token p hp).1

/-- canonicalisation changes letter case only -/
theorem canonical_lower (n : Bytes) : (canonical n).map lower = n.map lower := by
  rcases canonical_cases n with h1 | ⟨p, hp, h3, h2⟩
  · rw [h1, capAux_lower]
  · rw [h2, (caseMappings_token p hp).2, h3, capAux_lower]

theorem canonical_of_lower (n : Bytes) : canonical (n.map lower) = canonical n := by
  unfold canonical; simp only [capAux_of_lower]

/-- two canonical names that read the same in lower case are the same name -/
theorem canonical_inj (a b : Bytes) (h : (canonical a).map lower = (canonical b).map lower) :
    canonical a = canonical b := by
  rw [canonical_lower, canonical_lower] at h
  rw [← canonical_of_lower a, ← canonical_of_lower b, h]

end TwistedProps.C20
