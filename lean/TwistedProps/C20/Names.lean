import TwistedProps.C20.Final
/-!
C20 lemmas, part 6: header names.  `_istoken` is "not empty and every byte a tchar" with nothing
positional about it, so a token with one foreign byte at its end (the `b"Name\n"` a regular
expression ending in `$` accepts), at its start or inside is refused; this holds for names given
as `bytes` and as `str`, through every call that names a header; refused calls leave no trace in
any history.
-/
namespace TwistedProps.C20
open Twisted.Http.Response

/-! ### `_istoken`, byte by byte -/

/-- `_istoken` characterised: not empty and every byte a tchar — nothing positional (no "except a final LF") -/
theorem isToken_iff (x : Bytes) : isToken x = true ↔ x ≠ [] ∧ ∀ c ∈ x, isTchar c = true := by
  unfold isToken
  simp only [Bool.and_eq_true, List.all_eq_true, Bool.not_eq_true', List.isEmpty_eq_false_iff]
  exact ⟨fun h => ⟨h.2, h.1⟩, fun h => ⟨h.2, h.1⟩⟩

/-- a tchar is a visible ASCII character: no control byte (LF, CR, NUL, HTAB, VT, FF, FS…), no SP, no DEL,
    nothing above 0x7e (NEL, NBSP, Latin-1 letters and digits), and none of the delimiters -/
theorem tchar_visible : ∀ c : UInt8, isTchar c = true →
    33 ≤ c ∧ c ≤ 126 ∧ c ≠ 58 ∧ c ≠ 34 ∧ c ≠ 40 ∧ c ≠ 41 ∧ c ≠ 44 ∧ c ≠ 47 ∧ c ≠ 59 ∧ c ≠ 60 ∧ c ≠ 61 ∧ c ≠ 62 ∧
    c ≠ 63 ∧ c ≠ 64 ∧ c ≠ 91 ∧ c ≠ 92 ∧ c ≠ 93 ∧ c ≠ 123 ∧ c ≠ 125 := by
  apply forall_uint8; decide +kernel

/-- one foreign byte — at the end, at the start or inside — and the name is no token -/
theorem foreign_byte_not_token (a b : Bytes) (c : UInt8) (hc : isTchar c = false) : isToken (a ++ c :: b) = false := by
  cases h : isToken (a ++ c :: b) with
  | false => rfl
  | true =>
    have := ((isToken_iff _).1 h).2 c (by simp)
    rw [hc] at this; cases this

/-- the class the regular expression `[tchar]+$` lets through: a token followed by one LF -/
theorem token_then_LF_not_token (t : Bytes) : isToken (t ++ [10]) = false :=
  foreign_byte_not_token t [] 10 (by decide)

theorem token_then_break_not_token (t u : Bytes) (c : UInt8) (hc : c = 10 ∨ c = 13) : isToken (t ++ c :: u) = false :=
  foreign_byte_not_token t u c (by rcases hc with rfl | rfl <;> decide)

/-! ### names as the calls receive them: `bytes` or `str` -/

/-- `name.encode("iso-8859-1") if isinstance(name, str) else name` -/
def nameBytes : Str → Option Bytes
  | .b x => some x
  | .t cps => latin1 cps

theorem encodeName_eq (name : Str) : encodeName name =
    match nameBytes name with
    | none => .error .unicodeEncode
    | some x => if isToken x then .ok (canonical x) else .error .invalidHeaderName := by
  cases name <;> rfl

theorem latin1_some (cps : List Nat) (x : Bytes) (h : latin1 cps = some x) : x = cps.map UInt8.ofNat := by
  induction cps generalizing x with
  | nil => simp [latin1] at h; subst h; rfl
  | cons c cps ih =>
    simp only [latin1] at h
    split at h
    · cases hr : latin1 cps with
      | none => simp [hr] at h
      | some y => simp [hr] at h; subst h; simp [ih y hr]
    · cases h

/-- the header-naming calls and the name they are given -/
def namedBy : Op → Option Str
  | .setHeader n _ => some n
  | .addHeader n _ => some n
  | .setRaw n _ => some n
  | .remove n => some n
  | _ => none

/-- the name is accepted exactly when it is (Latin-1 text or bytes reading as) a token -/
theorem encodeName_ok_iff (name : Str) (n : Bytes) :
    encodeName name = .ok n ↔ ∃ x, nameBytes name = some x ∧ isToken x = true ∧ n = canonical x := by
  rw [encodeName_eq]
  cases h : nameBytes name with
  | none => simp
  | some x =>
    by_cases ht : isToken x = true
    · simp only [ht, if_true, Option.some.injEq]
      constructor
      · intro e; cases e; exact ⟨x, rfl, ht, rfl⟩
      · rintro ⟨y, rfl, _, rfl⟩; rfl
    · have hf : isToken x = false := by simpa using ht
      simp only [hf, Bool.false_eq_true, if_false, Option.some.injEq]
      constructor
      · intro e; cases e
      · rintro ⟨y, rfl, hy, _⟩; rw [hf] at hy; cases hy

theorem encodeName_error_iff (name : Str) :
    (∃ e, encodeName name = .error e) ↔ ∀ x, nameBytes name = some x → isToken x = false := by
  rw [encodeName_eq]
  cases h : nameBytes name with
  | none => simp
  | some x =>
    by_cases ht : isToken x = true
    · simp [ht]
    · have hf : isToken x = false := by simpa using ht
      simp [hf]

/-- every call that names a header with a name that does not encode raises, and changes nothing -/
theorem step_bad_name (s : Req) (op : Op) (name : Str) (hop : namedBy op = some name) (e : Err)
    (he : encodeName name = .error e) : step s op = (s, some e) := by
  cases op <;> simp only [namedBy, Option.some.injEq, reduceCtorEq] at hop <;> subst hop <;> simp [step, he]

theorem latin1_lt (cps : List Nat) (x : Bytes) (h : latin1 cps = some x) : ∀ c ∈ cps, c < 256 := by
  induction cps generalizing x with
  | nil => intro c hc; cases hc
  | cons a cps ih =>
    simp only [latin1] at h
    split at h
    · rename_i ha
      cases hr : latin1 cps with
      | none => simp [hr] at h
      | some y =>
        intro c hc
        rcases List.mem_cons.1 hc with rfl | hc
        · exact ha
        · exact ih y hr c hc
    · cases h

/-- text names: one code point that is not a Latin-1 tchar — LF, CR, NEL, U+2028, a letter outside
    ASCII, a code point ≥ 256 whose low byte would be a tchar — anywhere in the name, and the name
    is refused (`InvalidHeaderName` or `UnicodeEncodeError`, both `ValueError`s) -/
theorem text_foreign_refused (a b : List Nat) (c : Nat) (hc : ¬ (c < 256 ∧ isTchar (UInt8.ofNat c) = true)) :
    ∃ e, encodeName (.t (a ++ c :: b)) = .error e := by
  rw [encodeName_error_iff]
  intro x hx
  simp only [nameBytes] at hx
  have hlt := latin1_lt _ x hx c (by simp)
  have := latin1_some _ x hx
  subst this
  simp only [List.map_append, List.map_cons]
  apply foreign_byte_not_token
  cases h : isTchar (UInt8.ofNat c) with
  | false => rfl
  | true => exact absurd ⟨hlt, h⟩ hc

theorem text_token_then_LF_refused (cps : List Nat) : ∃ e, encodeName (.t (cps ++ [10])) = .error e :=
  text_foreign_refused cps [] 10 (by decide)

/-! ### histories -/

/-- the call names a header with a name that is refused -/
def badName (op : Op) : Bool :=
  match namedBy op with
  | some n => (match encodeName n with | .error _ => true | .ok _ => false)
  | none => false

theorem step_badName (s : Req) (op : Op) (h : badName op = true) : ∃ e, step s op = (s, some e) := by
  unfold badName at h
  cases hn : namedBy op with
  | none => simp [hn] at h
  | some n =>
    cases he : encodeName n with
    | ok x => simp [hn, he] at h
    | error e => exact ⟨e, step_bad_name s op n hn e he⟩

theorem runFrom_filter_bad (ops : List Op) : ∀ (r : Req) (i j : Nat),
    (runFrom r i ops).1 = (runFrom r j (ops.filter fun op => !badName op)).1 := by
  induction ops with
  | nil => intro r i j; rfl
  | cons op ops ih =>
    intro r i j
    rw [runFrom_cons_fst]
    by_cases hb : badName op = true
    · obtain ⟨e, he⟩ := step_badName r op hb
      rw [he, List.filter_cons_of_neg (by simp [hb])]
      exact ih r (i + 1) j
    · rw [List.filter_cons_of_pos (by simpa using hb), runFrom_cons_fst]
      exact ih _ (i + 1) (j + 1)

theorem runFrom_reports_bad (ops : List Op) : ∀ (r : Req) (j i : Nat) (op : Op), ops[i]? = some op → badName op = true →
    ∃ e, (j + i, e) ∈ (runFrom r j ops).2 := by
  induction ops with
  | nil => intro r j i op h; simp at h
  | cons o ops ih =>
    intro r j i op h hb
    cases i with
    | zero =>
      simp only [List.getElem?_cons_zero, Option.some.injEq] at h
      subst h
      obtain ⟨e, he⟩ := step_badName r o hb
      refine ⟨e, ?_⟩
      simp [runFrom, he]
    | succ i =>
      simp only [List.getElem?_cons_succ] at h
      obtain ⟨e, he⟩ := ih (step r o).1 (j + 1) i op h hb
      refine ⟨e, ?_⟩
      have : j + (i + 1) = j + 1 + i := by omega
      rw [this]
      simp only [runFrom]
      cases (step r o).2 with
      | none => exact he
      | some e' => exact List.mem_cons_of_mem _ he

/-! ### the head, byte by byte -/

/-- no CR and no LF -/
def Clean (l : Bytes) : Prop := ∀ c ∈ l, c ≠ 10 ∧ c ≠ 13

theorem clean_append (a b : Bytes) (ha : Clean a) (hb : Clean b) : Clean (a ++ b) := by
  intro c hc
  rcases List.mem_append.1 hc with h | h
  · exact ha c h
  · exact hb c h

theorem clean_fieldContent (v : Bytes) : Clean (fieldContent v) := by
  intro c hc
  have := (okByte_iff c).1 (fieldContent_ok v c hc)
  exact ⟨this.2.1, this.1⟩

theorem clean_token (n : Bytes) (hn : isToken n = true) : Clean n := by
  intro c hc
  have := tchar_visible c (((isToken_iff n).1 hn).2 c hc)
  have h33 := this.1
  constructor
  · intro e; subst e; exact absurd h33 (by decide)
  · intro e; subst e; exact absurd h33 (by decide)

theorem clean_fieldLine (n v : Bytes) (hn : isToken n = true) : Clean (n ++ [58, SP] ++ fieldContent v) :=
  clean_append _ _ (clean_append _ _ (clean_token n hn) (by intro c hc; simp [SP] at hc; rcases hc with rfl | rfl <;> decide))
    (clean_fieldContent v)

theorem clean_fieldLineList (d : Dict) (hd : ∀ p ∈ d, CanonKey p.1) : ∀ l ∈ fieldLineList d, Clean l := by
  intro l hl
  simp only [fieldLineList, List.mem_flatMap, List.mem_map] at hl
  obtain ⟨p, hp, v, _, rfl⟩ := hl
  exact clean_fieldLine p.1 v (canonKey_token _ (hd p hp))

theorem digit_clean : ∀ d : Fin 10, UInt8.ofNat (48 + d.val) ≠ 10 ∧ UInt8.ofNat (48 + d.val) ≠ 13 := by decide

theorem clean_statusLine (p11 : Bool) (code : Nat) (reason : Bytes) (h1 : 100 ≤ code) (h2 : code ≤ 999) :
    Clean ((if p11 then bs "HTTP/1.1" else bs "HTTP/1.0") ++ [SP] ++ decimal code ++ [SP] ++ fieldContent reason) := by
  have sp : Clean [SP] := by intro c hc; simp [SP] at hc; subst hc; decide
  refine clean_append _ _ (clean_append _ _ (clean_append _ _ (clean_append _ _ ?_ sp) ?_) sp) (clean_fieldContent reason)
  · cases p11 <;> (intro c hc; revert c; decide)
  · rw [decimal3 code h1 h2]
    intro c hc
    simp only [List.mem_cons, List.not_mem_nil, or_false] at hc
    rcases hc with rfl | rfl | rfl
    · exact digit_clean ⟨code / 100, by omega⟩
    · exact digit_clean ⟨code / 10 % 10, by omega⟩
    · exact digit_clean ⟨code % 10, by omega⟩

theorem token_map_lower (k : Bytes) (h : isToken k = true) : isToken (k.map lower) = true := by
  rw [isToken_iff] at h ⊢
  refine ⟨by simpa using h.1, ?_⟩
  intro c hc
  obtain ⟨x, hx, rfl⟩ := List.mem_map.1 hc
  exact tchar_lower x (h.2 x hx)

theorem encValues_bytes (vs : List Bytes) : encValues (vs.map Str.b) = some vs := by
  induction vs with
  | nil => rfl
  | cons v vs ih => simp [encValues, encValue, ih]

theorem fieldLineList_length (d : Dict) : (fieldLineList d).length = (wireFields d).length := by
  induction d with
  | nil => rfl
  | cons p d ih => simp [fieldLineList, wireFields, List.flatMap_cons] at ih ⊢; try omega

end TwistedProps.C20
