import TwistedProps.C20.Emit
/-!
C20 lemmas, part 4: histories — set-up calls keep a request fresh (nothing written, dict well
formed) whatever their arguments; writes and finish append exactly the head and the body encoding.
-/
namespace TwistedProps.C20
open Twisted.Http.Response
open Twisted.Http.Chunked (toChunk)

theorem canon_of_encodeName (name : Str) (n : Bytes) (h : encodeName name = .ok n) : CanonKey n := by
  unfold encodeName at h
  split at h
  · cases h
  · rename_i x _
    by_cases ht : isToken x = true
    · simp only [ht, if_true] at h
      cases h
      exact ⟨x, ht, rfl⟩
    · simp only [ht] at h
      cases h

/-- a refused name is refused because it is not a token (or not Latin-1 text) -/
theorem encodeName_refuses (x : Bytes) (h : isToken x = false) : encodeName (.b x) = .error .invalidHeaderName := by
  simp [encodeName, h]

theorem step_setup (s : Req) (op : Op) (hop : isSetup op = true) (hs : Fresh s) (p11 head cc : Bool)
    (hc : Ctx s p11 head cc) : Fresh (step s op).1 ∧ Ctx (step s op).1 p11 head cc := by
  cases op with
  | write d => simp [isSetup] at hop
  | finish => simp [isSetup] at hop
  | setCode code msg => exact ⟨⟨hs.1, hs.2, hs.3, hs.4, hs.5, hs.6, hs.7⟩, hc⟩
  | setHeader name value =>
    simp only [step]
    cases hn : encodeName name with
    | error e => exact ⟨hs, hc⟩
    | ok n =>
      cases hv : encValue value with
      | none => exact ⟨hs, hc⟩
      | some v =>
        exact ⟨⟨hs.1, hs.2, hs.3, hs.4, hs.5, hs.6, dset_ok _ _ _ hs.7 (canon_of_encodeName _ _ hn)⟩, hc⟩
  | addHeader name value =>
    simp only [step]
    cases hn : encodeName name with
    | error e => exact ⟨hs, hc⟩
    | ok n =>
      cases hv : encValue value with
      | none =>
        exact ⟨⟨hs.1, hs.2, hs.3, hs.4, hs.5, hs.6, dsetdefault_ok _ _ hs.7 (canon_of_encodeName _ _ hn)⟩, hc⟩
      | some v =>
        exact ⟨⟨hs.1, hs.2, hs.3, hs.4, hs.5, hs.6, dappend_ok _ _ _ hs.7 (canon_of_encodeName _ _ hn)⟩, hc⟩
  | setRaw name values =>
    simp only [step]
    cases hn : encodeName name with
    | error e => exact ⟨hs, hc⟩
    | ok n =>
      cases hv : encValues values with
      | none => exact ⟨hs, hc⟩
      | some vs =>
        exact ⟨⟨hs.1, hs.2, hs.3, hs.4, hs.5, hs.6, dset_ok _ _ _ hs.7 (canon_of_encodeName _ _ hn)⟩, hc⟩
  | remove name =>
    simp only [step]
    cases hn : encodeName name with
    | error e => exact ⟨hs, hc⟩
    | ok n => exact ⟨⟨hs.1, hs.2, hs.3, hs.4, hs.5, hs.6, dremove_ok _ _ hs.7⟩, hc⟩
  | addCookie k v a =>
    simp only [step]
    cases hk : cookieBytes k v a with
    | error e => exact ⟨hs, hc⟩
    | ok c => exact ⟨⟨hs.1, hs.2, hs.3, hs.4, hs.5, hs.6, hs.7⟩, hc⟩

theorem runFrom_cons_fst (r : Req) (i : Nat) (op : Op) (ops : List Op) :
    (runFrom r i (op :: ops)).1 = (runFrom (step r op).1 (i + 1) ops).1 := rfl

theorem runFrom_append_fst (a b : List Op) : ∀ (r : Req) (i : Nat),
    (runFrom r i (a ++ b)).1 = (runFrom (runFrom r i a).1 (i + a.length) b).1 := by
  induction a with
  | nil => intro r i; simp [runFrom]
  | cons op a ih =>
    intro r i
    simp only [List.cons_append, runFrom_cons_fst, ih, List.length_cons]
    congr 2; omega

theorem runFrom_setup (ops : List Op) (hops : ∀ op ∈ ops, isSetup op = true) (p11 head cc : Bool) :
    ∀ (s : Req) (i : Nat), Fresh s → Ctx s p11 head cc →
      Fresh (runFrom s i ops).1 ∧ Ctx (runFrom s i ops).1 p11 head cc := by
  induction ops with
  | nil => intro s i hs hc; exact ⟨hs, hc⟩
  | cons op ops ih =>
    intro s i hs hc
    rw [runFrom_cons_fst]
    obtain ⟨h1, h2⟩ := step_setup s op (hops op (by simp)) hs p11 head cc hc
    exact ih (fun o ho => hops o (by simp [ho])) _ _ h1 h2

theorem init_fresh (p11 head cc : Bool) : Fresh (init p11 head cc) ∧ Ctx (init p11 head cc) p11 head cc := by
  refine ⟨⟨rfl, rfl, rfl, rfl, rfl, rfl, ?_⟩, rfl, rfl, rfl⟩
  simp only [init]
  split
  · refine ⟨?_, by simp⟩
    intro p hp
    simp only [List.mem_singleton] at hp
    subst hp
    exact ⟨bs "Connection", by decide, by decide⟩
  · exact ⟨by simp, by simp⟩

/-! ### writes and finish -/

def writeAll (r : Req) (ws : List Bytes) : Req := ws.foldl (fun r d => (write r d).1) r

theorem runFrom_writes_finish (ws : List Bytes) : ∀ (r : Req) (i : Nat),
    (runFrom r i (ws.map Op.write ++ [Op.finish])).1 = finish (writeAll r ws) := by
  induction ws with
  | nil => intro r i; rfl
  | cons d ws ih =>
    intro r i
    simp only [List.map_cons, List.cons_append, runFrom_cons_fst, ih]
    rfl

/-- the body encoding: chunks (empty pieces skipped) or the pieces themselves -/
def encBody (chunked : Bool) (ws : List Bytes) : Bytes := if chunked then chunksOf ws else ws.flatten

theorem writeAll_muted (ws : List Bytes) (r : Req) (hm : r.muted = true) : writeAll r ws = r := by
  induction ws with
  | nil => rfl
  | cons d ws ih =>
    simp only [writeAll, List.foldl_cons] at ih ⊢
    have : (write r d).1 = r := by simp [write, hm]
    rw [this]; exact ih

def addOut (r : Req) (b : Bytes) : Req := { r with out := r.out ++ b }

theorem addOut_nil (r : Req) : addOut r [] = r := by cases r; simp [addOut]
theorem addOut_addOut (r : Req) (a b : Bytes) : addOut (addOut r a) b = addOut r (a ++ b) := by
  simp [addOut, List.append_assoc]

theorem write_open (r : Req) (d : Bytes) (h1 : r.started = true) (h2 : r.finished = false) (h3 : r.muted = false) :
    (write r d).1 = addOut r (encBody r.chunked [d]) := by
  cases r with
  | mk p11 hd pers code reason headers cookies started chunked muted finished out closed =>
    simp only at h1 h2 h3
    subst h1 h2 h3
    by_cases hd : d = []
    · subst hd; cases chunked <;> simp [write, encBody, chunksOf, addOut]
    · cases chunked <;> simp [write, encBody, chunksOf, addOut, hd]

theorem writeAll_open (ws : List Bytes) : ∀ (r : Req), r.started = true → r.finished = false → r.muted = false →
    writeAll r ws = addOut r (encBody r.chunked ws) := by
  induction ws with
  | nil => intro r _ _ _; simp [writeAll, encBody, chunksOf, addOut_nil]
  | cons d ws ih =>
    intro r h1 h2 h3
    have hw := write_open r d h1 h2 h3
    have := ih (addOut r (encBody r.chunked [d])) h1 h2 h3
    simp only [writeAll, List.foldl_cons] at this ⊢
    rw [hw, this, addOut_addOut]
    congr 1
    show encBody r.chunked [d] ++ encBody r.chunked ws = encBody r.chunked (d :: ws)
    cases r.chunked <;> simp [encBody, chunksOf]

theorem write_fresh (s : Req) (hs : Fresh s) (d : Bytes) : (write s d).1 = (write (startWriting s) d).1 := by
  have h1 := hs.started; have h2 := hs.finished; have h3 := hs.muted
  by_cases hm : (s.head || noBodyCode s.code) = true
  · simp [write, h1, h2, h3, startWriting, hm]
  · simp [write, h1, h2, h3, startWriting, hm]

theorem finish_fresh (s : Req) (hs : Fresh s) : finish s = finish (startWriting s) := by
  have h1 := hs.started; have h2 := hs.finished; have h3 := hs.muted
  by_cases hm : (s.head || noBodyCode s.code) = true
  · simp [finish, write, h1, h2, h3, startWriting, hm]
  · simp [finish, write, h1, h2, h3, startWriting, hm]

theorem finish_writeAll_fresh (s : Req) (hs : Fresh s) (ws : List Bytes) :
    finish (writeAll s ws) = finish (writeAll (startWriting s) ws) := by
  cases ws with
  | nil => exact finish_fresh s hs
  | cons d ws => simp only [writeAll, List.foldl_cons, write_fresh s hs d]

/-- what the first write decides -/
def willChunk (s : Req) : Bool :=
  s.proto11 && dmissing s.headers (bs "Content-Length") && !s.head && !noBodyCode s.code

def finalHeaders (s : Req) : Dict := (startWriting s).headers

theorem finalHeaders_eq (s : Req) : finalHeaders s =
    (let h1 := if willChunk s then dset s.headers (bs "Transfer-Encoding") [bs "chunked"] else s.headers
     if s.cookies.isEmpty then h1 else dset h1 (bs "Set-Cookie") (s.cookies.map sanitize)) := rfl

theorem finish_started (r : Req) (h1 : r.started = true) (h2 : r.finished = false) :
    (finish r).out = r.out ++ (if r.chunked then [48, 13, 10, 13, 10] else []) ∧ (finish r).closed = !r.persistent := by
  cases r with
  | mk p11 hd pers code reason headers cookies started chunked muted finished out closed =>
    simp only at h1 h2
    subst h1 h2
    cases chunked
    · simp [finish]
    · simp [finish]; decide

theorem sw_started (s : Req) : (startWriting s).started = true := rfl
theorem sw_finished (s : Req) : (startWriting s).finished = s.finished := rfl
theorem sw_muted (s : Req) : (startWriting s).muted = (s.head || noBodyCode s.code) := rfl
theorem sw_chunked (s : Req) : (startWriting s).chunked = willChunk s := rfl
theorem sw_persistent (s : Req) : (startWriting s).persistent = s.persistent := rfl
theorem sw_out (s : Req) : (startWriting s).out = s.out ++ writeHeaders s.proto11 s.code s.reason (finalHeaders s) := rfl

/-- **Shape of everything a response writes**: the head, then the body encoding, then (chunked)
    the last chunk; and the connection is closed exactly when the channel is not persistent. -/
theorem emit_shape (s : Req) (hs : Fresh s) (ws : List Bytes) :
    (finish (writeAll s ws)).out =
      writeHeaders s.proto11 s.code s.reason (finalHeaders s) ++
        (if s.head || noBodyCode s.code then []
         else if willChunk s then chunksOf ws ++ [48, 13, 10, 13, 10] else ws.flatten)
    ∧ (finish (writeAll s ws)).closed = !s.persistent := by
  rw [finish_writeAll_fresh s hs ws]
  have hfin : (startWriting s).finished = false := by rw [sw_finished]; exact hs.finished
  by_cases hm : (s.head || noBodyCode s.code) = true
  · rw [writeAll_muted ws _ (by rw [sw_muted]; exact hm)]
    obtain ⟨h1, h2⟩ := finish_started _ (sw_started s) hfin
    have hch : willChunk s = false := by
      simp only [Bool.or_eq_true] at hm
      unfold willChunk
      rcases hm with h | h <;> simp [h]
    rw [h1, h2, sw_chunked, sw_out, sw_persistent, hs.out, hch]
    simp [hm]
  · have hm' : (s.head || noBodyCode s.code) = false := by simpa using hm
    rw [writeAll_open ws _ (sw_started s) hfin (by rw [sw_muted]; exact hm')]
    obtain ⟨h1, h2⟩ := finish_started (addOut (startWriting s) (encBody (startWriting s).chunked ws))
      (sw_started s) hfin
    rw [h1, h2]
    show ((startWriting s).out ++ encBody (startWriting s).chunked ws ++
        if (startWriting s).chunked = true then [48, 13, 10, 13, 10] else []) = _ ∧ (!(startWriting s).persistent) = _
    rw [sw_chunked, sw_out, sw_persistent, hs.out, hm']
    cases willChunk s <;> simp [encBody]

end TwistedProps.C20
