import TwistedProps.C20.Basic
/-!
C20 lemmas, part 2: the reference parser reads back what an emitter of this shape writes —
line extraction, status line, field lines, chunks.
-/
namespace TwistedProps.C20
open Twisted.Http.Response
open Twisted.Http.Rfc9112 (headLines stripCR takeLine parseChunks parseStatusLine splitColon parseFieldLine
  parseFieldLines strip isOWS digitVal)
open Twisted.Http.Chunked (toChunk toHex toHexAux hexint hexVal hexDigitVal hexDigitLower isHexDigit isHexDigits isDigit)

theorem stripCR_snoc (cur : Bytes) : stripCR (cur ++ [13]) = cur := by
  simp [stripCR]

/-- a line without LF in front of CR LF is taken whole -/
theorem headLines_line (l : Bytes) (hl : (10 : UInt8) ∉ l) (rest : Bytes) : ∀ cur : Bytes,
    headLines (l ++ 13 :: 10 :: rest) cur =
      if cur ++ l = [] then some ([], rest)
      else (headLines rest []).map fun p => ((cur ++ l) :: p.1, p.2) := by
  induction l with
  | nil =>
    intro cur
    simp only [List.nil_append, List.append_nil]
    rw [headLines]
    simp only [show ((13 : UInt8) = 10) = False by decide, if_false]
    rw [headLines]
    simp only [if_true, stripCR_snoc]
  | cons c l ih =>
    intro cur
    have hc : c ≠ 10 := fun h => hl (by simp [h])
    have hl' : (10 : UInt8) ∉ l := fun h => hl (by simp [h])
    simp only [List.cons_append]
    rw [headLines]
    simp only [hc, if_false]
    rw [ih hl']
    simp [List.append_assoc]

theorem headLines_lines (ls : List Bytes) (h : ∀ l ∈ ls, l ≠ [] ∧ (10 : UInt8) ∉ l) (body : Bytes) :
    headLines ((ls.map (· ++ [13, 10])).flatten ++ 13 :: 10 :: body) [] = some (ls, body) := by
  induction ls with
  | nil =>
    have := headLines_line [] (by simp) body []
    simpa using this
  | cons l ls ih =>
    have hl := h l (by simp)
    have := ih fun x hx => h x (by simp [hx])
    simp only [List.map_cons, List.flatten_cons, List.append_assoc, List.cons_append, List.nil_append]
    rw [headLines_line l hl.2]
    simp only [List.nil_append, hl.1, if_false]
    rw [this]; rfl

theorem takeLine_line (l : Bytes) (hl : (10 : UInt8) ∉ l) (rest : Bytes) : ∀ cur : Bytes,
    takeLine (l ++ 13 :: 10 :: rest) cur = some (cur ++ l, rest) := by
  induction l with
  | nil =>
    intro cur
    simp only [List.nil_append, List.append_nil]
    rw [takeLine]
    simp only [show ((13 : UInt8) = 10) = False by decide, if_false]
    rw [takeLine]
    simp only [if_true, stripCR_snoc]
  | cons c l ih =>
    intro cur
    have hc : c ≠ 10 := fun h => hl (by simp [h])
    have hl' : (10 : UInt8) ∉ l := fun h => hl (by simp [h])
    simp only [List.cons_append]
    rw [takeLine]
    simp only [hc, if_false]
    rw [ih hl']
    simp [List.append_assoc]

/-! ### hexadecimal chunk sizes (as in C22) -/

theorem hexVal_snoc (ds : Bytes) (d : UInt8) : hexVal (ds ++ [d]) = hexVal ds * 16 + hexDigitVal d := by
  simp [hexVal, List.foldl_append]

theorem digit_facts : ∀ d : Fin 16, isHexDigit (hexDigitLower d.val) = true ∧ hexDigitVal (hexDigitLower d.val) = d.val := by
  decide

theorem toHexAux_spec : ∀ (fuel n : Nat) (acc : Bytes), n < fuel →
    ∃ ds, toHexAux fuel n acc = ds ++ acc ∧ ds ≠ [] ∧ (∀ c ∈ ds, isHexDigit c = true) ∧ hexVal ds = n := by
  intro fuel
  induction fuel with
  | zero => intro n acc h; omega
  | succ fuel ih =>
    intro n acc h
    by_cases hn : n < 16
    · have := digit_facts ⟨n, hn⟩
      refine ⟨[hexDigitLower n], by simp [toHexAux, hn], by simp, ?_, ?_⟩
      · intro c hc; simp at hc; subst hc; exact this.1
      · simp [hexVal]; exact this.2
    · obtain ⟨ds, h1, h2, h3, h4⟩ := ih (n / 16) (hexDigitLower (n % 16) :: acc) (by omega)
      have := digit_facts ⟨n % 16, by omega⟩
      refine ⟨ds ++ [hexDigitLower (n % 16)], by simp [toHexAux, hn, h1], by simp, ?_, ?_⟩
      · intro c hc
        simp only [List.mem_append, List.mem_singleton] at hc
        rcases hc with hc | rfl
        · exact h3 c hc
        · exact this.1
      · rw [hexVal_snoc, h4, this.2]; simp only; omega

theorem hexdigit_ne_LF : ∀ c : UInt8, isHexDigit c = true → c ≠ 10 := by
  apply forall_uint8; decide +kernel

theorem toHex_spec (n : Nat) : hexint (toHex n) = some n ∧ (10 : UInt8) ∉ toHex n := by
  obtain ⟨ds, h1, h2, h3, h4⟩ := toHexAux_spec (n + 1) n [] (by omega)
  simp only [List.append_nil] at h1
  unfold toHex
  rw [h1]
  refine ⟨?_, fun h => hexdigit_ne_LF _ (h3 _ h) rfl⟩
  have : isHexDigits ds = true := by
    simp only [isHexDigits, Bool.and_eq_true, List.all_eq_true]
    exact ⟨h3, by cases ds <;> simp_all⟩
  simp [hexint, this, h4]

/-! ### chunks -/

/-- what `Request.write` sends for each piece in chunked mode (`if data:` skips empty pieces) -/
def chunksOf (ws : List Bytes) : Bytes := (ws.map fun d => if d = [] then [] else toChunk d).flatten

theorem chunksOf_cons (d : Bytes) (ws : List Bytes) :
    chunksOf (d :: ws) = (if d = [] then [] else toChunk d) ++ chunksOf ws := by
  simp [chunksOf]

theorem parseChunks_last (fuel : Nat) (rest : Bytes) :
    parseChunks (fuel + 1) (48 :: 13 :: 10 :: 13 :: 10 :: rest) = some ([], rest) := by
  rw [parseChunks]
  have h1 := takeLine_line [48] (by decide) (13 :: 10 :: rest) []
  simp only [List.nil_append, List.cons_append] at h1
  rw [h1]
  have h2 : hexint [48] = some 0 := by decide
  simp only [h2]
  have h3 := takeLine_line [] (by simp) rest []
  simp only [List.nil_append] at h3
  rw [h3]

theorem parseChunks_chunk (fuel : Nat) (d rest : Bytes) (hd : d ≠ []) :
    parseChunks (fuel + 1) (toChunk d ++ rest) = (parseChunks fuel rest).map fun p => (d ++ p.1, p.2) := by
  rw [parseChunks]
  obtain ⟨hx, hlf⟩ := toHex_spec d.length
  have h1 := takeLine_line (toHex d.length) hlf (d ++ 13 :: 10 :: rest) []
  have e : toChunk d ++ rest = toHex d.length ++ 13 :: 10 :: (d ++ 13 :: 10 :: rest) := by
    simp [toChunk, Twisted.Http.Chunked.CR, Twisted.Http.Chunked.LF]
  rw [e, h1]
  simp only [List.nil_append, hx]
  obtain ⟨k, hk⟩ : ∃ k, d.length = k + 1 := by
    cases d with
    | nil => exact absurd rfl hd
    | cons a t => exact ⟨t.length, by simp⟩
  rw [hk]
  simp only
  have hlen : ¬ (d ++ 13 :: 10 :: rest).length < k + 1 := by simp; omega
  simp only [hlen, if_false]
  have hdrop : (d ++ 13 :: 10 :: rest).drop (k + 1) = 13 :: 10 :: rest := by
    rw [← hk]; simp
  have htake : (d ++ 13 :: 10 :: rest).take (k + 1) = d := by
    rw [← hk]; simp
  rw [hdrop, htake]
  have h3 := takeLine_line [] (by simp) rest []
  simp only [List.nil_append] at h3
  rw [h3]

/-- the reference parser decodes the chunks `write` sends followed by `finish`'s last chunk -/
theorem parseChunks_chunksOf (ws : List Bytes) (rest : Bytes) : ∀ fuel, (ws.filter (· ≠ [])).length < fuel →
    parseChunks fuel (chunksOf ws ++ 48 :: 13 :: 10 :: 13 :: 10 :: rest) = some (ws.flatten, rest) := by
  induction ws with
  | nil =>
    intro fuel h
    obtain ⟨f, rfl⟩ : ∃ f, fuel = f + 1 := ⟨fuel - 1, by omega⟩
    simpa [chunksOf] using parseChunks_last f rest
  | cons d ws ih =>
    intro fuel h
    rw [chunksOf_cons]
    by_cases hd : d = []
    · subst hd
      simpa using ih fuel (by simpa using h)
    · rw [List.filter_cons_of_pos (by simpa using hd)] at h
      simp only [List.length_cons] at h
      obtain ⟨f, rfl⟩ : ∃ f, fuel = f + 1 := ⟨fuel - 1, by omega⟩
      simp only [hd, if_false, List.append_assoc]
      rw [parseChunks_chunk f d _ hd, ih f (by omega)]
      simp

theorem toChunk_length_pos (d : Bytes) : 0 < (toChunk d).length := by
  simp [toChunk]; omega

theorem chunksOf_length (ws : List Bytes) : (ws.filter (· ≠ [])).length ≤ (chunksOf ws).length := by
  induction ws with
  | nil => simp [chunksOf]
  | cons d ws ih =>
    rw [chunksOf_cons]
    by_cases hd : d = []
    · subst hd; simpa using ih
    · have := toChunk_length_pos d
      simp only [hd, if_false, List.length_append]
      rw [List.filter_cons_of_pos (by simpa using hd)]
      simp only [List.length_cons]; omega

/-! ### field lines -/

theorem splitColon_name (n rest : Bytes) (hn : n.all isTchar = true) :
    splitColon (n ++ 58 :: rest) = some (n, rest) := by
  induction n with
  | nil => simp [splitColon]
  | cons c n ih =>
    simp only [List.all_cons, Bool.and_eq_true] at hn
    simp only [List.cons_append]
    rw [splitColon]
    simp [tchar_ne_colon c hn.1, ih hn.2]

theorem strip_sp (v : Bytes) : strip (32 :: v) = strip v := by
  simp [strip, isOWS]

/-- one emitted field line reads back as (lower-case name, value without outer blanks) -/
theorem parseFieldLine_emitted (n v : Bytes) (hn : isToken n = true) :
    parseFieldLine (n ++ [58, SP] ++ fieldContent v) = some (n.map lower, strip (fieldContent v)) := by
  have hn' := hn
  unfold isToken at hn'
  simp only [Bool.and_eq_true] at hn'
  unfold parseFieldLine
  have e : n ++ [58, SP] ++ fieldContent v = n ++ 58 :: (32 :: fieldContent v) := by simp [SP]
  rw [e, splitColon_name n _ hn'.1]
  have hall : (32 :: fieldContent v).all Twisted.Http.Rfc9112.okByte = true := by
    simp only [List.all_cons, Bool.and_eq_true]
    exact ⟨by decide, fieldContent_all_ok v⟩
  simp only [isToken_same, hn, hall, Bool.and_self, if_true, strip_sp, lower_same]

theorem fieldLine_shape (n v : Bytes) (hn : isToken n = true) :
    n ++ [58, SP] ++ fieldContent v ≠ [] ∧ (10 : UInt8) ∉ n ++ [58, SP] ++ fieldContent v := by
  refine ⟨by simp, ?_⟩
  unfold isToken at hn
  simp only [Bool.and_eq_true, List.all_eq_true] at hn
  intro h
  simp only [List.mem_append, List.mem_cons, List.not_mem_nil, or_false] at h
  rcases h with (h | h | h) | h
  · exact tchar_ne_LF _ (hn.1 _ h) rfl
  · exact absurd h (by decide)
  · exact absurd h (by decide)
  · exact fieldContent_noLF v h

/-! ### status line -/

theorem decimal3 (n : Nat) (h1 : 100 ≤ n) (h2 : n ≤ 999) :
    decimal n = [UInt8.ofNat (48 + n / 100), UInt8.ofNat (48 + n / 10 % 10), UInt8.ofNat (48 + n % 10)] := by
  obtain ⟨k, rfl⟩ : ∃ k, n = k + 100 := ⟨n - 100, by omega⟩
  unfold decimal
  have e : k + 100 + 1 = (k + 98) + 1 + 1 + 1 := by omega
  rw [e]
  have a1 : ¬ (k + 100 < 10) := by omega
  have a2 : ¬ ((k + 100) / 10 < 10) := by omega
  have a3 : (k + 100) / 10 / 10 < 10 := by omega
  simp only [decAux, a1, a2, a3, if_false, if_true]
  have : (k + 100) / 10 / 10 = (k + 100) / 100 := by omega
  rw [this]

theorem digit_ok : ∀ d : Fin 10, isDigit (UInt8.ofNat (48 + d.val)) = true ∧ digitVal (UInt8.ofNat (48 + d.val)) = d.val
    ∧ UInt8.ofNat (48 + d.val) ≠ 10 := by
  decide

/-- the emitted status line reads back as (code, written reason) -/
theorem parseStatusLine_emitted (p11 : Bool) (code : Nat) (reason : Bytes) (h1 : 100 ≤ code) (h2 : code ≤ 999) :
    parseStatusLine ((if p11 then bs "HTTP/1.1" else bs "HTTP/1.0") ++ [SP] ++ decimal code ++ [SP] ++ fieldContent reason)
      = some (code, fieldContent reason) := by
  rw [decimal3 code h1 h2]
  have da := digit_ok ⟨code / 100, by omega⟩
  have db := digit_ok ⟨code / 10 % 10, by omega⟩
  have dc := digit_ok ⟨code % 10, by omega⟩
  simp only at da db dc
  have hv : (if p11 then bs "HTTP/1.1" else bs "HTTP/1.0") = [72, 84, 84, 80, 47, 49, 46, if p11 then 49 else 48] := by
    cases p11 <;> decide
  rw [hv]
  simp only [SP, List.cons_append, List.nil_append, parseStatusLine]
  have hcode : code / 100 * 100 + code / 10 % 10 * 10 + code % 10 = code := by omega
  generalize UInt8.ofNat (48 + code / 100) = a at da ⊢
  generalize UInt8.ofNat (48 + code / 10 % 10) = b at db ⊢
  generalize UInt8.ofNat (48 + code % 10) = c at dc ⊢
  cases p11 <;> simp [da.1, db.1, dc.1, da.2.1, db.2.1, dc.2.1, fieldContent_all_ok, hcode]

theorem statusLine_shape (p11 : Bool) (code : Nat) (reason : Bytes) (h1 : 100 ≤ code) (h2 : code ≤ 999) :
    let l := (if p11 then bs "HTTP/1.1" else bs "HTTP/1.0") ++ [SP] ++ decimal code ++ [SP] ++ fieldContent reason
    l ≠ [] ∧ (10 : UInt8) ∉ l := by
  intro l
  have hv : (if p11 then bs "HTTP/1.1" else bs "HTTP/1.0") = [72, 84, 84, 80, 47, 49, 46, if p11 then 49 else 48] := by
    cases p11 <;> decide
  have da := digit_ok ⟨code / 100, by omega⟩
  have db := digit_ok ⟨code / 10 % 10, by omega⟩
  have dc := digit_ok ⟨code % 10, by omega⟩
  simp only at da db dc
  refine ⟨by simp [l, hv], ?_⟩
  intro h
  simp only [l, hv, decimal3 code h1 h2, SP, List.mem_append, List.mem_cons, List.not_mem_nil, or_false] at h
  rcases h with (((h | h) | h) | h) | h
  · rcases h with h | h | h | h | h | h | h | h <;> first | exact absurd h (by decide) | (cases p11 <;> exact absurd h (by decide))
  · exact absurd h (by decide)
  · rcases h with h | h | h
    · exact da.2.2 h.symm
    · exact db.2.2 h.symm
    · exact dc.2.2 h.symm
  · exact absurd h (by decide)
  · exact fieldContent_noLF reason h

end TwistedProps.C20
