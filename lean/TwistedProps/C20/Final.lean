import TwistedProps.C20.Run
/-!
C20 lemmas, part 5: the dict as the first write leaves it (`finalHeaders`) — still well formed,
what it holds under `Transfer-Encoding` and `Content-Length` — and the written head as lines.
-/
namespace TwistedProps.C20
open Twisted.Http.Response

theorem canon_TE : CanonKey (bs "Transfer-Encoding") := ⟨bs "Transfer-Encoding", by decide, by decide⟩
theorem canon_SC : CanonKey (bs "Set-Cookie") := ⟨bs "Set-Cookie", by decide, by decide⟩
theorem canon_CL : CanonKey (bs "Content-Length") := ⟨bs "Content-Length", by decide, by decide⟩

theorem finalHeaders_ok (s : Req) (hs : Fresh s) : DictOK (finalHeaders s) := by
  rw [finalHeaders_eq]
  have h1 : DictOK (if willChunk s then dset s.headers (bs "Transfer-Encoding") [bs "chunked"] else s.headers) := by
    split
    · exact dset_ok _ _ _ hs.dict canon_TE
    · exact hs.dict
  simp only
  split
  · exact h1
  · exact dset_ok _ _ _ h1 canon_SC

theorem finalHeaders_TE (s : Req) : dget (finalHeaders s) (bs "Transfer-Encoding") =
    if willChunk s then some [bs "chunked"] else dget s.headers (bs "Transfer-Encoding") := by
  rw [finalHeaders_eq]
  simp only
  have e1 : ¬ bs "Transfer-Encoding" = bs "Set-Cookie" := by decide
  split <;> split <;> simp [dget_dset, e1]

theorem finalHeaders_CL (s : Req) : dget (finalHeaders s) (bs "Content-Length") = dget s.headers (bs "Content-Length") := by
  rw [finalHeaders_eq]
  simp only
  have e1 : ¬ bs "Content-Length" = bs "Set-Cookie" := by decide
  have e2 : ¬ bs "Content-Length" = bs "Transfer-Encoding" := by decide
  split <;> split <;> simp [dget_dset, e1, e2]

theorem dmissing_iff (d : Dict) (k : Bytes) : dmissing d k = true ↔ (dget d k).getD [] = [] := by
  unfold dmissing
  cases dget d k with
  | none => simp
  | some vs => cases vs <;> simp

/-- the head `writeHeaders` writes, as lines -/
theorem writeHeaders_lines (p11 : Bool) (code : Nat) (reason : Bytes) (d : Dict) (body : Bytes) :
    writeHeaders p11 code reason d ++ body =
      ((((if p11 then bs "HTTP/1.1" else bs "HTTP/1.0") ++ [SP] ++ decimal code ++ [SP] ++ fieldContent reason)
          :: fieldLineList d).map (· ++ [13, 10])).flatten ++ 13 :: 10 :: body := by
  unfold writeHeaders
  rw [headerLines_eq]
  simp [CRLF, CR, LF]

end TwistedProps.C20
