import TwistedProps.C20.Names
/-!
C20 lemmas, part 7: set-up calls made after the head has gone out.  What is still to be written
depends only on `wire r` (everything but status, reason, dict and cookies); set-up calls do not
touch it, writes and finish of a started request read nothing else.
-/
namespace TwistedProps.C20
open Twisted.Http.Response

/-- what of a request decides the bytes still to be written: everything except status, reason,
    header dict and cookies (those are read once, by the first write) -/
def wire (r : Req) : Bool × Bool × Bool × Bool × Bool × Bool × Bool × Bytes × Bool :=
  (r.proto11, r.head, r.persistent, r.started, r.chunked, r.muted, r.finished, r.out, r.closed)

theorem wire_setup (r : Req) (op : Op) (hop : isSetup op = true) : wire (step r op).1 = wire r := by
  cases op with
  | write d => simp [isSetup] at hop
  | finish => simp [isSetup] at hop
  | setCode code msg => rfl
  | setHeader name value =>
    simp only [step]
    cases encodeName name with
    | error e => rfl
    | ok n => cases encValue value <;> rfl
  | addHeader name value =>
    simp only [step]
    cases encodeName name with
    | error e => rfl
    | ok n => cases encValue value <;> rfl
  | setRaw name values =>
    simp only [step]
    cases encodeName name with
    | error e => rfl
    | ok n => cases encValues values <;> rfl
  | remove name =>
    simp only [step]
    cases encodeName name <;> rfl
  | addCookie k v a =>
    simp only [step]
    cases cookieBytes k v a <;> rfl

theorem wire_started_step (r r' : Req) (h : wire r = wire r') (hst : r.started = true) (op : Op)
    (hop : isSetup op = false) :
    wire (step r op).1 = wire (step r' op).1 ∧ (step r op).2 = (step r' op).2 ∧ (step r op).1.started = true := by
  have hst' : r'.started = true := by
    have : r.started = r'.started := by simp only [wire, Prod.mk.injEq] at h; exact h.2.2.2.1
    rw [← this]; exact hst
  simp only [wire, Prod.mk.injEq] at h
  obtain ⟨h1, h2, h3, h4, h5, h6, h7, h8, h9⟩ := h
  cases op with
  | write d =>
    simp only [step, write, hst, hst', if_true]
    rw [← h6, ← h7, ← h5, ← h8]
    cases r.muted <;> cases r.finished <;> cases hd : d.isEmpty <;> cases r.chunked <;>
      simp [wire, h1, h2, h3, h4, h5, h6, h7, h8, h9, hst']
  | finish =>
    simp only [step, finish, hst, hst', if_true]
    rw [← h7, ← h5, ← h8, ← h3]
    cases r.finished <;> cases r.chunked <;> simp [wire, h1, h2, h3, h4, h5, h6, h7, h8, h9, hst']
  | setCode _ _ => simp [isSetup] at hop
  | setHeader _ _ => simp [isSetup] at hop
  | addHeader _ _ => simp [isSetup] at hop
  | setRaw _ _ => simp [isSetup] at hop
  | remove _ => simp [isSetup] at hop
  | addCookie _ _ _ => simp [isSetup] at hop

theorem runFrom_late (ops : List Op) : ∀ (r r' : Req) (i j : Nat), wire r = wire r' → r.started = true →
    wire (runFrom r i ops).1 = wire (runFrom r' j (ops.filter fun op => !isSetup op)).1 := by
  induction ops with
  | nil => intro r r' i j h _; exact h
  | cons op ops ih =>
    intro r r' i j h hst
    rw [runFrom_cons_fst]
    by_cases hop : isSetup op = true
    · rw [List.filter_cons_of_neg (by simp [hop])]
      refine ih _ r' (i + 1) j ?_ ?_
      · rw [wire_setup r op hop]; exact h
      · have := wire_setup r op hop
        simp only [wire, Prod.mk.injEq] at this
        rw [this.2.2.2.1]; exact hst
    · have hop' : isSetup op = false := by simpa using hop
      rw [List.filter_cons_of_pos (by simp [hop']), runFrom_cons_fst]
      obtain ⟨hw, _, hs⟩ := wire_started_step r r' h hst op hop'
      exact ih _ _ (i + 1) (j + 1) hw hs


/-- the data of the `write` calls of a history, in order -/
def writesOf (ops : List Op) : List Bytes := ops.filterMap fun op => match op with | .write d => some d | _ => none

theorem filter_nonsetup (mixed : List Op) (hnf : Op.finish ∉ mixed) :
    (mixed.filter fun op => !isSetup op) = (writesOf mixed).map Op.write := by
  induction mixed with
  | nil => rfl
  | cons op mixed ih =>
    have ih' := ih (fun h => hnf (List.mem_cons_of_mem _ h))
    cases op with
    | finish => exact absurd (List.mem_cons_self) hnf
    | write d => simp [isSetup, writesOf] at ih' ⊢; exact ih'
    | setCode _ _ => simp [isSetup, writesOf] at ih' ⊢; exact ih'
    | setHeader _ _ => simp [isSetup, writesOf] at ih' ⊢; exact ih'
    | addHeader _ _ => simp [isSetup, writesOf] at ih' ⊢; exact ih'
    | setRaw _ _ => simp [isSetup, writesOf] at ih' ⊢; exact ih'
    | remove _ => simp [isSetup, writesOf] at ih' ⊢; exact ih'
    | addCookie _ _ _ => simp [isSetup, writesOf] at ih' ⊢; exact ih'

theorem write_fresh_started (s : Req) (hs : Fresh s) (d : Bytes) : (step s (.write d)).1.started = true := by
  simp only [step, write, hs.muted, hs.finished, hs.started, Bool.false_eq_true, if_false]
  split
  · rfl
  · split
    · rfl
    · split <;> rfl

theorem wire_finished_step (r : Req) (hf : r.finished = true) (op : Op) :
    wire (step r op).1 = wire r ∧ (step r op).1.finished = true := by
  by_cases hop : isSetup op = true
  · have := wire_setup r op hop
    refine ⟨this, ?_⟩
    simp only [wire, Prod.mk.injEq] at this
    rw [this.2.2.2.2.2.2.1]; exact hf
  · cases op with
    | write d => simp only [step, write, hf, if_true]; cases r.muted <;> simp [hf]
    | finish => simp [step, finish, hf]
    | setCode _ _ => simp [isSetup] at hop
    | setHeader _ _ => simp [isSetup] at hop
    | addHeader _ _ => simp [isSetup] at hop
    | setRaw _ _ => simp [isSetup] at hop
    | remove _ => simp [isSetup] at hop
    | addCookie _ _ _ => simp [isSetup] at hop

theorem runFrom_finished (ops : List Op) : ∀ (r : Req) (i : Nat), r.finished = true → wire (runFrom r i ops).1 = wire r := by
  induction ops with
  | nil => intro r i _; rfl
  | cons op ops ih =>
    intro r i hf
    rw [runFrom_cons_fst]
    obtain ⟨h1, h2⟩ := wire_finished_step r hf op
    rw [ih _ _ h2, h1]

theorem finished_after_finish (r : Req) : (finish r).finished = true := by
  unfold finish
  split
  · assumption
  · rfl

theorem run_snoc_finish_finished (r0 : Req) (pre : List Op) : (run r0 (pre ++ [Op.finish])).1.finished = true := by
  show (runFrom _ 0 _).1.finished = true
  rw [runFrom_append_fst]
  exact finished_after_finish _


theorem takeWhile_all (p : Op → Bool) (l : List Op) : ∀ op ∈ l.takeWhile p, p op = true := by
  induction l with
  | nil => intro op h; cases h
  | cons a l ih =>
    intro op h
    simp only [List.takeWhile_cons] at h
    split at h
    · rcases List.mem_cons.1 h with rfl | h
      · assumption
      · exact ih op h
    · cases h

theorem dropWhile_head (p : Op → Bool) (l : List Op) (a : Op) (rest : List Op) (h : l.dropWhile p = a :: rest) : p a = false := by
  induction l with
  | nil => cases h
  | cons b l ih =>
    simp only [List.dropWhile_cons] at h
    split at h
    · exact ih h
    · rename_i hb
      cases h; simpa using hb

theorem writesOf_setup (ops : List Op) (h : ∀ op ∈ ops, isSetup op = true) : writesOf ops = [] := by
  induction ops with
  | nil => rfl
  | cons op ops ih =>
    have h1 := h op (by simp)
    have h2 := ih fun o ho => h o (by simp [ho])
    cases op <;> simp [isSetup] at h1 <;> simpa [writesOf] using h2

theorem writesOf_append (a b : List Op) : writesOf (a ++ b) = writesOf a ++ writesOf b := by
  simp [writesOf, List.filterMap_append]

end TwistedProps.C20
