import TwistedProps.C20.Parse
/-!
C20 lemmas, part 3: the request model — what set-up calls preserve, what `write`s and `finish`
append, and how the header dict reads back through the reference parser.
-/
namespace TwistedProps.C20
open Twisted.Http.Response
open Twisted.Http.Rfc9112 (parseFieldLine parseFieldLines strip fieldValues)

/-- the calls that only prepare the response -/
def isSetup : Op → Bool
  | .write _ => false
  | .finish => false
  | _ => true

/-- a key of the header dict is the canonical form of some token -/
def CanonKey (k : Bytes) : Prop := ∃ n, isToken n = true ∧ k = canonical n

def DictOK (d : Dict) : Prop := (∀ p ∈ d, CanonKey p.1) ∧ (d.map (·.1)).Nodup

/-- a request nothing has been written for yet -/
structure Fresh (s : Req) : Prop where
  started : s.started = false
  finished : s.finished = false
  muted : s.muted = false
  chunked : s.chunked = false
  out : s.out = []
  closed : s.closed = false
  dict : DictOK s.headers

def Ctx (s : Req) (p11 head cc : Bool) : Prop :=
  s.proto11 = p11 ∧ s.head = head ∧ s.persistent = (p11 && !cc)

/-! ### the dict -/

theorem any_key_iff (d : Dict) (k : Bytes) : (d.any (·.1 = k)) = true ↔ k ∈ d.map (·.1) := by
  simp only [List.any_eq_true, decide_eq_true_eq, List.mem_map]

theorem keys_map_same (d : Dict) (k : Bytes) (f : Bytes × List Bytes → List Bytes) :
    (d.map fun p => if p.1 = k then (k, f p) else p).map (·.1) = d.map (·.1) := by
  rw [List.map_map]
  apply List.map_congr_left
  intro p _
  by_cases h : p.1 = k <;> simp [h]

theorem keys_dset (d : Dict) (k : Bytes) (vs : List Bytes) :
    (dset d k vs).map (·.1) = if k ∈ d.map (·.1) then d.map (·.1) else d.map (·.1) ++ [k] := by
  unfold dset
  by_cases h : (d.any (·.1 = k)) = true
  · rw [if_pos h, if_pos ((any_key_iff d k).1 h)]
    exact keys_map_same d k fun _ => vs
  · rw [if_neg h, if_neg (fun hh => h ((any_key_iff d k).2 hh))]
    simp

theorem keys_dappend (d : Dict) (k v : Bytes) :
    (dappend d k v).map (·.1) = if k ∈ d.map (·.1) then d.map (·.1) else d.map (·.1) ++ [k] := by
  unfold dappend
  by_cases h : (d.any (·.1 = k)) = true
  · rw [if_pos h, if_pos ((any_key_iff d k).1 h)]
    exact keys_map_same d k fun p => p.2 ++ [v]
  · rw [if_neg h, if_neg (fun hh => h ((any_key_iff d k).2 hh))]
    simp

theorem keys_dsetdefault (d : Dict) (k : Bytes) :
    (dsetdefault d k).map (·.1) = if k ∈ d.map (·.1) then d.map (·.1) else d.map (·.1) ++ [k] := by
  unfold dsetdefault
  by_cases h : (d.any (·.1 = k)) = true
  · rw [if_pos h, if_pos ((any_key_iff d k).1 h)]
  · rw [if_neg h, if_neg (fun hh => h ((any_key_iff d k).2 hh))]
    simp

theorem dictOK_of_keys (d d' : Dict) (k : Bytes) (hd : DictOK d) (hk : CanonKey k)
    (h : d'.map (·.1) = if k ∈ d.map (·.1) then d.map (·.1) else d.map (·.1) ++ [k]) : DictOK d' := by
  have hmem : ∀ p ∈ d', p.1 ∈ d.map (·.1) ∨ p.1 = k := by
    intro p hp
    have : p.1 ∈ d'.map (·.1) := List.mem_map.2 ⟨p, hp, rfl⟩
    rw [h] at this
    split at this
    · exact Or.inl this
    · simpa using this
  refine ⟨?_, ?_⟩
  · intro p hp
    rcases hmem p hp with h1 | h1
    · obtain ⟨q, hq, e⟩ := List.mem_map.1 h1
      rw [← e]; exact hd.1 q hq
    · rw [h1]; exact hk
  · rw [h]
    split
    · exact hd.2
    · rename_i hn
      exact List.nodup_append.2 ⟨hd.2, by simp, by
        intro a ha b hb
        simp only [List.mem_singleton] at hb
        subst hb
        exact fun e => hn (e ▸ ha)⟩

theorem dset_ok (d : Dict) (k : Bytes) (vs : List Bytes) (hd : DictOK d) (hk : CanonKey k) : DictOK (dset d k vs) :=
  dictOK_of_keys d _ k hd hk (keys_dset d k vs)
theorem dappend_ok (d : Dict) (k v : Bytes) (hd : DictOK d) (hk : CanonKey k) : DictOK (dappend d k v) :=
  dictOK_of_keys d _ k hd hk (keys_dappend d k v)
theorem dsetdefault_ok (d : Dict) (k : Bytes) (hd : DictOK d) (hk : CanonKey k) : DictOK (dsetdefault d k) :=
  dictOK_of_keys d _ k hd hk (keys_dsetdefault d k)

/-- removing a name keeps the dict well formed (the remaining keys are a sublist) -/
theorem dremove_ok (d : Dict) (k : Bytes) (hd : DictOK d) : DictOK (dremove d k) := by
  refine ⟨fun p hp => hd.1 p (List.mem_filter.1 hp).1, ?_⟩
  exact List.Sublist.nodup (List.Sublist.map _ List.filter_sublist) hd.2

theorem dget_dremove_self (d : Dict) (k : Bytes) : dget (dremove d k) k = none := by
  unfold dget dremove
  rw [List.find?_filter]
  have : d.find? (fun a => (!decide (a.1 = k)) && decide (a.1 = k)) = none := by
    rw [List.find?_eq_none]; intro p _; by_cases h : p.1 = k <;> simp [h]
  simpa using this

theorem dget_map (d : Dict) (f : Bytes × List Bytes → Bytes × List Bytes) (hf : ∀ p, (f p).1 = p.1) (k' : Bytes) :
    dget (d.map f) k' = (d.find? (·.1 = k')).map fun p => (f p).2 := by
  unfold dget
  induction d with
  | nil => simp
  | cons p d ih =>
    simp only [List.map_cons, List.find?_cons, hf]
    by_cases hp : p.1 = k'
    · simp [hp]
    · simp only [hp, decide_false]
      exact ih

theorem find_none_of_not_any (d : Dict) (k : Bytes) (h : ¬ (d.any (·.1 = k)) = true) :
    d.find? (·.1 = k) = none := by
  rw [List.find?_eq_none]
  intro p hp hk
  exact h (List.any_eq_true.2 ⟨p, hp, hk⟩)

theorem dget_dset (d : Dict) (k k' : Bytes) (vs : List Bytes) :
    dget (dset d k vs) k' = if k' = k then some vs else dget d k' := by
  unfold dset
  by_cases h : (d.any (·.1 = k)) = true
  · rw [if_pos h, dget_map _ _ (by intro p; by_cases hp : p.1 = k <;> simp [hp])]
    by_cases hk : k' = k
    · subst hk
      obtain ⟨p, hp, hpk⟩ := List.any_eq_true.1 h
      cases hf : d.find? (·.1 = k') with
      | none => exact absurd hf (by
          intro hn; rw [List.find?_eq_none] at hn; exact hn p hp hpk)
      | some q =>
        have := List.find?_some hf
        simp only [decide_eq_true_eq] at this
        simp [this]
    · simp only [hk, if_false]
      unfold dget
      cases hf : d.find? (·.1 = k') with
      | none => rfl
      | some q =>
        have := List.find?_some hf
        simp only [decide_eq_true_eq] at this
        have hq : ¬ q.1 = k := fun e => hk (this ▸ e)
        simp [hq]
  · rw [if_neg h]
    unfold dget
    rw [List.find?_append]
    by_cases hk : k' = k
    · subst hk
      rw [find_none_of_not_any d k' h]
      simp
    · have : ¬ k = k' := fun e => hk e.symm
      simp [hk, this]

/-! ### how the dict reads back -/

/-- the field lines `writeHeaders` writes for a dict, without their CR LF -/
def fieldLineList (d : Dict) : List Bytes := d.flatMap fun p => p.2.map fun v => p.1 ++ [58, SP] ++ fieldContent v

/-- the fields a reader must see for a dict: lower-case name, value as written without outer blanks -/
def wireFields (d : Dict) : List (Bytes × Bytes) :=
  d.flatMap fun p => p.2.map fun v => (p.1.map lower, strip (fieldContent v))

theorem headerLines_eq (d : Dict) : headerLines d = ((fieldLineList d).map (· ++ [13, 10])).flatten := by
  unfold headerLines fieldLineList
  congr 1
  rw [List.map_flatMap]
  congr 1
  funext p
  simp [CRLF, CR, LF]

theorem canonKey_token (k : Bytes) (h : CanonKey k) : isToken k = true := by
  obtain ⟨n, hn, rfl⟩ := h; exact canonical_token n hn

theorem parseFieldLines_append (a b : List Bytes) (ra rb : List (Bytes × Bytes))
    (ha : parseFieldLines a = some ra) (hb : parseFieldLines b = some rb) :
    parseFieldLines (a ++ b) = some (ra ++ rb) := by
  induction a generalizing ra with
  | nil => simp [parseFieldLines] at ha; subst ha; simpa using hb
  | cons l a ih =>
    simp only [List.cons_append, parseFieldLines]
    simp only [parseFieldLines] at ha
    cases h1 : parseFieldLine l with
    | none => simp [h1] at ha
    | some f =>
      cases h2 : parseFieldLines a with
      | none => simp [h1, h2] at ha
      | some fs =>
        simp only [h1, h2, Option.some.injEq] at ha
        subst ha
        simp [ih fs h2]

theorem parseFieldLines_entry (k : Bytes) (hk : isToken k = true) (vs : List Bytes) :
    parseFieldLines (vs.map fun v => k ++ [58, SP] ++ fieldContent v)
      = some (vs.map fun v => (k.map lower, strip (fieldContent v))) := by
  induction vs with
  | nil => simp [parseFieldLines]
  | cons v vs ih =>
    simp only [List.map_cons, parseFieldLines]
    rw [parseFieldLine_emitted k v hk, ih]

/-- the written field lines read back as exactly the dict's fields -/
theorem parseFieldLines_dict (d : Dict) (hd : ∀ p ∈ d, CanonKey p.1) :
    parseFieldLines (fieldLineList d) = some (wireFields d) := by
  induction d with
  | nil => simp [fieldLineList, wireFields, parseFieldLines]
  | cons p d ih =>
    have h1 := parseFieldLines_entry p.1 (canonKey_token _ (hd p (by simp))) p.2
    have h2 := ih fun q hq => hd q (by simp [hq])
    simp only [fieldLineList, wireFields, List.flatMap_cons] at h2 ⊢
    exact parseFieldLines_append _ _ _ _ h1 h2

theorem fieldLineList_shape (d : Dict) (hd : ∀ p ∈ d, CanonKey p.1) :
    ∀ l ∈ fieldLineList d, l ≠ [] ∧ (10 : UInt8) ∉ l := by
  intro l hl
  simp only [fieldLineList, List.mem_flatMap, List.mem_map] at hl
  obtain ⟨p, hp, v, _, rfl⟩ := hl
  exact fieldLine_shape p.1 v (canonKey_token _ (hd p hp))

/-- the values a reader finds under a (canonical) name are the values stored under it -/
theorem fieldValues_dict (d : Dict) (hd : DictOK d) (k : Bytes) (hk : CanonKey k) :
    fieldValues (wireFields d) (k.map lower) = ((dget d k).getD []).map fun v => strip (fieldContent v) := by
  obtain ⟨hc, hn⟩ := hd
  induction d with
  | nil => simp [wireFields, fieldValues, dget]
  | cons p d ih =>
    have hn' : (d.map (·.1)).Nodup := (List.nodup_cons.1 hn).2
    have hnot : p.1 ∉ d.map (·.1) := (List.nodup_cons.1 hn).1
    have ih' := ih (fun q hq => hc q (by simp [hq])) hn'
    have hsplit : fieldValues (wireFields (p :: d)) (k.map lower) =
        fieldValues (p.2.map fun v => (p.1.map lower, strip (fieldContent v))) (k.map lower)
          ++ fieldValues (wireFields d) (k.map lower) := by
      simp [wireFields, fieldValues, List.filter_append]
    rw [hsplit, ih']
    by_cases hpk : p.1 = k
    · have hgone : dget d k = none := by
        unfold dget
        rw [find_none_of_not_any d k (fun h => hnot (hpk ▸ (any_key_iff d k).1 h))]
        rfl
      have hhere : dget (p :: d) k = some p.2 := by simp [dget, hpk]
      rw [hgone, hhere]
      have hft : ∀ l : List Bytes, l.filter (fun _ => true) = l := fun l => by
        induction l with
        | nil => rfl
        | cons a l ih => simp
      simp [fieldValues, hpk, List.filter_map, Function.comp_def, hft]
    · have hlow : ¬ p.1.map lower = k.map lower := by
        intro e
        obtain ⟨a, _, ha⟩ := hc p (by simp)
        obtain ⟨b, _, hb⟩ := hk
        exact hpk (by rw [ha, hb]; exact canonical_inj a b (by rw [← ha, ← hb]; exact e))
      have hhere : dget (p :: d) k = dget d k := by simp [dget, hpk]
      rw [hhere]
      simp [fieldValues, hlow, List.filter_map, Function.comp_def]

end TwistedProps.C20
