import TwistedProps.C15.Stream
import TwistedProps.C15.Frozen
/-!
C15 — every reactor delivers TCP byte streams intact and reports loss exactly once.

Model: `TwistedModel/Transport/Tcp.lean` (tcp.Connection + abstract.FileDescriptor + the
`_doReadOrWrite` / `_disconnectSelectable` dispatch over a kernel socket pair).  A *schedule* is any
`List Ev`: application calls on either side (write, writeSequence, loseConnection,
loseWriteConnection, abortConnection, pause/resumeProducing), readiness reports with arbitrary
IN/OUT/HUP bits and arbitrary partial `send`/`recv` sizes (0 included), and delayed calls, in any order.
The theorems below quantify over ALL schedules, all kernel parameters (SEND_LIMIT, recv size, queue
capacity), both protocol kinds (plain / IHalfCloseableProtocol with any `readConnectionLost` reaction)
— no size bound, no discipline assumed, misuse included.

Proved at full strength (safety):
  * `stream_accounting`            every byte accepted by write()/writeSequence() is, in order and
                                   exactly once, delivered to the peer's protocol, or in the peer's kernel
                                   queue, or still in the sender's buffers — or discarded, which happens
                                   only once the peer's socket is closed
  * `peer_receives_prefix_of_written`   what a protocol has received is always a prefix of what the peer
                                   wrote (the statement's "a prefix of them after abortConnection",
                                   valid in every state of every run)
  * `connectionLost_at_most_once`  per side, whatever happens
  * `no_data_after_connectionLost` after connectionLost neither dataReceived nor a second
                                   connectionLost reaches the protocol

PARTIAL (`…_partial`): the *liveness / clean-close* half of the statement —

    for every schedule that follows the one-closer discipline, when the system comes to rest
    (`Sys.quiescent`) after loseConnection / half-close, both `lost` lists are exactly `[done]` and
    `b.received = a.accepted` (resp. `[aborted]` on the aborting side, exactly one reason on the other)

— is NOT proved in Lean.  What is proved towards it: `done_from_doWrite_only_after_flush_partial`
(doWrite reports CONNECTION_DONE only when loseConnection was requested and this call emptied the
buffers, i.e. with `stream_accounting` every accepted byte has been handed to the kernel).  The rest
is left to the correspondence: the orderly/abort templates of `harness/corr/C15.py` carry exactly this
expectation in their oracle, on the real code over the fake kernel (thousands of schedules per run) and
on real loopback sockets under four reactors.  Missing for a proof: the cross-endpoint invariants (no
reset is ever generated under the discipline; FIN is only sent after the flush; the peer closes only
after EOF; registration invariants "pending bytes ⇒ writer registered") and a progress measure.
-/
namespace TwistedProps.C15
open Twisted.Transport.Tcp

/-- any two freshly connected transports, any kernel parameters -/
abbrev start (p : Params) (ha hb : Bool) (ra rb : List AppOp) : Sys :=
  Sys.init p (Conn.fresh ha ra) (Conn.fresh hb rb)

theorem good_start (p : Params) (ha hb : Bool) (ra rb : List AppOp) : Good (start p ha hb ra rb) := by
  have f : ∀ (c o : Conn) (k : Sock), c.sent = [] → o.received = [] → k.inq = [] → Flow c o k :=
    fun c o k h1 h2 h3 => ⟨[], by simp [h1, h2, h3], Or.inr rfl⟩
  refine ⟨⟨?_, ?_, f _ _ _ rfl rfl rfl, f _ _ _ rfl rfl rfl⟩, ⟨?_, ?_, f _ _ _ rfl rfl rfl, f _ _ _ rfl rfl rfl⟩⟩ <;>
    simp [start, Sys.init, Sys.view, Conn.fresh, Inv1, Inv3, pending]

/-- **Stream accounting.**  In every state of every run, for each direction: the bytes accepted from
    the application are exactly (delivered ++ in the peer's receive queue ++ discarded ++ still
    buffered), in this order; bytes are discarded only when the peer's socket is closed. -/
theorem stream_accounting (p : Params) (ha hb : Bool) (ra rb : List AppOp) (evs : List Ev) :
    let s := run (start p ha hb ra rb) evs
    (∃ rest, s.a.accepted = s.b.received ++ s.kb.inq ++ rest ++ pending s.a ∧ (s.kb.closed = true ∨ rest = [])) ∧
    (∃ rest, s.b.accepted = s.a.received ++ s.ka.inq ++ rest ++ pending s.b ∧ (s.ka.closed = true ∨ rest = [])) := by
  intro s
  obtain ⟨⟨a1, _, ⟨r1, e1, c1⟩, _⟩, ⟨b1, _, ⟨r2, e2, c2⟩, _⟩⟩ := good_run evs _ (good_start p ha hb ra rb)
  refine ⟨⟨r1, ?_, c1⟩, ⟨r2, ?_, c2⟩⟩
  · have := a1; simp only [Inv1, Sys.view] at this e1; rw [← this, e1]
  · have := b1; simp only [Inv1, Sys.view] at this e2; rw [← this, e2]

/-- **The peer receives the bytes written, in order** — at any moment a prefix of them (all of them
    are still to come, or were dropped by an abort / a loss). -/
theorem peer_receives_prefix_of_written (p : Params) (ha hb : Bool) (ra rb : List AppOp) (evs : List Ev) :
    let s := run (start p ha hb ra rb) evs
    s.b.received <+: s.a.accepted ∧ s.a.received <+: s.b.accepted := by
  intro s
  obtain ⟨⟨r1, e1, _⟩, ⟨r2, e2, _⟩⟩ := stream_accounting p ha hb ra rb evs
  exact ⟨⟨s.kb.inq ++ r1 ++ pending s.a, by rw [e1]; simp only [List.append_assoc]; rfl⟩, ⟨s.ka.inq ++ r2 ++ pending s.b, by rw [e2]; simp only [List.append_assoc]; rfl⟩⟩

/-- **connectionLost at most once per protocol**, on every schedule (double close, abort during close,
    reset while flushing, stale readiness reports on a dead transport, …). -/
theorem connectionLost_at_most_once (p : Params) (ha hb : Bool) (ra rb : List AppOp) (evs : List Ev) :
    let s := run (start p ha hb ra rb) evs
    s.a.lost.length ≤ 1 ∧ s.b.lost.length ≤ 1 := by
  intro s
  obtain ⟨⟨_, a3, _, _⟩, ⟨_, b3, _, _⟩⟩ := good_run evs _ (good_start p ha hb ra rb)
  simp only [Inv3, Sys.view] at a3 b3
  constructor
  · show (run (start p ha hb ra rb) evs).a.lost.length ≤ 1
    rw [a3]; by_cases h : (run (start p ha hb ra rb) evs).a.hasSocket = true <;> simp [h]
  · show (run (start p ha hb ra rb) evs).b.lost.length ≤ 1
    rw [b3]; by_cases h : (run (start p ha hb ra rb) evs).b.hasSocket = true <;> simp [h]

/-- **Nothing after connectionLost**: once a protocol's connectionLost has been called, no continuation
    of the schedule delivers data to it or calls connectionLost again. -/
theorem no_data_after_connectionLost (p : Params) (ha hb : Bool) (ra rb : List AppOp) (evs1 evs2 : List Ev) :
    let s1 := run (start p ha hb ra rb) evs1
    let s2 := run s1 evs2
    (s1.a.lost ≠ [] → s2.a.received = s1.a.received ∧ s2.a.lost = s1.a.lost) ∧
    (s1.b.lost ≠ [] → s2.b.received = s1.b.received ∧ s2.b.lost = s1.b.lost) := by
  intro s1 s2
  obtain ⟨⟨_, a3, _, _⟩, ⟨_, b3, _, _⟩⟩ := good_run evs1 _ (good_start p ha hb ra rb)
  simp only [Inv3, Sys.view] at a3 b3
  constructor
  · intro hl
    have hs : s1.a.hasSocket = false := by
      cases h : s1.a.hasSocket with
      | false => rfl
      | true =>
        have h0 : s1.a.lost.length = 0 := by simpa [s1, h] using a3
        exact absurd (List.eq_nil_of_length_eq_zero h0) hl
    have := frozenAt_run .A s1.a.received s1.a.lost evs2 s1 ⟨hs, rfl, rfl⟩
    exact ⟨this.2.1, this.2.2⟩
  · intro hl
    have hs : s1.b.hasSocket = false := by
      cases h : s1.b.hasSocket with
      | false => rfl
      | true =>
        have h0 : s1.b.lost.length = 0 := by simpa [s1, h] using b3
        exact absurd (List.eq_nil_of_length_eq_zero h0) hl
    have := frozenAt_run .B s1.b.received s1.b.lost evs2 s1 ⟨hs, rfl, rfl⟩
    exact ⟨this.2.1, this.2.2⟩

/-- PARTIAL (towards "clean ConnectionDone after an orderly close"): `doWrite` answers CONNECTION_DONE only
    if loseConnection had been requested and this very call emptied the buffers — with the stream invariant:
    everything the application wrote has been handed to the kernel. -/
theorem done_from_doWrite_only_after_flush_partial (p : Params) (v : View) (n : Nat)
    (hd : (doWrite p v n).1 = some .done) :
    v.c.disconnecting = true ∧ pending (doWrite p v n).2.c = [] :=
  doWrite_done p v n hd

/-! ### non-vacuity: concrete schedules (tiny kernel so that every write is partial) -/

def tiny : Params := { sendLimit := 4, recvMax := 3, cap := 5 }

/-- orderly close: 8 bytes through a 5-byte queue with 4-byte sends and 3-byte reads -/
def demoLose : List Ev :=
  [.app .A (.write [1, 2, 3, 4, 5, 6, 7, 8]), .io .A false true false 0 3, .io .B true false false 2 0,
   .app .A .lose] ++ fairRound ++ fairRound ++ fairRound ++ fairRound

example : (run (start tiny false false [] []) demoLose).b.received = [1, 2, 3, 4, 5, 6, 7, 8] := by decide
example : (run (start tiny false false [] []) demoLose).a.lost = [.done] ∧
          (run (start tiny false false [] []) demoLose).b.lost = [.done] := by decide
example : (run (start tiny false false [] []) demoLose).quiescent = true := by decide

/-- abort with data still buffered: the peer gets a proper prefix and a reset -/
def demoAbort : List Ev :=
  [.app .A (.write [1, 2, 3, 4, 5, 6, 7, 8]), .io .A false true false 0 3, .app .A .abort] ++ fairRound ++ fairRound

example : (run (start tiny false false [] []) demoAbort).b.received = [1, 2, 3] ∧
          (run (start tiny false false [] []) demoAbort).a.lost = [.aborted] ∧
          (run (start tiny false false [] []) demoAbort).b.lost = [.lost] := by decide

/-- half-close with a reply from a half-closeable peer whose readConnectionLost writes and closes -/
def demoHalf : List Ev :=
  [.app .A (.writeSeq [[1, 2], [], [3]]), .app .A .loseWrite] ++ fairRound ++ fairRound ++ fairRound ++
    fairRound ++ fairRound ++ fairRound

example : let s := run (start tiny true true [.lose] [.write [10, 11, 12], .lose]) demoHalf
          s.b.received = [1, 2, 3] ∧ s.a.received = [10, 11, 12] ∧ s.a.lost = [.done] ∧ s.b.lost = [.done] ∧
          s.a.writeLost = 1 ∧ s.b.readLost = 1 := by decide

/-- the hypothesis of `no_data_after_connectionLost` is met and the continuation is not idle -/
example : (run (start tiny false false [] []) demoLose).b.lost ≠ [] := by decide

/-- `done_from_doWrite_only_after_flush_partial` is not vacuous: the last doWrite of `demoLose` returns done -/
def flushing : Conn :=
  { disconnecting := true, writing := true, reading := false, dataBuffer := [7, 8], accepted := [7, 8] }

example : (doWrite tiny ⟨flushing, {}, {}⟩ 9).1 = some .done := by decide

end TwistedProps.C15
